package c04

import (
	"fmt"
	"math"
	"os"
	"runtime"
	"runtime/debug"
	"sort"
	"strconv"
	"strings"
	"time"

	"github.com/openGemini/openGemini/engine"
	"github.com/openGemini/openGemini/lib/fileops"

	"verif/harness/engx"
	"verif/harness/internal/hx"
)

// Lock-point schedules (runs only in the binary built from the instrumented copies, see
// instrument.go). A history is: a random sequential prefix that builds a layout (ordered and
// out-of-order files, rows waiting in the memtable), then ONE race round, then a final read
// of both measurements and Close.
//
// A race round takes two operations A and B out of {query, write, flush, level compaction,
// full compaction, out-of-order merge, close}. A runs alone up to its k-th schedule point (a
// lock-operation boundary or a file-system mutation; k random, or the first occurrence of a
// random site already seen) and is frozen there, with whatever locks it holds. B then runs:
// it either completes while A is frozen - a schedule with one preemption, A[0..k) B A[k..) -
// or it blocks on a lock that A holds (found out by looking at the goroutine states: nothing
// in the process is runnable any more), in which case A is released and both run to their end.
// Every B reads the protocol state right before and right after its operation, in its own
// goroutine; when B completed inside the window the three state differences (before B: A's
// steps so far, B's steps, after B: the rest of A) are single-actor differences and are turned
// into model steps exactly as in the file-system pause-point mode, and a query is placed
// where its composition says it was taken. When B had to wait, the order of the steps is not
// known: the rest of the history is checked against the specification only ("untied").

// ---------------------------------------------------------------------------------------------
// the gate

type lpGate struct {
	actor      string
	target     int
	filter     string
	count      int
	frozen     bool
	reached    chan struct{}
	release    chan struct{}
	stoppedAt  string
	stoppedGid string
	passed     []string
	seen       map[string]int
	held       map[string][]string // goroutine -> locks held or waited for (expression texts)
	heldAtStop []string
	seenFree   map[string]bool // sites passed while the goroutine held no lock
}

func newLPGate(actor string, target int, filter string) *lpGate {
	return &lpGate{actor: actor, target: target, filter: filter, reached: make(chan struct{}), release: make(chan struct{}),
		seen: map[string]int{}, held: map[string][]string{}, seenFree: map[string]bool{}}
}

// classifyLP: which actor of a race round the calling goroutine belongs to.
func classifyLP() string {
	var pcs [96]uintptr
	n := runtime.Callers(3, pcs[:])
	frames := runtime.CallersFrames(pcs[:n])
	actor := actNone
	for {
		fr, more := frames.Next()
		fn := fr.Function
		switch {
		case strings.HasSuffix(fn, "c04.lpQueryBody"):
			return "query"
		case strings.HasSuffix(fn, "c04.lpWriteBody"):
			return "write"
		case strings.HasSuffix(fn, "c04.lpCloseBody"):
			return "close"
		case strings.HasSuffix(fn, "c04.lpDropBody"):
			return "drop"
		case strings.HasSuffix(fn, "c04.lpObserveBody"):
			return actNone
		case strings.Contains(fn, "(*idTimesLoader)"), strings.Contains(fn, "reloadSequencer"), strings.Contains(fn, "(*MmsTables).loadIdTimes"):
			return "loader" // the sequencer's asynchronous id-time reload and its reading goroutines
		case strings.HasSuffix(fn, ".deleteUnorderedFiles"), strings.HasSuffix(fn, ".deleteUnorderedFiles.func1"),
			strings.Contains(fn, "(*mergeTool)."), strings.HasSuffix(fn, ".replaceMergedFiles"), strings.Contains(fn, "mergeOutOfOrder"),
			strings.Contains(fn, "MergeOutOfOrder"), strings.HasSuffix(fn, "c04.lpMergeBody"):
			actor = actMerge
		case strings.Contains(fn, "compactToLevel"), strings.Contains(fn, "(*MmsTables).compact"), strings.Contains(fn, "LevelCompact"),
			strings.Contains(fn, "FullCompact"), strings.HasSuffix(fn, "c04.lpCompactBody"):
			if actor == actNone {
				actor = actCompact
			}
		case strings.Contains(fn, "writeSnapshot"), strings.Contains(fn, "commitSnapshot"), strings.Contains(fn, "FlushChunks"),
			strings.Contains(fn, "RemoveWalFiles"), strings.HasSuffix(fn, "c04.lpFlushBody"):
			if actor == actNone {
				actor = actFlush
			}
		}
		if !more {
			break
		}
	}
	return actor
}

// fsKind: what kind of file a mutation touches (sites of file-system mutations).
func fsKind(rel string) string {
	k := "other"
	switch {
	case strings.HasPrefix(rel, "wal/"):
		k = "wal"
	case strings.HasSuffix(rel, ".tssp.init"):
		k = "tssp.init"
	case strings.HasSuffix(rel, ".tssp"):
		k = "tssp"
	case strings.Contains(rel, "compact_log"):
		k = "compactlog"
	}
	if strings.Contains(rel, "out-of-order") {
		k += "(ooo)"
	}
	return k
}

// lpBefore is the observer's Before hook in lock-point mode.
func (p *pauser) lpBefore(op, path string) {
	p.mu.Lock()
	g := p.lp
	p.mu.Unlock()
	if g == nil {
		return
	}
	site := path
	if op != "point" {
		rel, ok := p.relOf(path)
		if !ok || op == "mkdir" || !(strings.HasPrefix(rel, "data/") || (strings.HasPrefix(rel, "wal/") && op == "remove")) {
			return
		}
		site = "fs:" + op + ":" + fsKind(rel)
	}
	if classifyLP() != g.actor {
		return
	}
	gid := goroutineID()
	// "<file>:<func>:<line> before Lock x" / "… after Unlock x" / "… after deferred RUnlock x"
	kind, lockExpr := "", ""
	if f := strings.Fields(site); op == "point" && len(f) >= 4 {
		lockExpr = f[len(f)-1]
		switch {
		case f[1] == "before" && (f[2] == "Lock" || f[2] == "RLock"):
			kind = "acquire"
		case f[1] == "after":
			kind = "release"
		}
	}
	p.mu.Lock()
	if p.lp != g {
		p.mu.Unlock()
		return
	}
	if kind == "release" {
		h := g.held[gid]
		for i := len(h) - 1; i >= 0; i-- {
			if h[i] == lockExpr {
				g.held[gid] = append(h[:i:i], h[i+1:]...)
				break
			}
		}
	}
	g.seen[site]++
	if len(g.held[gid]) == 0 {
		g.seenFree[site] = true
	}
	var wait chan struct{}
	if g.frozen {
		wait = g.release
	} else {
		match := g.filter == "" || g.filter == site || strings.HasPrefix(g.filter, "~") && containsAll(site, g.filter[1:])
		if match {
			g.count++
		}
		if g.target > 0 && match && g.count == g.target {
			g.frozen = true
			g.stoppedAt, g.stoppedGid = site, gid
			for _, k := range hx.SortedKeys(g.held) {
				g.heldAtStop = append(g.heldAtStop, g.held[k]...)
			}
			close(g.reached)
			wait = g.release
		} else if len(g.passed) < 4000 {
			g.passed = append(g.passed, site)
		}
	}
	p.mu.Unlock()
	if wait != nil {
		<-wait
	}
	if kind == "acquire" {
		p.mu.Lock()
		g.held[gid] = append(g.held[gid], lockExpr)
		p.mu.Unlock()
	}
}

func containsAll(site, parts string) bool {
	for _, p := range strings.Split(parts, "|") {
		if !strings.Contains(site, p) {
			return false
		}
	}
	return true
}

// lpDirected: windows found by reading the code or by earlier findings; they are run first in
// every lock-point run. A site is named by parts of its text (function, kind, lock), not by
// its line. If the site does not exist (any more) the round simply has no preemption.
var lpDirected = []struct {
	a, site, b string
	nth        int // stop at the nth occurrence of the site (0 = first)
}{
	{"W", "shard.WriteRows:|before RLock s.mu", "X", 0},                     // write between its closing check and its lock, Close
	{"Q", "MmsTables.GetBothFilesRef:|after|RUnlock m.mu", "C", 0},          // query between the file lists and whatever follows, full compaction
	{"Q", "MmsTables.GetBothFilesRef:|after|RUnlock m.mu", "M", 0},          // … out-of-order merge
	{"Q", "shard.cloneReaders:|before RLock s.snapshotLock", "F", 0},        // query about to take its view, flush
	{"F", "tsImmTableImpl.AddBothTSSPFiles:|after|RUnlock m.mu", "Q", 0},    // flush between publish and drop, query
	{"M", "MmsTables.deleteUnorderedFiles|after|Unlock tfs.lock", "F", 0},   // merge emptied the out-of-order list, flush publishes
	{"Q", "MmsTables.getFiles:|before Ref f", "C", 0},                       // query about to reference a listed file, full compaction
	{"F", "tsstoreImpl.writeSnapshot:|after Unlock s.snapshotLock", "W", 0}, // flush after switch, write
	{"C", "MmsTables.ReplaceFiles:|before Lock fs.lock", "Q", 0},            // compaction about to swap, query
	{"Q", "TSIndexInfoImpl.unRefFiles:|before Unref file", "X", 0},          // query releasing its files, Close
	{"Q", "MemTable.getSortedRecSafe:|after RUnlock t.mu", "W", 2},          // query between two series cursors, write
	{"Q", "MmsTables.GetBothFilesRef:|after|RUnlock m.mu", "D", 0},          // query holding the files of a measurement, DropMeasurement
	{"D", "MmsTables.DropMeasurement:|before Lock m.mu", "Q", 0},            // drop about to take the measurement out of the maps, query
	{"F", "tsImmTableImpl.AddBothTSSPFiles:|before RLock m.mu", "D", 0},     // flush about to publish, DropMeasurement
	{"C", "tsspFile.Path:|before RLock f.mu", "M", 2},                       // full-compaction plan walking the ordered list, merge replaces it
	{"C", "tsspFile.Path:|before RLock f.mu", "F", 2},                       // … flush appends to it                                  // query releasing, Close
}

// quiescent: no goroutine of the process (other than the caller) is running, runnable or in a
// system call. Goroutines that sleep or wait (locks, channels, timers, the network poller) do
// not count.
func quiescent() bool {
	buf := make([]byte, 1<<20)
	for {
		n := runtime.Stack(buf, true)
		if n < len(buf) {
			buf = buf[:n]
			break
		}
		buf = make([]byte, 2*len(buf))
	}
	me := "goroutine " + goroutineID() + " ["
	active := 0
	for _, blk := range strings.Split(string(buf), "\n\n") {
		if !strings.HasPrefix(blk, "goroutine ") || strings.HasPrefix(blk, me) {
			continue
		}
		i, j := strings.IndexByte(blk, '['), strings.IndexByte(blk, ']')
		if i < 0 || j < i {
			continue
		}
		state := blk[i+1 : j]
		switch {
		case strings.HasPrefix(state, "running"), strings.HasPrefix(state, "runnable"):
			active++
		case strings.HasPrefix(state, "syscall"):
			if !strings.Contains(blk, "os/signal.signal_recv") && !strings.Contains(state, "minutes") {
				active++
			}
		}
	}
	return active == 0
}

// ---------------------------------------------------------------------------------------------
// operations

type lpOp struct {
	kind  string // Q W F c C M X
	ms    string
	asc   bool
	level uint16
	full  bool
	batch []engx.Row
	// results
	vw       *engine.VerifView
	rows     []engine.VerifRow
	err      error
	perr     string
	st1, st2 engine.VerifProtocolState
	observed bool
	done     chan struct{}
}

func (o *lpOp) actor() string {
	switch o.kind {
	case "Q":
		return "query"
	case "W":
		return "write"
	case "F":
		return actFlush
	case "c", "C":
		return actCompact
	case "M":
		return actMerge
	case "D":
		return "drop"
	}
	return "close"
}

func (o *lpOp) String() string {
	switch o.kind {
	case "Q":
		return "Q(" + o.ms + ")"
	case "c":
		return fmt.Sprintf("c%d", o.level)
	case "D":
		return "D(" + o.ms + ")"
	}
	return o.kind
}

func (o *lpOp) isDone() bool {
	select {
	case <-o.done:
		return true
	default:
		return false
	}
}

// the bodies are separate named functions: classifyLP recognises the actor by them.

// safeStack is hx.Safe with the stack of the panic.
func safeStack(f func()) (perr string) {
	defer func() {
		if r := recover(); r != nil {
			perr = fmt.Sprintf("panic: %v\n%s", r, debug.Stack())
		}
	}()
	f()
	return ""
}

func lpQueryBody(sh *engine.VerifShard, o *lpOp) {
	o.perr = safeStack(func() {
		o.vw, o.err = sh.TakeView(o.ms, engx.AllFields(), math.MinInt64, math.MaxInt64, o.asc)
		if o.err == nil {
			o.rows, o.err = o.vw.Read()
			if e := o.vw.Release(); o.err == nil {
				o.err = e
			}
		}
	})
}

func lpWriteBody(sh *engine.VerifShard, o *lpOp) {
	o.perr = safeStack(func() { o.err = sh.Write(engx.ToInflux(o.batch)) })
}

func lpFlushBody(sh *engine.VerifShard, o *lpOp) {
	o.perr = safeStack(func() { sh.Flush() })
}

func lpCompactBody(sh *engine.VerifShard, o *lpOp) {
	o.perr = safeStack(func() {
		if o.kind == "C" {
			o.err = sh.FullCompact()
		} else {
			o.err = sh.LevelCompact(o.level)
		}
	})
}

func lpMergeBody(sh *engine.VerifShard, o *lpOp) {
	o.perr = safeStack(func() { o.err = sh.MergeOutOfOrder(o.full, true) })
}

func lpDropBody(sh *engine.VerifShard, o *lpOp) {
	o.perr = safeStack(func() { o.err = sh.DropMeasurement(o.ms) })
}

func lpCloseBody(sh *engine.VerifShard, o *lpOp) {
	o.perr = safeStack(func() { o.err = sh.CloseShardFirst() })
}

func lpObserveBody(sh *engine.VerifShard) (st engine.VerifProtocolState, perr string) {
	perr = hx.Safe(func() { st = sh.ProtocolState(detMsts) })
	return
}

func lpBody(sh *engine.VerifShard, o *lpOp) {
	switch o.kind {
	case "Q":
		lpQueryBody(sh, o)
	case "W":
		lpWriteBody(sh, o)
	case "F":
		lpFlushBody(sh, o)
	case "c", "C":
		lpCompactBody(sh, o)
	case "M":
		lpMergeBody(sh, o)
	case "X":
		lpCloseBody(sh, o)
	case "D":
		lpDropBody(sh, o)
	}
}

// ---------------------------------------------------------------------------------------------
// what was learnt about the sites of each kind of operation (over the histories of this run)

type lpKnowledge struct {
	maxPoints map[string]int
	sites     map[string]map[string]bool
	free      map[string]bool // sites at which the goroutine held no lock when it was seen there
	covered   map[string]int  // "<A kind>|<site>|<B kind>" -> rounds in which A was frozen there
}

var lpKnown = lpKnowledge{maxPoints: map[string]int{}, sites: map[string]map[string]bool{}, free: map[string]bool{}, covered: map[string]int{}}

// choose picks the site of A at which it was frozen least often with this kind of B; sites at
// which A holds no lock (B can run to its end there) count four times.
func (k *lpKnowledge) choose(r *hx.Rng, a, b string) string {
	var ks []string
	for s := range k.sites[a] {
		ks = append(ks, s)
	}
	if len(ks) == 0 {
		return ""
	}
	sort.Strings(ks)
	best, bestScore := []string{}, 1<<30
	for _, s := range ks {
		score := k.covered[a+"|"+s+"|"+b] * 4
		if !k.free[s] {
			score = score*4 + 3
		}
		if score < bestScore {
			best, bestScore = best[:0], score
		}
		if score == bestScore {
			best = append(best, s)
		}
	}
	return best[r.Intn(len(best))]
}

func (k *lpKnowledge) learn(kind string, g *lpGate) {
	total := 0
	for s, n := range g.seen {
		total += n
		if k.sites[kind] == nil {
			k.sites[kind] = map[string]bool{}
		}
		k.sites[kind][s] = true
	}
	for s := range g.seenFree {
		k.free[s] = true
	}
	if total > k.maxPoints[kind] {
		k.maxPoints[kind] = total
	}
}

// ---------------------------------------------------------------------------------------------
// one history

func sameState(a, b engine.VerifProtocolState) bool {
	if a.HasActive != b.HasActive || a.HasSnapshot != b.HasSnapshot {
		return false
	}
	for _, ms := range detMsts {
		if a.Flushed[ms] != b.Flushed[ms] || a.InSnapshot[ms] != b.InSnapshot[ms] ||
			strings.Join(a.Orders[ms], ",") != strings.Join(b.Orders[ms], ",") ||
			strings.Join(a.OutOfOrders[ms], ",") != strings.Join(b.OutOfOrders[ms], ",") {
			return false
		}
	}
	return true
}

// compOf: the composition a view of ms taken in protocol state st has (canonical text).
func compOf(st engine.VerifProtocolState, ms string) string {
	o := append([]string{}, st.Orders[ms]...)
	u := append([]string{}, st.OutOfOrders[ms]...)
	sort.Strings(o)
	sort.Strings(u)
	snap := "0"
	if st.HasSnapshot && !st.Flushed[ms] {
		// (also when the table being flushed holds no row of the measurement: cloneReaders keeps it)
		snap = "1"
	}
	act := "0"
	if st.HasActive {
		act = "1"
	}
	return fmt.Sprintf("view act=%s snap=%s ord=%s ooo=%s", act, snap, strings.Join(o, ","), strings.Join(u, ","))
}

type lpRun struct {
	*detRun
	hiWater  int
	directed int // index into lpDirected, or -1
}

func (l *lpRun) pendingAny() bool { return l.pendingRows["m0"] || l.pendingRows["m1"] }

// setup builds a layout with sequential operations (tied to the model as in the pause-point
// mode, but nothing is stopped).
func (l *lpRun) setup() error {
	r, sh := l.r, l.sh
	n := 3 + r.Intn(6)
	if l.directed >= 0 {
		// a layout in which every operation has something to do: ordered files, an out-of-order
		// file, rows waiting in the memtable
		for k := 0; k < 3; k++ {
			l.hiWater++
			var rows []engx.Row
			for s := 0; s < detSeriesPerMst*len(detMsts); s++ {
				rows = append(rows, engx.Row{Mst: mstOfSeries(s), Series: s, T: l.hiWater, Fields: map[string]string{"fi": genVal(r, "fi")}})
			}
			if err := l.write(rows, "setup"); err != nil {
				return err
			}
			if perr := hx.Safe(func() { sh.Flush() }); perr != "" {
				return fmt.Errorf("flush: %s", perr)
			}
			l.observe(actFlush, nil)
		}
		var late []engx.Row
		for s := 0; s < detSeriesPerMst*len(detMsts); s++ {
			late = append(late, engx.Row{Mst: mstOfSeries(s), Series: s, T: 1, Fields: map[string]string{"fi": genVal(r, "fi")}})
		}
		if err := l.write(late, "setup"); err != nil {
			return err
		}
		if perr := hx.Safe(func() { sh.Flush() }); perr != "" {
			return fmt.Errorf("flush: %s", perr)
		}
		l.observe(actFlush, nil)
		l.kinds.WriteString("bbbo")
		n = r.Intn(3)
	}
	for i := 0; i < n; i++ {
		x := r.Intn(100)
		switch {
		case x < 35:
			l.kinds.WriteString("w")
			if err := l.write(l.genBatch(&l.hiWater), "setup"); err != nil {
				return err
			}
		case x < 55:
			l.kinds.WriteString("f")
			if perr := hx.Safe(func() { sh.Flush() }); perr != "" {
				return fmt.Errorf("flush: %s", perr)
			}
			l.observe(actFlush, nil)
		case x < 70:
			l.kinds.WriteString("b")
			for k := 0; k < 2+r.Intn(8); k++ {
				if l.hiWater < detTimes-1 {
					l.hiWater++
				}
				var rows []engx.Row
				for s := 0; s < detSeriesPerMst*len(detMsts); s++ {
					if r.Chance(70) {
						rows = append(rows, engx.Row{Mst: mstOfSeries(s), Series: s, T: l.hiWater, Fields: map[string]string{"fi": genVal(r, "fi")}})
					}
				}
				if len(rows) == 0 {
					continue
				}
				if err := l.write(rows, "setup"); err != nil {
					return err
				}
				if perr := hx.Safe(func() { sh.Flush() }); perr != "" {
					return fmt.Errorf("flush: %s", perr)
				}
				l.observe(actFlush, nil)
			}
		case x < 80:
			l.kinds.WriteString("c")
			lv := uint16(r.Intn(2))
			if perr := hx.Safe(func() { sh.LevelCompact(lv) }); perr != "" {
				return fmt.Errorf("compact: %s", perr)
			}
			l.observe(actCompact, nil)
		case x < 90:
			l.kinds.WriteString("m")
			l.mergeGrp = map[string][]string{}
			for _, ms := range detMsts {
				l.mergeGrp[ms] = append([]string{}, l.prev.OutOfOrders[ms]...)
			}
			full := r.Bool()
			if perr := hx.Safe(func() { sh.MergeOutOfOrder(full, true) }); perr != "" {
				return fmt.Errorf("merge: %s", perr)
			}
			l.observe(actMerge, nil)
		default:
			l.kinds.WriteString("q")
			l.query(detMsts[r.Intn(len(detMsts))], r.Bool(), "setup")
		}
	}
	// rows waiting in the memtable, most of the time
	if r.Chance(80) || l.directed >= 0 {
		l.kinds.WriteString("w")
		if err := l.write(l.genBatch(&l.hiWater), "setup"); err != nil {
			return err
		}
	}
	return nil
}

func (l *lpRun) pickOp(first bool, other *lpOp) *lpOp {
	r := l.r
	for {
		x := r.Intn(100)
		o := &lpOp{done: make(chan struct{})}
		switch {
		case x < 36:
			o.kind, o.ms, o.asc = "Q", detMsts[r.Intn(len(detMsts))], r.Bool()
		case x < 48:
			o.kind, o.batch = "W", l.genBatch(&l.hiWater)
		case x < 68:
			o.kind = "F"
		case x < 76:
			o.kind, o.level = "c", uint16(r.Intn(2))
		case x < 82:
			o.kind = "C"
		case x < 91:
			o.kind, o.full = "M", r.Bool()
		case x < 96:
			o.kind, o.ms = "D", detMsts[1]
		default:
			o.kind = "X"
		}
		if first && o.kind == "X" {
			continue
		}
		if other != nil {
			if other.kind == o.kind && o.kind != "Q" && o.kind != "W" {
				continue // two flushes / two merges only queue up behind each other
			}
			if other.kind == "Q" && o.kind == "Q" || other.kind == "W" && o.kind == "W" {
				continue
			}
			if other.actor() == o.actor() {
				continue
			}
		}
		if o.kind == "F" && !l.pendingAny() {
			continue
		}
		return o
	}
}

// waitFrozenOrDone: A reaches its target point or finishes.
func waitFrozenOrDone(g *lpGate, a *lpOp) (frozen, timedOut bool) {
	select {
	case <-g.reached:
		return true, false
	case <-a.done:
		return false, false
	case <-time.After(90 * time.Second):
		return false, true
	}
}

// waitDoneOrBlocked: B finishes, or the whole process has nothing runnable left.
func waitDoneOrBlocked(b *lpOp) (done, timedOut bool) {
	deadline := time.Now().Add(90 * time.Second)
	calm := 0
	wait := 200 * time.Microsecond
	for {
		select {
		case <-b.done:
			return true, false
		case <-time.After(wait):
		}
		if wait < 4*time.Millisecond {
			wait *= 2
		}
		if quiescent() {
			calm++
			if calm >= 3 {
				return false, false
			}
		} else {
			calm = 0
		}
		if time.Now().After(deadline) {
			return false, true
		}
	}
}

func opAnswer(o *lpOp) (ans, rowsText string) {
	switch {
	case o.perr != "":
		return "err " + strings.SplitN(o.perr, "\n", 2)[0], ""
	case o.err != nil:
		return "err " + strings.SplitN(o.err.Error(), "\n", 2)[0], ""
	case o.vw == nil:
		return "err no view", ""
	case o.vw.Empty:
		return "view none rows ", "rows "
	}
	rowsText = engx.DumpText(o.rows)
	return viewText(o.vw) + " " + rowsText, rowsText
}

// rowsByKey parses "rows s:t:v,v,v,v|…" into key -> cell text.
func rowsByKey(rowsText string) map[string]string {
	out := map[string]string{}
	body := strings.TrimPrefix(rowsText, "rows ")
	if body == "" {
		return out
	}
	for _, cell := range strings.Split(body, "|") {
		f := strings.SplitN(cell, ":", 3)
		if len(f) == 3 {
			out[f[0]+":"+f[1]] = f[2]
		}
	}
	return out
}

func (l *lpRun) forcedOp(kind string) *lpOp {
	o := &lpOp{kind: kind, done: make(chan struct{})}
	switch kind {
	case "Q":
		o.ms, o.asc = detMsts[0], l.r.Bool()
	case "W":
		o.batch = l.genBatch(&l.hiWater)
	case "M":
		o.full = true
	case "D":
		o.ms = detMsts[1]
	}
	return o
}

func (l *lpRun) race() error {
	r, sh := l.r, l.sh
	var a, b *lpOp
	target, filter := 0, ""
	if l.directed >= 0 && l.directed < len(lpDirected) {
		dd := lpDirected[l.directed]
		a, b = l.forcedOp(dd.a), l.forcedOp(dd.b)
		if dd.a == "D" && dd.b == "Q" {
			b.ms = a.ms
		}
		if dd.b == "D" && dd.a == "Q" {
			a.ms = b.ms
		}
		filter, target = "~"+dd.site, 1
		if dd.nth > 0 {
			target = dd.nth
		}
		l.c.Count("lp:directed")
	} else {
		a = l.pickOp(true, nil)
		b = l.pickOp(false, a)
	}
	if filter != "" {
	} else if f := lpKnown.choose(r, a.kind, b.kind); f != "" && r.Chance(75) {
		filter, target = f, 1
		if r.Chance(20) {
			target = 2
		}
	} else {
		m := lpKnown.maxPoints[a.kind]
		if m < 30 {
			m = 30
		}
		target = 1 + r.Intn(m)
	}
	l.kinds.WriteString(fmt.Sprintf("[%s|%s]", a, b))
	specBefore := lww{}
	for k, v := range l.spec {
		m := map[string]string{}
		for f, x := range v {
			m[f] = x
		}
		specBefore[k] = m
	}
	st0, _ := lpObserveBody(sh)
	l.observeState(a.actor(), st0, nil) // nothing can have changed; keeps prev exact
	if a.kind == "M" || b.kind == "M" {
		l.mergeGrp = map[string][]string{}
		for _, ms := range detMsts {
			l.mergeGrp[ms] = append([]string{}, st0.OutOfOrders[ms]...)
		}
	}

	g := newLPGate(a.actor(), target, filter)
	l.p.mu.Lock()
	l.p.lp = g
	l.p.mu.Unlock()
	unfreeze := func() {
		l.p.mu.Lock()
		if l.p.lp == g {
			l.p.lp = nil
			close(g.release)
		}
		l.p.mu.Unlock()
	}
	runB := func() {
		var p1, p2 string
		b.st1, p1 = lpObserveBody(sh)
		lpBody(sh, b)
		if b.kind != "X" {
			b.st2, p2 = lpObserveBody(sh)
		}
		b.observed = p1 == "" && p2 == "" && b.kind != "X"
		close(b.done)
	}
	go func() { lpBody(sh, a); close(a.done) }()
	frozen, timedOut := waitFrozenOrDone(g, a)
	if timedOut {
		unfreeze()
		line := l.emit("note lock-point round", "ok")
		l.viol(line, "deadlock", fmt.Sprintf("history %d: %s neither reached its schedule point nor finished within 90 s", l.idx, a))
		return fmt.Errorf("lock-point: %s stuck", a)
	}
	inWindow := false
	if frozen {
		l.sched = append(l.sched, fmt.Sprintf("%s-frozen-at{%s}(holding %s)", a, g.stoppedAt, nameList(g.heldAtStop)))
		l.c.Count("lp:frozen:" + a.kind)
		go runB()
		done, to := waitDoneOrBlocked(b)
		if to {
			unfreeze()
			line := l.emit("note lock-point round", "ok")
			l.viol(line, "deadlock", fmt.Sprintf("history %d: %s did not finish within 90 s while %s was stopped at %s", l.idx, b, a, g.stoppedAt))
			return fmt.Errorf("lock-point: %s stuck", b)
		}
		inWindow = done
		if done {
			l.sched = append(l.sched, fmt.Sprintf("%s-ran-to-its-end", b))
			l.c.Count("lp:B-in-window:" + a.kind + "|" + b.kind)
		} else {
			l.sched = append(l.sched, fmt.Sprintf("%s-blocked", b))
			l.c.Count("lp:B-blocked:" + a.kind + "|" + b.kind)
		}
		unfreeze()
		l.sched = append(l.sched, fmt.Sprintf("%s-resumed", a))
	} else {
		// A finished before its target: nothing is preempted; B runs after it
		l.c.Count("lp:no-preemption:" + a.kind)
		l.sched = append(l.sched, fmt.Sprintf("%s-ran-to-its-end", a))
		unfreeze()
		go runB()
		inWindow = true // sequential: the same inference applies
		l.sched = append(l.sched, fmt.Sprintf("%s-ran-to-its-end", b))
	}
	for _, o := range []*lpOp{a, b} {
		select {
		case <-o.done:
		case <-time.After(90 * time.Second):
			other := a
			if o == a {
				other = b
			}
			line := l.emit("note lock-point round", "ok")
			l.viol(line, "deadlock", fmt.Sprintf("history %d: after %s (stopped at %s, holding %s) was released, %s did not finish within 90 s (other operation: %s)", l.idx, a, g.stoppedAt, nameList(g.heldAtStop), o, other))
			return fmt.Errorf("lock-point: stuck")
		}
	}
	unfreeze()
	lpKnown.learn(a.kind, g)
	if frozen {
		l.pausePoints++
		lpKnown.covered[a.kind+"|"+g.stoppedAt+"|"+b.kind]++
	} else if filter != "" && !strings.HasPrefix(filter, "~") {
		lpKnown.covered[a.kind+"|"+filter+"|"+b.kind]++ // not reached this time: do not insist
	}
	if l.directed >= 0 {
		if frozen {
			l.c.Count("lp:directed-window-reached")
		} else {
			l.c.Count(fmt.Sprintf("lp:directed-window-not-reached:%d", l.directed))
		}
	}

	// ---- panics, errors
	closedNow := a.kind == "X" || b.kind == "X"
	droppedMs := ""
	for _, o := range []*lpOp{a, b} {
		if o.kind == "D" {
			droppedMs = o.ms
			if o.perr == "" && o.err != nil {
				l.c.Count("lp:drop-returned-error")
			}
		}
	}
	for _, o := range []*lpOp{a, b} {
		if o.perr != "" {
			line := l.emit("note lock-point round", "ok")
			l.viol(line, "panic", fmt.Sprintf("history %d: %s panicked: %s", l.idx, o, panicSummary(o.perr)))
		}
	}

	// ---- the writes of the round
	for _, o := range []*lpOp{a, b} {
		if o.kind == "W" && o.perr == "" {
			if o.err != nil && !closedNow {
				line := l.emit("note lock-point round", "ok")
				l.viol(line, "write_rejected", fmt.Sprintf("history %d: a valid write batch was rejected: %v", l.idx, o.err))
			}
		}
	}
	specAfter := func() lww {
		m := lww{}
		for k, v := range specBefore {
			c := map[string]string{}
			for f, x := range v {
				c[f] = x
			}
			m[k] = c
		}
		for _, o := range []*lpOp{a, b} {
			if o.kind == "W" && o.perr == "" && o.err == nil {
				m.apply(o.batch)
			}
		}
		return m
	}()

	// ---- emission: the model steps in the order in which they happened, when it is known
	tied := inWindow && b.observed && !closedNow && droppedMs == ""
	var q, w *lpOp
	for _, o := range []*lpOp{a, b} {
		if o.kind == "Q" {
			q = o
		}
		if o.kind == "W" {
			w = o
		}
	}
	if frozen && tied && (b.kind == "Q" || b.kind == "W") && !sameState(b.st1, b.st2) {
		// another goroutine of A (a second compaction group, …) was still on its way to its next
		// schedule point while B ran
		tied = false
		l.c.Count("lp:state-moved-while-B-ran")
	}
	writeOp := func(o *lpOp) {
		var ts []string
		for _, x := range o.batch {
			ts = append(ts, x.Mst+"/"+x.Text())
		}
		ans := "ack"
		if o.err != nil || o.perr != "" {
			ans = "err closed"
		}
		l.emit("write "+strings.Join(ts, ";"), ans)
		if ans == "ack" {
			for _, x := range o.batch {
				l.pendingRows[x.Mst] = true
			}
		}
	}
	queryOp := func(o *lpOp) (line int, ans, rowsText string) {
		ans, rowsText = opAnswer(o)
		line = l.emit(fmt.Sprintf("query %d %s %s", 1+l.r.Intn(3), o.ms, dirName(o.asc)), ans)
		return
	}
	bgActor := func(o *lpOp) string { return o.actor() }
	isBg := func(o *lpOp) bool { return o.kind == "F" || o.kind == "c" || o.kind == "C" || o.kind == "M" }

	var qLine int
	var qAns, qRows string
	if !tied {
		l.untied = true
		l.c.Count("lp:untied")
		if q != nil {
			qLine, qAns, qRows = queryOp(q)
		}
		if w != nil {
			writeOp(w)
		}
	} else {
		l.c.Count("lp:tied")
		stEnd, _ := lpObserveBody(sh)
		switch {
		case isBg(a) && isBg(b):
			l.observeState(bgActor(a), b.st1, nil)
			if b.kind == "M" {
				for _, ms := range detMsts {
					l.mergeGrp[ms] = append([]string{}, b.st1.OutOfOrders[ms]...)
				}
			}
			l.observeState(bgActor(b), b.st2, nil)
			l.observeState(bgActor(a), stEnd, nil)
		case isBg(a) && b.kind == "Q":
			l.observeState(bgActor(a), b.st1, nil)
			qLine, qAns, qRows = queryOp(b)
			l.checkCompositionAgainst(qLine, b, []engine.VerifProtocolState{b.st1})
			l.observeState(bgActor(a), stEnd, nil)
		case isBg(a) && b.kind == "W":
			l.observeState(bgActor(a), b.st1, nil)
			writeOp(b)
			l.observeState(bgActor(a), stEnd, nil)
		case a.kind == "Q" && isBg(b):
			// where was the view taken? its composition says: before all of B's steps or after them
			ansA, _ := opAnswer(a)
			before := strings.HasPrefix(ansA, compOf(st0, a.ms)+" ") || ansA == "view none rows " && !sameComp(st0, stEnd, a.ms)
			after := strings.HasPrefix(ansA, compOf(stEnd, a.ms)+" ")
			if before && !after {
				qLine, qAns, qRows = queryOp(a)
				l.observeState(bgActor(b), stEnd, nil)
			} else {
				l.observeState(bgActor(b), stEnd, nil)
				qLine, qAns, qRows = queryOp(a)
			}
			l.checkCompositionAgainst(qLine, a, []engine.VerifProtocolState{st0, stEnd})
		case a.kind == "W" && isBg(b):
			// B completed while the write was frozen: its steps come first if the write had not yet
			// been through its critical section (the shared snapshot lock) when it was stopped
			released := false
			for _, site := range append(append([]string{}, g.passed...), g.stoppedAt) {
				if strings.Contains(site, " after ") && strings.Contains(site, "snapshotLock") {
					released = true
				}
			}
			if frozen && !released {
				l.observeState(bgActor(b), stEnd, nil)
				writeOp(a)
			} else {
				writeOp(a)
				l.observeState(bgActor(b), stEnd, nil)
			}
		case q != nil && w != nil:
			// by outcome: the query saw the batch or it did not
			_, rowsQ := opAnswer(q)
			switch {
			case rowsQ == specAfter.read(q.ms, q.asc):
				writeOp(w)
				qLine, qAns, qRows = queryOp(q)
			case rowsQ == specBefore.read(q.ms, q.asc):
				qLine, qAns, qRows = queryOp(q)
				writeOp(w)
			default:
				// part of the batch is visible: a batch is one step of the model
				l.untied = true
				l.c.Count("lp:untied")
				qLine, qAns, qRows = queryOp(q)
				writeOp(w)
			}
			l.checkCompositionAgainst(qLine, q, []engine.VerifProtocolState{st0})
		default:
			l.untied = true
		}
	}
	l.spec = specAfter

	// ---- the query of the round against the specification
	if q != nil && q.perr == "" {
		switch {
		case strings.HasPrefix(qAns, "err "):
			if droppedMs == q.ms {
				l.c.Count("lp:query-overlapping-drop:error")
			} else if !(closedNow && strings.Contains(qAns, "closed")) {
				l.viol(qLine, "read_error", fmt.Sprintf("history %d (%s): %s answered %q", l.idx, l.kinds.String(), q, qAns))
			} else {
				l.c.Count("lp:query-closed-under-it")
			}
		case droppedMs == q.ms:
			// the measurement was being dropped: its rows in the memtable are thrown away by the
			// drop's own flush, its files are delisted - what a query sees meanwhile is not defined
			// (C13 says what is left afterwards); here only: no crash, no deadlock
			l.c.Count("lp:query-overlapping-drop")
		case closedNow:
			// the query overlapped Close. A view taken after Close began is not `ok` in the model
			// (no active table any more, the memtable rows are only in the log; the owner of the shard
			// keeps queries away while it closes it): rows may be missing, but every row that is
			// returned must be the acknowledged one
			want := rowsByKey(specAfter.read(q.ms, q.asc))
			got := rowsByKey(qRows)
			for _, k := range hx.SortedKeys(got) {
				if got[k] != want[k] {
					l.viol(qLine, "torn_read", fmt.Sprintf("history %d (%s): %s overlapped Close and returned %s=%q, acknowledged writes give %q", l.idx, l.kinds.String(), q, k, got[k], want[k]))
				}
			}
			if len(got) < len(want) {
				l.c.Count("lp:query-overlapping-close:rows-missing")
			} else {
				l.c.Count("lp:query-overlapping-close:complete")
			}
		case w == nil:
			if want := specBefore.read(q.ms, q.asc); qRows != want {
				l.viol(qLine, "torn_read", fmt.Sprintf("history %d (%s): %s raced with %s and answered %q, acknowledged writes give %q", l.idx, l.kinds.String(), q, map[bool]*lpOp{true: b, false: a}[q == a], qAns, want))
			}
		default:
			// a write in flight: the rows of a batch are applied one after the other, so for every key
			// the query reads what the key holds after some prefix of the batch (all of it if the
			// whole write ran while the query was frozen, or was acknowledged before the query began)
			got := rowsByKey(qRows)
			var states []map[string]string
			step := lww{}
			for k, v := range specBefore {
				c := map[string]string{}
				for f, x := range v {
					c[f] = x
				}
				step[k] = c
			}
			states = append(states, rowsByKey(step.read(q.ms, q.asc)))
			for i := range w.batch {
				step.apply(w.batch[i : i+1])
				states = append(states, rowsByKey(step.read(q.ms, q.asc)))
			}
			keys := map[string]bool{}
			for _, st := range states {
				for k := range st {
					keys[k] = true
				}
			}
			for k := range got {
				keys[k] = true
			}
			// per series: the cursor of a series copies the series' memtable rows under the series'
			// own lock, the cursors of a query are opened one after the other - so the prefix of the
			// batch that a query reflects may differ from series to series, but all keys of one
			// series agree on one prefix
			bySeries := map[string][]string{}
			for _, k := range hx.SortedKeys(keys) {
				sr := strings.SplitN(k, ":", 2)[0]
				bySeries[sr] = append(bySeries[sr], k)
			}
			prefixes := map[int]bool{}
			for _, sr := range hx.SortedKeys(bySeries) {
				found := -1
				for j, st := range states {
					ok := true
					for _, k := range bySeries[sr] {
						gv, has := got[k]
						sv, had := st[k]
						if has != had || gv != sv {
							ok = false
							break
						}
					}
					if ok {
						found = j
						break
					}
				}
				if found < 0 {
					var detail []string
					for _, k := range bySeries[sr] {
						detail = append(detail, fmt.Sprintf("%s reads %q (before the write %q, after it %q)", k, got[k], states[0][k], states[len(states)-1][k]))
					}
					l.viol(qLine, "torn_row", fmt.Sprintf("history %d (%s): %s raced with a write; the rows of series %s are what the series holds after no prefix of the batch: %s", l.idx, l.kinds.String(), q, sr, strings.Join(detail, "; ")))
					continue
				}
				changed := false
				for _, k := range bySeries[sr] {
					if states[0][k] != states[len(states)-1][k] {
						changed = true
					}
				}
				if changed {
					prefixes[found] = true
				}
			}
			if qRows != specBefore.read(q.ms, q.asc) && qRows != specAfter.read(q.ms, q.asc) {
				l.c.Count("lp:batch-partly-visible")
				if len(prefixes) > 1 {
					l.c.Count("lp:cut-differs-between-series")
				}
			}
		}
	}
	if closedNow {
		l.closed, l.filesClosed = true, true
	}
	if droppedMs != "" {
		// what the measurement holds after the drop is C13's subject; here: no crash, no deadlock,
		// and the other measurement is untouched
		l.dropped = map[string]bool{droppedMs: true}
		for k := range l.spec {
			if k.ms == droppedMs {
				delete(l.spec, k)
			}
		}
		l.c.Count("lp:drop-in-flight")
	}
	return nil
}

// panicSummary: the message and the frames of /repo on the stack.
func panicSummary(perr string) string {
	lines := strings.Split(perr, "\n")
	out := []string{lines[0]}
	for _, ln := range lines[1:] {
		ln = strings.TrimSpace(ln)
		if strings.HasPrefix(ln, "github.com/openGemini/openGemini/") && !strings.Contains(ln, "verif") && len(out) < 9 {
			if i := strings.LastIndexByte(ln, '('); i > 0 {
				ln = ln[:i]
			}
			out = append(out, strings.TrimPrefix(ln, "github.com/openGemini/openGemini/"))
		}
	}
	return strings.Join(out, " < ")
}

func sameComp(a, b engine.VerifProtocolState, ms string) bool { return compOf(a, ms) == compOf(b, ms) }

// checkCompositionAgainst: the composition of a view equals the one that one of the protocol
// states observed around it gives (fifth clause of view_exactly_once, and takeView of the model).
func (l *lpRun) checkCompositionAgainst(line int, q *lpOp, sts []engine.VerifProtocolState) {
	if q.perr != "" || q.err != nil || q.vw == nil {
		return
	}
	got := "view none"
	if !q.vw.Empty {
		got = viewText(q.vw)
	}
	var wants []string
	for _, st := range sts {
		w := compOf(st, q.ms)
		if w == got {
			return
		}
		if got == "view none" && len(st.Orders[q.ms])+len(st.OutOfOrders[q.ms]) == 0 {
			return // (a view over memtables that hold no row of the measurement is reported as none)
		}
		wants = append(wants, w)
	}
	if got == "view none" {
		return
	}
	l.viol(line, "view_matches_no_state", fmt.Sprintf("history %d (%s): %s holds %q; the protocol states observed around it give %q", l.idx, l.kinds.String(), q, got, wants))
}

func runLPHistory(c *hx.Ctx, r *hx.Rng, idx int) error {
	root := engx.ScratchDir("c04lp")
	defer os.RemoveAll(root)
	p := newPauser(root)
	p.lpMode = true
	fileops.SetVerifObserver(p)
	defer fileops.SetVerifObserver(nil)
	engine.VerifSetFlushConcurrency(1)
	sh, err := engine.VerifOpenShard(root, 1)
	if err != nil {
		return err
	}
	sh.DetachFromCompactor()
	d := &detRun{c: c, r: r, idx: idx, sh: sh, p: p, root: root, spec: lww{}, pendingRows: map[string]bool{}, flushFiles: map[string]map[string]bool{}, trace: c.Arg("trace", "") != ""}
	d.prev = engine.VerifProtocolState{Flushed: map[string]bool{}, Orders: map[string][]string{}, OutOfOrders: map[string][]string{}}
	wdDone := make(chan struct{})
	defer close(wdDone)
	go historyWatchdog(c, d, wdDone, wdLimit(c))
	l := &lpRun{detRun: d, hiWater: 2, directed: -1}
	if idx < 2*len(lpDirected) {
		l.directed = idx % len(lpDirected)
	}
	d.emit(fmt.Sprintf("open %d %s", idx, strings.Join(detMsts, ",")), "ok")
	var first []engx.Row
	for s := 0; s < detSeriesPerMst*len(detMsts); s++ {
		first = append(first, engx.Row{Mst: mstOfSeries(s), Series: s, T: 2, Fields: map[string]string{"fi": fmt.Sprint(s)}})
	}
	if err := d.write(first, "setup"); err != nil {
		return err
	}
	sh.FlushIndex()
	p.on = true
	if err := l.setup(); err != nil {
		return err
	}
	if err := l.race(); err != nil {
		hx.Safe(func() { sh.CloseShardFirst() })
		return nil // reported as a violation
	}
	if !d.closed {
		// what the shard holds afterwards
		for _, ms := range detMsts {
			d.query(ms, r.Bool(), "after-race")
		}
		d.emit("closebegin", "ok")
		d.closed = true
		perr := hx.Safe(func() { sh.CloseShardFirst() })
		if perr != "" {
			line := d.emit("note close", "ok")
			d.viol(line, "panic", "Close: "+perr)
		}
		d.emit("closefiles", "ok")
	}
	p.on = false
	nontrivial := d.pausePoints > 0
	if d.trace {
		fmt.Fprintf(os.Stderr, "schedule of %d: %s\n", idx, strings.Join(d.sched, " "))
	}
	c.Case(fmt.Sprintf("lp:%d:%s", idx, d.kinds.String()), nontrivial)
	if nontrivial && idx%7 == 0 {
		from := 0
		if len(d.sched) > 14 {
			from = len(d.sched) - 14
		}
		c.Sample(fmt.Sprintf("lock-point history %d ops=%s tied=%v …%s", idx, d.kinds.String(), !d.untied, strings.Join(d.sched[from:], " ")))
	}
	return nil
}

// ---------------------------------------------------------------------------------------------
// the sequencer's id-time loader as an actor
//
// After a restart the first write starts the asynchronous reload of the sequencer
// (MmsTables.LoadSequencer -> reloadSequencer -> idTimesLoader.Load): one goroutine per data file
// reads the file's (series, last time) pairs. The flush split (ordered / out-of-order) of every
// later flush depends on what it loaded. History: a layout with several ordered files and an
// out-of-order file; Close; reopen; the loader is the gated actor: its reading goroutines are
// frozen at their first schedule point inside tsspFile.LoadIdTimes (or wherever `site` says) while
// B - an out-of-order merge or a full compaction, which replace the files - runs to its end; then
// the loader goes on, late rows (older than the series' last flushed time) are written and
// flushed, both measurements are read and compared with the acknowledged writes, and a full
// compaction runs over the result. Nothing of this history is compared with the model (a restart
// is not a model step; the loader's steps are loaderRef / readView / release).
func runLPReloadHistory(c *hx.Ctx, r *hx.Rng, idx int, bKind, site string) error {
	root := engx.ScratchDir("c04lr")
	defer os.RemoveAll(root)
	p := newPauser(root)
	p.lpMode = true
	fileops.SetVerifObserver(p)
	defer fileops.SetVerifObserver(nil)
	engine.VerifSetFlushConcurrency(1)
	sh, err := engine.VerifOpenShard(root, 1)
	if err != nil {
		return err
	}
	sh.DetachFromCompactor()
	d := &detRun{c: c, r: r, idx: idx, sh: sh, p: p, root: root, spec: lww{}, pendingRows: map[string]bool{}, flushFiles: map[string]map[string]bool{}, trace: c.Arg("trace", "") != ""}
	d.prev = engine.VerifProtocolState{Flushed: map[string]bool{}, Orders: map[string][]string{}, OutOfOrders: map[string][]string{}}
	d.emit(fmt.Sprintf("open %d %s", idx, strings.Join(detMsts, ",")), "ok")
	d.untied = true
	d.kinds.WriteString("reload:")
	wdDone := make(chan struct{})
	defer close(wdDone)
	go historyWatchdog(c, d, wdDone, wdLimit(c))
	allSeries := func(t int) []engx.Row {
		var rows []engx.Row
		for s := 0; s < detSeriesPerMst*len(detMsts); s++ {
			rows = append(rows, engx.Row{Mst: mstOfSeries(s), Series: s, T: t, Fields: map[string]string{"fi": genVal(r, "fi")}})
		}
		return rows
	}
	if err := d.write(allSeries(10), "setup"); err != nil {
		return err
	}
	sh.FlushIndex()
	sh.Flush()
	nOrd := 2 + r.Intn(3)
	for k := 1; k <= nOrd; k++ {
		if err := d.write(allSeries(10+10*k), "setup"); err != nil {
			return err
		}
		sh.Flush()
	}
	if err := d.write(allSeries(5), "setup"); err != nil { // an out-of-order file
		return err
	}
	sh.Flush()
	d.kinds.WriteString(fmt.Sprintf("%dord+ooo,restart,", nOrd+1))
	d.sched = append(d.sched, "restart")
	if perr := safeStack(func() { _ = sh.CloseShardFirst() }); perr != "" {
		return fmt.Errorf("close before restart: %s", perr)
	}
	sh, err = engine.VerifOpenShard(root, 1)
	if err != nil {
		return err
	}
	sh.DetachFromCompactor()
	d.sh = sh
	defer func() { safeStack(func() { _ = sh.CloseShardFirst() }) }()
	p.on = true

	g := newLPGate("loader", 1, "~"+site)
	p.mu.Lock()
	p.lp = g
	p.mu.Unlock()
	unfreeze := func() {
		p.mu.Lock()
		if p.lp == g {
			p.lp = nil
			close(g.release)
		}
		p.mu.Unlock()
	}
	defer unfreeze()
	// the first write after the restart starts the reload
	if err := d.write(allSeries(10+10*(nOrd+1)), "after-restart"); err != nil {
		return err
	}
	frozen := false
	select {
	case <-g.reached:
		frozen = true
	case <-time.After(3 * time.Second):
	}
	d.kinds.WriteString("w[L|" + bKind + "]")
	if frozen {
		d.pausePoints++
		c.Count("lp:loader-frozen")
		d.sched = append(d.sched, fmt.Sprintf("loader-frozen-at{%s}", g.stoppedAt))
	} else {
		c.Count("lp:loader-not-frozen")
		d.sched = append(d.sched, "loader-ran-to-its-end")
	}
	b := &lpOp{kind: bKind, full: true, done: make(chan struct{})}
	go func() { lpBody(sh, b); close(b.done) }()
	done, timedOut := waitDoneOrBlocked(b)
	if timedOut {
		line := d.emit("note loader round", "ok")
		d.viol(line, "deadlock", fmt.Sprintf("history %d: %s did not finish within 90 s while the id-time loader was stopped at %s", idx, b, g.stoppedAt))
		return nil
	}
	if done {
		d.sched = append(d.sched, b.String()+"-ran-to-its-end")
		c.Count("lp:loader:B-in-window:" + bKind)
	} else {
		d.sched = append(d.sched, b.String()+"-blocked")
		c.Count("lp:loader:B-blocked:" + bKind)
	}
	unfreeze()
	d.sched = append(d.sched, "loader-resumed")
	select {
	case <-b.done:
	case <-time.After(90 * time.Second):
		line := d.emit("note loader round", "ok")
		d.viol(line, "deadlock", fmt.Sprintf("history %d: %s did not finish within 90 s after the id-time loader was released", idx, b))
		return nil
	}
	if b.perr != "" {
		line := d.emit("note loader round", "ok")
		d.viol(line, "panic", fmt.Sprintf("history %d: %s: %s", idx, b, panicSummary(b.perr)))
	}
	// let the reload finish
	for i, calm := 0, 0; i < 2000 && calm < 5; i++ {
		time.Sleep(time.Millisecond)
		if quiescent() {
			calm++
		} else {
			calm = 0
		}
	}
	// late rows: older than every series' last flushed time, some of them overwriting
	for _, t := range []int{7, 10 + 10*nOrd, 15} {
		if err := d.write(allSeries(t), "late"); err != nil {
			return err
		}
	}
	d.sched = append(d.sched, "flush")
	if perr := safeStack(func() { sh.Flush() }); perr != "" {
		line := d.emit("note loader round", "ok")
		d.viol(line, "panic", "flush of late rows: "+panicSummary(perr))
	}
	for _, ms := range detMsts {
		d.query(ms, true, "after-reload")
	}
	if d.nviol > 0 {
		// (a compaction over two ordered files that share a (series, time) panics in a scheduler
		// goroutine - 'the time column is not ordered' - and takes the process down)
		p.on = false
		c.Case(fmt.Sprintf("lp:%d:%s", idx, d.kinds.String()), frozen)
		return nil
	}
	d.sched = append(d.sched, "full-compaction")
	var cerr error
	if perr := safeStack(func() { cerr = sh.FullCompact() }); perr != "" {
		line := d.emit("note loader round", "ok")
		d.viol(line, "panic", "full compaction after the reload: "+panicSummary(perr))
	}
	_ = cerr
	for _, ms := range detMsts {
		d.query(ms, r.Bool(), "after-reload-compaction")
	}
	p.on = false
	c.Case(fmt.Sprintf("lp:%d:%s", idx, d.kinds.String()), frozen)
	if d.trace {
		fmt.Fprintf(os.Stderr, "schedule of %d: %s\n", idx, strings.Join(d.sched, " "))
	}
	return nil
}

// historyWatchdog turns a history that does not end into a reported violation (with the
// schedule so far and the goroutines that stand inside /repo) instead of a harness time-out.
func historyWatchdog(c *hx.Ctx, d *detRun, done <-chan struct{}, limit time.Duration) {
	select {
	case <-done:
		return
	case <-time.After(limit):
	}
	buf := make([]byte, 8<<20)
	buf = buf[:runtime.Stack(buf, true)]
	fmt.Fprintf(os.Stderr, "history %d does not end; goroutines:\n%s\n", d.idx, buf)
	var stuck []string
	for _, blk := range strings.Split(string(buf), "\n\n") {
		if !strings.Contains(blk, "github.com/openGemini/openGemini/engine") {
			continue
		}
		lines := strings.Split(blk, "\n")
		state := lines[0]
		if i := strings.IndexByte(state, '['); i >= 0 {
			state = strings.TrimSuffix(state[i:], ":")
		}
		var frames []string
		for _, ln := range lines[1:] {
			ln = strings.TrimSpace(ln)
			if strings.HasPrefix(ln, "github.com/openGemini/openGemini/") && len(frames) < 4 {
				if i := strings.LastIndexByte(ln, '('); i > 0 {
					ln = ln[:i]
				}
				frames = append(frames, strings.TrimPrefix(ln, "github.com/openGemini/openGemini/"))
			}
		}
		if len(stuck) < 12 {
			stuck = append(stuck, state+" "+strings.Join(frames, " < "))
		}
	}
	line := c.Emit("note history does not end", "ok")
	d.viol(line, "deadlock", fmt.Sprintf("history %d (%s) did not end within %s; goroutines inside the engine: %s", d.idx, d.kinds.String(), limit, strings.Join(stuck, " || ")))
	_ = c.Close()
	os.Exit(0)
}

func wdLimit(c *hx.Ctx) time.Duration {
	if v, err := strconv.Atoi(c.Arg("wd", "")); err == nil && v > 0 {
		return time.Duration(v) * time.Second
	}
	return 240 * time.Second
}
