package c07

import (
	"fmt"
	"math"
	"strconv"
	"strings"

	"github.com/openGemini/openGemini/engine/immutable"
	"github.com/openGemini/openGemini/lib/codec"
	"github.com/openGemini/openGemini/lib/config"

	"verif/harness/internal/hx"
)

// Metadata codecs of a TSSP file and lib/codec's scaled int64 lists:
//
//	scaled <v,…>                         → ok <hex>                 (codec.EncodeInt64sWithScale)
//	scaleddec <n> <hex>                  → vals <v,…> <rest> | err  (codec.DecodeInt64sWithScale)
//	cmeta <p|s> <preAgg 0|1> <k> <cm>×k  → ok <hex>×k hdr=<names>   (MarshalChunkMeta, plain / self-compressing)
//	cmetadec <p|s> <names> <hex>         → cm <cm> <rest> | err     (UnmarshalChunkMetaAdaptive)
//	mindex <d> <id> <min> <max> <off> <count> <size> → ok <hex>     (MetaIndex.marshal / marshalDetached)
//	mindexdec <d> <hex>                  → mi <fields> <rest> | err
//	trailer <fields>                     → ok <hex>                 (Trailer.Marshal)
//	trailerdec <hex>                     → tr <fields> <rest> | err (Trailer.Unmarshal)
//	metaconsts                           → the length constants of the readers
//
// <cm> = sid off size cc sc ntr {min max} ncols {name ty preagg nent {off size}}; int64 in
// signed decimal, names / blobs in hex (`-` = empty).  Spec diff: decode(encode x) = x (with the
// documented normalisation: an empty pre-aggregation block reads as 48 zero bytes).
func init() {
	addFamily("scaled", 3, runScaled)
	addFamily("cmeta", 3, runChunkMeta)
	addFamily("mindex", 1, runMetaIndex)
	addFamily("trailer", 1, runTrailer)
}

var metaConstsDone bool

func genInt64Edge(r *hx.Rng) int64 {
	switch r.Intn(8) {
	case 0:
		return []int64{0, 1, -1, math.MaxInt64, math.MinInt64, math.MaxInt64 - 1, math.MinInt64 + 1}[r.Intn(7)]
	case 1:
		return int64(r.U64())
	case 2:
		return int64(r.Intn(1000)) * 1e9
	case 3:
		return -int64(r.Intn(1000)) * 1e6
	case 4:
		return (int64(r.U64()) / 1e9) * 1e9
	case 5:
		return (int64(r.U64()) / 1e3) * 1e3
	default:
		return 1700000000e9 + int64(r.Intn(1e6))*1e3
	}
}

func i64sText(vs []int64) string {
	if len(vs) == 0 {
		return "-"
	}
	parts := make([]string, len(vs))
	for i, v := range vs {
		parts[i] = strconv.FormatInt(v, 10)
	}
	return strings.Join(parts, ",")
}

func runScaled(c *hx.Ctx, r *hx.Rng, st *state) bool {
	n := r.Intn(9)
	if r.Chance(10) {
		n = 20 + r.Intn(200)
	}
	vs := make([]int64, n)
	fam := ""
	switch r.Intn(7) {
	case 0:
		fam = "ns"
		for i := range vs {
			vs[i] = 1700000000e9 + int64(r.Intn(1e9))
		}
	case 1:
		fam = "ms-aligned"
		t := int64(1700000000e9)
		for i := range vs {
			t += int64(r.Intn(1e6)) * 1e6
			vs[i] = t
		}
	case 2:
		fam = "s-aligned"
		t := int64(-5e18)
		for i := range vs {
			t += int64(r.Intn(1e9)) * 1e9
			vs[i] = t
		}
	case 3:
		fam = "aligned-far-apart" // differences that overflow int64
		for i := range vs {
			s := []int64{1e3, 1e6, 1e9}[r.Intn(3)]
			v := (int64(r.U64()>>1) / s) * s
			if i%2 == 0 {
				v = -v
			}
			vs[i] = v
		}
	case 4:
		fam = "edges"
		for i := range vs {
			vs[i] = genInt64Edge(r)
		}
	case 5:
		fam = "unordered-us"
		for i := range vs {
			vs[i] = int64(r.Intn(1e9)) * 1e3
		}
	default:
		fam = "zeros"
	}
	var enc []byte
	perr := hx.Safe(func() { enc = codec.EncodeInt64sWithScale(nil, vs) })
	op := "scaled " + i64sText(vs)
	ans := "ok " + hexBytes(enc)
	if perr != "" {
		ans = "err panic"
	}
	line := c.Emit(op, ans)
	c.Count("scaled:family:" + fam)
	nt := len(enc) > 0 && enc[0] > 0
	c.Case(opKey(op), nt || fam == "aligned-far-apart" || fam == "edges")
	if perr != "" {
		c.Violation(line, "scaled_encode_panic", perr)
		return true
	}
	c.Count(fmt.Sprintf("scaled:idx:%d", enc[0]))
	got := make([]int64, n)
	ptrs := make([]*int64, n)
	for i := range got {
		ptrs[i] = &got[i]
	}
	tail := []byte{0xAB, 0xCD}[:r.Intn(3)]
	buf := append(append([]byte(nil), enc...), tail...)
	var rest []byte
	var ok bool
	perr = hx.Safe(func() { rest, ok = codec.DecodeInt64sWithScale(buf, ptrs...) })
	dans := ""
	switch {
	case perr != "":
		dans = "err panic"
	case !ok:
		dans = "err"
	default:
		dans = fmt.Sprintf("vals %s %d", i64sText(got), len(rest))
	}
	l2 := c.Emit(fmt.Sprintf("scaleddec %d %s", n, hexBytes(buf)), dans)
	if perr != "" || !ok {
		c.Violation(l2, "scaled_decode_failure", perr)
		return true
	}
	if i64sText(got) != i64sText(vs) || len(rest) != len(tail) {
		c.Violation(l2, "scaled_roundtrip", short(fmt.Sprintf("written %s read %s (rest %d, want %d)", i64sText(vs), i64sText(got), len(rest), len(tail))))
	}
	return true
}

var metaNames = []string{"f1", "value", "usage_user", "a", "host_cpu_load_average_15m", "zz", "flt", "str_field", "b0", "温度"}

func cmText(v *immutable.VerifC07ChunkMeta) string {
	var sb strings.Builder
	fmt.Fprintf(&sb, "%d %d %d %d %d %d", v.Sid, v.Offset, v.Size, v.ColumnCount, v.SegCount, len(v.TimeRange))
	for _, tr := range v.TimeRange {
		fmt.Fprintf(&sb, " %d %d", tr[0], tr[1])
	}
	fmt.Fprintf(&sb, " %d", len(v.Cols))
	for _, cl := range v.Cols {
		fmt.Fprintf(&sb, " %s %d %s %d", hexBytes([]byte(cl.Name)), cl.Ty, hexBytes(cl.PreAgg), len(cl.Offsets))
		for i := range cl.Offsets {
			fmt.Fprintf(&sb, " %d %d", cl.Offsets[i], cl.Sizes[i])
		}
	}
	return sb.String()
}

func genChunkMeta(r *hx.Rng, self bool) *immutable.VerifC07ChunkMeta {
	segs := 1 + r.Intn(4)
	if r.Chance(10) {
		segs = 1 + r.Intn(40)
	}
	ncols := 2 + r.Intn(4)
	v := &immutable.VerifC07ChunkMeta{Sid: r.U64(), Offset: int64(r.U64() >> uint(1+r.Intn(40))), Size: uint32(r.U64()),
		ColumnCount: uint32(ncols), SegCount: uint32(segs)}
	if r.Chance(5) {
		v.Sid = []uint64{0, 1, math.MaxUint64}[r.Intn(3)]
	}
	// time ranges: increasing, aligned to ns / us / ms / s; now and then far apart
	t := genInt64Edge(r)
	unit := []int64{1, 1e3, 1e6, 1e9}[r.Intn(4)]
	if unit > 1 {
		t = (t / unit) * unit
	}
	for i := 0; i < segs; i++ {
		a := t
		t += int64(r.Intn(100000)) * unit
		b := t
		t += int64(1+r.Intn(1000)) * unit
		if r.Chance(4) {
			b = (math.MaxInt64 / unit) * unit
			t = b
		}
		v.TimeRange = append(v.TimeRange, [2]int64{a, b})
	}
	used := map[string]bool{}
	off := v.Offset
	for ci := 0; ci < ncols; ci++ {
		name := "time"
		ty := byte(1)
		if ci < ncols-1 {
			for {
				name = metaNames[r.Intn(len(metaNames))]
				if r.Chance(15) {
					name = fmt.Sprintf("field_%d", r.Intn(50))
				}
				if !used[name] {
					break
				}
			}
			used[name] = true
			ty = []byte{1, 3, 4, 5}[r.Intn(4)]
		}
		cl := immutable.VerifC07ColMeta{Name: name, Ty: ty}
		pl := []int{0, 4, 8, 16, 17, 26, 48}[r.Intn(7)]
		if !self && r.Chance(10) {
			pl = 49 + r.Intn(400)
		}
		if self && r.Chance(5) {
			pl = 200 + r.Intn(56) // still below 256
		}
		cl.PreAgg = make([]byte, pl)
		for i := range cl.PreAgg {
			cl.PreAgg[i] = byte(r.U64())
		}
		off += 4 // crc
		for i := 0; i < segs; i++ {
			size := uint32(1 + r.Intn(5000))
			if r.Chance(3) {
				size = uint32(r.U64())
			}
			cl.Offsets = append(cl.Offsets, off)
			cl.Sizes = append(cl.Sizes, size)
			off += int64(size)
			if !self && r.Chance(10) {
				off += int64(r.Intn(100)) // gaps exist only in the plain layout
			}
		}
		v.Cols = append(v.Cols, cl)
	}
	return v
}

func runChunkMeta(c *hx.Ctx, r *hx.Rng, st *state) bool {
	if !metaConstsDone {
		metaConstsDone = true
		c.Emit("metaconsts", immutable.VerifC07Consts())
	}
	self := r.Bool()
	preAgg := !r.Chance(20)
	old := config.GetCommon().PreAggEnabled
	config.GetCommon().PreAggEnabled = preAgg
	defer func() { config.GetCommon().PreAggEnabled = old }()
	k := 1 + r.Intn(3)
	var vs []*immutable.VerifC07ChunkMeta
	var texts []string
	for i := 0; i < k; i++ {
		v := genChunkMeta(r, self)
		vs = append(vs, v)
		texts = append(texts, cmText(v))
	}
	mode := "p"
	if self {
		mode = "s"
	}
	pa := 0
	if preAgg {
		pa = 1
	}
	var blocks [][]byte
	var hdr []string
	var err error
	perr := hx.Safe(func() { blocks, hdr, err = immutable.VerifC07MarshalChunkMetas(vs, self) })
	op := fmt.Sprintf("cmeta %s %d %d %s", mode, pa, k, strings.Join(texts, " "))
	ans := ""
	hdrText := "-"
	if len(hdr) > 0 {
		hs := make([]string, len(hdr))
		for i, h := range hdr {
			hs[i] = hexBytes([]byte(h))
		}
		hdrText = strings.Join(hs, ",")
	}
	switch {
	case perr != "":
		ans = "err panic"
	case err != nil:
		ans = "err"
	default:
		hb := make([]string, len(blocks))
		for i, b := range blocks {
			hb[i] = hexBytes(b)
		}
		ans = "ok " + strings.Join(hb, " ") + " hdr=" + hdrText
	}
	line := c.Emit(op, ans)
	c.Count("cmeta:mode:" + mode)
	c.Case(opKey(op), true)
	if perr != "" || err != nil {
		c.Violation(line, "cmeta_encode_failure", short(perr+fmt.Sprint(err)))
		return true
	}
	for i, b := range blocks {
		tail := []byte{0x11, 0x22, 0x33}[:r.Intn(4)]
		buf := append(append([]byte(nil), b...), tail...)
		var got *immutable.VerifC07ChunkMeta
		var rest int
		perr = hx.Safe(func() { got, rest, err = immutable.VerifC07UnmarshalChunkMeta(buf, hdr, self, nil) })
		dans := ""
		switch {
		case perr != "":
			dans = "err panic"
		case err != nil:
			dans = "err"
		default:
			dans = fmt.Sprintf("cm %s %d", cmText(got), rest)
		}
		l2 := c.Emit(fmt.Sprintf("cmetadec %s %s %s", mode, hdrText, hexBytes(buf)), dans)
		if perr != "" || err != nil {
			c.Violation(l2, "cmeta_decode_failure", short(perr+fmt.Sprint(err)+" "+texts[i]))
			continue
		}
		// expected: what was written, an unwritten / empty pre-aggregation block read as 48 zeros
		want := *vs[i]
		want.Cols = append([]immutable.VerifC07ColMeta(nil), vs[i].Cols...)
		for j := range want.Cols {
			if len(want.Cols[j].PreAgg) == 0 || (!preAgg && want.Cols[j].Name != "time") {
				want.Cols[j].PreAgg = make([]byte, 48)
			}
		}
		if cmText(got) != cmText(&want) || rest != len(tail) {
			c.Violation(l2, "cmeta_roundtrip", short(fmt.Sprintf("mode %s: written %s read %s rest %d/%d", mode, cmText(&want), cmText(got), rest, len(tail))))
		}
	}
	return true
}

func runMetaIndex(c *hx.Ctx, r *hx.Rng, st *state) bool {
	det := r.Chance(30)
	v := immutable.VerifC07MetaIndex{ID: r.U64(), MinTime: genInt64Edge(r), MaxTime: genInt64Edge(r), Offset: int64(r.U64() >> uint(r.Intn(64))),
		Count: uint32(r.U64() >> uint(r.Intn(32))), Size: uint32(r.U64() >> uint(r.Intn(32)))}
	d := 0
	if det {
		d = 1
		v.Count = 0
	}
	var enc []byte
	perr := hx.Safe(func() { enc = immutable.VerifC07MarshalMetaIndex(v, det) })
	txt := fmt.Sprintf("%d %d %d %d %d %d", v.ID, v.MinTime, v.MaxTime, v.Offset, v.Count, v.Size)
	op := fmt.Sprintf("mindex %d %s", d, txt)
	ans := "ok " + hexBytes(enc)
	if perr != "" {
		ans = "err panic"
	}
	line := c.Emit(op, ans)
	c.Case(opKey(op), true)
	if perr != "" {
		c.Violation(line, "mindex_encode_panic", perr)
		return true
	}
	tail := []byte{9, 9}[:r.Intn(3)]
	buf := append(append([]byte(nil), enc...), tail...)
	if r.Chance(5) && len(buf) > 3 {
		buf = buf[:len(enc)-1-r.Intn(3)] // too short: must be an error
		tail = nil
	}
	var got immutable.VerifC07MetaIndex
	var rest int
	var err error
	perr = hx.Safe(func() { got, rest, err = immutable.VerifC07UnmarshalMetaIndex(buf, det) })
	dans := ""
	switch {
	case perr != "":
		dans = "err panic"
	case err != nil:
		dans = "err"
	default:
		dans = fmt.Sprintf("mi %d %d %d %d %d %d %d", got.ID, got.MinTime, got.MaxTime, got.Offset, got.Count, got.Size, rest)
	}
	l2 := c.Emit(fmt.Sprintf("mindexdec %d %s", d, hexBytes(buf)), dans)
	if len(buf) < len(enc) {
		if perr != "" {
			c.Violation(l2, "mindex_short_panic", perr)
		}
		return true
	}
	if perr != "" || err != nil {
		c.Violation(l2, "mindex_decode_failure", perr+fmt.Sprint(err))
		return true
	}
	if got != v || rest != len(tail) {
		c.Violation(l2, "mindex_roundtrip", fmt.Sprintf("written %+v read %+v", v, got))
	}
	return true
}

func trailerText(v *immutable.VerifC07Trailer) string {
	h := "-"
	if v.HasHeader {
		hs := make([]string, len(v.Header))
		for i, s := range v.Header {
			hs[i] = hexBytes([]byte(s))
		}
		h = fmt.Sprintf("%d:%s", len(v.Header), strings.Join(hs, ","))
	}
	return fmt.Sprintf("%d %d %d %d %d %d %d %d %d %d %d %d %d %d %s %d %d %s", v.DataOffset, v.DataSize, v.IndexSize, v.MetaIndexSize,
		v.BloomSize, v.IDTimeSize, v.IDCount, v.MinID, v.MaxID, v.MinTime, v.MaxTime, v.MetaIndexItemNum, v.BloomM, v.BloomK,
		hexBytes(v.Name), v.TimeStoreFlag, v.ChunkMetaCompressFlag, h)
}

func runTrailer(c *hx.Ctx, r *hx.Rng, st *state) bool {
	v := &immutable.VerifC07Trailer{DataOffset: 16, DataSize: int64(r.U64() >> uint(r.Intn(63))), IndexSize: int64(r.U64() >> 20),
		MetaIndexSize: int64(r.Intn(1 << 20)), BloomSize: int64(r.Intn(1 << 20)), IDTimeSize: int64(r.Intn(1 << 20)),
		IDCount: int64(r.Intn(1 << 30)), MinID: r.U64(), MaxID: r.U64(), MinTime: genInt64Edge(r), MaxTime: genInt64Edge(r),
		MetaIndexItemNum: int64(r.Intn(1 << 16)), BloomM: r.U64(), BloomK: uint64(r.Intn(16)),
		TimeStoreFlag: uint8(r.Intn(2)), ChunkMetaCompressFlag: uint8(r.Intn(4))}
	if r.Chance(10) {
		v.DataSize = genInt64Edge(r)
	}
	nm := []string{"mst", "cpu_0000", "", "a", strings.Repeat("m", 300), "温度"}[r.Intn(6)]
	v.Name = []byte(nm)
	if r.Chance(60) {
		v.HasHeader = true
		n := r.Intn(6)
		if r.Chance(5) {
			n = 3000 // more than 64 KiB of names: the reason for the 32-bit length in the flags
		}
		for i := 0; i < n; i++ {
			s := metaNames[r.Intn(len(metaNames))]
			if n > 100 {
				s = fmt.Sprintf("column_name_number_%06d", i)
			}
			v.Header = append(v.Header, s)
		}
	}
	var enc []byte
	perr := hx.Safe(func() { enc = immutable.VerifC07MarshalTrailer(v) })
	op := "trailer " + trailerText(v)
	ans := "ok " + hexBytes(enc)
	if perr != "" {
		ans = "err panic"
	}
	line := c.Emit(op, ans)
	c.Case(opKey(op), v.HasHeader)
	if perr != "" {
		c.Violation(line, "trailer_encode_panic", perr)
		return true
	}
	tail := []byte{7, 7, 7}[:r.Intn(4)]
	buf := append(append([]byte(nil), enc...), tail...)
	var got *immutable.VerifC07Trailer
	var rest int
	var err error
	perr = hx.Safe(func() { got, rest, err = immutable.VerifC07UnmarshalTrailer(buf) })
	dans := ""
	switch {
	case perr != "":
		dans = "err panic"
	case err != nil:
		dans = "err"
	default:
		dans = fmt.Sprintf("tr %s %d", trailerText(got), rest)
	}
	l2 := c.Emit("trailerdec "+hexBytes(buf), dans)
	if perr != "" || err != nil {
		c.Violation(l2, "trailer_decode_failure", short(perr+fmt.Sprint(err)))
		return true
	}
	want := *v
	if want.HasHeader && len(want.Header) == 0 {
		want.HasHeader = false // a header without values is not stored
	}
	if trailerText(got) != trailerText(&want) || rest != len(tail) {
		c.Violation(l2, "trailer_roundtrip", short(fmt.Sprintf("written %s read %s rest %d/%d", short(trailerText(&want)), short(trailerText(got)), rest, len(tail))))
	}
	return true
}
