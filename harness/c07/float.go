package c07

import (
	"fmt"
	"math"

	"github.com/golang/snappy"
	"github.com/influxdata/influxdb/tsdb/engine/tsm1"
	"github.com/openGemini/openGemini/lib/encoding"
	"github.com/openGemini/openGemini/lib/util"

	"verif/harness/internal/hx"
)

func init() { addFamily("float", 12, runFloat) }

var (
	negZero  = math.Float64frombits(1 << 63)
	specials = []uint64{
		0, 1 << 63, // ±0
		0x7ff0000000000000, 0xfff0000000000000, // ±Inf
		0x7ff8000000000000, 0x7ff8000000000001, 0xfff8000000000000, 0x7ff0000000000001, 0x7fffffffffffffff, // NaNs: quiet, payloads, signalling, all ones
		1, 2, 0x000fffffffffffff, 0x8000000000000001, // subnormals
		0x0010000000000000,                     // smallest normal
		0x7fefffffffffffff, 0xffefffffffffffff, // ±MaxFloat64
		0x3ff0000000000000, 0xbff0000000000000, // ±1
	}
)

func fbits(xs []float64) []uint64 {
	out := make([]uint64, len(xs))
	for i, x := range xs {
		out[i] = math.Float64bits(x)
	}
	return out
}

// genFloats returns a family label and the values (bit patterns matter).
func genFloats(r *hx.Rng, thorough bool) (string, []float64) {
	n := genLen(r)
	if r.Chance(10) {
		n = r.Intn(12) // around floatCompressThreshold / floatRLECompressThreshold
	}
	xs := make([]float64, n)
	sp := func() float64 { return math.Float64frombits(specials[r.Intn(len(specials))]) }
	dec := func() float64 { return float64(r.Intn(2000000)-1000000) / []float64{1, 10, 100, 1000}[r.Intn(4)] }
	switch r.Intn(16) {
	case 0: // one value: ordinary or special (incl. −0.0, NaN, ±Inf)
		v := dec()
		if r.Chance(60) {
			v = sp()
		}
		for i := range xs {
			xs[i] = v
		}
		return "constant", xs
	case 1: // +0.0 / −0.0 mixed: equal as floats, different bits
		for i := range xs {
			if r.Bool() {
				xs[i] = negZero
			}
		}
		return "signed-zeros", xs
	case 2: // few distinct values in runs (RLE), zeros among them
		pal := make([]float64, 1+r.Intn(4))
		for i := range pal {
			pal[i] = dec()
			if r.Chance(40) {
				pal[i] = sp()
			}
		}
		i := 0
		for i < n {
			v := pal[r.Intn(len(pal))]
			run := 1 + r.Intn(1+n/3)
			for ; run > 0 && i < n; run-- {
				xs[i] = v
				i++
			}
		}
		return "runs", xs
	case 3: // integers (gorilla path)
		v := float64(r.Intn(1000))
		for i := range xs {
			xs[i] = v
			v += float64(r.Intn(20) - 5)
		}
		return "integers", xs
	case 4: // decimals with at most three places (snappy path)
		for i := range xs {
			xs[i] = float64(r.Intn(100000)) / 1000
		}
		return "decimals3", xs
	case 5: // one or two decimals, some zeros (the sampling loop skips ±0)
		for i := range xs {
			xs[i] = float64(r.Intn(10000)) / 100
			if r.Chance(30) {
				xs[i] = 0
			}
			if r.Chance(5) {
				xs[i] = negZero
			}
		}
		return "decimals-zeros", xs
	case 6: // random doubles
		for i := range xs {
			xs[i] = math.Float64frombits(r.U64())
			if math.IsNaN(xs[i]) || math.IsInf(xs[i], 0) {
				xs[i] = 1.5
			}
		}
		return "random-finite", xs
	case 7: // smooth series (gorilla compresses)
		v := dec()
		for i := range xs {
			xs[i] = v
			v += float64(r.Intn(3)-1) * 0.5
		}
		return "smooth", xs
	case 8: // NaN payloads among ordinary values
		for i := range xs {
			xs[i] = dec()
			if r.Chance(15) {
				xs[i] = math.Float64frombits(0x7ff0000000000000 | (r.U64() & 0x000fffffffffffff) | 1)
			}
		}
		return "nan-payloads", xs
	case 9: // ±Inf among ordinary values (Prometheus remote write delivers them)
		for i := range xs {
			xs[i] = float64(r.Intn(1000))
			if r.Chance(8) {
				xs[i] = math.Inf(1)
			}
			if r.Chance(8) {
				xs[i] = math.Inf(-1)
			}
		}
		return "infinities", xs
	case 10: // only +Inf or only −Inf among integers
		inf := math.Inf(1 - 2*r.Intn(2))
		for i := range xs {
			xs[i] = float64(r.Intn(1000))
			if r.Chance(10) {
				xs[i] = inf
			}
		}
		return "one-infinity", xs
	case 11: // huge magnitudes: the gorilla encoder's running sum overflows
		for i := range xs {
			xs[i] = math.MaxFloat64 / float64(1+r.Intn(4))
			if r.Chance(30) {
				xs[i] = -xs[i]
			}
		}
		return "overflowing-sum", xs
	case 12: // subnormals and specials
		for i := range xs {
			xs[i] = sp()
		}
		return "specials", xs
	case 13: // long runs beyond RLEBlockLimit, and same-value blocks beyond 65535 rows
		if !thorough && !r.Chance(10) {
			for i := range xs {
				xs[i] = float64(i % 3)
			}
			return "small-cycle", xs
		}
		if r.Bool() {
			xs = make([]float64, 65530+r.Intn(12))
			v := dec()
			if r.Chance(30) {
				v = 0
			}
			for i := range xs {
				xs[i] = v
			}
			return "same-65536", xs
		}
		xs = make([]float64, 16380+r.Intn(20000))
		v, w := dec(), dec()
		if r.Chance(30) {
			v = 0
		}
		k := r.Intn(len(xs))
		for i := range xs {
			xs[i] = v
			if i >= k {
				xs[i] = w
			}
		}
		return "long-runs", xs
	case 14: // exactly distinctCount 8 / 9 (RLE threshold)
		d := 7 + r.Intn(3)
		for i := range xs {
			xs[i] = float64(i * d / (n + 1))
		}
		return "rle-threshold", xs
	default: // mostly zeros with a few non-zero decimals
		for i := range xs {
			if r.Chance(10) {
				xs[i] = dec()
			}
		}
		return "sparse", xs
	}
}

func hasSpecial(xs []float64) bool {
	for _, x := range xs {
		if math.IsNaN(x) || math.IsInf(x, 0) || math.Float64bits(x) == 1<<63 {
			return true
		}
	}
	return false
}

// findingClass names the known defect classes by a predicate over the input.
func floatClass(xs []float64) string {
	hasP, hasN, nz := false, false, false
	for _, x := range xs {
		if math.IsInf(x, 1) {
			hasP = true
		}
		if math.IsInf(x, -1) {
			hasN = true
		}
		if math.Float64bits(x) == 1<<63 {
			nz = true
		}
	}
	switch {
	case hasP && hasN:
		return "inf_pair_on_gorilla_path"
	case nz:
		return "neg_zero_in_same_block"
	case len(xs) > 65535:
		return "same_block_over_65535_rows"
	}
	return ""
}

func runFloat(c *hx.Ctx, r *hx.Rng, st *state) bool {
	fam, xs := genFloats(r, c.Tier == "thorough")
	in := util.Float64Slice2byte(xs)
	slen := len(snappy.Encode(nil, in))
	gl := "x"
	if g, gerr := tsm1.FloatArrayEncodeAll(xs, nil); gerr == nil {
		gl = fmt.Sprint(len(g))
	}
	pos := 0
	if r.Chance(25) {
		pos = 1 + r.Intn(40)
	}
	prefix := make([]byte, pos)
	for i := range prefix {
		prefix[i] = byte(r.U64())
	}
	var enc []byte
	var err error
	perr := hx.Safe(func() { enc, err = encoding.EncodeFloatBlock(in, append([]byte(nil), prefix...), st.ctx) })
	op := fmt.Sprintf("float %d %s %s", slen, gl, hexWords(fbits(xs)))
	ans := ""
	mode := -1
	switch {
	case perr != "":
		ans = "err panic"
	case err != nil:
		ans = "err"
	case len(enc) < pos || string(enc[:pos]) != string(prefix):
		ans = "err prefix-clobbered"
	default:
		body := enc[pos:]
		if len(body) > 0 {
			mode = int(body[0] >> 4)
		}
		if mode == 2 || mode == 3 {
			ans = showFrame(1, body)
		} else {
			ans = "ok " + hexBytes(body)
		}
	}
	line := c.Emit(op, ans)
	c.Count("float:family:" + fam)
	c.Count(fmt.Sprintf("float:mode:%d", mode))
	nt := mode >= 2 || hasSpecial(xs)
	c.Case(opKey(op), nt)
	cls := floatClass(xs)
	if perr != "" {
		c.Violation(line, cls, "float encoder panicked: "+perr+" values="+short(hexWords(fbits(xs))))
		return nt
	}
	if err != nil {
		c.Violation(line, cls, "float encoder failed on accepted values: "+err.Error()+" values="+short(hexWords(fbits(xs))))
		return nt
	}
	body := append([]byte(nil), enc[pos:]...)
	var dec []float64
	dpre := r.Intn(3) * 8
	dst := make([]byte, dpre, dpre+r.Intn(8*len(xs)+64))
	perr = hx.Safe(func() { dec, err = encoding.DecodeFloatBlock(body, &dst, st.ctx) })
	switch {
	case perr != "":
		c.Violation(line, cls, "float decoder panicked: "+perr)
	case err != nil:
		c.Violation(line, cls, "float decoder failed: "+err.Error())
	default:
		got := dec[dpre/8:]
		if len(got) != len(xs) {
			c.Violation(line, cls, fmt.Sprintf("float round trip: decoded %d values, encoded %d (mode %d)", len(got), len(xs), mode))
		} else {
			for i := range xs {
				if math.Float64bits(got[i]) != math.Float64bits(xs[i]) {
					c.Violation(line, cls, fmt.Sprintf("float round trip: value %d decoded as %016x, stored %016x (mode %d)", i, math.Float64bits(got[i]), math.Float64bits(xs[i]), mode))
					break
				}
			}
		}
		if (mode == 0 || mode == 4 || mode == 5) && len(body) > 0 {
			c.Emit("floatdec "+hexBytes(body), showVals("vals", fbits(got)))
		}
	}
	if nt {
		c.Sample(short(op) + " => " + short(ans))
	}
	return nt
}
