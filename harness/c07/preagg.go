package c07

import (
	"fmt"
	"math"
	"strconv"
	"strings"

	"github.com/openGemini/openGemini/engine/immutable"

	"verif/harness/internal/hx"
)

// Pre-aggregation (column statistics) blocks of a chunk meta:
//
//	preagg <ty> <self> <v…>     → ok <hex>            (XxxPreAgg.marshal; ty ∈ i f b s t, self = the
//	                                                   self-compressing chunk-meta mode)
//	preaggdec <ty> <hex>        → pa <v…> <rest> | err (XxxPreAgg.unmarshal)
//
// i / f: min max minTime maxTime sum count (float statistics as IEEE bit patterns); b: count
// minTime maxTime minV maxV; s, t: count.  An integer / float block has three forms (one row = 16
// bytes, variable-length < 48 bytes, fixed = 48 bytes) that the reader tells apart by length
// alone: the generator solves for statistics whose variable-length form is exactly 15..17 and
// 46..50 bytes long by enumerating the varint lengths of its fields.
func init() { addFamily("preagg", 3, runPreAgg) }

// a value whose zig-zag varint (binary.AppendVarint) is k bytes long
func varintOfLen(r *hx.Rng, k int) int64 {
	var z uint64
	switch {
	case k <= 1:
		z = r.U64() % 128
	case k >= 10:
		z = 1<<63 | r.U64()>>1
	default:
		lo := uint64(1) << uint(7*(k-1))
		z = lo + r.U64()%(lo*127)
	}
	return int64(z>>1) ^ -int64(z&1)
}

// a value whose uvarint is k bytes long (as uint64)
func uvarintOfLen(r *hx.Rng, k int) uint64 {
	switch {
	case k <= 1:
		return r.U64() % 128
	case k >= 10:
		return 1<<63 | r.U64()>>1
	default:
		lo := uint64(1) << uint(7*(k-1))
		return lo + r.U64()%(lo*127)
	}
}

// a time whose codec.AppendInt64WithScale form is 1+k bytes long
func scaledOfLen(r *hx.Rng, k int) int64 {
	for {
		u := uvarintOfLen(r, k)
		sc := []int64{1, 1e3, 1e6, 1e9}[r.Intn(4)]
		if r.Chance(60) {
			sc = 1
		}
		q := int64(u)
		if q%1000 == 0 {
			q++ // the quotient must not be divisible again, or the scale (and the length) changes
			if uvarintLen(uint64(q)) != k {
				continue
			}
		}
		v := q * sc
		if sc != 1 && v/sc != q {
			continue // overflow
		}
		return v
	}
}

func uvarintLen(u uint64) int {
	n := 1
	for u >= 128 {
		u >>= 7
		n++
	}
	return n
}

// field lengths (min, max, sum, count, minTime, duration) whose variable-length form has `total` bytes
func solveLens(r *hx.Rng, total int, fixed int, nfree int) []int {
	for {
		ls := make([]int, nfree)
		sum := fixed
		for i := range ls {
			ls[i] = 1 + r.Intn(10)
			sum += ls[i]
		}
		if sum == total {
			return ls
		}
	}
}

func i64sSpace(vs []int64) string {
	parts := make([]string, len(vs))
	for i, v := range vs {
		parts[i] = strconv.FormatInt(v, 10)
	}
	return strings.Join(parts, " ")
}

func runPreAgg(c *hx.Ctx, r *hx.Rng, st *state) bool {
	ty := []string{"i", "i", "i", "f", "f", "b", "s", "t"}[r.Intn(8)]
	self := r.Chance(70)
	fam := "random"
	var v []int64
	negZero := false
	switch ty {
	case "i", "f":
		k := r.Intn(10)
		isF := ty == "f"
		switch {
		case k == 0: // one row
			fam = "one-row"
			x := int64(r.U64() >> uint(r.Intn(64)))
			if r.Bool() {
				x = -x
			}
			t := genInt64Edge(r)
			v = []int64{x, x, t, t, x, 1}
		case k <= 5: // boundary lengths of the variable-length form
			fam = "boundary"
			target := []int{15, 16, 17, 46, 47, 48, 49, 50}[r.Intn(8)]
			var mn, mx, sm int64
			var ls []int
			if isF {
				zero := target <= 17
				if zero {
					ls = solveLens(r, target, 1+2, 3) // flag, two scale bytes; count, minTime, duration
				} else {
					ls = solveLens(r, target, 1+24+2, 3)
					mn, mx, sm = int64(math.Float64bits(float64(r.Intn(1000))+0.5)), int64(math.Float64bits(float64(r.Intn(1e6))+1)), int64(r.U64())
				}
				ls = append([]int{0, 0, 0}, ls...)
			} else {
				ls = solveLens(r, target, 2, 6)
				mn, mx, sm = varintOfLen(r, ls[0]), varintOfLen(r, ls[1]), varintOfLen(r, ls[2])
			}
			cnt := int64(uvarintOfLen(r, ls[3]))
			if cnt == 1 {
				cnt = 2
			}
			minT := scaledOfLen(r, ls[4])
			dur := scaledOfLen(r, ls[5])
			v = []int64{mn, mx, minT, minT + dur, sm, cnt}
			fam = fmt.Sprintf("boundary-%d", target)
		case k == 6:
			fam = "extremes"
			v = []int64{genInt64Edge(r), genInt64Edge(r), genInt64Edge(r), genInt64Edge(r), genInt64Edge(r), int64(2 + r.Intn(5000))}
			if r.Chance(20) {
				v[5] = genInt64Edge(r)
				if v[5] == 1 {
					v[5] = 0
				}
			}
			if isF && v[0]<<1 == 0 && v[1]<<1 == 0 {
				// minimum and maximum are zeros: so is every value, and the sum (well-formed statistics)
				v[4] = v[0]
				negZero = v[0] != 0 || v[1] != 0
			}
		case k == 7 && isF:
			fam = "zeros"
			z := int64(0)
			if r.Chance(30) {
				z = math.MinInt64 // -0.0: the variable-length form forgets the sign
				negZero = true
			}
			t := int64(1700000000e9)
			v = []int64{z, z, t, t + int64(r.Intn(1e9)), z, int64(2 + r.Intn(100))}
		default:
			fam = "typical"
			n := int64(2 + r.Intn(3000))
			t := int64(1700000000e9) + int64(r.Intn(1e6))*[]int64{1, 1e3, 1e6, 1e9}[r.Intn(4)]
			mn := int64(r.Intn(1000))
			mx := mn + int64(r.Intn(100000))
			v = []int64{mn, mx, t, t + n*1e9, (mn + mx) / 2 * n, n}
			if isF {
				v[0], v[1], v[4] = int64(math.Float64bits(float64(mn)/8)), int64(math.Float64bits(float64(mx)/8)), int64(math.Float64bits(float64(v[4])/8))
			}
		}
	case "b":
		v = []int64{int64(r.Intn(5000)), genInt64Edge(r), genInt64Edge(r), int64(r.Intn(4)) - 1, int64(r.Intn(4)) - 1}
		if r.Chance(10) {
			v[3], v[4] = int64(int8(r.U64())), int64(int8(r.U64()))
		}
	case "s":
		v = []int64{genInt64Edge(r)}
		if r.Chance(70) {
			v[0] = int64(r.Intn(100000))
		}
	default:
		v = []int64{int64(uint32(r.U64() >> uint(r.Intn(64))))}
	}
	sf := 0
	if self {
		sf = 1
	}
	var enc []byte
	var err error
	perr := hx.Safe(func() { enc, err = immutable.VerifC07PreAggMarshal(ty, self, v) })
	op := fmt.Sprintf("preagg %s %d %s", ty, sf, i64sSpace(v))
	ans := "ok " + hexBytes(enc)
	if perr != "" || err != nil {
		ans = "err"
	}
	line := c.Emit(op, ans)
	c.Count("preagg:type:" + ty)
	c.Count("preagg:family:" + ty + ":" + fam)
	c.Count(fmt.Sprintf("preagg:%s:self=%d:len=%d", ty, sf, len(enc)))
	c.Case(opKey(op), self && (ty == "i" || ty == "f"))
	if perr != "" || err != nil {
		c.Violation(line, "preagg_encode_failure", short(perr+fmt.Sprint(err)))
		return true
	}
	var got []int64
	var rest int
	perr = hx.Safe(func() { got, rest, err = immutable.VerifC07PreAggUnmarshal(ty, append([]byte(nil), enc...)) })
	dans := ""
	switch {
	case perr != "" || err != nil:
		dans = "err"
	default:
		dans = fmt.Sprintf("pa %s %d", i64sSpace(got), rest)
	}
	l2 := c.Emit(fmt.Sprintf("preaggdec %s %s", ty, hexBytes(enc)), dans)
	if perr != "" || err != nil {
		c.Violation(l2, "preagg_decode_failure", short(fmt.Sprintf("%s %v: type %s self=%v statistics %s block %s", perr, err, ty, self, i64sSpace(v), hexBytes(enc))))
		return true
	}
	if i64sSpace(got) != i64sSpace(v) {
		cls := "preagg_roundtrip"
		if negZero && self {
			cls = "preagg_float_negative_zero"
		}
		c.Violation(l2, cls, short(fmt.Sprintf("type %s self=%v, block of %d bytes: statistics written %s read %s", ty, self, len(enc), i64sSpace(v), i64sSpace(got))))
	}
	return true
}
