package c07

import (
	"strings"

	"github.com/openGemini/openGemini/lib/encoding"
	"github.com/openGemini/openGemini/lib/util"

	"verif/harness/internal/hx"
)

func init() { addFamily("bool", 4, runBool) }

func bitString(vs []bool) string {
	if len(vs) == 0 {
		return "-"
	}
	var sb strings.Builder
	for _, v := range vs {
		if v {
			sb.WriteByte('1')
		} else {
			sb.WriteByte('0')
		}
	}
	return sb.String()
}

func runBool(c *hx.Ctx, r *hx.Rng, st *state) bool {
	n := genLen(r)
	if r.Chance(30) {
		n = r.Intn(20) // every length modulo eight, often
	}
	vs := make([]bool, n)
	fam := ""
	switch r.Intn(4) {
	case 0:
		fam = "all-false"
	case 1:
		fam = "all-true"
		for i := range vs {
			vs[i] = true
		}
	case 2:
		fam = "alternating"
		for i := range vs {
			vs[i] = i%2 == 0
		}
	default:
		fam = "random"
		for i := range vs {
			vs[i] = r.Bool()
		}
	}
	pos := 0
	if r.Chance(25) {
		pos = 1 + r.Intn(20)
	}
	prefix := make([]byte, pos)
	for i := range prefix {
		prefix[i] = byte(r.U64())
	}
	in := util.BooleanSlice2byte(vs)
	var enc []byte
	var err error
	perr := hx.Safe(func() { enc, err = encoding.EncodeBooleanBlock(in, append([]byte(nil), prefix...), st.ctx) })
	op := "bool " + bitString(vs)
	ans := ""
	switch {
	case perr != "":
		ans = "err panic"
	case err != nil:
		ans = "err"
	case len(enc) < pos || string(enc[:pos]) != string(prefix):
		ans = "err prefix-clobbered"
	case n == 0:
		// EncodeBooleanBlock returns `out` untouched for an empty column; the coder itself
		// (what the model describes) is then not reached: ask it directly.
		coder := encoding.GetBoolCoder()
		b, _ := coder.Encoding(nil, nil)
		enc = append(enc, b...)
		ans = "ok " + hexBytes(enc[pos:])
	default:
		ans = "ok " + hexBytes(enc[pos:])
	}
	line := c.Emit(op, ans)
	c.Count("bool:family:" + fam)
	c.Case(opKey(op), n > 0)
	if perr != "" || err != nil {
		c.Violation(line, "bool_encode_failure", perr+" "+bitString(vs))
		return true
	}
	body := append([]byte(nil), enc[pos:]...)
	var got []bool
	dst := make([]byte, 0, r.Intn(n+8))
	perr = hx.Safe(func() { got, err = encoding.DecodeBooleanBlock(body, &dst, st.ctx) })
	dans := ""
	switch {
	case perr != "":
		dans = "err panic"
	case err != nil:
		dans = "err"
	default:
		dans = "bits " + bitString(got)
	}
	l2 := c.Emit("booldec "+hexBytes(body), dans)
	if perr != "" || err != nil {
		c.Violation(l2, "bool_decode_failure", perr)
		return true
	}
	if bitString(got) != bitString(vs) {
		c.Violation(l2, "bool_roundtrip", "decoded "+short(bitString(got))+" want "+short(bitString(vs)))
	}
	// a truncated block must be an error, not fabricated values
	if len(body) > 5 && n > 8 && r.Chance(20) {
		cut := body[:5+r.Intn(len(body)-5)]
		var g2 []bool
		dst2 := make([]byte, 0, 8)
		perr = hx.Safe(func() { g2, err = encoding.DecodeBooleanBlock(cut, &dst2, st.ctx) })
		a := ""
		switch {
		case perr != "":
			a = "err panic"
		case err != nil:
			a = "err"
		default:
			a = "bits " + bitString(g2)
		}
		l3 := c.Emit("booldec "+hexBytes(cut), a)
		if perr != "" {
			c.Violation(l3, "bool_truncated_panic", perr)
		} else if err == nil {
			c.Violation(l3, "bool_truncated_decoded", "a truncated block decoded without error")
		}
		c.Count("bool:truncated")
	}
	return true
}
