package c07

import (
	"fmt"
	"strconv"
	"strings"

	"github.com/openGemini/openGemini/lib/errno"
	"github.com/openGemini/openGemini/lib/msgservice"
	"github.com/openGemini/openGemini/lib/raftlog"
	"github.com/openGemini/openGemini/lib/record"

	"verif/harness/internal/hx"
)

// Wire codecs built on lib/codec:
//
//	rec <nf> {name type} <nc> {len nil off val bitmap offs}   → ok <hex>      (record.Record.Marshal)
//	recdec <hex>                                              → rec <same text> | err (Record.Unmarshal)
//	wresp <code> <errno> <message>  / wrespdec <hex>          (msgservice.WritePointsResponse)
//	sreq <points> <n> {- | only:id,id…}  / sreqdec <hex>      (msgservice.WriteStreamPointsRequest)
//	dw <type> <identity> <proposeId> <data>  / dwdec <hex>    (raftlog.DataWrapper)
//
// names / blobs in hex, `-` = empty.  Spec diff: decode(encode x) = x.
func init() {
	addFamily("rec", 3, runRecordCodec)
	addFamily("wmsg", 2, runWireMsgs)
}

func recText(rec *record.Record) string {
	var sb strings.Builder
	fmt.Fprintf(&sb, "%d", len(rec.Schema))
	for _, f := range rec.Schema {
		fmt.Fprintf(&sb, " %s %d", hexBytes([]byte(f.Name)), f.Type)
	}
	fmt.Fprintf(&sb, " %d", len(rec.ColVals))
	for i := range rec.ColVals {
		c := &rec.ColVals[i]
		fmt.Fprintf(&sb, " %d %d %d %s %s %s", c.Len, c.NilCount, c.BitMapOffset, hexBytes(c.Val), hexBytes(c.Bitmap), offsText(c.Offset))
	}
	return sb.String()
}

func runRecordCodec(c *hx.Ctx, r *hx.Rng, st *state) bool {
	rec := &record.Record{}
	fam := "built"
	if r.Chance(70) {
		// a well-formed record built with the append functions
		n := 1 + r.Intn(12)
		ct := colTypes[r.Intn(len(colTypes))]
		_, present := genNulls(r, n)
		_, cells := genCells(r, ct.typ, present)
		rb := record.NewRecordBuilder(record.Schemas{{Name: ct.name, Type: ct.typ}, {Name: "time", Type: 1}})
		for i, cl := range cells {
			col := rb.Column(0)
			switch {
			case !cl.ok && ct.typ == 1:
				col.AppendIntegerNull()
			case !cl.ok && ct.typ == 3:
				col.AppendFloatNull()
			case !cl.ok && ct.typ == 5:
				col.AppendBooleanNull()
			case !cl.ok:
				col.AppendStringNull()
			case ct.typ == 1:
				col.AppendInteger(int64(cl.w))
			case ct.typ == 3:
				col.AppendInteger(int64(cl.w)) // same eight bytes
			case ct.typ == 5:
				col.AppendBoolean(cl.w != 0)
			default:
				col.AppendString(string(cl.s))
			}
			rb.Column(1).AppendInteger(int64(1700000000e9) + int64(i))
		}
		rec = rb
		if r.Chance(30) { // a sliced record: non-zero bitmap offset
			k := r.Intn(n)
			sl := &record.Record{}
			sl.SliceFromRecord(rb, k, n)
			rec = sl
		}
	} else {
		// arbitrary field values: the codec carries them as they are
		fam = "arbitrary"
		nf := r.Intn(4)
		for i := 0; i < nf; i++ {
			nm := []string{"", "a", "time", "温度", strings.Repeat("n", 300)}[r.Intn(5)]
			rec.Schema = append(rec.Schema, record.Field{Name: nm, Type: int(int64(r.U64()) >> uint(r.Intn(64)))})
		}
		nc := r.Intn(4)
		for i := 0; i < nc; i++ {
			cv := record.ColVal{Len: int(int64(r.U64()) >> uint(r.Intn(64))), NilCount: r.Intn(100) - 3, BitMapOffset: r.Intn(9)}
			cv.Val = make([]byte, r.Intn(20))
			for j := range cv.Val {
				cv.Val[j] = byte(r.U64())
			}
			cv.Bitmap = make([]byte, r.Intn(4))
			for j := range cv.Bitmap {
				cv.Bitmap[j] = byte(r.U64())
			}
			for j := r.Intn(5); j > 0; j-- {
				cv.Offset = append(cv.Offset, uint32(r.U64()>>uint(r.Intn(32))))
			}
			rec.ColVals = append(rec.ColVals, cv)
		}
	}
	var enc []byte
	perr := hx.Safe(func() { enc = rec.Marshal(nil) })
	txt := recText(rec)
	op := "rec " + txt
	ans := "ok " + hexBytes(enc)
	if perr != "" {
		ans = "err panic"
	}
	line := c.Emit(op, ans)
	c.Count("rec:family:" + fam)
	c.Case(opKey(op), len(rec.ColVals) > 0)
	if perr != "" {
		c.Violation(line, "rec_encode_panic", perr)
		return true
	}
	if sz := rec.CodecSize(); sz != len(enc) {
		c.Violation(line, "rec_size_mismatch", fmt.Sprintf("CodecSize %d, marshalled %d bytes", sz, len(enc)))
	}
	got := &record.Record{}
	perr = hx.Safe(func() { got.Unmarshal(append([]byte(nil), enc...)) })
	dans := "rec " + recText(got)
	if perr != "" {
		dans = "err"
	}
	l2 := c.Emit("recdec "+hexBytes(enc), dans)
	if perr != "" {
		c.Violation(l2, "rec_decode_panic", short(perr))
		return true
	}
	if recText(got) != txt {
		c.Violation(l2, "rec_roundtrip", short("written "+txt+" read "+recText(got)))
	}
	return true
}

func runWireMsgs(c *hx.Ctx, r *hx.Rng, st *state) bool {
	switch r.Intn(3) {
	case 0: // write response
		msg := []string{"", "ok", "field type conflict", strings.Repeat("e", 70000), "\x00\xff"}[r.Intn(5)]
		w := msgservice.NewWritePointsResponse(uint8(r.U64()), errno.Errno(r.U64()), msg)
		var enc []byte
		perr := hx.Safe(func() { enc, _ = w.Marshal(nil) })
		op := fmt.Sprintf("wresp %d %d %s", w.Code, w.ErrCode, hexBytes([]byte(w.Message)))
		ans := "ok " + hexBytes(enc)
		if perr != "" {
			ans = "err panic"
		}
		line := c.Emit(op, ans)
		c.Case(opKey(op), true)
		if perr != "" {
			c.Violation(line, "wresp_encode_panic", perr)
			return true
		}
		if len(enc) != w.Size() {
			c.Violation(line, "wresp_size_mismatch", fmt.Sprint(len(enc), w.Size()))
		}
		buf := enc
		if r.Chance(10) {
			buf = enc[:r.Intn(3)] // too short
		}
		got := &msgservice.WritePointsResponse{}
		var err error
		perr = hx.Safe(func() { err = got.Unmarshal(append([]byte(nil), buf...)) })
		dans := ""
		switch {
		case perr != "" || err != nil:
			dans = "err"
		default:
			dans = fmt.Sprintf("wresp %d %d %s", got.Code, got.ErrCode, hexBytes([]byte(got.Message)))
		}
		l2 := c.Emit("wrespdec "+hexBytes(buf), dans)
		if len(buf) == len(enc) {
			if perr != "" || err != nil {
				c.Violation(l2, "wresp_decode_failure", short(perr+fmt.Sprint(err)))
			} else if *got != *w {
				c.Violation(l2, "wresp_roundtrip", short(fmt.Sprintf("written %+v read %+v", *w, *got)))
			}
		}
	case 1: // stream write request
		pts := make([]byte, []int{0, 1, 20, 300}[r.Intn(4)])
		for i := range pts {
			pts[i] = byte(r.U64())
		}
		n := r.Intn(5)
		var vars []*msgservice.StreamVar
		var parts []string
		for i := 0; i < n; i++ {
			if r.Chance(25) {
				vars = append(vars, nil)
				parts = append(parts, "-")
				continue
			}
			sv := &msgservice.StreamVar{Only: r.Bool()}
			var ids []string
			for j := r.Intn(4); j > 0; j-- {
				id := r.U64() >> uint(r.Intn(64))
				sv.Id = append(sv.Id, id)
				ids = append(ids, strconv.FormatUint(id, 10))
			}
			vars = append(vars, sv)
			o := 0
			if sv.Only {
				o = 1
			}
			parts = append(parts, fmt.Sprintf("%d:%s", o, strings.Join(ids, ",")))
		}
		w := msgservice.NewWriteStreamPointsRequest(pts, vars)
		var enc []byte
		perr := hx.Safe(func() { enc, _ = w.Marshal(nil) })
		txt := fmt.Sprintf("%s %d", hexBytes(pts), n)
		if n > 0 {
			txt += " " + strings.Join(parts, " ")
		}
		op := "sreq " + txt
		ans := "ok " + hexBytes(enc)
		if perr != "" {
			ans = "err panic"
		}
		line := c.Emit(op, ans)
		c.Case(opKey(op), n > 0)
		if perr != "" {
			c.Violation(line, "sreq_encode_panic", perr)
			return true
		}
		if len(enc) != w.Size() {
			c.Violation(line, "sreq_size_mismatch", fmt.Sprint(len(enc), w.Size()))
		}
		got := &msgservice.WriteStreamPointsRequest{}
		var err error
		perr = hx.Safe(func() { err = got.Unmarshal(append([]byte(nil), enc...)) })
		gtxt := ""
		if perr == "" && err == nil {
			var gp []string
			for _, sv := range got.StreamVars() {
				if sv == nil {
					gp = append(gp, "-")
					continue
				}
				var ids []string
				for _, id := range sv.Id {
					ids = append(ids, strconv.FormatUint(id, 10))
				}
				o := 0
				if sv.Only {
					o = 1
				}
				gp = append(gp, fmt.Sprintf("%d:%s", o, strings.Join(ids, ",")))
			}
			gtxt = fmt.Sprintf("%s %d", hexBytes(got.Points()), len(got.StreamVars()))
			if len(gp) > 0 {
				gtxt += " " + strings.Join(gp, " ")
			}
		}
		dans := "sreq " + gtxt
		if perr != "" || err != nil {
			dans = "err"
		}
		l2 := c.Emit("sreqdec "+hexBytes(enc), dans)
		if perr != "" || err != nil {
			c.Violation(l2, "sreq_decode_failure", short(perr+fmt.Sprint(err)))
		} else if gtxt != txt {
			c.Violation(l2, "sreq_roundtrip", short("written "+txt+" read "+gtxt))
		}
	default: // replication log payload
		il := []int{0, 1, 8, 40, 255, 256, 300}[r.Intn(7)]
		if r.Chance(70) {
			il = 3 + r.Intn(30)
		}
		ident := strings.Repeat("d", il)
		if il > 2 {
			ident = ident[:il-2] + "_" + strconv.Itoa(r.Intn(10))
		}
		data := make([]byte, []int{0, 1, 9, 200}[r.Intn(4)])
		for i := range data {
			data[i] = byte(r.U64())
		}
		d := &raftlog.DataWrapper{Data: data, DataType: raftlog.DataType(r.Intn(3)), Identity: ident, ProposeId: r.U64() >> uint(r.Intn(64))}
		if r.Chance(5) {
			d.DataType = raftlog.DataType(r.U64())
		}
		var enc []byte
		perr := hx.Safe(func() { enc = d.Marshal() })
		txt := fmt.Sprintf("%d %s %d %s", d.DataType, hexBytes([]byte(d.Identity)), d.ProposeId, hexBytes(d.Data))
		op := "dw " + txt
		ans := "ok " + hexBytes(enc)
		if perr != "" {
			ans = "err panic"
		}
		line := c.Emit(op, ans)
		c.Case(opKey(op), true)
		if perr != "" {
			c.Violation(line, "dw_encode_panic", perr)
			return true
		}
		var got *raftlog.DataWrapper
		var err error
		perr = hx.Safe(func() { got, err = raftlog.Unmarshal(append([]byte(nil), enc...)) })
		gtxt := ""
		dans := "err"
		if perr == "" && err == nil {
			gtxt = fmt.Sprintf("%d %s %d %s", got.DataType, hexBytes([]byte(got.Identity)), got.ProposeId, hexBytes(got.Data))
			dans = "dw " + gtxt
		}
		l2 := c.Emit("dwdec "+hexBytes(enc), dans)
		if gtxt != txt {
			cls := "dw_roundtrip"
			if len(ident) > 255 {
				cls = "datawrapper_identity_over_255"
			}
			c.Violation(l2, cls, short(fmt.Sprintf("identity of %d bytes: written %s read %s %s %v", len(ident), short(txt), short(gtxt), short(perr), err)))
		}
	}
	return true
}
