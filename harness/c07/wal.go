package c07

import (
	"bytes"
	"encoding/binary"
	"fmt"
	"math"
	"sort"
	"strings"

	"github.com/golang/snappy"
	"github.com/openGemini/openGemini/engine"
	"github.com/openGemini/openGemini/lib/util/lifted/vm/protoparser/influx"

	"verif/harness/internal/hx"
)

func init() { addFamily("wal", 5, runWal) }

type walRec struct {
	ty      byte
	payload []byte
	rows    []influx.Row
}

func genName(r *hx.Rng) string {
	names := []string{"cpu", "mem", "disk_io", "m", "a b", "é", "net,eth0"}
	return names[r.Intn(len(names))] + fmt.Sprint(r.Intn(3))
}

func genRows(r *hx.Rng) []influx.Row {
	n := 1 + r.Intn(4)
	rows := make([]influx.Row, n)
	for i := range rows {
		row := &rows[i]
		row.Name = genName(r) + "_0000"
		row.Timestamp = int64(r.U64())
		if r.Chance(70) {
			row.Timestamp = 1600000000000000000 + int64(r.Intn(1e9))
		}
		for t := r.Intn(4); t > 0; t-- {
			val := []string{"a", "", "west-1", strings.Repeat("x", r.Intn(300)), "ü=,\" "}[r.Intn(5)]
			row.Tags = append(row.Tags, influx.Tag{Key: fmt.Sprintf("t%d", t), Value: val})
		}
		sort.Slice(row.Tags, func(a, b int) bool { return row.Tags[a].Key < row.Tags[b].Key })
		for f := 1 + r.Intn(4); f > 0; f-- {
			fl := influx.Field{Key: fmt.Sprintf("f%d", f)}
			switch r.Intn(4) {
			case 0:
				fl.Type = influx.Field_Type_Float
				fl.NumValue = math.Float64frombits(specials[r.Intn(len(specials))])
				if r.Bool() {
					fl.NumValue = float64(r.Intn(1000)) / 8
				}
			case 1:
				fl.Type = influx.Field_Type_Int
				fl.NumValue = float64(int64(r.Intn(1 << 40)))
			case 2:
				fl.Type = influx.Field_Type_Boolean
				fl.NumValue = float64(r.Intn(2))
			default:
				fl.Type = influx.Field_Type_String
				fl.StrValue = []string{"", "s", strings.Repeat("long ", r.Intn(200)), "q\"uo\\te"}[r.Intn(4)]
			}
			row.Fields = append(row.Fields, fl)
		}
		sort.Slice(row.Fields, func(a, b int) bool { return row.Fields[a].Key < row.Fields[b].Key })
		if r.Chance(20) {
			row.ShardKey = []byte(row.Name + ",t1=a")
		}
	}
	return rows
}

func rowsEqual(a, b []influx.Row) string {
	if len(a) != len(b) {
		return fmt.Sprintf("row count %d != %d", len(b), len(a))
	}
	for i := range a {
		x, y := &a[i], &b[i]
		if x.Name != y.Name || x.Timestamp != y.Timestamp || !bytes.Equal(x.ShardKey, y.ShardKey) {
			return fmt.Sprintf("row %d: name/time/shard key differ", i)
		}
		if len(x.Tags) != len(y.Tags) || len(x.Fields) != len(y.Fields) {
			return fmt.Sprintf("row %d: tag or field count differs", i)
		}
		for j := range x.Tags {
			if x.Tags[j].Key != y.Tags[j].Key || x.Tags[j].Value != y.Tags[j].Value {
				return fmt.Sprintf("row %d tag %d differs", i, j)
			}
		}
		for j := range x.Fields {
			p, q := x.Fields[j], y.Fields[j]
			if p.Key != q.Key || p.Type != q.Type || p.StrValue != q.StrValue || math.Float64bits(p.NumValue) != math.Float64bits(q.NumValue) {
				return fmt.Sprintf("row %d field %s differs (%x vs %x)", i, p.Key, math.Float64bits(p.NumValue), math.Float64bits(q.NumValue))
			}
		}
	}
	return ""
}

func frame(ty byte, payload []byte) (fr, comp []byte) {
	comp = snappy.Encode(nil, payload)
	fr = make([]byte, 5, 5+len(comp))
	fr[0] = ty
	binary.BigEndian.PutUint32(fr[1:], uint32(len(comp)))
	return append(fr, comp...), comp
}

func runWal(c *hx.Ctx, r *hx.Rng, st *state) bool {
	// complete records
	var recs []walRec
	var data []byte
	tbl := map[string]string{} // comp hex -> "payload hex:flag"
	validRows := map[string]struct{}{} // payloads FastMarshalMultiRows produced
	addTbl := func(comp, payload []byte, ok bool) {
		f := "0"
		if ok {
			f = "1"
		}
		tbl[hexBytes(comp)] = hexBytes(payload) + ":" + f
	}
	mk := func(force byte) (walRec, []byte, []byte) {
		var rec walRec
		if force == 1 || (force == 0 && r.Chance(55)) {
			rec.ty = 1
			rec.rows = genRows(r)
			p, err := influx.FastMarshalMultiRows(nil, rec.rows)
			if err != nil {
				panic(err)
			}
			rec.payload = p
			validRows[string(p)] = struct{}{}
		} else {
			rec.ty = 2
			rec.payload = make([]byte, r.Intn(200))
			for i := range rec.payload {
				rec.payload[i] = byte(r.U64())
				if r.Chance(50) {
					rec.payload[i] = 'a'
				}
			}
		}
		fr, comp := frame(rec.ty, rec.payload)
		addTbl(comp, rec.payload, true)
		return rec, fr, comp
	}
	var lastComp []byte
	for k := r.Intn(4); k > 0; k-- {
		rec, fr, comp := mk(0)
		recs = append(recs, rec)
		data = append(data, fr...)
		lastComp = comp
	}
	// the tail: nothing, a strict prefix of one more frame, or damage
	tail := "clean"
	torn, tornFrame, tornComp := walRec{}, []byte(nil), []byte(nil)
	tornLen := 0 // bytes of the torn frame that made it into data
	switch r.Intn(8) {
	case 0:
	case 1, 2, 3: // torn at a random point
		torn, tornFrame, tornComp = mk(0)
		cut := r.Intn(len(tornFrame))
		data = append(data, tornFrame[:cut]...)
		tornLen = cut
		tail = "torn"
		if cut < 5 {
			tail = "torn-in-header"
		}
	case 4, 5: // exactly the header survived
		torn, tornFrame, tornComp = mk(0)
		if len(lastComp) > 0 && r.Chance(60) {
			// the crash image the defect needed: same length as the record before
			binary.BigEndian.PutUint32(tornFrame[1:5], uint32(len(lastComp)))
		}
		data = append(data, tornFrame[:5]...)
		tornLen = 5
		tail = "header-only"
	case 6: // unknown record type
		data = append(data, byte([]int{0, 3, 4, 255}[r.Intn(4)]), 0, 0, 0, 1, 9)
		tail = "bad-type"
	default: // zero-length body / body that is not snappy
		if r.Bool() {
			data = append(data, 2, 0, 0, 0, 0)
			tail = "zero-length"
		} else {
			junk := []byte{0xff, 0xff, 0xff, 0xff, 0xff, 0x0f, 1, 2}
			data = append(data, 2, 0, 0, 0, byte(len(junk)))
			data = append(data, junk...)
			if dec, err := snappy.Decode(nil, junk); err == nil {
				addTbl(junk, dec, true)
			}
			tail = "not-snappy"
		}
	}
	// what the pooled buffer held before. A reader that wrongly decodes the buffer hands its
	// content to the row unmarshaller when the torn record is a line-protocol one; the row codec
	// trusts its count field (make([]Row, n)), so only well-formed row batches are left there
	// (a regression then shows as fabricated rows, not as the harness running out of memory).
	var stale []byte
	pick := r.Intn(4)
	if torn.ty == 1 && pick == 3 {
		pick = 2
	}
	switch pick {
	case 0:
	case 1: // a complete compressed record of exactly the torn length
		if tornComp != nil {
			stale = append(stale, tornComp...)
		} else if lastComp != nil {
			stale = append(stale, lastComp...)
		}
	case 2: // another valid record (of the torn record's type)
		_, _, comp := mk(torn.ty)
		stale = comp
	default:
		stale = make([]byte, r.Intn(64))
		for i := range stale {
			stale[i] = byte(r.U64())
		}
		if dec, err := snappy.Decode(nil, stale); err == nil {
			addTbl(stale, dec, false)
		}
	}
	// Guard for the harness itself: a reader that (wrongly) decodes an incompletely read buffer
	// hands garbage to the row codec, which trusts its count field (`make([]Row, n)`) — the real
	// consequence is the process dying of memory exhaustion, which would take the harness with
	// it. Simulate what such a reader would see for this tail and buffer; keep only cases whose
	// fabricated batch is a well-formed one (a record delivered twice, or the buffer's previous
	// record): that is reported as a violation instead.
	if tornFrame != nil && (tail == "torn" || tail == "header-only") {
		tl := tornLen
		if tl >= 5 {
			n := int(binary.BigEndian.Uint32(data[len(data)-tl+1 : len(data)-tl+5]))
			avail := data[len(data)-tl+5:]
			unsafeBuf := func(st []byte) bool {
				if n > 1<<24 {
					return true
				}
				if data[len(data)-tl] != 1 {
					return false
				}
				// the buffer as the reader has it when it reaches the torn record: every
				// complete record before left its compressed body at the front
				full := append([]byte(nil), st...)
				rest := data[:len(data)-tl]
				for len(rest) >= 5 {
					m := int(binary.BigEndian.Uint32(rest[1:5]))
					if m > len(rest)-5 {
						break
					}
					if m > len(full) {
						full = append(full, make([]byte, m-len(full))...)
					}
					copy(full, rest[5:5+m])
					rest = rest[5+m:]
				}
				filled := make([]byte, n)
				copy(filled, full)
				copy(filled, avail)
				dec, err := snappy.Decode(nil, filled)
				if err != nil {
					return false
				}
				// garbage that snappy accepts: the row codec trusts every count in it
				_, known := validRows[string(dec)]
				return !known
			}
			if unsafeBuf(stale) {
				stale = nil
			}
			if unsafeBuf(stale) {
				data = data[:len(data)-tl]
				tail = "clean"
			}
		}
	}
	keys := make([]string, 0, len(tbl))
	for k := range tbl {
		keys = append(keys, k)
	}
	sort.Strings(keys)
	ents := make([]string, 0, len(keys))
	for _, k := range keys {
		ents = append(ents, k+":"+tbl[k])
	}
	tb := "-"
	if len(ents) > 0 {
		tb = strings.Join(ents, ",")
	}
	op := "wal " + hexBytes(stale) + " " + hexBytes(data) + " " + tb
	var got []engine.VerifWalRecord
	perr := hx.Safe(func() { got = engine.VerifReplayWalBytes(data, stale) })
	var sb strings.Builder
	sb.WriteString("recs ")
	for _, g := range got {
		fmt.Fprintf(&sb, "%d:%s ", g.Type, hexBytes(g.Payload))
	}
	sb.WriteString("eof")
	ans := sb.String()
	if perr != "" {
		ans = "err panic"
	}
	line := c.Emit(op, ans)
	c.Count("wal:tail:" + tail)
	c.Count(fmt.Sprintf("wal:complete-records:%d", len(recs)))
	c.Case(opKey(op), tail != "clean")
	if perr != "" {
		c.Violation(line, "wal_replay_panic", perr)
		return true
	}
	// spec: exactly the complete records, in order, bit-identical; nothing from the tail
	if len(got) != len(recs) {
		cls := "wal_torn_record_decoded"
		if len(got) < len(recs) {
			cls = "wal_complete_record_lost"
		}
		c.Violation(line, cls, fmt.Sprintf("tail=%s: %d complete records written, %d replayed", tail, len(recs), len(got)))
		return true
	}
	for i := range recs {
		if got[i].Type != recs[i].ty || !bytes.Equal(got[i].Payload, recs[i].payload) {
			c.Violation(line, "wal_record_roundtrip", fmt.Sprintf("record %d differs after replay", i))
			return true
		}
		if recs[i].ty == 1 {
			rows, _, _, _, _, err := influx.FastUnmarshalMultiRows(got[i].Payload, nil, nil, nil, nil, nil)
			if err != nil {
				c.Violation(line, "rows_codec_roundtrip", "FastUnmarshalMultiRows: "+err.Error())
			} else if d := rowsEqual(recs[i].rows, rows); d != "" {
				c.Violation(line, "rows_codec_roundtrip", d)
			}
			c.Count("wal:rows-batches")
		}
	}
	if tail != "clean" {
		c.Sample(short(op) + " => " + short(ans))
	}
	return true
}
