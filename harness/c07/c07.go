// Package c07: correspondence harness for C07 ("every persistent and wire encoding decodes to
// exactly what was encoded"). It drives the real codecs of lib/encoding, lib/compress, the
// simple8b package and the WAL record reader in-process on generated inputs, writes the
// observed bytes / chosen modes (impl.out), the same case for the Lean model (ops.txt) and the
// round-trip verdict computed in Go (viol.out).
package c07

import (
	"crypto/sha256"
	"fmt"
	"strconv"
	"strings"

	"verif/harness/internal/hx"
)

func init() { hx.Register("C07", Run) }

// a family runs one generated case and returns true when the case was non-trivial by the
// property's rule (a non-raw mode was chosen, or the input carries an extreme value / null
// pattern / torn record).
type family struct {
	name   string
	weight int
	run    func(c *hx.Ctx, r *hx.Rng, st *state) bool
}

var families []family

func addFamily(name string, weight int, run func(c *hx.Ctx, r *hx.Rng, st *state) bool) {
	families = append(families, family{name, weight, run})
}

func Run(c *hx.Ctx) error {
	c.Stats.Rule = "generated column segments per codec: ints/times (constant, const-delta, small deltas of every simple8b width, runs of ones around 120/240, int64 extremes, overflowing deltas, decimal-scaled jitter, deltas at simple8b.MaxValue, random 64-bit; lengths 0..3200), floats as bit patterns (constant incl. -0.0/NaN/Inf, signed zeros, runs, integers, decimals, NaN payloads, +-Inf, subnormals, overflowing sums, runs beyond RLEBlockLimit, >65535 equal rows), bools, strings (empty, 64 KiB, incompressible; snappy/zstd/lz4), simple8b value lists, WAL files (0-3 records + torn / header-only / damaged tail, stale pooled buffer), column segments through the chunk encoder of a flush and the file reader's segment decoder (int/float/bool/string + time; 1 row, seg-1, seg, seg+1, k*seg+1 rows; no/all/alternating/sparse/first/last nulls; empty strings, 15/16/17-byte strings, one value repeated; segment sizes 8..64, 1000 and not multiples of eight = validity bits at a bit offset), whole files through a real shard (null patterns, 1-3 segments, single-row series, k*1000+1 rows with a lone \"\" / null / zero last row, reopen); each case is encoded by the real code, the exact bytes (library payloads: frame + observed length) compared with the Lean model, decoded by the real code (round trip = spec) and by the model; non-trivial = a non-raw mode was chosen or the input carries an extreme value / torn tail / reopen; distinct by op line"
	n := c.Budget(40000, 1500000)
	// hx seeds are offsets into one splitmix sequence (seed+2 replays seed shifted by a case):
	// re-seed from a mixed value so that different seeds give unrelated runs
	r := hx.NewRng(hx.NewRng(c.Seed).U64() ^ (c.Seed * 0xD6E8FEB86659FD93))
	st := newState()
	only := c.Arg("family", "")
	// whole-file cases open a real shard (~100 ms each): a fixed share of the run
	for i := range families {
		if families[i].name == "file" {
			families[i].weight = 0
		}
		// a WAL case replays a file through the real reader (~20 ms): a small share of the
		// quick tier, the full share of the thorough one
		if families[i].name == "wal" && c.Tier != "thorough" {
			families[i].weight = 1
		}
	}
	nFiles := c.Budget(40, 2500)
	if c.N > 0 {
		nFiles = c.N / 600
	}
	if only == "file" {
		nFiles = n
		n = 0
	} else if only != "" {
		nFiles = 0
	}
	total := 0
	for _, f := range families {
		if only == "" || strings.HasPrefix(f.name, only) {
			total += f.weight
		}
	}
	if total == 0 && nFiles == 0 {
		return fmt.Errorf("no family matches %q", only)
	}
	for i := 0; i < n; i++ {
		k := r.Intn(total)
		for _, f := range families {
			if only != "" && !strings.HasPrefix(f.name, only) {
				continue
			}
			if k < f.weight {
				f.run(c, r.Fork(), st)
				c.Count("family:" + f.name)
				break
			}
			k -= f.weight
		}
	}
	// whole-file cases last: a regression in the segment framing is then reported first by the
	// `colseg` case that shows the exact column
	for i := 0; i < nFiles; i++ {
		runFile(c, r.Fork(), st)
		c.Count("family:file")
	}
	return nil
}

// ---- canonical text (must match OG/C07/Driver.lean) ------------------------------------------

const hexdigits = "0123456789abcdef"

func hexBytes(b []byte) string {
	if len(b) == 0 {
		return "-"
	}
	var sb strings.Builder
	sb.Grow(2 * len(b))
	for _, x := range b {
		sb.WriteByte(hexdigits[x>>4])
		sb.WriteByte(hexdigits[x&15])
	}
	return sb.String()
}

func hexWords(ws []uint64) string {
	var sb strings.Builder
	for i, w := range ws {
		if i > 0 {
			sb.WriteByte(' ')
		}
		sb.WriteString(strconv.FormatUint(w, 16))
	}
	return sb.String()
}

func showVals(pre string, ws []uint64) string {
	if len(ws) == 0 {
		return pre
	}
	return pre + " " + hexWords(ws)
}

func showFrame(hdr int, b []byte) string {
	return "ok " + hexBytes(b[:hdr]) + "+" + strconv.Itoa(len(b)-hdr)
}

func i64u(xs []int64) []uint64 {
	out := make([]uint64, len(xs))
	for i, x := range xs {
		out[i] = uint64(x)
	}
	return out
}

// opKey identifies a case for the distinct count without keeping the (long) op line alive.
func opKey(op string) string {
	h := sha256.Sum256([]byte(op))
	return string(h[:16])
}

func short(s string) string {
	if len(s) > 300 {
		return s[:300] + "…"
	}
	return s
}
