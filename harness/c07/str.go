package c07

import (
	"bytes"
	"encoding/binary"
	"fmt"
	"strings"

	ksnappy "github.com/klauspost/compress/snappy"
	"github.com/openGemini/openGemini/lib/encoding"
	"github.com/openGemini/openGemini/lib/util/lifted/encoding/lz4"

	"verif/harness/internal/hx"
)

func init() { addFamily("str", 6, runStr) }

func genStrings(r *hx.Rng) (string, [][]byte) {
	n := 1 + r.Intn(30)
	if r.Chance(10) {
		n = 200 + r.Intn(800)
	}
	if r.Chance(4) {
		n = 0
	}
	out := make([][]byte, n)
	fam := ""
	switch r.Intn(7) {
	case 0:
		fam = "all-empty"
	case 1:
		fam = "short-words"
		words := []string{"a", "host-01", "", "GET /index.html", "ü", "\x00", "error", "warn"}
		for i := range out {
			out[i] = []byte(words[r.Intn(len(words))])
		}
	case 2:
		fam = "random-bytes" // incompressible: falls back to the raw frame
		for i := range out {
			b := make([]byte, r.Intn(40))
			for j := range b {
				b[j] = byte(r.U64())
			}
			out[i] = b
		}
	case 3:
		fam = "one-long" // a 64 KiB value among short ones
		for i := range out {
			out[i] = []byte("v")
		}
		if n > 0 {
			b := make([]byte, 65536)
			for j := range b {
				b[j] = byte('a' + j%7)
				if r.Chance(3) {
					b[j] = byte(r.U64())
				}
			}
			out[r.Intn(n)] = b
		}
	case 4:
		fam = "repetitive"
		for i := range out {
			out[i] = []byte(strings.Repeat("level=info msg=ok ", 1+r.Intn(5)))
		}
	case 5:
		fam = "mixed-empty"
		for i := range out {
			if r.Bool() {
				out[i] = []byte(fmt.Sprintf("value-%d", r.Intn(1000)))
			}
		}
	default:
		fam = "binary-runs"
		for i := range out {
			out[i] = bytes.Repeat([]byte{byte(r.U64())}, r.Intn(100))
		}
	}
	return fam, out
}

func packV2(strs [][]byte) []byte {
	var data []byte
	for _, s := range strs {
		data = append(data, s...)
	}
	b := make([]byte, 0, 12+len(data)+4*len(strs))
	b = binary.BigEndian.AppendUint32(b, 0xFFFFFFFE)
	b = binary.BigEndian.AppendUint32(b, uint32(len(data)))
	b = append(b, data...)
	b = binary.BigEndian.AppendUint32(b, uint32(len(strs)))
	for _, s := range strs {
		b = binary.BigEndian.AppendUint32(b, uint32(len(s)))
	}
	return b
}

func strsText(strs [][]byte) string {
	if len(strs) == 0 {
		return "_"
	}
	parts := make([]string, len(strs))
	for i, s := range strs {
		parts[i] = hexBytes(s)
	}
	return strings.Join(parts, ",")
}

func runStr(c *hx.Ctx, r *hx.Rng, st *state) bool {
	fam, strs := genStrings(r)
	ty := 1 + r.Intn(3)
	if r.Chance(50) {
		ty = 1 // the default
	}
	var data []byte
	offs := make([]uint32, len(strs))
	for i, s := range strs {
		offs[i] = uint32(len(data))
		data = append(data, s...)
	}
	// observed compressed length of the packed bytes, by the same library call
	src := packV2(strs)
	clen := 0
	switch ty {
	case 1:
		clen = len(ksnappy.Encode(nil, src))
	case 2:
		clen = len(st.zenc.EncodeAll(src, nil))
	default:
		dst := make([]byte, lz4.CompressBlockBound(len(src)))
		n, err := lz4.CompressBlock(src, dst)
		if err != nil {
			n = 0
		}
		clen = n
	}
	ctx := encoding.NewCoderContext()
	coder := encoding.GetStringCoder()
	coder.SetEncodingType(ty)
	ctx.SetStringCoder(coder)
	// the coder goes back to a process-wide pool: leave it as a fresh one (type 0 = "take the
	// configured algorithm"), or the column builder of a later case inherits this case's type
	defer func() {
		coder.SetEncodingType(0)
		ctx.Release()
	}()
	pos := 0
	if r.Chance(25) {
		pos = 1 + r.Intn(30)
	}
	prefix := make([]byte, pos)
	for i := range prefix {
		prefix[i] = byte(r.U64())
	}
	var enc []byte
	var err error
	perr := hx.Safe(func() { enc, err = encoding.EncodeStringBlock(data, offs, append([]byte(nil), prefix...), ctx) })
	op := fmt.Sprintf("str %d %d %s", ty, clen, strsText(strs))
	ans := ""
	mode := -1
	switch {
	case perr != "":
		ans = "err panic"
	case err != nil:
		ans = "err"
	case len(enc) < pos || string(enc[:pos]) != string(prefix):
		ans = "err prefix-clobbered"
	default:
		body := enc[pos:]
		if len(body) > 0 {
			mode = int(body[0] >> 4)
		}
		if mode > 0 {
			ans = showFrame(9, body)
		} else {
			ans = "ok " + hexBytes(body)
		}
	}
	line := c.Emit(op, ans)
	c.Count("str:family:" + fam)
	c.Count(fmt.Sprintf("str:type:%d:mode:%d", ty, mode))
	c.Case(opKey(op), mode > 0 || len(strs) == 0)
	if perr != "" || err != nil {
		c.Violation(line, "str_encode_failure", perr+fmt.Sprint(err))
		return true
	}
	body := append([]byte(nil), enc[pos:]...)
	var gotData []byte
	var gotOffs []uint32
	dpre := []byte("pre")[:r.Intn(2)*3]
	outBuf := append([]byte(nil), dpre...)
	var offBuf []uint32
	perr = hx.Safe(func() { gotData, gotOffs, err = encoding.DecodeStringBlock(body, &outBuf, &offBuf, ctx) })
	switch {
	case perr != "":
		c.Violation(line, "str_decode_panic", perr)
	case err != nil:
		c.Violation(line, "str_decode_error", err.Error())
	default:
		gd := gotData[len(dpre):]
		if !bytes.Equal(gd, data) || len(gotOffs) != len(offs) {
			c.Violation(line, "str_roundtrip", fmt.Sprintf("decoded %d bytes / %d offsets, encoded %d / %d (mode %d)", len(gd), len(gotOffs), len(data), len(offs), mode))
		} else {
			for i := range offs {
				if offs[i] != gotOffs[i] {
					c.Violation(line, "str_roundtrip", fmt.Sprintf("offset %d: got %d want %d", i, gotOffs[i], offs[i]))
					break
				}
			}
		}
		if mode == 0 && len(body) < 4000 {
			os := make([]string, len(gotOffs))
			for i, o := range gotOffs {
				os[i] = fmt.Sprint(o)
			}
			o := "-"
			if len(os) > 0 {
				o = strings.Join(os, ",")
			}
			c.Emit("strdec "+hexBytes(body), "strs "+hexBytes(gd)+" "+o)
		}
	}
	return true
}
