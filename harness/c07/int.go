package c07

import (
	"fmt"
	"math"

	"github.com/klauspost/compress/zstd"
	"github.com/openGemini/openGemini/lib/encoding"
	"github.com/openGemini/openGemini/lib/util"
	"github.com/openGemini/openGemini/lib/util/lifted/encoding/simple8b"

	"verif/harness/internal/hx"
)

// state shared by all cases of a run: pooled coder contexts are reused on purpose (stale
// state in a pooled coder is part of what is being checked).
type state struct {
	ctx  *encoding.CoderContext
	zenc *zstd.Encoder
}

func newState() *state {
	z, err := zstd.NewWriter(nil, zstd.WithEncoderCRC(false), zstd.WithEncoderLevel(zstd.SpeedFastest))
	if err != nil {
		panic(err)
	}
	return &state{ctx: encoding.NewCoderContext(), zenc: z}
}

func init() {
	addFamily("s8b", 3, runS8b)
	addFamily("int", 10, runInt)
}

var extremes = []int64{math.MinInt64, math.MaxInt64, 0, -1, 1, math.MinInt64 + 1, math.MaxInt64 - 1,
	1 << 59, -(1 << 59), 1<<59 - 1, -(1 << 59) - 1, 1 << 60, 1 << 62, -(1 << 62)}

func genLen(r *hx.Rng) int {
	switch k := r.Intn(100); {
	case k < 8:
		return r.Intn(4) // 0..3
	case k < 70:
		return 3 + r.Intn(40)
	case k < 90:
		return 40 + r.Intn(300)
	case k < 97:
		return 900 + r.Intn(200) // around one segment
	default:
		return 1000 + r.Intn(2200) // up to ~3 segments
	}
}

func signedBits(r *hx.Rng, w int) int64 {
	if w <= 0 {
		return 0
	}
	v := int64(r.U64() & (1<<uint(w) - 1))
	if r.Bool() {
		return -v
	}
	return v
}

// genInts returns a family label and the values.
func genInts(r *hx.Rng) (string, []int64) {
	n := genLen(r)
	xs := make([]int64, n)
	fam := r.Intn(11)
	base := int64(r.U64())
	if r.Chance(60) {
		base = signedBits(r, 1+r.Intn(50))
	}
	switch fam {
	case 0: // constant
		for i := range xs {
			xs[i] = base
		}
		return "constant", xs
	case 1: // const delta (wrapping allowed)
		d := signedBits(r, 1+r.Intn(63))
		if r.Chance(10) {
			d = extremes[r.Intn(len(extremes))]
		}
		v := base
		for i := range xs {
			xs[i] = v
			v += d
		}
		return "const-delta", xs
	case 2, 3: // small deltas of one width (hits one simple8b selector mostly)
		w := 1 + r.Intn(60)
		v := base
		for i := range xs {
			xs[i] = v
			v += signedBits(r, w-1)
		}
		return "small-deltas", xs
	case 4: // runs of -1 deltas (zig-zag 1) around the 120 / 240 run selectors
		v := base
		run := []int{110, 119, 120, 121, 239, 240, 241, 360, 480, 600}[r.Intn(10)]
		pre := r.Intn(6)
		xs = make([]int64, 0, pre+run+8)
		xs = append(xs, v)
		for i := 0; i < pre; i++ {
			v += signedBits(r, 1+r.Intn(12))
			xs = append(xs, v)
		}
		for i := 0; i < run; i++ {
			v--
			xs = append(xs, v)
		}
		if r.Chance(40) {
			for i := r.Intn(5); i >= 0; i-- {
				v += signedBits(r, 1+r.Intn(8))
				xs = append(xs, v)
			}
		}
		return "ones-run", xs
	case 5: // extremes
		for i := range xs {
			xs[i] = extremes[r.Intn(len(extremes))]
		}
		return "extremes", xs
	case 6: // random 64-bit
		for i := range xs {
			xs[i] = int64(r.U64())
		}
		return "random64", xs
	case 7: // mixed widths
		v := base
		for i := range xs {
			xs[i] = v
			v += signedBits(r, r.Intn(61))
		}
		return "mixed-widths", xs
	case 8: // nearly const-delta: one outlier
		d := signedBits(r, 1+r.Intn(30))
		v := base
		for i := range xs {
			xs[i] = v
			v += d
		}
		if n > 0 {
			xs[r.Intn(n)] += signedBits(r, 1+r.Intn(62)) | 1
		}
		return "const-delta-outlier", xs
	case 9: // one delta beyond 2^60 among small ones
		v := base
		for i := range xs {
			xs[i] = v
			v += signedBits(r, 1+r.Intn(10))
		}
		if n > 1 {
			k := 1 + r.Intn(n-1)
			for i := k; i < n; i++ {
				xs[i] += 1 << uint(59+r.Intn(5))
			}
		}
		return "huge-delta", xs
	default: // repetitive but not const: compressible by zstd only if deltas exceed 2^60
		pat := []int64{int64(r.U64()), int64(r.U64()), int64(r.U64())}
		for i := range xs {
			xs[i] = pat[i%len(pat)]
		}
		return "periodic64", xs
	}
}

func hasExtreme(xs []int64) bool {
	for _, x := range xs {
		if x == math.MinInt64 || x == math.MaxInt64 {
			return true
		}
	}
	return false
}

func runInt(c *hx.Ctx, r *hx.Rng, st *state) bool {
	fam, xs := genInts(r)
	pos := 0
	if r.Chance(25) {
		pos = 1 + r.Intn(40)
	}
	in := util.Int64Slice2byte(xs)
	zlen := 0
	if len(xs) > 0 {
		zlen = len(st.zenc.EncodeAll(in, nil))
	}
	prefix := make([]byte, pos)
	for i := range prefix {
		prefix[i] = byte(r.U64())
	}
	out := append([]byte(nil), prefix...)
	var enc []byte
	var err error
	perr := hx.Safe(func() { enc, err = encoding.EncodeIntegerBlock(in, out, st.ctx) })
	op := fmt.Sprintf("int %d %d %s", pos, zlen, hexWords(i64u(xs)))
	var ans string
	mode := -1
	switch {
	case perr != "":
		ans = "err panic"
	case err != nil:
		ans = "err"
	case len(enc) < pos || string(enc[:pos]) != string(prefix):
		ans = "err prefix-clobbered"
	default:
		body := enc[pos:]
		if len(body) > 0 {
			mode = int(body[0] >> 4)
		}
		if mode == 3 {
			ans = showFrame(9, body)
		} else {
			ans = "ok " + hexBytes(body)
		}
	}
	line := c.Emit(op, ans)
	c.Count("int:family:" + fam)
	c.Count(fmt.Sprintf("int:mode:%d", mode))
	nt := (mode >= 1 && mode <= 3) || hasExtreme(xs)
	c.Case(opKey(op), nt)
	if perr != "" {
		c.Violation(line, "int_encode_panic", perr+" values="+short(hexWords(i64u(xs))))
		return nt
	}
	if err != nil {
		c.Violation(line, "int_encode_error", err.Error()+" values="+short(hexWords(i64u(xs))))
		return nt
	}
	if len(enc) < pos {
		c.Violation(line, "int_prefix", "output shorter than its prefix")
		return nt
	}
	body := append([]byte(nil), enc[pos:]...)
	// spec: decode(encode xs) == xs, with a non-empty destination prefix now and then
	var dec []int64
	dpre := r.Intn(3) * 8
	dst := make([]byte, dpre, dpre+8*len(xs)+r.Intn(64))
	perr = hx.Safe(func() { dec, err = encoding.DecodeIntegerBlock(body, &dst, st.ctx) })
	switch {
	case perr != "":
		c.Violation(line, "int_decode_panic", perr)
	case err != nil:
		c.Violation(line, "int_decode_error", err.Error())
	default:
		got := dec[dpre/8:]
		if len(got) != len(xs) {
			c.Violation(line, "int_roundtrip", fmt.Sprintf("decoded %d values, encoded %d (mode %d)", len(got), len(xs), mode))
		} else {
			for i := range xs {
				if got[i] != xs[i] {
					c.Violation(line, "int_roundtrip", fmt.Sprintf("value %d: got %x want %x (mode %d)", i, uint64(got[i]), uint64(xs[i]), mode))
					break
				}
			}
		}
		// the model's decoder on the same bytes (non-library modes)
		if mode != 3 && len(body) > 0 {
			c.Emit("intdec "+hexBytes(body), showVals("vals", i64u(got)))
		}
	}
	if nt {
		c.Sample(short(op) + " => " + short(ans))
	}
	return nt
}

// ---- simple8b directly ---------------------------------------------------------------------

func genS8b(r *hx.Rng) (string, []uint64) {
	n := 1 + r.Intn(80)
	switch r.Intn(6) {
	case 0: // one width
		w := uint(r.Intn(61))
		xs := make([]uint64, n)
		for i := range xs {
			xs[i] = r.U64() & (1<<w - 1)
		}
		return "one-width", xs
	case 1: // ones runs
		run := []int{119, 120, 121, 239, 240, 241, 359, 360, 361, 480, 500}[r.Intn(11)]
		xs := make([]uint64, 0, run+20)
		for i := r.Intn(4); i > 0; i-- {
			xs = append(xs, r.U64()&0xff)
		}
		for i := 0; i < run; i++ {
			xs = append(xs, 1)
		}
		if r.Bool() {
			for i := r.Intn(4); i >= 0; i-- {
				xs = append(xs, r.U64()&3)
			}
		}
		return "ones-run", xs
	case 2: // mixed widths
		xs := make([]uint64, n)
		for i := range xs {
			xs[i] = r.U64() & (1<<uint(r.Intn(61)) - 1)
		}
		return "mixed", xs
	case 3: // boundary values 2^w-1, 2^w
		xs := make([]uint64, n)
		for i := range xs {
			w := uint([]int{1, 2, 3, 4, 5, 6, 7, 8, 10, 12, 15, 20, 30, 60}[r.Intn(14)])
			xs[i] = 1<<w - 1
			if r.Chance(20) && w < 60 {
				xs[i] = 1 << w
			}
		}
		return "boundaries", xs
	case 4: // out of range somewhere
		xs := make([]uint64, n)
		for i := range xs {
			xs[i] = r.U64() & 0xffff
		}
		xs[r.Intn(n)] = 1<<60 + r.U64()&0xff
		return "out-of-range", xs
	default: // mostly zeros and ones
		xs := make([]uint64, n*4)
		for i := range xs {
			xs[i] = uint64(r.Intn(2))
		}
		return "bits", xs
	}
}

func runS8b(c *hx.Ctx, r *hx.Rng, st *state) bool {
	fam, xs := genS8b(r)
	src := append([]uint64(nil), xs...)
	var ws []uint64
	var err error
	perr := hx.Safe(func() { ws, err = simple8b.EncodeAll(src) })
	op := "s8b " + hexWords(xs)
	ans := ""
	switch {
	case perr != "":
		ans = "err panic"
	case err != nil:
		ans = "err"
	default:
		ans = showVals("words", ws)
	}
	line := c.Emit(op, ans)
	c.Count("s8b:family:" + fam)
	c.Case(opKey(op), err == nil)
	if perr != "" {
		c.Violation(line, "s8b_panic", perr)
		return true
	}
	inRange := true
	for _, x := range xs {
		if x > simple8b.MaxValue {
			inRange = false
		}
	}
	if err != nil {
		if inRange {
			c.Violation(line, "s8b_encode_error", err.Error())
		}
		return false
	}
	if !inRange {
		c.Violation(line, "s8b_accepts_out_of_range", "EncodeAll accepted a value above MaxValue")
	}
	words := append([]uint64(nil), ws...)
	// decode word by word with the function the block decoders use
	var got []uint64
	var buf [240]uint64
	perr = hx.Safe(func() {
		for _, w := range words {
			n, derr := simple8b.Decode(&buf, w)
			if derr != nil {
				err = derr
				return
			}
			got = append(got, buf[:n]...)
			c.Count(fmt.Sprintf("s8b:selector:%d", w>>60))
		}
	})
	dans := showVals("vals", got)
	if perr != "" {
		dans = "err panic"
	} else if err != nil {
		dans = "err"
	}
	l2 := c.Emit("s8bdec "+hexWords(words), dans)
	if perr != "" || err != nil {
		c.Violation(l2, "s8b_decode_error", perr+fmt.Sprint(err))
		return true
	}
	if len(got) != len(xs) {
		c.Violation(l2, "s8b_roundtrip", fmt.Sprintf("decoded %d values, encoded %d", len(got), len(xs)))
		return true
	}
	for i := range xs {
		if got[i] != xs[i] {
			c.Violation(l2, "s8b_roundtrip", fmt.Sprintf("value %d: got %x want %x", i, got[i], xs[i]))
			break
		}
	}
	return true
}
