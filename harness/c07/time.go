package c07

import (
	"fmt"

	"github.com/klauspost/compress/snappy"
	"github.com/openGemini/openGemini/lib/encoding"
	"github.com/openGemini/openGemini/lib/util"

	"verif/harness/internal/hx"
)

func init() { addFamily("time", 10, runTime) }

var pow10 = []int64{1, 10, 100, 1000, 10000, 100000, 1e6, 1e7, 1e8, 1e9, 1e10, 1e11, 1e12, 1e13}

// genTimes: timestamps are int64 nanoseconds, normally increasing; the codec must also cope
// with any bit pattern in any order (merges of out-of-order data go through the same coder).
func genTimes(r *hx.Rng) (string, []int64) {
	n := genLen(r)
	xs := make([]int64, n)
	base := int64(1.6e18) + int64(r.U64()%uint64(1e17))
	if r.Chance(15) {
		base = int64(r.U64())
	}
	if r.Chance(10) {
		base = 0
	}
	switch r.Intn(10) {
	case 0: // regular sampling interval
		step := pow10[r.Intn(len(pow10))] * int64(1+r.Intn(60))
		for i := range xs {
			xs[i] = base + int64(i)*step
		}
		return "regular", xs
	case 1, 2: // interval with jitter in units of 10^k (exercises the scale reduction)
		k := r.Intn(13)
		unit := pow10[k]
		v := base - base%unit
		for i := range xs {
			xs[i] = v
			v += unit * int64(1+r.Intn(2000))
		}
		if n > 3 && r.Chance(30) { // one delta breaks the scale down by some digits
			j := 1 + r.Intn(n-1)
			d := pow10[r.Intn(k+1)] * int64(1+r.Intn(9))
			for i := j; i < n; i++ {
				xs[i] += d
			}
		}
		return "scaled-jitter", xs
	case 3: // deltas multiples of ten but not of a hundred (scale() skips scales[0])
		v := base - base%10
		for i := range xs {
			xs[i] = v
			v += 10 * int64(1+2*r.Intn(4)) // 10,30,50,70
		}
		return "tens", xs
	case 4: // nanosecond jitter
		v := base
		for i := range xs {
			xs[i] = v
			v += int64(1e9) + int64(r.Intn(2000)) - 1000
		}
		return "ns-jitter", xs
	case 5: // duplicates and zero deltas
		v := base
		for i := range xs {
			xs[i] = v
			if r.Chance(50) {
				v += pow10[r.Intn(10)]
			}
		}
		return "zero-deltas", xs
	case 6: // descending / unordered: deltas wrap around as uint64
		v := base
		for i := range xs {
			xs[i] = v
			v += signedBits(r, 1+r.Intn(40))
		}
		return "unordered", xs
	case 7: // random 64-bit
		for i := range xs {
			xs[i] = int64(r.U64())
		}
		return "random64", xs
	case 8: // extremes
		for i := range xs {
			xs[i] = extremes[r.Intn(len(extremes))]
		}
		return "extremes", xs
	default: // a delta at / around simple8b.MaxValue (the time coder tests `<`, the int coder `>`)
		if n > 2 {
			j := 1 + r.Intn(n-1)
			if r.Chance(40) {
				j = n - 1 // the last delta is tested first, on its own line of encodingInit
			}
			v := int64(r.U64() & (1<<40 - 1))
			for i := range xs {
				xs[i] = v
				if i+1 == j {
					v += int64(1<<60) - 2 + int64(r.Intn(3)) // exactly MaxValue-1, MaxValue, MaxValue+1
				} else {
					v += int64(1 + r.Intn(1000))
				}
			}
		}
		return "maxvalue-delta", xs
	}
}

func runTime(c *hx.Ctx, r *hx.Rng, st *state) bool {
	fam, xs := genTimes(r)
	pos := 0
	if r.Chance(25) {
		pos = 1 + r.Intn(40)
	}
	in := util.Int64Slice2byte(xs)
	slen := len(snappy.Encode(nil, in))
	prefix := make([]byte, pos)
	for i := range prefix {
		prefix[i] = byte(r.U64())
	}
	out := append([]byte(nil), prefix...)
	var enc []byte
	var err error
	perr := hx.Safe(func() { enc, err = encoding.EncodeTimestampBlock(in, out, st.ctx) })
	op := fmt.Sprintf("time %d %d %s", pos, slen, hexWords(i64u(xs)))
	var ans string
	mode := -1
	switch {
	case perr != "":
		ans = "err panic"
	case err != nil:
		ans = "err"
	case len(enc) < pos || string(enc[:pos]) != string(prefix):
		ans = "err prefix-clobbered"
	default:
		body := enc[pos:]
		if len(body) > 0 {
			mode = int(body[0] >> 4)
		}
		if mode == 3 {
			ans = showFrame(9, body)
		} else {
			ans = "ok " + hexBytes(body)
		}
	}
	line := c.Emit(op, ans)
	c.Count("time:family:" + fam)
	c.Count(fmt.Sprintf("time:mode:%d", mode))
	if mode == 2 && len(enc) >= pos+9 {
		sc := uint64(0)
		for _, b := range enc[pos+1 : pos+9] {
			sc = sc<<8 | uint64(b)
		}
		c.Count(fmt.Sprintf("time:scale:%d", sc))
	}
	nt := (mode >= 1 && mode <= 3) || hasExtreme(xs)
	c.Case(opKey(op), nt)
	if perr != "" {
		c.Violation(line, "time_encode_panic", perr+" values="+short(hexWords(i64u(xs))))
		return nt
	}
	if err != nil {
		c.Violation(line, "time_encode_error", err.Error()+" values="+short(hexWords(i64u(xs))))
		return nt
	}
	if len(enc) < pos {
		c.Violation(line, "time_prefix", "output shorter than its prefix")
		return nt
	}
	body := append([]byte(nil), enc[pos:]...)
	var dec []int64
	dpre := r.Intn(3) * 8
	dst := make([]byte, dpre, dpre+r.Intn(8*len(xs)+64))
	perr = hx.Safe(func() { dec, err = encoding.DecodeTimestampBlock(body, &dst, st.ctx) })
	switch {
	case perr != "":
		c.Violation(line, "time_decode_panic", perr)
	case err != nil:
		c.Violation(line, "time_decode_error", err.Error())
	default:
		got := dec[dpre/8:]
		if len(got) != len(xs) {
			c.Violation(line, "time_roundtrip", fmt.Sprintf("decoded %d values, encoded %d (mode %d)", len(got), len(xs), mode))
		} else {
			for i := range xs {
				if got[i] != xs[i] {
					c.Violation(line, "time_roundtrip", fmt.Sprintf("value %d: got %x want %x (mode %d)", i, uint64(got[i]), uint64(xs[i]), mode))
					break
				}
			}
		}
		if mode != 3 && len(body) > 0 {
			c.Emit("timedec "+hexBytes(body), showVals("vals", i64u(got)))
		}
	}
	if nt {
		c.Sample(short(op) + " => " + short(ans))
	}
	return nt
}
