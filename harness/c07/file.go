package c07

import (
	"fmt"
	"math"
	"os"
	"path/filepath"
	"sort"
	"strings"

	"github.com/openGemini/openGemini/engine"
	"github.com/openGemini/openGemini/lib/encoding"
	"github.com/openGemini/openGemini/lib/util"
	"github.com/openGemini/openGemini/lib/util/lifted/influx/influxql"
	"github.com/openGemini/openGemini/lib/util/lifted/vm/protoparser/influx"

	"verif/harness/internal/hx"
)

// Whole-file level: rows with null patterns are written to a real shard (verif facade of
// package engine), flushed into a TSSP file (column builder, chunk meta, trailer), read back
// through the cursor path — optionally after closing and reopening the shard — and compared
// with the logical content: every series, row, column, null and bit pattern.  This layer has
// no model: the verdict is the spec diff computed here; the op line is answered `ok` by the
// driver.
func init() { addFamily("file", 0, runFile) } // weight set by fileWeight in Run

const fileBase = int64(1700000000) * 1e9

var fileSeq int

type fcell struct {
	ok bool
	i  int64
	f  uint64
	b  bool
	s  string
}

var fileFields = []struct {
	name string
	typ  int32
	ql   influxql.DataType
}{
	{"fb", influx.Field_Type_Boolean, influxql.Boolean},
	{"ff", influx.Field_Type_Float, influxql.Float},
	{"fi", influx.Field_Type_Int, influxql.Integer},
	{"fs", influx.Field_Type_String, influxql.String},
}

func nullPattern(r *hx.Rng, n int) []bool { // true = present
	p := make([]bool, n)
	switch r.Intn(7) {
	case 0: // no nulls
		for i := range p {
			p[i] = true
		}
	case 1: // alternating
		for i := range p {
			p[i] = i%2 == 0
		}
	case 2: // sparse
		for i := range p {
			p[i] = r.Chance(10)
		}
	case 3: // dense
		for i := range p {
			p[i] = r.Chance(90)
		}
	case 4: // first half only
		for i := range p {
			p[i] = i < n/2
		}
	case 5: // all null (the column is absent for this series unless another series has it)
	default: // a hole around a segment boundary
		for i := range p {
			p[i] = i < 990 || i > 1010
		}
	}
	return p
}

func runFile(c *hx.Ctx, r *hx.Rng, st *state) bool {
	fileSeq++
	root := os.Getenv("VERIF_SCRATCH")
	if root == "" {
		root = "/var/tmp/c07-file-scratch"
	}
	dir := filepath.Join(root, fmt.Sprintf("c07file-%d-%d", os.Getpid(), fileSeq))
	defer os.RemoveAll(dir)
	nSeries := 1 + r.Intn(3)
	type srow struct {
		t     int64
		cells [4]fcell
	}
	want := make([][]srow, nSeries)
	desc := []string{}
	total := 0
	for s := 0; s < nSeries; s++ {
		n := 1 + r.Intn(40)
		switch r.Intn(8) {
		case 0:
			n = 990 + r.Intn(30) // around one segment
		case 1:
			n = 1990 + r.Intn(600) // two to three segments
		case 2:
			n = 1 // a series flushed with a single row: one-row segments in every column
		case 3:
			n = 1000*(1+r.Intn(2)) + 1 // the last row sits alone in its segment
		}
		lastAlone := n == 1 || n%1000 == 1
		_, ints := genInts(r)
		_, times := genTimes(r)
		_, floats := genFloats(r, false)
		_, strs := genStrings(r)
		pats := [4][]bool{nullPattern(r, n), nullPattern(r, n), nullPattern(r, n), nullPattern(r, n)}
		rows := make([]srow, n)
		// strictly increasing times: cumulative positive steps taken from a time family
		t := fileBase + int64(r.Intn(1000))*1e9
		for k := 0; k < n; k++ {
			step := int64(1e9)
			if len(times) > 1 {
				d := times[(k+1)%len(times)] - times[k%len(times)]
				if d > 0 && d < 1e12 {
					step = d
				}
			}
			t += step
			row := srow{t: t}
			any := false
			for f := 0; f < 4; f++ {
				if !pats[f][k] {
					continue
				}
				any = true
				cl := fcell{ok: true}
				switch f {
				case 0:
					cl.b = r.Bool()
				case 1:
					if len(floats) > 0 {
						cl.f = math.Float64bits(floats[k%len(floats)])
					}
				case 2:
					if len(ints) > 0 {
						cl.i = ints[k%len(ints)]
					}
				default:
					if len(strs) > 0 {
						cl.s = string(strs[k%len(strs)])
						if len(cl.s) > 2000 {
							cl.s = cl.s[:2000]
						}
					}
				}
				row.cells[f] = cl
			}
			if !any { // a row needs a field
				row.cells[2] = fcell{ok: true, i: int64(k)}
			}
			rows[k] = row
		}
		if lastAlone && r.Chance(70) {
			// the lone row of the last segment: the values whose payload is short or empty
			// (the non-null empty string, false, 0, +0.0) or a null
			last := &rows[n-1]
			switch r.Intn(4) {
			case 0:
				last.cells[3] = fcell{ok: true, s: ""}
			case 1:
				last.cells[3] = fcell{ok: true, s: "x"}
			case 2:
				last.cells[3] = fcell{}
				last.cells[2] = fcell{ok: true, i: 0}
			default:
				last.cells = [4]fcell{{ok: true, b: false}, {ok: true, f: 0}, {ok: true, i: 0}, {ok: true, s: ""}}
			}
		}
		want[s] = rows
		total += n
		desc = append(desc, fmt.Sprint(n))
	}
	reopen := r.Bool()
	op := fmt.Sprintf("file series=%s reopen=%v seed=%d", strings.Join(desc, "+"), reopen, r.U64()%1000000)
	fail := ""
	// The shard flushes in its own goroutines: an encoder panic there kills the process (the
	// server crash of the property text) and the harness with it. Offer every float segment to
	// the block encoder first, under recover; a block it cannot take is reported here and the
	// shard is not asked to flush it.
	for s := 0; s < nSeries && fail == ""; s++ {
		for lo := 0; lo < len(want[s]) && fail == ""; lo += 1000 {
			var seg []float64
			for k := lo; k < lo+1000 && k < len(want[s]); k++ {
				if cl := want[s][k].cells[1]; cl.ok {
					seg = append(seg, math.Float64frombits(cl.f))
				}
			}
			if len(seg) == 0 {
				continue
			}
			var err error
			perr := hx.Safe(func() { _, err = encoding.EncodeFloatBlock(util.Float64Slice2byte(seg), nil, st.ctx) })
			if perr != "" || err != nil {
				fail = fmt.Sprintf("float segment of series %d rows %d.. cannot be encoded: %s %v", s, lo, perr, err)
			}
		}
	}
	if fail != "" {
		line := c.Emit(op, "err "+short(fail))
		c.Case(opKey(op), true)
		c.Violation(line, "file_roundtrip", short(fail))
		return true
	}
	perr := hx.Safe(func() {
		sh, err := engine.VerifOpenShard(dir, 1)
		if err != nil {
			fail = "open: " + err.Error()
			return
		}
		defer func() {
			if sh != nil {
				_ = sh.Close()
			}
		}()
		sh.DisableBackground()
		for s := 0; s < nSeries; s++ {
			rows := want[s]
			for lo := 0; lo < len(rows); lo += 400 {
				hi := lo + 400
				if hi > len(rows) {
					hi = len(rows)
				}
				batch := make([]influx.Row, 0, hi-lo)
				for _, w := range rows[lo:hi] {
					ir := influx.Row{Name: "m", Timestamp: w.t}
					ir.Tags = influx.PointTags{{Key: "host", Value: fmt.Sprintf("h%d", s)}}
					for f, cl := range w.cells {
						if !cl.ok {
							continue
						}
						fl := influx.Field{Key: fileFields[f].name, Type: fileFields[f].typ}
						switch f {
						case 0:
							if cl.b {
								fl.NumValue = 1
							}
						case 1:
							fl.NumValue = math.Float64frombits(cl.f)
						case 2:
							fl.NumValue = float64(cl.i)
							if int64(fl.NumValue) != cl.i { // the row type carries ints as float64
								cl.i = int64(fl.NumValue)
							}
						default:
							fl.StrValue = cl.s
						}
						ir.Fields = append(ir.Fields, fl)
					}
					batch = append(batch, ir)
				}
				if err := sh.Write(batch); err != nil {
					fail = "write: " + err.Error()
					return
				}
			}
		}
		sh.FlushIndex()
		sh.Flush()
		if len(sh.Files("m")) == 0 {
			fail = "no data file after flush"
			return
		}
		if reopen {
			if err := sh.Close(); err != nil {
				fail = "close: " + err.Error()
				sh = nil
				return
			}
			sh, err = engine.VerifOpenShard(dir, 1)
			if err != nil {
				sh = nil
				fail = "reopen: " + err.Error()
				return
			}
			sh.DisableBackground()
		}
		var vf []engine.VerifField
		for _, f := range fileFields {
			vf = append(vf, engine.VerifField{Name: f.name, Type: f.ql})
		}
		got, err := sh.Dump("m", vf, math.MinInt64/2, math.MaxInt64/2, true)
		if err != nil {
			fail = "read: " + short(err.Error())
			return
		}
		bySeries := map[int][]engine.VerifRow{}
		for _, g := range got {
			i := strings.Index(g.Series, "host=h")
			if i < 0 {
				i = strings.Index(g.Series, "host\x00h")
			}
			if i < 0 {
				fail = "series key without host tag: " + g.Series
				return
			}
			bySeries[int(g.Series[i+6]-'0')] = append(bySeries[int(g.Series[i+6]-'0')], g)
		}
		for s := 0; s < nSeries && fail == ""; s++ {
			g := bySeries[s]
			sort.SliceStable(g, func(a, b int) bool { return g[a].Time < g[b].Time })
			w := want[s]
			if len(g) != len(w) {
				fail = fmt.Sprintf("series %d: %d rows read, %d written", s, len(g), len(w))
				break
			}
			for k := range w {
				if g[k].Time != w[k].t {
					fail = fmt.Sprintf("series %d row %d: time %d read, %d written", s, k, g[k].Time, w[k].t)
					break
				}
				for f := 0; f < 4 && fail == ""; f++ {
					cl := w[k].cells[f]
					v := g[k].Vals[f]
					switch {
					case !cl.ok && v != nil:
						fail = fmt.Sprintf("series %d row %d %s: null written, %v read", s, k, fileFields[f].name, v)
					case cl.ok && v == nil:
						fail = fmt.Sprintf("series %d row %d %s: value written, null read", s, k, fileFields[f].name)
					case cl.ok:
						switch f {
						case 0:
							if x, ok := v.(bool); !ok || x != cl.b {
								fail = fmt.Sprintf("series %d row %d fb: %v read, %v written", s, k, v, cl.b)
							}
						case 1:
							if x, ok := v.(float64); !ok || math.Float64bits(x) != cl.f {
								fail = fmt.Sprintf("series %d row %d ff: %016x read, %016x written", s, k, math.Float64bits(x), cl.f)
							}
						case 2:
							if x, ok := v.(int64); !ok || x != int64(float64(cl.i)) {
								fail = fmt.Sprintf("series %d row %d fi: %v read, %d written", s, k, v, int64(float64(cl.i)))
							}
						default:
							if x, ok := v.(string); !ok || x != cl.s {
								fail = fmt.Sprintf("series %d row %d fs: %d bytes read, %d written", s, k, len(x), len(cl.s))
							}
						}
					}
				}
				if fail != "" {
					break
				}
			}
		}
	})
	ans := "ok"
	if perr != "" {
		ans = "err panic"
		fail = short(perr)
	} else if fail != "" {
		ans = "err " + strings.ReplaceAll(short(fail), "\n", " ")
	}
	line := c.Emit(op, ans)
	c.Count(fmt.Sprintf("file:rows<=%d", func() int {
		switch {
		case total <= 100:
			return 100
		case total <= 1000:
			return 1000
		}
		return 10000
	}()))
	c.Case(opKey(op), total > 1000 || reopen)
	if fail != "" {
		c.Violation(line, "file_roundtrip", short(fail))
	}
	return true
}
