package c07

import (
	"fmt"
	"math"
	"strconv"
	"strings"

	"github.com/golang/snappy"
	"github.com/influxdata/influxdb/tsdb/engine/tsm1"
	ksnappy "github.com/klauspost/compress/snappy"
	"github.com/openGemini/openGemini/engine/immutable"
	"github.com/openGemini/openGemini/lib/record"
	"github.com/openGemini/openGemini/lib/util"
	"github.com/openGemini/openGemini/lib/util/lifted/vm/protoparser/influx"

	"verif/harness/internal/hx"
)

// Segment-level column framing: a record (one field column + time) is encoded by the chunk
// encoder a flush runs (immutable.VerifC07EncodeChunk = TsChunkDataImp.EncodeChunk: Split into
// segments, CanEncodeOneRowMode / one-value form, EncodeColumnHeader, block codec) and every
// segment is decoded by the file reader's per-segment decoder (decodeColumnData /
// appendTimeColumnData).
//
//	colseg <ty> <pos> <z1> <z2> <len> <nil> <bmOff> <bitmap> <val> <offs>  → seg <hex>[+n]
//	colsegdec <ty> <segment hex> <oracle>                                 → col <len> <nil> <rows>
//
// ty ∈ i f b s t; z1/z2 = observed library output lengths for the segment's raw bytes (zstd /
// snappy / gorilla); oracle = what the library makes of the segment's payload (decompressed
// bytes), `-` when the inner block is not in a library mode.  Spec diff: the rows read back
// equal the rows written, segment by segment.
func init() { addFamily("colseg", 4, runColSeg) }

type cell struct {
	ok bool
	w  uint64 // int / float bit pattern / bool (0,1)
	s  []byte
}

var colTypes = []struct {
	tag  string
	typ  int
	name string
}{
	{"i", influx.Field_Type_Int, "fi"},
	{"f", influx.Field_Type_Float, "ff"},
	{"b", influx.Field_Type_Boolean, "fb"},
	{"s", influx.Field_Type_String, "fs"},
}

func genColRows(r *hx.Rng, seg int) (string, int) {
	switch r.Intn(12) {
	case 0:
		return "one-row", 1
	case 1:
		return "two-rows", 2
	case 2:
		return "seg-1", seg - 1
	case 3:
		return "seg", seg
	case 4:
		return "seg+1", seg + 1
	case 5:
		return "k*seg+1", (1+r.Intn(3))*seg + 1
	case 6:
		return "k*seg", (2 + r.Intn(2)) * seg
	case 7:
		return "k*seg-1", (2+r.Intn(2))*seg - 1
	default:
		return "random", 1 + r.Intn(3*seg+5)
	}
}

func genNulls(r *hx.Rng, n int) (string, []bool) { // true = present
	p := make([]bool, n)
	fam := ""
	switch r.Intn(11) {
	case 0, 1:
		fam = "no-nulls"
		for i := range p {
			p[i] = true
		}
	case 2:
		fam = "all-null"
	case 3:
		fam = "alternating"
		for i := range p {
			p[i] = i%2 == 0
		}
	case 4:
		fam = "sparse"
		for i := range p {
			p[i] = r.Chance(10)
		}
	case 5:
		fam = "dense"
		for i := range p {
			p[i] = r.Chance(90)
		}
	case 6:
		fam = "last-null"
		for i := range p {
			p[i] = i != n-1
		}
	case 7:
		fam = "only-last"
		p[n-1] = true
	case 8:
		fam = "only-first"
		p[0] = true
	case 9:
		fam = "first-null"
		for i := range p {
			p[i] = i != 0
		}
	default:
		fam = "random"
		for i := range p {
			p[i] = r.Bool()
		}
	}
	return fam, p
}

var colStrings = [][]byte{nil, []byte("x"), []byte("host-01"), []byte("0123456789abcde"), []byte("0123456789abcdef"),
	[]byte("0123456789abcdefg"), []byte("\x00"), []byte("ü"), []byte(strings.Repeat("level=info msg=ok ", 4))}

func genCells(r *hx.Rng, ty int, present []bool) (string, []cell) {
	n := len(present)
	out := make([]cell, n)
	fam := ""
	k := r.Intn(6)
	var one cell
	switch ty {
	case influx.Field_Type_Int:
		base := int64(r.U64() >> uint(r.Intn(64)))
		fam = []string{"constant", "const-delta", "small-delta", "random64", "extremes", "zero"}[k]
		for i := range out {
			var v int64
			switch k {
			case 0:
				v = base
			case 1:
				v = base + int64(i)*7
			case 2:
				v = base + int64(r.Intn(1000))
			case 3:
				v = int64(r.U64())
			case 4:
				v = extremes[r.Intn(len(extremes))]
			}
			out[i] = cell{ok: true, w: uint64(v)}
		}
	case influx.Field_Type_Float:
		fam = []string{"constant", "integers", "decimals", "random-bits", "specials", "zero"}[k]
		sp := []uint64{0x8000000000000000, 0x7ff8000000000001, 0x7ff0000000000000, 0xfff0000000000000, 1, 0}
		c0 := math.Float64bits(float64(r.Intn(1000)) / 8)
		for i := range out {
			var w uint64
			switch k {
			case 0:
				w = c0
			case 1:
				w = math.Float64bits(float64(r.Intn(100000)))
			case 2:
				w = math.Float64bits(float64(r.Intn(100000)) / 100)
			case 3:
				w = r.U64()
			case 4:
				w = sp[r.Intn(len(sp))]
			}
			out[i] = cell{ok: true, w: w}
		}
	case influx.Field_Type_Boolean:
		fam = []string{"all-false", "all-true", "alternating", "random", "random", "random"}[k]
		for i := range out {
			var w uint64
			switch k {
			case 0:
			case 1:
				w = 1
			case 2:
				w = uint64(i % 2)
			default:
				w = uint64(r.Intn(2))
			}
			out[i] = cell{ok: true, w: w}
		}
	default:
		fam = []string{"all-empty", "one-value-repeated", "boundary-lengths", "mixed-empty", "random-bytes", "short-words"}[k]
		one = cell{ok: true, s: colStrings[r.Intn(len(colStrings))]}
		for i := range out {
			var s []byte
			switch k {
			case 0:
			case 1:
				s = one.s
			case 2:
				s = colStrings[r.Intn(len(colStrings))]
			case 3:
				if r.Bool() {
					s = []byte(fmt.Sprintf("value-%d", r.Intn(1000)))
				}
			case 4:
				s = make([]byte, r.Intn(24))
				for j := range s {
					s[j] = byte(r.U64())
				}
			default:
				s = colStrings[1+r.Intn(3)]
			}
			out[i] = cell{ok: true, s: s}
		}
	}
	for i := range out {
		if !present[i] {
			out[i] = cell{}
		}
	}
	return fam, out
}

func cellsText(ty string, cs []cell) string {
	if len(cs) == 0 {
		return "-"
	}
	var sb strings.Builder
	for i, c := range cs {
		if i > 0 {
			sb.WriteByte(',')
		}
		switch {
		case !c.ok:
			sb.WriteByte('_')
		case ty == "s":
			sb.WriteString(hexBytes(c.s))
		case ty == "b":
			sb.WriteString(strconv.FormatUint(c.w&1, 10))
		default:
			sb.WriteString(strconv.FormatUint(c.w, 16))
		}
	}
	return sb.String()
}

// rows of a ColVal as a reader sees them (IsNil + the typed accessors of lib/record).
func colCells(ty string, col *record.ColVal) (cs []cell, err string) {
	err = hx.Safe(func() {
		switch ty {
		case "i", "t":
			vs := col.IntegerValues()
			k := 0
			for i := 0; i < col.Len; i++ {
				if col.IsNil(i) {
					cs = append(cs, cell{})
					continue
				}
				cs = append(cs, cell{ok: true, w: uint64(vs[k])})
				k++
			}
			if k != len(vs) {
				panic(fmt.Sprintf("%d values for %d non-null rows", len(vs), k))
			}
		case "f":
			vs := col.FloatValues()
			k := 0
			for i := 0; i < col.Len; i++ {
				if col.IsNil(i) {
					cs = append(cs, cell{})
					continue
				}
				cs = append(cs, cell{ok: true, w: math.Float64bits(vs[k])})
				k++
			}
			if k != len(vs) {
				panic(fmt.Sprintf("%d values for %d non-null rows", len(vs), k))
			}
		case "b":
			vs := col.Val
			k := 0
			for i := 0; i < col.Len; i++ {
				if col.IsNil(i) {
					cs = append(cs, cell{})
					continue
				}
				w := uint64(0)
				if vs[k] != 0 {
					w = 1
				}
				cs = append(cs, cell{ok: true, w: w})
				k++
			}
			if k != len(vs) {
				panic(fmt.Sprintf("%d values for %d non-null rows", len(vs), k))
			}
		default:
			for i := 0; i < col.Len; i++ {
				if col.IsNil(i) {
					cs = append(cs, cell{})
					continue
				}
				s, isNil := col.StringValueSafe(i)
				if isNil {
					panic("StringValueSafe reports nil for a non-nil row")
				}
				cs = append(cs, cell{ok: true, s: []byte(s)})
			}
		}
	})
	return cs, err
}

func offsText(offs []uint32) string {
	if len(offs) == 0 {
		return "-"
	}
	parts := make([]string, len(offs))
	for i, o := range offs {
		parts[i] = strconv.FormatUint(uint64(o), 10)
	}
	return strings.Join(parts, ",")
}

// header length of a segment that is not in the one-value form (what the reader parses).
func segHeaderLen(seg []byte) int {
	t := seg[0]
	if (t > 30 && t < 35) || (t > 40 && t < 45) {
		return 5
	}
	if len(seg) < 5 {
		return len(seg)
	}
	n := int(seg[1])<<24 | int(seg[2])<<16 | int(seg[3])<<8 | int(seg[4])
	if 1+4+n+8 > len(seg) {
		return len(seg)
	}
	return 1 + 4 + n + 8
}

// splits a segment into the part printed in hex and the library payload at its tail.
func segShow(ty string, seg []byte) (hexPart []byte, payload []byte) {
	if len(seg) == 0 || (seg[0] > 16 && seg[0] < 21) {
		return seg, nil
	}
	h := segHeaderLen(seg)
	inner := seg[h:]
	if len(inner) == 0 {
		return seg, nil
	}
	mode := int(inner[0] >> 4)
	keep := -1
	switch ty {
	case "i":
		if mode == 3 {
			keep = 9
		}
	case "t":
		if mode == 3 {
			keep = 9
		}
	case "f":
		if mode == 2 || mode == 3 {
			keep = 1
		}
	case "s":
		if mode != 0 {
			keep = 9
		}
	}
	if keep < 0 || len(inner) < keep {
		return seg, nil
	}
	return seg[:h+keep], inner[keep:]
}

func showSeg(ty string, seg []byte) string {
	hp, pl := segShow(ty, seg)
	if pl == nil {
		return "seg " + hexBytes(hp)
	}
	return "seg " + hexBytes(hp) + "+" + strconv.Itoa(len(pl))
}

func runColSeg(c *hx.Ctx, r *hx.Rng, st *state) bool {
	ct := colTypes[r.Intn(len(colTypes))]
	seg := []int{8, 8, 16, 24, 32, 64}[r.Intn(6)]
	if r.Chance(6) {
		seg = 1000 // the default max-rows-per-segment
	}
	if r.Chance(10) {
		seg = []int{1, 3, 5, 7, 12}[r.Intn(5)] // not a multiple of eight: validity bits at a bit offset
	}
	nfam, n := genColRows(r, seg)
	if seg == 1000 && n > 2100 {
		n = 2001
	}
	if n < 1 {
		n = 1
	}
	pfam, present := genNulls(r, n)
	vfam, cells := genCells(r, ct.typ, present)
	schema := record.Schemas{{Name: ct.name, Type: ct.typ}, {Name: "time", Type: influx.Field_Type_Int}}
	rec := record.NewRecordBuilder(schema)
	col := rec.Column(0)
	tm := int64(1700000000) * 1e9
	tstep := int64(1e9)
	if r.Chance(30) {
		tstep = int64(1 + r.Intn(1000))
	}
	times := make([]cell, n)
	for i, cl := range cells {
		switch {
		case !cl.ok && ct.typ == influx.Field_Type_Int:
			col.AppendIntegerNull()
		case !cl.ok && ct.typ == influx.Field_Type_Float:
			col.AppendFloatNull()
		case !cl.ok && ct.typ == influx.Field_Type_Boolean:
			col.AppendBooleanNull()
		case !cl.ok:
			col.AppendStringNull()
		case ct.typ == influx.Field_Type_Int:
			col.AppendInteger(int64(cl.w))
		case ct.typ == influx.Field_Type_Float:
			col.AppendFloat(math.Float64frombits(cl.w))
		case ct.typ == influx.Field_Type_Boolean:
			col.AppendBoolean(cl.w != 0)
		default:
			col.AppendString(string(cl.s))
		}
		rec.Column(1).AppendInteger(tm)
		times[i] = cell{ok: true, w: uint64(tm)}
		tm += tstep
		if r.Chance(3) {
			tm += int64(r.Intn(1e6))
		}
	}
	c.Count("colseg:type:" + ct.tag)
	c.Count("colseg:rows:" + nfam)
	c.Count("colseg:nulls:" + pfam)
	c.Count("colseg:values:" + ct.tag + ":" + vfam)
	// the segments the builder works on: what EncodeColumn / EncodeChunk cut out of the columns
	var inSegs, tmSegs []record.ColVal
	if col.Len > seg {
		inSegs = col.Split(nil, seg, ct.typ)
	} else {
		inSegs = []record.ColVal{*col}
	}
	tmSegs = rec.Column(1).Split(nil, seg, influx.Field_Type_Int)
	var ch *immutable.VerifC07Chunk
	var err error
	perr := hx.Safe(func() { ch, err = immutable.VerifC07EncodeChunk(rec, 7, seg, 0) })
	if perr != "" || err != nil || len(ch.Cols) != 2 || len(ch.Cols[0]) != len(inSegs) || len(ch.Cols[1]) != len(tmSegs) {
		op := fmt.Sprintf("colseg %s 0 0 - %d %d %d %s %s %s", ct.tag, col.Len, col.NilCount, col.BitMapOffset,
			hexBytes(col.Bitmap), hexBytes(col.Val), offsText(col.Offset))
		line := c.Emit(op, "err "+short(perr+fmt.Sprint(err)))
		c.Case(opKey(op), true)
		c.Violation(line, "colseg_encode_failure", short(fmt.Sprintf("%s %v rows=%s", perr, err, short(cellsText(ct.tag, cells)))))
		return true
	}
	nontrivial := false
	emit := func(tag string, field *record.Field, in *record.ColVal, sg immutable.VerifC07Segment, want []cell, isTime bool) {
		z1, z2 := 0, "-"
		switch tag {
		case "i":
			if len(in.Val) > 0 {
				z1 = len(st.zenc.EncodeAll(in.Val, nil))
			}
		case "t":
			z1 = len(ksnappy.Encode(nil, in.Val))
		case "f":
			z1 = len(snappy.Encode(nil, in.Val))
			z2 = "x"
			if g, gerr := tsm1.FloatArrayEncodeAll(util.Bytes2Float64Slice(in.Val), nil); gerr == nil {
				z2 = strconv.Itoa(len(g))
			}
		case "s":
			if len(in.Offset) > 0 {
				strs := make([][]byte, len(in.Offset))
				for i := range in.Offset {
					e := len(in.Val)
					if i+1 < len(in.Offset) {
						e = int(in.Offset[i+1])
					}
					strs[i] = in.Val[in.Offset[i]:e]
				}
				z1 = len(ksnappy.Encode(nil, packV2(strs)))
			}
		}
		op := fmt.Sprintf("colseg %s %d %d %s %d %d %d %s %s %s", tag, sg.Pos, z1, z2, in.Len, in.NilCount, in.BitMapOffset,
			hexBytes(in.Bitmap), hexBytes(in.Val), offsText(in.Offset))
		c.Emit(op, showSeg(tag, sg.Data))
		one := len(sg.Data) > 0 && sg.Data[0] > 16 && sg.Data[0] < 21
		form := "header"
		switch {
		case one:
			form = "one-value"
		case len(sg.Data) > 0 && sg.Data[0] > 30 && sg.Data[0] < 35:
			form = "full"
		case len(sg.Data) > 0 && sg.Data[0] > 40 && sg.Data[0] < 45:
			form = "empty"
		}
		c.Count("colseg:form:" + tag + ":" + form)
		if in.BitMapOffset != 0 {
			c.Count("colseg:bit-offset")
		}
		nt := one || form != "full" || in.BitMapOffset != 0
		nontrivial = nontrivial || nt
		c.Case(opKey(op), nt)
		// reader
		var got *record.ColVal
		var derr error
		perr := hx.Safe(func() { got, derr = immutable.VerifC07DecodeSegment(field, append([]byte(nil), sg.Data...), isTime) })
		// oracle for the model: the raw bytes behind a library payload
		oracle := "-"
		if _, pl := segShow(tag, sg.Data); pl != nil {
			switch tag {
			case "i", "t", "f":
				oracle = hexBytes(in.Val)
			case "s":
				strs := make([][]byte, len(in.Offset))
				for i := range in.Offset {
					e := len(in.Val)
					if i+1 < len(in.Offset) {
						e = int(in.Offset[i+1])
					}
					strs[i] = in.Val[in.Offset[i]:e]
				}
				oracle = hexBytes(packV2(strs))
			}
		}
		dop := fmt.Sprintf("colsegdec %s %s %s", tag, hexBytes(sg.Data), oracle)
		var gotCells []cell
		dans := ""
		switch {
		case perr != "":
			dans = "err panic"
		case derr != nil:
			dans = "err"
		default:
			var cerr string
			gotCells, cerr = colCells(tag, got)
			if cerr != "" {
				dans = "err view"
				perr = cerr
			} else {
				dans = fmt.Sprintf("col %d %d %s", got.Len, got.NilCount, cellsText(tag, gotCells))
			}
		}
		l2 := c.Emit(dop, dans)
		if perr != "" || derr != nil {
			c.Violation(l2, "colseg_decode_failure", short(fmt.Sprintf("%s %v segment=%s", perr, derr, short(hexBytes(sg.Data)))))
			return
		}
		if cellsText(tag, gotCells) != cellsText(tag, want) {
			c.Violation(l2, "colseg_roundtrip", short(fmt.Sprintf("type %s, %d rows, form %s: written %s read %s", tag, len(want), form,
				short(cellsText(tag, want)), short(cellsText(tag, gotCells)))))
		}
	}
	lo := 0
	for i := range inSegs {
		hi := lo + inSegs[i].Len
		emit(ct.tag, &schema[0], &inSegs[i], ch.Cols[0][i], cells[lo:hi], false)
		lo = hi
	}
	lo = 0
	for i := range tmSegs {
		hi := lo + tmSegs[i].Len
		emit("t", &schema[1], &tmSegs[i], ch.Cols[1][i], times[lo:hi], true)
		lo = hi
	}
	return nontrivial
}
