// Package c12: correspondence harness for C12 ("a query shipped to the storage nodes is the query
// that was planned"). For every generated WHERE condition it runs the real statement parser
// (yacc), prints the condition with String(), re-parses the text with the real ParseExpr, and
// writes canonical dumps of both trees (impl.out) for the Lean model to predict; tree1 = tree2 is
// the property itself (viol.out, classified). Literal printers/scanners are driven directly as
// well, and option / plan / chunk objects built from the generated expressions go through
// Marshal -> Unmarshal (codec.go).
package c12

import (
	"encoding/hex"
	"fmt"
	"math"
	"sort"
	"strconv"
	"strings"
	"time"

	"github.com/openGemini/openGemini/lib/util/lifted/influx/influxql"

	"verif/harness/internal/hx"
)

func init() { hx.Register("C12", Run) }

const prefix = "SELECT v FROM m WHERE "

func hx16(s string) string { return hex.EncodeToString([]byte(s)) }

// ---------------------------------------------------------------------------------------------
// canonical dump (must be byte-identical to OG.C12.dump of the Lean driver)

func fmtFloat(v float64) string {
	switch {
	case math.IsInf(v, 1):
		return "+Inf"
	case math.IsInf(v, -1):
		return "-Inf"
	case math.IsNaN(v):
		return "NaN"
	}
	return strconv.FormatFloat(v, 'f', -1, 64)
}

func dumpSet(s *influxql.SetLiteral) string {
	var nums []float64
	var strs []string
	for k := range s.Vals {
		switch v := k.(type) {
		case float64:
			if v == 0 {
				v = 0 // -0 and 0 are one key
			}
			nums = append(nums, v)
		case string:
			strs = append(strs, v)
		default:
			strs = append(strs, fmt.Sprintf("?%T", k))
		}
	}
	sort.Float64s(nums)
	sort.Strings(strs)
	var parts []string
	for _, n := range nums {
		parts = append(parts, "n"+fmtFloat(n))
	}
	for _, x := range strs {
		parts = append(parts, "s"+hx16(x))
	}
	return "T[" + strings.Join(parts, ",") + "]"
}

func dump(e influxql.Expr) string {
	switch x := e.(type) {
	case nil:
		return "nil"
	case *influxql.BinaryExpr:
		return "(" + x.Op.String() + " " + dump(x.LHS) + " " + dump(x.RHS) + ")"
	case *influxql.ParenExpr:
		return "P(" + dump(x.Expr) + ")"
	case *influxql.VarRef:
		return "V" + hx16(x.Val) + ":" + x.Type.String()
	case *influxql.Call:
		a := make([]string, len(x.Args))
		for i, y := range x.Args {
			a[i] = dump(y)
		}
		return "C" + hx16(x.Name) + "(" + strings.Join(a, ",") + ")"
	case *influxql.NumberLiteral:
		return "N" + fmtFloat(x.Val)
	case *influxql.IntegerLiteral:
		return "I" + strconv.FormatInt(x.Val, 10)
	case *influxql.UnsignedLiteral:
		return "U" + strconv.FormatUint(x.Val, 10)
	case *influxql.StringLiteral:
		return "S" + hx16(x.Val)
	case *influxql.BooleanLiteral:
		if x.Val {
			return "Bt"
		}
		return "Bf"
	case *influxql.DurationLiteral:
		return "D" + strconv.FormatInt(int64(x.Val), 10)
	case *influxql.RegexLiteral:
		if x.Val == nil {
			return "Rnil"
		}
		return "R" + hx16(x.Val.String())
	case *influxql.Wildcard:
		switch x.Type {
		case influxql.FIELD:
			return "Wf"
		case influxql.TAG:
			return "Wt"
		}
		return "W"
	case *influxql.SetLiteral:
		return dumpSet(x)
	}
	return fmt.Sprintf("<%T>", e)
}

// bit-exact dump for the spec diff on floats the decimal model does not cover
func dumpBits(e influxql.Expr) string {
	var b strings.Builder
	influxql.WalkFunc(e, func(n influxql.Node) {
		if x, ok := n.(*influxql.NumberLiteral); ok {
			fmt.Fprintf(&b, "%016x;", math.Float64bits(x.Val))
		}
	})
	return b.String()
}

func hasBigSet(e influxql.Expr) bool {
	big := false
	influxql.WalkFunc(e, func(n influxql.Node) {
		if x, ok := n.(*influxql.SetLiteral); ok && len(x.Vals) >= 2 {
			big = true
		}
	})
	return big
}

// ---------------------------------------------------------------------------------------------
// the real parsers

func yaccParse(text string) (cond influxql.Expr, err error) {
	p := influxql.NewParser(strings.NewReader(prefix + text))
	defer p.Release()
	yp := influxql.NewYyParser(p.GetScanner(), make(map[string]interface{}))
	yp.ParseTokens()
	q, err := yp.GetQuery()
	if err != nil {
		return nil, err
	}
	if len(q.Statements) != 1 {
		return nil, fmt.Errorf("%d statements", len(q.Statements))
	}
	s, ok := q.Statements[0].(*influxql.SelectStatement)
	if !ok {
		return nil, fmt.Errorf("not a select")
	}
	if s.Condition == nil {
		return nil, fmt.Errorf("no condition")
	}
	// the model reads the text up to the end of the statement as the condition: anything the
	// statement grammar would accept after it is out of scope
	if len(s.Dimensions) != 0 || len(s.SortFields) != 0 || s.Limit != 0 || s.Offset != 0 || s.SLimit != 0 || s.SOffset != 0 || s.Location != nil {
		return nil, fmt.Errorf("trailing clause")
	}
	return s.Condition, nil
}

// number of ParseExpr calls that did not come back (each leaves a spinning goroutine behind)
var hangs int

type result struct {
	badRegex bool // rejected because a regex literal does not compile (the model does not compile regexes)
	accepted bool
	t1, t2   string // dumps; t2 = "err" when ParseExpr fails
	printed  string
	e1, e2   influxql.Expr
	panicked string
}

func roundTrip(text string) (r result) {
	var e1 influxql.Expr
	var err error
	if p := hx.Safe(func() { e1, err = yaccParse(text) }); p != "" {
		r.panicked = "yacc " + p
		return
	}
	if err != nil {
		r.badRegex = strings.Contains(err.Error(), "Invalid regexprs")
		return
	}
	r.accepted = true
	r.e1 = e1
	r.t1 = dump(e1)
	if p := hx.Safe(func() { r.printed = e1.String() }); p != "" {
		r.panicked = "String " + p
		return
	}
	var e2 influxql.Expr
	done := make(chan struct{})
	var perr string
	go func() {
		defer close(done)
		perr = hx.Safe(func() { e2, err = influxql.ParseExpr(r.printed) })
	}()
	select {
	case <-done:
	case <-time.After(3 * time.Second):
		// (parseSet loops forever when the text ends inside an IN list; the goroutine is lost)
		hangs++
		r.panicked = "ParseExpr does not terminate"
		r.t2 = "err"
		return
	}
	if perr != "" {
		r.panicked = "ParseExpr " + perr
		r.t2 = "err"
		return
	}
	if err != nil {
		r.t2 = "err"
		return
	}
	r.e2 = e2
	r.t2 = dump(e2)
	return
}

func (r *result) answer() string {
	if !r.accepted {
		return "reject"
	}
	pr := hx16(r.printed)
	if hasBigSet(r.e1) {
		pr = "-" // Go map order: the text is not canonical
	}
	return "t1 " + r.t1 + " | pr " + pr + " | t2 " + r.t2
}

// ---------------------------------------------------------------------------------------------
// classification of a spec violation (tree1 != tree2): find the first place where the trees
// differ and say which known defect class the planned tree shows there.

func prec(op influxql.Token) int { return op.Precedence() }

func isBin(e influxql.Expr) (*influxql.BinaryExpr, bool) {
	b, ok := e.(*influxql.BinaryExpr)
	return b, ok
}

// groupingDefect looks, inside e, for a binary node whose child ParseExpr would group differently.
func groupingDefect(e influxql.Expr) string {
	cls := ""
	influxql.WalkFunc(e, func(n influxql.Node) {
		b, ok := n.(*influxql.BinaryExpr)
		if !ok || cls != "" {
			return
		}
		if l, ok := isBin(b.LHS); ok && prec(l.Op) < prec(b.Op) {
			switch {
			case b.Op == influxql.AND && l.Op == influxql.OR:
				cls = "mixed_and_or_no_paren"
			case b.Op == influxql.LIKE:
				cls = "like_arithmetic_operand"
			default:
				cls = "?"
			}
		}
		if r, ok := isBin(b.RHS); ok && cls == "" && prec(r.Op) <= prec(b.Op) {
			_, negUnit := r.LHS.(*influxql.IntegerLiteral)
			switch {
			case b.Op == influxql.LIKE:
				cls = "like_arithmetic_operand"
			case r.Op == influxql.MUL && negUnit && r.LHS.(*influxql.IntegerLiteral).Val == -1:
				cls = "unary_minus_regrouped"
			default:
				cls = "?"
			}
		}
	})
	return cls
}

// tagTypedBeforeDiv: `"a"."b" / c` prints as `"a.b"::tag / c`; after the keyword TAG (or FIELD)
// the scanner takes the slash for the start of a regex, so the re-parse ends there.
func tagTypedBeforeDiv(x *influxql.BinaryExpr) bool {
	if x.Op != influxql.DIV {
		return false
	}
	last := x.LHS
	for {
		if b, ok := last.(*influxql.BinaryExpr); ok {
			last = b.RHS
			continue
		}
		break
	}
	v, ok := last.(*influxql.VarRef)
	return ok && (v.Type == influxql.Tag || v.Type == influxql.AnyField)
}

// durBeforeDiv: `(1ms) / x`, `('x') / 2`, `(true) / 2` lose their parentheses in Reduce and are shipped as
// `1ms / x` …; after a DURATIONVAL, a STRING or TRUE / FALSE the scanner takes the slash for the start of a
// regex (a statement written that way is not accepted either).
func durBeforeDiv(x *influxql.BinaryExpr) bool {
	if x.Op != influxql.DIV {
		return false
	}
	last := x.LHS
	for {
		if b, ok := last.(*influxql.BinaryExpr); ok {
			last = b.RHS
			continue
		}
		break
	}
	switch last.(type) {
	case *influxql.DurationLiteral, *influxql.StringLiteral, *influxql.BooleanLiteral, *influxql.TimeLiteral:
		return true
	}
	return false
}

func isInfNan(s string) bool { l := strings.ToLower(s); return l == "inf" || l == "nan" }

func classify(e1, e2 influxql.Expr, reCtx bool) string {
	switch a := e1.(type) {
	case *influxql.NumberLiteral:
		if a.Val == math.Trunc(a.Val) && !math.IsInf(a.Val, 0) {
			switch e2.(type) {
			case *influxql.IntegerLiteral, *influxql.UnsignedLiteral:
				return "integral_number_literal"
			}
		}
		return ""
	case *influxql.VarRef:
		if _, ok := e2.(*influxql.NumberLiteral); ok && isInfNan(a.Val) {
			return "ident_inf_nan"
		}
		return ""
	case *influxql.Call:
		if influxql.IdentNeedsQuotes(a.Name) || a.Name == "" {
			return "call_name_needs_quotes"
		}
		if isInfNan(a.Name) {
			return "ident_inf_nan"
		}
		b, ok := e2.(*influxql.Call)
		if !ok || b.Name != a.Name || len(b.Args) != len(a.Args) {
			// a defect inside an argument can cut the argument list short
			for _, x := range a.Args {
				if c := scanFeatures(x); c != "" {
					return c
				}
			}
			return ""
		}
		for i := range a.Args {
			if dump(a.Args[i]) != dump(b.Args[i]) {
				return classify(a.Args[i], b.Args[i], true)
			}
		}
		return ""
	case *influxql.ParenExpr:
		if b, ok := e2.(*influxql.ParenExpr); ok {
			return classify(a.Expr, b.Expr, false)
		}
		return scanFeatures(a)
	case *influxql.RegexLiteral:
		// only where Scanner.Scan (not parseRegex) reads the regex back
		if b, ok := e2.(*influxql.RegexLiteral); ok && !reCtx && a.Val != nil && b.Val != nil && strings.Contains(a.Val.String(), "/") {
			return "regex_operand_outside_regex_operator"
		}
		return ""
	case *influxql.BinaryExpr:
		if tagTypedBeforeDiv(a) {
			return "division_after_tag_typed_ref"
		}
		if durBeforeDiv(a) {
			return "division_after_unwrapped_literal"
		}
		if b, ok := e2.(*influxql.BinaryExpr); ok && b.Op == a.Op {
			// same node on both sides: the difference is below; a child that differs without a
			// known class decides (no masking by a sibling)
			if dump(a.LHS) != dump(b.LHS) {
				if c := classify(a.LHS, b.LHS, reCtx); c != "" || dump(a.RHS) == dump(b.RHS) {
					if c != "" {
						return c
					}
					// the left child was regrouped: look at this node's own grouping
					if g := groupingDefect(a); g != "" && g != "?" {
						return g
					}
					return ""
				}
			}
			if dump(a.RHS) != dump(b.RHS) {
				if c := classify(a.RHS, b.RHS, a.Op == influxql.EQREGEX || a.Op == influxql.NEQREGEX); c != "" {
					return c
				}
			}
			if g := groupingDefect(a); g != "" && g != "?" {
				return g
			}
			// a re-parse that stopped early shifts the whole chain: look for what stopped it
			return scanFeatures(a)
		}
		// the shape differs here: a grouping defect of this subtree, or a defect further down
		// that ended the re-parse early
		if c := groupingDefect(a); c != "" && c != "?" {
			return c
		}
		return scanFeatures(a)
	}
	return ""
}

// scanFeatures: the known defect (if any) a subtree carries, for failures that cannot be
// localised (ParseExpr returned an error or stopped early).
func scanFeatures(e influxql.Expr) string {
	cls := ""
	set := func(c string) {
		if cls == "" {
			cls = c
		}
	}
	influxql.WalkFunc(e, func(n influxql.Node) {
		switch x := n.(type) {
		case *influxql.Call:
			if influxql.IdentNeedsQuotes(x.Name) || x.Name == "" {
				set("call_name_needs_quotes")
			} else if isInfNan(x.Name) {
				set("ident_inf_nan")
			}
			// `f(/re/ * 2)`: parseCall takes the regex as the whole argument and then wants `,` or `)`
			for _, a := range x.Args {
				first := a
				for {
					if b, ok := first.(*influxql.BinaryExpr); ok {
						first = b.LHS
						continue
					}
					break
				}
				if _, isRe := first.(*influxql.RegexLiteral); isRe && first != a {
					set("regex_call_argument_with_operator")
				}
			}
		case *influxql.BinaryExpr:
			if x.Op == influxql.EQREGEX {
				if _, ok := x.RHS.(*influxql.RegexLiteral); !ok {
					set("eqregex_non_regex_operand")
				}
			}
			if tagTypedBeforeDiv(x) {
				set("division_after_tag_typed_ref")
			}
			if durBeforeDiv(x) {
				set("division_after_unwrapped_literal")
			}
		case *influxql.VarRef:
			// `inf::float` re-parses as the number and stops in front of the `::`
			if isInfNan(x.Val) && x.Type != influxql.Unknown {
				set("ident_inf_nan")
			}
			// `a::"duration"` is accepted (the quoted name is an IDENT), printed as `a::duration`
			// where `duration` is the keyword DURATION, which ParseVarRef does not take
			if x.Type == influxql.Duration {
				set("duration_typed_ref")
			}
		case *influxql.DurationLiteral:
			// the one duration ParseDuration cannot read back (`-9223372036854775808ns`: the digits overflow
			// before the sign is applied); only an overflow in Reduce's constant folding produces it
			if int64(x.Val) == math.MinInt64 {
				set("duration_min_int64")
			}
		case *influxql.NumberLiteral:
			// an integral float beyond the uint64 range prints as digits no integer parser accepts
			if x.Val == math.Trunc(x.Val) && math.Abs(x.Val) >= 9223372036854775808 && x.Val <= math.MaxInt64 {
				set("integral_number_literal")
			}
		}
	})
	if cls == "" {
		if c := groupingDefect(e); c != "" && c != "?" {
			cls = c
		}
	}
	return cls
}

// ---------------------------------------------------------------------------------------------

func nontrivial(text string, r *result) bool {
	if !r.accepted {
		return false
	}
	levels := map[int]bool{}
	esc := false
	influxql.WalkFunc(r.e1, func(n influxql.Node) {
		switch x := n.(type) {
		case *influxql.BinaryExpr:
			levels[x.Op.Precedence()] = true
		case *influxql.StringLiteral:
			if strings.ContainsAny(x.Val, "'\"\\\n") {
				esc = true
			}
		case *influxql.VarRef:
			if influxql.IdentNeedsQuotes(x.Val) {
				esc = true
			}
		case *influxql.RegexLiteral:
			if x.Val != nil && strings.Contains(x.Val.String(), "/") {
				esc = true
			}
		}
	})
	return len(levels) >= 2 || esc
}

func runExpr(c *hx.Ctx, g *gen, text string, mutated bool) {
	r := roundTrip(text)
	op := "expr " + hx16(text)
	ans := r.answer()
	if r.badRegex {
		// a broken statement can make the scanner read a long stretch of text as one regex
		// literal; whether Go's regexp accepts it is outside the model
		c.Count("answer:regex-does-not-compile")
		c.Emit("xexpr "+hx16(text), "skip")
		c.Case("xexpr "+text, false)
		return
	}
	if r.accepted && strings.Contains(r.t1, "<*") {
		// a node type outside the model (sub-select IN condition, CASE): not a modelled case
		c.Count("answer:unmodelled-node-type")
		c.Emit("xexpr "+hx16(text), "skip")
		c.Case("xexpr "+text, false)
		return
	}
	if g.outOfDomain && r.accepted {
		// floats beyond the decimal model: spec diff only (bit patterns compared)
		op = "xexpr " + hx16(text)
		ans = "skip"
	}
	line := c.Emit(op, ans)
	c.Case(op, nontrivial(text, &r))
	for f := range g.feats {
		c.Count("gen:" + f)
	}
	if mutated {
		c.Count("stream:mutated")
	}
	switch {
	case r.panicked != "":
		c.Count("answer:panic")
		c.Violation(line, "panic", r.panicked+" text="+strconv.Quote(text))
		return
	case !r.accepted:
		c.Count("answer:rejected-by-statement-parser")
		return
	}
	same := r.t1 == r.t2 && dumpBits(r.e1) == func() string {
		if r.e2 == nil {
			return ""
		}
		return dumpBits(r.e2)
	}()
	if same {
		c.Count("answer:round-trip-equal")
		if nontrivial(text, &r) {
			c.Sample(text + "  =>  " + r.printed)
		}
		return
	}
	cls := ""
	if r.e2 != nil {
		cls = classify(r.e1, r.e2, false)
	} else {
		cls = scanFeatures(r.e1)
	}
	c.Count("answer:round-trip-differs")
	c.Count("differs:" + map[bool]string{true: cls, false: "unclassified"}[cls != ""])
	c.Violation(line, cls, fmt.Sprintf("text=%s planned=%s shipped=%s reparsed=%s", strconv.Quote(text), r.t1, strconv.Quote(r.printed), r.t2))
}

// literal printers / scanners on arbitrary values (also those no statement produces)
func runLiteral(c *hx.Ctx, g *gen) {
	switch g.r.Intn(6) {
	case 0:
		s := g.pick(strPool)
		if g.r.Bool() {
			s = g.randString()
		}
		q := influxql.QuoteString(s)
		line := c.Emit("qs "+hx16(s), "q "+hx16(q))
		c.Case("qs "+s, strings.ContainsAny(s, "'\"\\\n"))
		c.Count("literal:QuoteString")
		if e, err := influxql.ParseExpr(q); err != nil || dump(e) != "S"+hx16(s) {
			c.Violation(line, "", "string literal does not round-trip: "+strconv.Quote(s))
		}
	case 1:
		s := g.pick(quotedIdents)
		switch g.r.Intn(3) {
		case 0:
			s = g.randString()
		case 1:
			s = g.pick(plainIdents)
		}
		q := influxql.QuoteIdent(s)
		line := c.Emit("qi "+hx16(s), "q "+hx16(q))
		c.Case("qi "+s, influxql.IdentNeedsQuotes(s))
		c.Count("literal:QuoteIdent")
		if !isInfNan(s) {
			if e, err := influxql.ParseExpr(q); err != nil || dump(e) != "V"+hx16(s)+":unknown" {
				c.Violation(line, "", "identifier does not round-trip: "+strconv.Quote(s))
			}
		}
	case 2:
		s := g.pick(append(append([]string{}, plainIdents...), bareKeywords...))
		if g.r.Bool() {
			s = g.pick(quotedIdents)
		}
		ans := "f"
		if influxql.IdentNeedsQuotes(s) {
			ans = "t"
		}
		c.Emit("inq "+hx16(s), ans)
		c.Case("inq "+s, ans == "t")
		c.Count("literal:IdentNeedsQuotes")
	case 3:
		var d int64
		switch g.r.Intn(6) {
		case 0:
			d = int64(g.r.U64() >> 1)
		case 1:
			d = int64(g.r.Intn(100000))
		case 2:
			d = int64(g.r.Intn(1000)) * []int64{1, 1e3, 1e6, 1e9, 6e10, 36e11, 864e11, 6048e11}[g.r.Intn(8)]
		case 3:
			d = -int64(g.r.Intn(1000)) * []int64{1, 1e3, 1e6, 1e9, 6e10, 36e11}[g.r.Intn(6)]
		case 4:
			d = []int64{0, 1, 999, 1000, 1001, math.MaxInt64, math.MaxInt64 - 807, 1500, 604800000000000}[g.r.Intn(9)]
		default:
			d = int64(g.r.U64()>>1) / 1000 * 1000
		}
		txt := influxql.FormatDuration(time.Duration(d))
		line := c.Emit("fd "+strconv.FormatInt(d, 10), "d "+txt)
		c.Case("fd "+txt, d%1000 != 0)
		c.Count("literal:FormatDuration")
		if d >= 0 {
			if back, err := influxql.ParseDuration(txt); err != nil || int64(back) != d {
				c.Violation(line, "", fmt.Sprintf("duration %d prints as %s and parses as %d (%v)", d, txt, int64(back), err))
			}
		}
	case 4:
		s := g.duration()
		if g.r.Chance(20) {
			s = g.pick(durBad)
		}
		d, err := influxql.ParseDuration(s)
		ans := "err"
		if err == nil {
			ans = "D" + strconv.FormatInt(int64(d), 10)
		}
		c.Emit("pd "+hx16(s), ans)
		c.Case("pd "+s, true)
		c.Count("literal:ParseDuration")
	default:
		// raw scanner on a generated condition (or a broken one)
		text := g.cond(1)
		if g.r.Chance(30) {
			text = g.mutate(text)
		}
		sc := influxql.NewScanner(strings.NewReader(text))
		toks := []string{"toks"}
		for i := 0; i < 100000; i++ {
			tok, _, lit := sc.Scan()
			if tok == influxql.EOF {
				break
			}
			s, stop := showTok(tok, lit)
			toks = append(toks, s)
			if stop {
				break
			}
		}
		c.Emit("lex "+hx16(text), strings.Join(toks, " "))
		c.Case("lex "+text, len(toks) > 4)
		c.Count("literal:Scanner.Scan")
	}
}

func showTok(tok influxql.Token, lit string) (string, bool) {
	switch tok {
	case influxql.ILLEGAL:
		return "ILLEGAL:" + hx16(lit), true
	case influxql.WS:
		return "WS", false
	case influxql.COMMENT:
		return "COMMENT", false
	case influxql.BADSTRING:
		return "BADSTRING", true
	case influxql.BADESCAPE:
		return "BADESCAPE", true
	case influxql.BADREGEX:
		return "BADREGEX", true
	case influxql.IDENT:
		return "IDENT:" + hx16(lit), false
	case influxql.STRING:
		return "STRING:" + hx16(lit), false
	case influxql.INTEGER:
		return "INTEGER:" + hx16(lit), false
	case influxql.NUMBER:
		return "NUMBER:" + hx16(lit), false
	case influxql.DURATIONVAL:
		return "DURATIONVAL:" + hx16(lit), false
	case influxql.REGEX:
		return "REGEX:" + hx16(lit), false
	case influxql.BOUNDPARAM:
		return "BOUNDPARAM:" + hx16(lit), false
	case influxql.HINT:
		return "HINT", false
	}
	s := tok.String()
	if tok >= influxql.FROM && tok <= influxql.ASC || tok == influxql.AND || tok == influxql.OR {
		return "KW:" + s, false
	}
	return "SYM:" + s, false
}

func Run(c *hx.Ctx) error {
	c.Stats.Rule = "grammar-directed WHERE conditions (all binary operators, flat operator runs with random parentheses, unary minus, quoted/dotted/typed identifiers, strings with quotes/backslashes/newlines/unicode, int64 limits, float shapes, durations, time-literal strings, regexes with slashes, calls of arity 0-4, IN sets, MATCH family, LIKE) plus a token-level broken stream, plus literal printers/scanners on arbitrary values, plus SELECT field lists (aliases, regex fields, wildcards, CASE) through Fields.String() -> hybridqp.ParseFields, sort fields through ParseSortFields, sources and sub-queries (tz, fill, GROUP BY time with offset, LIMIT/OFFSET, ORDER BY, INTO, regex sources) through ParseSource, a text parsed by the pooled parser after five different previous uses, plus ProcessorOptions objects (every modelled field at zero / typical / boundary values, and the options NewProcessorOptionsStmtBase builds from generated statements) field by field through MarshalBinary -> UnmarshalBinary, plan and chunk objects through Marshal->Unmarshal; a condition is non-trivial when its tree mixes at least two precedence levels or holds a literal that needs escaping; distinct by statement text"
	n := c.Budget(30000, 1000000)
	// hx.NewRng(seed) states are one splitmix step apart for consecutive seeds (seed 2 replays
	// seed 1 shifted by one draw); Fork() hashes the seed so the streams are unrelated
	r := hx.NewRng(c.Seed).Fork()
	g := &gen{r: r}
	// hand-picked boundary cases first (the probes of the design phase)
	for _, t := range corpus {
		g.feats = map[string]bool{"corpus": true}
		g.outOfDomain = false
		runExpr(c, g, t, false)
	}
	nCodec := n / 15
	runWireDesc(c)
	for i := 0; i < n; i++ {
		if hangs >= 3 {
			c.Stats.Notes = append(c.Stats.Notes, "stopped early: ParseExpr did not terminate on 3 printed conditions")
			return nil
		}
		g.feats = map[string]bool{}
		g.outOfDomain = false
		switch k := r.Intn(100); {
		case k < 52:
			runExpr(c, g, g.cond(2), false)
		case k < 57:
			runCondRewrite(c, g, g.condWithTime(2, g.stableAtom), true)
		case k < 59:
			runCondRewrite(c, g, g.condWithTime(2, func() string { return g.unit(1) }), false)
		case k < 60:
			runPrep(c, g)
		case k < 62:
			runCut(c, g)
		case k < 68:
			runFields(c, g, g.fieldList())
		case k < 69:
			runSorts(c, g)
		case k < 70:
			runSource(c, g)
		case k < 71:
			runPool(c, g)
		case k < 72:
			runStmtOpts(c, g)
		case k < 80:
			t := g.cond(2)
			if !strings.Contains(t, "/a b/") { // (cutting a regex in two can make it invalid; the model does not compile regexes)
				t = g.mutate(t)
			}
			runExpr(c, g, t, true)
		default:
			runLiteral(c, g)
		}
	}
	return runCodecs(c, g, nCodec)
}

var corpus = []string{
	"a = 1 OR b = 2 AND c = 3", "a = 1 AND b = 2 OR c = 3", "a = 2.0", "a = -2.0", "a = 1500ns", "a = 1h30m",
	"a > 1 + 2 * 3", "a > 1 - 2 - 3", "a > 1 - (2 - 3)", "a & 1 = 1", "a | 1 ^ 3 & 2 = 1", "a % 2 = 1",
	"a =~ /x\\/y/", "\"my col\" = 'it\\'s \\\\ \\n \"q\"'", "a::time > 1", "a.b = 1", "\"a\".\"b\" = 1", "a.\"b\" = 1",
	"f(x, 1, 'a') > 1", "f() > 1", "\"my f\"(x) > 1", "-a > 1", "-(a+b) > 1", "- -5 > a", "- - a > 1", "b / -a > 1",
	"a > 9223372036854775808", "a > -9223372036854775808", "a > 1e3", "a > .5", "a > 1.", "a = inf", "a = nan",
	"a IN (-1, 2)", "a IN ('')", "a NOT IN ('it\\'s', 1.5)", "MATCH(a, 'x') AND b = 1", "a + 1 LIKE 'x'", "a LIKE 'x%'",
	"count(*) > 1", "f(*::tag, /a\\/b/, x) > 1", "a = /x\\/y/", "a =~ 'x'", "(a = 1) = (b = 2)", "((a + b)) * c = 1",
	"a = 1 AND (b)", "(a) AND b = 1", "a = 1 = 2", "a = -0.0", "a = 00012", "a = 9223372036854775807ns", "a = 106752d",
	"cast(x AS float) > 1", "a--1 > 0", "a::\"duration\" > 1", "a::\"float\" > 1", "a = 1 /* c */", "\"\" = 1", "a = ''", "time >= '2020-01-01T00:00:00Z' AND time < '2020-01-02'",
}
