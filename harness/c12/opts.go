package c12

// ProcessorOptions through the real codec, field by field.
//
//   opts F=<v> …     an options object (every modelled field; zero values are left out of the line):
//                    MarshalBinary -> UnmarshalBinary; the answer line holds every modelled field of
//                    the decoded struct (or marshal-error / decode-error). The Lean driver interprets
//                    the regenerated per-field codec rows on the same object and must print the same
//                    line (exact behaviour). Spec diff: a field judged relevant that comes back
//                    different (class per field); fields judged irrelevant on the store are compared
//                    by the model only.
//   wiredesc <Msg>   the fields of the runtime protobuf descriptor (name, number, kind, repeated)
//                    against the tables ogfacts decoded from internal.pb.go
//   judged <Field>   the harness' copy of the judgement table against the Lean one
//
// Value syntax: see OG/C12/WireDriver.lean.

import (
	"encoding/hex"
	"fmt"
	"math"
	"reflect"
	"regexp"
	"sort"
	"strconv"
	"strings"
	"time"

	"github.com/openGemini/openGemini/engine/hybridqp"
	"github.com/openGemini/openGemini/lib/config"
	"github.com/openGemini/openGemini/lib/obs"
	"github.com/openGemini/openGemini/lib/util/lifted/influx/influxql"
	"github.com/openGemini/openGemini/lib/util/lifted/influx/query"
	internal "github.com/openGemini/openGemini/lib/util/lifted/influx/query/proto"
	"google.golang.org/protobuf/reflect/protoreflect"

	"verif/harness/internal/hx"
)

// ---------------------------------------------------------------------------------------------
// judgement table (mirror of OG.C12.Wire.judgement; compared line by line through `judged` ops)

const (
	jRelevant  = "relevant"
	jLossy     = "relevant-lossy" // shipped through a conversion that is not injective (FillValue)
	jPushDown  = "pushdown"       // read on the store only in plans rebuilt under /*+ query_push_down */, not shipped
	jLocal     = "irrelevant"     // never read on a store from a decoded object
	classNotSh = "option_not_shipped_pushdown"
)

var optJudgement = map[string]string{
	"Name": jRelevant, "Expr": jRelevant, "Aux": jRelevant, "Sources": jRelevant, "Interval": jRelevant, "Dimensions": jRelevant,
	"GroupBy": jRelevant, "Location": jRelevant, "Fill": jRelevant, "FillValue": jLossy, "Condition": jRelevant,
	"StartTime": jRelevant, "EndTime": jRelevant, "Limit": jRelevant, "Offset": jRelevant, "SLimit": jRelevant, "SOffset": jRelevant,
	"Ascending": jRelevant, "StripName": jRelevant, "Dedupe": jRelevant, "Ordered": jRelevant, "MaxSeriesN": jRelevant,
	"ChunkSize": jRelevant, "MaxParallel": jRelevant, "Query": jRelevant, "EnableBinaryTreeMerge": jRelevant, "QueryId": jRelevant,
	"HintType": jRelevant, "SeriesKey": jRelevant, "GroupByAllDims": jRelevant, "SortFields": jRelevant, "HasFieldWildcard": jRelevant,
	"LogQueryCurrId": jRelevant, "IncQuery": jRelevant, "IterID": jRelevant, "PromQuery": jRelevant, "PromRemoteRead": jRelevant,
	"Step": jRelevant, "Range": jRelevant, "LookBackDelta": jRelevant, "QueryOffset": jRelevant, "Without": jRelevant,
	"ValueCondition": jRelevant,
	"CompareOffset":  jPushDown, "RemoveMetric": jPushDown, "IsSameDims": jPushDown,
	"Exprs": jLocal, "FieldAux": jLocal, "TagAux": jLocal, "Parallel": jLocal, "InterruptCh": jLocal, "Authorizer": jLocal,
	"ChunkedSize": jLocal, "Chunked": jLocal, "AbortChan": jLocal, "RowsChan": jLocal, "isTimeFirstKey": jLocal, "StmtId": jLocal,
	"LowerOpt": jLocal, "BinOp": jLocal, "IsCountValues": jLocal, "SimpleTagset": jLocal, "NoPushDownDim": jLocal, "ctx": jLocal,
	"InConditons": jLocal, "IsArrowQuery": jLocal,
}

// ---------------------------------------------------------------------------------------------
// canonical values

func hexs(s string) string { return hex.EncodeToString([]byte(s)) }
func tf(b bool) string {
	if b {
		return "t"
	}
	return "f"
}

// payload pools: a pointer to a struct with a codec of its own travels as "payload number n"
var irPool = []*influxql.IndexRelation{
	{Rid: 1, Oids: []uint32{1, 4}, IndexNames: []string{"field", "bloomfilter"}, IndexList: []*influxql.IndexList{{IList: []string{"a"}}, {IList: []string{"b", "c"}}},
		IndexOptions: []*influxql.IndexOptions{nil, {Options: []*influxql.IndexOption{{Tokens: ",; ", Tokenizers: "standard", TimeClusterDuration: time.Hour}}}}},
	{Rid: 7, Oids: []uint32{}, IndexNames: []string{}, IndexList: []*influxql.IndexList{}, IndexOptions: []*influxql.IndexOptions{}},
	{Rid: math.MaxUint32, Oids: []uint32{9}, IndexNames: []string{"é"}, IndexList: []*influxql.IndexList{{IList: []string{""}}}, IndexOptions: []*influxql.IndexOptions{{Options: []*influxql.IndexOption{}}}},
}
var obsPool = []*obs.ObsOptions{
	{Enabled: true, BucketName: "b", Endpoint: "e:80", Ak: "ak", Sk: "sk", BasePath: "/p"},
	{},
}

func canonIR(x *influxql.IndexRelation) string {
	if x == nil {
		return "nil"
	}
	var b strings.Builder
	fmt.Fprintf(&b, "rid=%d oids=%v names=%q lists=", x.Rid, x.Oids, x.IndexNames)
	for _, l := range x.IndexList {
		if l == nil {
			b.WriteString("<nil>")
		} else {
			fmt.Fprintf(&b, "%q", l.IList)
		}
	}
	b.WriteString(" opts=")
	for _, o := range x.IndexOptions {
		// (a nil entry comes back as an entry without options; the readers treat both alike:
		// `indexOpt != nil && len(indexOpt.Options) != 0`)
		b.WriteString("[")
		if o == nil {
			b.WriteString("]")
			continue
		}
		for _, io := range o.Options {
			fmt.Fprintf(&b, "{%q %q %d}", io.Tokens, io.Tokenizers, int64(io.TimeClusterDuration))
		}
		b.WriteString("]")
	}
	return b.String()
}

func irID(x *influxql.IndexRelation) string {
	if x == nil {
		return "-"
	}
	for i, p := range irPool {
		if canonIR(p) == canonIR(x) {
			return strconv.Itoa(i)
		}
	}
	return "999"
}

func obsID(x *obs.ObsOptions) string {
	if x == nil {
		return "-"
	}
	for i, p := range obsPool {
		if *p == *x {
			return strconv.Itoa(i)
		}
	}
	return "999"
}

func canonSource(s influxql.Source) string {
	m, ok := s.(*influxql.Measurement)
	if !ok {
		return "Q"
	}
	re := "-"
	if m.Regex != nil {
		re = "x"
		if m.Regex.Val != nil {
			re += hexs(m.Regex.Val.String())
		}
	}
	return strings.Join([]string{"M", hexs(m.Database), hexs(m.RetentionPolicy), hexs(m.Name), re, tf(m.IsTarget), hexs(m.SystemIterator),
		tf(m.IsSystemStatement), hexs(m.Alias), tf(m.IsTimeSorted), irID(m.IndexRelation), obsID(m.ObsOptions), strconv.Itoa(int(m.EngineType)), hexs(m.MstType)}, ",")
}

func canonLoc(l *time.Location) string {
	switch {
	case l == nil:
		return "znil"
	case l == time.UTC:
		return "zutc"
	case l == time.Local:
		return "zlocal"
	}
	if off, ok := fixedZones[l]; ok {
		return "zf" + hexs(l.String()) + "," + strconv.Itoa(off)
	}
	return "zn" + hexs(l.String())
}

// locations made with time.FixedZone by the generator (a *Location does not tell)
var fixedZones = map[*time.Location]int{}

// canonValue: the value syntax of the driver for one field; ok=false for a type the model does not look into.
// asInput: an expression is written as the statement text it was planned from (texts), else as its tree dump.
func canonValue(v reflect.Value, exprText string, asInput bool) (string, bool) {
	switch x := v.Interface().(type) {
	case time.Duration:
		return "i" + strconv.FormatInt(int64(x), 10), true
	case []byte:
		return "y" + hex.EncodeToString(x), true
	case []string:
		var b strings.Builder
		b.WriteString("l")
		for _, s := range x {
			b.WriteString(":" + hexs(s))
		}
		return b.String(), true
	case map[string]struct{}:
		ks := make([]string, 0, len(x))
		for k := range x {
			ks = append(ks, k)
		}
		sort.Strings(ks)
		var b strings.Builder
		b.WriteString("k")
		for _, s := range ks {
			b.WriteString(":" + hexs(s))
		}
		return b.String(), true
	case *time.Location:
		return canonLoc(x), true
	case influxql.SortFields:
		var b strings.Builder
		b.WriteString("o")
		for _, f := range x {
			b.WriteString(":" + hexs(f.Name) + "," + tf(f.Ascending))
		}
		return b.String(), true
	case []influxql.VarRef:
		var b strings.Builder
		b.WriteString("r")
		for _, r := range x {
			b.WriteString(":" + hexs(r.Val) + "," + strconv.Itoa(int(r.Type)) + "," + hexs(r.Alias))
		}
		return b.String(), true
	case hybridqp.Interval:
		return "v" + strconv.FormatInt(int64(x.Duration), 10) + "," + strconv.FormatInt(int64(x.Offset), 10), true
	case []influxql.Source:
		if x == nil {
			return "Snil", true
		}
		var b strings.Builder
		b.WriteString("S")
		for _, s := range x {
			b.WriteString(":" + canonSource(s))
		}
		return b.String(), true
	}
	t := v.Type()
	switch {
	case t.Kind() == reflect.Interface && t.Name() == "Expr":
		if v.IsNil() {
			return "enil", true
		}
		if asInput {
			return "e" + hexs(exprText), true
		}
		return "e" + hexs(dump(v.Interface().(influxql.Expr))), true
	case t.Kind() == reflect.Interface && t.NumMethod() == 0:
		if v.IsNil() {
			return "fnil", true
		}
		switch f := v.Interface().(type) {
		case float64:
			return fmt.Sprintf("ff%016x", math.Float64bits(f)), true
		case int64:
			return "fi" + strconv.FormatInt(f, 10), true
		}
		return "fo", true
	}
	switch v.Kind() {
	case reflect.String:
		return "s" + hexs(v.String()), true
	case reflect.Bool:
		return "b" + tf(v.Bool()), true
	case reflect.Int, reflect.Int8, reflect.Int16, reflect.Int32, reflect.Int64:
		return "i" + strconv.FormatInt(v.Int(), 10), true
	case reflect.Uint, reflect.Uint8, reflect.Uint16, reflect.Uint32, reflect.Uint64:
		return "i" + strconv.FormatUint(v.Uint(), 10), true
	}
	return "", false
}

// fieldValue reads a struct field, exported or not.
func fieldValue(v reflect.Value, i int) reflect.Value {
	f := v.Field(i)
	if f.CanInterface() {
		return f
	}
	return reflect.NewAt(f.Type(), f.Addr().UnsafePointer()).Elem()
}

// canonOpts: field -> canonical value, in struct order, for the fields the model looks into.
func canonOpts(opt *query.ProcessorOptions, texts map[string]string, asInput bool) ([]string, map[string]string) {
	v := reflect.ValueOf(opt).Elem()
	t := v.Type()
	var order []string
	vals := map[string]string{}
	for i := 0; i < t.NumField(); i++ {
		name := t.Field(i).Name
		s, ok := canonValue(fieldValue(v, i), texts[name], asInput)
		if !ok {
			continue
		}
		order = append(order, name)
		vals[name] = s
	}
	return order, vals
}

var zeroCanon = func() map[string]string {
	_, m := canonOpts(&query.ProcessorOptions{}, nil, true)
	return m
}()

// ---------------------------------------------------------------------------------------------
// generator

var tzPool = []string{"Asia/Shanghai", "America/New_York", "Europe/Berlin", "Australia/Lord_Howe", "Etc/GMT+5", "Africa/Abidjan"}

var optStrPool = []string{"", "a", "cpu", "my col", "é", "名前", "x.y", "sel\"ect", "a\x00b", "line\nbreak", "SELECT mean(v) FROM db.rp.m WHERE time > now() - 1h GROUP BY time(1m)", "🙂", " "}
var intBound = []int64{0, 1, -1, 2, 1000, math.MaxInt64, math.MinInt64, 1 << 31, 1<<31 - 1, -(1 << 31), 1<<53 + 1, 1 << 32, 255, 256}
var durBound = []int64{0, 1, -1, 999999, 1000000, 1500000, 1000000000, 3600000000000, math.MaxInt64, math.MinInt64, 60000000000, 999, 1001, -1500000, 86400000000000}

type optGen struct {
	g           *gen
	outOfDomain []string          // reasons why a spec difference on this object proves nothing
	texts       map[string]string // statement text of the expression fields
}

func (o *optGen) ood(why string) { o.outOfDomain = append(o.outOfDomain, why) }

func (o *optGen) str() string {
	g := o.g
	switch k := g.r.Intn(100); {
	case k < 12:
		return ""
	case k < 15:
		o.ood("string that is not valid UTF-8 (the AST never holds one: the scanner reads runes)")
		return g.pick([]string{"\xff", "a\xc3", "\xed\xa0\x80", "ok\xf8"})
	case k < 75:
		return g.pick(optStrPool)
	default:
		return g.randString()
	}
}

func (o *optGen) int64v(bound []int64) int64 {
	g := o.g
	switch k := g.r.Intn(100); {
	case k < 15:
		return 0
	case k < 55:
		return bound[g.r.Intn(len(bound))]
	case k < 85:
		return int64(1 + g.r.Intn(1<<20))
	default:
		return int64(g.r.U64())
	}
}

func (o *optGen) location() *time.Location {
	g := o.g
	switch k := g.r.Intn(100); {
	case k < 20:
		return nil
	case k < 35:
		return time.UTC
	case k < 40:
		return time.Local
	case k < 92:
		name := g.pick(tzPool)
		l, err := time.LoadLocation(name)
		if err != nil {
			return time.UTC
		}
		return l
	default:
		// never built by the query layer (tz('…') goes through LoadLocation): shipped by name only
		o.ood("time.FixedZone location (tz('…') always comes from time.LoadLocation)")
		off := []int{0, 3600, -18000, 28800}[g.r.Intn(4)]
		l := time.FixedZone(g.pick([]string{"", "+08", "X", "Asia/Shanghai"}), off)
		fixedZones[l] = off
		return l
	}
}

func (o *optGen) measurement() *influxql.Measurement {
	g := o.g
	m := &influxql.Measurement{Database: o.str(), RetentionPolicy: o.str(), Name: o.str(), IsTarget: g.r.Bool(), SystemIterator: g.pick([]string{"", "", "_series", "_fieldKeys"}),
		IsSystemStatement: g.r.Chance(20), Alias: g.pick([]string{"", "", "t1", "my alias"}), IsTimeSorted: g.r.Bool(),
		MstType: g.pick([]string{"", "general", "temporary"})}
	switch k := g.r.Intn(10); {
	case k < 6:
		m.EngineType = config.EngineType(g.r.Intn(3))
	case k < 9:
		m.EngineType = config.EngineType(g.r.Intn(256))
		if m.EngineType > 2 {
			o.ood("EngineType beyond its declared constants")
		}
	}
	if g.r.Chance(25) {
		pat := g.pick([]string{"x", "^a.*$", "a/b", "", "[0-9]+", "é+", "(?i)abc"})
		m.Regex = &influxql.RegexLiteral{Val: regexp.MustCompile(pat)}
		if pat == "" {
			o.ood("measurement regex with an empty pattern (`FROM //` is not accepted by the grammar)")
		}
	}
	if g.r.Chance(35) {
		m.IndexRelation = irPool[g.r.Intn(len(irPool))]
	}
	if g.r.Chance(25) {
		m.ObsOptions = obsPool[g.r.Intn(len(obsPool))]
	}
	return m
}

func (o *optGen) condition(field string) influxql.Expr {
	if o.g.r.Chance(25) {
		return nil
	}
	e, text := o.g.cleanCondition()
	o.texts[field] = text
	return e
}

func (o *optGen) options() *query.ProcessorOptions {
	g := o.g
	opt := &query.ProcessorOptions{}
	v := reflect.ValueOf(opt).Elem()
	t := v.Type()
	for i := 0; i < t.NumField(); i++ {
		f := t.Field(i)
		fv := fieldValue(v, i)
		switch f.Name {
		case "Expr", "Condition", "ValueCondition":
			if e := o.condition(f.Name); e != nil {
				fv.Set(reflect.ValueOf(e))
			}
			continue
		case "Fill":
			switch k := g.r.Intn(20); {
			case k < 18:
				opt.Fill = influxql.FillOption(g.r.Intn(5))
			default:
				opt.Fill = influxql.FillOption(intBound[g.r.Intn(len(intBound))])
				if opt.Fill < 0 || opt.Fill > 4 {
					o.ood("FillOption beyond its declared constants")
				}
			}
			continue
		case "FillValue":
			switch g.r.Intn(8) {
			case 0, 1:
				opt.FillValue = []float64{0, 1.5, -2.25, math.Copysign(0, -1), math.Inf(1), math.NaN(), 1e300, 5e-324, float64(g.r.Intn(1000)) / 4}[g.r.Intn(9)]
			case 2, 3:
				opt.FillValue = []int64{0, 5, -3, 1 << 53, 1<<53 + 1, -(1<<53 + 1), math.MaxInt64, math.MinInt64, 1<<62 + 1, 123456789}[g.r.Intn(10)]
			case 4:
				opt.FillValue = int64(g.r.Intn(1000))
			case 5:
				o.ood("FillValue of a dynamic type the grammar never produces")
				opt.FillValue = "x"
			}
			continue
		case "Location":
			opt.Location = o.location()
			continue
		case "IterID":
			opt.IterID = int32(o.int64v([]int64{0, 1, -1, math.MaxInt32, math.MinInt32}))
			continue
		case "QueryId":
			opt.QueryId = []uint64{0, 1, math.MaxUint64, 1 << 63, 1<<63 - 1, g.r.U64()}[g.r.Intn(6)]
			continue
		}
		switch x := fv.Interface().(type) {
		case time.Duration:
			_ = x
			fv.SetInt(o.int64v(durBound))
			continue
		case []byte:
			switch g.r.Intn(4) {
			case 0:
			case 1:
				fv.SetBytes([]byte{})
			default:
				fv.SetBytes([]byte(g.pick([]string{"k", "cpu,host=a", "\xff\x00\x80", "é"})))
			}
			continue
		case []string:
			switch g.r.Intn(5) {
			case 0:
			case 1:
				fv.Set(reflect.ValueOf([]string{}))
			default:
				n := 1 + g.r.Intn(3)
				xs := make([]string, n)
				for k := range xs {
					xs[k] = o.str()
				}
				fv.Set(reflect.ValueOf(xs))
			}
			continue
		case map[string]struct{}:
			switch g.r.Intn(5) {
			case 0:
			case 1:
				fv.Set(reflect.ValueOf(map[string]struct{}{}))
			default:
				m := map[string]struct{}{}
				for k := 0; k < 1+g.r.Intn(3); k++ {
					m[o.str()] = struct{}{}
				}
				fv.Set(reflect.ValueOf(m))
			}
			continue
		case influxql.SortFields:
			if g.r.Chance(70) {
				var sf influxql.SortFields
				n := 1 + g.r.Intn(3)
				for k := 0; k < n; k++ {
					name := g.pick([]string{"a", "usage_user", "time", "host", "Region", "_x", "a1"})
					if k == 0 && g.r.Chance(15) {
						name = "" // ORDER BY ASC / DESC
					}
					if g.r.Chance(12) {
						name = g.pick([]string{"my col", "select", "a.b", "é", "desc", "1a", "a-b", "a\"b"})
						o.texts["SortFields:quoted"] = name
					}
					sf = append(sf, &influxql.SortField{Name: name, Ascending: g.r.Bool()})
				}
				fv.Set(reflect.ValueOf(sf))
			}
			continue
		case []influxql.VarRef:
			if g.r.Chance(75) {
				var refs []influxql.VarRef
				for k := 0; k < g.r.Intn(4); k++ {
					r := influxql.VarRef{Val: o.str(), Type: influxql.DataType(g.r.Intn(12)), Alias: g.pick([]string{"", "", "al"})}
					if g.r.Chance(5) {
						r.Type = influxql.DataType(intBound[g.r.Intn(len(intBound))])
						if r.Type < 0 || r.Type > 11 {
							o.ood("DataType beyond its declared constants")
						}
					}
					refs = append(refs, r)
				}
				if refs == nil && g.r.Bool() {
					refs = []influxql.VarRef{}
				}
				fv.Set(reflect.ValueOf(refs))
			}
			continue
		case hybridqp.Interval:
			fv.Set(reflect.ValueOf(hybridqp.Interval{Duration: time.Duration(o.int64v(durBound)), Offset: time.Duration(o.int64v(durBound))}))
			continue
		case []influxql.Source:
			switch k := g.r.Intn(10); {
			case k < 2:
			case k < 3:
				fv.Set(reflect.ValueOf([]influxql.Source{}))
			default:
				var ss []influxql.Source
				for j := 0; j < 1+g.r.Intn(3); j++ {
					if g.r.Chance(12) {
						// (the encoder skips what is not a measurement: the list of the store is shorter)
						o.ood("a source that is not a measurement in opt.Sources (the planner hands measurements only)")
						ss = append(ss, &influxql.SubQuery{Statement: &influxql.SelectStatement{}})
						continue
					}
					ss = append(ss, o.measurement())
				}
				fv.Set(reflect.ValueOf(ss))
			}
			continue
		}
		switch fv.Kind() {
		case reflect.String:
			fv.SetString(o.str())
		case reflect.Bool:
			fv.SetBool(g.r.Chance(65))
		case reflect.Int, reflect.Int64:
			fv.SetInt(o.int64v(intBound))
		case reflect.Int32:
			fv.SetInt(int64(int32(o.int64v(intBound))))
		case reflect.Uint64:
			fv.SetUint(uint64(o.int64v(intBound)))
		case reflect.Uint32:
			fv.SetUint(uint64(uint32(o.int64v(intBound))))
		}
		// anything else (channels, context, authorizer, planner objects) stays nil: the model does not look into it
	}
	return opt
}

// ---------------------------------------------------------------------------------------------
// spec diff

// what the consumers of FillValue read: TransToFloat and TransToInteger of the dynamic value
func fillMeaning(v interface{}) string {
	f, _ := hybridqp.TransToFloat(v)
	i, _ := hybridqp.TransToInteger(v)
	return fmt.Sprintf("%016x/%d", math.Float64bits(f), i)
}

func runOpts(c *hx.Ctx, g *gen) {
	o := &optGen{g: g, texts: map[string]string{}}
	runOptsObj(c, o, o.options())
}

// runOptsObj: one options object through the real codec, against the model.
func runOptsObj(c *hx.Ctx, o *optGen, opt *query.ProcessorOptions) {
	order, in := canonOpts(opt, o.texts, true)
	var parts []string
	for _, f := range order {
		if in[f] != zeroCanon[f] {
			parts = append(parts, f+"="+in[f])
		}
	}
	op := strings.TrimSpace("opts " + strings.Join(parts, " "))

	var got query.ProcessorOptions
	var buf []byte
	var merr, uerr error
	p := hx.Safe(func() {
		buf, merr = opt.MarshalBinary()
		if merr == nil {
			uerr = got.UnmarshalBinary(buf)
		}
	})
	ans := ""
	var out map[string]string
	switch {
	case p != "":
		ans = "err " + p
	case merr != nil:
		ans = "marshal-error"
	case uerr != nil:
		ans = "decode-error"
	default:
		var oo []string
		oo, out = canonOpts(&got, nil, false)
		a := []string{"ok"}
		for _, f := range oo {
			a = append(a, f+"="+out[f])
		}
		ans = strings.Join(a, " ")
	}
	line := c.Emit(op, ans)
	c.Case(op, len(parts) > 10)
	c.Count("opts:objects")
	for _, w := range o.outOfDomain {
		c.Count("opts:outside-domain:" + strings.SplitN(w, " (", 2)[0])
	}
	if p != "" {
		c.Violation(line, "panic", "ProcessorOptions codec panics: "+p)
		return
	}
	if len(o.outOfDomain) > 0 {
		// the object holds a value no query produces: the model must still predict the outcome
		// (exact behaviour), but a difference is no statement about shipped queries
		return
	}
	if merr != nil || uerr != nil {
		c.Violation(line, "", fmt.Sprintf("ProcessorOptions Marshal->Unmarshal fails: marshal=%v unmarshal=%v", merr, uerr))
		return
	}
	// sent: what the store should see = the tree a re-parse must give back, i.e. the planned tree
	_, want := canonOpts(opt, nil, false)
	for _, f := range order {
		if want[f] == out[f] {
			continue
		}
		j, judged := optJudgement[f]
		switch {
		case !judged:
			c.Violation(line, "", fmt.Sprintf("ProcessorOptions.%s is not judged (new field?): sent %s, received %s", f, want[f], out[f]))
		case j == jLocal:
			c.Count("opts:differs-irrelevant:" + f)
		case j == jPushDown:
			c.Count("opts:differs-pushdown:" + f)
			c.Violation(line, classNotSh, fmt.Sprintf("ProcessorOptions.%s is read by store-side transforms of a pushed-down plan but is not shipped: sent %s, received %s", f, want[f], out[f]))
		case f == "FillValue":
			if a, b := fillMeaning(opt.FillValue), fillMeaning(got.FillValue); a != b {
				c.Violation(line, "fill_value_int_beyond_2p53", fmt.Sprintf("FillValue %v (%T) reaches the store as %v: TransToFloat/TransToInteger %s -> %s", opt.FillValue, opt.FillValue, got.FillValue, a, b))
			}
		case f == "Aux" && auxSameButAlias(opt.Aux, got.Aux):
			c.Count("opts:differs-irrelevant:Aux.Alias")
		case f == "Sources" && sourcesSameButLocal(opt.Sources, got.Sources):
			c.Count("opts:differs-irrelevant:Measurement.Alias/IsSystemStatement/MstType")
		default:
			cls := "opts_field_" + f
			if f == "SortFields" && o.texts["SortFields:quoted"] != "" {
				cls = "sort_field_needs_quotes"
			}
			c.Violation(line, cls, fmt.Sprintf("ProcessorOptions.%s: sent %s, received %s", f, want[f], out[f]))
		}
	}
}

func auxSameButAlias(a, b []influxql.VarRef) bool {
	if len(a) != len(b) {
		return false
	}
	for i := range a {
		if a[i].Val != b[i].Val || a[i].Type != b[i].Type {
			return false
		}
	}
	return true
}

func sourcesSameButLocal(a, b []influxql.Source) bool {
	if len(a) != len(b) {
		return false
	}
	for i := range a {
		x, ok1 := a[i].(*influxql.Measurement)
		y, ok2 := b[i].(*influxql.Measurement)
		if !ok1 || !ok2 {
			return false
		}
		xc := *x
		xc.Alias, xc.IsSystemStatement, xc.MstType = "", false, ""
		if canonSource(&xc) != canonSource(y) {
			return false
		}
	}
	return true
}

// ---------------------------------------------------------------------------------------------
// descriptor and judgement ops

func showKind(fd protoreflect.FieldDescriptor) string {
	if fd.IsMap() {
		return fmt.Sprintf("map<%s,%s>", fd.MapKey().Kind(), fd.MapValue().Kind())
	}
	if fd.Kind() == protoreflect.MessageKind {
		return "message:" + string(fd.Message().Name())
	}
	return fd.Kind().String()
}

func runWireDesc(c *hx.Ctx) {
	msgs := []protoreflect.ProtoMessage{&internal.ProcessorOptions{}, &internal.Measurement{}, &internal.Interval{}, &internal.VarRef{},
		&internal.ObsOptions{}, &internal.IndexOption{}, &internal.QuerySchema{}, &internal.Unnest{}, &internal.JoinCase{}}
	for _, m := range msgs {
		d := m.ProtoReflect().Descriptor()
		parts := []string{"desc"}
		fs := d.Fields()
		for i := 0; i < fs.Len(); i++ {
			fd := fs.Get(i)
			parts = append(parts, fmt.Sprintf("%s:%d:%s:%s", fd.Name(), fd.Number(), showKind(fd), tf(fd.IsList() || fd.IsMap())))
		}
		c.Emit("wiredesc "+string(d.Name()), strings.Join(parts, " "))
		c.Case("wiredesc "+string(d.Name()), true)
		c.Count("opts:wiredesc")
	}
	t := reflect.TypeOf(query.ProcessorOptions{})
	for i := 0; i < t.NumField(); i++ {
		name := t.Field(i).Name
		j, ok := optJudgement[name]
		if !ok {
			j = "unjudged"
		}
		c.Emit("judged "+name, j)
		c.Case("judged "+name, false)
	}
}
