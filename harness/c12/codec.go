package c12

// Option / plan / chunk objects through Marshal -> Unmarshal (spec diff only: the Lean side
// holds the field-coverage tables, not the byte layout).
//
//   options  see opts.go (field by field against the model of the regenerated codec rows)
//   plans    random chains of logical plan nodes over a schema built from a generated condition
//   chunks   random result batches (every column type, nils, tags, interval index, dims)

import (
	"fmt"
	"math"
	"reflect"
	"strings"
	"time"

	"github.com/openGemini/openGemini/engine/executor"
	"github.com/openGemini/openGemini/engine/hybridqp"
	"github.com/openGemini/openGemini/lib/util/lifted/influx/influxql"
	"github.com/openGemini/openGemini/lib/util/lifted/influx/query"
	"github.com/openGemini/openGemini/lib/util/lifted/vm/protoparser/influx"

	"verif/harness/internal/hx"
)

// a condition the statement parser accepts and that survives String() -> ParseExpr (the
// expression-level defects are reported by runExpr, not again here)
func (g *gen) cleanCondition() (influxql.Expr, string) {
	for i := 0; i < 30; i++ {
		g.feats = map[string]bool{}
		g.outOfDomain = false
		text := g.cond(1)
		r := roundTrip(text)
		if r.accepted && r.t1 == r.t2 && r.panicked == "" && !g.outOfDomain {
			return r.e1, text
		}
	}
	e, _ := yaccParse("a = 1")
	return e, "a = 1"
}

func (g *gen) word() string {
	return g.pick([]string{"a", "host", "region", "usage_user", "my col", "é", "x.y", "", "sel\"ect"})
}

// ---------------------------------------------------------------------------------------------
// plans

func (g *gen) schema() *executor.QuerySchema {
	cond, _ := g.cleanCondition()
	opt := query.ProcessorOptions{Condition: cond, Dimensions: []string{"host"}, Ascending: true, ChunkSize: 1 + g.r.Intn(1000)}
	fields := influxql.Fields{
		&influxql.Field{Expr: &influxql.VarRef{Val: "id", Type: influxql.Integer}},
		&influxql.Field{Expr: &influxql.VarRef{Val: "value", Type: influxql.Float}},
		&influxql.Field{Expr: &influxql.Call{Name: "mean", Args: []influxql.Expr{&influxql.VarRef{Val: "usage", Type: influxql.Float}}}},
	}
	names := []string{"id", "value", "mean"}
	s := executor.NewQuerySchema(fields, names, &opt, nil)
	s.AddTable(&influxql.Measurement{Name: "mst"}, s.MakeRefs())
	return s
}

type planStep struct {
	kind, a, b, c int
	flag          bool
}

func (g *gen) plan(s *executor.QuerySchema) hybridqp.QueryNode {
	steps := make([]planStep, 2+g.r.Intn(8))
	for i := range steps {
		steps[i] = planStep{g.r.Intn(18), g.r.Intn(1000), g.r.Intn(100), g.r.Intn(3), g.r.Bool()}
	}
	return buildPlan(s, steps)
}

// buildPlan applies the steps to a series node; a merge step merges two copies of the plan so far
// (LogicalMerge wants inputs of one shape).
func buildPlan(s *executor.QuerySchema, steps []planStep) hybridqp.QueryNode {
	var n hybridqp.QueryNode = executor.NewLogicalSeries(s)
	etypes := []executor.ExchangeType{executor.NODE_EXCHANGE, executor.SHARD_EXCHANGE, executor.SERIES_EXCHANGE, executor.READER_EXCHANGE}
	for i, st := range steps {
		switch st.kind {
		case 0:
			n = executor.NewLogicalIndexScan(n, s)
		case 1:
			n = executor.NewLogicalReader(n, s)
		case 2:
			n = executor.NewLogicalTagSubset(n, s)
		case 3:
			switch st.c {
			case 0:
				n = executor.NewLogicalAggregate(n, s)
			case 1:
				n = executor.NewCountDistinctAggregate(n, s)
			default:
				n = executor.NewLogicalTagSetAggregate(n, s)
			}
		case 4:
			n = executor.NewLogicalMerge([]hybridqp.QueryNode{n, buildPlan(s, steps[:i])}, s)
		case 5:
			n = executor.NewLogicalSortMerge([]hybridqp.QueryNode{n}, s)
		case 6:
			n = executor.NewLogicalLimit(n, s, executor.LimitTransformParameters{Limit: st.a, Offset: st.b, LimitType: hybridqp.LimitType(st.c)})
		case 7:
			n = executor.NewLogicalDistinct(n, s)
		case 8:
			n = executor.NewLogicalInterval(n, s)
		case 9:
			n = executor.NewLogicalFill(n, s)
		case 10:
			n = executor.NewLogicalAlign(n, s)
		case 11:
			n = executor.NewLogicalProject(n, s)
		case 12:
			n = executor.NewLogicalFilter(n, s)
		case 13:
			ex := executor.NewLogicalExchange(n, etypes[st.a%len(etypes)], nil, s)
			if st.flag {
				ex.ToProducer()
			}
			n = ex
		case 14:
			n = executor.NewLogicalSlidingWindow(n, s)
		case 15:
			n = executor.NewLogicalOrderBy(n, s)
		case 16:
			n = executor.NewLogicalGroupBy(n, s)
		default:
			ha := executor.NewLogicalHashAgg(n, s, etypes[st.a%len(etypes)], nil)
			if st.flag {
				ha.ToProducer()
			}
			n = ha
		}
	}
	return n
}

func intField(v reflect.Value, name string) string {
	f := v.FieldByName(name)
	if !f.IsValid() {
		return ""
	}
	switch f.Kind() {
	case reflect.Int, reflect.Int8, reflect.Int16, reflect.Int32, reflect.Int64:
		return fmt.Sprintf(" %s=%d", name, f.Int())
	case reflect.Uint, reflect.Uint8, reflect.Uint16, reflect.Uint32, reflect.Uint64:
		return fmt.Sprintf(" %s=%d", name, f.Uint())
	case reflect.Bool:
		return fmt.Sprintf(" %s=%v", name, f.Bool())
	}
	return ""
}

func dumpPlan(n hybridqp.QueryNode) string {
	if n == nil {
		return "nil"
	}
	v := reflect.ValueOf(n)
	for v.Kind() == reflect.Ptr {
		v = v.Elem()
	}
	s := fmt.Sprintf("%T", n)
	for _, f := range []string{"eType", "eRole", "aggType", "isCountDistinct"} {
		s += intField(v, f)
	}
	if l, ok := n.(*executor.LogicalLimit); ok {
		s += fmt.Sprintf(" limit=%d/%d/%d", l.LimitPara.Limit, l.LimitPara.Offset, l.LimitPara.LimitType)
	}
	var cs []string
	for _, c := range n.Children() {
		cs = append(cs, dumpPlan(c))
	}
	return s + "(" + strings.Join(cs, ",") + ")"
}

func runPlan(c *hx.Ctx, g *gen) {
	var ans, want, have string
	p := hx.Safe(func() {
		s := g.schema()
		n := g.plan(s)
		want = dumpPlan(n)
		buf, err := executor.MarshalBinary(n)
		if err != nil {
			ans = "err marshal " + err.Error()
			return
		}
		back, err := executor.UnmarshalBinary(buf, s)
		if err != nil {
			ans = "err unmarshal " + err.Error()
			return
		}
		have = dumpPlan(back)
		// the schema message that travels with a plan
		pb := query.EncodeQuerySchema(s)
		s2, err := query.DecodeQuerySchema(pb, s.Options())
		if err != nil {
			ans = "err schema " + err.Error()
			return
		}
		if fmt.Sprint(s2.GetColumnNames()) != fmt.Sprint(s.GetColumnNames()) || s2.GetQueryFields().String() != s.GetQueryFields().String() {
			ans = "differs schema"
			return
		}
		if want == have {
			ans = "ok"
		} else {
			ans = "differs"
		}
	})
	if p != "" {
		ans = "err " + p
	}
	line := c.Emit("codec plan", ans)
	c.Case("plan "+want, true)
	c.Count("codec:plan")
	if ans != "ok" {
		c.Violation(line, "", "plan Marshal->Unmarshal: "+ans+" sent "+want+" received "+have)
	}
}

// ---------------------------------------------------------------------------------------------
// chunks

func dumpColumn(col executor.Column, rows int) string {
	var b strings.Builder
	fmt.Fprintf(&b, "type=%d len=%d nil=%d", col.DataType(), col.Length(), col.NilCount())
	for _, f := range col.FloatValues() {
		fmt.Fprintf(&b, " f%016x", math.Float64bits(f))
	}
	for _, i := range col.IntegerValues() {
		fmt.Fprintf(&b, " i%d", i)
	}
	if col.DataType() == influxql.String || col.DataType() == influxql.Tag {
		bs, off := col.GetStringBytes()
		fmt.Fprintf(&b, " s%x o%v", bs, off)
	}
	for _, x := range col.BooleanValues() {
		fmt.Fprintf(&b, " b%v", x)
	}
	for _, t := range col.ColumnTimes() {
		fmt.Fprintf(&b, " t%d", t)
	}
	b.WriteString(" nils=")
	for i := 0; i < rows; i++ {
		if col.IsNilV2(i) {
			b.WriteByte('1')
		} else {
			b.WriteByte('0')
		}
	}
	return b.String()
}

func dumpChunk(ck executor.Chunk) string {
	var b strings.Builder
	fmt.Fprintf(&b, "name=%q time=%v tagIndex=%v interval=%v", ck.Name(), ck.Time(), ck.TagIndex(), ck.IntervalIndex())
	for _, t := range ck.Tags() {
		fmt.Fprintf(&b, " tag=%x", t.Subset(nil))
	}
	rows := len(ck.Time())
	for i, col := range ck.Columns() {
		if col == nil {
			fmt.Fprintf(&b, " col%d=nil", i)
			continue
		}
		fmt.Fprintf(&b, " col%d{%s}", i, dumpColumn(col, rows))
	}
	for i, col := range ck.Dims() {
		if col == nil {
			fmt.Fprintf(&b, " dim%d=nil", i)
			continue
		}
		fmt.Fprintf(&b, " dim%d{%s}", i, dumpColumn(col, rows))
	}
	return b.String()
}

func (g *gen) chunk() (executor.Chunk, hybridqp.RowDataType) {
	types := []influxql.DataType{influxql.Integer, influxql.Float, influxql.String, influxql.Boolean}
	nc := 1 + g.r.Intn(4)
	var refs []influxql.VarRef
	for i := 0; i < nc; i++ {
		refs = append(refs, influxql.VarRef{Val: fmt.Sprintf("c%d", i), Type: types[g.r.Intn(len(types))]})
	}
	rdt := hybridqp.NewRowDataTypeImpl(refs...)
	ck := executor.NewChunkBuilder(rdt).NewChunk(g.word())
	rows := g.r.Intn(40)
	ntags := 1 + g.r.Intn(3)
	for i := 0; i < ntags && i <= rows; i++ {
		pts := influx.PointTags{{Key: "host", Value: g.word()}, {Key: "id", Value: fmt.Sprint(i)}}
		ck.AppendTagsAndIndex(*executor.NewChunkTags(pts, []string{"host", "id"}), i*rows/ntags)
	}
	for i := 0; i < rows; i++ {
		ck.AppendTime(int64(g.r.U64() >> 1))
		if g.r.Chance(20) {
			ck.AppendIntervalIndex(i)
		}
	}
	for j := 0; j < nc; j++ {
		col := ck.Column(j)
		for i := 0; i < rows; i++ {
			if g.r.Chance(25) {
				col.AppendNil()
				continue
			}
			col.AppendNotNil()
			switch refs[j].Type {
			case influxql.Integer:
				col.AppendIntegerValue(int64(g.r.U64()))
			case influxql.Float:
				col.AppendFloatValue(math.Float64frombits(g.r.U64()))
			case influxql.String:
				col.AppendStringValue(g.randString())
			default:
				col.AppendBooleanValue(g.r.Bool())
			}
		}
		if g.r.Chance(15) {
			for i := 0; i < rows; i++ {
				col.AppendColumnTime(int64(i))
			}
		}
	}
	if g.r.Chance(30) {
		d := executor.NewColumnImpl(influxql.String)
		for i := 0; i < rows; i++ {
			d.AppendStringValue(g.word())
			d.AppendNotNil()
		}
		ck.AddDim(d)
	}
	return ck, rdt
}

func runChunk(c *hx.Ctx, g *gen) {
	var ans, want, have string
	p := hx.Safe(func() {
		ck, _ := g.chunk()
		want = dumpChunk(ck)
		impl := ck.(*executor.ChunkImpl)
		buf, err := impl.Marshal(make([]byte, 0, impl.Size()))
		if err != nil {
			ans = "err marshal " + err.Error()
			return
		}
		if len(buf) > impl.Size() {
			ans = fmt.Sprintf("differs size: Size()=%d, marshalled %d bytes", impl.Size(), len(buf))
			return
		}
		back := &executor.ChunkImpl{}
		if err := back.Unmarshal(buf); err != nil {
			ans = "err unmarshal " + err.Error()
			return
		}
		have = dumpChunk(back)
		if want == have {
			ans = "ok"
		} else {
			ans = "differs"
		}
	})
	if p != "" {
		ans = "err " + p
	}
	line := c.Emit("codec chunk", ans)
	c.Case(fmt.Sprintf("chunk %d", line), true)
	c.Count("codec:chunk")
	if ans != "ok" {
		if len(want) > 400 {
			want = want[:400] + "…"
		}
		if len(have) > 400 {
			have = have[:400] + "…"
		}
		c.Violation(line, "", "chunk Marshal->Unmarshal: "+ans+" sent "+want+" received "+have)
	}
}

// ---------------------------------------------------------------------------------------------
// the query message

func dumpRemote(q *executor.RemoteQuery) string {
	var b strings.Builder
	fmt.Fprintf(&b, "db=%q pt=%d node=%d shards=%v analyze=%v plan=%x", q.Database, q.PtID, q.NodeID, q.ShardIDs, q.Analyze, q.Node)
	for _, p := range q.PtQuerys {
		fmt.Fprintf(&b, " ptq{%d", p.PtID)
		for _, s := range p.ShardInfos {
			fmt.Fprintf(&b, " %d/%q/%d", s.ID, s.Path, s.Version)
		}
		b.WriteString("}")
	}
	dumpOpt := func(o *query.ProcessorOptions) string {
		_, m := canonOpts(o, nil, false)
		return m["Name"] + "," + m["Limit"] + "," + m["Ascending"] + "," + m["Condition"] + "," + m["Interval"]
	}
	b.WriteString(" opt=" + dumpOpt(&q.Opt))
	for _, m := range q.MstInfos {
		fmt.Fprintf(&b, " mst{%v %s}", m.ShardIds, dumpOpt(&m.Opt))
	}
	return b.String()
}

func (g *gen) smallOpt() query.ProcessorOptions {
	cond, _ := g.cleanCondition()
	return query.ProcessorOptions{Name: g.word(), Limit: g.r.Intn(1000), Ascending: g.r.Bool(), Condition: cond,
		Interval: hybridqp.Interval{Duration: time.Duration(g.r.Intn(1000)) * time.Second, Offset: time.Duration(g.r.Intn(1000))}}
}

func runRemote(c *hx.Ctx, g *gen) {
	var ans, want, have string
	p := hx.Safe(func() {
		q := &executor.RemoteQuery{Database: g.word(), PtID: uint32(g.r.U64()), NodeID: g.r.U64(), Analyze: g.r.Bool(),
			Node: []byte(g.word() + "plan"), Opt: g.smallOpt()}
		for i := 0; i < g.r.Intn(4); i++ {
			q.ShardIDs = append(q.ShardIDs, g.r.U64()>>uint(g.r.Intn(64)))
		}
		for i := 0; i < g.r.Intn(3); i++ {
			pq := executor.PtQuery{PtID: uint32(g.r.Intn(100))}
			for k := 0; k < g.r.Intn(3); k++ {
				pq.ShardInfos = append(pq.ShardInfos, executor.ShardInfo{ID: g.r.U64(), Path: g.word(), Version: uint32(g.r.Intn(5))})
			}
			q.PtQuerys = append(q.PtQuerys, pq)
		}
		for i := 0; i < g.r.Intn(3); i++ {
			q.MstInfos = append(q.MstInfos, &executor.MultiMstInfo{ShardIds: []uint64{uint64(i), g.r.U64()}, Opt: g.smallOpt()})
		}
		want = dumpRemote(q)
		buf, err := q.Marshal(nil)
		if err != nil {
			ans = "err marshal " + err.Error()
			return
		}
		back := &executor.RemoteQuery{}
		if err := back.Unmarshal(buf); err != nil {
			ans = "err unmarshal " + err.Error()
			return
		}
		have = dumpRemote(back)
		if want == have {
			ans = "ok"
		} else {
			ans = "differs"
		}
	})
	if p != "" {
		ans = "err " + p
	}
	line := c.Emit("codec remote", ans)
	c.Case(fmt.Sprintf("remote %d", line), true)
	c.Count("codec:remote")
	if ans != "ok" {
		c.Violation(line, "", "RemoteQuery Marshal->Unmarshal: "+ans+" sent "+want+" received "+have)
	}
}

// runCodecs: n objects: options, plans, chunks, and every tenth a query message.
func runCodecs(c *hx.Ctx, g *gen, n int) error {
	for i := 0; i < n; i++ {
		if i%10 == 9 {
			runRemote(c, g)
			continue
		}
		switch i % 3 {
		case 0:
			runOpts(c, g)
		case 1:
			runPlan(c, g)
		default:
			runChunk(c, g)
		}
	}
	return nil
}
