package c12

// Option / plan / chunk objects through Marshal -> Unmarshal (spec diff only: the Lean side
// holds the field-coverage tables, not the byte layout).
//
//   options  every field of query.ProcessorOptions that is not on the recorded "stays local" list
//            is given a non-zero value by reflection, so a decoder that forgets a field shows up;
//            Expr / Condition / ValueCondition come from the statement generator
//   plans    random chains of logical plan nodes over a schema built from a generated condition
//   chunks   random result batches (every column type, nils, tags, interval index, dims)

import (
	"fmt"
	"math"
	"reflect"
	"sort"
	"strings"
	"time"

	"github.com/openGemini/openGemini/engine/executor"
	"github.com/openGemini/openGemini/engine/hybridqp"
	"github.com/openGemini/openGemini/lib/config"
	"github.com/openGemini/openGemini/lib/util/lifted/influx/influxql"
	"github.com/openGemini/openGemini/lib/util/lifted/influx/query"
	"github.com/openGemini/openGemini/lib/util/lifted/vm/protoparser/influx"

	"verif/harness/internal/hx"
)

// fields of ProcessorOptions that stay on the node that built them (mirror of
// OG.C12.optionsLocal; the Lean theorem proves fields ⊆ encoded ∪ this list)
var optionsLocal = map[string]bool{
	"Exprs": true, "FieldAux": true, "TagAux": true, "Parallel": true, "InterruptCh": true, "Authorizer": true,
	"ChunkedSize": true, "Chunked": true, "AbortChan": true, "RowsChan": true, "isTimeFirstKey": true, "StmtId": true,
	"CompareOffset": true, "LowerOpt": true, "BinOp": true, "IsCountValues": true, "SimpleTagset": true, "RemoveMetric": true,
	"NoPushDownDim": true, "ctx": true, "InConditons": true, "IsSameDims": true, "IsArrowQuery": true,
}

// a condition the statement parser accepts and that survives String() -> ParseExpr (the
// expression-level defects are reported by runExpr, not again here)
func (g *gen) cleanCondition() (influxql.Expr, string) {
	for i := 0; i < 30; i++ {
		g.feats = map[string]bool{}
		g.outOfDomain = false
		text := g.cond(1)
		r := roundTrip(text)
		if r.accepted && r.t1 == r.t2 && r.panicked == "" {
			return r.e1, text
		}
	}
	e, _ := yaccParse("a = 1")
	return e, "a = 1"
}

func (g *gen) word() string { return g.pick([]string{"a", "host", "region", "usage_user", "my col", "é", "x.y", "", "sel\"ect"}) }

func (g *gen) measurement() *influxql.Measurement {
	m := &influxql.Measurement{Database: g.word(), RetentionPolicy: g.word(), Name: g.word(), IsTarget: g.r.Bool(),
		SystemIterator: g.pick([]string{"", "_series"}), EngineType: config.EngineType(g.r.Intn(2)), IsTimeSorted: g.r.Bool()}
	if m.Name == "" {
		m.Name = "m"
	}
	return m
}

func (g *gen) options() *query.ProcessorOptions {
	opt := &query.ProcessorOptions{}
	v := reflect.ValueOf(opt).Elem()
	t := v.Type()
	for i := 0; i < t.NumField(); i++ {
		f := t.Field(i)
		if optionsLocal[f.Name] || !f.IsExported() {
			continue
		}
		fv := v.Field(i)
		switch f.Name {
		case "Expr":
			e, _ := g.cleanCondition()
			opt.Expr = e
		case "Condition":
			e, _ := g.cleanCondition()
			opt.Condition = e
		case "ValueCondition":
			e, _ := g.cleanCondition()
			opt.ValueCondition = e
		case "Aux":
			for k := 0; k < 1+g.r.Intn(3); k++ {
				opt.Aux = append(opt.Aux, influxql.VarRef{Val: g.word(), Type: influxql.DataType(1 + g.r.Intn(5))})
			}
		case "Sources":
			for k := 0; k < 1+g.r.Intn(2); k++ {
				opt.Sources = append(opt.Sources, g.measurement())
			}
		case "Interval":
			opt.Interval = hybridqp.Interval{Duration: time.Duration(1+g.r.Intn(1000)) * time.Second, Offset: time.Duration(g.r.Intn(1000))}
		case "GroupBy":
			opt.GroupBy = map[string]struct{}{g.word(): {}, "k2": {}}
		case "Location":
			opt.Location = time.UTC
		case "Fill":
			opt.Fill = influxql.FillOption(g.r.Intn(5))
		case "FillValue":
			switch g.r.Intn(3) {
			case 0:
				opt.FillValue = float64(g.r.Intn(1000)) / 4
			case 1:
				opt.FillValue = int64(1 + g.r.Intn(1000)) // fill(5): the grammar hands an int64 on
			default:
				opt.FillValue = nil
			}
		case "SortFields":
			opt.SortFields = influxql.SortFields{{Name: "a", Ascending: g.r.Bool()}, {Name: "usage_user", Ascending: true}}
		case "SeriesKey":
			opt.SeriesKey = []byte(g.word() + "k")
		case "Dimensions":
			opt.Dimensions = []string{g.word(), "d2"}
		default:
			switch fv.Kind() {
			case reflect.String:
				fv.SetString(g.word() + "s")
			case reflect.Bool:
				fv.SetBool(true)
			case reflect.Int, reflect.Int32, reflect.Int64:
				fv.SetInt(int64(1 + g.r.Intn(1<<20)))
			case reflect.Uint64, reflect.Uint32:
				fv.SetUint(uint64(1 + g.r.Intn(1<<20)))
			default:
				panic("harness: no generator for ProcessorOptions." + f.Name + " (" + fv.Kind().String() + "): add one, or list the field in optionsLocal and OG.C12.optionsLocal")
			}
		}
	}
	return opt
}

func canonField(name string, v reflect.Value) string {
	if !v.IsValid() {
		return "<invalid>"
	}
	if name == "FillValue" {
		// the wire carries a float64; the consumers convert with TransToFloat / TransToInteger,
		// so the numeric value is what must survive (unset = 0)
		switch x := v.Interface().(type) {
		case nil:
			return "0"
		case float64:
			return fmt.Sprintf("%v", x)
		case int64:
			return fmt.Sprintf("%v", float64(x))
		default:
			return fmt.Sprintf("%T", x)
		}
	}
	switch x := v.Interface().(type) {
	case influxql.Expr:
		if x == nil {
			return "nil"
		}
		return dump(x)
	case []influxql.Source:
		var parts []string
		for _, s := range x {
			m, ok := s.(*influxql.Measurement)
			if !ok {
				parts = append(parts, fmt.Sprintf("%T", s))
				continue
			}
			parts = append(parts, fmt.Sprintf("%q.%q.%q target=%v sys=%q eng=%d sorted=%v", m.Database, m.RetentionPolicy, m.Name, m.IsTarget, m.SystemIterator, m.EngineType, m.IsTimeSorted))
		}
		return strings.Join(parts, ";")
	case influxql.SortFields:
		var parts []string
		for _, f := range x {
			parts = append(parts, fmt.Sprintf("%q asc=%v", f.Name, f.Ascending))
		}
		return strings.Join(parts, ";")
	case *time.Location:
		if x == nil {
			return "nil"
		}
		return x.String()
	case map[string]struct{}:
		ks := make([]string, 0, len(x))
		for k := range x {
			ks = append(ks, k)
		}
		sort.Strings(ks)
		return fmt.Sprintf("%q", ks)
	}
	return fmt.Sprintf("%#v", v.Interface())
}

func runOptions(c *hx.Ctx, g *gen) {
	opt := g.options()
	var got query.ProcessorOptions
	var err error
	var buf []byte
	p := hx.Safe(func() {
		buf, err = opt.MarshalBinary()
		if err == nil {
			err = got.UnmarshalBinary(buf)
		}
	})
	ans := "ok"
	var diffs []string
	if p != "" {
		ans = "err " + p
	} else if err != nil {
		ans = "err " + err.Error()
	} else {
		a, b := reflect.ValueOf(opt).Elem(), reflect.ValueOf(&got).Elem()
		for i := 0; i < a.NumField(); i++ {
			f := a.Type().Field(i)
			if optionsLocal[f.Name] || !f.IsExported() {
				continue
			}
			if x, y := canonField(f.Name, a.Field(i)), canonField(f.Name, b.Field(i)); x != y {
				diffs = append(diffs, fmt.Sprintf("%s: sent %s, received %s", f.Name, x, y))
			}
		}
		if len(diffs) > 0 {
			ans = "differs"
		}
	}
	line := c.Emit("codec options", ans)
	c.Case(fmt.Sprintf("options %d", line), true)
	c.Count("codec:options")
	if ans != "ok" {
		c.Violation(line, "", "ProcessorOptions Marshal->Unmarshal: "+ans+" "+strings.Join(diffs, " | "))
	}
}

// ---------------------------------------------------------------------------------------------
// plans

func (g *gen) schema() *executor.QuerySchema {
	cond, _ := g.cleanCondition()
	opt := query.ProcessorOptions{Condition: cond, Dimensions: []string{"host"}, Ascending: true, ChunkSize: 1 + g.r.Intn(1000)}
	fields := influxql.Fields{
		&influxql.Field{Expr: &influxql.VarRef{Val: "id", Type: influxql.Integer}},
		&influxql.Field{Expr: &influxql.VarRef{Val: "value", Type: influxql.Float}},
		&influxql.Field{Expr: &influxql.Call{Name: "mean", Args: []influxql.Expr{&influxql.VarRef{Val: "usage", Type: influxql.Float}}}},
	}
	names := []string{"id", "value", "mean"}
	s := executor.NewQuerySchema(fields, names, &opt, nil)
	s.AddTable(&influxql.Measurement{Name: "mst"}, s.MakeRefs())
	return s
}

type planStep struct {
	kind, a, b, c int
	flag       bool
}

func (g *gen) plan(s *executor.QuerySchema) hybridqp.QueryNode {
	steps := make([]planStep, 2+g.r.Intn(8))
	for i := range steps {
		steps[i] = planStep{g.r.Intn(18), g.r.Intn(1000), g.r.Intn(100), g.r.Intn(3), g.r.Bool()}
	}
	return buildPlan(s, steps)
}

// buildPlan applies the steps to a series node; a merge step merges two copies of the plan so far
// (LogicalMerge wants inputs of one shape).
func buildPlan(s *executor.QuerySchema, steps []planStep) hybridqp.QueryNode {
	var n hybridqp.QueryNode = executor.NewLogicalSeries(s)
	etypes := []executor.ExchangeType{executor.NODE_EXCHANGE, executor.SHARD_EXCHANGE, executor.SERIES_EXCHANGE, executor.READER_EXCHANGE}
	for i, st := range steps {
		switch st.kind {
		case 0:
			n = executor.NewLogicalIndexScan(n, s)
		case 1:
			n = executor.NewLogicalReader(n, s)
		case 2:
			n = executor.NewLogicalTagSubset(n, s)
		case 3:
			switch st.c {
			case 0:
				n = executor.NewLogicalAggregate(n, s)
			case 1:
				n = executor.NewCountDistinctAggregate(n, s)
			default:
				n = executor.NewLogicalTagSetAggregate(n, s)
			}
		case 4:
			n = executor.NewLogicalMerge([]hybridqp.QueryNode{n, buildPlan(s, steps[:i])}, s)
		case 5:
			n = executor.NewLogicalSortMerge([]hybridqp.QueryNode{n}, s)
		case 6:
			n = executor.NewLogicalLimit(n, s, executor.LimitTransformParameters{Limit: st.a, Offset: st.b, LimitType: hybridqp.LimitType(st.c)})
		case 7:
			n = executor.NewLogicalDistinct(n, s)
		case 8:
			n = executor.NewLogicalInterval(n, s)
		case 9:
			n = executor.NewLogicalFill(n, s)
		case 10:
			n = executor.NewLogicalAlign(n, s)
		case 11:
			n = executor.NewLogicalProject(n, s)
		case 12:
			n = executor.NewLogicalFilter(n, s)
		case 13:
			ex := executor.NewLogicalExchange(n, etypes[st.a%len(etypes)], nil, s)
			if st.flag {
				ex.ToProducer()
			}
			n = ex
		case 14:
			n = executor.NewLogicalSlidingWindow(n, s)
		case 15:
			n = executor.NewLogicalOrderBy(n, s)
		case 16:
			n = executor.NewLogicalGroupBy(n, s)
		default:
			ha := executor.NewLogicalHashAgg(n, s, etypes[st.a%len(etypes)], nil)
			if st.flag {
				ha.ToProducer()
			}
			n = ha
		}
	}
	return n
}

func intField(v reflect.Value, name string) string {
	f := v.FieldByName(name)
	if !f.IsValid() {
		return ""
	}
	switch f.Kind() {
	case reflect.Int, reflect.Int8, reflect.Int16, reflect.Int32, reflect.Int64:
		return fmt.Sprintf(" %s=%d", name, f.Int())
	case reflect.Uint, reflect.Uint8, reflect.Uint16, reflect.Uint32, reflect.Uint64:
		return fmt.Sprintf(" %s=%d", name, f.Uint())
	case reflect.Bool:
		return fmt.Sprintf(" %s=%v", name, f.Bool())
	}
	return ""
}

func dumpPlan(n hybridqp.QueryNode) string {
	if n == nil {
		return "nil"
	}
	v := reflect.ValueOf(n)
	for v.Kind() == reflect.Ptr {
		v = v.Elem()
	}
	s := fmt.Sprintf("%T", n)
	for _, f := range []string{"eType", "eRole", "aggType", "isCountDistinct"} {
		s += intField(v, f)
	}
	if l, ok := n.(*executor.LogicalLimit); ok {
		s += fmt.Sprintf(" limit=%d/%d/%d", l.LimitPara.Limit, l.LimitPara.Offset, l.LimitPara.LimitType)
	}
	var cs []string
	for _, c := range n.Children() {
		cs = append(cs, dumpPlan(c))
	}
	return s + "(" + strings.Join(cs, ",") + ")"
}

func runPlan(c *hx.Ctx, g *gen) {
	var ans, want, have string
	p := hx.Safe(func() {
		s := g.schema()
		n := g.plan(s)
		want = dumpPlan(n)
		buf, err := executor.MarshalBinary(n)
		if err != nil {
			ans = "err marshal " + err.Error()
			return
		}
		back, err := executor.UnmarshalBinary(buf, s)
		if err != nil {
			ans = "err unmarshal " + err.Error()
			return
		}
		have = dumpPlan(back)
		// the schema message that travels with a plan
		pb := query.EncodeQuerySchema(s)
		s2, err := query.DecodeQuerySchema(pb, s.Options())
		if err != nil {
			ans = "err schema " + err.Error()
			return
		}
		if fmt.Sprint(s2.GetColumnNames()) != fmt.Sprint(s.GetColumnNames()) || s2.GetQueryFields().String() != s.GetQueryFields().String() {
			ans = "differs schema"
			return
		}
		if want == have {
			ans = "ok"
		} else {
			ans = "differs"
		}
	})
	if p != "" {
		ans = "err " + p
	}
	line := c.Emit("codec plan", ans)
	c.Case("plan "+want, true)
	c.Count("codec:plan")
	if ans != "ok" {
		c.Violation(line, "", "plan Marshal->Unmarshal: "+ans+" sent "+want+" received "+have)
	}
}

// ---------------------------------------------------------------------------------------------
// chunks

func dumpColumn(col executor.Column, rows int) string {
	var b strings.Builder
	fmt.Fprintf(&b, "type=%d len=%d nil=%d", col.DataType(), col.Length(), col.NilCount())
	for _, f := range col.FloatValues() {
		fmt.Fprintf(&b, " f%016x", math.Float64bits(f))
	}
	for _, i := range col.IntegerValues() {
		fmt.Fprintf(&b, " i%d", i)
	}
	if col.DataType() == influxql.String || col.DataType() == influxql.Tag {
		bs, off := col.GetStringBytes()
		fmt.Fprintf(&b, " s%x o%v", bs, off)
	}
	for _, x := range col.BooleanValues() {
		fmt.Fprintf(&b, " b%v", x)
	}
	for _, t := range col.ColumnTimes() {
		fmt.Fprintf(&b, " t%d", t)
	}
	b.WriteString(" nils=")
	for i := 0; i < rows; i++ {
		if col.IsNilV2(i) {
			b.WriteByte('1')
		} else {
			b.WriteByte('0')
		}
	}
	return b.String()
}

func dumpChunk(ck executor.Chunk) string {
	var b strings.Builder
	fmt.Fprintf(&b, "name=%q time=%v tagIndex=%v interval=%v", ck.Name(), ck.Time(), ck.TagIndex(), ck.IntervalIndex())
	for _, t := range ck.Tags() {
		fmt.Fprintf(&b, " tag=%x", t.Subset(nil))
	}
	rows := len(ck.Time())
	for i, col := range ck.Columns() {
		if col == nil {
			fmt.Fprintf(&b, " col%d=nil", i)
			continue
		}
		fmt.Fprintf(&b, " col%d{%s}", i, dumpColumn(col, rows))
	}
	for i, col := range ck.Dims() {
		if col == nil {
			fmt.Fprintf(&b, " dim%d=nil", i)
			continue
		}
		fmt.Fprintf(&b, " dim%d{%s}", i, dumpColumn(col, rows))
	}
	return b.String()
}

func (g *gen) chunk() (executor.Chunk, hybridqp.RowDataType) {
	types := []influxql.DataType{influxql.Integer, influxql.Float, influxql.String, influxql.Boolean}
	nc := 1 + g.r.Intn(4)
	var refs []influxql.VarRef
	for i := 0; i < nc; i++ {
		refs = append(refs, influxql.VarRef{Val: fmt.Sprintf("c%d", i), Type: types[g.r.Intn(len(types))]})
	}
	rdt := hybridqp.NewRowDataTypeImpl(refs...)
	ck := executor.NewChunkBuilder(rdt).NewChunk(g.word())
	rows := g.r.Intn(40)
	ntags := 1 + g.r.Intn(3)
	for i := 0; i < ntags && i <= rows; i++ {
		pts := influx.PointTags{{Key: "host", Value: g.word()}, {Key: "id", Value: fmt.Sprint(i)}}
		ck.AppendTagsAndIndex(*executor.NewChunkTags(pts, []string{"host", "id"}), i*rows/ntags)
	}
	for i := 0; i < rows; i++ {
		ck.AppendTime(int64(g.r.U64() >> 1))
		if g.r.Chance(20) {
			ck.AppendIntervalIndex(i)
		}
	}
	for j := 0; j < nc; j++ {
		col := ck.Column(j)
		for i := 0; i < rows; i++ {
			if g.r.Chance(25) {
				col.AppendNil()
				continue
			}
			col.AppendNotNil()
			switch refs[j].Type {
			case influxql.Integer:
				col.AppendIntegerValue(int64(g.r.U64()))
			case influxql.Float:
				col.AppendFloatValue(math.Float64frombits(g.r.U64()))
			case influxql.String:
				col.AppendStringValue(g.randString())
			default:
				col.AppendBooleanValue(g.r.Bool())
			}
		}
		if g.r.Chance(15) {
			for i := 0; i < rows; i++ {
				col.AppendColumnTime(int64(i))
			}
		}
	}
	if g.r.Chance(30) {
		d := executor.NewColumnImpl(influxql.String)
		for i := 0; i < rows; i++ {
			d.AppendStringValue(g.word())
			d.AppendNotNil()
		}
		ck.AddDim(d)
	}
	return ck, rdt
}

func runChunk(c *hx.Ctx, g *gen) {
	var ans, want, have string
	p := hx.Safe(func() {
		ck, _ := g.chunk()
		want = dumpChunk(ck)
		impl := ck.(*executor.ChunkImpl)
		buf, err := impl.Marshal(make([]byte, 0, impl.Size()))
		if err != nil {
			ans = "err marshal " + err.Error()
			return
		}
		if len(buf) > impl.Size() {
			ans = fmt.Sprintf("differs size: Size()=%d, marshalled %d bytes", impl.Size(), len(buf))
			return
		}
		back := &executor.ChunkImpl{}
		if err := back.Unmarshal(buf); err != nil {
			ans = "err unmarshal " + err.Error()
			return
		}
		have = dumpChunk(back)
		if want == have {
			ans = "ok"
		} else {
			ans = "differs"
		}
	})
	if p != "" {
		ans = "err " + p
	}
	line := c.Emit("codec chunk", ans)
	c.Case(fmt.Sprintf("chunk %d", line), true)
	c.Count("codec:chunk")
	if ans != "ok" {
		if len(want) > 400 {
			want = want[:400] + "…"
		}
		if len(have) > 400 {
			have = have[:400] + "…"
		}
		c.Violation(line, "", "chunk Marshal->Unmarshal: "+ans+" sent "+want+" received "+have)
	}
}

// runCodecs: n objects, a third of each kind.
func runCodecs(c *hx.Ctx, g *gen, n int) error {
	for i := 0; i < n; i++ {
		switch i % 3 {
		case 0:
			runOptions(c, g)
		case 1:
			runPlan(c, g)
		default:
			runChunk(c, g)
		}
	}
	return nil
}
