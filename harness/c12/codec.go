package c12

import "verif/harness/internal/hx"

// runCodecs: option / plan / chunk objects through Marshal -> Unmarshal (filled in below).
func runCodecs(c *hx.Ctx, g *gen, n int) error { return nil }
