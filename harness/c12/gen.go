package c12

// Grammar-directed generator of WHERE conditions. It writes statement text (not trees): operands
// and operators are laid out flat with random parenthesisation, so every precedence /
// associativity combination the grammar allows turns up; literals come from pools that hold the
// boundary cases (quotes, backslashes, newlines, unicode, int64 limits, float shapes, durations,
// time-literal strings, regexes with slashes).

import (
	"strconv"
	"strings"

	"verif/harness/internal/hx"
)

type gen struct {
	r     *hx.Rng
	inSet bool // inside an IN list: integers become float64 keys
	// set while generating one case
	outOfDomain bool // a float the decimal model of float64 does not cover: spec-only case
	feats       map[string]bool
}

func (g *gen) feat(s string) { g.feats[s] = true }

func (g *gen) pick(xs []string) string { return xs[g.r.Intn(len(xs))] }

var plainIdents = []string{"a", "b", "c", "host", "usage_user", "_x", "a1", "value", "time", "cpu0", "Region", "x_y_z"}

// identifiers that QuoteIdent must quote (written quoted in the statement)
var quotedIdents = []string{"my col", "a-b", "1a", "", "select", "from", "name", "key", "user", "end", "left", "true", "notin", "and",
	"a.b", "é", "名前", "it's", "a\"b", "a\\b", "a\nb", "tab\there", "a b.c d", "A B", "ümlaut", "x/y", "semi;colon", "q'\"\\", "  ", "*", "-1", "a::float"}

// (not "select": `x IN (select …)` is a sub-select, which the model does not cover)
var bareKeywords = []string{"name", "key", "from", "user", "end", "left", "node", "tag", "field", "type", "duration", "on", "measurement", "as"}

var strPool = []string{"", "x", "abc", "it's", "say \"hi\"", "back\\slash", "line\nbreak", "tab\there", "é", "日本語", "a'b\"c\\d\ne",
	"2020-01-01T00:00:00Z", "2020-01-01", "2020-01-02 10:00:00", "2020-01-01T00:00:00.123456789Z", "1.1.1.1/8", "x%", "%", "\\", "''", "\\n", "a/b", " lead", "trail ",
	"/var/log/messages", "SELECT * FROM m", "🙂", " ", "\\\\", "'", "\"", "\\'"}

var intPool = []string{"0", "1", "2", "7", "10", "100", "255", "1000", "00012", "9223372036854775807", "9223372036854775806", "9223372036854775808",
	"18446744073709551615", "18446744073709551616", "99999999999999999999", "4294967296", "9007199254740993", "123456789012345678"}

// floats inside the decimal domain (≤ 15 significant digits, integer part < 10^18)
var floatPool = []string{"1.5", ".5", "0.5", "0.1", "2.0", "1.", "0.0", "100.0", "1.50", "3.14159", "0.000001", "123456.789", "99.99", "1000000.0",
	"0.30000000000000", "12345678901234.5", "0.123456789012345", "5.", "00.5", "10.10", "100000000000000000.0", "999999999999999.0", "0.000000000000001"}

// floats outside it: round trip is checked by the harness only (bit pattern)
var floatPoolBig = []string{"123456789012345678.5", "10000000000000000000.0", "9223372036854775808.0", "9223372036854775807.0", "0.1234567890123456789",
	"1234567890.12345678901", "99999999999999999999999.0", "3.141592653589793238", "18446744073709551616.0", "0.30000000000000004"}

var durPool = []string{"1h", "90m", "1500ns", "1ns", "1u", "1µ", "2ms", "1w", "3d", "1h30m", "0s", "9223372036854775807ns", "1s", "15250w", "106751d",
	"1m30s", "1000u", "1001u", "999ns", "1h1ns", "60s", "3600s", "86400s", "7d", "1ms1u", "2562047h", "0ns", "00001h"}

var durBad = []string{"106752d", "9223372036854775808ns", "1x", "1mm", "1m5", "1e3", "2562048h", "15251w", "1n", "5hh"}

var regexPool = []string{"x", "^a.*$", "a\\/b", "[0-9]+\\.\\d", "a b", "(?i)abc", "é+", "^$", ".*", "a|b", "\\/", "a\\/b\\/c", "\\d{2,3}", "host[0-9]", "\\w+@\\w+\\.com", "a\\.b"}

var callNames = []string{"mean", "count", "f", "my_func", "MAX", "Sum", "percentile", "now", "abs", "str", "top", "g1"}
var callNamesQuoted = []string{"my f", "left", "a-b", "1st", "select", "é"}

var typeNames = []string{"float", "integer", "string", "boolean", "time", "unsigned", "tag", "field", "FLOAT", "Integer", "TAG", "Field"}
var typeBad = []string{"foo", "duration", "floattuple", "int"}

var cmpOps = []string{"=", "!=", "<>", "<", "<=", ">", ">="}
var arithOps = []string{"+", "-", "*", "/", "%", "&", "|", "^"}

func (g *gen) sp() string {
	switch g.r.Intn(20) {
	case 0:
		return "  "
	case 1:
		return "\t"
	case 2:
		return "\n"
	case 3:
		return " \n "
	default:
		return " "
	}
}

// optional space around a symbol
func (g *gen) osp() string {
	if g.r.Chance(25) {
		return ""
	}
	return g.sp()
}

func quoteIdentText(s string) string {
	var b strings.Builder
	b.WriteByte('"')
	for _, c := range s {
		switch c {
		case '\n':
			b.WriteString(`\n`)
		case '\\':
			b.WriteString(`\\`)
		case '"':
			b.WriteString(`\"`)
		default:
			b.WriteRune(c)
		}
	}
	b.WriteByte('"')
	return b.String()
}

func (g *gen) quoteStringText(s string) string {
	var b strings.Builder
	b.WriteByte('\'')
	for _, c := range s {
		switch c {
		case '\n':
			b.WriteString(`\n`)
		case '\\':
			b.WriteString(`\\`)
		case '\'':
			b.WriteString(`\'`)
		case '"':
			if g.r.Bool() {
				b.WriteString(`\"`)
			} else {
				b.WriteByte('"')
			}
		default:
			b.WriteRune(c)
		}
	}
	b.WriteByte('\'')
	return b.String()
}

func (g *gen) randWord() string {
	n := 1 + g.r.Intn(6)
	var b strings.Builder
	for i := 0; i < n; i++ {
		switch g.r.Intn(12) {
		case 0:
			b.WriteByte('_')
		case 1:
			b.WriteByte(byte('0' + g.r.Intn(10)))
		case 2:
			b.WriteByte(byte('A' + g.r.Intn(26)))
		default:
			b.WriteByte(byte('a' + g.r.Intn(26)))
		}
	}
	s := b.String()
	if s[0] >= '0' && s[0] <= '9' {
		s = "v" + s
	}
	return s
}

func (g *gen) randString() string {
	n := g.r.Intn(8)
	alphabet := []rune{'a', 'b', ' ', '\'', '"', '\\', '\n', 'é', '/', '%', '名', 'n', '0', '\t'}
	var b strings.Builder
	for i := 0; i < n; i++ {
		b.WriteRune(alphabet[g.r.Intn(len(alphabet))])
	}
	return b.String()
}

func (g *gen) ident() string {
	switch k := g.r.Intn(100); {
	case k < 55:
		return g.pick(plainIdents)
	case k < 65:
		return g.randWord()
	case k < 80:
		g.feat("ident:quoted")
		return quoteIdentText(g.pick(quotedIdents))
	case k < 86:
		g.feat("ident:quoted")
		return quoteIdentText(g.randString())
	case k < 90:
		g.feat("ident:quoted-plain")
		return quoteIdentText(g.pick(plainIdents))
	case k < 94:
		g.feat("ident:dotted")
		return g.pick(plainIdents) + "." + g.pick(plainIdents)
	case k < 96:
		g.feat("ident:segments")
		return quoteIdentText(g.pick(plainIdents)) + "." + quoteIdentText(g.pick(plainIdents))
	case k < 98:
		g.feat("ident:inf-nan")
		return g.pick([]string{"inf", "nan", "Inf", "NaN", "INF"})
	default:
		g.feat("ident:bare-keyword")
		return g.pick(bareKeywords)
	}
}

func (g *gen) integer() string {
	s := strconv.FormatUint(g.r.U64()>>uint(g.r.Intn(64)), 10)
	if g.r.Chance(60) {
		s = g.pick(intPool)
	}
	if g.inSet && len(strings.TrimRight(strings.TrimLeft(s, "0"), "0")) > 15 {
		g.outOfDomain = true
	}
	return s
}

func (g *gen) float() string {
	switch k := g.r.Intn(100); {
	case k < 55:
		return g.pick(floatPool)
	case k < 85:
		// ≤ 15 significant digits
		ip := strconv.Itoa(g.r.Intn(100000))
		fp := strconv.Itoa(g.r.Intn(100000))
		if g.r.Chance(20) {
			fp = "0"
		}
		if g.r.Chance(15) {
			fp += "0"
		}
		return ip + "." + fp
	default:
		g.outOfDomain = true
		g.feat("num:beyond-15-digits")
		return g.pick(floatPoolBig)
	}
}

func (g *gen) duration() string {
	if g.r.Chance(4) {
		g.feat("dur:invalid")
		return g.pick(durBad)
	}
	if g.r.Chance(70) {
		return g.pick(durPool)
	}
	units := []string{"ns", "u", "µ", "ms", "s", "m", "h", "d", "w"}
	return strconv.Itoa(g.r.Intn(5000)) + units[g.r.Intn(len(units))]
}

func (g *gen) regex() string {
	g.feat("regex")
	return "/" + g.pick(regexPool) + "/"
}

func (g *gen) stringLit() string {
	if g.r.Chance(75) {
		return g.quoteStringText(g.pick(strPool))
	}
	return g.quoteStringText(g.randString())
}

func (g *gen) call(depth int) string {
	g.feat("call")
	name := g.pick(callNames)
	if g.r.Chance(3) {
		g.feat("call:quoted-name")
		name = quoteIdentText(g.pick(callNamesQuoted))
	} else if g.r.Chance(5) {
		name = quoteIdentText(name)
	}
	n := g.r.Intn(5)
	if n == 0 {
		return name + "()"
	}
	var args []string
	for i := 0; i < n; i++ {
		switch k := g.r.Intn(100); {
		case k < 6:
			args = append(args, "*")
		case k < 8:
			args = append(args, g.pick([]string{"*::tag", "*::field"}))
		case k < 16:
			args = append(args, g.regex())
		default:
			args = append(args, g.col(depth-1))
		}
	}
	sep := "," + g.osp()
	return name + "(" + g.osp() + strings.Join(args, sep) + g.osp() + ")"
}

func (g *gen) primary(depth int) string {
	switch k := g.r.Intn(100); {
	case k < 30:
		id := g.ident()
		if g.r.Chance(12) {
			g.feat("varref:typed")
			if g.r.Chance(6) {
				return id + "::" + g.pick(typeBad)
			}
			if g.r.Chance(6) {
				// a type name may be written as a quoted identifier
				g.feat("varref:quoted-type-name")
				return id + "::" + quoteIdentText(g.pick([]string{"float", "duration", "Integer", "time", "tag"}))
			}
			return id + "::" + g.pick(typeNames)
		}
		return id
	case k < 45:
		g.feat("lit:int")
		return g.integer()
	case k < 57:
		g.feat("lit:float")
		return g.float()
	case k < 69:
		g.feat("lit:string")
		return g.stringLit()
	case k < 73:
		g.feat("lit:bool")
		return g.pick([]string{"true", "false", "TRUE", "False"})
	case k < 80:
		g.feat("lit:duration")
		return g.duration()
	case k < 88:
		if depth > 0 {
			return g.call(depth)
		}
		return g.pick(plainIdents)
	case k < 94:
		if depth > 0 {
			g.feat("paren:column")
			return "(" + g.osp() + g.col(depth-1) + g.osp() + ")"
		}
		return g.pick(plainIdents)
	case k < 99:
		g.feat("unary-minus")
		return "-" + g.osp() + g.primary(depth)
	default:
		// (a regex as a plain operand is generated by unit() on the right of a comparison only:
		// a printed condition that *starts* with '/' is scanned as DIV by a fresh parser and as a
		// regex by a pooled one, Scanner.reset leaves preToken alone)
		return g.pick(plainIdents)
	}
}

// col: primaries joined by arithmetic operators, flat
func (g *gen) col(depth int) string {
	n := 1
	switch k := g.r.Intn(10); {
	case k < 5:
		n = 1
	case k < 8:
		n = 2
	case k < 9:
		n = 3
	default:
		n = 4
	}
	var b strings.Builder
	b.WriteString(g.primary(depth))
	for i := 1; i < n; i++ {
		g.feat("arith")
		b.WriteString(g.osp() + g.pick(arithOps) + g.osp())
		b.WriteString(g.primary(depth))
	}
	return b.String()
}

func (g *gen) setMember() string {
	switch k := g.r.Intn(100); {
	case k < 35:
		return g.stringLit()
	case k < 60:
		s := g.pick([]string{"0", "1", "2", "3", "10", "100", "900719925474099", "42"})
		if g.r.Chance(30) {
			s = "-" + g.osp() + s
		}
		return s
	case k < 80:
		s := g.pick(floatPool)
		if g.r.Chance(30) {
			s = "-" + s
		}
		return s
	case k < 84:
		g.outOfDomain = true
		return g.pick([]string{"9007199254740993", "123456789012345678", "0.1234567890123456789"})
	case k < 90:
		return g.pick([]string{"true", "false", "x", "*"})
	default:
		g.inSet = true
		defer func() { g.inSet = false }()
		return g.col(0)
	}
}

func (g *gen) unit(depth int) string {
	switch k := g.r.Intn(100); {
	case k < 56:
		return g.col(depth) + g.osp() + g.pick(cmpOps) + g.osp() + g.col(depth)
	case k < 58:
		g.feat("regex:plain-operand")
		return g.col(depth) + g.osp() + g.pick(cmpOps) + g.osp() + g.regex()
	case k < 66:
		op := g.pick([]string{"=~", "!~"})
		rhs := g.regex()
		if g.r.Chance(4) {
			g.feat("regex-op:non-regex")
			rhs = g.stringLit()
		}
		return g.col(0) + g.osp() + op + g.osp() + rhs
	case k < 76:
		if depth > 0 {
			g.feat("paren:condition")
			return "(" + g.osp() + g.cond(depth-1) + g.osp() + ")"
		}
		return g.pick(plainIdents) + " = 1"
	case k < 79:
		if depth > 0 {
			g.feat("paren:condition-as-operand")
			return "(" + g.cond(depth-1) + ")" + g.sp() + g.pick(cmpOps) + g.sp() + g.pick([]string{"true", "1", "(b = 2)"})
		}
		return g.pick(plainIdents) + " = 1"
	case k < 87:
		g.feat("in-set")
		id := g.ident()
		n := 1 + g.r.Intn(4)
		var ms []string
		for i := 0; i < n; i++ {
			ms = append(ms, g.setMember())
		}
		kw := g.pick([]string{"IN", "in", "NOT IN", "not in"})
		return id + g.sp() + kw + g.osp() + "(" + g.osp() + strings.Join(ms, g.osp()+","+g.osp()) + g.osp() + ")"
	case k < 92:
		g.feat("match-family")
		fn := g.pick([]string{"MATCH", "match", "MATCHPHRASE", "matchphrase", "IPINRANGE"})
		a := g.ident()
		if g.r.Chance(30) {
			a = g.stringLit()
		}
		b := g.stringLit()
		if g.r.Chance(10) {
			b = g.pick(plainIdents)
		}
		return fn + g.osp() + "(" + g.osp() + a + g.osp() + "," + g.osp() + b + g.osp() + ")"
	default:
		g.feat("like")
		return g.col(depth) + g.sp() + g.pick([]string{"LIKE", "like"}) + g.sp() + g.pick([]string{g.stringLit(), g.col(0)})
	}
}

func (g *gen) cond(depth int) string {
	n := 1
	switch k := g.r.Intn(10); {
	case k < 4:
		n = 1
	case k < 7:
		n = 2
	case k < 9:
		n = 3
	default:
		n = 4 + g.r.Intn(3)
	}
	same := g.r.Chance(45)
	op0 := g.pick([]string{"AND", "OR"})
	var b strings.Builder
	b.WriteString(g.unit(depth))
	for i := 1; i < n; i++ {
		op := op0
		if !same {
			op = g.pick([]string{"AND", "OR", "and", "or", "And"})
		}
		g.feat("logic")
		b.WriteString(g.sp() + op + g.sp())
		b.WriteString(g.unit(depth))
	}
	return b.String()
}

// mutate breaks a statement at token granularity (syntax errors both parsers must agree on).
func (g *gen) mutate(s string) string {
	f := strings.Fields(s)
	if len(f) == 0 {
		return s
	}
	i := g.r.Intn(len(f))
	switch g.r.Intn(6) {
	case 0:
		f = append(f[:i], f[i+1:]...)
	case 1:
		f = append(f[:i], append([]string{g.pick([]string{")", "(", "AND", "=", "+", ",", "OR", "::"})}, f[i:]...)...)
	case 2:
		f = f[:i]
	case 3:
		f[i] = g.pick([]string{"'unterminated", "\"unterminated", "'bad\\qescape'", "$p", "!", "--", "/*", "#", "?", "1e3", "a..b"})
	case 4:
		if i+1 < len(f) {
			f[i], f[i+1] = f[i+1], f[i]
		}
	default:
		f = append(f, g.pick([]string{")", "AND", "= 1", "x"}))
	}
	return strings.Join(f, " ")
}
