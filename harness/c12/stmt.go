package c12

// What the store re-parses besides conditions (every ParseExpr / ParseStatement / ParseSource /
// ParseSortFields call on received text):
//
//   fields <hex>     a SELECT field list: yacc -> Fields.String() -> hybridqp.ParseFields (the text
//                    `SELECT <fields> FROM mock` through the hand-written statement parser):
//                    `reject` | `f1 <fields> | pr <hex> | f2 <fields|err>`; the Lean driver predicts
//                    the line (COLUMN_CLAUSES of the grammar model, parseFields / parseField /
//                    parseAlias of Stmt.lean)
//   sorts <list>     SortFields.String() -> ParseSortFields: `pr <hex> | s2 <list|err>`
//   xsource / xstmt  sources (measurements with database / retention policy / regex, sub-queries
//                    with every clause of the statement grammar) and whole statements through
//                    String() -> ParseSource / ParseStatement: spec diff only (the statement-level
//                    printers and the hand-written statement parser are not in the Lean model)
//   opts …           the options object NewProcessorOptionsStmtBase builds from a generated
//                    statement (tz('…'), fill(…), GROUP BY time(d, offset), LIMIT/OFFSET/SLIMIT/SOFFSET,
//                    ORDER BY) through the codec, against the model (opts.go)

import (
	"fmt"
	"strconv"
	"strings"
	"time"

	"github.com/openGemini/openGemini/engine/hybridqp"
	"github.com/openGemini/openGemini/lib/util/lifted/influx/influxql"
	"github.com/openGemini/openGemini/lib/util/lifted/influx/query"

	"verif/harness/internal/hx"
)

func yaccStatement(text string) (st *influxql.SelectStatement, err error) {
	p := influxql.NewParser(strings.NewReader(text))
	defer p.Release()
	yp := influxql.NewYyParser(p.GetScanner(), make(map[string]interface{}))
	yp.ParseTokens()
	q, err := yp.GetQuery()
	if err != nil {
		return nil, err
	}
	if len(q.Statements) != 1 {
		return nil, fmt.Errorf("%d statements", len(q.Statements))
	}
	s, ok := q.Statements[0].(*influxql.SelectStatement)
	if !ok {
		return nil, fmt.Errorf("not a select: %T", q.Statements[0])
	}
	return s, nil
}

func dumpFields(fs influxql.Fields) string {
	parts := make([]string, len(fs))
	for i, f := range fs {
		parts[i] = dump(f.Expr) + "@" + hx16(f.Alias)
	}
	return "F[" + strings.Join(parts, ";") + "]"
}

var aliasPool = []string{"x", "mean_v", "my alias", "select", "a.b", "é", "1st", "it's", "a\"b", "as", "from", "time", "Region"}

func (g *gen) fieldList() string {
	n := 1 + g.r.Intn(4)
	var fs []string
	for i := 0; i < n; i++ {
		var f string
		switch k := g.r.Intn(100); {
		case k < 6:
			f = "*"
		case k < 9:
			f = g.pick([]string{"*::tag", "*::field"})
		case k < 14:
			g.feat("field:regex")
			f = g.regex()
		case k < 17:
			g.feat("field:regex-with-operator")
			f = g.regex() + g.osp() + g.pick(arithOps) + g.osp() + g.primary(0)
		case k < 19:
			// CASE is a COLUMN of the grammar; the model does not cover it (spec diff only)
			g.feat("field:case-when")
			f = "CASE WHEN " + g.pick(plainIdents) + " > 1 THEN " + g.col(0)
			if g.r.Bool() {
				f += " WHEN " + g.pick(plainIdents) + " = 'x' THEN " + g.col(0)
			}
			f += " ELSE " + g.col(0) + " END"
		default:
			f = g.col(2)
		}
		if g.r.Chance(35) && !strings.HasPrefix(f, "*") {
			g.feat("field:alias")
			a := g.pick(aliasPool)
			switch g.r.Intn(3) {
			case 0:
				f += g.sp() + g.pick([]string{"AS", "as"}) + g.sp() + quoteIdentText(a)
			case 1:
				f += g.sp() + "AS" + g.sp() + g.quoteStringText(a)
			default:
				f += g.sp() + "AS" + g.sp() + g.pick([]string{"x", "mean_v", "Region", "a1"})
			}
		}
		fs = append(fs, f)
	}
	return strings.Join(fs, g.osp()+","+g.osp())
}

func runFields(c *hx.Ctx, g *gen, text string) {
	var f1, f2 influxql.Fields
	var err error
	var printed string
	accepted := false
	p := hx.Safe(func() {
		var st *influxql.SelectStatement
		st, err = yaccStatement("SELECT " + text + " FROM m")
		if err != nil {
			return
		}
		accepted = true
		f1 = st.Fields
		printed = f1.String()
		f2, err = hybridqp.ParseFields(printed)
	})
	op := "fields " + hx16(text)
	ans := "reject"
	d1, d2 := "", "err"
	if accepted {
		d1 = dumpFields(f1)
		if err == nil && p == "" {
			d2 = dumpFields(f2)
		}
		ans = "f1 " + d1 + " | pr " + hx16(printed) + " | f2 " + d2
	}
	caseWhen := strings.Contains(d1, "<*influxql.CaseWhenExpr>")
	unmodelled := strings.Contains(d1, "<*") || (!accepted && err != nil && strings.Contains(err.Error(), "Invalid regexprs"))
	if g.outOfDomain && accepted || unmodelled {
		op = "xfields " + hx16(text)
		ans = "skip"
	}
	line := c.Emit(op, ans)
	c.Case(op, accepted && len(f1) > 1)
	c.Count("stmt:fields")
	for f := range g.feats {
		c.Count("gen:" + f)
	}
	if p != "" {
		c.Violation(line, "panic", "field list: "+p+" text="+strconv.Quote(text))
		return
	}
	if !accepted {
		return
	}
	same := d1 == d2
	if same {
		for i := range f1 {
			if dumpBits(f1[i].Expr) != dumpBits(f2[i].Expr) {
				same = false
			}
		}
	}
	if same {
		c.Count("fields:round-trip-equal")
		return
	}
	// localise: the first field that differs
	cls := ""
	if caseWhen && err != nil {
		// `CASE WHEN … END` is printed as it was written; parseUnaryExpr has no case for the keyword
		cls = "case_when_not_reparsed"
	} else if err == nil && len(f1) == len(f2) {
		for i := range f1 {
			if dump(f1[i].Expr) != dump(f2[i].Expr) || dumpBits(f1[i].Expr) != dumpBits(f2[i].Expr) {
				cls = classify(f1[i].Expr, f2[i].Expr, true)
				if cls == "" {
					cls = fieldFeatures(f1[i].Expr)
				}
				break
			}
		}
	} else {
		for _, f := range f1 {
			if cls = fieldFeatures(f.Expr); cls != "" {
				break
			}
		}
	}
	c.Count("fields:round-trip-differs")
	c.Violation(line, cls, fmt.Sprintf("fields=%s planned=%s shipped=%s reparsed=%s (%s)", strconv.Quote(text), d1, strconv.Quote(printed), d2, errStr(err)))
}

// fieldFeatures: a known defect a field expression carries, for failures that cannot be localised.
func fieldFeatures(e influxql.Expr) string {
	// a field that starts with a regex and goes on: parseField takes the regex as the whole field
	first := e
	for {
		if b, ok := first.(*influxql.BinaryExpr); ok {
			first = b.LHS
			continue
		}
		break
	}
	if _, isRe := first.(*influxql.RegexLiteral); isRe && first != e {
		return "regex_call_argument_with_operator"
	}
	return scanFeatures(e)
}

// ---------------------------------------------------------------------------------------------
// sort fields

func runSorts(c *hx.Ctx, g *gen) {
	n := 1 + g.r.Intn(3)
	var sf influxql.SortFields
	var parts []string
	for i := 0; i < n; i++ {
		name := g.pick(plainIdents)
		switch k := g.r.Intn(10); {
		case k < 3:
			name = g.pick(quotedIdents)
		case k < 4:
			name = g.randString()
		case k < 5 && i == 0:
			name = ""
		}
		asc := g.r.Bool()
		sf = append(sf, &influxql.SortField{Name: name, Ascending: asc})
		parts = append(parts, hx16(name)+","+tf(asc))
	}
	if sf[0].Name != "" {
		for _, f := range sf[1:] {
			_ = f
		}
	}
	printed := sf.String()
	back, err := influxql.ParseSortFields(printed)
	s2 := "err"
	if err == nil {
		var bp []string
		for _, f := range back {
			bp = append(bp, hx16(f.Name)+","+tf(f.Ascending))
		}
		s2 = strings.Join(bp, ":")
	}
	op := "sorts " + strings.Join(parts, ":")
	line := c.Emit(op, "pr "+hx16(printed)+" | s2 "+s2)
	c.Case(op, n > 1)
	c.Count("stmt:sorts")
	emptyLater := false
	for _, f := range sf[1:] {
		if f.Name == "" {
			emptyLater = true
		}
	}
	if emptyLater {
		return // only the first sort field can go without a name (grammar)
	}
	if s2 != strings.Join(parts, ":") {
		c.Violation(line, "", "SortFields "+strconv.Quote(printed)+" re-parsed as "+s2)
	}
}

// ---------------------------------------------------------------------------------------------
// sources and statements (spec only)

var zonePoolStmt = []string{"UTC", "Asia/Shanghai", "America/New_York", "Europe/Berlin", "Local"}

func (g *gen) mstName() string {
	seg := func() string {
		if g.r.Chance(25) {
			return quoteIdentText(g.pick([]string{"my db", "a.b", "select", "é", "rp-1", "1m"}))
		}
		return g.pick([]string{"db0", "autogen", "cpu", "mem", "m1", "rp"})
	}
	switch k := g.r.Intn(10); {
	case k < 5:
		return seg()
	case k < 7:
		return seg() + "." + seg() + "." + seg()
	case k < 8:
		return seg() + ".." + seg()
	case k < 9:
		return "/" + g.pick([]string{"cpu.*", "^m[0-9]$", "a\\/b"}) + "/"
	default:
		return seg() + "." + seg() + "./" + g.pick([]string{"cpu.*", "^m$"}) + "/"
	}
}

// selectText builds a statement with the clauses the grammar knows after the condition.
func (g *gen) selectText(depth int, wantCond *string) string {
	return g.selectTextAt(depth, wantCond, true)
}

func (g *gen) selectTextAt(depth int, wantCond *string, top bool) string {
	var b strings.Builder
	b.WriteString("SELECT ")
	switch g.r.Intn(4) {
	case 0:
		b.WriteString("mean(v), max(" + g.pick(plainIdents) + ") AS mx")
	case 1:
		b.WriteString(g.pick(plainIdents) + ", " + g.pick(plainIdents))
	case 2:
		b.WriteString("*")
	default:
		b.WriteString("count(" + g.pick(plainIdents) + ")")
	}
	if top && g.r.Chance(6) {
		g.feat("stmt:into")
		b.WriteString(" INTO " + g.pick([]string{"dst", "db0.rp.dst", "\"my dst\""}))
	}
	b.WriteString(" FROM ")
	if depth > 0 && g.r.Chance(30) {
		g.feat("stmt:subquery")
		b.WriteString("(" + g.selectTextAt(depth-1, nil, false) + ")")
		if g.r.Chance(40) {
			b.WriteString(" AS " + g.pick([]string{"t1", "sub"}))
		}
	} else {
		b.WriteString(g.mstName())
		if g.r.Chance(15) {
			b.WriteString(", " + g.mstName())
		}
	}
	if g.r.Chance(70) {
		cond, _ := g.cleanConditionText()
		if wantCond != nil {
			*wantCond = cond
		}
		b.WriteString(" WHERE " + cond)
	}
	if g.r.Chance(60) {
		b.WriteString(" GROUP BY ")
		var dims []string
		if g.r.Chance(70) {
			g.feat("stmt:group-by-time")
			d := g.pick([]string{"1m", "10s", "1h", "1500ms", "7d", "1w", "90m", "1ns", "1u"})
			if g.r.Chance(50) {
				g.feat("stmt:group-by-time-offset")
				d += "," + g.osp() + g.pick([]string{"10s", "-10s", "0s", "90s", "1m", "3h", "1500ns", "-1ns", "30m"})
			}
			dims = append(dims, "time("+d+")")
		}
		for k := 0; k < g.r.Intn(3); k++ {
			dims = append(dims, g.pick([]string{"host", "region", "\"my tag\"", "*", "az"}))
		}
		if len(dims) == 0 {
			dims = []string{"host"}
		}
		b.WriteString(strings.Join(dims, ", "))
		if g.r.Chance(50) {
			g.feat("stmt:fill")
			b.WriteString(" fill(" + g.pick([]string{"null", "none", "previous", "linear", "0", "5", "-3", "1.5", "9007199254740993", "100.0", "0.0"}) + ")")
		}
	}
	if g.r.Chance(30) {
		g.feat("stmt:order-by")
		b.WriteString(" ORDER BY " + g.pick([]string{"time DESC", "time ASC", "time", "host DESC, time ASC", "\"my col\" DESC", "v"}))
	}
	if g.r.Chance(30) {
		b.WriteString(" LIMIT " + g.pick([]string{"1", "10", "0", "9223372036854775807"}))
		if g.r.Chance(50) {
			b.WriteString(" OFFSET " + g.pick([]string{"1", "5", "0"}))
		}
	}
	if g.r.Chance(20) {
		b.WriteString(" SLIMIT " + g.pick([]string{"1", "3"}))
		if g.r.Chance(50) {
			b.WriteString(" SOFFSET " + g.pick([]string{"1", "2"}))
		}
	}
	if g.r.Chance(30) {
		g.feat("stmt:tz")
		b.WriteString(" tz('" + g.pick(zonePoolStmt) + "')")
	}
	return b.String()
}

// cleanConditionText: a condition text whose tree survives String() -> ParseExpr (expression defects are
// reported by the expr ops, not again here)
func (g *gen) cleanConditionText() (string, influxql.Expr) {
	feats, ood := g.feats, g.outOfDomain
	e, text := g.cleanCondition()
	g.feats, g.outOfDomain = feats, ood
	return text, e
}

func canonStmtSource(s influxql.Source) string {
	switch x := s.(type) {
	case *influxql.Measurement:
		return canonSource(x)
	case *influxql.SubQuery:
		return "SUB{" + x.Statement.String() + "} alias=" + strconv.Quote(x.Alias)
	}
	return fmt.Sprintf("%T{%s}", s, s.String())
}

// sourceClass: why a source does not come back as it was planned
func sourceClass(s influxql.Source, back influxql.Source, err error) string {
	switch x := s.(type) {
	case *influxql.SubQuery:
		if err != nil {
			return "subquery_text_not_reparsed"
		}
		if b, ok := back.(*influxql.SubQuery); ok && b.Alias != x.Alias && b.Statement.String() == x.Statement.String() {
			return "subquery_alias_dropped"
		}
		return "subquery_text_not_reparsed"
	}
	return ""
}

func runSource(c *hx.Ctx, g *gen) {
	text := g.selectText(2, nil)
	var srcs influxql.Sources
	var err error
	p := hx.Safe(func() {
		var st *influxql.SelectStatement
		st, err = yaccStatement(text)
		if err == nil {
			srcs = st.Sources
		}
	})
	line := c.Emit("xsource "+hx16(text), "skip")
	c.Case("xsource "+text, err == nil)
	c.Count("stmt:sources")
	for f := range g.feats {
		c.Count("gen:" + f)
	}
	if p != "" {
		c.Violation(line, "panic", "statement parser: "+p+" text="+strconv.Quote(text))
		return
	}
	if err != nil {
		c.Count("stmt:rejected")
		return
	}
	for _, s := range srcs {
		var back influxql.Source
		var perr error
		if sq, ok := s.(*influxql.SubQuery); ok && stmtHasBigSet(sq.Statement) {
			// Go map order: the printed text of a key set with several members is not canonical
			c.Count("source:not-canonical-set")
			continue
		}
		printed := s.String()
		if p := hx.Safe(func() { back, perr = influxql.ParseSource(printed) }); p != "" {
			c.Violation(line, "panic", "ParseSource: "+p+" text="+strconv.Quote(printed))
			continue
		}
		want := canonStmtSource(s)
		have := "err"
		if perr == nil {
			have = canonStmtSource(back)
		}
		if m, ok := s.(*influxql.Measurement); ok && perr == nil {
			// the alias of a measurement source and the engine / index decorations are attached by the
			// planner after parsing; the text carries database, retention policy, name / regex
			mc := *m
			mc.Alias, mc.IsTarget, mc.IsTimeSorted, mc.IndexRelation, mc.ObsOptions, mc.EngineType, mc.MstType = "", false, false, nil, nil, 0, ""
			want = canonSource(&mc)
		}
		if want == have {
			c.Count("source:round-trip-equal")
			continue
		}
		c.Count("source:round-trip-differs")
		c.Violation(line, sourceClass(s, back, perr), fmt.Sprintf("source planned=%s shipped=%s reparsed=%s (%s)", oneLine(want), strconv.Quote(printed), oneLine(have), errStr(perr)))
	}
}

// runStmtOpts: the options of a generated statement through the codec (model: opts.go)
func runStmtOpts(c *hx.Ctx, g *gen) {
	cond := ""
	text := g.selectText(0, &cond)
	var opt query.ProcessorOptions
	var err error
	var st *influxql.SelectStatement
	p := hx.Safe(func() {
		st, err = yaccStatement(text)
		if err == nil {
			opt, err = query.NewProcessorOptionsStmtBase(st)
		}
	})
	if p != "" || err != nil {
		c.Count("stmt:opts-rejected")
		line := c.Emit("xstmt "+hx16(text), "skip")
		c.Case("xstmt "+text, false)
		if p != "" {
			c.Violation(line, "panic", "NewProcessorOptionsStmtBase: "+p+" text="+strconv.Quote(text))
		}
		return
	}
	opt.SortFields = st.SortFields
	opt.Query = text
	o := &optGen{g: g, texts: map[string]string{"Condition": cond}}
	c.Count("stmt:opts-from-statement")
	for f := range g.feats {
		c.Count("gen:" + f)
	}
	runOptsObj(c, o, &opt)
}

// ---------------------------------------------------------------------------------------------
// a pooled parser must read a text as a new one does

var poolNext = []string{"/re/ = a", "/x/", "/a b/ + 1 > 2", "a / 2 > 1", "a.b = 1", "x.y.z > 0", "f(/re/)", "- 5 > a"}
var poolSources = []string{"db.rp.m", "db..m", "m", "db.rp./re/", "\"my db\".rp.\"m.x\"", "/cpu.*/"}

// what the pool hands out next has just read `prev` (sync.Pool gives the last parser put back to the
// same P first; the runs are repeated so that a goroutine migration does not hide a difference)
func afterPrev(prev int, f func() string) string {
	out := ""
	for rep := 0; rep < 3; rep++ {
		switch prev {
		case 0:
			_, _ = influxql.ParseExpr("a = 1")
		case 1:
			_, _ = influxql.ParseExpr("a = 1 )")
		case 2:
			_, _ = hybridqp.ParseFields("x, mean(y)") // SELECT … FROM mock: ends after FROM <ident>
		case 3:
			_, _ = influxql.ParseExpr("b / 2")
		case 4:
			_, _ = influxql.ParseSortFields("a DESC")
		}
		r := f()
		if rep == 0 {
			out = r
		} else if r != out {
			return out + " / " + r
		}
	}
	return out
}

func runPool(c *hx.Ctx, g *gen) {
	isSource := g.r.Chance(40)
	var text string
	var f func() string
	if isSource {
		text = g.pick(poolSources)
		f = func() string {
			s, err := influxql.ParseSource(text)
			if err != nil {
				return "err " + err.Error()
			}
			return canonStmtSource(s)
		}
	} else {
		text = g.pick(poolNext)
		if g.r.Chance(30) {
			text = g.cond(1)
		}
		f = func() string {
			e, err := influxql.ParseExpr(text)
			if err != nil {
				return "err " + err.Error()
			}
			return dump(e)
		}
	}
	var res []string
	p := hx.Safe(func() {
		for prev := 0; prev < 5; prev++ {
			res = append(res, afterPrev(prev, f))
		}
	})
	line := c.Emit("xpool "+hx16(text), "skip")
	c.Case("xpool "+text, true)
	c.Count("stmt:pooled-parser")
	if p != "" {
		c.Violation(line, "panic", "pooled parser: "+p)
		return
	}
	for i := 1; i < len(res); i++ {
		if res[i] != res[0] {
			c.Violation(line, "", fmt.Sprintf("a pooled parser reads %s differently after different previous texts: %q vs %q (previous use %d)", strconv.Quote(text), res[0], res[i], i))
			return
		}
	}
}

func stmtHasBigSet(st *influxql.SelectStatement) bool {
	big := false
	influxql.WalkFunc(st, func(n influxql.Node) {
		if x, ok := n.(*influxql.SetLiteral); ok && len(x.Vals) >= 2 {
			big = true
		}
	})
	return big
}

// ---------------------------------------------------------------------------------------------
// ParseExpr on a shipped text that was cut short (a corrupted message): it must come back, and the model
// predicts what it returns

func runCut(c *hx.Ctx, g *gen) {
	_, text := g.cleanCondition()
	e, err := yaccParse(text)
	if err != nil {
		return
	}
	printed := e.String()
	rs := []rune(printed)
	if len(rs) < 2 {
		return
	}
	cut := string(rs[:1+g.r.Intn(len(rs)-1)])
	if hasBigSet(e) {
		// (Go map order: the printed text of a key set is not canonical; cut in front of the first list)
		if i := strings.Index(cut, " IN ("); i >= 0 {
			cut = cut[:i+5]
		}
	}
	var e2 influxql.Expr
	var perr error
	done := make(chan struct{})
	var pmsg string
	go func() {
		defer close(done)
		pmsg = hx.Safe(func() { e2, perr = influxql.ParseExpr(cut) })
	}()
	ans := ""
	select {
	case <-done:
		switch {
		case pmsg != "":
			ans = "err " + pmsg
		case perr != nil:
			ans = "err"
		default:
			ans = "t " + dump(e2)
		}
	case <-time.After(3 * time.Second):
		hangs++
		ans = "hang"
	}
	line := c.Emit("pe "+hx16(cut), ans)
	c.Case("pe "+cut, true)
	c.Count("stmt:cut-text")
	if ans == "hang" || pmsg != "" {
		c.Violation(line, "panic", "ParseExpr on a text cut short does not come back (or panics): "+strconv.Quote(cut)+" "+pmsg)
	}
}
