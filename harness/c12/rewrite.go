package c12

// What the coordinator does to a condition between planning and shipping.
//
//   cexpr <hex>    a condition with time comparisons at every position of its tree (both sides of AND / OR,
//                  inside and outside parenthesised groups, nested groups, groups that hold nothing but time,
//                  boolean literals), atoms that `Reduce` leaves alone: yacc -> influxql.ConditionExpr (the
//                  real rewriting of compile.go / subquery.go / the shard mapper, NowValuer with a fixed
//                  clock) -> ProcessorOptions.MarshalBinary -> UnmarshalBinary:
//                  `reject` | `t1 <planned> | r err` | `… | r nil` | `… | r <rewritten> | pr <hex> | t2 <re-parsed|err>`
//                  The Lean driver predicts the line (Rewrite.lean: reduceC / condExpr / conditionExprM).
//   xcexpr <hex>   the same path on conditions of the full generator (constant folding, now() outside time
//                  comparisons, every literal shape) — spec diff only.
// Spec diff: the re-parsed tree is the rewritten (in-memory) tree, and both evaluate alike (EvalBool) on
// random rows; classified like the conditions of the expr op.

import (
	"fmt"
	"sort"
	"strconv"
	"strings"
	"time"

	"github.com/openGemini/openGemini/engine/executor"
	"github.com/openGemini/openGemini/lib/util/lifted/influx/influxql"
	"github.com/openGemini/openGemini/lib/util/lifted/influx/query"

	"verif/harness/internal/hx"
)

var fixedNow = time.Unix(1700000000, 0).UTC()

// mirror of OG.C12.timeStrings
var timeStringPool = []string{"2020-01-01T00:00:00Z", "2020-01-02", "2020-01-02 10:00:00", "2020-01-01T00:00:00.123456789Z", "2019-12-31T23:59:59+08:00"}

func (g *gen) timeOperandText() string {
	switch k := g.r.Intn(100); {
	case k < 35:
		return "'" + g.pick(timeStringPool) + "'"
	case k < 50:
		return "now()"
	case k < 68:
		return "now() " + g.pick([]string{"-", "+"}) + " " + g.pick([]string{"1h", "10m", "7d", "1500ms", "1w"})
	case k < 74:
		return "'" + g.pick(timeStringPool) + "' " + g.pick([]string{"-", "+"}) + " " + g.pick([]string{"1h", "90m"})
	case k < 82:
		return g.pick([]string{"1577836800000000000", "0", "1700000000000000000"})
	case k < 88:
		return g.pick([]string{"1h", "1577836800s", "0s"})
	case k < 91:
		return g.pick([]string{"1.5", "1577836800.25"})
	case k < 94:
		return "(now() - 1h)"
	case k < 96:
		g.feat("time:incompatible-operand")
		return g.pick([]string{"'yesterday'", "host", "true", "f(x)"})
	default:
		return "'" + g.pick(timeStringPool) + "'"
	}
}

func (g *gen) timePred() string {
	g.feat("time:predicate")
	op := g.pick([]string{">", ">=", "<", "<=", "=", ">", ">=", "<", "<="})
	if g.r.Chance(4) {
		g.feat("time:bad-operator")
		op = g.pick([]string{"!=", "<>"})
	}
	t := g.pick([]string{"time", "time", "time", "TIME", "\"time\"", "Time"})
	if g.r.Chance(25) {
		return g.timeOperandText() + g.sp() + op + g.sp() + t
	}
	return t + g.sp() + op + g.sp() + g.timeOperandText()
}

// an atom `Reduce` leaves alone: no operator whose two operands are literals, no now()
func (g *gen) stableAtom() string {
	id := g.pick([]string{"a", "b", "c", "host", "usage_user", "\"my col\"", "Region", "v::float", "host::tag", "x_y_z"})
	lit := func() string {
		switch g.r.Intn(6) {
		case 0:
			return g.pick([]string{"1", "2", "100", "9223372036854775807"})
		case 1:
			return g.pick([]string{"1.5", "0.25", "99.99"})
		case 2:
			return g.pick([]string{"'x'", "'it\\'s'", "'2020-01-01'", "''"})
		case 3:
			return g.pick([]string{"true", "false"})
		case 4:
			return g.pick([]string{"90m", "1h"})
		default:
			return g.pick([]string{"b", "c", "cpu0"})
		}
	}
	switch k := g.r.Intn(100); {
	case k < 55:
		return id + g.osp() + g.pick(cmpOps) + g.osp() + lit()
	case k < 65:
		return id + " " + g.pick(arithOps) + " " + lit() + " " + g.pick(cmpOps) + " " + lit()
	case k < 72:
		return id + " " + g.pick([]string{"=~", "!~"}) + " " + g.regex()
	case k < 80:
		return g.pick([]string{"abs", "f", "my_func"}) + "(" + id + ") " + g.pick(cmpOps) + " " + lit()
	case k < 86:
		return id + " IN (" + g.pick([]string{"1", "'x'", "1.5"}) + ")"
	case k < 90:
		return "(" + id + ")" + " " + g.pick(cmpOps) + " " + lit()
	case k < 94:
		g.feat("cond:boolean-literal")
		return g.pick([]string{"true", "false", "TRUE"})
	default:
		return id + " " + g.pick(cmpOps) + " -" + g.pick([]string{"1", "2.5"})
	}
}

// condWithTime: a flat AND / OR run of units; a unit is an atom, a time comparison, or a group.
func (g *gen) condWithTime(depth int, atom func() string) string {
	n := 1 + g.r.Intn(4)
	var b strings.Builder
	for i := 0; i < n; i++ {
		if i > 0 {
			b.WriteString(g.sp() + g.pick([]string{"AND", "OR", "AND", "and", "or"}) + g.sp())
		}
		switch k := g.r.Intn(100); {
		case k < 30:
			b.WriteString(g.timePred())
		case k < 55 && depth > 0:
			g.feat("time:group")
			b.WriteString("(" + g.osp() + g.condWithTime(depth-1, atom) + g.osp() + ")")
		case k < 58 && depth > 0:
			g.feat("time:only-time-group")
			b.WriteString("(" + g.timePred() + g.pick([]string{"", " AND " + g.timePred(), " OR " + g.timePred()}) + ")")
		case k < 61 && depth > 0:
			g.feat("time:nested-parens")
			b.WriteString("((" + g.condWithTime(depth-1, atom) + "))")
		default:
			b.WriteString(atom())
		}
	}
	return b.String()
}

func exprNames(e influxql.Expr) []string {
	seen := map[string]bool{}
	influxql.WalkFunc(e, func(n influxql.Node) {
		if v, ok := n.(*influxql.VarRef); ok {
			seen[v.Val] = true
		}
	})
	out := make([]string, 0, len(seen))
	for k := range seen {
		out = append(out, k)
	}
	sort.Strings(out)
	return out
}

// evalDiffers: a row on which the two conditions evaluate differently ("" when none of the rows tried does)
func evalDiffers(g *gen, a, b influxql.Expr) string {
	names := exprNames(a)
	for _, n := range exprNames(b) {
		names = append(names, n)
	}
	for i := 0; i < 24; i++ {
		row := map[string]interface{}{}
		for _, n := range names {
			switch g.r.Intn(5) {
			case 0:
				row[n] = int64(g.r.Intn(4))
			case 1:
				row[n] = float64(g.r.Intn(4)) / 2
			case 2:
				row[n] = g.pick([]string{"x", "b", "", "it's"})
			case 3:
				row[n] = g.r.Bool()
			default:
				row[n] = int64(1 + g.r.Intn(3))
			}
		}
		var x, y bool
		if p := hx.Safe(func() { x = influxql.EvalBool(a, row); y = influxql.EvalBool(b, row) }); p != "" {
			continue
		}
		if x != y {
			return fmt.Sprintf("row %v: planned %v, shipped %v", row, x, y)
		}
	}
	return ""
}

func runCondRewrite(c *hx.Ctx, g *gen, text string, modelled bool) {
	opName := "cexpr"
	if !modelled {
		opName = "xcexpr"
	}
	var e1, e2, shipped influxql.Expr
	var yerr, rerr, uerr error
	var printed string
	p := hx.Safe(func() {
		e1, yerr = yaccParse(text)
		if yerr != nil {
			return
		}
		valuer := influxql.NowValuer{Now: fixedNow}
		e2, _, rerr = influxql.ConditionExpr(e1, &valuer)
		if rerr != nil || e2 == nil {
			return
		}
		printed = e2.String()
		opt := &query.ProcessorOptions{Condition: e2}
		var buf []byte
		buf, uerr = opt.MarshalBinary()
		if uerr != nil {
			return
		}
		back := &query.ProcessorOptions{}
		if uerr = back.UnmarshalBinary(buf); uerr == nil {
			shipped = back.Condition
		}
	})
	op := opName + " " + hx16(text)
	ans := ""
	t1 := ""
	switch {
	case p != "":
		ans = "err " + p
	case yerr != nil:
		ans = "reject"
		if strings.Contains(yerr.Error(), "Invalid regexprs") {
			op, ans = "xcexpr "+hx16(text), "skip"
		}
	default:
		t1 = dump(e1)
		switch {
		case rerr != nil:
			ans = "t1 " + t1 + " | r err"
		case e2 == nil:
			ans = "t1 " + t1 + " | r nil"
		default:
			t2 := "err"
			if uerr == nil && shipped != nil {
				t2 = dump(shipped)
			} else if uerr == nil {
				t2 = "nil"
			}
			pr := hx16(printed)
			if hasBigSet(e2) {
				pr = "-"
			}
			ans = "t1 " + t1 + " | r " + dump(e2) + " | pr " + pr + " | t2 " + t2
		}
	}
	if !modelled || (g.outOfDomain && yerr == nil) || strings.Contains(ans, "<*") {
		op, ans = "xcexpr "+hx16(text), "skip"
	}
	line := c.Emit(op, ans)
	c.Case(op, yerr == nil && strings.Contains(strings.ToLower(text), "time"))
	c.Count("rewrite:" + opName)
	for f := range g.feats {
		c.Count("gen:" + f)
	}
	switch {
	case p != "":
		c.Violation(line, "panic", "ConditionExpr / codec: "+p+" text="+strconv.Quote(text))
		return
	case yerr != nil:
		c.Count("rewrite:rejected-by-statement-parser")
		return
	case rerr != nil:
		c.Count("rewrite:error")
		return
	case e2 == nil:
		c.Count("rewrite:only-time")
		return
	}
	d2 := dump(e2)
	same := uerr == nil && shipped != nil && d2 == dump(shipped) && dumpBits(e2) == dumpBits(shipped)
	if same {
		c.Count("rewrite:shipped-equals-planned")
		if strings.Contains(t1, "74696d65") {
			c.Sample(text + "  =>  " + printed)
		}
		return
	}
	cls := ""
	if uerr == nil && shipped != nil {
		cls = classify(e2, shipped, false)
	} else {
		cls = scanFeatures(e2)
	}
	witness := ""
	if uerr == nil && shipped != nil {
		witness = evalDiffers(g, e2, shipped)
	}
	if cls == "" && strings.Contains(d2, "<*influxql.TimeLiteral>") {
		// now() / a time string outside a comparison with `time` is folded into a TimeLiteral, which prints
		// as a quoted string and is re-read as a StringLiteral
		cls = "time_literal_shipped_as_string"
	}
	c.Count("rewrite:shipped-differs")
	have := "err"
	if uerr == nil && shipped != nil {
		have = dump(shipped)
	}
	c.Violation(line, cls, fmt.Sprintf("text=%s planned(after ConditionExpr)=%s shipped=%s reparsed=%s (%s) %s", strconv.Quote(text), d2, strconv.Quote(printed), have, errStr(uerr), oneLine(witness)))
}

// ---------------------------------------------------------------------------------------------
// the whole preparation path: query.Compile (ConditionExpr, RewriteRegexConditions, …) -> Prepare (shard
// mapping, RewriteFields: the condition's references get their types) -> ProcessorOptions -> the codec

func (g *gen) prepAtom() string {
	id := g.pick([]string{"tag1", "f1", "tag1", "f1", "host", "v", "\"my col\"", "f1::integer", "tag1::tag"})
	switch k := g.r.Intn(100); {
	case k < 40:
		return id + g.osp() + g.pick(cmpOps) + g.osp() + g.pick([]string{"1", "2.5", "'x'", "'a b'", "true", "10"})
	case k < 58:
		g.feat("prep:exact-regex")
		return g.pick([]string{"tag1", "host", "f1"}) + " " + g.pick([]string{"=~", "!~"}) + " " +
			g.pick([]string{"/^a$/", "/^(a|b)$/", "/^$/", "/^a.b$/", "/^(x|y|z)$/", "/a/", "/^cpu\\d$/", "/^(a|b)/"})
	case k < 68:
		return id + " + 1 " + g.pick(cmpOps) + " f1"
	case k < 76:
		return "f1 " + g.pick(arithOps) + " 2 " + g.pick(cmpOps) + " 3"
	case k < 82:
		return "abs(f1) > 1"
	case k < 88:
		g.feat("prep:now-outside-time")
		return "f1 > now() - 1h"
	case k < 94:
		return g.stableAtom()
	default:
		return "1 + 2 < f1"
	}
}

func runPrep(c *hx.Ctx, g *gen) {
	text := "SELECT " + g.pick([]string{"f1", "mean(f1)", "f1, v", "*"}) + " FROM m WHERE " + g.condWithTime(2, g.prepAtom)
	if g.r.Chance(30) {
		text += " GROUP BY " + g.pick([]string{"tag1", "time(1m)", "time(1m), tag1"})
	}
	var planned, shipped influxql.Expr
	var err, uerr error
	stage := ""
	p := hx.Safe(func() {
		var st *influxql.SelectStatement
		st, err = yaccStatement(text)
		if err != nil {
			stage = "parse"
			return
		}
		var cs query.Statement
		cs, _, err = query.Compile(st, query.CompileOptions{Now: fixedNow})
		if err != nil {
			stage = "compile"
			return
		}
		var ps query.PreparedStatement
		ps, err = cs.Prepare(executor.NewPlanTypeInitShardMapper(), query.SelectOptions{})
		if err != nil {
			stage = "prepare"
			return
		}
		defer ps.Close()
		opt := ps.ProcessorOptions()
		planned = opt.Condition
		var buf []byte
		buf, uerr = opt.MarshalBinary()
		if uerr != nil {
			return
		}
		back := &query.ProcessorOptions{}
		if uerr = back.UnmarshalBinary(buf); uerr == nil {
			shipped = back.Condition
		}
	})
	line := c.Emit("xprep "+hx16(text), "skip")
	c.Case("xprep "+text, err == nil)
	c.Count("rewrite:xprep")
	for f := range g.feats {
		c.Count("gen:" + f)
	}
	switch {
	case p != "":
		c.Violation(line, "panic", "statement preparation / codec: "+p+" text="+strconv.Quote(text))
		return
	case err != nil:
		c.Count("rewrite:prep-rejected-at-" + stage)
		return
	case planned == nil:
		c.Count("rewrite:prep-no-condition")
		if uerr != nil || shipped != nil {
			c.Violation(line, "", fmt.Sprintf("text=%s no condition planned, store got %v (%s)", strconv.Quote(text), shipped, errStr(uerr)))
		}
		return
	}
	d := dump(planned)
	if uerr == nil && shipped != nil && d == dump(shipped) && dumpBits(planned) == dumpBits(shipped) {
		c.Count("rewrite:prep-shipped-equals-planned")
		return
	}
	cls, witness, have := "", "", "err"
	if uerr == nil && shipped != nil {
		cls = classify(planned, shipped, false)
		witness = evalDiffers(g, planned, shipped)
		have = dump(shipped)
	} else {
		cls = scanFeatures(planned)
	}
	if cls == "" && strings.Contains(d, "<*influxql.TimeLiteral>") {
		cls = "time_literal_shipped_as_string"
	}
	c.Count("rewrite:prep-shipped-differs")
	c.Violation(line, cls, fmt.Sprintf("text=%s planned(after preparation)=%s shipped=%s reparsed=%s (%s) %s", strconv.Quote(text), d, strconv.Quote(planned.String()), have, errStr(uerr), oneLine(witness)))
}

// errStr / oneLine: a violation description is one line of viol.out (an error text can quote a line break)
func errStr(err error) string {
	if err == nil {
		return "<nil>"
	}
	return strconv.Quote(err.Error())
}

func oneLine(s string) string {
	return strings.NewReplacer("\n", "\\n", "\t", "\\t", "\r", "\\r").Replace(s)
}
