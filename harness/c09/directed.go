package c09

// Hand-picked boundary cases and minimised past failures, run first in every run (replay
// format, see runScript): 1. first/last/min/max with an auxiliary column over a chunk of three
// segments whose extreme values sit at its ends (statistics shortcuts), both directions;
// 2. the row of an extreme value looked up by its time in a descending read; 3. unflushed rows
// with nulls in the selected and in the auxiliary column; 4. a chunk that keeps a boolean column
// without a value (found by the thorough tier: min(fb) answered false at 1970).
var directed = []string{
	`H 8 1 40 0
W 0:0:fi=1,fs=s000;0:1:fi=2,fs=s001;0:2:fi=3,fs=s002;0:3:fi=4,fs=s003;0:4:fi=5,fs=s004;0:5:fi=6,fs=s005;0:6:fi=7,fs=s006;0:7:fi=8,fs=s007;0:8:fi=9,fs=s008;0:9:fi=10,fs=s009;0:10:fi=11,fs=s010;0:11:fi=12,fs=s011;0:12:fi=13,fs=s012;0:13:fi=14,fs=s013;0:14:fi=15,fs=s014;0:15:fi=16,fs=s015;0:16:fi=17,fs=s016;0:17:fi=18,fs=s017;0:18:fi=19,fs=s018;0:19:fi=20,fs=s019
F
Q auxq last:fi/fs -3 51 nohint - 0 - asc -
Q auxq last:fi/fs -3 51 nohint - 0 - desc -
Q auxq first:fi/fs -3 51 nohint - 0 - asc -
Q auxq first:fi/fs -3 51 nohint - 0 - desc -
Q auxq max:fi/fs -3 51 nohint - 0 - asc -
Q auxq max:fi/fs -3 51 nohint - 0 - desc -
Q auxq min:fi/fs -3 51 nohint - 0 - asc -
Q auxq min:fi/fs -3 51 nohint - 0 - desc -
Q auxq last:fi/fs 3 17 nohint - 0 - asc -
Q auxq max:fi/fs 3 17 nohint - 0 - desc -
Q agg last:fi+count:fs -3 51 nohint - 0 - desc -
`,
	`H 8 2 24 0
W 0:0:fi=-9,fs=s000;0:1:fi=-31,fs=s001;0:2:fi=0,fs=s002;0:3:fi=33,fs=s003;0:4:fi=-44,fs=s004;0:5:fi=-41,fs=s005;0:6:fi=18,fs=s006;0:7:fi=-38,fs=s007;0:8:fi=-4,fs=s008;0:9:fi=24,fs=s009;0:10:fi=-43,fs=s010;0:11:fi=14,fs=s011;1:3:fi=7,fs=s030;1:0:fi=9
F
Q auxq max:fi/fs -3 30 nohint host 0 - desc -
Q auxq max:fi/fs -3 30 nohint host 0 - asc -
Q auxq min:fi/fs -3 30 nohint host 0 - desc -
Q auxq min:fi/fs -3 30 nohint host 0 - asc -
Q auxq first:fi/fs -3 30 nohint host 0 - desc -
Q auxq first:fi/fs -3 30 nohint host 0 - asc -
Q auxq last:fi/fs -3 30 nohint host 0 - desc -
Q auxq last:fi/fs -3 30 nohint host 0 - asc -
`,
	`H 8 1 16 0
W 0:0:fi=5,fs=s001;0:1:fs=s002;0:2:fi=9;0:3:fi=1,fs=s004;0:4:fs=s005;0:5:ff=3fd0000000000000
Q auxq last:fi/fs -3 30 nohint - 0 - asc -
Q auxq last:fi/fs -3 30 nohint - 0 - desc -
Q auxq first:fi/fs -3 30 nohint - 0 - asc -
Q auxq first:fi/fs -3 30 nohint - 0 - desc -
Q auxq max:fi/fs -3 30 nohint - 0 - asc -
Q auxq max:fi/fs -3 30 nohint - 0 - desc -
Q auxq min:fi/fs -3 30 nohint - 0 - asc -
Q auxq min:fi/fs -3 30 nohint - 0 - desc -
Q auxq last:fi/ff/fs -3 30 nohint - 0 - asc -
Q auxq last:fi/ff/fs -3 30 nohint - 0 - desc -
`,
	`H 24 4 144 0
W 0:43:ff=4046f00000000000,fi=-2;0:17:fb=0,ff=3fd8000000000000,fi=2;0:97:ff=bfe0000000000000,fi=-3;0:31:ff=c042300000000000;2:76:fi=-2,fs=s000;2:39:fb=1,ff=c00a000000000000,fi=-3
F
F
W 2:76:fi=-3;2:77:fi=513;2:79:ff=bfd8000000000000;2:79:fi=0;2:49:fs=s027;2:81:fb=1,fi=2;2:82:fi=0;2:82:fb=0;0:99:fi=-2;0:100:ff=0000000000000000;1:0:fs=s012;2:83:fi=-978;2:84:fb=1;0:102:fi=-2;0:102:ff=4042b00000000000;1:1:fi=1;1:3:ff=3fd0000000000000;1:4:ff=bfe0000000000000;1:79:fi=-1,fs=s037;1:81:fi=0,fs=s002;1:83:ff=bfd0000000000000;1:85:fi=1;1:85:ff=bfd8000000000000;1:86:fi=-371;1:87:fi=-592;1:88:ff=3fd0000000000000;2:86:ff=3fd0000000000000;1:90:fb=0;2:86:ff=3fd0000000000000;2:87:fi=-3;1:91:ff=4045b00000000000;1:92:fi=3;0:103:fi=-1;0:51:fi=0;1:67:fi=1;3:0:fi=3;3:2:fi=-1;3:3:fi=2;3:4:fb=0;3:119:fs=s018;3:120:fs=s004;3:122:fi=-830;3:124:fi=-2
W 0:16:ff=3ffc000000000000;2:59:fi=-972;1:88:fi=-2
F
W 0:28:fb=0,fi=-2;0:112:ff=c033000000000000,fi=-1,fs=s002;0:72:ff=3fd8000000000000;0:114:fi=522,fs=s035;0:131:fb=1,ff=c037200000000000;0:129:fi=-2,fs=s031;0:122:fi=-3,fs=s031;0:15:fb=1,fi=2;3:113:fb=0,fi=-3;1:60:ff=bfe0000000000000,fi=1,fs=s006;0:67:fb=1,ff=c046a00000000000,fi=3;0:47:ff=4037600000000000;0:67:fb=0,fs=s005;3:142:ff=bfd8000000000000,fi=-3,fs=s026;3:79:ff=c048d00000000000;3:97:ff=c044600000000000,fi=-3;0:59:fb=1,ff=3ffa000000000000,fi=43,fs=s028;2:20:ff=3fd8000000000000;0:40:fb=0,fi=110,fs=s009;0:105:ff=bfd8000000000000,fi=-3;0:45:fb=1,ff=bfd8000000000000,fi=0;0:81:fb=0,fs=s011;0:37:fb=1,fi=3,fs=s013;0:88:fb=1,ff=0000000000000000,fi=-1;0:16:ff=c043500000000000,fi=1,fs=s028;2:27:fb=0,ff=c046a00000000000,fi=324;2:60:ff=4022000000000000,fi=-2;2:102:fb=1,ff=4033200000000000;3:48:ff=c030000000000000,fi=3;0:142:ff=bfd0000000000000,fi=-3;0:48:ff=3fe0000000000000,fs=s008;0:107:ff=3fd0000000000000,fi=1;0:60:fb=1,fi=3;0:121:fs=s011;0:110:ff=3fd8000000000000;0:7:fb=0,ff=bfd0000000000000,fi=-3,fs=s035;0:102:ff=bfd0000000000000;0:96:fi=-1;0:115:fb=0,fi=0;0:57:fb=1,ff=400d000000000000,fi=-706,fs=s011;0:70:ff=c02b400000000000;2:54:ff=bfe0000000000000,fi=0,fs=s038;2:48:ff=3fd8000000000000,fi=3;2:108:fb=0,fi=-2;2:112:ff=4045b00000000000,fi=-3;0:67:ff=bfc0000000000000;0:4:fb=1;3:19:ff=c027800000000000
W 2:113:fs=s034;2:106:fb=1,fi=-2,fs=s013;2:113:ff=3fd0000000000000,fi=-106;2:113:fb=0,ff=3fe0000000000000;2:113:fb=1,ff=bfe0000000000000,fi=470;2:115:ff=c048100000000000;3:27:fb=0,ff=bfc0000000000000,fi=851,fs=s013;3:143:fs=s027;3:84:ff=4045800000000000,fi=1,fs=s033;3:143:fi=0;3:38:ff=bfc0000000000000,fi=1;3:39:fb=0,ff=c034200000000000;3:143:fi=0;0:58:fb=0,ff=4038a00000000000,fi=0,fs=s030;0:60:fb=1,fi=-319;0:143:ff=3fd8000000000000,fi=3;1:94:ff=bfc0000000000000,fi=1
F
W 0:1:fi=-1;0:143:ff=bfd8000000000000,fs=s021;0:18:ff=3fc0000000000000,fi=2;0:31:fb=1,ff=bfd0000000000000,fi=-2;0:75:fb=1,ff=3fd8000000000000,fi=0;2:116:fi=-837;0:143:fb=1,ff=0000000000000000,fi=3;0:77:fb=1,fs=s005;0:97:ff=3fc0000000000000,fi=-3;0:143:fi=-112,fs=s032;0:87:fb=0,ff=3fc0000000000000,fi=0,fs=s028;2:118:fb=0,ff=bfd8000000000000,fi=793;2:119:fi=-275;0:143:fi=191,fs=s033;2:120:fb=0,fi=-1;2:122:fb=0,fi=1,fs=s018;2:124:ff=bfd0000000000000,fi=225,fs=s017;2:126:fb=0,ff=3fe0000000000000,fi=-1;2:127:fi=196;2:128:fi=578;2:129:fb=1,fi=584;2:130:fb=0,ff=bfc0000000000000,fi=-2,fs=s028;1:95:fb=0,fi=0,fs=s014;2:132:ff=bfd0000000000000,fi=-609,fs=s011;0:28:ff=402a800000000000,fi=-1,fs=s031;1:97:ff=c03cc00000000000,fi=1,fs=s036;1:99:fi=1;2:133:ff=bfe0000000000000,fi=2;2:135:ff=3fd0000000000000,fi=-3;2:136:fb=1,fi=3;2:136:fi=-552,fs=s019;3:97:ff=3fd8000000000000,fi=-3,fs=s031;0:107:ff=bfd8000000000000,fi=-3;3:98:fi=2;3:30:ff=3fd8000000000000,fs=s022;3:65:ff=bfc0000000000000;2:138:ff=4040d00000000000;2:91:fi=-1,fs=s011;2:139:fb=0,ff=3fc0000000000000,fi=-3;0:78:fb=1,ff=c022c00000000000,fi=-25;0:143:fb=1,fi=-780;0:75:fb=0,ff=bfc0000000000000,fi=0,fs=s029;0:93:fb=1,ff=bfd0000000000000,fi=3,fs=s027;0:60:ff=3fc0000000000000,fi=-443,fs=s012;0:35:fi=0,fs=s010;2:139:fb=1,ff=3fe0000000000000,fi=2;2:141:ff=0000000000000000,fs=s013;2:143:ff=3fe0000000000000,fi=10;2:95:ff=bfd8000000000000,fs=s037;2:25:ff=401c000000000000,fi=-2;1:101:ff=4040400000000000,fs=s017;1:102:fi=2;1:104:ff=0000000000000000,fi=-1;0:26:ff=3fd8000000000000,fi=3,fs=s019;1:40:fb=1,ff=bfd0000000000000;1:104:ff=3fd8000000000000
W 2:115:fb=0,ff=bfe0000000000000,fi=-2;2:4:ff=3fe0000000000000,fi=842;2:0:fb=1,ff=c000000000000000,fi=485;2:52:ff=3fd0000000000000,fi=3;2:42:fb=0,fi=1;2:131:ff=bfc0000000000000;2:2:fb=0,ff=c024000000000000
F
c 0
m true
c 1
Q agg min:fb 90 116 nohint host 0 - asc -
Q agg max:fb 90 116 nohint host 0 - desc -
Q agg min:fb 90 116 nohint - 0 - asc -
Q agg min:fb+count:fi 90 116 nohint - 0 - asc -
`,
}
