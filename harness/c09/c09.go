// Package c09: correspondence harness for C09 (aggregates served from stored statistics equal
// aggregates over the rows). Random histories (writes with nulls, late data, rewrites of
// already flushed keys, flush, level / full compaction, out-of-order merge) are run on a real
// shard (engine verif facade) with a small rows-per-segment limit so that a series has several
// segments per file. At check points the layout is read back chunk by chunk (segments, stored
// statistics) and aggregate queries are run through the single-node query path
// (executor.Select -> heuristic planner -> local store -> cursors -> transforms), next to the
// corresponding plain selects.
//
//	ops.txt  : layout (memtable rows, files, chunks, segments), stat / raw / agg ops
//	impl.out : stored statistics, rows returned by the plain select, aggregate answers
//	viol.out : aggregate answers that differ from the function applied to the rows the plain
//	           select returned (the property itself), computed here by brute force
package c09

import (
	"fmt"
	"math"
	"math/big"
	"os"
	"sort"
	"strconv"
	"strings"

	"github.com/openGemini/openGemini/engine"
	"github.com/openGemini/openGemini/engine/immutable"
	"github.com/openGemini/openGemini/lib/util/lifted/influx/influxql"

	"verif/harness/engx"
	"verif/harness/internal/hx"
)

func init() { hx.Register("C09", Run) }

const baseSec = int64(1700000000)

var cols = []string{"fb", "ff", "fi", "fs"} // = engx.FieldNames, the cell order of every row
var qlFields = map[string]influxql.DataType{"fb": influxql.Boolean, "ff": influxql.Float, "fi": influxql.Integer, "fs": influxql.String}
var tagKeys = []string{"host", "zone"}

// ---------------------------------------------------------------------------------------------
// values: every cell is carried as an int64 "code" plus its column:
//   fi: the integer; ff: numerator of value*8 (all generated floats are multiples of 1/8);
//   fb: 0/1; fs: k of the string "s%03d".

type cell struct {
	ok bool
	v  int64
}

func (c cell) String() string {
	if !c.ok {
		return "_"
	}
	return strconv.FormatInt(c.v, 10)
}

func codeToText(col string, v int64) string { // engx.Row cell text
	switch col {
	case "fi":
		return strconv.FormatInt(v, 10)
	case "ff":
		return fmt.Sprintf("%016x", math.Float64bits(float64(v)/8))
	case "fb":
		return strconv.FormatInt(v, 10)
	}
	return fmt.Sprintf("s%03d", v)
}

// valueToCode converts a value returned by the engine; ok=false if it is not representable
// (a float that is not a multiple of 1/8, an unexpected type).
func valueToCode(col string, x interface{}) (int64, bool) {
	switch col {
	case "fi":
		switch n := x.(type) {
		case int64:
			return n, true
		case float64: // some paths return integers as floats
			if n == math.Trunc(n) && math.Abs(n) < 1<<53 {
				return int64(n), true
			}
		}
	case "ff":
		switch f := x.(type) {
		case float64:
			k := f * 8
			if k == math.Trunc(k) && math.Abs(k) < 1<<53 {
				return int64(k), true
			}
		case int64:
			return f * 8, true
		}
	case "fb":
		if b, ok := x.(bool); ok {
			if b {
				return 1, true
			}
			return 0, true
		}
	case "fs":
		if s, ok := x.(string); ok && len(s) == 4 && s[0] == 's' {
			if k, err := strconv.Atoi(s[1:]); err == nil {
				return int64(k), true
			}
		}
	}
	return 0, false
}

type row struct {
	t  int
	cs [4]cell
}

func colIdx(col string) int {
	for i, c := range cols {
		if c == col {
			return i
		}
	}
	return -1
}

func rowText(s int, r row) string {
	return fmt.Sprintf("%d:%d:%s,%s,%s,%s", s, r.t, r.cs[0], r.cs[1], r.cs[2], r.cs[3])
}

// ---------------------------------------------------------------------------------------------
// history

type key struct{ s, t int }

type history struct {
	c       *hx.Ctx
	r       *hx.Rng
	sh      *engine.VerifShard
	idx     int
	nSeries int
	nTimes  int
	seg     int
	mem     map[key]*row // unflushed rows (field-wise last write wins)
	gen     map[key]int  // flush generation in which the key was last written
	xgen    bool         // some key was written in two flush generations
	genNo   int
	hiWater []int
	kinds   string
	script  []string // replayable history: W rows / F / c lv / C / m full
	sid     map[uint64]int
	method  int32 // compaction method of the history
	trend   bool  // most batches of the history write values that grow with time
}

func (h *history) genVal(col string) int64 {
	r := h.r
	switch col {
	case "fi":
		if r.Chance(70) {
			return int64(r.Intn(7)) - 3 // many ties
		}
		return int64(r.Intn(2001)) - 1000
	case "ff":
		if r.Chance(60) {
			return int64(r.Intn(9)) - 4
		}
		return int64(r.Intn(801)) - 400
	case "fb":
		return int64(r.Intn(2))
	}
	return int64(r.Intn(40))
}

func (h *history) writeBatch() {
	r := h.r
	n := 1 + r.Intn(3*h.seg)
	late := r.Chance(25)
	nullHeavy := r.Chance(30)
	// values that grow with time: the minimum of a chunk then sits at its first row and the
	// maximum at its last one, which is what the first()/last() statistics shortcut looks for
	trend := h.trend && r.Chance(70)
	var rows []engx.Row
	s0 := r.Intn(h.nSeries)
	for i := 0; i < n; i++ {
		s := s0
		if r.Chance(40) {
			s = r.Intn(h.nSeries)
			s0 = s
		}
		var t int
		switch {
		case late || r.Chance(10):
			t = r.Intn(h.nTimes)
		default:
			t = h.hiWater[s] + 1 + r.Intn(2)
			if r.Chance(15) {
				t = h.hiWater[s] // rewrite the newest key
			}
		}
		if t >= h.nTimes {
			t = r.Intn(h.nTimes)
		}
		if t < 0 {
			t = 0
		}
		er := engx.Row{Mst: "m", Series: s, T: t, Fields: map[string]string{}}
		for _, col := range cols {
			p := 70
			if nullHeavy {
				p = 25
			}
			if col == "fb" || col == "fs" {
				p /= 2
			}
			if r.Chance(p) {
				v := h.genVal(col)
				if trend && col == "fi" {
					v = int64(3*t - 100)
				} else if trend && col == "ff" {
					v = int64(2*t - 50)
				}
				er.Fields[col] = codeToText(col, v)
			}
		}
		if len(er.Fields) == 0 {
			ci := 1 + r.Intn(2)
			er.Fields[cols[ci]] = codeToText(cols[ci], h.genVal(cols[ci]))
		}
		rows = append(rows, er)
		if t > h.hiWater[s] {
			h.hiWater[s] = t
		}
	}
	h.applyRows(rows)
}

func (h *history) doFlush() {
	h.script = append(h.script, "F")
	hx.Safe(func() { h.sh.Flush() })
	h.mem = map[key]*row{}
	h.genNo++
	h.kinds += "f"
	h.c.Count("op:flush")
}
func (h *history) doCompact(lv uint16) {
	h.script = append(h.script, fmt.Sprintf("c %d", lv))
	hx.Safe(func() { _ = h.sh.LevelCompact(lv); h.sh.Quiesce() })
	h.kinds += "c"
	h.c.Count("op:level-compact")
}
func (h *history) doFullCompact() {
	h.script = append(h.script, "C")
	hx.Safe(func() { _ = h.sh.FullCompact(); h.sh.Quiesce() })
	h.kinds += "C"
	h.c.Count("op:full-compact")
}
func (h *history) doMerge(full bool) {
	h.script = append(h.script, fmt.Sprintf("m %v", full))
	hx.Safe(func() { _ = h.sh.MergeOutOfOrder(full, true); h.sh.Quiesce() })
	h.kinds += "m"
	h.c.Count("op:merge-ooo")
}

// applyRows writes a batch given as engx rows (replay) or generated rows.
func (h *history) applyRows(rows []engx.Row) {
	var texts []string
	for _, er := range rows {
		texts = append(texts, er.Text())
		var rw row
		rw.t = er.T
		for ci, col := range cols {
			if txt, ok := er.Fields[col]; ok {
				var v int64
				switch col {
				case "ff":
					b, _ := strconv.ParseUint(txt, 16, 64)
					v = int64(math.Float64frombits(b) * 8)
				case "fs":
					k, _ := strconv.Atoi(txt[1:])
					v = int64(k)
				default:
					v, _ = strconv.ParseInt(txt, 10, 64)
				}
				rw.cs[ci] = cell{true, v}
			}
		}
		k := key{er.Series, er.T}
		if g, ok := h.gen[k]; ok && g != h.genNo {
			h.xgen = true
		}
		h.gen[k] = h.genNo
		if m := h.mem[k]; m != nil {
			for ci := range cols {
				if rw.cs[ci].ok {
					m.cs[ci] = rw.cs[ci]
				}
			}
		} else {
			cp := rw
			h.mem[k] = &cp
		}
		if er.T > h.hiWater[er.Series] {
			h.hiWater[er.Series] = er.T
		}
	}
	h.script = append(h.script, "W "+strings.Join(texts, ";"))
	var werr error
	perr := hx.Safe(func() { werr = h.sh.Write(engx.ToInflux(rows)) })
	if perr != "" || werr != nil {
		line := h.c.Emit("note write-failed", "err")
		h.c.Violation(line, "", fmt.Sprintf("a valid write batch was rejected: %s %v (%s)", perr, werr, strings.Join(texts, ";")))
	}
	h.kinds += "w"
	h.c.Count("op:write")
}

func (h *history) step() {
	p := h.r.Intn(100)
	switch {
	case p < 58:
		h.writeBatch()
	case p < 80:
		h.doFlush()
	case p < 87:
		h.doCompact(uint16(h.r.Intn(2)))
	case p < 91:
		h.doFullCompact()
	default:
		h.doMerge(h.r.Bool())
	}
}

// ---------------------------------------------------------------------------------------------
// layout

type chunkInfo struct {
	s        int
	segs     [][]row
	min, max int
}
type fileInfo struct {
	order  bool
	seq    uint64
	chunks []chunkInfo
}
type layout struct {
	mem   map[int][]row // per series, time ascending
	files []fileInfo
	empty []emptyCol // columns that a chunk keeps although they hold no value in it
}

type emptyCol struct {
	ch  chunkInfo
	col string
}

func relSec(ns int64) (int, bool) {
	d := ns - engx.BaseTime
	return int(d / 1e9), d%1e9 == 0
}

func (h *history) emitLayout() (*layout, bool) {
	c := h.c
	lay := &layout{mem: map[int][]row{}}
	// no compaction or merge may change the files between this read-back and the queries
	h.sh.Quiesce()
	h.sh.FlushIndex()
	if h.sid == nil || len(h.sid) < h.nSeries {
		ids, err := h.sh.SeriesIDs("m", engine.VerifField{Name: "fi", Type: influxql.Integer})
		if err != nil {
			c.Emit("note series-ids", "err "+err.Error())
			return nil, false
		}
		h.sid = map[uint64]int{}
		for id, k := range ids {
			h.sid[id] = engx.SeriesIndex(k)
		}
	}
	// memtable
	var ks []key
	for k := range h.mem {
		ks = append(ks, k)
	}
	sort.Slice(ks, func(a, b int) bool {
		if ks[a].s != ks[b].s {
			return ks[a].s < ks[b].s
		}
		return ks[a].t < ks[b].t
	})
	var mt []string
	for _, k := range ks {
		lay.mem[k.s] = append(lay.mem[k.s], *h.mem[k])
		mt = append(mt, rowText(k.s, *h.mem[k]))
	}
	c.Emit("mem "+strings.Join(mt, ";"), "ok")
	var fl []engine.VerifFileLayout
	var err error
	perr := hx.Safe(func() { fl, err = h.sh.Layout("m") })
	if perr != "" || err != nil {
		line := c.Emit("note layout", fmt.Sprintf("err %s %v", perr, err))
		c.Violation(line, "", fmt.Sprintf("data files could not be read back: %s %v", perr, err))
		return nil, false
	}
	type statOp struct {
		op, ans string
		bad     string // the stored record is not the statistics of the chunk's rows
	}
	var stats []statOp
	for fi, f := range fl {
		kind := "ooo"
		if f.Order {
			kind = "ord"
		}
		c.Emit(fmt.Sprintf("file %s %d", kind, f.Seq), "ok")
		info := fileInfo{order: f.Order, seq: f.Seq}
		// chunks are stored by series id; ids are handed out in an order that is not fixed by the
		// history (index creation): emit them by series number
		chunks := append(f.Chunks[:0:0], f.Chunks...)
		sort.SliceStable(chunks, func(a, b int) bool { return h.sid[chunks[a].Sid] < h.sid[chunks[b].Sid] })
		for _, ch := range chunks {
			s, ok := h.sid[ch.Sid]
			if !ok {
				c.Emit("note unknown-sid", fmt.Sprintf("err sid %d", ch.Sid))
				return nil, false
			}
			ci := chunkInfo{s: s, min: math.MaxInt32, max: math.MinInt32}
			var segTexts []string
			bad := ""
			for si, seg := range ch.Segments {
				var rs []row
				var ts []string
				for _, vr := range seg {
					t, exact := relSec(vr.Time)
					if !exact {
						bad = "time not on a second"
					}
					rw := row{t: t}
					for k, f := range ch.Columns {
						x := colIdx(f.Name)
						if x < 0 || vr.Vals[k] == nil {
							continue
						}
						v, ok := valueToCode(f.Name, vr.Vals[k])
						if !ok {
							bad = fmt.Sprintf("value %v of %s not representable", vr.Vals[k], f.Name)
						}
						rw.cs[x] = cell{true, v}
					}
					rs = append(rs, rw)
					ts = append(ts, fmt.Sprintf("%d:%s,%s,%s,%s", rw.t, rw.cs[0], rw.cs[1], rw.cs[2], rw.cs[3]))
					if t < ci.min {
						ci.min = t
					}
					if t > ci.max {
						ci.max = t
					}
				}
				// the segment range recorded in the chunk meta must be the range of its rows
				if len(rs) > 0 {
					lo, _ := relSec(ch.SegRanges[si][0])
					hi, _ := relSec(ch.SegRanges[si][1])
					if lo != rs[0].t || hi != rs[len(rs)-1].t {
						bad = fmt.Sprintf("segment %d range [%d,%d] but rows span [%d,%d]", si, lo, hi, rs[0].t, rs[len(rs)-1].t)
					}
				} else {
					bad = "empty segment"
				}
				ci.segs = append(ci.segs, rs)
				segTexts = append(segTexts, strings.Join(ts, ";"))
			}
			ans := "ok"
			if bad != "" {
				ans = "err " + bad
			}
			line := c.Emit(fmt.Sprintf("chunk %d %s", s, strings.Join(segTexts, "|")), ans)
			if bad != "" {
				c.Violation(line, "", "chunk meta inconsistent with data: "+bad)
			}
			info.chunks = append(info.chunks, ci)
			// stored statistics
			for _, st := range ch.Stats {
				if st.Name == "time" {
					stats = append(stats, statOp{fmt.Sprintf("stat %d %d time", fi, s), fmt.Sprintf("st %d", st.Count), checkStored("time", fmt.Sprintf("st %d", st.Count), ci.segs)})
					continue
				}
				a := fmt.Sprintf("st %d", st.Count)
				if st.Name == "fb" {
					// boolean columns keep count, min, max with their times (no sum)
					if st.Count == 0 {
						a += " - - - -"
					} else {
						mn, ok2 := valueToCode(st.Name, st.Min)
						mx, ok3 := valueToCode(st.Name, st.Max)
						mnT, _ := relSec(st.MinT)
						mxT, _ := relSec(st.MaxT)
						if !(ok2 && ok3) {
							a += fmt.Sprintf(" !unrepresentable %v %v", st.Min, st.Max)
						} else {
							a += fmt.Sprintf(" %d %d %d %d", mn, mnT, mx, mxT)
						}
					}
				}
				if st.Name == "fi" || st.Name == "ff" {
					if st.Count == 0 {
						a += " - - - - -"
					} else {
						sum, ok1 := valueToCode(st.Name, st.Sum)
						mn, ok2 := valueToCode(st.Name, st.Min)
						mx, ok3 := valueToCode(st.Name, st.Max)
						mnT, _ := relSec(st.MinT)
						mxT, _ := relSec(st.MaxT)
						if !(ok1 && ok2 && ok3) {
							a += fmt.Sprintf(" !unrepresentable %v %v %v", st.Sum, st.Min, st.Max)
						} else {
							a += fmt.Sprintf(" %d %d %d %d %d", sum, mn, mnT, mx, mxT)
						}
					}
				}
				stats = append(stats, statOp{fmt.Sprintf("stat %d %d %s", fi, s, st.Name), a, checkStored(st.Name, a, ci.segs)})
				if st.Count == 0 && colIdx(st.Name) >= 0 {
					lay.empty = append(lay.empty, emptyCol{ci, st.Name})
				}
			}
		}
		lay.files = append(lay.files, info)
	}
	c.Emit("endlayout", "ok")
	for _, s := range stats {
		line := c.Emit(s.op, s.ans)
		if s.bad != "" {
			c.Violation(line, "stored-statistics-differ-from-rows", fmt.Sprintf("history %d (%s) seg=%d method=%d: %s -> %s; %s; REPLAY (ogh C09 -replay <file with these lines>): H %d %d %d %d | %s | S",
				h.idx, h.kinds, h.seg, h.method, s.op, s.ans, s.bad, h.seg, h.nSeries, h.nTimes, h.method, strings.Join(h.script, " | ")))
		}
	}
	return lay, true
}

// checkStored compares the canonical text of a stored statistics record with the statistics
// of the rows of the chunk: count, sum, extreme values; the time stored next to an extreme value
// must be a time at which the column has that value (which one is left open).
func checkStored(col, ans string, segs [][]row) string {
	f := strings.Fields(ans)
	if len(f) < 2 || f[0] != "st" {
		return "unreadable record"
	}
	var pts []pt
	n := 0
	for _, seg := range segs {
		for _, r := range seg {
			n++
			if x := colIdx(col); x >= 0 && r.cs[x].ok {
				pts = append(pts, pt{r.t, r.cs[x].v})
			}
		}
	}
	cnt, _ := strconv.Atoi(f[1])
	if col == "time" {
		if cnt != n {
			return fmt.Sprintf("stored row count %d, the chunk has %d rows", cnt, n)
		}
		return ""
	}
	if cnt != len(pts) {
		return fmt.Sprintf("stored count %d, the rows hold %d values", cnt, len(pts))
	}
	if len(pts) == 0 || len(f) == 2 {
		return ""
	}
	rest := f[2:]
	if col == "fi" || col == "ff" {
		var sum int64
		for _, p := range pts {
			sum += p.v
		}
		if rest[0] != strconv.FormatInt(sum, 10) {
			return fmt.Sprintf("stored sum %s, the rows sum to %d", rest[0], sum)
		}
		rest = rest[1:]
	}
	if len(rest) != 4 {
		return "unreadable record"
	}
	mn, mx := pts[0].v, pts[0].v
	for _, p := range pts {
		if p.v < mn {
			mn = p.v
		}
		if p.v > mx {
			mx = p.v
		}
	}
	at := func(v int64, t string) bool {
		for _, p := range pts {
			if p.v == v && strconv.Itoa(p.t) == t {
				return true
			}
		}
		return false
	}
	if rest[0] != strconv.FormatInt(mn, 10) || !at(mn, rest[1]) {
		return fmt.Sprintf("stored min %s at %s, the rows have min %d (not at that time)", rest[0], rest[1], mn)
	}
	if rest[2] != strconv.FormatInt(mx, 10) || !at(mx, rest[3]) {
		return fmt.Sprintf("stored max %s at %s, the rows have max %d (not at that time)", rest[2], rest[3], mx)
	}
	return ""
}

// ---------------------------------------------------------------------------------------------
// queries

type call struct{ f, col string }

type aggQuery struct {
	aux      []string // auxiliary columns next to a lone selector (op "auxq": spec side only)
	calls    []call
	lo, hi   int
	hint     bool
	grp      string // "-", "host", "zone"
	interval int    // 0 = none
	fill     string // "none" | "null" (only with interval)
	asc      bool
	fcol     string // filter column or ""
	fop      string // ">" | "<="
	fconst   int64
}

func (q aggQuery) filterText() string {
	if q.fcol == "" {
		return "-"
	}
	return fmt.Sprintf("%s%s%d", q.fcol, q.fop, q.fconst)
}

func (q aggQuery) opText() string {
	var cs []string
	for _, c := range q.calls {
		cs = append(cs, c.f+":"+c.col)
	}
	head := "agg"
	if len(q.aux) > 0 {
		head = "auxq"
		cs[0] += "/" + strings.Join(q.aux, "/")
	}
	hint, dir, fill := "nohint", "asc", q.fill
	if q.hint {
		hint = "exact"
	}
	if !q.asc {
		dir = "desc"
	}
	if q.interval == 0 {
		fill = "-"
	}
	return fmt.Sprintf("%s %s %d %d %s %s %d %s %s %s", head, strings.Join(cs, "+"), q.lo, q.hi, hint, q.grp, q.interval, fill, dir, q.filterText())
}

func filterSQL(col, op string, k int64) string {
	if col == "ff" {
		return fmt.Sprintf("%s %s %s", col, op, strconv.FormatFloat(float64(k)/8, 'f', -1, 64))
	}
	return fmt.Sprintf("%s %s %d", col, op, k)
}

func timeCond(lo, hi int) string {
	return fmt.Sprintf("time >= %d and time <= %d", engx.TimeOf(lo), engx.TimeOf(hi))
}

func (q aggQuery) sql() string {
	var sel []string
	for _, c := range q.calls {
		sel = append(sel, fmt.Sprintf("%s(%s)", c.f, c.col))
	}
	s := "select "
	if q.hint {
		s += "/*+ Exact_Statistic_Query */ "
	}
	sel = append(sel, q.aux...)
	s += strings.Join(sel, ", ") + " from m where " + timeCond(q.lo, q.hi)
	if q.fcol != "" {
		s += " and " + filterSQL(q.fcol, q.fop, q.fconst)
	}
	var gb []string
	if q.grp != "-" {
		gb = append(gb, q.grp)
	}
	if q.interval > 0 {
		gb = append(gb, fmt.Sprintf("time(%ds)", q.interval))
	}
	if len(gb) > 0 {
		s += " group by " + strings.Join(gb, ", ")
	}
	if q.interval > 0 {
		s += " fill(" + q.fill + ")"
	}
	if !q.asc {
		s += " order by time desc"
	}
	return s
}

func isSelector(f string) bool { return f == "min" || f == "max" || f == "first" || f == "last" }

// eligible mirrors the shape of matchPreAgg on the harness side (only for classification of
// the excluded case; the Lean side uses the regenerated predicate).
func (q aggQuery) eligible() bool { return q.interval == 0 && q.fcol == "" && !q.hint }

func groupOf(grp string, s int) string {
	switch grp {
	case "host":
		return fmt.Sprintf("h%d", s)
	case "zone":
		return fmt.Sprintf("z%d", s%2)
	}
	return "-"
}

func window(t int, w int) int { // bucket start (relative seconds) of relative second t
	abs := baseSec + int64(t)
	st := abs - ((abs%int64(w))+int64(w))%int64(w)
	return int(st - baseSec)
}

// ratText prints num/den reduced ("n/d", d > 0).
func ratText(num, den int64) string {
	r := big.NewRat(num, den)
	return r.Num().String() + "/" + r.Denom().String()
}

// meanCode recovers the exact fraction (in units of the column's code) behind a float64 mean:
// the best rational approximation with a denominator <= maxDen, accepted only if dividing it
// out in float64 gives the same bits.
func meanCode(col string, x interface{}, maxDen int64) string {
	f, ok := x.(float64)
	if !ok {
		if n, ok2 := x.(int64); ok2 {
			f = float64(n)
		} else {
			return fmt.Sprintf("!type %T", x)
		}
	}
	scale := int64(1)
	if col == "ff" {
		scale = 8
	}
	r := new(big.Rat)
	if r.SetFloat64(f) == nil {
		return "!nonfinite"
	}
	best := limitDen(r, maxDen*scale)
	num, den := best.Num().Int64(), best.Denom().Int64()
	if float64(num)/float64(den) != f {
		return fmt.Sprintf("!bits %016x", math.Float64bits(f))
	}
	// in code units: value*scale
	return ratText(num*scale, den)
}

// limitDen is Python's Fraction.limit_denominator.
func limitDen(r *big.Rat, maxDen int64) *big.Rat {
	if r.Denom().Cmp(big.NewInt(maxDen)) <= 0 {
		return r
	}
	p0, q0, p1, q1 := big.NewInt(0), big.NewInt(1), big.NewInt(1), big.NewInt(0)
	n, d := new(big.Int).Set(r.Num()), new(big.Int).Set(r.Denom())
	md := big.NewInt(maxDen)
	for {
		a := new(big.Int)
		m := new(big.Int)
		a.DivMod(n, d, m) // floor division (d > 0)
		q2 := new(big.Int).Add(q0, new(big.Int).Mul(a, q1))
		if q2.Cmp(md) > 0 {
			break
		}
		p2 := new(big.Int).Add(p0, new(big.Int).Mul(a, p1))
		p0, q0, p1, q1 = p1, q1, p2, q2
		n, d = d, m
		if d.Sign() == 0 {
			break
		}
	}
	k := new(big.Int).Div(new(big.Int).Sub(md, q0), q1)
	b1 := new(big.Rat).SetFrac(new(big.Int).Add(p0, new(big.Int).Mul(k, p1)), new(big.Int).Add(q0, new(big.Int).Mul(k, q1)))
	b2 := new(big.Rat).SetFrac(p1, q1)
	d1 := new(big.Rat).Sub(b1, r)
	d2 := new(big.Rat).Sub(b2, r)
	if d2.Abs(d2).Cmp(d1.Abs(d1)) <= 0 {
		return b2
	}
	return b1
}

// canonical aggregate answer:
//
//	ans <group>{<bucket>=<v>,<v>[@t];…} …      groups sorted, buckets ascending by time
type aggCell struct {
	text string
	null bool
}
type aggRow struct {
	aux    []cell
	bucket string
	bt     int
	vals   []aggCell
	at     string // "@t" for a lone selector without interval
}

func renderAgg(groups map[string][]aggRow, flags string) string {
	var gs []string
	for g := range groups {
		gs = append(gs, g)
	}
	sort.Strings(gs)
	var out []string
	for _, g := range gs {
		rows := groups[g]
		sort.SliceStable(rows, func(a, b int) bool { return rows[a].bt < rows[b].bt })
		var rs []string
		for _, r := range rows {
			var vs []string
			for _, v := range r.vals {
				vs = append(vs, v.text)
			}
			rs = append(rs, r.bucket+"="+strings.Join(vs, ",")+r.at)
		}
		out = append(out, g+"{"+strings.Join(rs, ";")+"}")
	}
	s := "ans"
	if len(out) > 0 {
		s += " " + strings.Join(out, " ")
	}
	return s + flags
}

// runAgg runs the query; twice = some series holds a timestamp of the range in two containers
// (the excluded case of an un-hinted eligible query: the time of a lone min/max is then not
// compared, the statistics path sees rows the plain select does not show).
func (h *history) runAgg(q aggQuery, raw map[int][]row, lay *layout) (string, map[string][]aggRow) {
	twice := keyTwiceIn(lay, q.lo, q.hi)
	var res []engine.VerifSeries
	var err error
	perr := hx.Safe(func() { res, err = h.sh.Query(q.sql(), qlFields, tagKeys, 0) })
	if perr != "" {
		return "err " + perr, nil
	}
	if err != nil {
		return "err " + strings.SplitN(err.Error(), "\n", 2)[0], nil
	}
	groups := map[string][]aggRow{}
	flags := ""
	lone := len(q.calls) == 1 && isSelector(q.calls[0].f) && q.interval == 0
	for _, s := range res {
		g := "-"
		if q.grp != "-" {
			g = s.Tags[q.grp]
		}
		if _, dup := groups[g]; dup {
			flags += " !group-twice"
		}
		if len(s.Columns) != len(q.calls)+1+len(q.aux) {
			flags += " !columns"
			continue
		}
		prev := int64(0)
		for ri, vals := range s.Values {
			tm, _ := vals[0].(interface{ UnixNano() int64 })
			var ns int64
			if tm != nil {
				ns = tm.UnixNano()
			}
			if ri > 0 && ((q.asc && ns < prev) || (!q.asc && ns > prev)) {
				flags += " !order"
			}
			prev = ns
			ar := aggRow{bucket: "-"}
			if q.interval > 0 {
				t, exact := relSec(ns)
				if !exact {
					flags += " !bucket-time"
				}
				ar.bucket, ar.bt = strconv.Itoa(t), t
			} else if lone {
				t, exact := relSec(ns)
				if !exact {
					flags += " !point-time"
				}
				ar.at = "@" + strconv.Itoa(t)
			}
			for ci, cl := range q.calls {
				x := vals[ci+1]
				switch {
				case x == nil && cl.f == "count" && q.interval > 0 && q.fill == "null":
					// fill(null) turns an empty count into 0 except in some edge rows of a
					// group (FillTransform): null and 0 are not distinguished here
					ar.vals = append(ar.vals, aggCell{"0", true})
				case x == nil:
					ar.vals = append(ar.vals, aggCell{"_", true})
				case cl.f == "count":
					n, ok := x.(int64)
					if !ok {
						ar.vals = append(ar.vals, aggCell{fmt.Sprintf("!type %T", x), false})
					} else {
						ar.vals = append(ar.vals, aggCell{strconv.FormatInt(n, 10), false})
					}
				case cl.f == "mean":
					ar.vals = append(ar.vals, aggCell{meanCode(cl.col, x, int64(h.nSeries*h.nTimes*4+8)), false})
				default:
					v, ok := valueToCode(cl.col, x)
					if !ok {
						ar.vals = append(ar.vals, aggCell{fmt.Sprintf("!value %v", x), false})
					} else {
						ar.vals = append(ar.vals, aggCell{strconv.FormatInt(v, 10), false})
					}
				}
			}
			for ai, col := range q.aux {
				x := vals[len(q.calls)+1+ai]
				if x == nil {
					ar.aux = append(ar.aux, cell{})
				} else if v, ok := valueToCode(col, x); ok {
					ar.aux = append(ar.aux, cell{true, v})
				} else {
					flags += " !aux-value"
					ar.aux = append(ar.aux, cell{})
				}
			}
			groups[g] = append(groups[g], ar)
		}
	}
	// the spec is checked on the answer as it came; ties are canonicalised for the model diff
	orig := map[string][]aggRow{}
	for g, rows := range groups {
		cp := make([]aggRow, len(rows))
		for i, r := range rows {
			cp[i] = r
			cp[i].vals = append([]aggCell(nil), r.vals...)
		}
		orig[g] = cp
	}
	if raw != nil {
		canonTies(q, groups, raw)
	}
	if twice && q.eligible() {
		staleTies(q, groups, lay)
	}
	if lone && twice && q.eligible() && (q.calls[0].f == "min" || q.calls[0].f == "max") {
		for _, rows := range groups {
			for ri := range rows {
				if rows[ri].at != "" {
					rows[ri].at = "@~"
				}
			}
		}
	}
	return renderAgg(groups, flags), orig
}

// rawRows runs the plain select that corresponds to (lo,hi,filter): every field, per series.
func (h *history) rawRows(lo, hi int, fcol, fop string, fconst int64) (string, map[int][]row) {
	sql := "select fb, ff, fi, fs from m where " + timeCond(lo, hi)
	if fcol != "" {
		sql += " and " + filterSQL(fcol, fop, fconst)
	}
	sql += " group by host"
	var res []engine.VerifSeries
	var err error
	perr := hx.Safe(func() { res, err = h.sh.Query(sql, qlFields, tagKeys, 0) })
	if perr != "" {
		return "err " + perr, nil
	}
	if err != nil {
		return "err " + strings.SplitN(err.Error(), "\n", 2)[0], nil
	}
	out := map[int][]row{}
	flags := ""
	for _, s := range res {
		si, e := strconv.Atoi(strings.TrimPrefix(s.Tags["host"], "h"))
		if e != nil {
			flags += " !series"
			continue
		}
		idx := map[string]int{}
		for i, c := range s.Columns {
			idx[c] = i
		}
		for _, vals := range s.Values {
			tm, _ := vals[0].(interface{ UnixNano() int64 })
			var ns int64
			if tm != nil {
				ns = tm.UnixNano()
			}
			t, exact := relSec(ns)
			if !exact {
				flags += " !time"
			}
			rw := row{t: t}
			for ci, col := range cols {
				i, ok := idx[col]
				if !ok || vals[i] == nil {
					continue
				}
				v, ok := valueToCode(col, vals[i])
				if !ok {
					flags += " !value"
					continue
				}
				rw.cs[ci] = cell{true, v}
			}
			out[si] = append(out[si], rw)
		}
	}
	var ss []int
	for s := range out {
		ss = append(ss, s)
	}
	sort.Ints(ss)
	var cells []string
	for _, s := range ss {
		rs := out[s]
		if !sort.SliceIsSorted(rs, func(a, b int) bool { return rs[a].t < rs[b].t }) {
			flags += " !unsorted"
		}
		for _, r := range rs {
			cells = append(cells, rowText(s, r))
		}
	}
	return "rows " + strings.Join(cells, "|") + flags, out
}

// ---------------------------------------------------------------------------------------------
// spec: the function applied to the rows of the plain select

type specCell struct {
	null  bool
	texts map[string]bool // acceptable canonical texts (ties at the extreme time give several)
	times map[int]bool    // acceptable point times of a lone selector
}

func passFilter(r row, fcol, fop string, k int64) bool {
	if fcol == "" {
		return true
	}
	c := r.cs[colIdx(fcol)]
	if !c.ok {
		return false
	}
	if fop == ">" {
		return c.v > k
	}
	return c.v <= k
}

type pt struct {
	t int
	v int64
}

func applyFn(f, col string, pts []pt) specCell {
	sc := specCell{texts: map[string]bool{}, times: map[int]bool{}}
	if len(pts) == 0 {
		sc.null = true
		if f == "count" {
			sc.texts["0"] = true // count over nothing may also be reported as 0
		}
		return sc
	}
	switch f {
	case "count":
		sc.texts[strconv.Itoa(len(pts))] = true
	case "sum":
		var s int64
		for _, p := range pts {
			s += p.v
		}
		sc.texts[strconv.FormatInt(s, 10)] = true
	case "mean":
		var s int64
		for _, p := range pts {
			s += p.v
		}
		sc.texts[ratText(s, int64(len(pts)))] = true
	case "min", "max":
		best := pts[0].v
		for _, p := range pts {
			if (f == "min" && p.v < best) || (f == "max" && p.v > best) {
				best = p.v
			}
		}
		sc.texts[strconv.FormatInt(best, 10)] = true
		for _, p := range pts {
			if p.v == best {
				sc.times[p.t] = true
			}
		}
	case "first", "last":
		bt := pts[0].t
		for _, p := range pts {
			if (f == "first" && p.t < bt) || (f == "last" && p.t > bt) {
				bt = p.t
			}
		}
		for _, p := range pts {
			if p.t == bt {
				sc.texts[strconv.FormatInt(p.v, 10)] = true
			}
		}
		sc.times[bt] = true
	}
	return sc
}

// groupPoints collects, per (group, bucket) and call, the points (time, value) of the rows of
// the plain select that the call ranges over.
type gbKey struct {
	g string
	b int
}

func groupPoints(q aggQuery, raw map[int][]row) map[gbKey][][]pt {
	pts := map[gbKey][][]pt{}
	for s, rs := range raw {
		g := groupOf(q.grp, s)
		for _, r := range rs {
			if r.t < q.lo || r.t > q.hi || !passFilter(r, q.fcol, q.fop, q.fconst) {
				continue
			}
			b := 0
			if q.interval > 0 {
				b = window(r.t, q.interval)
			}
			k := gbKey{g, b}
			if pts[k] == nil {
				pts[k] = make([][]pt, len(q.calls))
			}
			for ci, cl := range q.calls {
				c := r.cs[colIdx(cl.col)]
				if c.ok {
					pts[k][ci] = append(pts[k][ci], pt{r.t, c.v})
				}
			}
		}
	}
	return pts
}

// canonTies replaces what InfluxQL leaves open by a marker, on the basis of the rows of the
// plain select: the value of first/last when several rows of the group share the extreme time
// with different values ("~"), and the point time of a lone min/max when the extreme value
// occurs at several times ("@~"). The Lean driver applies the same rule to its own rows.
func canonTies(q aggQuery, groups map[string][]aggRow, raw map[int][]row) {
	pts := groupPoints(q, raw)
	for g, rows := range groups {
		for ri := range rows {
			r := &rows[ri]
			exp := pts[gbKey{g, r.bt}]
			if exp == nil || len(r.vals) != len(q.calls) {
				continue
			}
			for ci, cl := range q.calls {
				ps := exp[ci]
				if len(ps) == 0 || r.vals[ci].null {
					continue
				}
				switch cl.f {
				case "first", "last":
					bt := ps[0].t
					for _, p := range ps {
						if (cl.f == "first" && p.t < bt) || (cl.f == "last" && p.t > bt) {
							bt = p.t
						}
					}
					vals := map[int64]bool{}
					for _, p := range ps {
						if p.t == bt {
							vals[p.v] = true
						}
					}
					if len(vals) > 1 {
						r.vals[ci].text = "~"
					}
				case "min", "max":
					if r.at == "" {
						continue
					}
					best := ps[0].v
					for _, p := range ps {
						if (cl.f == "min" && p.v < best) || (cl.f == "max" && p.v > best) {
							best = p.v
						}
					}
					times := map[int]bool{}
					for _, p := range ps {
						if p.v == best {
							times[p.t] = true
						}
					}
					if len(times) > 1 {
						r.at = "@~"
					}
				}
			}
		}
	}
}

// staleTies: in the excluded case (un-hinted, a key of the range in two containers) the statistics
// path also sees the rows the plain select does not show. When the rows of all containers of the
// group hold several values at the extreme time, which one first/last reports depends on where
// the records are merged (the store keeps the larger value, the executor keeps false among
// booleans): left open, as for ties among the rows of the plain select.
func staleTies(q aggQuery, groups map[string][]aggRow, lay *layout) {
	for g, rows := range groups {
		for ri := range rows {
			r := &rows[ri]
			if len(r.vals) != len(q.calls) {
				continue
			}
			for ci, cl := range q.calls {
				if (cl.f != "first" && cl.f != "last") || r.vals[ci].null {
					continue
				}
				x := colIdx(cl.col)
				var ps []pt
				add := func(s int, rw row) {
					if groupOf(q.grp, s) == g && rw.t >= q.lo && rw.t <= q.hi && rw.cs[x].ok {
						ps = append(ps, pt{rw.t, rw.cs[x].v})
					}
				}
				for s, rs := range lay.mem {
					for _, rw := range rs {
						add(s, rw)
					}
				}
				for _, f := range lay.files {
					for _, ch := range f.chunks {
						for _, seg := range ch.segs {
							for _, rw := range seg {
								add(ch.s, rw)
							}
						}
					}
				}
				if len(ps) == 0 {
					continue
				}
				bt := ps[0].t
				for _, p := range ps {
					if (cl.f == "first" && p.t < bt) || (cl.f == "last" && p.t > bt) {
						bt = p.t
					}
				}
				vals := map[int64]bool{}
				for _, p := range ps {
					if p.t == bt {
						vals[p.v] = true
					}
				}
				if len(vals) > 1 {
					r.vals[ci].text = "~"
				}
			}
		}
	}
}

// checkSpec compares the aggregate answer with the function applied to raw (per series rows
// already restricted to range and filter by the plain select).
func (h *history) checkSpec(q aggQuery, got map[string][]aggRow, raw map[int][]row) string {
	// group rows
	type gb struct {
		g string
		b int
	}
	pts := map[gb][][]pt{}
	groupsWithRows := map[string]bool{}
	for s, rs := range raw {
		g := groupOf(q.grp, s)
		for _, r := range rs {
			if r.t < q.lo || r.t > q.hi || !passFilter(r, q.fcol, q.fop, q.fconst) {
				continue
			}
			b := 0
			if q.interval > 0 {
				b = window(r.t, q.interval)
			}
			k := gb{g, b}
			if pts[k] == nil {
				pts[k] = make([][]pt, len(q.calls))
			}
			any := false
			for ci, cl := range q.calls {
				c := r.cs[colIdx(cl.col)]
				if c.ok {
					pts[k][ci] = append(pts[k][ci], pt{r.t, c.v})
					any = true
				}
			}
			if any {
				groupsWithRows[g] = true
			}
		}
	}
	// every returned row must match; every expected non-empty cell must be returned
	seen := map[gb]bool{}
	for g, rows := range got {
		for _, r := range rows {
			k := gb{g, r.bt}
			if seen[k] {
				return fmt.Sprintf("group %s bucket %s returned twice", g, r.bucket)
			}
			seen[k] = true
			exp := pts[k]
			if exp == nil {
				exp = make([][]pt, len(q.calls))
			}
			if len(r.vals) != len(q.calls) {
				return "wrong number of columns"
			}
			for ci, cl := range q.calls {
				sc := applyFn(cl.f, cl.col, exp[ci])
				v := r.vals[ci]
				if v.null {
					if !sc.null {
						return fmt.Sprintf("group %s bucket %s: %s(%s) is null, rows give %v", g, r.bucket, cl.f, cl.col, keys(sc.texts))
					}
					continue
				}
				if !sc.texts[v.text] {
					return fmt.Sprintf("group %s bucket %s: %s(%s) = %s, rows give %v", g, r.bucket, cl.f, cl.col, v.text, keys(sc.texts))
				}
				if r.at != "" && len(sc.times) > 0 {
					t, _ := strconv.Atoi(r.at[1:])
					if !sc.times[t] {
						return fmt.Sprintf("group %s: %s(%s) reported at time %d, rows have it at %v", g, cl.f, cl.col, t, sc.times)
					}
				}
			}
		}
	}
	if len(q.aux) > 0 {
		// the auxiliary columns must be those of a row of the group that holds the selected point
		cl := q.calls[0]
		for g, rows := range got {
			for _, r := range rows {
				if r.at == "" || r.at == "@~" || len(r.vals) == 0 || r.vals[0].null {
					continue
				}
				t, _ := strconv.Atoi(r.at[1:])
				ok, n := false, 0
				var cands []string
				for s, rs := range raw {
					if groupOf(q.grp, s) != g {
						continue
					}
					for _, rw := range rs {
						c := rw.cs[colIdx(cl.col)]
						if rw.t != t || !c.ok || strconv.FormatInt(c.v, 10) != r.vals[0].text {
							continue
						}
						n++
						match := true
						var ct []string
						for ai, col := range q.aux {
							a := rw.cs[colIdx(col)]
							ct = append(ct, a.String())
							if a != r.aux[ai] {
								match = false
							}
						}
						cands = append(cands, strings.Join(ct, ","))
						if match {
							ok = true
						}
					}
				}
				if n > 0 && !ok {
					var at []string
					for _, a := range r.aux {
						at = append(at, a.String())
					}
					return fmt.Sprintf("group %s: %s(%s) at time %d carries auxiliary values %s, the row(s) there have %v", g, cl.f, cl.col, t, strings.Join(at, ","), cands)
				}
			}
		}
	}
	for k, exp := range pts {
		if seen[k] {
			continue
		}
		for ci := range q.calls {
			if len(exp[ci]) > 0 {
				return fmt.Sprintf("group %s bucket %d has rows for %s(%s) but no result row", k.g, k.b, q.calls[ci].f, q.calls[ci].col)
			}
		}
	}
	return ""
}

func keys(m map[string]bool) []string {
	var ks []string
	for k := range m {
		ks = append(ks, k)
	}
	sort.Strings(ks)
	return ks
}

// ---------------------------------------------------------------------------------------------
// query generation

func (h *history) boundaries(lay *layout) []int {
	set := map[int]bool{0: true, h.nTimes - 1: true, -3: true, h.nTimes + 3: true}
	for _, f := range lay.files {
		for _, ch := range f.chunks {
			for _, seg := range ch.segs {
				if len(seg) == 0 {
					continue
				}
				a, b := seg[0].t, seg[len(seg)-1].t
				for _, x := range []int{a - 1, a, a + 1, b - 1, b, b + 1, (a + b) / 2} {
					set[x] = true
				}
			}
		}
	}
	for _, rs := range lay.mem {
		if len(rs) > 0 {
			set[rs[0].t] = true
			set[rs[len(rs)-1].t] = true
		}
	}
	var out []int
	for x := range set {
		out = append(out, x)
	}
	sort.Ints(out)
	return out
}

var fnCols = map[string][]string{
	"count": {"fi", "ff", "fb", "fs"},
	"sum":   {"fi", "ff"},
	"mean":  {"fi", "ff"},
	"min":   {"fi", "ff", "fb"},
	"max":   {"fi", "ff", "fb"},
	"first": {"fi", "ff", "fb", "fs"},
	"last":  {"fi", "ff", "fb", "fs"},
}
var fns = []string{"count", "sum", "mean", "min", "max", "first", "last"}

func (h *history) genQuery(bs []int) aggQuery {
	r := h.r
	var q aggQuery
	nc := 1
	if r.Chance(25) {
		nc = 2 + r.Intn(2)
	}
	for i := 0; i < nc; i++ {
		f := fns[r.Intn(len(fns))]
		cs := fnCols[f]
		col := cs[r.Intn(len(cs))]
		if r.Chance(70) { // numeric columns carry the statistics
			col = []string{"fi", "ff"}[r.Intn(2)]
		}
		dup := false
		for _, c := range q.calls {
			if c.f == f && c.col == col {
				dup = true
			}
		}
		if !dup {
			q.calls = append(q.calls, call{f, col})
		}
	}
	mix := r.Chance(12)
	if mix {
		// several calls on different columns, first / last among them: every column keeps its own
		// statistics while the record keeps the rows of all of them
		q.calls = nil
		fl := []string{"first", "last"}[r.Intn(2)]
		c1 := cols[r.Intn(4)]
		q.calls = append(q.calls, call{fl, c1})
		for len(q.calls) < 2+r.Intn(2) {
			f := []string{"count", "sum", "min", "max", "first", "last"}[r.Intn(6)]
			cs := fnCols[f]
			c2 := cs[r.Intn(len(cs))]
			dup := false
			for _, c := range q.calls {
				if c.f == f && c.col == c2 {
					dup = true
				}
			}
			if !dup {
				q.calls = append(q.calls, call{f, c2})
			}
		}
		if r.Bool() {
			q.calls[0], q.calls[1] = q.calls[1], q.calls[0]
		}
	}
	switch {
	case r.Chance(20) || (mix && r.Chance(50)):
		q.lo, q.hi = -5, h.nTimes+5
	default:
		a, b := bs[r.Intn(len(bs))], bs[r.Intn(len(bs))]
		if a > b {
			a, b = b, a
		}
		q.lo, q.hi = a, b
	}
	q.hint = r.Chance(35)
	q.grp = []string{"-", "-", "host", "zone"}[r.Intn(4)]
	if r.Chance(30) {
		q.interval = []int{3, 4, 5, 8, 16, 60}[r.Intn(6)]
		q.fill = "none"
		if r.Chance(30) {
			q.fill = "null"
		}
	}
	q.asc = !r.Chance(30)
	if !mix && r.Chance(10) {
		// a lone selector with auxiliary columns (checked against the rows only); mostly through
		// the statistics path, half of them descending, often over the whole range (the stored
		// record of a chunk is then used and the row of the extreme value looked up by its time)
		f := []string{"min", "max", "first", "last"}[r.Intn(4)]
		col := []string{"fi", "ff"}[r.Intn(2)]
		q.calls = []call{{f, col}}
		q.interval = 0
		q.hint = r.Chance(25)
		q.asc = r.Bool()
		if r.Chance(40) {
			q.lo, q.hi = -5, h.nTimes+5
		}
		for _, a := range cols {
			if a != col && r.Chance(50) {
				q.aux = append(q.aux, a)
			}
		}
		if len(q.aux) == 0 {
			q.aux = []string{"fs"}
		}
	}
	if mix {
		q.hint, q.interval = false, 0
		q.grp = []string{"-", "zone", "zone", "host"}[r.Intn(4)]
		return q
	}
	if r.Chance(20) {
		q.fcol = []string{"fi", "ff"}[r.Intn(2)]
		q.fop = []string{">", "<="}[r.Intn(2)]
		q.fconst = int64(r.Intn(7)) - 3
	}
	return q
}

func (h *history) checkpoint(nq int) {
	c := h.c
	lay, ok := h.emitLayout()
	if !ok {
		return
	}
	nOrd, nOoo, multi := 0, 0, false
	for _, f := range lay.files {
		if f.order {
			nOrd++
		} else {
			nOoo++
		}
		for _, ch := range f.chunks {
			if len(ch.segs) > 1 {
				multi = true
			}
		}
	}
	c.Count(fmt.Sprintf("layout:ordered=%d", min(nOrd, 4)))
	c.Count(fmt.Sprintf("layout:ooo=%d", min(nOoo, 3)))
	if len(lay.mem) > 0 && len(lay.files) > 0 {
		c.Count("layout:memtable+files")
	}
	if multi {
		c.Count("layout:multi-segment-chunk")
	}
	if keyTwiceIn(lay, -1<<30, 1<<30) {
		c.Count("layout:key-in-two-containers")
	}
	bs := h.boundaries(lay)
	// the plain select over everything, once per layout
	fullAns, full := h.rawRows(-5, h.nTimes+5, "", "", 0)
	c.Emit(fmt.Sprintf("raw %d %d -", -5, h.nTimes+5), fullAns)
	var chunks []chunkInfo
	for _, f := range lay.files {
		chunks = append(chunks, f.chunks...)
	}
	for i := 0; i < nq; i++ {
		q := h.genQuery(bs)
		if len(chunks) > 0 && i < 2 {
			// statistics probe: the range is exactly (or just around) the time range of one stored
			// chunk, so that its stored record is what the un-hinted path serves
			ch := chunks[h.r.Intn(len(chunks))]
			f := []string{"count", "sum", "min", "max", "mean", "count"}[h.r.Intn(6)]
			cs := fnCols[f]
			q = aggQuery{calls: []call{{f, cs[h.r.Intn(len(cs))]}}, lo: ch.min - h.r.Intn(2), hi: ch.max + h.r.Intn(2), grp: []string{"host", "-", "zone"}[h.r.Intn(3)], asc: !h.r.Chance(30), fill: "none"}
			c.Count("query:statistics-probe")
			if len(lay.empty) > 0 {
				// a column without a value in a chunk that lies inside the range: its stored record is
				// in the initial state and must not contribute
				e := lay.empty[h.r.Intn(len(lay.empty))]
				fs := []string{"min", "max", "min", "max", "count", "first", "last"}
				if e.col == "fi" || e.col == "ff" {
					fs = append(fs, "sum", "mean")
				} else if e.col == "fs" {
					fs = []string{"count", "first", "last"}
				}
				q.calls = []call{{fs[h.r.Intn(len(fs))], e.col}}
				q.lo, q.hi = e.ch.min-h.r.Intn(2), e.ch.max+h.r.Intn(2)
				c.Count("query:empty-column-probe")
			}
		}
		raw := full
		// the corresponding plain select itself (always when there is a field filter)
		if q.fcol != "" || h.r.Chance(25) {
			ans, rr := h.rawRows(q.lo, q.hi, q.fcol, q.fop, q.fconst)
			c.Emit(fmt.Sprintf("raw %d %d %s", q.lo, q.hi, q.filterText()), ans)
			if rr != nil {
				raw = rr
			}
		}
		ans, got := h.runAgg(q, raw, lay)
		emitted := ans
		if len(q.aux) > 0 && !strings.HasPrefix(ans, "err") {
			emitted = "ok" // not modelled: the answer is compared with the rows only
			c.Count("query:selector-with-aux-columns")
		}
		line := c.Emit(q.opText(), emitted)
		if c.Arg("debug", "") != "" {
			fmt.Fprintf(os.Stderr, "C09DBG %d %s\n    -> %s\n", line, q.sql(), ans)
		}
		c.Count("query:" + q.calls[0].f)
		if q.hint {
			c.Count("query:hinted")
		}
		if q.interval > 0 {
			c.Count("query:time-bucket")
		}
		if q.grp != "-" {
			c.Count("query:group-by-tag")
		}
		if !q.asc {
			c.Count("query:descending")
		}
		if q.fcol != "" {
			c.Count("query:field-filter")
		}
		if q.eligible() {
			c.Count("query:statistics-eligible")
			if len(q.calls) > 1 {
				c.Count("query:statistics-eligible-several-calls")
			}
		}
		cuts := false
		for _, f := range lay.files {
			for _, ch := range f.chunks {
				for _, seg := range ch.segs {
					if len(seg) > 1 && ((q.lo > seg[0].t && q.lo <= seg[len(seg)-1].t) || (q.hi >= seg[0].t && q.hi < seg[len(seg)-1].t)) {
						cuts = true
					}
				}
			}
		}
		if cuts {
			c.Count("query:range-cuts-a-segment")
		}
		nontrivial := cuts || (len(lay.mem) > 0 && len(lay.files) > 0)
		c.Case(fmt.Sprintf("%d:%s:%s", h.idx, h.kinds, q.opText()), nontrivial)
		if nontrivial && i == 0 && h.idx%7 == 3 {
			c.Sample(fmt.Sprintf("history %d ops=%s rows-per-segment=%d files=%d(ooo %d) memtable-series=%d: %s -> %s", h.idx, h.kinds, h.seg, len(lay.files), nOoo, len(lay.mem), q.sql(), ans))
		}
		if got == nil || raw == nil {
			if strings.HasPrefix(ans, "err") {
				c.Violation(line, "", fmt.Sprintf("history %d (%s): %s failed: %s", h.idx, h.kinds, q.sql(), ans))
			}
			continue
		}
		msg := h.checkSpec(q, got, raw)
		if strings.Contains(ans, " !") {
			msg = "malformed answer: " + ans
		}
		if msg != "" {
			if q.eligible() && keyTwiceIn(lay, q.lo, q.hi) {
				// the property's own exclusion: without the hint, a (series,time) written in two
				// flush generations - and still held by two containers, inside the range - may be
				// counted twice (theorem aggViaStats_eq_aggRows_partial has exactly this
				// hypothesis). Not a violation; counted. The model diff is exact there too.
				c.Count("excluded:cross-generation-unhinted")
				continue
			}
			c.Violation(line, classify(q), fmt.Sprintf("history %d (%s) seg=%d: %s -> %s; %s; REPLAY (ogh C09 -replay <file with these lines>): %s", h.idx, h.kinds, h.seg, q.sql(), ans, msg, h.replayText(q)))
			h.writeReplay(line, q)
		}
	}
}

// keyTwiceIn: some series has a timestamp of [lo,hi] in two containers (memtable, files).
func keyTwiceIn(lay *layout, lo, hi int) bool {
	seen := map[key]bool{}
	for s, rs := range lay.mem {
		for _, r := range rs {
			if r.t >= lo && r.t <= hi {
				seen[key{s, r.t}] = true
			}
		}
	}
	for _, f := range lay.files {
		cur := map[key]bool{}
		for _, ch := range f.chunks {
			for _, seg := range ch.segs {
				for _, r := range seg {
					if r.t < lo || r.t > hi {
						continue
					}
					if seen[key{ch.s, r.t}] {
						return true
					}
					cur[key{ch.s, r.t}] = true
				}
			}
		}
		for k := range cur {
			seen[k] = true
		}
	}
	return false
}

// writeReplay stores the history so far and the failing query as a replay file
// (ogh C09 -replay <file>).
func (h *history) writeReplay(line int, q aggQuery) {
	if h.c.Replay != "" {
		return
	}
	var b strings.Builder
	fmt.Fprintf(&b, "H %d %d %d %d\n", h.seg, h.nSeries, h.nTimes, h.method)
	for _, l := range h.script {
		b.WriteString(l + "\n")
	}
	b.WriteString("Q " + q.opText() + "\n")
	_ = os.WriteFile(fmt.Sprintf("%s/replay-%d.txt", h.c.Out, line), []byte(b.String()), 0o644)
}

func parseAgg(f []string) (q aggQuery, err error) {
	// agg calls lo hi hint grp interval fill dir filter
	if len(f) != 10 || (f[0] != "agg" && f[0] != "auxq") {
		return q, fmt.Errorf("bad agg op")
	}
	for _, c := range strings.Split(f[1], "+") {
		p := strings.Split(c, ":")
		if len(p) != 2 {
			return q, fmt.Errorf("bad call")
		}
		cols := strings.Split(p[1], "/")
		q.calls = append(q.calls, call{p[0], cols[0]})
		q.aux = append(q.aux, cols[1:]...)
	}
	q.lo, _ = strconv.Atoi(f[2])
	q.hi, _ = strconv.Atoi(f[3])
	q.hint = f[4] == "exact"
	q.grp = f[5]
	q.interval, _ = strconv.Atoi(f[6])
	q.fill = f[7]
	q.asc = f[8] == "asc"
	if f[9] != "-" {
		for _, op := range []string{"<=", ">"} {
			if i := strings.Index(f[9], op); i > 0 {
				q.fcol, q.fop = f[9][:i], op
				q.fconst, _ = strconv.ParseInt(f[9][i+len(op):], 10, 64)
				break
			}
		}
	}
	return q, nil
}

func parseRows(txt string) []engx.Row {
	var out []engx.Row
	for _, p := range strings.Split(txt, ";") {
		f := strings.SplitN(p, ":", 3)
		if len(f) != 3 {
			continue
		}
		r := engx.Row{Mst: "m", Fields: map[string]string{}}
		r.Series, _ = strconv.Atoi(f[0])
		r.T, _ = strconv.Atoi(f[1])
		for _, kv := range strings.Split(f[2], ",") {
			if i := strings.IndexByte(kv, '='); i > 0 {
				r.Fields[kv[:i]] = kv[i+1:]
			}
		}
		out = append(out, r)
	}
	return out
}

func runReplay(c *hx.Ctx, path string) error {
	data, err := os.ReadFile(path)
	if err != nil {
		return err
	}
	return runScript(c, string(data), true)
}

// runScript runs a history given as text (the replay format): H / W / F / c / C / m / S / Q lines.
func runScript(c *hx.Ctx, data string, verbose bool) error {
	dir := engx.ScratchDir("c09r")
	defer os.RemoveAll(dir)
	var h *history
	var lay *layout
	var full map[int][]row
	defer engine.VerifSetMaxRowsPerSegment(0)
	for _, ln := range strings.Split(strings.ReplaceAll(data, " | ", "\n"), "\n") {
		ln = strings.TrimSpace(ln)
		if ln == "" || ln[0] == '#' {
			continue
		}
		f := strings.Fields(ln)
		switch f[0] {
		case "H":
			h = &history{c: c, r: hx.NewRng(c.Seed), mem: map[key]*row{}, gen: map[key]int{}}
			h.seg, _ = strconv.Atoi(f[1])
			h.nSeries, _ = strconv.Atoi(f[2])
			h.nTimes, _ = strconv.Atoi(f[3])
			h.hiWater = make([]int, h.nSeries)
			if len(f) > 4 {
				m, _ := strconv.Atoi(f[4])
				h.method = int32(m)
			}
			immutable.SetMergeFlag4TsStore(h.method)
			defer immutable.SetMergeFlag4TsStore(0)
			engine.VerifSetMaxRowsPerSegment(h.seg)
			sh, err := engine.VerifOpenShard(dir, 1)
			if err != nil {
				return err
			}
			// (not DisableBackground: it closes the table store's task scheduler for good, after which
			// level and full compaction run or not at random)
			sh.DetachFromCompactor()
			sh.Quiesce()
			h.sh = sh
			seg := h.seg
			if seg == 0 {
				seg = 1000
			}
			c.Emit(fmt.Sprintf("open 0 %d", seg), "ok")
		case "W":
			h.applyRows(parseRows(strings.TrimPrefix(ln, "W ")))
			lay = nil
		case "F":
			h.doFlush()
			lay = nil
		case "c":
			lv, _ := strconv.Atoi(f[1])
			h.doCompact(uint16(lv))
			lay = nil
		case "C":
			h.doFullCompact()
			lay = nil
		case "m":
			h.doMerge(f[1] == "true")
			lay = nil
		case "S":
			if lay == nil {
				var ok bool
				if lay, ok = h.emitLayout(); !ok {
					return fmt.Errorf("layout failed")
				}
			}
		case "Q":
			q, err := parseAgg(f[1:])
			if err != nil {
				return err
			}
			if lay == nil {
				var ok bool
				if lay, ok = h.emitLayout(); !ok {
					return fmt.Errorf("layout failed")
				}
				var fullAns string
				fullAns, full = h.rawRows(-5, h.nTimes+5, "", "", 0)
				c.Emit(fmt.Sprintf("raw %d %d -", -5, h.nTimes+5), fullAns)
			}
			raw := full
			if q.fcol != "" {
				ans, rr := h.rawRows(q.lo, q.hi, q.fcol, q.fop, q.fconst)
				c.Emit(fmt.Sprintf("raw %d %d %s", q.lo, q.hi, q.filterText()), ans)
				if rr != nil {
					raw = rr
				}
			}
			ans, got := h.runAgg(q, raw, lay)
			emitted := ans
			if len(q.aux) > 0 && !strings.HasPrefix(ans, "err") {
				emitted = "ok"
			}
			line := c.Emit(q.opText(), emitted)
			c.Case(q.opText(), true)
			if verbose {
				fmt.Fprintf(os.Stderr, "C09 replay: %s\n    -> %s\n", q.sql(), ans)
			}
			if got == nil || raw == nil {
				c.Violation(line, "", "query failed: "+ans)
				continue
			}
			msg := h.checkSpec(q, got, raw)
			if strings.Contains(ans, " !") {
				msg = "malformed answer: " + ans
			}
			if msg != "" {
				if q.eligible() && keyTwiceIn(lay, q.lo, q.hi) {
					c.Count("excluded:cross-generation-unhinted")
					continue
				}
				if verbose {
					fmt.Fprintf(os.Stderr, "    VIOLATION %s\n", msg)
				}
				c.Violation(line, classify(q), fmt.Sprintf("directed case / replay: %s -> %s; %s; REPLAY (ogh C09 -replay <file with these lines>): %s", q.sql(), ans, msg, h.replayText(q)))
			}
		}
	}
	if h != nil && h.sh != nil {
		return h.sh.Close()
	}
	return nil
}

// classify names the evaluation path and the first call of a failing query: a stable class for
// known_findings.jsonl (no class is listed there for the unchanged tree).
func classify(q aggQuery) string {
	if len(q.aux) > 0 {
		// the statistics path is clean; the row path (hint, field filter) has a known defect
		if q.eligible() {
			return "selector-with-aux-columns:statistics"
		}
		return "selector-with-aux-columns:row-path"
	}
	path := "rows"
	switch {
	case q.eligible():
		path = "statistics"
	case q.hint:
		path = "rows-exact-hint"
	case q.interval > 0:
		path = "rows-time-bucket"
	case q.fcol != "":
		path = "rows-field-filter"
	}
	dir := "asc"
	if !q.asc {
		dir = "desc"
	}
	return fmt.Sprintf("agg-differs-from-rows:%s:%s:%s", path, q.calls[0].f, dir)
}

// replayText is the history so far and the failing query, one line (the format of -replay
// files with " | " for the line breaks).
func (h *history) replayText(q aggQuery) string {
	return fmt.Sprintf("H %d %d %d %d | %s | Q %s", h.seg, h.nSeries, h.nTimes, h.method, strings.Join(h.script, " | "), q.opText())
}

func runHistory(c *hx.Ctx, r *hx.Rng, idx int) error {
	dir := engx.ScratchDir("c09")
	defer os.RemoveAll(dir)
	h := &history{c: c, r: r, idx: idx, mem: map[key]*row{}, gen: map[key]int{}}
	h.seg = []int{8, 8, 8, 16, 24}[r.Intn(5)] // multiples of 8: other limits crash the out-of-order merge (bitmap offset)
	if v := c.Arg("seg", ""); v != "" {       // rows-per-segment override (debugging)
		h.seg, _ = strconv.Atoi(v)
	}
	h.nSeries = 2 + r.Intn(3)
	h.nTimes = h.seg * (3 + r.Intn(4))
	big := c.Tier == "thorough" && r.Chance(3)
	if big {
		h.seg = 0 // default: 1000 rows per segment
		h.nSeries = 2
		h.nTimes = 2600
	}
	engine.VerifSetMaxRowsPerSegment(h.seg)
	defer engine.VerifSetMaxRowsPerSegment(0)
	// compaction method (configuration item compact.compaction-method): 0 = chosen by size (never
	// streaming for chunks this small), 1 = streaming (statistics of the compacted chunk are
	// merged from the stored records: StreamIterators.merge*PreAgg), 2 = non-streaming (rebuilt
	// from the rows: ColumnBuilder)
	method := []int32{0, 1, 1, 2}[r.Intn(4)]
	immutable.SetMergeFlag4TsStore(method)
	defer immutable.SetMergeFlag4TsStore(0)
	c.Count(fmt.Sprintf("compaction-method=%d", method))
	h.method = method
	h.trend = r.Chance(20)
	if h.trend {
		c.Count("history:values-grow-with-time")
	}
	h.hiWater = make([]int, h.nSeries)
	for i := range h.hiWater {
		h.hiWater[i] = -1
	}
	sh, err := engine.VerifOpenShard(dir, 1)
	if err != nil {
		return err
	}
	// (not DisableBackground: it closes the table store's task scheduler for good, after which
	// level and full compaction run or not at random)
	sh.DetachFromCompactor()
	sh.Quiesce()
	h.sh = sh
	segForModel := h.seg
	if segForModel == 0 {
		segForModel = 1000
	}
	c.Emit(fmt.Sprintf("open %d %d", idx, segForModel), "ok")
	c.Count(fmt.Sprintf("rows-per-segment=%d", segForModel))
	nOps := 4 + r.Intn(16)
	if big {
		// bulk load: three flush generations of ~850 rows per series, then a few random ops
		h.seg = 300
		for g := 0; g < 3; g++ {
			for k := 0; k < 3; k++ {
				h.writeBatch()
			}
			h.step()
		}
		h.seg = 0
		nOps = 4
	}
	cps := 1 + r.Intn(2)
	for i := 0; i < nOps; i++ {
		h.step()
		if cps > 1 && i == nOps/2 {
			h.checkpoint(6)
		}
	}
	h.checkpoint(8)
	if qs := c.Arg("q", ""); qs != "" { // ad-hoc statements against the final layout (debugging)
		for _, q1 := range strings.Split(qs, ";;") {
			res, err := h.sh.Query(q1, qlFields, tagKeys, 0)
			fmt.Fprintf(os.Stderr, "C09Q %s\n    err=%v\n", q1, err)
			for _, s := range res {
				fmt.Fprintf(os.Stderr, "    %v %v %v\n", s.Tags, s.Columns, s.Values)
			}
		}
	}
	if h.xgen {
		c.Count("history:key-in-two-flush-generations")
	}
	return sh.Close()
}

func Run(c *hx.Ctx) error {
	c.Stats.Rule = "random histories over 2-4 series (2 tag groupings) x 24-168 timestamps x 4 typed fields with nulls (int, float as multiples of 1/8, bool, string), rows-per-segment 8/16/24 (default 1000 for a few bulk histories in the thorough tier), compaction method auto/streaming/non-streaming: writes (advancing, late, rewrites of flushed keys), flush, level/full compaction, out-of-order merge; at 1-2 check points the layout is read back (chunks, segments, stored statistics per column: each stored record is compared with the statistics of the chunk's own rows) and 6-8 aggregate queries (count/sum/mean/min/max/first/last, 1-3 calls, range ends on/next to/inside segments, group by host/zone, time buckets with fill none/null, exact hint, descending, field filter; two statistics probes whose range is one stored chunk; mixes of first/last with calls on other columns) run through the single-node query path next to the corresponding plain selects; a case is non-trivial when the range cuts a stored segment or memtable and files both hold rows; distinct by history and query text"
	if c.Replay != "" {
		return runReplay(c, c.Replay)
	}
	// hand-picked boundary cases and minimised past failures first (corpus/C09 holds the same)
	if c.Arg("nodirected", "") == "" && c.Arg("only", "") == "" {
		for i, d := range directed {
			if err := runScript(c, d, false); err != nil {
				return fmt.Errorf("directed case %d: %w", i, err)
			}
			c.Count("directed-case")
		}
	}
	n := c.Budget(40, 900)
	// hx.NewRng(s+1) is hx.NewRng(s) advanced by one step: hash the seed first so that
	// different seeds give unrelated histories
	r := hx.NewRng(hx.NewRng(c.Seed).U64() ^ 0xC09C09C09)
	only := -1
	if v := c.Arg("only", ""); v != "" {
		only, _ = strconv.Atoi(v) // replay one history of the run (same seed)
	}
	for i := 0; i < n; i++ {
		hr := r.Fork()
		if only >= 0 && i != only {
			continue
		}
		if err := runHistory(c, hr, i); err != nil {
			return err
		}
	}
	return nil
}
