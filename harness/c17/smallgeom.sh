#!/bin/bash
# C17 — small-geometry experiment (overlay only; /repo and /verif/lean stay untouched).
#
# The geometry of an entry file is compile-time (30000 slots, data at 1 MiB, 32 MiB cap), so a
# log of many files costs hundreds of thousands of entries.  This script builds the harness and
# the model against an overlay of lib/raftlog with 8 slots, data at 512, 2 KiB files and a
# 4 KiB meta file: the harness reads the constants through raftlog.VerifGeometry, ogfacts
# regenerates them for the model, which is compiled in a scratch lake workspace (the C17 driver
# is core Lean only).  Every sequence then rotates, conflicts across several files and takes
# crash images of multi-file logs.  Usage: smallgeom.sh [seed] [n]   (scratch: /var/tmp/c17-small)
set -e
export GOFLAGS=-mod=mod GOPROXY=off
SEED=${1:-7}; N=${2:-600}
W=/var/tmp/c17-small; V=/verif; R=/repo/lib/raftlog
rm -rf $W; mkdir -p $W/src $W/lean/OG/C17 $W/lean/OG/Generated
sed -e 's|maxNumEntries = 30000 //|maxNumEntries = 8 //|' -e 's|logFileOffset = 1 << 20 // 1MB|logFileOffset = 512 //|' \
    -e 's|maxLogFileSize = 32 << 20 // 32MB|maxLogFileSize = 2048 //|' $R/log.go > $W/src/log.go
sed -e 's|metaFileSize = 1 << 20 // 1MB|metaFileSize = 4096 //|' $R/meta.go > $W/src/meta.go
grep -q 'maxNumEntries = 8 ' $W/src/log.go && grep -q 'metaFileSize = 4096 ' $W/src/meta.go
echo "{\"Replace\": {\"$R/log.go\": \"$W/src/log.go\", \"$R/meta.go\": \"$W/src/meta.go\"}}" > $W/ov.json
(cd $V/ogfacts && go build -o $W/ogfacts .)
VERIF_OVERLAY=$W/ov.json $W/ogfacts -repo /repo -out $W/lean/OG/Generated C17
cp $V/lean/OG/C17/{Base,Model,Crash,Driver}.lean $W/lean/OG/C17/
printf 'name = "OG"\nversion = "0.1.0"\n[[lean_lib]]\nname = "OG"\nglobs = ["OG.+"]\n[[lean_exe]]\nname = "c17drv"\nroot = "OG.C17.Driver"\n' > $W/lean/lakefile.toml
(cd $W/lean && lake build c17drv >/dev/null)
(cd $V/harness && go build -overlay $W/ov.json -tags "verif c17" -o $W/ogh ./cmd/ogh)
VERIF_SCRATCH=$W $W/ogh C17 -seed $SEED -tier quick -n $N -out $W/out -D crashmax=40 -D torn=2 >/dev/null 2>&1
$W/lean/.lake/build/bin/c17drv < $W/out/ops.txt > $W/out/model.out
echo "lines $(wc -l < $W/out/ops.txt), model/impl diffs $(diff $W/out/impl.out $W/out/model.out | grep -c '^<')"
echo "spec violations by class:"; cut -f2 $W/out/viol.out | sort | uniq -c | sort -rn
