// Package c17: correspondence harness for C17 (the raft entry-log store honours the Raft
// storage contract, across reopen).  Three parties are fed identical generated op sequences:
//
//   - the real raftlog.RaftDiskStorage on a scratch directory (impl.out),
//   - the Lean model through its line protocol (ops.txt -> model.out, compared by ./check),
//   - etcd's own raft.MemoryStorage, which validates the *spec*: every answer of the real store
//     is compared with the reference in Go (viol.out).  The reference is compacted at the first
//     index the store itself reports (compaction is file-granular); the documented boundary
//     adjustments are in expectTerm / expectEntries / expectMksnap.
package c17

import (
	"bytes"
	"encoding/hex"
	"errors"
	"fmt"
	"io"
	"os"
	"path/filepath"
	"sort"
	"strconv"
	"strings"

	"github.com/openGemini/openGemini/lib/config"
	"github.com/openGemini/openGemini/lib/fileops"
	"github.com/openGemini/openGemini/lib/logger"
	"github.com/openGemini/openGemini/lib/raftlog"
	"go.etcd.io/etcd/raft/v3"
	"go.etcd.io/etcd/raft/v3/raftpb"
	"go.uber.org/zap"

	"verif/harness/internal/hx"
)

func init() { hx.Register("C17", Run) }

// geometry of an entry file: the compile-time constants of lib/raftlog, read through the verif
// hook raftlog.VerifGeometry (ogfacts regenerates the same constants for the model; the `files`
// op compares file sizes).  An overlay that lowers the constants (small-geometry experiment,
// see smallgeom.sh) is followed by the harness and by the model alike.
var (
	capSlots uint64 = 30000
	dataOff         = 1 << 20
	maxSize         = 32 << 20
)

func init() {
	n, d, m, _, _, _, _ := raftlog.VerifGeometry()
	capSlots, dataOff, maxSize = uint64(n), d, m
}

type payload struct {
	run  bool // n copies of b
	n    int
	b    byte
	data []byte
}

func (p payload) bytes() []byte {
	if p.run {
		if p.n == 0 {
			return nil
		}
		return bytes.Repeat([]byte{p.b}, p.n)
	}
	if len(p.data) == 0 {
		return nil
	}
	return p.data
}
func (p payload) text() string {
	if p.run {
		return fmt.Sprintf("r%dx%02x", p.n, p.b)
	}
	return hex.EncodeToString(p.data)
}
func (p payload) size() int {
	if p.run {
		return p.n
	}
	return len(p.data)
}

type group struct {
	n    int
	term uint64
	typ  int
	pl   payload
}

type seq struct {
	c    *hx.Ctx
	r    *hx.Rng
	dir  string
	rds  *raftlog.RaftDiskStorage
	ms   *raft.MemoryStorage
	id   int
	dead bool // the store could not be (re)opened; the sequence ends
	rw   int  // config.EntryFileRWType of this sequence: 2 = FileWrapV2 (default), 1 = FileWrap

	// crash images inside operations (crash.go)
	crashOn bool
	// payload bytes are masked with this.  In sequences with crash images it is 3: a slot write torn
	// inside its offset field makes ReadSlice take four payload bytes for a length and allocate that
	// much before it notices (up to 4 GiB, see finding torn_write_slot); small byte values keep the
	// allocation of such an image below 64 MiB.
	byteMask   byte
	renumbered bool
	oversize   bool // sizeSave ends with a payload that does not fit an empty file
	crashMax   int  // mutation boundaries tried per armed operation
	tornPer    int  // torn variants per write

	// bookkeeping of what was saved (the generator's own view, used to pick arguments)
	last     uint64   // last index
	terms    []uint64 // terms[i] = term of index i (index 0 unused), len = last+1
	commit   uint64
	curTerm  uint64
	wantHS   raftpb.HardState
	wantSnap raftpb.Snapshot
	first    uint64 // first index the store reported last

	nontrivial       bool
	pendingProbe     bool
	installed        bool // a snapshot beyond the log was saved: known finding from here on
	conflict         bool
	conflictRotated  bool
	crossed          bool
	sinceInteresting int
	key              strings.Builder
}

func errName(err error) string {
	switch {
	case err == nil:
		return ""
	case errors.Is(err, raft.ErrCompacted):
		return "compacted"
	case errors.Is(err, raft.ErrUnavailable):
		return "unavailable"
	case errors.Is(err, raft.ErrSnapOutOfDate):
		return "outofdate"
	case strings.Contains(err.Error(), "Unable to find raft entry"):
		return "notfound"
	case strings.Contains(err.Error(), "deleteBefore slotGe return inValid"):
		return "invalid"
	}
	return "other:" + strings.ReplaceAll(err.Error(), " ", "_")
}

func confToken(cs raftpb.ConfState) string {
	if cs.Voters == nil && cs.Learners == nil {
		return "e"
	}
	var b strings.Builder
	b.WriteString("v")
	for i, v := range cs.Voters {
		if i > 0 {
			b.WriteString(".")
		}
		b.WriteString(strconv.FormatUint(v, 10))
	}
	if len(cs.Learners) > 0 {
		b.WriteString("l")
		for i, v := range cs.Learners {
			if i > 0 {
				b.WriteString(".")
			}
			b.WriteString(strconv.FormatUint(v, 10))
		}
	}
	return b.String()
}

func dataToken(d []byte) string {
	if len(d) == 0 {
		return "e"
	}
	return string(d)
}

func snapText(s raftpb.Snapshot) string {
	vn := 0
	if s.Metadata.ConfState.Voters == nil {
		vn = 1
	}
	return fmt.Sprintf("%d,%d,%d,%s,%s", s.Metadata.Index, s.Metadata.Term, vn, confToken(s.Metadata.ConfState), dataToken(s.Data))
}

const fnvOff, fnvPrime = 14695981039346656037, 1099511628211

func hashEntries(es []raftpb.Entry) uint64 {
	h := uint64(fnvOff)
	st := func(x uint64) { h = (h ^ x) * fnvPrime }
	for i := range es {
		st(es[i].Index)
		st(es[i].Term)
		st(uint64(es[i].Type))
		st(uint64(len(es[i].Data)))
		for _, b := range es[i].Data {
			st(uint64(b))
		}
	}
	return h
}

func entsText(es []raftpb.Entry) string {
	ends := "-"
	if len(es) > 0 {
		ends = fmt.Sprintf("%d..%d", es[0].Index, es[len(es)-1].Index)
	}
	return fmt.Sprintf("ok n=%d %s h=%d", len(es), ends, hashEntries(es))
}

func (s *seq) emit(op, ans string) int {
	s.key.WriteString(op)
	s.key.WriteByte('\n')
	return s.c.Emit(op, ans)
}

// classes that stay what they are even after a snapshot install
var hardClasses = map[string]bool{"panic": true, "hardstate_changed": true, "snapshot_changed": true, "save_failed": true,
	"reopen_failed": true, "close_failed": true, "init_failed": true, "reference_panic": true}

func (s *seq) viol(line int, class, desc string) {
	if s.installed && !hardClasses[class] {
		// known finding: Save with a snapshot beyond the log does not replace the log
		// (MemoryStorage.ApplySnapshot does): first index, terms and entries of the old
		// log stay visible
		desc = "[after a snapshot install; " + class + "] " + desc
		class = "snapshot_install_keeps_old_entries"
	}
	s.c.Violation(line, class, fmt.Sprintf("seq %d: %s", s.id, desc))
}

// doInstall: what raft hands to Save after it accepted a snapshot from the leader — a snapshot
// whose index lies beyond the log, no entries.  The reference replaces its log by the snapshot.
func (s *seq) doInstall() {
	idx := s.last + 1 + uint64(s.r.Intn(20))
	t := s.curTerm + 1
	sn := raftpb.Snapshot{Data: []byte(fmt.Sprintf("in%d", idx)), Metadata: raftpb.SnapshotMetadata{Index: idx, Term: t, ConfState: s.randConf()}}
	hs := raftpb.HardState{Term: t, Vote: uint64(s.r.Intn(4)), Commit: idx}
	var err error
	p := hx.Safe(func() { err = s.rds.Save(&hs, nil, &sn) })
	ans := "ok"
	if p != "" {
		ans = "err " + p
	} else if err != nil {
		ans = "err " + errName(err)
	}
	line := s.emit(fmt.Sprintf("save %d,%d,%d %s %d -", hs.Term, hs.Vote, hs.Commit, snapText(sn), s.last+1), ans)
	if ans != "ok" {
		s.viol(line, "save_failed", "Save: "+ans)
	}
	if p := hx.Safe(func() { _ = s.ms.ApplySnapshot(sn) }); p != "" {
		s.viol(line, "reference_panic", "ApplySnapshot "+p)
	}
	_ = s.ms.SetHardState(hs)
	s.installed = true
	s.wantSnap, s.wantHS = sn, hs
	s.terms = make([]uint64, idx+1)
	s.terms[idx] = t
	s.last, s.commit, s.curTerm, s.first = idx, idx, t, idx+1
	s.c.Count("op:install-snapshot")
	s.pendingProbe = true
	s.probes()
}

// ---------------------------------------------------------------- reference helpers

func (s *seq) refFirst() uint64 { f, _ := s.ms.FirstIndex(); return f }
func (s *seq) refLast() uint64  { l, _ := s.ms.LastIndex(); return l }

// expectTerm: what the property demands for Term(i), from the reference.
//   - index 0 is not an entry: term 0 (the reference says `compacted` once its dummy moved)
//   - an index in the compacted prefix reports compacted, also first-1 whose term the reference
//     keeps in its dummy entry; the snapshot index answers the snapshot's term
func (s *seq) expectTerm(i uint64) string {
	if i == 0 {
		return "ok 0"
	}
	si := s.wantSnap.Metadata.Index
	if i < s.refFirst() {
		if i == si {
			return fmt.Sprintf("ok %d", s.wantSnap.Metadata.Term)
		}
		return "err compacted"
	}
	var t uint64
	var err error
	if p := hx.Safe(func() { t, err = s.ms.Term(i) }); p != "" {
		return "err ref-" + p
	}
	if err != nil {
		if i == si {
			return fmt.Sprintf("ok %d", s.wantSnap.Metadata.Term)
		}
		return "err " + errName(err)
	}
	return fmt.Sprintf("ok %d", t)
}

// expectEntries: the reference panics for hi > last+1 (the property says unavailable) and
// answers unavailable for every request while it holds only its dummy entry (an empty
// in-range request is the empty list).
func (s *seq) expectEntries(lo, hi, max uint64) (string, []raftpb.Entry) {
	if lo < s.refFirst() {
		return "err compacted", nil
	}
	if hi > s.refLast()+1 {
		return "err unavailable", nil
	}
	if lo >= hi {
		return entsText(nil), nil
	}
	var es []raftpb.Entry
	var err error
	if p := hx.Safe(func() { es, err = s.ms.Entries(lo, hi, max) }); p != "" {
		return "err ref-" + p, nil
	}
	if err != nil {
		return "err " + errName(err), nil
	}
	return entsText(es), es
}

// ---------------------------------------------------------------- queries

func (s *seq) qFirst() {
	var f uint64
	var err error
	p := hx.Safe(func() { f, err = s.rds.FirstIndex() })
	ans := fmt.Sprintf("ok %d", f)
	if p != "" {
		ans = "err " + p
	} else if err != nil {
		ans = "err " + errName(err)
	}
	line := s.emit("first", ans)
	if want := fmt.Sprintf("ok %d", s.refFirst()); ans != want {
		s.viol(line, "first_index", fmt.Sprintf("FirstIndex: store %s, reference %s", ans, want))
	}
}

func (s *seq) qLast() {
	var l uint64
	var err error
	p := hx.Safe(func() { l, err = s.rds.LastIndex() })
	ans := fmt.Sprintf("ok %d", l)
	if p != "" {
		ans = "err " + p
	} else if err != nil {
		ans = "err " + errName(err)
	}
	line := s.emit("last", ans)
	if want := fmt.Sprintf("ok %d", s.refLast()); ans != want {
		s.viol(line, "last_index", fmt.Sprintf("LastIndex: store %s, reference %s", ans, want))
	}
}

func (s *seq) qTerm(i uint64) {
	var t uint64
	var err error
	p := hx.Safe(func() { t, err = s.rds.Term(i) })
	ans := fmt.Sprintf("ok %d", t)
	if p != "" {
		ans = "err " + p
	} else if err != nil {
		ans = "err " + errName(err)
	}
	line := s.emit(fmt.Sprintf("term %d", i), ans)
	s.c.Count("term:" + strings.SplitN(ans, " ", 3)[0] + ":" + errOf(ans))
	if want := s.expectTerm(i); ans != want {
		class := "term_mismatch"
		switch {
		case s.last == 0:
			class = "term_on_empty_log"
		case i == 0:
			class = "term_zero_after_compaction"
		}
		s.viol(line, class, fmt.Sprintf("Term(%d): store %s, reference %s (first %d last %d snap %d)", i, ans, want, s.refFirst(), s.refLast(), s.wantSnap.Metadata.Index))
	}
}

func errOf(ans string) string {
	if strings.HasPrefix(ans, "err ") {
		return ans[4:]
	}
	return "-"
}

func (s *seq) qEnts(lo, hi, max uint64) {
	var es []raftpb.Entry
	var err error
	p := hx.Safe(func() { es, err = s.rds.Entries(lo, hi, max) })
	ans := entsText(es)
	if p != "" {
		ans = "err " + p
	} else if err != nil {
		ans = "err " + errName(err)
	}
	line := s.emit(fmt.Sprintf("ents %d %d %d", lo, hi, max), ans)
	s.c.Count("ents:" + errOf(ans))
	want, wes := s.expectEntries(lo, hi, max)
	if ans != want {
		class, desc := "entries_mismatch", fmt.Sprintf("Entries(%d,%d,%d): store %s, reference %s", lo, hi, max, ans, want)
		if err == nil && wes != nil {
			for k := 0; k < len(es) && k < len(wes); k++ {
				a, b := es[k], wes[k]
				if a.Index != b.Index || a.Term != b.Term || a.Type != b.Type || !bytes.Equal(a.Data, b.Data) {
					desc += fmt.Sprintf("; first difference at index %d: store (term %d, type %d, %d payload bytes) reference (term %d, type %d, %d payload bytes)",
						b.Index, a.Term, a.Type, len(a.Data), b.Term, b.Type, len(b.Data))
					if a.Index == b.Index && a.Term == b.Term && len(a.Data) == 0 && len(b.Data) > 0 {
						class = "payload_lost"
					}
					break
				}
			}
			if len(es) != len(wes) {
				desc += fmt.Sprintf("; %d entries instead of %d", len(es), len(wes))
			}
		}
		s.viol(line, class, desc)
	}
}

func (s *seq) qSnap() {
	var sn raftpb.Snapshot
	var err error
	p := hx.Safe(func() { sn, err = s.rds.Snapshot() })
	ans := "ok " + snapText(sn)
	if p != "" {
		ans = "err " + p
	} else if err != nil {
		ans = "err " + errName(err)
	}
	line := s.emit("snap", ans)
	if want := "ok " + snapText(s.wantSnap); ans != want {
		s.viol(line, "snapshot_changed", fmt.Sprintf("Snapshot: store %s, saved %s", ans, want))
	}
}

func (s *seq) qHS() {
	var hs raftpb.HardState
	var cs raftpb.ConfState
	var err error
	p := hx.Safe(func() { hs, cs, err = s.rds.InitialState() })
	ans := fmt.Sprintf("ok %d,%d,%d conf=%s", hs.Term, hs.Vote, hs.Commit, confToken(cs))
	if p != "" {
		ans = "err " + p
	} else if err != nil {
		ans = "err " + errName(err)
	}
	line := s.emit("hs", ans)
	want := fmt.Sprintf("ok %d,%d,%d conf=%s", s.wantHS.Term, s.wantHS.Vote, s.wantHS.Commit, confToken(s.wantSnap.Metadata.ConfState))
	if ans != want {
		s.viol(line, "hardstate_changed", fmt.Sprintf("InitialState: store %s, saved %s", ans, want))
	}
}

// the directory: fid:size:first-index per entry file (impl-vs-model only)
func (s *seq) qFiles() {
	d := filepath.Join(s.dir, "__raft_entries__")
	des, err := os.ReadDir(d)
	ans := "ok"
	if err != nil {
		ans = "err readdir"
	} else {
		type fi struct {
			fid, size, first uint64
		}
		var fs []fi
		for _, de := range des {
			if !strings.HasSuffix(de.Name(), ".entry") {
				continue
			}
			id, _ := strconv.ParseUint(strings.TrimSuffix(de.Name(), ".entry"), 10, 64)
			st, err := de.Info()
			if err != nil {
				continue
			}
			var first uint64
			if f, err := os.Open(filepath.Join(d, de.Name())); err == nil {
				var b [16]byte
				if _, err := io.ReadFull(f, b[:]); err == nil {
					for _, x := range b[8:16] {
						first = first<<8 | uint64(x)
					}
				}
				f.Close()
			}
			fs = append(fs, fi{id, uint64(st.Size()), first})
		}
		sort.Slice(fs, func(i, j int) bool { return fs[i].fid < fs[j].fid })
		for _, f := range fs {
			ans += fmt.Sprintf(" %d:%d:%d", f.fid, f.size, f.first)
		}
	}
	s.emit("files", ans)
}

// interesting indexes: ends of the log, snapshot, file boundaries
func (s *seq) pickIndex() uint64 {
	f, l := s.first, s.last
	si := s.wantSnap.Metadata.Index
	switch s.r.Intn(12) {
	case 0:
		return 0
	case 1:
		if f > 0 {
			return f - 1
		}
		return 0
	case 2:
		return f
	case 3:
		return l
	case 4:
		return l + 1
	case 5:
		return l + 2 + uint64(s.r.Intn(5))
	case 6:
		return si
	case 7, 8: // around a file boundary
		k := uint64(1 + s.r.Intn(int(l/capSlots)+1))
		b := k * capSlots
		d := uint64(s.r.Intn(5))
		if s.r.Bool() && b > d {
			return b - d
		}
		return b + d
	case 9:
		if f > 2 {
			return uint64(s.r.Intn(int(f)))
		}
		return 1
	}
	if l >= f && l > 0 {
		return f + uint64(s.r.Intn(int(l-f+1)))
	}
	return uint64(s.r.Intn(4))
}

func (s *seq) queries(n int) {
	for k := 0; k < n && !s.dead; k++ {
		switch s.r.Intn(10) {
		case 0:
			s.qFirst()
		case 1:
			s.qLast()
		case 2, 3, 4:
			s.qTerm(s.pickIndex())
		case 5, 6, 7, 8:
			lo, hi := s.pickIndex(), s.pickIndex()
			if lo > hi {
				lo, hi = hi, lo
			}
			if s.r.Chance(15) {
				hi = lo
			}
			var max uint64
			switch s.r.Intn(6) {
			case 0:
				max = 0
			case 1:
				max = uint64(s.r.Intn(64))
			case 2:
				max = uint64(s.r.Intn(4096))
			case 3:
				max = uint64(s.r.Intn(1 << 20))
			default:
				max = 1 << 40
			}
			// reading a whole 30000-entry file is dear; keep most ranges short
			if hi > lo+200 && !s.r.Chance(10) {
				if s.r.Bool() {
					hi = lo + uint64(s.r.Intn(200))
				} else {
					lo = hi - uint64(s.r.Intn(200))
				}
			}
			s.qEnts(lo, hi, max)
		case 9:
			if s.r.Bool() {
				s.qSnap()
			} else {
				s.qHS()
			}
		}
	}
}

// ---------------------------------------------------------------- mutating ops

func (s *seq) open() bool {
	var rds *raftlog.RaftDiskStorage
	var err error
	p := hx.Safe(func() { rds, err = raftlog.Init(s.dir, 0) })
	if p != "" || err != nil {
		s.dead = true
		return false
	}
	s.rds = rds
	return true
}

// syncFirst: after an operation that may compact, take the store's own first index, check it
// against what the property allows (bound = the index the deletion was asked for) and compact
// the reference there.
func (s *seq) syncFirst(line int, bound uint64, what string) {
	var f uint64
	if p := hx.Safe(func() { f, _ = s.rds.FirstIndex() }); p != "" {
		s.viol(line, "panic", what+": FirstIndex "+p)
		return
	}
	old := s.refFirst()
	ok := f >= old && (f == old || (f <= bound && f <= s.refLast()))
	if !ok {
		s.viol(line, "compaction_out_of_bounds", fmt.Sprintf("%s: first index went from %d to %d (asked to delete before %d, last %d)", what, old, f, bound, s.refLast()))
	}
	if f > old && f-1 <= s.refLast() {
		if p := hx.Safe(func() { _ = s.ms.Compact(f - 1) }); p != "" {
			s.viol(line, "reference_panic", what+": Compact "+p)
		}
	}
	if f != old {
		s.c.Count("compaction:moved-first")
	}
	s.first = f
	s.pendingProbe = true
}

// probes: the answers around the first index and the snapshot index, asked after every
// operation that may have compacted
func (s *seq) probes() {
	if !s.pendingProbe || s.dead {
		return
	}
	s.pendingProbe = false
	si := s.wantSnap.Metadata.Index
	f := s.first
	s.qTerm(si)
	if f > 0 {
		s.qTerm(f - 1)
	}
	s.qTerm(f)
	if s.r.Bool() {
		s.qFirst()
		s.qEnts(f, minU(f+3, s.last+1), 1<<40)
		if f > 1 {
			s.qEnts(f-1, f+1, 1<<40)
		}
	}
}

// boundaryProbes: the arguments at the edges of the contract — Term(0), Term just past the end,
// Entries with size limit 0 and 2^64-1, empty ranges at the first index, the last, one and two
// past it
func (s *seq) boundaryProbes() {
	if s.dead {
		return
	}
	s.c.Count("op:boundary-probes")
	s.qTerm(0)
	s.qTerm(s.last + 1)
	lo := s.first
	if s.last > 40 && lo < s.last-40 {
		lo = s.last - 40
	}
	s.qEnts(lo, s.last+1, 0)
	s.qEnts(lo, s.last+1, ^uint64(0))
	for _, x := range []uint64{s.first, s.last, s.last + 1, s.last + 2} {
		s.qEnts(x, x, 1<<40)
	}
}

// renumber: while the store is closed, rename the entry files so that the file ids continue just
// below 100000 — the next rotations create 100000.entry, 100001.entry, which sort before
// 99999.entry in the directory listing.  delta is added to every id.
func (s *seq) renumber() bool {
	d := filepath.Join(s.dir, "__raft_entries__")
	des, err := os.ReadDir(d)
	if err != nil {
		return false
	}
	var ids []uint64
	for _, de := range des {
		if strings.HasSuffix(de.Name(), ".entry") {
			id, err := strconv.ParseUint(strings.TrimSuffix(de.Name(), ".entry"), 10, 64)
			if err != nil || id > 1000 {
				return false
			}
			ids = append(ids, id)
		}
	}
	if len(ids) == 0 {
		return false
	}
	sort.Slice(ids, func(i, j int) bool { return ids[i] > ids[j] })
	delta := 99999 - ids[0] - uint64(s.r.Intn(2))
	for _, id := range ids { // largest first: no name is taken twice
		if os.Rename(filepath.Join(d, fmt.Sprintf("%05d.entry", id)), filepath.Join(d, fmt.Sprintf("%05d.entry", id+delta))) != nil {
			return false
		}
	}
	s.emit(fmt.Sprintf("renumber %d", delta), "ok")
	s.c.Count("op:renumber-fids-to-100000")
	return true
}

func (s *seq) doReopen() {
	crash := s.r.Chance(30)
	if crash {
		// the process dies: what counts is the directory content, Close never ran on it
		nd := s.dir + "x"
		if err := copyDir(s.dir, nd); err == nil {
			hx.Safe(func() { _ = s.rds.Close() })
			os.RemoveAll(s.dir)
			s.dir = nd
			s.c.Count("reopen:crash-image")
		} else {
			hx.Safe(func() { _ = s.rds.Close() })
		}
	} else {
		var err error
		if p := hx.Safe(func() { err = s.rds.Close() }); p != "" || err != nil {
			line := s.emit("reopen", "err close")
			s.viol(line, "close_failed", fmt.Sprintf("Close: %v %s", err, p))
			s.dead = true
			return
		}
		s.c.Count("reopen:close")
		if !s.renumbered && (s.id%7 == 3 || s.r.Chance(4)) {
			s.renumbered = s.renumber()
		}
	}
	if !s.open() {
		line := s.emit("reopen", "err init")
		s.viol(line, "reopen_failed", "Init on the directory the store itself wrote failed")
		return
	}
	line := s.emit("reopen", "ok")
	s.syncFirst(line, s.wantSnap.Metadata.Index, "reopen")
	if s.conflict || s.crossed {
		s.nontrivial = true
	}
	s.probes()
	if s.r.Chance(30) {
		s.boundaryProbes()
	}
}

// doCrashRotate: the process dies in the middle of a rotation — the current file is already
// truncated to its data and the next file exists (logFileOffset zero bytes) but holds no entry
// yet.  The image is built on a copy of the directory taken without Close; then Init runs on it.
// (One torn point of AddEntries that needs no VFS hook; correspondence + spec diff only, the
// Lean theorems cover crashes between operations.)
func (s *seq) doCrashRotate() {
	if s.last == 0 {
		return
	}
	nd := s.dir + "x"
	if err := copyDir(s.dir, nd); err != nil {
		return
	}
	ok := func() bool {
		d := filepath.Join(nd, "__raft_entries__")
		des, err := os.ReadDir(d)
		if err != nil {
			return false
		}
		var curName string
		var curFirst, maxFid uint64
		for _, de := range des {
			if !strings.HasSuffix(de.Name(), ".entry") {
				continue
			}
			id, _ := strconv.ParseUint(strings.TrimSuffix(de.Name(), ".entry"), 10, 64)
			if id > maxFid {
				maxFid = id
			}
			b, err := readAt(filepath.Join(d, de.Name()), 8, 8)
			if err != nil {
				return false
			}
			if fi := be64(b); fi >= curFirst && fi > 0 {
				curFirst, curName = fi, de.Name()
			}
		}
		if curName == "" {
			return false
		}
		path := filepath.Join(d, curName)
		tab, err := readAt(path, 0, int(capSlots)*32)
		if err != nil {
			return false
		}
		k := 0
		for k < int(capSlots) && be64(tab[k*32+8:]) != 0 {
			k++
		}
		if k == 0 {
			return false
		}
		off := be64(tab[(k-1)*32+24:])
		lb, err := readAt(path, int64(off), 4)
		if err != nil {
			return false
		}
		end := off + 4 + uint64(lb[0])<<24 + uint64(lb[1])<<16 + uint64(lb[2])<<8 + uint64(lb[3])
		if os.Truncate(path, int64(end)) != nil {
			return false
		}
		return os.WriteFile(filepath.Join(d, fmt.Sprintf("%05d.entry", maxFid+1)), make([]byte, dataOff), 0o600) == nil
	}()
	if !ok {
		os.RemoveAll(nd)
		return
	}
	hx.Safe(func() { _ = s.rds.Close() })
	os.RemoveAll(s.dir)
	s.dir = nd
	s.c.Count("reopen:crash-in-rotate")
	if !s.open() {
		line := s.emit("crashrotate", "err init")
		s.viol(line, "reopen_failed", "Init failed on the image of a crash inside a rotation")
		return
	}
	line := s.emit("crashrotate", "ok")
	s.syncFirst(line, s.wantSnap.Metadata.Index, "reopen after a crash inside a rotation")
	s.probes()
}

func readAt(path string, off int64, n int) ([]byte, error) {
	f, err := os.Open(path)
	if err != nil {
		return nil, err
	}
	defer f.Close()
	b := make([]byte, n)
	_, err = f.ReadAt(b, off)
	return b, err
}

func be64(b []byte) uint64 {
	var x uint64
	for _, c := range b[:8] {
		x = x<<8 | uint64(c)
	}
	return x
}

func copyDir(src, dst string) error {
	return filepath.Walk(src, func(p string, info os.FileInfo, err error) error {
		if err != nil {
			return err
		}
		rel, _ := filepath.Rel(src, p)
		t := filepath.Join(dst, rel)
		if info.IsDir() {
			return os.MkdirAll(t, 0o755)
		}
		in, err := os.Open(p)
		if err != nil {
			return err
		}
		defer in.Close()
		out, err := os.Create(t)
		if err != nil {
			return err
		}
		defer out.Close()
		_, err = io.Copy(out, in)
		return err
	})
}

func (s *seq) randPayload(big bool) payload {
	switch {
	case big:
		return payload{}
	case s.r.Chance(30):
		return payload{}
	case s.r.Chance(3):
		return payload{run: true, n: 1000 + s.r.Intn(5000), b: byte(s.r.Intn(256)) & s.byteMask}
	}
	n := 1 + s.r.Intn(24)
	d := make([]byte, n)
	for i := range d {
		d[i] = byte(s.r.Intn(256)) & s.byteMask
	}
	return payload{data: d}
}

// doSave: start index and groups chosen by the caller (start <= last+1, start > commit).
func (s *seq) doSave(start uint64, gs []group, withHS, withSnap int) {
	preLast := s.last
	var ents []raftpb.Entry
	var gtxt []string
	idx := start
	for _, g := range gs {
		d := g.pl.bytes()
		for k := 0; k < g.n; k++ {
			ents = append(ents, raftpb.Entry{Term: g.term, Index: idx, Type: raftpb.EntryType(g.typ), Data: d})
			idx++
		}
		gtxt = append(gtxt, fmt.Sprintf("%d*%d,%d,%s", g.n, g.term, g.typ, g.pl.text()))
	}
	groups := "-"
	if len(gtxt) > 0 {
		groups = strings.Join(gtxt, ";")
	}
	// bookkeeping first (the snapshot needs the new terms)
	if len(ents) > 0 {
		if start <= s.last {
			s.conflict = true
			s.sinceInteresting = 0
			if (start-1)/capSlots < (s.last-1)/capSlots || s.fileOf(start) < s.fileOf(s.last) {
				s.conflictRotated = true
			}
		}
		s.terms = s.terms[:start]
		for i := range ents {
			s.terms = append(s.terms, ents[i].Term)
		}
		s.last = ents[len(ents)-1].Index
		s.curTerm = ents[len(ents)-1].Term
	}
	var hs *raftpb.HardState
	hsTxt := "-"
	if withHS == 1 && s.crashOn && len(ents) > 0 && s.r.Chance(60) {
		// a follower's Ready: the entries and a commit index that already covers some of them
		s.commit = start + uint64(s.r.Intn(len(ents)))
	}
	switch withHS {
	case 1:
		hs = &raftpb.HardState{Term: s.curTerm, Vote: uint64(s.r.Intn(4)), Commit: s.commit}
	case 2:
		hs = &raftpb.HardState{}
	}
	if hs != nil {
		hsTxt = fmt.Sprintf("%d,%d,%d", hs.Term, hs.Vote, hs.Commit)
	}
	var sn *raftpb.Snapshot
	snTxt := "-"
	switch withSnap {
	case 1: // a snapshot at a committed index, not older than the one held
		lo, hi := s.wantSnap.Metadata.Index, s.commit
		if lo < s.first {
			lo = s.first
		}
		if hi >= lo && hi > 0 && lo > 0 {
			i := lo + uint64(s.r.Intn(int(hi-lo+1)))
			sn = &raftpb.Snapshot{Data: []byte(fmt.Sprintf("sd%d", i)), Metadata: raftpb.SnapshotMetadata{Index: i, Term: s.terms[i], ConfState: s.randConf()}}
		}
	case 2:
		sn = &raftpb.Snapshot{}
	case 3: // index 0 but voters set: IsValidSnapshot accepts it
		if s.wantSnap.Metadata.Index == 0 {
			sn = &raftpb.Snapshot{Metadata: raftpb.SnapshotMetadata{ConfState: raftpb.ConfState{Voters: []uint64{1, 2, 3}}}}
		}
	}
	if sn != nil {
		snTxt = snapText(*sn)
	}
	op := fmt.Sprintf("save %s %s %d %s", hsTxt, snTxt, start, groups)
	var cc *crashCtx
	if len(ents) <= 600 {
		idx := uint64(0)
		if len(ents) > 0 {
			idx = start
		}
		if cc = s.arm(op, idx, ents, preLast); cc != nil {
			cc.postHS, cc.postSnap = cc.preHS, cc.preSnap
			if hs != nil && !raft.IsEmptyHardState(*hs) {
				cc.postHS = *hs
			}
			if sn != nil && raftlog.IsValidSnapshot(*sn) {
				cc.postSnap = *sn
			}
		}
	}
	var err error
	p := hx.Safe(func() { err = s.rds.Save(hs, ents, sn) })
	s.finish(cc)
	ans := "ok"
	if p != "" {
		ans = "err " + p
	} else if err != nil {
		ans = "err " + errName(err)
	}
	line := s.emit(op, ans)
	if ans != "ok" {
		s.viol(line, "save_failed", "Save: "+ans)
	}
	// reference
	if len(ents) > 0 {
		cp := make([]raftpb.Entry, len(ents))
		copy(cp, ents)
		if p := hx.Safe(func() { _ = s.ms.Append(cp) }); p != "" {
			s.viol(line, "reference_panic", "Append "+p)
		}
		if s.first == 0 || s.refFirst() != s.first {
			s.first = s.refFirst()
		}
	}
	if hs != nil && !raft.IsEmptyHardState(*hs) {
		s.wantHS = *hs
		_ = s.ms.SetHardState(*hs)
	}
	if sn != nil && raftlog.IsValidSnapshot(*sn) {
		s.wantSnap = *sn
		s.c.Count("save:with-snapshot")
	}
	s.c.Count("op:save")
	if len(ents) == 0 {
		s.c.Count("save:no-entries")
	}
	if len(ents) > 0 && start <= preLast && !s.dead {
		// "appending at an index that already exists discards that entry and everything after it":
		// what lay behind the new end must be gone, in every read path
		s.c.Count("save:conflict-probes")
		s.qTerm(s.last + 1)
		if preLast > s.last {
			s.qTerm(preLast)
			s.qEnts(s.last, preLast+1, 1<<40)
		}
		s.qEnts(s.last, s.last+1, 1<<40)
		s.qLast()
	}
}

// oversizeAtCurrentStart: a conflicting save at the first index of the current file (slot 0: the
// conflict handling empties the file) whose first entry does not fit an empty file.  Before fix
// 2e7189b the empty file was rotated into the list of rotated files and hid the earlier ones.
func (s *seq) oversizeAtCurrentStart() {
	parts := strings.Split(listFiles(filepath.Join(s.dir, "__raft_entries__")), ",")
	var first uint64
	for _, p := range parts { // fid:size:first — the current file is the one with the largest first index
		f := strings.Split(p, ":")
		if len(f) == 3 {
			if x, err := strconv.ParseUint(f[2], 10, 64); err == nil && x > first {
				first = x
			}
		}
	}
	if len(parts) < 2 || first <= s.commit || first > s.last {
		return
	}
	sz := maxSize - dataOff - 4 + 1 + s.r.Intn(3)
	s.c.Count("save:oversize-at-slot-0-of-the-current-file")
	t := maxU(s.curTerm, s.terms[first]) + 1
	s.doSave(first, []group{{n: 1, term: t, typ: 0, pl: payload{run: true, n: sz, b: byte(1 + s.r.Intn(250))}}}, 1, 0)
	s.qTerm(s.first)
	if first > s.first+3 {
		s.qTerm(first - 2)
		s.qEnts(first-3, first+1, 1<<40)
	}
}

// fileOf: which file (counted from the start of the log) an index lives in, for statistics
// only; exact only while no conflict moved the boundaries.
func (s *seq) fileOf(i uint64) uint64 {
	if i == 0 {
		return 0
	}
	return (i - 1) / capSlots
}

func (s *seq) randConf() raftpb.ConfState {
	switch s.r.Intn(3) {
	case 0:
		return raftpb.ConfState{Voters: []uint64{1, 2, 3}}
	case 1:
		return raftpb.ConfState{Voters: []uint64{1 + uint64(s.r.Intn(5))}, Learners: []uint64{7, 8}}
	}
	return raftpb.ConfState{Voters: []uint64{2, 4}}
}

// genSave picks a batch: append or conflict, sizes biased to cross a slot-table boundary.
func (s *seq) genSave(profile int) { s.genSaveAt(profile, 0) }

// genSaveAt: forced != 0 fixes the first index (a conflict the caller aims at a file boundary)
func (s *seq) genSaveAt(profile int, forced uint64) {
	start := s.last + 1
	if forced != 0 {
		start = forced
	} else if s.last > s.commit && s.r.Chance(40) {
		// conflict: somewhere in (commit, last]
		span := s.last - s.commit
		which := s.r.Intn(4)
		if profile == 5 && s.last > capSlots && s.r.Chance(50) {
			which = 1
		}
		switch which {
		case 0:
			start = s.last - uint64(s.r.Intn(int(minU(span, 3))))
		case 1: // just around a file boundary if one is in reach
			b := (s.last / capSlots) * capSlots
			if nb := int(s.last / capSlots); nb > 1 && s.r.Bool() {
				b = uint64(1+s.r.Intn(nb)) * capSlots // an earlier boundary: more than one file gets deleted
			}
			d := uint64(s.r.Intn(8))
			cand := b + 1 - minU(d, b)
			if s.r.Bool() {
				cand = b + 1 + d
			}
			if b > 0 && cand > s.commit && cand <= s.last {
				start = cand
			} else {
				start = s.commit + 1 + uint64(s.r.Intn(int(span)))
			}
		default:
			start = s.commit + 1 + uint64(s.r.Intn(int(span)))
		}
	}
	// term: never below the term of the entry before; a conflict carries a higher term than
	// the entry it replaces
	t := s.curTerm
	if start >= 1 && start-1 <= s.last && start-1 >= 1 {
		t = s.terms[start-1]
	}
	if start <= s.last {
		t = maxU(t, s.terms[start]+1)
		t = maxU(t, s.curTerm+uint64(s.r.Intn(2)))
	} else if s.r.Chance(25) || t == 0 {
		t++
	}
	if t == 0 {
		t = 1
	}
	total := 1 + s.r.Intn(12)
	big := false
	switch {
	case forced != 0:
		if s.r.Bool() {
			total = 1 + s.r.Intn(3) // short: part of the old tail lies behind the new end
		}
	case profile >= 1 && s.r.Chance(35):
		// reach just before / exactly / just past the next slot-table boundary
		nextB := ((start-1)/capSlots + 1) * capSlots
		total = int(nextB-start+1) + s.r.Intn(21) - 10
		if total < 1 {
			total = 1
		}
		big = total > 2000
	case s.r.Chance(10):
		total = 50 + s.r.Intn(400)
	case s.r.Chance(5):
		total = 0
	}
	var gs []group
	left := total
	for left > 0 {
		n := left
		if !big && n > 1 {
			n = 1 + s.r.Intn(n)
		} else if big && s.r.Chance(50) && n > 20 {
			n = n - s.r.Intn(20)
		}
		gs = append(gs, group{n: n, term: t, typ: s.r.Intn(3) % 3, pl: s.randPayload(big && n > 50)})
		left -= n
		if s.r.Chance(20) {
			t++
		}
	}
	if total > 0 && (start-1)/capSlots != (start+uint64(total)-2)/capSlots {
		s.crossed = true
		s.sinceInteresting = 0
	}
	withHS := 0
	switch s.r.Intn(10) {
	case 0, 1, 2, 3, 4, 5:
		withHS = 1
	case 6:
		withHS = 2
	}
	withSnap := 0
	switch s.r.Intn(20) {
	case 0, 1:
		withSnap = 1
	case 2:
		withSnap = 2
	case 3:
		withSnap = 3
	}
	s.doSave(start, gs, withHS, withSnap)
}

// sizeSave: a few payloads of several MiB so that the 32 MiB cap rotates the file
func (s *seq) sizeSave() {
	start := s.last + 1
	t := maxU(s.curTerm, 1)
	var gs []group
	n := 4 + s.r.Intn(3)
	for k := 0; k < n; k++ {
		sz := maxSize/6 + s.r.Intn(maxSize/8)
		if s.r.Chance(20) {
			sz = maxSize - dataOff - 4 - s.r.Intn(3) // the largest payloads that still fit an empty file
		}
		if s.oversize && k == n-1 {
			sz = maxSize - dataOff - 4 + 1 + s.r.Intn(3) // one that does not: an empty file gets rotated away
			s.c.Count("save:payload-larger-than-a-file")
		}
		gs = append(gs, group{n: 1, term: t, typ: 0, pl: payload{run: true, n: sz, b: byte(1 + s.r.Intn(250))}})
	}
	s.crossed = true
	s.c.Count("save:size-cap-batch")
	s.doSave(start, gs, 1, 0)
}

func (s *seq) expectMksnap(i uint64) string {
	// an index below the store's first index is out of date; beyond the end unavailable
	// (the reference panics there); an index equal to the snapshot held is accepted again
	// (the reference says out-of-date, the property does not ask for a rejection)
	if i < s.refFirst() {
		return "err outofdate"
	}
	if i > s.refLast() {
		return "err unavailable"
	}
	return "ok"
}

func (s *seq) doMksnap() {
	si := s.wantSnap.Metadata.Index
	var i uint64
	switch s.r.Intn(8) {
	case 0:
		i = s.last + 1 + uint64(s.r.Intn(3))
	case 1:
		if s.first > 1 {
			i = uint64(s.r.Intn(int(s.first)))
		}
	default:
		lo, hi := maxU(si, s.first), s.commit
		if hi < lo || hi == 0 {
			i = s.last + 1
		} else {
			i = lo + uint64(s.r.Intn(int(hi-lo+1)))
		}
	}
	if i < si && i >= s.first {
		i = si // raft never asks for a snapshot older than the one it holds
	}
	cs := s.randConf()
	data := []byte(fmt.Sprintf("cd%d", i))
	op := fmt.Sprintf("mksnap %d 0 %s %s", i, confToken(cs), dataToken(data))
	cc := s.arm(op, 0, nil, s.last)
	if cc != nil {
		cc.postHS, cc.postSnap = cc.preHS, cc.preSnap
		if i >= 1 && i <= s.last {
			cc.postSnap = raftpb.Snapshot{Data: data, Metadata: raftpb.SnapshotMetadata{Index: i, Term: s.terms[i], ConfState: cs}}
		}
	}
	var err error
	p := hx.Safe(func() { err = s.rds.CreateSnapshot(i, &cs, data) })
	s.finish(cc)
	ans := "ok"
	if p != "" {
		ans = "err " + p
	} else if err != nil {
		ans = "err " + errName(err)
	}
	line := s.emit(op, ans)
	s.c.Count("op:mksnap:" + errOf(ans))
	if want := s.expectMksnap(i); ans != want {
		s.viol(line, "create_snapshot", fmt.Sprintf("CreateSnapshot(%d): store %s, expected %s (first %d last %d snap %d)", i, ans, want, s.refFirst(), s.refLast(), si))
	}
	if ans == "ok" && s.expectMksnap(i) != "ok" {
		// already reported; follow the store so that one divergence is not reported twice
		hx.Safe(func() { s.wantSnap, _ = s.rds.Snapshot() })
	} else if ans == "ok" {
		s.wantSnap = raftpb.Snapshot{Data: data, Metadata: raftpb.SnapshotMetadata{Index: i, Term: s.terms[i], ConfState: cs}}
		if i > si {
			hx.Safe(func() { _, _ = s.ms.CreateSnapshot(i, &cs, data) })
		}
	}
}

func (s *seq) doDelBefore() {
	var i uint64
	switch s.r.Intn(6) {
	case 0:
		if s.first > 1 {
			i = uint64(s.r.Intn(int(s.first)))
		}
	case 1:
		i = s.commit
	case 2: // up to the last index and one beyond, when everything is committed
		if s.commit == s.last {
			i = s.last + uint64(s.r.Intn(2))
		} else {
			i = s.commit
		}
	default:
		if s.commit > 0 {
			i = 1 + uint64(s.r.Intn(int(s.commit)))
		}
	}
	op := fmt.Sprintf("delbefore %d", i)
	cc := s.arm(op, 0, nil, s.last)
	if cc != nil {
		cc.postHS, cc.postSnap, cc.delBound = cc.preHS, cc.preSnap, i
	}
	var err error
	p := hx.Safe(func() { err = s.rds.DeleteBefore(i) })
	s.finish(cc)
	ans := "ok"
	if p != "" {
		ans = "err " + p
	} else if err != nil {
		ans = "err " + errName(err)
	}
	line := s.emit(op, ans)
	s.c.Count("op:delbefore:" + errOf(ans))
	if p != "" {
		s.viol(line, "panic", "DeleteBefore "+p)
	}
	s.syncFirst(line, i, fmt.Sprintf("DeleteBefore(%d)", i))
	s.probes()
}

func minInt(a, b int) int {
	if a < b {
		return a
	}
	return b
}

func minU(a, b uint64) uint64 {
	if a < b {
		return a
	}
	return b
}
func maxU(a, b uint64) uint64 {
	if a > b {
		return a
	}
	return b
}

// ---------------------------------------------------------------- one sequence

func (s *seq) advanceCommit() {
	if s.last > s.commit {
		d := s.last - s.commit
		switch s.r.Intn(4) {
		case 0:
			s.commit = s.last
		case 1:
			s.commit += uint64(s.r.Intn(int(d + 1)))
		case 2:
			if d > 40 { // leave a tail that conflicts can hit, possibly across a file boundary
				s.commit = s.last - uint64(s.r.Intn(40))
			}
		}
	}
}

func runSeq(c *hx.Ctx, r *hx.Rng, id int, root string, profile int, rw int) {
	s := &seq{c: c, r: r, id: id, dir: filepath.Join(root, fmt.Sprintf("s%d", id)), ms: raft.NewMemoryStorage(), terms: []uint64{0}, first: 1, rw: rw}
	defer func() {
		rec.on = false
		if s.rds != nil {
			hx.Safe(func() { _ = s.rds.Close() })
		}
		os.RemoveAll(s.dir)
		os.RemoveAll(strings.TrimRight(s.dir, "x"))
		os.RemoveAll(s.dir + "-img")
	}()
	os.RemoveAll(s.dir)
	config.SetEntryFileRWType(rw)
	if !s.open() {
		line := s.emit(fmt.Sprintf("new %d", rw), "err init")
		s.viol(line, "init_failed", "Init on an empty directory failed")
		return
	}
	s.emit(fmt.Sprintf("new %d", rw), "ok")
	c.Count(fmt.Sprintf("profile:%d", profile))
	c.Count(fmt.Sprintf("rw-type:%d", rw))
	if s.r.Chance(30) {
		s.queries(2) // the empty log
	}
	nops := 6 + s.r.Intn(30)
	s.crashMax, s.tornPer = 24, 1
	if c.Tier == "thorough" {
		s.crashMax, s.tornPer = 32, 1
	}
	if v := c.Arg("crashmax", ""); v != "" {
		s.crashMax, _ = strconv.Atoi(v)
	}
	if v := c.Arg("torn", ""); v != "" {
		s.tornPer, _ = strconv.Atoi(v)
	}
	crashWanted := profile == 5 || (profile <= 2 && s.r.Chance(6))
	if c.Arg("crash", "1") == "0" {
		crashWanted = false
	}
	s.byteMask = 0xff
	if crashWanted {
		s.byteMask = 3
	}
	switch profile {
	case 1: // start close to the first slot-table boundary
		n := maxInt(1, int(capSlots)-30) + s.r.Intn(50)
		k := 1 + s.r.Intn(3)
		var gs []group
		for j := 0; j < k; j++ {
			m := n / k
			if j == k-1 {
				m = n - (n/k)*(k-1)
			}
			gs = append(gs, group{n: m, term: uint64(1 + j), typ: 0, pl: s.randPayload(true)})
		}
		if s.r.Chance(30) {
			gs[0].pl = payload{data: []byte{0xab & s.byteMask, byte(s.r.Intn(256)) & s.byteMask}}
		}
		s.doSave(1, gs, 1, 0)
		s.crossed = n > int(capSlots)
		s.advanceCommit()
		nops = 6 + s.r.Intn(16)
	case 2: // two or three files from the start
		n := maxInt(2, 2*int(capSlots)-20) + s.r.Intn(int(capSlots)/2)
		s.doSave(1, []group{{n: n / 2, term: 1, typ: 0, pl: payload{data: []byte{1}}}, {n: n - n/2, term: 2, typ: 0, pl: payload{}}}, 1, 0)
		s.crossed = true
		s.advanceCommit()
		nops = 6 + s.r.Intn(14)
	case 3:
		if s.r.Chance(40) {
			// the very first entry does not fit an empty file: AddEntries rotates the empty current
			// file into the list of rotated files and writes the entry into the next one
			sz := maxSize - dataOff - 4 + 1 + s.r.Intn(3)
			s.c.Count("save:first-payload-larger-than-a-file")
			s.doSave(1, []group{{n: 1, term: 1, typ: 0, pl: payload{run: true, n: sz, b: byte(1 + s.r.Intn(250))}}, {n: 1 + s.r.Intn(3), term: 1, typ: 0, pl: payload{data: []byte{7}}}}, 1, 0)
			s.crossed = true
			s.advanceCommit()
			s.queries(4)
			s.boundaryProbes()
		}
	case 5: // crash images inside operations: small logs, or a log prepared so that the armed
		// operations rotate, or conflict into a rotated file with one or two files behind it
		nops = 4 + s.r.Intn(7)
		var n int
		switch s.r.Intn(6) {
		case 1:
			n = maxInt(1, int(capSlots)-3-s.r.Intn(12))
		case 2:
			n = int(capSlots) + 2 + s.r.Intn(9)
		case 3, 4:
			n = 2*int(capSlots) + 1 + s.r.Intn(7)
		}
		if n > 0 {
			pl := payload{}
			if s.r.Chance(40) {
				pl = payload{data: []byte{0xc1 & s.byteMask, byte(s.r.Intn(256)) & s.byteMask}}
			}
			s.doSave(1, []group{{n: n, term: 1, typ: 0, pl: pl}}, 1, 0)
			s.crossed = n > int(capSlots)
			// keep the tail of the first file uncommitted so that conflicts can reach back into it
			s.commit = uint64(maxInt(0, minInt(n, int(capSlots))-3-s.r.Intn(8)))
			three := n > 2*int(capSlots)
			if !three && s.r.Chance(35) {
				s.commit = s.last - uint64(s.r.Intn(3))
			}
		}
		s.crashOn = crashWanted
		if nb := int(s.last / capSlots); nb >= 1 && s.commit < capSlots && (nb > 1 || s.r.Chance(70)) {
			// aimed: a conflicting save at the end of an earlier file, so that one or two later files
			// (and the current one) are deleted and that file becomes current again
			b := capSlots
			if nb > 1 && s.r.Chance(15) {
				b = 2 * capSlots
			}
			at := b - uint64(s.r.Intn(4)) // the last slots of the earlier file
			if s.r.Chance(20) {
				at = b + 1 + uint64(s.r.Intn(3)) // the first slots of the later one
			}
			if at > s.commit && at <= s.last {
				s.genSaveAt(profile, at)
				s.queries(2)
			}
		}
	}
	s.crashOn = crashWanted
	for k := 0; k < nops && !s.dead; k++ {
		x := s.r.Intn(100)
		switch {
		case x < 45:
			s.genSave(profile)
			if profile != 5 || s.r.Chance(50) {
				s.advanceCommit()
			}
		case x < 55:
			s.doMksnap()
		case x < 65:
			s.doDelBefore()
		case x < 77:
			s.doReopen()
			if !s.dead {
				s.qFiles()
			}
		case x < 80:
			s.doCrashRotate()
			if !s.dead {
				s.qFiles()
			}
		case x < 83 && profile == 3:
			s.sizeSave()
			s.advanceCommit()
		case x < 90 && profile == 4:
			s.doInstall()
		default:
			s.queries(1 + s.r.Intn(3))
			continue
		}
		if s.dead {
			break
		}
		if s.r.Chance(25) {
			s.qFiles()
		}
		s.queries(1 + s.r.Intn(4))
	}
	if profile == 3 && !s.dead {
		s.oversize = s.r.Chance(35)
		s.sizeSave()
		s.oversize = false
		s.queries(3)
		if s.r.Chance(60) {
			s.oversizeAtCurrentStart()
		}
		s.doReopen()
		if !s.dead {
			s.qFiles()
			s.queries(4)
		}
	}
	if !s.dead && (s.conflict || s.crossed) {
		// always end on a reopen + full read-back of what must be there
		s.doReopen()
		if !s.dead {
			s.qFiles()
			s.qFirst()
			s.qLast()
			lo := s.first
			for lo <= s.last {
				hi := minU(lo+capSlots+7, s.last+1)
				s.qEnts(lo, hi, 1<<40)
				lo = hi
			}
			s.qSnap()
			s.qHS()
			s.boundaryProbes()
		}
	}
	if s.conflictRotated {
		c.Count("seq:conflict-into-rotated-file")
	}
	if s.conflict {
		c.Count("seq:conflict")
	}
	if s.installed {
		c.Count("seq:snapshot-install")
	}
	if s.crossed {
		c.Count("seq:crossed-file-boundary")
	}
	c.Case(s.key.String(), s.conflict || s.crossed)
	if id < 3 {
		ops := strings.Split(strings.TrimSpace(s.key.String()), "\n")
		if len(ops) > 8 {
			ops = ops[:8]
		}
		for i := range ops {
			if len(ops[i]) > 70 {
				ops[i] = ops[i][:70] + "…"
			}
		}
		c.Sample(fmt.Sprintf("seq %d (profile %d): %s", id, profile, strings.Join(ops, " | ")))
	}
}

// Run: c.N sequences.  Profiles: 0 small logs, boundary arguments; 1 logs that start a few
// entries short of the 30000-slot boundary; 2 logs of two or three files; 3 payloads of several
// MiB that cross the 32 MiB size cap; 4 small logs with snapshot installs (a snapshot beyond the
// log handed to Save: known finding snapshot_install_keeps_old_entries).
func Run(c *hx.Ctx) error {
	logger.SetLogger(zap.NewNop())
	n := c.Budget(160, 3000)
	root := os.Getenv("VERIF_SCRATCH")
	if root == "" {
		root = "/var/tmp/c17-harness"
	}
	root = filepath.Join(root, fmt.Sprintf("c17-%d", os.Getpid()))
	if err := os.MkdirAll(root, 0o755); err != nil {
		return err
	}
	defer os.RemoveAll(root)
	c.Stats.Rule = "generated op sequences on a scratch directory against the real RaftDiskStorage, the Lean model and etcd's raft.MemoryStorage: " +
		"saves (append / conflicting, batches sized to reach, hit and pass the 30000-slot table boundary, payloads of several MiB across the 32 MiB cap, term changes, hard state, snapshot), " +
		"CreateSnapshot, DeleteBefore, reopen (Close+Init, or Init on a copy of the directory taken without Close), each followed by FirstIndex/LastIndex/Term/Entries/Snapshot/InitialState " +
		"queries at boundary arguments and the directory listing; both file wrappers (entry-file-rw-type 2 and 1); for armed save / CreateSnapshot / DeleteBefore operations " +
		"the directory after every file-system mutation and after prefixes of the bytes of every write (fileops IO observer), a real store opened on each image: its answers compared with the model's " +
		"recover on the same crash point, the mutation list compared with the model's, the recovered store judged against the crash contract; " +
		"a sequence is non-trivial when a save conflicted with existing indexes or crossed a file boundary; distinct by the op lines"
	only := -1
	if v := c.Arg("only", ""); v != "" {
		only, _ = strconv.Atoi(v)
	}
	fileops.SetVerifIOObserver(rec)
	defer fileops.SetVerifIOObserver(nil)
	// fsync is not observable by anything the harness looks at (it reads through the same page
	// cache); thousands of directory images are opened and closed
	fileops.SetVerifIONoSync(true)
	defer fileops.SetVerifIONoSync(false)
	defer config.SetEntryFileRWType(config.DefaultEntryFileRWType)
	// hx.NewRng scrambles its seed (hx commit 87273d3), so consecutive -seed values give unrelated
	// streams; the harness no longer re-mixes it
	master := hx.NewRng(c.Seed)
	for id := 0; id < n; id++ {
		r := master.Fork()
		x := r.Intn(100)
		profile := 0
		switch {
		case x < 18:
			profile = 1
		case x < 25:
			profile = 2
		case x < 27:
			profile = 3
		case x < 31:
			profile = 4
		case x < 41:
			profile = 5
		}
		if v := c.Arg("profile", ""); v != "" {
			profile, _ = strconv.Atoi(v)
		}
		// a quarter of the sequences run on the other file wrapper (entry-file-rw-type = 1)
		rw := 2
		if r.Chance(25) || (profile == 5 && r.Chance(35)) {
			rw = 1
		}
		if v := c.Arg("rw", ""); v != "" {
			rw, _ = strconv.Atoi(v)
		}
		if only >= 0 && id != only {
			continue
		}
		runSeq(c, r, id, root, profile, rw)
	}
	return nil
}
