package c17

// Crash images inside one operation.
//
// Every mutation lib/raftlog issues against the file system goes through lib/fileops; the verif
// hook fileops.SetVerifIOObserver reports each one (create / write with offset and bytes /
// truncate / remove) before it is issued.  For an armed operation the harness keeps the content
// of the raft directory as it was before the operation and the list of mutations, and rebuilds
// the directory a crash would leave behind
//
//   - after every mutation (the process dies between two system calls: the property's own
//     "or the process dies"), and
//   - after a prefix of the bytes of a write (a torn write: the machine dies).
//
// A real RaftDiskStorage is opened on each image.  Its answers go to the Lean model (`pend` /
// `muts` / `crash j k lo` lines: the model derives the same mutation list from its own state and
// replays the same prefix) and to the oracle below, which states the Raft storage contract for a
// recovered store: Init succeeds; FirstIndex/LastIndex/Term/Entries agree with each other (no
// hole); every entry acknowledged by a completed Save and not overwritten by the Save in flight
// is there with its term and payload; the Save in flight is there as a whole, as a prefix, or not
// at all (the entries it was about to discard may already be gone, from the end); hard state and
// snapshot are the old or the new value, the snapshot index/term fields agree with the snapshot;
// the commit index of the hard state does not point beyond the log.

import (
	"bytes"
	"fmt"
	"os"
	"path/filepath"
	"sort"
	"strconv"
	"strings"

	"github.com/openGemini/openGemini/lib/fileops"
	"github.com/openGemini/openGemini/lib/raftlog"
	"go.etcd.io/etcd/raft/v3/raftpb"

	"verif/harness/internal/hx"
)

type mut struct {
	op   string // create | write | truncate | remove
	name string // base name inside the raft directory
	off  int64
	data []byte
	size int64
}

type recorder struct {
	dir  string
	on   bool
	muts []mut
}

func (r *recorder) BeforeMutation(m fileops.VerifMutation) {
	if !r.on || filepath.Dir(m.Path) != r.dir {
		return
	}
	x := mut{op: m.Op, name: filepath.Base(m.Path), off: m.Off, size: m.Size}
	if m.Op == "write" {
		x.data = append([]byte(nil), m.Data...)
	}
	r.muts = append(r.muts, x)
}

var rec = &recorder{}

type image map[string][]byte

func loadImage(dir string) (image, error) {
	des, err := os.ReadDir(dir)
	if err != nil {
		return nil, err
	}
	im := image{}
	for _, de := range des {
		if de.IsDir() {
			continue
		}
		b, err := os.ReadFile(filepath.Join(dir, de.Name()))
		if err != nil {
			return nil, err
		}
		im[de.Name()] = b
	}
	return im, nil
}

// written: the content of a file after the first n bytes of write m reached it
func written(f []byte, m mut, n int, inPlace bool) []byte {
	need := int(m.off) + n
	if !inPlace {
		g := make([]byte, len(f), maxInt(len(f), need))
		copy(g, f)
		f = g
	}
	if len(f) < need {
		f = append(f, make([]byte, need-len(f))...)
	}
	copy(f[m.off:], m.data[:n])
	return f
}

func maxInt(a, b int) int {
	if a > b {
		return a
	}
	return b
}

// apply one complete mutation (in place)
func (im image) apply(m mut) {
	switch m.op {
	case "create":
		if _, ok := im[m.name]; !ok {
			im[m.name] = []byte{}
		}
	case "remove":
		delete(im, m.name)
	case "truncate":
		f := im[m.name]
		if int(m.size) <= len(f) {
			im[m.name] = f[:m.size]
		} else {
			im[m.name] = append(f, make([]byte, int(m.size)-len(f))...)
		}
	case "write":
		im[m.name] = written(im[m.name], m, len(m.data), true)
	}
}

func (im image) dump(root string, override string, content []byte) error {
	d := filepath.Join(root, "__raft_entries__")
	if err := os.MkdirAll(d, 0o755); err != nil {
		return err
	}
	for name, b := range im {
		if name == override {
			b = content
		}
		if err := writeSparse(filepath.Join(d, name), b); err != nil {
			return err
		}
	}
	return nil
}

var zeroBlock = make([]byte, 1<<16)

// writeSparse creates the file with the given content, writing only the blocks that are not all
// zero (entry and meta files are mostly zeros; an image is built per crash point)
func writeSparse(path string, b []byte) error {
	f, err := os.OpenFile(path, os.O_CREATE|os.O_WRONLY|os.O_TRUNC, 0o600)
	if err != nil {
		return err
	}
	defer f.Close()
	if err := f.Truncate(int64(len(b))); err != nil {
		return err
	}
	for o := 0; o < len(b); o += len(zeroBlock) {
		e := o + len(zeroBlock)
		if e > len(b) {
			e = len(b)
		}
		if bytes.Equal(b[o:e], zeroBlock[:e-o]) {
			continue
		}
		if _, err := f.WriteAt(b[o:e], int64(o)); err != nil {
			return err
		}
	}
	return nil
}

func fidOf(name string) string {
	if name == "raft.meta" {
		return "m"
	}
	if id, err := strconv.ParseUint(strings.TrimSuffix(name, ".entry"), 10, 64); err == nil {
		return strconv.FormatUint(id, 10)
	}
	return "?" + name
}

// canonical text of a mutation; the length of a write into the meta file depends on the
// protobuf encoding, which the model treats as opaque
func (m mut) text() string {
	f := fidOf(m.name)
	switch m.op {
	case "create":
		return "c:" + f
	case "remove":
		return "r:" + f
	case "truncate":
		return fmt.Sprintf("t:%s=%d", f, m.size)
	}
	if f == "m" {
		return fmt.Sprintf("w:m@%d", m.off)
	}
	return fmt.Sprintf("w:%s@%d+%d", f, m.off, len(m.data))
}

func mutsText(ms []mut) string {
	h := uint64(fnvOff)
	var head []string
	for i, m := range ms {
		t := m.text()
		for _, c := range []byte(t) {
			h = (h ^ uint64(c)) * fnvPrime
		}
		h = (h ^ 10) * fnvPrime
		if i < 10 || i >= len(ms)-4 {
			if i == len(ms)-4 && i > 10 {
				head = append(head, "…")
			}
			head = append(head, t)
		}
	}
	return fmt.Sprintf("ok n=%d h=%d %s", len(ms), h, strings.Join(head, " "))
}

// what kind of write a mutation is, for the class of a torn-write finding
func (m mut) kind() string {
	switch {
	case m.op != "write":
		return m.op
	case m.name == "raft.meta":
		return "meta"
	case m.off == 0 && len(m.data) == dataOff:
		return "fill"
	case m.off >= int64(dataOff):
		return "payload"
	case len(m.data) == 32:
		return "slot"
	}
	return "zeroing"
}

// ---------------------------------------------------------------- the recovered store

type recov struct {
	initErr     string
	first, last uint64
	lf, ll      uint64
	hs          raftpb.HardState
	hsErr       string
	snap        raftpb.Snapshot
	snapErr     string
	si, st      uint64
	aLo, aHi    uint64
	a           []raftpb.Entry
	aErr        string
	bLo, bHi    uint64
	b           []raftpb.Entry
	bErr        string
	terms       [5]string
	files       string
	answer      string
}

func termAns(rds *raftlog.RaftDiskStorage, i uint64) string {
	var t uint64
	var err error
	if p := hx.Safe(func() { t, err = rds.Term(i) }); p != "" {
		return "panic"
	}
	if err != nil {
		return errName(err)
	}
	return strconv.FormatUint(t, 10)
}

func entsAns(rds *raftlog.RaftDiskStorage, lo, hi uint64) ([]raftpb.Entry, string, string) {
	var es []raftpb.Entry
	var err error
	if p := hx.Safe(func() { es, err = rds.Entries(lo, hi, 1<<62) }); p != "" {
		return nil, "panic", "err:panic"
	}
	if err != nil {
		return nil, errName(err), "err:" + errName(err)
	}
	ends := "-"
	if len(es) > 0 {
		ends = fmt.Sprintf("%d..%d", es[0].Index, es[len(es)-1].Index)
	}
	return es, "", fmt.Sprintf("%d:%s:%d", len(es), ends, hashEntries(es))
}

func listFiles(d string) string {
	des, err := os.ReadDir(d)
	if err != nil {
		return "err"
	}
	type fi struct{ fid, size, first uint64 }
	var fs []fi
	for _, de := range des {
		if !strings.HasSuffix(de.Name(), ".entry") {
			continue
		}
		id, _ := strconv.ParseUint(strings.TrimSuffix(de.Name(), ".entry"), 10, 64)
		st, err := de.Info()
		if err != nil {
			continue
		}
		var first uint64
		if b, err := readAt(filepath.Join(d, de.Name()), 8, 8); err == nil {
			first = be64(b)
		}
		fs = append(fs, fi{id, uint64(st.Size()), first})
	}
	sort.Slice(fs, func(i, j int) bool { return fs[i].fid < fs[j].fid })
	var b strings.Builder
	for i, f := range fs {
		if i > 0 {
			b.WriteByte(',')
		}
		fmt.Fprintf(&b, "%d:%d:%d", f.fid, f.size, f.first)
	}
	if b.Len() == 0 {
		return "-"
	}
	return b.String()
}

// recoverOn opens a real store on the image and questions it.  lo: where the first window of
// entries starts (around the first index the operation touched).
func recoverOn(root string, lo uint64) *recov {
	r := &recov{}
	var rds *raftlog.RaftDiskStorage
	var err error
	if p := hx.Safe(func() { rds, err = raftlog.Init(root, 0) }); p != "" {
		r.initErr = "panic"
		r.answer = "err panic"
		return r
	}
	if err != nil {
		r.initErr = "init"
		r.answer = "err init"
		return r
	}
	defer func() { hx.Safe(func() { _ = rds.Close() }) }()
	bad := hx.Safe(func() {
		r.first, _ = rds.FirstIndex()
		r.last, _ = rds.LastIndex()
		r.lf, r.ll = rds.GetFirstLast()
		r.si, r.st = rds.Uint(raftlog.SnapshotIndex), rds.Uint(raftlog.SnapshotTerm)
	})
	if bad != "" {
		r.initErr = "panic"
		r.answer = "err panic-in-queries"
		return r
	}
	hsTxt := ""
	if p := hx.Safe(func() { r.hs, err = rds.HardState() }); p != "" {
		r.hsErr, hsTxt = "panic", "panic"
	} else if err != nil {
		r.hsErr, hsTxt = "unreadable", "err"
	} else {
		hsTxt = fmt.Sprintf("%d,%d,%d", r.hs.Term, r.hs.Vote, r.hs.Commit)
	}
	snTxt := ""
	if p := hx.Safe(func() { r.snap, err = rds.Snapshot() }); p != "" {
		r.snapErr, snTxt = "panic", "panic"
	} else if err != nil {
		r.snapErr, snTxt = "unreadable", "err"
	} else {
		snTxt = snapText(r.snap)
	}
	r.aLo = maxU(r.lf, lo)
	r.aHi = minU(r.ll+1, r.aLo+60)
	if r.aHi < r.aLo {
		r.aHi = r.aLo
	}
	r.bHi = r.ll + 1
	r.bLo = maxU(r.lf, r.bHi-minU(r.bHi, 9))
	if r.bLo > r.bHi {
		r.bLo = r.bHi
	}
	var aTxt, bTxt string
	r.a, r.aErr, aTxt = entsAns(rds, r.aLo, r.aHi)
	r.b, r.bErr, bTxt = entsAns(rds, r.bLo, r.bHi)
	var lfm1 uint64
	if r.lf > 0 {
		lfm1 = r.lf - 1
	}
	for i, x := range []uint64{lfm1, r.lf, r.ll, r.ll + 1, r.si} {
		r.terms[i] = termAns(rds, x)
	}
	hx.Safe(func() { _ = rds.Close() })
	r.files = listFiles(filepath.Join(root, "__raft_entries__"))
	r.answer = fmt.Sprintf("ok f=%d l=%d lf=%d ll=%d hs=%s snap=%s si=%d,%d a=%d-%d=%s b=%d-%d=%s t=%s files=%s",
		r.first, r.last, r.lf, r.ll, hsTxt, snTxt, r.si, r.st, r.aLo, r.aHi, aTxt, r.bLo, r.bHi, bTxt, strings.Join(r.terms[:], "/"), r.files)
	return r
}

// ---------------------------------------------------------------- the oracle

type elog struct {
	first uint64 // index of ents[0]
	ents  []raftpb.Entry
}

func (l elog) last() uint64 {
	if len(l.ents) == 0 {
		return l.first - 1
	}
	return l.first + uint64(len(l.ents)) - 1
}
func (l elog) at(i uint64) (raftpb.Entry, bool) {
	if i < l.first || i > l.last() {
		return raftpb.Entry{}, false
	}
	return l.ents[i-l.first], true
}

func sameEntry(a, b raftpb.Entry) bool {
	return a.Index == b.Index && a.Term == b.Term && a.Type == b.Type && bytes.Equal(a.Data, b.Data)
}

type crashCtx struct {
	op        string
	pre       elog // the acknowledged log before the operation (reference)
	idx       uint64
	newEnts   []raftpb.Entry
	preHS     raftpb.HardState
	postHS    raftpb.HardState
	preSnap   raftpb.Snapshot
	postSnap  raftpb.Snapshot
	preFirst  uint64
	preLast   uint64
	delBound  uint64
	img       image
	lo        uint64
	armedLine int
}

func snapEq(a, b raftpb.Snapshot) bool { return snapText(a) == snapText(b) }

// judge: does the recovered store honour the contract?  ("" = yes)
func (cc *crashCtx) judge(r *recov) (class, desc string) {
	if r.initErr == "panic" {
		return "crash_panic", "opening the store on the image panics (" + r.answer + ")"
	}
	if r.initErr != "" {
		return "crash_init_failed", "Init fails on the image"
	}
	if r.first != r.lf {
		return "crash_log_hole", fmt.Sprintf("FirstIndex %d but the entry log starts at %d", r.first, r.lf)
	}
	if r.hsErr != "" {
		return "crash_hardstate_unreadable", "HardState() " + r.hsErr
	}
	if r.snapErr != "" {
		return "crash_snapshot_unreadable", "Snapshot() " + r.snapErr
	}
	if !(r.hs == cc.preHS || r.hs == cc.postHS) {
		return "crash_hardstate_mixed", fmt.Sprintf("hard state %v is neither the old %v nor the new %v", r.hs, cc.preHS, cc.postHS)
	}
	if !(snapEq(r.snap, cc.preSnap) || snapEq(r.snap, cc.postSnap)) {
		return "crash_snapshot_mixed", fmt.Sprintf("snapshot %s is neither the old %s nor the new %s", snapText(r.snap), snapText(cc.preSnap), snapText(cc.postSnap))
	}
	if r.si != r.snap.Metadata.Index || r.st != r.snap.Metadata.Term {
		return "crash_snapshot_meta_mismatch", fmt.Sprintf("SnapshotIndex/Term fields %d/%d next to snapshot %d/%d", r.si, r.st, r.snap.Metadata.Index, r.snap.Metadata.Term)
	}
	want := r.ll
	if want < r.si {
		want = r.si
	}
	if r.last != want {
		return "crash_log_hole", fmt.Sprintf("LastIndex %d, entry log ends at %d, snapshot %d", r.last, r.ll, r.si)
	}
	// the two windows must be exactly the ranges asked for
	for _, w := range []struct {
		lo, hi uint64
		es     []raftpb.Entry
		err    string
	}{{r.aLo, r.aHi, r.a, r.aErr}, {r.bLo, r.bHi, r.b, r.bErr}} {
		if w.err != "" {
			return "crash_log_hole", fmt.Sprintf("Entries(%d,%d) inside [first %d, last %d] answers %s", w.lo, w.hi, r.lf, r.ll, w.err)
		}
		if uint64(len(w.es)) != w.hi-w.lo {
			return "crash_log_hole", fmt.Sprintf("Entries(%d,%d) inside [first %d, last %d] returns %d entries", w.lo, w.hi, r.lf, r.ll, len(w.es))
		}
		for k := range w.es {
			if w.es[k].Index != w.lo+uint64(k) {
				return "crash_log_hole", fmt.Sprintf("Entries(%d,%d): position %d holds index %d", w.lo, w.hi, k, w.es[k].Index)
			}
		}
	}
	if r.ll >= r.lf && len(r.b) > 0 {
		if t := strconv.FormatUint(r.b[len(r.b)-1].Term, 10); r.terms[2] != t {
			return "crash_log_hole", fmt.Sprintf("Term(%d) = %s, the entry says %s", r.ll, r.terms[2], t)
		}
	}
	// compaction: never resurrect, never beyond the snapshot / the index asked for
	nonEmptyPre := cc.preLast >= cc.preFirst
	if nonEmptyPre {
		bound := maxU(r.snap.Metadata.Index, cc.delBound)
		if r.lf < cc.preFirst || !(r.lf == cc.preFirst || (r.lf <= bound && r.lf <= r.ll)) {
			return "crash_compaction_out_of_bounds", fmt.Sprintf("first index %d (was %d, bound %d, log ends at %d)", r.lf, cc.preFirst, bound, r.ll)
		}
	}
	// content
	newLast := cc.preLast
	if len(cc.newEnts) > 0 {
		newLast = cc.newEnts[len(cc.newEnts)-1].Index
	}
	if cc.idx == 0 {
		if r.ll != cc.preLast && nonEmptyPre {
			return "crash_lost_acked", fmt.Sprintf("the log ends at %d, acknowledged up to %d", r.ll, cc.preLast)
		}
	} else {
		if nonEmptyPre && r.ll+1 < minU(cc.idx, cc.preLast+1) {
			return "crash_lost_acked", fmt.Sprintf("the log ends at %d; entries below %d were acknowledged and are not touched by the save in flight", r.ll, cc.idx)
		}
		if r.ll > maxU(cc.preLast, newLast) {
			return "crash_log_hole", fmt.Sprintf("the log ends at %d, beyond both the old end %d and the new end %d", r.ll, cc.preLast, newLast)
		}
	}
	onlyOld, onlyNew := uint64(0), uint64(0)
	check := func(es []raftpb.Entry) (string, string) {
		for _, e := range es {
			old, hasOld := cc.pre.at(e.Index)
			if cc.idx == 0 || e.Index < cc.idx {
				if !hasOld {
					continue // below the reference's first index: compacted there, nothing to compare
				}
				if !sameEntry(e, old) {
					c := "crash_wrong_entry"
					if e.Term != old.Term {
						c = "crash_wrong_term"
					}
					return c, fmt.Sprintf("index %d: recovered (term %d, type %d, %d bytes), acknowledged (term %d, type %d, %d bytes)", e.Index, e.Term, e.Type, len(e.Data), old.Term, old.Type, len(old.Data))
				}
				continue
			}
			var nw raftpb.Entry
			hasNew := e.Index-cc.idx < uint64(len(cc.newEnts))
			if hasNew {
				nw = cc.newEnts[e.Index-cc.idx]
			}
			mo, mn := hasOld && sameEntry(e, old), hasNew && sameEntry(e, nw)
			switch {
			case mo && mn:
			case mo:
				if onlyOld == 0 {
					onlyOld = e.Index
				}
			case mn:
				if onlyNew == 0 {
					onlyNew = e.Index
				}
			default:
				c := "crash_wrong_entry"
				if (!hasOld || e.Term != old.Term) && (!hasNew || e.Term != nw.Term) {
					c = "crash_wrong_term"
				}
				return c, fmt.Sprintf("index %d: recovered (term %d, type %d, %d bytes) is neither the old entry nor the one being saved", e.Index, e.Term, e.Type, len(e.Data))
			}
		}
		return "", ""
	}
	if c, d := check(r.a); c != "" {
		return c, d
	}
	if c, d := check(r.b); c != "" {
		return c, d
	}
	if onlyOld != 0 && onlyNew != 0 {
		return "crash_mixed_old_new", fmt.Sprintf("index %d is the entry being saved, index %d the old entry it must have replaced", onlyNew, onlyOld)
	}
	if onlyNew != 0 && r.ll > newLast {
		return "crash_mixed_old_new", fmt.Sprintf("new entries present and the log ends at %d beyond the new end %d", r.ll, newLast)
	}
	if r.hs.Commit > r.last {
		return "crash_commit_beyond_log", fmt.Sprintf("hard state commit %d, last index %d", r.hs.Commit, r.last)
	}
	return "", ""
}

// ---------------------------------------------------------------- arming an operation

func (s *seq) refLog() elog {
	f, l := s.refFirst(), s.refLast()
	lg := elog{first: f}
	if l >= f {
		hx.Safe(func() { lg.ents, _ = s.ms.Entries(f, l+1, 1<<62) })
	}
	return lg
}

// arm: start recording; emits the `pend` line.  Returns nil when the operation is not armed.
func (s *seq) arm(op string, idx uint64, newEnts []raftpb.Entry, preLast uint64) *crashCtx {
	if !s.crashOn || s.installed || s.dead {
		return nil
	}
	d := filepath.Join(s.dir, "__raft_entries__")
	img, err := loadImage(d)
	if err != nil {
		return nil
	}
	cc := &crashCtx{op: op, pre: s.refLog(), idx: idx, newEnts: newEnts, preHS: s.wantHS, preSnap: s.wantSnap,
		preFirst: s.first, preLast: preLast, img: img}
	cc.lo = preLast
	if idx > 0 {
		cc.lo = idx
	}
	if cc.lo > 6 {
		cc.lo -= 6
	} else {
		cc.lo = 1
	}
	cc.armedLine = s.emit("pend "+op, "ok")
	rec.dir, rec.muts, rec.on = d, nil, true
	return cc
}

var tornCuts = []int{1, 2, 3, 4, 5, 8, 9, 12, 16, 17, 20, 24, 25, 28, 31, 33, 36, 511, 512, 513, 4095, 4096, 4097}

// finish: stop recording, build the images, question them.  Called before the operation's own
// line is emitted.
func (s *seq) finish(cc *crashCtx) {
	rec.on = false
	muts := rec.muts
	rec.muts = nil
	if cc == nil {
		return
	}
	s.emit("muts", mutsText(muts))
	s.c.Count("crash:armed-ops")
	M := len(muts)
	// which boundaries
	pick := map[int]bool{}
	if M+1 <= s.crashMax {
		for j := 0; j <= M; j++ {
			pick[j] = true
		}
	} else {
		q := s.crashMax / 4
		for j := 0; j <= q; j++ {
			pick[j] = true
			pick[M-j] = true
		}
		for j, m := range muts {
			if m.op != "write" || len(m.data) > 4096 {
				for d := -2; d <= 2; d++ {
					if j+d >= 0 && j+d <= M {
						pick[j+d] = true
					}
				}
			}
		}
		for k := 0; k < q; k++ {
			pick[s.r.Intn(M+1)] = true
		}
	}
	js := make([]int, 0, len(pick))
	for j := range pick {
		js = append(js, j)
	}
	sort.Ints(js)
	root := s.dir + "-img"
	cur := cc.img
	done := 0
	try := func(j, k int, m *mut) {
		os.RemoveAll(root)
		var err error
		if k > 0 {
			err = cur.dump(root, m.name, written(cur[m.name], *m, k, false))
		} else {
			err = cur.dump(root, "", nil)
		}
		if err != nil {
			return
		}
		r := recoverOn(root, cc.lo)
		os.RemoveAll(root)
		// not for the model: torn meta writes (the protobuf bytes are opaque there), and on the
		// type-1 wrapper a new file cut inside its first slot (FileWrap slices its pooled buffer
		// beyond the file's length: what it reads there depends on earlier files of the process)
		toModel := !(k > 0 && (m.kind() == "meta" || (m.kind() == "fill" && k < 32 && s.rw == 1)))
		line := cc.armedLine
		if toModel {
			line = s.emit(fmt.Sprintf("crash %d %d %d", j, k, cc.lo), r.answer)
		}
		class, desc := cc.judge(r)
		what := "after all its mutations"
		if j < M {
			what = fmt.Sprintf("before mutation %d of %d (%s)", j+1, M, muts[j].text())
		}
		if j > 0 {
			what += fmt.Sprintf(", after %s", muts[j-1].text())
		}
		if k > 0 {
			what = fmt.Sprintf("with the first %d of %d bytes of mutation %d of %d (%s) written", k, len(m.data), j+1, M, m.text())
			s.c.Count("crash:torn:" + m.kind())
		} else {
			s.c.Count("crash:boundary")
		}
		if class != "" {
			if k > 0 {
				// finding classes exist for the torn writes the format cannot survive (no checksum, no
				// commit mark): a slot write cut behind its term field, the zeroing write, a meta write,
				// a new file cut inside its first slot.  The cuts proved harmless (payload writes, a slot
				// write cut inside the term, a new file cut later) get a class of their own, which is
				// not a known finding.
				desc = class + ": " + desc
				switch kind := m.kind(); {
				case kind == "slot" && k <= 8:
					class = "torn_write_slot_inside_term"
				case kind == "fill" && k >= 32:
					class = "torn_write_fill_behind_first_slot"
				default:
					class = "torn_write_" + kind
				}
			}
			s.viol(line, class, fmt.Sprintf("crash inside `%s` %s: %s [image: crash %d %d]", clip(cc.op, 120), what, desc, j, k))
		}
	}
	for _, j := range js {
		// bring cur to "j mutations done"
		for done < j {
			cur.apply(muts[done])
			done++
		}
		try(j, 0, nil)
		if j < M && muts[j].op == "write" && len(muts[j].data) > 1 {
			m := muts[j]
			var cand []int
			for _, c := range tornCuts {
				if c < len(m.data) {
					cand = append(cand, c)
				}
			}
			if len(m.data) > 40 {
				cand = append(cand, len(m.data)-1, len(m.data)/2, 1+s.r.Intn(len(m.data)-1))
			}
			n := s.tornPer
			if m.kind() == "slot" {
				n++
			}
			for t := 0; t < n && len(cand) > 0; t++ {
				x := s.r.Intn(len(cand))
				k := cand[x]
				cand = append(cand[:x], cand[x+1:]...)
				try(j, k, &m)
			}
		}
	}
	for done < M {
		cur.apply(muts[done])
		done++
	}
	// the shadow after all mutations must be the directory the store really wrote
	if now, err := loadImage(filepath.Join(s.dir, "__raft_entries__")); err == nil {
		same := len(now) == len(cur)
		for n, b := range now {
			if !bytes.Equal(cur[n], b) {
				same = false
			}
		}
		if !same {
			s.viol(cc.armedLine, "crash_recorder_incomplete", "replaying the recorded mutations on the directory before `"+clip(cc.op, 80)+"` does not give the directory after it: a mutation bypassed lib/fileops")
		}
	}
}

func clip(s string, n int) string {
	if len(s) > n {
		return s[:n] + "…"
	}
	return s
}
