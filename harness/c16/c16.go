// Package c16: correspondence harness for C16 (the catalogue stays well-formed).
//
// The real meta state machine (storeFSM over meta.Data, through the verif hook) is driven by
//   - a depth-first, bounded-exhaustive enumeration of command sequences over a small
//     alphabet of concrete commands (one database / policy, instants around two group
//     boundaries, duration changes, deletes, prunes, failing schema commands), and
//   - random long logs over every modelled command type with valid and invalid arguments.
//
// After every single step the canonical dump goes to the Lean driver (`chk`), which evaluates
// WF on it and compares it with the model's own state; the Go side evaluates WF independently
// (spec diff) and checks that a failed command left the catalogue unchanged.
package c16

import (
	"fmt"
	"math"
	"strings"
	"time"

	"verif/harness/internal/hx"
	"verif/harness/metax"
)

func init() { hx.Register("C16", Run) }

func Run(c *hx.Ctx) error {
	// hx.NewRng(s+1) is hx.NewRng(s) advanced by one step; scramble the seed so that consecutive
	// seeds give unrelated streams
	r := hx.NewRng(hx.NewRng(c.Seed).U64() ^ 0xC16)
	c.Stats.Rule = "sequence in which a command failed, a group was created after a duration change or a delete, or a measurement was created again after a purge"
	depth := 4
	if c.Tier == "thorough" {
		depth = 5
	}
	if v := c.Arg("depth", ""); v != "" {
		fmt.Sscan(v, &depth)
	}
	nRandom := c.Budget(200, 10000)
	logLen := 60
	if c.Tier == "thorough" {
		logLen = 150
	}
	if c.Arg("exhaustive", "1") == "1" {
		exhaustive(c, depth)
	}
	for i := 0; i < nRandom; i++ {
		randomLog(c, r.Fork(), logLen)
	}
	// Part C: every registered command type (the 40 outside the Lean model too), oracle only
	if c.Arg("allkinds", "1") == "1" {
		for i := 0; i < nRandom; i++ {
			allKindsLog(c, r.Fork(), logLen)
		}
	}
	return nil
}

// tracker follows one sequence and classifies well-formedness violations.
type tracker struct {
	c           *hx.Ctx
	hist        []string
	durChanged  bool // a successful UpdateRetentionPolicy changed ShardGroupDuration of a policy with live groups
	cancelled   bool // a CancelDelete resurrected a deleted group
	idxPruned   bool // an index was pruned while the sequence had shard groups
	farPast     bool // a group was created so early that its start precedes the int64 nanosecond range
	beyondMax   bool // a group was created for the instant math.MaxInt64 (one past MaxNanoTime)
	reported    map[string]bool
	failedSeen  bool
	interesting bool
	history     *metax.History // names / ids handed out so far (the history clauses of the oracle)
	resharded   bool           // a ReSharding split the last group: the new group lies inside the old one's span
	ownerless   bool           // ReSharding asked for more shards than there are partitions: a shard without owner and index
	dropped     bool           // a DropMeasurement purged an entry
	recreated   bool           // a measurement was created after a purge (the life cycle went round)
}

func newTracker(c *hx.Ctx) *tracker {
	return &tracker{c: c, reported: map[string]bool{}, history: metax.NewHistory()}
}

func (t *tracker) clone() *tracker {
	n := *t
	n.hist = append([]string(nil), t.hist...)
	n.reported = map[string]bool{}
	for k, v := range t.reported {
		n.reported[k] = v
	}
	n.history = t.history.Clone()
	return &n
}

// step applies one command on the instance, emits the two op lines and the spec checks.
// Returns false when the sequence must stop (panic).
func (t *tracker) step(in *metax.Inst, cmd metax.Cmd) bool {
	c := t.c
	before := in.DumpCatalogue().String()
	liveGroups, sgDur := groupFacts(in)
	marksBefore := markedObjects(in, strings.HasPrefix(cmd.Text, "PruneGroups 1 "))
	var factsBefore map[string]uint64
	if structural[cmd.Kind] {
		factsBefore = objFacts(in)
	}
	res := in.Apply(cmd)
	t.hist = append(t.hist, cmd.Text+" => "+res.String())
	c.Count("cmd:" + cmd.Kind)
	ln := c.Emit("cmd "+cmd.Text, res.String())
	if res.Panic {
		c.Count("panic:" + cmd.Kind)
		// (the ShardKeys[0] panic of a key-less measurement was repaired by 01de664: no class)
		c.Violation(ln, "", fmt.Sprintf("%s panics: %s after %s", cmd.Kind, res.Err, strings.Join(tail(t.hist, 10), " | ")))
		return false
	}
	t.pruneMarksOnlyItsTarget(in, cmd, marksBefore, ln)
	if factsBefore != nil && res.OK {
		t.structuralOracle(in, cmd, factsBefore, ln)
	}
	after := in.DumpCatalogue()
	if !res.OK {
		c.Count("err:" + cmd.Kind)
		t.failedSeen = true
		if as := after.String(); as != before {
			c.Violation(ln, "failed_cmd_changed_catalogue", fmt.Sprintf("%s returned %s but changed the catalogue after %s", cmd.Kind, res, strings.Join(tail(t.hist, 10), " | ")))
		}
	} else {
		c.Count("ok:" + cmd.Kind)
		// facts for the classification of later violations
		liveAfter, durAfter := groupFacts(in)
		switch cmd.Kind {
		case "UpdateRetentionPolicy":
			for k, dur := range durAfter {
				if old, ok := sgDur[k]; ok && old != dur && liveGroups[k] > 0 {
					t.durChanged = true
				}
			}
			// a rename moves the groups to another key
			for k, n := range liveGroups {
				if _, ok := durAfter[k]; !ok && n > 0 {
					for k2, d2 := range durAfter {
						if _, had := sgDur[k2]; !had && d2 != sgDur[k] {
							t.durChanged = true
						}
					}
				}
			}
		case "DeleteShardGroup":
			for k, n := range liveAfter {
				if n > liveGroups[k] {
					t.cancelled = true
				}
			}
		case "ReSharding":
			t.resharded = true
		case "PruneGroups":
			if strings.HasPrefix(cmd.Text, "PruneGroups 0 ") {
				t.idxPruned = true
			}
		case "CreateShardGroup":
			if startBeforeInt64Range(in) {
				t.farPast = true
			}
			if strings.Contains(cmd.Text, " 9223372036854775807 ") {
				t.beyondMax = true
			}
			if t.durChanged || t.cancelled || strings.Contains(strings.Join(t.hist, "|"), "DeleteShardGroup") {
				t.interesting = true
			}
		}
	}
	// history clauses: versioned names and ids are handed out at most once, version counters
	// never go back (OG.C16.Issued)
	dropsBefore := t.dropped
	if res.OK && cmd.Kind == "DropMeasurement" && after.String() != before {
		t.dropped = true
	}
	if res.OK && cmd.Kind == "CreateMeasurement" && dropsBefore && after.String() != before {
		t.recreated = true
		c.Count("lifecycle:create-after-purge")
	}
	for _, f := range t.history.Observe(in.Data(), cmd.Kind) {
		if t.reported[f.Class] {
			continue
		}
		t.reported[f.Class] = true
		c.Violation(ln, f.Class, fmt.Sprintf("%s after %s", f.Desc, strings.Join(tail(t.hist, 14), " | ")))
	}
	v := metax.WFViolations(in.Data())
	verdict := "ok"
	if len(v) > 0 {
		verdict = strings.Join(v, ",")
	}
	ln2 := c.Emit("chk "+metax.ModelDump(in.Data()), "wf "+verdict+" same")
	for _, clause := range v {
		if t.reported[clause] {
			continue
		}
		t.reported[clause] = true
		c.Violation(ln2, t.classify(clause), fmt.Sprintf("clause %s violated after %s", clause, strings.Join(tail(t.hist, 12), " | ")))
	}
	return true
}

func (t *tracker) classify(clause string) string {
	switch clause {
	case "disjoint", "aligned", "sorted":
		switch {
		case t.farPast:
			return "group_start_before_int64_range"
		case t.beyondMax && clause == "disjoint":
			return "group_beyond_max_nanotime"
		case t.resharded:
			return "resharding_splits_inside_last_group"
		case t.durChanged:
			return "group_after_duration_change"
		case t.cancelled:
			return "cancel_delete_resurrects_stale_group"
		}
	case "refs":
		if t.idxPruned {
			return "index_pruned_under_live_shard"
		}
		// (owner-less shards after ReSharding were repaired by 20a54a7: no class, `ownerless` only
		// feeds the description)
	}
	return ""
}

// groupFacts: per policy (db/rp key) the number of live shard groups and the shard-group duration.
func groupFacts(in *metax.Inst) (map[string]int, map[string]int64) {
	live := map[string]int{}
	dur := map[string]int64{}
	for dbn, db := range in.Data().Databases {
		for rk, rp := range db.RetentionPolicies {
			k := dbn + "/" + rk
			dur[k] = int64(rp.ShardGroupDuration)
			n := 0
			for i := range rp.ShardGroups {
				if rp.ShardGroups[i].DeletedAt.IsZero() {
					n++
				}
			}
			live[k] = n
		}
	}
	return live, dur
}

// startBeforeInt64Range: some group starts before the earliest instant an int64 nanosecond
// count can express (its UnixNano, and therefore its persisted form, wraps around).
func startBeforeInt64Range(in *metax.Inst) bool {
	min := time.Unix(0, math.MinInt64)
	for _, db := range in.Data().Databases {
		for _, rp := range db.RetentionPolicies {
			for i := range rp.ShardGroups {
				if rp.ShardGroups[i].StartTime.Before(min) {
					return true
				}
			}
		}
	}
	return false
}

func tail(xs []string, n int) []string {
	if len(xs) > n {
		return xs[len(xs)-n:]
	}
	return xs
}

// ---- random long logs -------------------------------------------------------------------

func modelledKinds() []string {
	var ks []string
	u := metax.NewUniverse(hx.NewRng(1))
	u.Modelled = true
	for _, k := range metax.Kinds() {
		if u.GenKind(k).Text != "" {
			ks = append(ks, k)
		}
	}
	return ks
}

var kindsModelled = modelledKinds()

func randomLog(c *hx.Ctx, r *hx.Rng, logLen int) {
	u := metax.NewUniverse(r.Fork())
	u.Modelled = true
	in := metax.NewInst()
	u.State = in.Data
	t := newTracker(c)
	c.Emit("reset", "ok")
	var pro []metax.Cmd
	if r.Chance(90) {
		pro = metax.Bootstrap(u)
	}
	n := len(pro) + 1 + r.Intn(logLen)
	// structured sub-sequences: measurement life cycles spliced into the random commands
	var script []metax.ScriptStep
	scriptAt := -1
	if r.Chance(45) {
		script = metax.RandomLifeCycle(u, r).Steps
		scriptAt = len(pro) + r.Intn(n-len(pro))
		n += len(script)
		c.Count("lifecycle:scripted-log")
	}
	for i := 0; i < n; i++ {
		var cmd metax.Cmd
		switch {
		case i < len(pro):
			cmd = pro[i]
		case i >= scriptAt && len(script) > 0 && scriptAt >= 0 && r.Chance(75):
			cmd = script[0](in.Data())
			script = script[1:]
		default:
			cmd = u.Gen(kindsModelled)
		}
		if streamsAndPrune(in, cmd) {
			c.Count("stop:schema-clean-with-streams")
			break
		}
		if !t.step(in, cmd) {
			break
		}
		if tooManyGroups(in) {
			break // beyond 12 elements sort.Sort is no longer the insertion sort the model transcribes
		}
	}
	c.Case(strings.Join(t.hist, "|"), t.failedSeen || t.interesting || t.recreated)
	if len(c.Stats.Samples) < 2 {
		c.Sample(strings.Join(tail(t.hist, 6), " | "))
	}
}

func tooManyGroups(in *metax.Inst) bool {
	for _, db := range in.Data().Databases {
		for _, rp := range db.RetentionPolicies {
			if len(rp.ShardGroups) >= 12 || len(rp.IndexGroups) >= 12 {
				return true
			}
		}
	}
	return false
}

// ---- Part C: all 65 command types against the oracle alone ---------------------------------

// allKindsLog drives one replica with random commands of *every* registered type (valid and
// invalid arguments, life-cycle scripts spliced in). There is no model answer for most of them
// (the op lines are `note`s); what is checked is the specification itself: the history clauses
// (versioned names and ids handed out at most once, new ids above every id seen, version
// counters never go back) and the clauses of WF that do not depend on how groups are laid out
// in time: ids unique, ids below their counters, every shard's index and partitions exist, the
// default policy exists.
func allKindsLog(c *hx.Ctx, r *hx.Rng, logLen int) {
	u := metax.NewUniverse(r.Fork())
	in := metax.NewInst()
	u.State = in.Data
	t := newTracker(c)
	var pro []metax.Cmd
	if r.Chance(90) {
		pro = metax.Bootstrap(u)
	}
	n := len(pro) + 1 + r.Intn(logLen)
	var script []metax.ScriptStep
	scriptAt := -1
	if r.Chance(40) {
		script = metax.RandomLifeCycle(u, r).Steps
		scriptAt = len(pro) + r.Intn(n-len(pro))
		n += len(script)
	}
	for i := 0; i < n; i++ {
		var cmd metax.Cmd
		switch {
		case i < len(pro):
			cmd = pro[i]
		case scriptAt >= 0 && i >= scriptAt && len(script) > 0 && r.Chance(75):
			cmd = script[0](in.Data())
			script = script[1:]
		default:
			cmd = u.Gen(nil)
		}
		if !t.stepOracleOnly(in, cmd) {
			break
		}
	}
	c.Case("all|"+strings.Join(t.hist, "|"), t.failedSeen || t.recreated)
}

// markedObjects: ids of the shards (true) / indexes (false) that carry MarkDelete.
func markedObjects(in *metax.Inst, shards bool) map[uint64]bool {
	out := map[uint64]bool{}
	for _, db := range in.Data().Databases {
		for _, rp := range db.RetentionPolicies {
			if shards {
				for i := range rp.ShardGroups {
					for _, s := range rp.ShardGroups[i].Shards {
						if s.MarkDelete {
							out[s.ID] = true
						}
					}
				}
			} else {
				for i := range rp.IndexGroups {
					for _, x := range rp.IndexGroups[i].Indexes {
						if x.MarkDelete {
							out[x.ID] = true
						}
					}
				}
			}
		}
	}
	return out
}

// pruneMarksOnlyItsTarget: PruneGroups(kind, id) may mark the object with that id and nothing
// else (the ids of a group are not contiguous after ExpandGroups).
func (t *tracker) pruneMarksOnlyItsTarget(in *metax.Inst, cmd metax.Cmd, before map[uint64]bool, ln int) {
	w := strings.Fields(cmd.Text)
	if cmd.Kind != "PruneGroups" || len(w) != 3 {
		return
	}
	var id uint64
	fmt.Sscan(w[2], &id)
	for got := range markedObjects(in, w[1] == "1") {
		if !before[got] && got != id && !t.reported["prune_marked_other_object"] {
			t.reported["prune_marked_other_object"] = true
			t.c.Violation(ln, "prune_marked_other_object", fmt.Sprintf("%s marked object %d after %s", cmd.Text, got, strings.Join(tail(t.hist, 14), " | ")))
		}
	}
}

// the commands the structural oracle looks at
var structural = map[string]bool{"UpdateShardInfoTier": true, "UpdateIndexInfoTier": true, "CreateShardGroup": true, "ExpandGroups": true,
	"ReSharding": true, "CreateContinuousQuery": true, "CreateSubscription": true, "DropSubscription": true}

// objFacts: what the structural oracle remembers of the catalogue before a command — the tier of
// every shard ("s<id>") and index ("x<id>").
func objFacts(in *metax.Inst) map[string]uint64 {
	out := map[string]uint64{"#maxsub": in.Data().MaxSubscriptionID}
	for _, db := range in.Data().Databases {
		for _, rp := range db.RetentionPolicies {
			for i := range rp.ShardGroups {
				for _, s := range rp.ShardGroups[i].Shards {
					out[fmt.Sprint("s", s.ID)] = s.Tier
				}
			}
			for i := range rp.IndexGroups {
				for _, x := range rp.IndexGroups[i].Indexes {
					out[fmt.Sprint("x", x.ID)] = x.Tier
				}
			}
		}
	}
	return out
}

// structuralOracle: four facts that need no model.  (0) A subscription command that succeeds
// advances MaxSubscriptionID (the stores poll it to learn that the subscriptions changed).  (1) UpdateShardInfoTier / UpdateIndexInfoTier
// change the tier of the object they name and of nothing else.  (2) A shard created by
// CreateShardGroup / ExpandGroups / ReSharding uses the index of its own partition.  (3) A
// continuous-query name exists in one database only (CreateContinuousQuery refuses a name that
// any database has).
func (t *tracker) structuralOracle(in *metax.Inst, cmd metax.Cmd, before map[string]uint64, ln int) {
	report := func(class, msg string) {
		if !t.reported[class] {
			t.reported[class] = true
			t.c.Violation(ln, class, msg+" after "+strings.Join(tail(t.hist, 14), " | "))
		}
	}
	switch cmd.Kind {
	case "CreateSubscription", "DropSubscription":
		if now := in.Data().MaxSubscriptionID; now <= before["#maxsub"] {
			report("subscription_change_without_counter", fmt.Sprintf("%s succeeded, MaxSubscriptionID stays %d", cmd.Kind, now))
		}
	case "UpdateShardInfoTier", "UpdateIndexInfoTier":
		w := strings.Fields(cmd.Text)
		if len(w) < 2 {
			return
		}
		pre := "s"
		if cmd.Kind == "UpdateIndexInfoTier" {
			pre = "x"
		}
		for k, tier := range objFacts(in) {
			if old, ok := before[k]; ok && old != tier && k[:1] == pre && k != pre+w[1] {
				report("tier_changed_other_object", fmt.Sprintf("%s changed the tier of %s", cmd.Text, k))
			}
		}
	case "CreateShardGroup", "ExpandGroups", "ReSharding":
		for _, db := range in.Data().Databases {
			for _, rp := range db.RetentionPolicies {
				owners := map[uint64][]uint32{}
				for i := range rp.IndexGroups {
					for _, x := range rp.IndexGroups[i].Indexes {
						owners[x.ID] = x.Owners
					}
				}
				for i := range rp.ShardGroups {
					for _, s := range rp.ShardGroups[i].Shards {
						if _, old := before[fmt.Sprint("s", s.ID)]; old || len(s.Owners) == 0 {
							continue
						}
						xo, ok := owners[s.IndexID]
						if !ok {
							continue // clause refs
						}
						same := false
						for _, p := range xo {
							same = same || p == s.Owners[0]
						}
						if !same {
							report("shard_index_on_other_partition", fmt.Sprintf("%s: new shard %d of partition %d uses index %d of partitions %v", cmd.Kind, s.ID, s.Owners[0], s.IndexID, xo))
						}
					}
				}
			}
		}
	case "CreateContinuousQuery":
		seen := map[string]string{}
		for dbn, db := range in.Data().Databases {
			for n := range db.ContinuousQueries {
				if other, dup := seen[n]; dup {
					report("cq_name_in_two_databases", fmt.Sprintf("continuous query %s exists in %s and %s", n, other, dbn))
				}
				seen[n] = dbn
			}
		}
	}
}

func hasOwnerlessShard(in *metax.Inst) bool {
	for _, db := range in.Data().Databases {
		for _, rp := range db.RetentionPolicies {
			for i := range rp.ShardGroups {
				for _, s := range rp.ShardGroups[i].Shards {
					if len(s.Owners) == 0 {
						return true
					}
				}
			}
		}
	}
	return false
}

// clauses of WF that hold whatever the time layout of the groups is (`ptview` is left out: the
// unmodelled UpdatePtInfo / RemoveNode / DeleteDataNode take partition owners and node ids from
// the HA manager as they come, the generator's arbitrary ones leave owners that do not exist)
var layoutFree = map[string]bool{"ids": true, "counters": true, "refs": true, "default": true, "users": true}

func (t *tracker) stepOracleOnly(in *metax.Inst, cmd metax.Cmd) bool {
	c := t.c
	marksBefore := markedObjects(in, strings.HasPrefix(cmd.Text, "PruneGroups 1 "))
	var factsBefore map[string]uint64
	if structural[cmd.Kind] {
		factsBefore = objFacts(in)
	}
	res := in.Apply(cmd)
	t.hist = append(t.hist, cmd.Desc+" => "+res.String())
	c.Count("all-cmd:" + cmd.Kind)
	line := "note all " + cmd.Kind + " " + res.String()
	ln := c.Emit(line, line)
	if !res.Panic {
		t.pruneMarksOnlyItsTarget(in, cmd, marksBefore, ln)
		if factsBefore != nil && res.OK {
			t.structuralOracle(in, cmd, factsBefore, ln)
		}
	}
	if res.Panic {
		c.Count("all-panic:" + cmd.Kind)
		return false // C15 records and classifies the panics of the unmodelled commands
	}
	if !res.OK {
		t.failedSeen = true
	}
	if res.OK && metax.ReplacesCatalogue(cmd.Kind) {
		// the catalogue now is whatever the command carried (the generator's is not a
		// well-formed one): nothing to hold the code to from here on
		return false
	}
	if res.OK && cmd.Kind == "DropMeasurement" {
		t.dropped = true
	}
	if res.OK && cmd.Kind == "CreateMeasurement" && t.dropped {
		t.recreated = true
	}
	if res.OK && cmd.Kind == "ReSharding" && hasOwnerlessShard(in) {
		t.ownerless = true
	}
	if cmd.Kind == "PruneGroups" || cmd.Kind == "UpdateRetentionPolicy" || cmd.Kind == "DeleteShardGroup" {
		// the facts the classification of the known findings needs
		t.idxPruned = t.idxPruned || strings.Contains(cmd.Text, "PruneGroups 0 ")
	}
	for _, f := range t.history.Observe(in.Data(), cmd.Kind) {
		if t.reported[f.Class] {
			continue
		}
		t.reported[f.Class] = true
		c.Violation(ln, f.Class, fmt.Sprintf("%s after %s", f.Desc, strings.Join(tail(t.hist, 14), " | ")))
	}
	for _, clause := range metax.WFViolations(in.Data()) {
		if !layoutFree[clause] || t.reported[clause] {
			continue
		}
		t.reported[clause] = true
		c.Violation(ln, t.classify(clause), fmt.Sprintf("clause %s violated after %s", clause, strings.Join(tail(t.hist, 12), " | ")))
	}
	return true
}

// ---- bounded-exhaustive enumeration -----------------------------------------------------

const H = metax.Hour

func alphabet() []metax.Cmd {
	u := metax.NewUniverse(hx.NewRng(7))
	u.Modelled = true
	mk := func(text string) metax.Cmd { return metax.FromText(text) }
	return []metax.Cmd{
		mk(fmt.Sprintf("CreateShardGroup db0 autogen %d 1 0 0", 3*H+H/2)),
		mk(fmt.Sprintf("CreateShardGroup db0 autogen %d 1 0 0", 4*H)),
		mk(fmt.Sprintf("CreateShardGroup db0 autogen %d 1 0 0", 7*H)),
		mk(fmt.Sprintf("UpdateRetentionPolicy db0 autogen _ _ %d _ _ _ _ 0", 3*H)),
		mk(fmt.Sprintf("UpdateRetentionPolicy db0 autogen _ %d %d _ _ _ _ 0", 24*H, 2*H)),
		mk("DeleteShardGroup db0 autogen 1 0"),
		mk("DeleteShardGroup db0 autogen 1 1"),
		mk("PruneGroups 1 1"),
		mk("PruneGroups 0 1"),
		mk("CreateMeasurement db0 autogen m1 hash:t0 0 f0:1:_,f0:3:_"),
		mk("UpdateSchema db0 autogen m0 f1:1:_,f0:3:_"),
		mk("CreateDataNode 10.0.0.2:8400 10.0.0.2:8401 -"),
		mk("UpdateRetentionPolicy db0 autogen rp9 _ _ _ _ _ _ 0"),
		mk("DropRetentionPolicy db0 autogen"),
		// the delete life cycle of the prologue's measurement: mark, purge, create again
		mk("MarkMeasurementDelete db0 autogen m0"),
		mk("DropMeasurement db0 autogen m0_0000"),
		mk("CreateMeasurement db0 autogen m0 hash:t0 0 f0:1:_"),
		// after the second data node: every group gets a shard and an index for the new partition
		mk("ExpandGroups"),
	}
}

func prologue() []metax.Cmd {
	return []metax.Cmd{
		metax.FromText("CreateDataNode 10.0.0.1:8400 10.0.0.1:8401 -"),
		// shard groups of 2h, index groups of 4h: a boundary computed with the wrong duration shows
		metax.FromText(fmt.Sprintf("CreateDatabase db0 rp autogen 1 0 %d 0 0 %d 0 0 1", 2*H, 4*H)),
		metax.FromText("CreateDbPtView db0"),
		metax.FromText("CreateMeasurement db0 autogen m0 hash:t0 0 f0:1:_"),
	}
}

func exhaustive(c *hx.Ctx, depth int) {
	alpha := alphabet()
	pro := prologue()
	c.Emit("reset", "ok")
	base := newTracker(c)
	in := metax.NewInst()
	for _, cmd := range pro {
		if !base.step(in, cmd) {
			return
		}
	}
	var path []metax.Cmd
	var dfs func(t *tracker, d int)
	dfs = func(t *tracker, d int) {
		if d == depth {
			c.Case(strings.Join(t.hist, "|"), t.failedSeen || t.interesting || t.recreated)
			return
		}
		for _, a := range alpha {
			// rebuild the implementation state of this node from scratch
			in := metax.NewInst()
			for _, cmd := range pro {
				in.Apply(cmd)
			}
			for _, cmd := range path {
				in.Apply(cmd)
			}
			c.Emit("push", "ok")
			t2 := t.clone()
			ok := t2.step(in, a)
			if ok {
				path = append(path, a)
				dfs(t2, d+1)
				path = path[:len(path)-1]
			}
			c.Emit("pop", "ok")
		}
	}
	dfs(base, 0)
	c.Count(fmt.Sprintf("exhaustive:depth=%d,alphabet=%d", depth, len(alpha)))
}

// streamsAndPrune: PruneGroups(shard) may run the schema clean, whose MarkMeasurementDelete is
// refused for a measurement a stream reads or writes; the model's clean pass does not look at
// the streams - modelled logs end here (the two-replica and all-kinds runs go on).
func streamsAndPrune(in *metax.Inst, cmd metax.Cmd) bool {
	return cmd.Kind == "PruneGroups" && strings.HasPrefix(cmd.Text, "PruneGroups 1 ") && len(in.Data().Streams) > 0
}
