package c18

import (
	"bytes"
	"encoding/json"
	"fmt"
	"io"
	"math"
	"net"
	"net/http"
	"net/url"
	"os"
	"os/exec"
	"os/signal"
	"path/filepath"
	"sort"
	"strconv"
	"strings"
	"syscall"
	"time"

	"github.com/golang/snappy"
	"github.com/prometheus/prometheus/prompb"
)

// ---- a single-node ts-server built from /repo's working tree ------------------------------
//
// The binary is built on every run (`go build ./app/ts-server` in /repo with the environment
// of the harness, so a VERIF_OVERLAY mutant reaches the server too), started in its own
// process group with every path and port redirected into a scratch directory, and killed with
// the whole group at exit. A shell watchdog in the same group kills the server and removes the
// scratch directory if the harness itself dies (timeout kill by ./check).

type ogServer struct {
	base string
	dir  string
	cmd  *exec.Cmd
	hc   *http.Client
	sigc chan os.Signal
}

func freePorts(n int) ([]int, error) {
	var ls []net.Listener
	var out []int
	for i := 0; i < n; i++ {
		l, err := net.Listen("tcp", "127.0.0.1:0")
		if err != nil {
			return nil, err
		}
		ls = append(ls, l)
		out = append(out, l.Addr().(*net.TCPAddr).Port)
	}
	for _, l := range ls {
		l.Close()
	}
	return out, nil
}

func tail(s string, n int) string {
	if len(s) > n {
		return s[len(s)-n:]
	}
	return s
}

func repoDir() string {
	if r := os.Getenv("VERIF_REPO"); r != "" {
		return r
	}
	return "/repo"
}

func (s *ogServer) stop() {
	if s == nil {
		return
	}
	if s.sigc != nil {
		signal.Stop(s.sigc)
	}
	if s.cmd != nil && s.cmd.Process != nil {
		_ = syscall.Kill(-s.cmd.Process.Pid, syscall.SIGKILL)
		_, _ = s.cmd.Process.Wait()
	}
	// the in-process server keeps running until the harness exits (it panics when its files vanish):
	// its directory lies in the scratch directory of ./check, which removes it afterwards
	if os.Getenv("C18_KEEP") == "" && s.cmd != nil {
		_ = os.RemoveAll(s.dir)
	}
}

func startServer(dir string) (*ogServer, error) {
	repo := repoDir()
	if err := os.MkdirAll(dir, 0o755); err != nil {
		return nil, err
	}
	bin := filepath.Join(dir, "ts-server")
	build := exec.Command("go", "build", "-o", bin, "./app/ts-server")
	build.Dir = repo
	build.Env = os.Environ()
	tb := time.Now()
	out, err := build.CombinedOutput()
	if os.Getenv("C18_VERBOSE") != "" {
		fmt.Fprintf(os.Stderr, "TIMING go build ts-server %v\n", time.Since(tb))
	}
	if err != nil {
		return nil, fmt.Errorf("build ts-server: %v: %s", err, tail(string(out), 1500))
	}
	conf, httpPort, err := serverConfig(dir)
	if err != nil {
		return nil, err
	}
	cf := filepath.Join(dir, "server.conf")
	if err := os.WriteFile(cf, []byte(conf), 0o644); err != nil {
		return nil, err
	}
	// watchdog wrapper: $PPID keeps the pid of the harness; when that process is gone the
	// server is killed and the scratch directory removed.
	script := `"$1" -config "$2" > "$3/server.out" 2>&1 &
pid=$!
while kill -0 $PPID 2>/dev/null && kill -0 $pid 2>/dev/null; do sleep 1; done
kill -9 $pid 2>/dev/null
if ! kill -0 $PPID 2>/dev/null; then rm -rf "$3"; fi
`
	cmd := exec.Command("/bin/sh", "-c", script, "sh", bin, cf, dir)
	cmd.Dir = dir
	cmd.SysProcAttr = &syscall.SysProcAttr{Setpgid: true}
	cmd.Env = append(os.Environ(), "HOME="+dir)
	if err := cmd.Start(); err != nil {
		return nil, err
	}
	s := &ogServer{base: fmt.Sprintf("http://127.0.0.1:%d", httpPort), dir: dir, cmd: cmd,
		hc: &http.Client{Timeout: 60 * time.Second}}
	s.sigc = make(chan os.Signal, 1)
	signal.Notify(s.sigc, syscall.SIGINT, syscall.SIGTERM)
	go func() {
		if _, ok := <-s.sigc; ok {
			s.stop()
			os.Exit(4)
		}
	}()
	deadline := time.Now().Add(120 * time.Second)
	for time.Now().Before(deadline) {
		resp, err := s.hc.Get(s.base + "/ping")
		if err == nil {
			resp.Body.Close()
			if resp.StatusCode == 204 {
				return s, nil
			}
		}
		time.Sleep(250 * time.Millisecond)
	}
	b, _ := os.ReadFile(filepath.Join(dir, "server.out"))
	s.stop()
	return nil, fmt.Errorf("ts-server did not come up: %s", tail(string(b), 800))
}

func (s *ogServer) influx(db, q string) (string, error) {
	v := url.Values{}
	v.Set("q", q)
	if db != "" {
		v.Set("db", db)
	}
	resp, err := s.hc.Post(s.base+"/query?"+v.Encode(), "application/x-www-form-urlencoded", nil)
	if err != nil {
		return "", err
	}
	defer resp.Body.Close()
	b, _ := io.ReadAll(resp.Body)
	if resp.StatusCode != 200 || bytes.Contains(b, []byte(`"error"`)) {
		return string(b), fmt.Errorf("influxql %q: status %d: %s", q, resp.StatusCode, tail(string(b), 300))
	}
	return string(b), nil
}

// remoteWrite sends the sample set through the Prometheus remote-write endpoint.
func (s *ogServer) remoteWrite(db string, set *sampleSet) error {
	// "can't map point to shard" is answered now and then while the shard group of a new database is
	// being created under load: the write is repeated (nothing was written)
	var err error
	for try := 0; try < 8; try++ {
		if err = s.remoteWriteOnce(db, set); err == nil || !strings.Contains(err.Error(), "can't map point to shard") {
			return err
		}
		time.Sleep(250 * time.Millisecond)
	}
	return err
}

func (s *ogServer) remoteWriteOnce(db string, set *sampleSet) error {
	var req prompb.WriteRequest
	for _, sr := range set.series {
		ts := prompb.TimeSeries{}
		for _, l := range sr.labels {
			ts.Labels = append(ts.Labels, prompb.Label{Name: l.name, Value: l.value})
		}
		for _, p := range sr.points {
			ts.Samples = append(ts.Samples, prompb.Sample{Timestamp: p.t, Value: p.v})
		}
		req.Timeseries = append(req.Timeseries, ts)
	}
	raw, err := req.Marshal()
	if err != nil {
		return err
	}
	body := snappy.Encode(nil, raw)
	hreq, _ := http.NewRequest("POST", s.base+"/api/v1/write?db="+url.QueryEscape(db), bytes.NewReader(body))
	hreq.Header.Set("Content-Encoding", "snappy")
	hreq.Header.Set("Content-Type", "application/x-protobuf")
	hreq.Header.Set("X-Prometheus-Remote-Write-Version", "0.1.0")
	resp, err := s.hc.Do(hreq)
	if err != nil {
		return err
	}
	defer resp.Body.Close()
	b, _ := io.ReadAll(resp.Body)
	if resp.StatusCode != 204 {
		return fmt.Errorf("remote write: status %d: %s", resp.StatusCode, tail(string(b), 300))
	}
	return nil
}

type promResp struct {
	Status    string `json:"status"`
	ErrorType string `json:"errorType"`
	Error     string `json:"error"`
	Data      struct {
		ResultType string            `json:"resultType"`
		Result     json.RawMessage   `json:"result"`
	} `json:"data"`
}

type promSeries struct {
	Metric map[string]string `json:"metric"`
	Value  []interface{}     `json:"value"`
	Values [][]interface{}   `json:"values"`
}

func parsePromFloat(x interface{}) (float64, error) {
	s, ok := x.(string)
	if !ok {
		return 0, fmt.Errorf("value is not a string: %v", x)
	}
	return strconv.ParseFloat(s, 64)
}

func parsePromTime(x interface{}) (int64, error) {
	switch v := x.(type) {
	case float64:
		return int64(math.Round(v * 1000)), nil
	case json.Number:
		f, err := v.Float64()
		return int64(math.Round(f * 1000)), err
	}
	return 0, fmt.Errorf("time is not a number: %v", x)
}

// promQuery runs an instant (step == 0) or range query; the answer is canonical.
func (s *ogServer) promQuery(db string, q *query) result {
	v := url.Values{}
	v.Set("db", db)
	v.Set("query", q.text)
	if q.lb != lookbackMs {
		v.Set("lookback-delta", durText(q.lb))
	}
	path := "/api/v1/query"
	if q.step == 0 {
		v.Set("time", msToParam(q.start))
	} else {
		path = "/api/v1/query_range"
		v.Set("start", msToParam(q.start))
		v.Set("end", msToParam(q.end))
		v.Set("step", msToParam(q.step))
	}
	resp, err := s.hc.Post(s.base+path, "application/x-www-form-urlencoded", strings.NewReader(v.Encode()))
	if err != nil {
		return result{err: "transport: " + err.Error()}
	}
	defer resp.Body.Close()
	b, _ := io.ReadAll(resp.Body)
	var pr promResp
	if err := json.Unmarshal(b, &pr); err != nil {
		return result{err: fmt.Sprintf("http %d, body is not JSON: %s", resp.StatusCode, tail(string(b), 200))}
	}
	if pr.Status != "success" {
		return result{err: ogErrClass(resp.StatusCode, pr.ErrorType, pr.Error)}
	}
	res := result{}
	switch pr.Data.ResultType {
	case "vector", "matrix":
		var ss []promSeries
		if len(pr.Data.Result) > 0 && string(pr.Data.Result) != "null" {
			if err := json.Unmarshal(pr.Data.Result, &ss); err != nil {
				return result{err: "bad result: " + err.Error()}
			}
		}
		for _, x := range ss {
			rs := rseries{}
			for k, v := range x.Metric {
				rs.labels = append(rs.labels, label{k, v})
			}
			sort.Slice(rs.labels, func(i, j int) bool { return rs.labels[i].name < rs.labels[j].name })
			vals := x.Values
			if x.Value != nil {
				vals = append(vals, x.Value)
			}
			for _, tv := range vals {
				if len(tv) != 2 {
					return result{err: "bad sample pair"}
				}
				t, err := parsePromTime(tv[0])
				if err != nil {
					return result{err: err.Error()}
				}
				f, err := parsePromFloat(tv[1])
				if err != nil {
					return result{err: err.Error()}
				}
				rs.points = append(rs.points, point{t, f})
			}
			res.series = append(res.series, rs)
		}
	case "scalar":
		return result{err: "scalar result"}
	default:
		return result{err: "result type " + pr.Data.ResultType}
	}
	res.canon()
	return res
}

func msToParam(ms int64) string {
	return fmt.Sprintf("%d.%03d", ms/1000, ms%1000)
}

// sumCounts adds up the count column of an InfluxQL `SELECT count(value) FROM /.*/` answer.
func sumCounts(body string) int {
	var r struct {
		Results []struct {
			Series []struct {
				Values [][]interface{} `json:"values"`
			} `json:"series"`
		} `json:"results"`
	}
	if err := json.Unmarshal([]byte(body), &r); err != nil {
		return -1
	}
	n := 0
	for _, res := range r.Results {
		for _, s := range res.Series {
			for _, v := range s.Values {
				if len(v) == 2 {
					if f, ok := v[1].(float64); ok {
						n += int(f)
					}
				}
			}
		}
	}
	return n
}

// flush forces every memtable of the server into data files.
func (s *ogServer) flush() error {
	resp, err := s.hc.Post(s.base+"/debug/ctrl?mod=flush", "application/x-www-form-urlencoded", nil)
	if err != nil {
		return err
	}
	defer resp.Body.Close()
	b, _ := io.ReadAll(resp.Body)
	if resp.StatusCode != 200 && resp.StatusCode != 204 {
		return fmt.Errorf("flush: status %d: %s", resp.StatusCode, tail(string(b), 200))
	}
	return nil
}

// ogErrClass maps an openGemini error answer onto the enum of upstreamErrClass where the two
// engines have the same notion of error.
func ogErrClass(status int, typ, msg string) string {
	switch {
	case strings.Contains(msg, "vector cannot contain metrics with the same labelset"):
		return "dup-labelset"
	case strings.Contains(msg, "duplicate matchTags of primary map building"):
		return "dup-match"
	case strings.Contains(msg, "one-to-one duplicate result matchkeys"):
		return "many-to-one"
	}
	return fmt.Sprintf("http %d %s: %s", status, typ, msg)
}
