package c18

import (
	"fmt"
	"math"
	"sort"
	"strconv"
	"strings"
)

// staleBits is the bit pattern of the Prometheus staleness marker (value.StaleNaN).
const staleBits uint64 = 0x7ff0000000000002

type label struct{ name, value string }

type point struct {
	t int64 // milliseconds
	v float64
}

type series struct {
	labels []label // sorted by name, includes __name__
	points []point // strictly increasing t
}

type sampleSet struct {
	series []series
	allInt bool // every non-stale value is an integer of small magnitude
	cuts   []int64 // layout: the samples up to each bound were flushed into a data file of their own
}

func labelsKey(ls []label) string {
	var sb strings.Builder
	sb.WriteByte('{')
	for i, l := range ls {
		if i > 0 {
			sb.WriteByte(',')
		}
		sb.WriteString(l.name)
		sb.WriteByte('=')
		sb.WriteString(l.value)
	}
	sb.WriteByte('}')
	return sb.String()
}

func isStale(v float64) bool { return math.Float64bits(v) == staleBits }

// valTok: canonical token of a float value (bit pattern; every NaN is one token, -0 is 0).
func valTok(v float64) string {
	if math.IsNaN(v) {
		if isStale(v) {
			return "S"
		}
		return "N"
	}
	if v == 0 {
		return "0"
	}
	return strconv.FormatUint(math.Float64bits(v), 10)
}

// opSamples is the `samples` op line: one token per series, `l=v,l=v@t:bits,t:bits`.
func (s *sampleSet) opLine(id int) string {
	var sb strings.Builder
	fmt.Fprintf(&sb, "samples %d", id)
	for _, sr := range s.series {
		sb.WriteByte(' ')
		for i, l := range sr.labels {
			if i > 0 {
				sb.WriteByte(',')
			}
			sb.WriteString(l.name + "=" + l.value)
		}
		sb.WriteByte('@')
		for i, p := range sr.points {
			if i > 0 {
				sb.WriteByte(',')
			}
			sb.WriteString(strconv.FormatInt(p.t, 10) + ":" + valTok(p.v))
		}
	}
	return sb.String()
}

func (s *sampleSet) counts() (int, int) {
	n := 0
	for _, sr := range s.series {
		n += len(sr.points)
	}
	return len(s.series), n
}

// ---- results --------------------------------------------------------------------------

type rseries struct {
	labels []label
	points []point
}

type result struct {
	err    string // non-empty: the query failed; errClass gives the canonical enum
	series []rseries
}

func (r *result) canon() {
	for i := range r.series {
		ls := r.series[i].labels
		sort.Slice(ls, func(a, b int) bool { return ls[a].name < ls[b].name })
		ps := r.series[i].points
		sort.SliceStable(ps, func(a, b int) bool { return ps[a].t < ps[b].t })
	}
	sort.SliceStable(r.series, func(a, b int) bool { return labelsKey(r.series[a].labels) < labelsKey(r.series[b].labels) })
}

// structure: series, label sets and timestamps - no values.
func (r *result) structure() string {
	if r.err != "" {
		return "err " + r.err
	}
	var sb strings.Builder
	fmt.Fprintf(&sb, "m %d", len(r.series))
	for _, s := range r.series {
		sb.WriteByte(' ')
		sb.WriteString(labelsKey(s.labels))
		for _, p := range s.points {
			sb.WriteByte(' ')
			sb.WriteString(strconv.FormatInt(p.t, 10))
		}
		sb.WriteString(" ;")
	}
	return sb.String()
}

// values in canonical order, one token each.
func (r *result) values() string {
	var toks []string
	for _, s := range r.series {
		for _, p := range s.points {
			toks = append(toks, valTok(p.v))
		}
	}
	if len(toks) == 0 {
		return "-"
	}
	return strings.Join(toks, ",")
}

// answer line: structure, then either the exact values or `~` (values are checked with a
// tolerance by the model driver, which gets them on the op line).
func (r *result) answer(exact bool) string {
	if r.err != "" {
		return "err " + r.err
	}
	if exact {
		return r.structure() + " = " + r.values()
	}
	return r.structure() + " ~"
}

const relTol = 1e-9
const absTol = 1e-9

func closeEnough(a, b float64) bool {
	if math.IsNaN(a) || math.IsNaN(b) {
		return math.IsNaN(a) && math.IsNaN(b)
	}
	if math.IsInf(a, 0) || math.IsInf(b, 0) {
		return a == b
	}
	if a == b {
		return true
	}
	d := math.Abs(a - b)
	m := math.Max(math.Abs(a), math.Abs(b))
	return d <= relTol*m || d <= absTol
}

// diffResults: "" when equal under the spec (same series, label sets, timestamps exactly;
// values with relative tolerance 1e-9 or absolute 1e-9, NaN = NaN, infinities equal), else a description and
// a coarse kind: err | series | timestamps | values.
func diffResults(got, want *result) (kind, desc string) {
	if got.err != "" || want.err != "" {
		if got.err != "" && want.err != "" {
			if got.err == want.err {
				return "", ""
			}
			return "err", fmt.Sprintf("error kind differs: got %q want %q", got.err, want.err)
		}
		if got.err != "" {
			return "err", "query fails: " + got.err
		}
		return "err", "query succeeds, reference fails: " + want.err
	}
	gm := map[string]*rseries{}
	for i := range got.series {
		k := labelsKey(got.series[i].labels)
		if _, dup := gm[k]; dup {
			return "series", "duplicate series in the answer: " + k
		}
		gm[k] = &got.series[i]
	}
	var missing, extra []string
	for i := range want.series {
		k := labelsKey(want.series[i].labels)
		if _, ok := gm[k]; !ok {
			missing = append(missing, k)
		}
	}
	wm := map[string]bool{}
	for i := range want.series {
		wm[labelsKey(want.series[i].labels)] = true
	}
	for i := range got.series {
		k := labelsKey(got.series[i].labels)
		if !wm[k] {
			extra = append(extra, k)
		}
	}
	if len(missing)+len(extra) > 0 {
		return "series", fmt.Sprintf("series differ: missing %v extra %v", missing, extra)
	}
	for i := range want.series {
		w := &want.series[i]
		g := gm[labelsKey(w.labels)]
		if len(g.points) != len(w.points) {
			return "timestamps", fmt.Sprintf("%s: %d points, reference %d (got %v want %v)", labelsKey(w.labels), len(g.points), len(w.points), tsOf(g.points), tsOf(w.points))
		}
		for j := range w.points {
			if g.points[j].t != w.points[j].t {
				return "timestamps", fmt.Sprintf("%s: timestamps differ (got %v want %v)", labelsKey(w.labels), tsOf(g.points), tsOf(w.points))
			}
		}
	}
	for i := range want.series {
		w := &want.series[i]
		g := gm[labelsKey(w.labels)]
		for j := range w.points {
			if !closeEnough(g.points[j].v, w.points[j].v) {
				return "values", fmt.Sprintf("%s @%d: got %v want %v", labelsKey(w.labels), w.points[j].t, g.points[j].v, w.points[j].v)
			}
		}
	}
	return "", ""
}

func tsOf(ps []point) []int64 {
	out := make([]int64, len(ps))
	for i, p := range ps {
		out[i] = p.t
	}
	return out
}
