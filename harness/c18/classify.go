package c18

import (
	"bufio"
	"encoding/json"
	"fmt"
	"os"
	"sort"
	"strings"

	"github.com/prometheus/prometheus/promql"
)

// ---- finding classes ------------------------------------------------------------------------
//
// A deviation (openGemini's answer differs from the reference's) gets a ROOT-CAUSE class. To
// keep the classes stable and the check sensitive, a class is assigned only when the
// deviation is *explained* by the defect: the expression is rewritten into what openGemini
// demonstrably evaluates instead (the defect model), the rewritten expression is run on the
// reference engine, and the class is given only when openGemini's answer equals that
// prediction. Anything unexplained is class "unexplained:<kind>" and fails the check.

// knownClass: is the class listed for C18 in known_findings.jsonl?
var knownSet map[string]bool

func knownClass(cls string) bool {
	if knownSet == nil {
		knownSet = map[string]bool{}
		path := os.Getenv("VERIF_KNOWN")
		if path == "" {
			path = "/verif/known_findings.jsonl"
		}
		if f, err := os.Open(path); err == nil {
			sc := bufio.NewScanner(f)
			sc.Buffer(make([]byte, 1<<20), 1<<24)
			for sc.Scan() {
				line := strings.TrimSpace(sc.Text())
				if !strings.HasPrefix(line, "{") {
					continue
				}
				var e struct{ Property, Class string }
				if json.Unmarshal([]byte(line), &e) == nil && e.Property == "C18" {
					knownSet[e.Class] = true
				}
			}
			f.Close()
		}
	}
	return knownSet[cls]
}

// rewriter: a defect model as a transformation of the expression.
type rewriter struct {
	class string
	apply func(e expr) (expr, bool) // false: the defect does not apply to this expression
	// applyQ (optional): a model that depends on the kind of query
	applyQ func(q *query, e expr) (expr, bool)
}

func (rw *rewriter) run(q *query, e expr) (expr, bool) {
	if rw.applyQ != nil {
		return rw.applyQ(q, e)
	}
	return rw.apply(e)
}

// mapNodes rebuilds the expression bottom-up, replacing every node by f(node) when f returns non-nil.
func mapNodes(e expr, f func(expr) expr) expr {
	var rec func(e expr) expr
	rec = func(e expr) expr {
		var out expr
		switch n := e.(type) {
		case *numLit, *selector, *rangeFn:
			out = cloneExpr(e)
		case *aggExpr:
			c := *n
			c.e = rec(n.e)
			out = &c
		case *binExpr:
			c := *n
			c.l, c.r = rec(n.l), rec(n.r)
			out = &c
		case *setExpr:
			c := *n
			c.l, c.r = rec(n.l), rec(n.r)
			out = &c
		case *kaggExpr:
			c := *n
			c.e = rec(n.e)
			out = &c
		case *tsExpr:
			out = &tsExpr{e: rec(n.e)}
		case *subqExpr:
			c := *n
			c.e = rec(n.e)
			out = &c
		default:
			panic("mapNodes")
		}
		if r := f(out); r != nil {
			return r
		}
		return out
	}
	return rec(e)
}

func cloneExpr(e expr) expr {
	switch n := e.(type) {
	case *numLit:
		c := *n
		return &c
	case *selector:
		return cloneSel(n)
	case *rangeFn:
		c := *n
		c.sel = cloneSel(n.sel)
		return &c
	case *aggExpr:
		c := *n
		c.labels = append([]string{}, n.labels...)
		c.e = cloneExpr(n.e)
		return &c
	case *binExpr:
		c := *n
		c.labels = append([]string{}, n.labels...)
		c.include = append([]string{}, n.include...)
		c.l, c.r = cloneExpr(n.l), cloneExpr(n.r)
		return &c
	case *setExpr:
		c := *n
		c.labels = append([]string{}, n.labels...)
		c.l, c.r = cloneExpr(n.l), cloneExpr(n.r)
		return &c
	case *kaggExpr:
		c := *n
		c.labels = append([]string{}, n.labels...)
		c.e = cloneExpr(n.e)
		return &c
	case *tsExpr:
		return &tsExpr{e: cloneExpr(n.e)}
	case *subqExpr:
		c := *n
		c.e = cloneExpr(n.e)
		return &c
	}
	panic("cloneExpr")
}

func cloneSel(s *selector) *selector {
	c := *s
	c.matchers = append([]matcher{}, s.matchers...)
	return &c
}

// mapSelectors rewrites every selector of the expression (in place on a clone).
func mapSelectors(e expr, f func(s *selector) bool) (expr, bool) {
	c := cloneExpr(e)
	changed := false
	c.walk(func(x expr) {
		if s, ok := x.(*selector); ok {
			if f(s) {
				changed = true
			}
		}
	})
	return c, changed
}

func classify(srv *ogServer, ps *plannedSet, q *query, kind string, got, want *result) string {
	if want.err != "" && got.err == "" {
		return "reference-rejects:" + want.err
	}
	if got.err != "" {
		if strings.HasPrefix(got.err, "transport:") {
			return "no-answer"
		}
	}
	// single defect models first, then the combinations of the empty-value model with a regex model
	// (class = the first model of the set)
	var applicable []rewriter
	for _, rw := range rewriters {
		if _, ok := rw.run(q, q.e); ok {
			applicable = append(applicable, rw)
		}
	}
	explains := func(rws []rewriter) bool {
		e2 := q.e
		for _, rw := range rws {
			if e3, ok := rw.run(q, e2); ok {
				e2 = e3
			}
		}
		q2 := *q
		q2.e = e2
		q2.text = e2.text()
		pred := ps.up.query(&q2)
		if pred.err != "" && got.err == "" {
			// under the defect model the reference rejects the query (e.g. the extra series the
			// ignored matcher lets through duplicate a label set) and openGemini answers
			return true
		}
		k, d := diffResults(got, &pred)
		if k != "" && os.Getenv("C18_VERBOSE") != "" {
			fmt.Fprintf(os.Stderr, "   model %q does not explain: %s\n", q2.text, d)
		}
		return k == ""
	}
	for _, rw := range applicable {
		if explains([]rewriter{rw}) {
			return rw.class
		}
	}
	for i, a := range applicable {
		for _, b := range applicable[i+1:] {
			if a.class != b.class && explains([]rewriter{a, b}) {
				return a.class
			}
		}
	}
	if got.err == "" && len(got.series) == 0 && dupSignatureOverRange(ps, q, applicable) {
		return "binop-duplicate-check-per-series"
	}
	if dupSignature(ps, q, applicable, true) {
		return "setop-one-series-per-signature"
	}
	if hasOr(q.e) && got.err == "" {
		// `or` returns a left-hand series in two pieces (the steps with a right-hand partner, the
		// steps without): explained when the pieces, put together, are the reference's series
		merged := mergeDuplicates(got)
		if len(merged.series) < len(got.series) {
			if k, _ := diffResults(&merged, want); k == "" {
				return "setop-or-splits-series"
			}
		}
	}
	// findings of the wider subset that have no defect model: assigned by a syntactic trigger
	if cls := syntacticTrigger(q); cls != "" {
		return cls
	}
	return "unexplained:" + kind
}

// dupSignatureOverRange: the trigger of the finding binop-duplicate-check-per-series. BinOpTransform
// buffers one operand whole and rejects two distinct series with the same matching signature
// wherever their samples lie in the range (Prometheus checks per step, and for the many side
// only among kept elements); the error is swallowed into an empty success. The operands are
// evaluated on the reference engine over the query's range - as written and under the defect
// models of the matcher findings, which let extra series through.
func dupSignatureOverRange(ps *plannedSet, q *query, models []rewriter) bool {
	return dupSignature(ps, q, models, false)
}

// dupSignature: setOps = false looks at arithmetic / comparison operations (one-to-one), setOps =
// true at and / or / unless (finding setop-one-series-per-signature).
func dupSignature(ps *plannedSet, q *query, models []rewriter, setOps bool) bool {
	return dupSignatureX(ps, q, models, setOps, true)
}

// bothSides: also count a signature that occurs on both sides of a set operator in a range query.
func dupSignatureX(ps *plannedSet, q *query, models []rewriter, setOps, bothSides bool) bool {
	found := false
	check := func(e expr) {
		e.walk(func(x expr) {
			var b *binExpr
			if so, ok := x.(*setExpr); ok && setOps {
				b = &binExpr{match: so.match, labels: so.labels, l: so.l, r: so.r}
			} else if bb, ok := x.(*binExpr); ok && !setOps {
				b = bb
			}
			if b == nil || found || isScalar(b.l) || isScalar(b.r) {
				return
			}
			sides := []expr{b.l, b.r}
			switch b.group { // many-to-one: only the "one" side must have unique signatures
			case "left":
				sides = []expr{b.r}
			case "right":
				sides = []expr{b.l}
			}
			var sideSigs []map[string]bool
			for _, side := range sides {
				q2 := *q
				q2.e = side
				q2.text = side.text()
				r := ps.up.query(&q2)
				if r.err != "" {
					continue
				}
				seen := map[string]bool{}
				for _, sr := range r.series {
					var sig []label
					for _, l := range sr.labels {
						in := false
						for _, n := range b.labels {
							if n == l.name {
								in = true
							}
						}
						switch b.match {
						case "on":
							if in {
								sig = append(sig, l)
							}
						default:
							if !in && l.name != "__name__" {
								sig = append(sig, l)
							}
						}
					}
					k := labelsKey(sig)
					if seen[k] {
						found = true
					}
					seen[k] = true
				}
				sideSigs = append(sideSigs, seen)
			}
			// set operators work per series over the whole range: in a range query a signature that
			// occurs on both sides is matched wherever the samples of the two series lie
			if setOps && bothSides && q.step > 0 && len(sideSigs) == 2 {
				for k := range sideSigs[0] {
					if sideSigs[1][k] {
						found = true
					}
				}
			}
		})
	}
	check(q.e)
	if !found && len(models) > 0 {
		e2 := q.e
		for _, rw := range models {
			if e3, ok := rw.run(q, e2); ok {
				e2 = e3
			}
		}
		check(e2)
	}
	return found
}

// The defect models of the findings that could not be repaired in /repo (golden tests of
// promql2influxql assert the generated InfluxQL text).
var rewriters = []rewriter{
	{
		// timestamp(<selector>): the transpiler rewrites timestamp_prom to the time of the output row
		// (materialize_transform): in a range query that is the step, in an instant query the sample
		// time shifted by the offset
		class: "timestamp-of-row-not-sample",
		applyQ: func(q *query, e expr) (expr, bool) {
			changed := false
			out := mapNodes(e, func(x expr) expr {
				t, ok := x.(*tsExpr)
				if !ok {
					return nil
				}
				sel, ok := t.e.(*selector)
				if !ok {
					return nil
				}
				if q.step > 0 {
					changed = true
					return &tsExpr{e: &binExpr{op: "+", match: "none", l: sel, r: &numLit{v: 0}}}
				}
				if sel.offset != 0 {
					changed = true
					return &binExpr{op: "+", match: "none", l: t, r: &numLit{v: float64(sel.offset) / 1000}}
				}
				return nil
			})
			return out, changed
		},
	},
	{
		// selector.go GetTagCondition drops a matcher whose value is empty
		class: "matcher-empty-value-ignored",
		apply: func(e expr) (expr, bool) {
			return mapSelectors(e, func(s *selector) bool {
				changed := false
				kept := s.matchers[:1:1]
				for _, m := range s.matchers[1:] {
					if m.re == nil && m.lit == "" {
						changed = true
						continue
					}
					kept = append(kept, m)
				}
				s.matchers = kept
				return changed
			})
		},
	},
	{
		// the same, except that the index evaluates an alternation of distinct literals exactly
		class: "matcher-regex-unanchored",
		apply: func(e expr) (expr, bool) {
			return mapSelectors(e, func(s *selector) bool {
				changed := false
				for i := range s.matchers {
					m := &s.matchers[i]
					if m.re != nil && !literalAlternation(m.re) {
						dot := func() *rx { return &rx{kind: "star", a: &rx{kind: "any"}} }
						m.re = &rx{kind: "cat", a: dot(), b: &rx{kind: "cat", a: m.re, b: dot()}}
						changed = true
					}
				}
				return changed
			})
		},
	},
	{
		// selector.go compiles a regex matcher unanchored; the index treats a regex without
		// metacharacters as a substring test
		class: "matcher-regex-unanchored",
		apply: func(e expr) (expr, bool) {
			return mapSelectors(e, func(s *selector) bool {
				changed := false
				for i := range s.matchers {
					m := &s.matchers[i]
					if m.re != nil {
						dot := func() *rx { return &rx{kind: "star", a: &rx{kind: "any"}} }
						m.re = &rx{kind: "cat", a: dot(), b: &rx{kind: "cat", a: m.re, b: dot()}}
						changed = true
					}
				}
				return changed
			})
		},
	},
}

// features of a case for the input histogram (what the case exercises).
func features(q *query, set *sampleSet, want *result) []string {
	var out []string
	seen := map[string]bool{}
	add := func(f string) {
		if !seen[f] {
			seen[f] = true
			out = append(out, f)
		}
	}
	steps := q.steps()
	if len(steps) > 64 {
		steps = steps[:64]
	}
	q.e.walk(func(x expr) {
		var sel *selector
		var rng int64 = -1
		isCounterFn := false
		switch n := x.(type) {
		case *rangeFn:
			sel, rng = n.sel, n.rng
			isCounterFn = n.fn == "rate" || n.fn == "increase" || n.fn == "irate"
		case *selector:
			sel = n
		default:
			return
		}
		if sel.offset > 0 {
			add("offset:positive")
		} else if sel.offset < 0 {
			add("offset:negative")
		}
		for i := range sel.matchers {
			m := &sel.matchers[i]
			switch {
			case m.re != nil:
				add("matcher:" + m.kind)
			case m.lit == "":
				add("matcher:" + m.kind + "-empty")
			default:
				add("matcher:" + m.kind)
			}
		}
		if rng < 0 {
			// instant selectors are visited twice for range functions (rangeFn.walk visits its
			// selector): only classify look-back features for bare selectors
		}
		for _, sr := range set.series {
			for _, t := range steps {
				ref := t - sel.offset
				if rng >= 0 {
					lo := ref - rng
					if len(set.cuts) == 2 && len(sr.points) > 0 {
						// samples of this window in each of the three containers (two files + memtable)
						n := [3]int{}
						for _, p := range sr.points {
							if p.t < lo || p.t > ref || isStale(p.v) {
								continue
							}
							switch {
							case p.t <= set.cuts[0]:
								n[0]++
							case p.t <= set.cuts[1]:
								n[1]++
							default:
								n[2]++
							}
						}
						if n[0] > 0 && n[1] > 0 && n[2] > 0 {
							add("window:spans-3-records")
						}
					}
					prev := 0.0
					havePrev := false
					for _, p := range sr.points {
						if p.t < lo || p.t > ref {
							continue
						}
						if p.t == lo {
							add("window:left-boundary-exact")
						}
						if p.t == ref {
							add("window:right-boundary-exact")
						}
						if isStale(p.v) {
							add("window:stale-inside")
							continue
						}
						if isCounterFn && havePrev && p.v < prev {
							add("window:counter-reset-inside")
						}
						prev, havePrev = p.v, true
					}
				} else {
					// latest sample not after ref
					idx := -1
					for i, p := range sr.points {
						if p.t <= ref {
							idx = i
						} else {
							break
						}
					}
					if idx < 0 {
						continue
					}
					p := sr.points[idx]
					switch {
					case isStale(p.v):
						add("instant:stale-marker-hides")
					case p.t == ref:
						add("instant:sample-at-eval-time")
					case p.t == ref-q.lb:
						add("instant:exactly-lookback-old")
					case p.t < ref-q.lb:
						add("instant:gap-longer-than-lookback")
					}
				}
			}
		}
	})
	if want.err == "" && len(want.series) == 0 {
		add("answer:empty")
	}
	return out
}

// ---- minimisation of a failing case -----------------------------------------------------------

// shrink reduces the sample set while openGemini's answer keeps differing from the
// reference's (each attempt is a fresh database), and returns the replay text.
func shrink(srv *ogServer, eng *promql.Engine, dir string, ps *plannedSet, q *query) string {
	attempt := 0
	fails := func(set *sampleSet) bool {
		if len(set.series) == 0 {
			return false
		}
		attempt++
		db := fmt.Sprintf("c18shr%d_%d", ps.id, attempt)
		if _, err := srv.influx("", "CREATE DATABASE "+db); err != nil {
			return false
		}
		defer srv.influx("", "DROP DATABASE "+db)
		// the same layout as the failing set: the parts up to each cut flushed into a file of their own
		set.cuts = ps.set.cuts
		parts := set.parts(ps.variant)
		for phase, part := range parts {
			if part != nil {
				if err := srv.remoteWrite(db, part); err != nil {
					return false
				}
			}
			if phase < 2 {
				if acc := set.upTo(ps.variant, phase); acc != nil && part != nil {
					if err := srv.waitVisible(db, acc); err != nil {
						return false
					}
					_ = srv.flush()
				}
			}
		}
		if err := srv.waitVisible(db, set); err != nil {
			return false
		}
		up, err := openUpstream(fmt.Sprintf("%s/%s", dir, db), eng, set)
		if err != nil {
			return false
		}
		defer up.close()
		want := up.query(q)
		got := srv.promQuery(db, q)
		k, _ := diffResults(&got, &want)
		return k != ""
	}
	cur := ps.set
	if !fails(cur) {
		return "(not reproducible on a fresh database with the whole set) " + relevantSamples(ps.set, q, 8)
	}
	// 1. drop whole series
	for i := 0; i < len(cur.series) && attempt < 12; {
		cand := &sampleSet{allInt: cur.allInt}
		cand.series = append(cand.series, cur.series[:i]...)
		cand.series = append(cand.series, cur.series[i+1:]...)
		if fails(cand) {
			cur = cand
		} else {
			i++
		}
	}
	// 2. cut points: keep halves while it still fails
	for round := 0; round < 6 && attempt < 20; round++ {
		progress := false
		for si := range cur.series {
			pts := cur.series[si].points
			if len(pts) < 2 {
				continue
			}
			for _, half := range [][]point{pts[len(pts)/2:], pts[:len(pts)/2]} {
				cand := &sampleSet{allInt: cur.allInt}
				for sj, sr := range cur.series {
					if sj == si {
						cand.series = append(cand.series, series{labels: sr.labels, points: half})
					} else {
						cand.series = append(cand.series, sr)
					}
				}
				if attempt < 20 && fails(cand) {
					cur = cand
					progress = true
					break
				}
			}
		}
		if !progress {
			break
		}
	}
	var parts []string
	for _, sr := range cur.series {
		var pts []string
		for _, p := range sr.points {
			if isStale(p.v) {
				pts = append(pts, fmt.Sprintf("%d:STALE", p.t))
			} else {
				pts = append(pts, fmt.Sprintf("%d:%g", p.t, p.v))
			}
		}
		if len(pts) > 60 {
			pts = append(pts[:30], append([]string{"…"}, pts[len(pts)-30:]...)...)
		}
		parts = append(parts, labelsKey(sr.labels)+" "+strings.Join(pts, " "))
	}
	return fmt.Sprintf("%d series after %d attempts: %s", len(cur.series), attempt, strings.Join(parts, " ; "))
}

// literalAlternation: is the regex an alternation of at least two distinct literals?
func literalAlternation(r *rx) bool {
	lits := map[string]bool{}
	var walk func(r *rx) bool
	walk = func(r *rx) bool {
		switch r.kind {
		case "lit":
			lits[r.s] = true
			return true
		case "alt":
			return walk(r.a) && walk(r.b)
		}
		return false
	}
	return r.kind == "alt" && walk(r) && len(lits) >= 2
}

// hasTopkTie: does a topk / bottomk of the expression have to choose between equal values at
// some step? (the choice depends on the engine's heap order: such a case has no defined answer)
func hasTopkTie(ps *plannedSet, q *query) bool {
	tie := false
	q.e.walk(func(x expr) {
		k, ok := x.(*kaggExpr)
		if !ok || tie || k.op == "quantile" || k.param < 1 {
			return
		}
		q2 := *q
		q2.e = k.e
		q2.text = k.e.text()
		r := ps.up.query(&q2)
		if r.err != "" {
			return
		}
		type gk struct {
			key string
			t   int64
		}
		groups := map[gk][]float64{}
		for _, sr := range r.series {
			var key []label
			for _, l := range sr.labels {
				in := false
				for _, n := range k.labels {
					if n == l.name {
						in = true
					}
				}
				if (k.without && !in && l.name != "__name__") || (!k.without && in) {
					key = append(key, l)
				}
			}
			ks := labelsKey(key)
			for _, p := range sr.points {
				groups[gk{ks, p.t}] = append(groups[gk{ks, p.t}], p.v)
			}
		}
		kk := int(k.param)
		for _, vs := range groups {
			if len(vs) <= kk {
				continue
			}
			sort.Float64s(vs)
			if k.op == "topk" {
				// descending: positions kk-1 and kk from the top
				if vs[len(vs)-kk] == vs[len(vs)-kk-1] {
					tie = true
				}
			} else if vs[kk-1] == vs[kk] {
				tie = true
			}
		}
	})
	return tie
}

// syntacticTrigger: the finding classes that are assigned by the shape of the expression alone
// (see known_findings.jsonl for the causes and witnesses). Order: the most specific first.
func syntacticTrigger(q *query) string {
	hasSubq, atInRange, topkInner, scalarFilter, vvBinop, negOffset, multiMetric := false, false, false, false, false, false, false
	var visit func(e expr, root bool, inSubq bool)
	visit = func(e expr, root bool, inSubq bool) {
		switch n := e.(type) {
		case *selector:
			if n.at != nil {
				atInRange = true
			}
			if n.offset < 0 {
				negOffset = true
			}
			if n.matchers[0].kind != "eq" {
				multiMetric = true
			}
		case *rangeFn:
			visit(n.sel, false, inSubq)
		case *aggExpr:
			visit(n.e, false, inSubq)
		case *binExpr:
			if !n.isBool && isCmp(n.op) && (isScalar(n.l) != isScalar(n.r)) {
				scalarFilter = true
			}
			if !isScalar(n.l) && !isScalar(n.r) {
				vvBinop = true
			}
			visit(n.l, false, inSubq)
			visit(n.r, false, inSubq)
		case *setExpr:
			visit(n.l, false, inSubq)
			visit(n.r, false, inSubq)
		case *tsExpr:
			visit(n.e, false, inSubq)
		case *subqExpr:
			hasSubq = true
			visit(n.e, false, true)
		case *kaggExpr:
			if n.op != "quantile" {
				vv := false
				switch o := n.e.(type) {
				case *binExpr:
					vv = !isScalar(o.l) && !isScalar(o.r)
				case *setExpr:
					vv = true
				}
				sel, plain := n.e.(*selector)
				if plain && sel.matchers[0].kind != "eq" {
					plain = false // several metrics: the choice is made per measurement
				}
				if !root || n.param < 1 || vv || !plain {
					topkInner = true
				}
			}
			visit(n.e, false, inSubq)
		}
	}
	visit(q.e, true, false)
	switch {
	case hasSubq:
		return "subquery-deviates"
	case atInRange:
		return "at-modifier-slides-with-step"
	case topkInner:
		return "topk-elements-lose-labels-inside"
	case scalarFilter && vvBinop && negOffset:
		// a scalar filter comparison and a vector-vector operation in one expression, an operand
		// with a negative offset
		return "filter-above-binop-negative-offset"
	case multiMetric:
		return "multi-metric-selector-state-dependent"
	}
	return ""
}

func isCmp(op string) bool {
	switch op {
	case "==", "!=", "<", "<=", ">", ">=":
		return true
	}
	return false
}

func hasOr(e expr) bool {
	found := false
	e.walk(func(x expr) {
		if so, ok := x.(*setExpr); ok && so.op == "or" {
			found = true
		}
	})
	return found
}

// mergeDuplicates puts the series of an answer that carry the same label set together.
func mergeDuplicates(r *result) result {
	out := result{}
	idx := map[string]int{}
	for _, s := range r.series {
		k := labelsKey(s.labels)
		if i, ok := idx[k]; ok {
			out.series[i].points = append(out.series[i].points, s.points...)
			continue
		}
		idx[k] = len(out.series)
		out.series = append(out.series, rseries{labels: s.labels, points: append([]point{}, s.points...)})
	}
	out.canon()
	return out
}
