package c18

import (
	"math"
	"regexp"
	"sort"

	"verif/harness/internal/hx"
)

// fixed epoch: no wall clock in the data.
const epochMs int64 = 1_700_000_000_000

var (
	labelPool = map[string][]string{
		"job":  {"api", "web", "db"},
		"inst": {"i0", "i1", "i2", "i10"},
		"zone": {"z1", "z2"},
	}
	labelNames = []string{"inst", "job", "zone"}
	metricPool = []string{"m0", "m1", "m2"}
)

type gapPoint struct {
	t      int64
	series int
}

type setInfo struct {
	times  []int64 // every sample timestamp (sorted, distinct)
	minT   int64
	maxT   int64
	names  []string // metric names present
	lastBefore []gapPoint // samples followed by a gap longer than the look-back (or by nothing)
	counters   []int      // indices of the counter series
	hasGap bool
	hasStale bool
	hasReset bool
}

func genSet(r *hx.Rng, big bool) (*sampleSet, *setInfo) {
	set := &sampleSet{allInt: true}
	info := &setInfo{}
	nMetrics := 1 + r.Intn(3)
	names := append([]string{}, metricPool...)
	// shuffle names
	for i := len(names) - 1; i > 0; i-- {
		j := r.Intn(i + 1)
		names[i], names[j] = names[j], names[i]
	}
	names = names[:nMetrics]
	sort.Strings(names)
	info.names = names
	spanMs := int64(20+r.Intn(25)) * 60_000
	if big {
		spanMs = int64(90+r.Intn(60)) * 60_000
	}
	seen := map[string]bool{}
	counterKeys := map[string]bool{}
	fracSet := r.Chance(15)
	for _, name := range names {
		nSeries := 2 + r.Intn(5)
		kind := r.Intn(3) // 0 counter, 1 gauge, 2 mixed per series
		for k := 0; k < nSeries; k++ {
			var ls []label
			for _, ln := range labelNames {
				if ln == "zone" && r.Chance(60) {
					continue
				}
				if ln != "zone" && r.Chance(10) {
					continue // a series lacking the label
				}
				pool := labelPool[ln]
				ls = append(ls, label{ln, pool[r.Intn(len(pool))]})
			}
			ls = append(ls, label{"__name__", name})
			sort.Slice(ls, func(i, j int) bool { return ls[i].name < ls[j].name })
			if seen[labelsKey(ls)] {
				continue
			}
			seen[labelsKey(ls)] = true
			sk := kind
			if sk == 2 {
				sk = r.Intn(2)
			}
			sr := series{labels: ls}
			interval := []int64{15_000, 30_000, 10_000, 60_000, 5_000}[r.Intn(5)]
			if big {
				interval = []int64{1_000, 2_000, 5_000}[r.Intn(3)]
			}
			jitter := r.Intn(3) // 0 regular, 1 +-few ms, 2 up to 40%
			t := epochMs + int64(r.Intn(int(interval)))
			if r.Chance(30) {
				t = epochMs // aligned start
			}
			if r.Chance(15) {
				t += int64(r.Intn(int(spanMs / 2))) // series that starts late
			}
			end := epochMs + spanMs
			if r.Chance(15) {
				end -= int64(r.Intn(int(spanMs / 2))) // series that ends early
			}
			var cur float64
			if sk == 0 {
				cur = float64(r.Intn(1000))
				switch r.Intn(10) {
				case 0, 1, 2:
					cur = 0 // a freshly created counter
				case 3:
					cur = 1 // tiny positive first value
				}
			} else {
				cur = float64(r.Intn(200) - 100)
			}
			for t <= end {
				v := cur
				if sk == 0 {
					if r.Chance(4) {
						cur = float64(r.Intn(20)) // counter reset
						if r.Chance(50) {
							cur = 0 // a reset that lands on exactly 0
						}
						info.hasReset = true
					} else if !r.Chance(15) {
						cur += float64(r.Intn(50))
					}
					v = cur
				} else {
					cur += float64(r.Intn(41) - 20)
					v = cur
				}
				if fracSet {
					v += float64(r.Intn(8)) / 8
				}
				stale := false
				if r.Chance(2) {
					v = math.Float64frombits(staleBits)
					stale = true
					info.hasStale = true
				}
				sr.points = append(sr.points, point{t, v})
				step := interval
				switch jitter {
				case 1:
					step += int64(r.Intn(7)) - 3
				case 2:
					step += int64(r.Intn(int(interval*8/10))) - interval*4/10
				}
				if step < 1 {
					step = 1
				}
				if r.Chance(2) || (stale && r.Chance(50)) {
					step += lookbackMs + int64(r.Intn(400_000)) - 60_000 // around and beyond the look-back
					info.hasGap = true
				}
				t += step
			}
			if len(sr.points) == 0 {
				continue
			}
			if sk == 0 {
				counterKeys[labelsKey(sr.labels)] = true
			}
			set.series = append(set.series, sr)
		}
	}
	if fracSet {
		set.allInt = false
	}
	sort.SliceStable(set.series, func(i, j int) bool { return labelsKey(set.series[i].labels) < labelsKey(set.series[j].labels) })
	tm := map[int64]bool{}
	for _, sr := range set.series {
		for _, p := range sr.points {
			tm[p.t] = true
		}
	}
	for t := range tm {
		info.times = append(info.times, t)
	}
	sort.Slice(info.times, func(i, j int) bool { return info.times[i] < info.times[j] })
	info.minT, info.maxT = info.times[0], info.times[len(info.times)-1]
	for si, sr := range set.series {
		if counterKeys[labelsKey(sr.labels)] {
			info.counters = append(info.counters, si)
		}
		for i, p := range sr.points {
			if isStale(p.v) {
				continue
			}
			if i == len(sr.points)-1 || sr.points[i+1].t-p.t > lookbackMs {
				info.lastBefore = append(info.lastBefore, gapPoint{p.t, si})
			}
		}
	}
	return set, info
}

// ---- expressions ---------------------------------------------------------------------------

type exprGen struct {
	r    *hx.Rng
	info *setInfo
	set  *sampleSet
	hint *series // the query time was chosen for this series: selectors prefer to select it
	multi bool   // selectors prefer to match several metric names (under a `without` aggregation)
	qStart, qEnd, qStep int64 // the query's times (known before the expression is generated)
	noMulti             bool  // inside a subquery: no regex on the metric name
	atRoot              bool  // the next genVector call builds the root of the expression
	avoid bool   // keep clear of the triggers of the known findings (empty-value matchers, regexes that
	// behave differently unanchored); 80 % of the cases, so that fewer cases are masked by them
}

// rxSafe: does the regex select the same values of the label anchored (PromQL) and under the
// defect models of finding matcher-regex-unanchored, over the values present in the set?
func (g *exprGen) rxSafe(ln string, r *rx) bool {
	anch, err1 := regexp.Compile("^(?:" + r.text() + ")$")
	un, err2 := regexp.Compile(r.text())
	if err1 != nil || err2 != nil {
		return false
	}
	vals := map[string]bool{"": true}
	for _, sr := range g.set.series {
		for _, l := range sr.labels {
			if l.name == ln {
				vals[l.value] = true
			}
		}
	}
	for v := range vals {
		a := anch.MatchString(v)
		if a != un.MatchString(v) {
			return false
		}
	}
	return true
}

func (g *exprGen) pick(xs []string) string { return xs[g.r.Intn(len(xs))] }

func (g *exprGen) genRx(ln, lv string) *rx {
	pool := append([]string{lv, lv}, labelPool[ln]...)
	lit := func() *rx { return &rx{kind: "lit", s: pool[g.r.Intn(len(pool))]} }
	switch g.r.Intn(8) {
	case 0:
		return &rx{kind: "alt", a: lit(), b: lit()}
	case 1: // prefix.*
		s := pool[g.r.Intn(len(pool))]
		return &rx{kind: "cat", a: &rx{kind: "lit", s: s[:1]}, b: &rx{kind: "star", a: &rx{kind: "any"}}}
	case 2:
		return &rx{kind: "plus", a: &rx{kind: "any"}}
	case 3:
		return &rx{kind: "star", a: &rx{kind: "any"}}
	case 4: // a strict prefix of a value: must not match (anchoring)
		s := pool[g.r.Intn(len(pool))]
		return &rx{kind: "lit", s: s[:len(s)-1]}
	case 5: // i1 followed by an optional 0
		s := pool[g.r.Intn(len(pool))]
		return &rx{kind: "cat", a: &rx{kind: "lit", s: s}, b: &rx{kind: "opt", a: &rx{kind: "lit", s: "0"}}}
	case 6: // a suffix: .*x
		s := pool[g.r.Intn(len(pool))]
		return &rx{kind: "cat", a: &rx{kind: "star", a: &rx{kind: "any"}}, b: &rx{kind: "lit", s: s[len(s)-1:]}}
	default:
		return lit()
	}
}

func (g *exprGen) genSelector() *selector {
	s := &selector{}
	name := g.pick(g.info.names)
	hinted := g.hint != nil && g.r.Chance(85)
	if hinted {
		for _, l := range g.hint.labels {
			if l.name == "__name__" {
				name = l.value
			}
		}
	}
	if !hinted && !g.noMulti && (g.r.Chance(8) || (g.multi && g.r.Chance(60))) && len(g.info.names) > 1 {
		// a regex on the metric name
		s.matchers = append(s.matchers, matcher{label: "__name__", kind: "re", re: &rx{kind: "alt", a: &rx{kind: "lit", s: g.info.names[0]}, b: &rx{kind: "lit", s: g.info.names[1]}}})
	} else {
		s.matchers = append(s.matchers, matcher{label: "__name__", kind: "eq", lit: name})
		s.braces = g.r.Chance(15)
	}
	nm := 0
	switch x := g.r.Intn(10); {
	case x < 3:
		nm = 0
	case x < 8:
		nm = 1
	default:
		nm = 2
	}
	// label values that occur on the series of the selected metric(s): most matchers are drawn
	// from them, so that most selectors select something
	var present []label
	for _, sr := range g.set.series {
		if hinted && labelsKey(sr.labels) != labelsKey(g.hint.labels) {
			continue
		}
		nm0 := ""
		for _, l := range sr.labels {
			if l.name == "__name__" {
				nm0 = l.value
			}
		}
		if s.matchers[0].kind == "eq" && nm0 != name {
			continue
		}
		for _, l := range sr.labels {
			if l.name != "__name__" {
				present = append(present, l)
			}
		}
	}
	for i := 0; i < nm; i++ {
		ln := g.pick(labelNames)
		lv := g.pick(labelPool[ln])
		if len(present) > 0 && g.r.Chance(75) {
			l := present[g.r.Intn(len(present))]
			ln, lv = l.name, l.value
		}
		m := matcher{label: ln}
		switch g.r.Intn(18) {
		case 0, 1, 2, 3, 4, 5:
			m.kind, m.lit = "eq", lv
		case 6, 7:
			m.kind, m.lit = "ne", lv
		case 8:
			m.kind, m.lit = "eq", "" // label absent
			if g.avoid {
				m.kind, m.re = "nre", &rx{kind: "plus", a: &rx{kind: "any"}} // the same, as a regex: !~".+"
			}
		case 9:
			m.kind, m.lit = "ne", "" // label present
			if g.avoid {
				m.kind, m.re = "re", &rx{kind: "plus", a: &rx{kind: "any"}} // =~".+"
			}
		case 10, 11, 12, 13, 14, 15:
			m.kind = "re"
			if g.r.Chance(33) {
				m.kind = "nre"
			}
			m.re = g.genRx(ln, lv)
			for tries := 0; g.avoid && !g.rxSafe(ln, m.re) && tries < 6; tries++ {
				m.re = g.genRx(ln, lv)
			}
			if g.avoid && !g.rxSafe(ln, m.re) {
				m.kind, m.re, m.lit = "eq", nil, lv
			}
		case 16:
			m.kind, m.lit = "ne", "nosuch"
		default:
			m.kind, m.lit = "eq", "nosuch"
		}
		s.matchers = append(s.matchers, m)
	}
	if (!hinted && g.r.Chance(25)) || (hinted && g.r.Chance(5)) {
		s.offset = []int64{30_000, 300_000, 420_000, 1, 60_000, 15_000, -30_000, 1_500}[g.r.Intn(8)]
	}
	if !hinted && !g.avoid && g.r.Chance(12) {
		var at int64
		switch g.r.Intn(4) {
		case 0:
			at, s.atKind = g.qStart, "start"
		case 1:
			at, s.atKind = g.qEnd, "end"
		case 2:
			at, s.atKind = g.info.times[g.r.Intn(len(g.info.times))], "num"
		default:
			at, s.atKind = g.qStart+int64(g.r.Intn(120_000))-60_000, "num"
		}
		s.at = &at
	}
	return s
}

var rangeFns = []string{"rate", "increase", "delta", "irate", "idelta",
	"sum_over_time", "avg_over_time", "min_over_time", "max_over_time", "count_over_time", "last_over_time", "present_over_time"}

func (g *exprGen) genRange(t int64) int64 {
	switch g.r.Intn(12) {
	case 10, 11: // boundary exact: the window starts on a sample (close to t)
		if d := t - g.nearTime(t-int64(30_000+g.r.Intn(120_000))); d > 0 {
			return d
		}
		return 75_000
	case 0:
		return 60_000
	case 1:
		return 300_000
	case 2:
		return 90_000
	case 3:
		return 45_000
	case 4: // boundary exact: the window starts on a sample
		if d := t - g.nearTime(t-120_000); d > 0 {
			return d
		}
		return 120_000
	case 5: // one millisecond short of / past a sample
		if d := t - g.nearTime(t-60_000); d > 1 {
			if g.r.Bool() {
				return d - 1
			}
			return d + 1
		}
		return 61_000
	case 6:
		return 1_500 // not a whole number of seconds
	case 7:
		return 600_000
	case 8:
		return 30_500
	default:
		return int64(10+g.r.Intn(400)) * 1_000
	}
}

// nearTime: the sample timestamp closest to x.
func (g *exprGen) nearTime(x int64) int64 {
	ts := g.info.times
	i := sort.Search(len(ts), func(i int) bool { return ts[i] >= x })
	if i == len(ts) {
		return ts[len(ts)-1]
	}
	if i > 0 && x-ts[i-1] < ts[i]-x {
		return ts[i-1]
	}
	return ts[i]
}

func (g *exprGen) genRangeFn(t int64) *rangeFn {
	return &rangeFn{fn: g.pick(rangeFns), sel: g.genSelector(), rng: g.genRange(t)}
}

func (g *exprGen) genLabels() []string {
	var out []string
	for _, ln := range labelNames {
		if g.r.Chance(45) {
			out = append(out, ln)
		}
	}
	if g.r.Chance(5) {
		out = append(out, "nolabel")
	}
	return out
}

func (g *exprGen) genVector(t int64, depth int) expr {
	root := g.atRoot
	g.atRoot = false
	if y := g.r.Intn(100); y < 24 {
		switch {
		case y < 5: // timestamp()
			if g.r.Chance(60) || depth <= 0 {
				sel := g.genSelector()
				sel.at = nil // timestamp(m @ T): the engine wraps the argument as step invariant; not in the subset
				if g.avoid {
					if g.qStep > 0 {
						// finding timestamp-of-row-not-sample: the selector form only in instant queries without offset
						return &tsExpr{e: &binExpr{op: "+", match: "none", l: sel, r: &numLit{v: 0}}}
					}
					sel.offset = 0
				}
				return &tsExpr{e: sel}
			}
			return &tsExpr{e: g.genVector(t, depth-1)}
		case y < 8 && !g.avoid: // subquery under a range function (finding subquery-deviates)
			sq := &subqExpr{fn: g.pick(rangeFns), rng: []int64{60_000, 120_000, 300_000, 90_000}[g.r.Intn(4)],
				stp: []int64{10_000, 15_000, 30_000, 7_000, 60_000}[g.r.Intn(5)]}
			if sq.rng < g.qStep {
				sq.rng = g.qStep
			}
			if g.r.Chance(20) {
				sq.off = []int64{30_000, 60_000, 15_000}[g.r.Intn(3)]
			}
			old := g.noMulti
			g.noMulti = true
			d := depth - 1
			if d > 1 {
				d = 1
			}
			sq.e = g.genVector(t, d)
			g.noMulti = old
			return sq
		case y < 14: // topk / bottomk / quantile (mostly outermost)
			k := &kaggExpr{op: g.pick([]string{"topk", "bottomk", "quantile"}), without: g.r.Chance(40), labels: g.genLabels()}
			if k.op != "quantile" && !root && (g.avoid || !g.r.Chance(30)) {
				k.op = "quantile" // inside another node topk/bottomk elements lose labels (finding): mostly outermost
			}
			if k.op == "quantile" {
				k.param = []float64{0, 0.5, 0.9, 1, 0.25, 1.5, -1, 0.75}[g.r.Intn(8)]
			} else {
				k.param = float64([]int{1, 2, 3, 1, 2, 0, 5}[g.r.Intn(7)])
			}
			if g.r.Chance(60) || (g.avoid && k.op != "quantile") {
				old := g.noMulti
				g.noMulti = g.noMulti || (g.avoid && k.op != "quantile")
				k.e = g.genSelector()
				g.noMulti = old
			} else {
				k.e = g.genVector(t, depth-1)
			}
			if g.avoid && k.op != "quantile" && k.param < 1 {
				k.param = 2
			}
			return k
		case y < 20 && depth > 0: // and / or / unless
			x := &setExpr{op: g.pick([]string{"and", "or", "unless"}), match: "none"}
			x.l, x.r = g.genVector(t, depth-1), g.genVector(t, depth-1)
			g.sameMetric(x.l, x.r, 70)
			switch g.r.Intn(3) {
			case 1:
				x.match, x.labels = "on", g.genLabels()
			case 2:
				x.match, x.labels = "ign", g.genLabels()
			}
			return x
		case y < 24 && depth > 0: // group_left / group_right
			on := g.genLabels()
			if len(on) == 0 {
				on = []string{"job"}
			}
			var extra []string
			if g.r.Chance(35) {
				for _, ln := range labelNames {
					has := false
					for _, o := range on {
						if o == ln {
							has = true
						}
					}
					if !has && g.r.Chance(50) {
						extra = append(extra, ln)
					}
				}
			}
			many := g.genSelector()
			if g.r.Chance(30) {
				many.offset = 0
			}
			var manyE expr = many
			if g.r.Chance(30) {
				manyE = g.genRangeFn(t)
			}
			oneSel := g.genSelector()
			oneSel.matchers = oneSel.matchers[:1]
			if first := firstSelector(manyE); first != nil && g.r.Chance(70) {
				oneSel.matchers[0], oneSel.braces = first.matchers[0], first.braces
			}
			one := &aggExpr{op: g.pick([]string{"sum", "max", "min", "count"}), labels: append(append([]string{}, on...), extra...), e: oneSel}
			b := &binExpr{match: "on", labels: on, include: extra}
			if g.r.Chance(60) {
				b.op = g.pick(arithOps)
			} else {
				b.op = g.pick(cmpOps)
				b.isBool = g.r.Chance(35)
			}
			if g.r.Chance(70) {
				b.group, b.l, b.r = "left", manyE, one
			} else {
				b.group, b.l, b.r = "right", one, manyE
			}
			return b
		}
	}
	x := g.r.Intn(100)
	switch {
	case depth <= 0 || x < 25:
		if g.r.Chance(50) {
			return g.genSelector()
		}
		return g.genRangeFn(t)
	case x < 60:
		a := &aggExpr{op: g.pick([]string{"sum", "avg", "min", "max", "count"}), without: g.r.Chance(40), labels: g.genLabels()}
		if a.without && g.r.Chance(35) {
			// series of several metrics that agree on the remaining labels fall into one group
			g.multi = true
		}
		a.e = g.genVector(t, depth-1)
		g.multi = false
		return a
	default:
		return g.genBin(t, depth-1)
	}
}

func firstSelector(e expr) *selector {
	var first *selector
	e.walk(func(x expr) {
		if sl, ok := x.(*selector); ok && first == nil {
			first = sl
		}
	})
	return first
}

// sameMetric: with the given chance the selectors of r take the metric of the first selector of l
// (otherwise most label sets have no partner).
func (g *exprGen) sameMetric(l, r expr, chance int) {
	if !g.r.Chance(chance) {
		return
	}
	first := firstSelector(l)
	r.walk(func(x expr) {
		if sl, ok := x.(*selector); ok && first != nil {
			sl.matchers[0] = first.matchers[0]
			sl.braces = first.braces
			if g.r.Chance(50) {
				sl.matchers = sl.matchers[:1]
			}
		}
	})
}

var arithOps = []string{"+", "-", "*", "/"}
var cmpOps = []string{"==", "!=", "<", "<=", ">", ">="}

func (g *exprGen) genBin(t int64, depth int) expr {
	b := &binExpr{match: "none"}
	if g.r.Chance(50) {
		b.op = g.pick(arithOps)
	} else {
		b.op = g.pick(cmpOps)
		b.isBool = g.r.Chance(35)
	}
	num := func() expr {
		if g.r.Chance(20) {
			return &numLit{v: float64(g.r.Intn(9)) / 4}
		}
		return &numLit{v: float64(g.r.Intn(200) - 50)}
	}
	switch x := g.r.Intn(10); {
	case x < 3:
		b.l, b.r = g.genVector(t, depth), num()
	case x < 5:
		b.l, b.r = num(), g.genVector(t, depth)
	default:
		b.l, b.r = g.genVector(t, depth), g.genVector(t, depth)
		g.sameMetric(b.l, b.r, 60)
		switch g.r.Intn(3) {
		case 1:
			b.match, b.labels = "on", g.genLabels()
		case 2:
			b.match, b.labels = "ign", g.genLabels()
		}
	}
	return b
}

func (g *exprGen) evalTime() int64 {
	ts := g.info.times
	base := ts[g.r.Intn(len(ts))]
	if len(g.info.lastBefore) > 0 && g.r.Chance(15) {
		// the sample is the last one before a gap: exactly look-back old, one ms more, one ms less
		b := g.info.lastBefore[g.r.Intn(len(g.info.lastBefore))]
		g.hint = &g.set.series[b.series]
		return b.t + lookbackMs + int64(g.r.Intn(3)) - 1
	}
	switch g.r.Intn(10) {
	case 0, 1:
		return base // hits a sample
	case 2:
		return base + 1
	case 3:
		return base - 1
	case 4:
		return base + lookbackMs // the sample is exactly look-back old
	case 5:
		return base + lookbackMs + 1
	case 6:
		return base + lookbackMs - 1
	case 7:
		return epochMs + int64(g.r.Intn(int(g.info.maxT-epochMs)/1000+1))*1000
	case 8:
		if g.r.Chance(40) {
			return g.info.maxT + int64(g.r.Intn(400_000))
		}
		return base + int64(g.r.Intn(60_000))
	default:
		return g.info.minT + int64(g.r.Intn(int(g.info.maxT-g.info.minT)+1))
	}
}

// extrapolationQuery: rate / increase / delta over a window placed on the boundary values of the
// extrapolation formula: the first sample of the window strictly inside it (preferably a counter
// sample that is exactly 0 - a fresh counter or a reset to 0 -, where the duration-to-zero clamp
// decides), the distance from the window bounds to the first / last sample at 1.1 x the average
// interval +-1 ms, exactly two samples, all-equal samples.
func (g *exprGen) extrapolationQuery() *query {
	if len(g.info.counters) == 0 {
		return nil
	}
	si := g.info.counters[g.r.Intn(len(g.info.counters))]
	sr := &g.set.series[si]
	var real []point
	for _, p := range sr.points {
		if !isStale(p.v) {
			real = append(real, p)
		}
	}
	if len(real) < 3 {
		return nil
	}
	// first sample of the window: a zero sample if there is one (70 %), else any
	a := g.r.Intn(len(real) - 1)
	var zeros []int
	for i, p := range real[:len(real)-1] {
		if p.v == 0 || p.v == 1 {
			zeros = append(zeros, i)
		}
	}
	if len(zeros) > 0 && g.r.Chance(70) {
		a = zeros[g.r.Intn(len(zeros))]
	}
	b := a + 1 + g.r.Intn(4)
	if b >= len(real) {
		b = len(real) - 1
	}
	avg := (real[b].t - real[a].t) / int64(b-a)
	// window start strictly between the previous sample and the first one
	room := int64(120_000)
	if a > 0 {
		room = real[a].t - real[a-1].t - 1
	}
	if room < 1 {
		return nil
	}
	before := 1 + int64(g.r.Intn(int(room)))
	if thr := avg*11/10 + int64(g.r.Intn(3)) - 1; thr >= 1 && thr <= room && g.r.Chance(40) {
		before = thr // the 1.1 x average-interval threshold, +-1 ms
	}
	roomEnd := int64(120_000)
	if b+1 < len(real) {
		roomEnd = real[b+1].t - real[b].t - 1
	}
	after := int64(0)
	if roomEnd > 0 {
		after = int64(g.r.Intn(int(roomEnd) + 1))
		if thr := avg*11/10 + int64(g.r.Intn(3)) - 1; thr >= 0 && thr <= roomEnd && g.r.Chance(40) {
			after = thr
		}
	}
	t := real[b].t + after
	sel := &selector{}
	for _, l := range sr.labels {
		if l.name == "__name__" {
			sel.matchers = append([]matcher{{label: "__name__", kind: "eq", lit: l.value}}, sel.matchers...)
		}
	}
	for _, l := range sr.labels {
		if l.name != "__name__" {
			sel.matchers = append(sel.matchers, matcher{label: l.name, kind: "eq", lit: l.value})
		}
	}
	var e expr = &rangeFn{fn: g.pick([]string{"rate", "increase", "increase", "delta"}), sel: sel, rng: t - (real[a].t - before)}
	if g.r.Chance(20) {
		e = &aggExpr{op: "sum", labels: []string{"job"}, e: e}
	}
	q := &query{e: e, text: e.text(), start: t, end: t, lb: lookbackMs}
	if g.r.Chance(25) {
		q.step = []int64{1_000, 250, 7_000}[g.r.Intn(3)]
		q.end = q.start + q.step*int64(1+g.r.Intn(3))
	}
	return q
}

// threeRecordQuery: a range function (every *_over_time incl. avg, rate / increase / delta) whose
// window spans all three containers of a series of a two-files + memtable layout: the samples of ONE
// window reach the range-vector cursor in three records.
func (g *exprGen) threeRecordQuery() *query {
	if len(g.set.cuts) != 2 {
		return nil
	}
	c1, c2 := g.set.cuts[0], g.set.cuts[1]
	var cands []int
	for si, sr := range g.set.series {
		n := [3]int{}
		for _, p := range sr.points {
			switch {
			case p.t <= c1:
				n[0]++
			case p.t <= c2:
				n[1]++
			default:
				n[2]++
			}
		}
		if n[0] > 0 && n[1] > 0 && n[2] > 0 {
			cands = append(cands, si)
		}
	}
	if len(cands) == 0 {
		return nil
	}
	sr := &g.set.series[cands[g.r.Intn(len(cands))]]
	var before, after []int64
	for _, p := range sr.points {
		if p.t <= c1 {
			before = append(before, p.t)
		} else if p.t > c2 {
			after = append(after, p.t)
		}
	}
	ws := before[g.r.Intn(len(before))] - int64(g.r.Intn(3))
	t := after[g.r.Intn(len(after))] + int64(g.r.Intn(20_000))
	sel := &selector{}
	for _, l := range sr.labels {
		if l.name == "__name__" {
			sel.matchers = append(sel.matchers, matcher{label: "__name__", kind: "eq", lit: l.value})
		}
	}
	if g.r.Chance(50) { // the one series, or every series of the metric
		for _, l := range sr.labels {
			if l.name != "__name__" {
				sel.matchers = append(sel.matchers, matcher{label: l.name, kind: "eq", lit: l.value})
			}
		}
	}
	fns := []string{"avg_over_time", "avg_over_time", "sum_over_time", "count_over_time", "min_over_time", "max_over_time", "last_over_time", "rate", "increase", "delta", "irate"}
	var e expr = &rangeFn{fn: g.pick(fns), sel: sel, rng: t - ws}
	q := &query{e: e, text: e.text(), start: t, end: t, lb: lookbackMs}
	if g.r.Chance(30) {
		q.step = []int64{15_000, 60_000, 7_000}[g.r.Intn(3)]
		q.end = q.start + q.step*int64(1+g.r.Intn(3))
	}
	return q
}

func (g *exprGen) genQuery(avoid bool) *query {
	g.hint = nil
	g.avoid = avoid
	if len(g.set.cuts) == 2 && g.r.Chance(25) {
		if q := g.threeRecordQuery(); q != nil {
			return q
		}
	}
	if g.r.Chance(8) {
		if q := g.extrapolationQuery(); q != nil {
			return q
		}
	}
	t := g.evalTime()
	q := &query{start: t, end: t, lb: lookbackMs}
	if g.hint == nil && g.r.Chance(10) {
		q.lb = []int64{60_000, 120_000, 600_000, 45_500}[g.r.Intn(4)]
	}
	if g.r.Chance(40) {
		q.step = []int64{15_000, 30_000, 60_000, 7_000, 100_000, 1_000, 250, 300_000}[g.r.Intn(8)]
		k := int64(2 + g.r.Intn(10))
		q.end = q.start + q.step*k
		if g.r.Chance(50) {
			q.end += int64(g.r.Intn(int(q.step))) // end not on a step
		}
	}
	g.qStart, g.qEnd, g.qStep = q.start, q.end, q.step
	depth := 0
	switch x := g.r.Intn(10); {
	case x < 3:
		depth = 0
	case x < 7:
		depth = 1
	default:
		depth = 2
	}
	g.atRoot = true
	q.e = g.genVector(t, depth)
	q.text = q.e.text()
	return q
}
