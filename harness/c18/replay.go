package c18

import (
	"bufio"
	"fmt"
	"math"
	"os"
	"path/filepath"
	"sort"
	"strconv"
	"strings"

	"verif/harness/internal/hx"
)

// Script replay (debugging aid, `ogh C18 -D script=<file> -out <dir>`): literal samples and literal
// PromQL on both engines (openGemini over HTTP, the upstream engine in-process), no Lean involved.
//
//	series <k=v,k=v> t:v t:v …      add a series (t in ms, relative to the epoch 1700000000000 when
//	                                 below 1e12; v a number or STALE)
//	load                            create a database, write everything (memtable only)
//	loadphases <ms> <ms> …          write the samples up to each bound, flush after each phase,
//	                                 the rest stays in the memtable
//	lb <ms>                         look-back delta of the following queries
//	q <ms> <promql>                 instant query
//	qr <start> <end> <step> <promql>  range query
//	influx <stmt>                   InfluxQL against the database
func replayScript(c *hx.Ctx, script string) error {
	out, err := filepath.Abs(c.Out)
	if err != nil {
		return err
	}
	srv, err := startServer(filepath.Join(out, "srv"))
	if err != nil {
		return err
	}
	defer srv.stop()
	eng := newEngine()
	f, err := os.Open(script)
	if err != nil {
		return err
	}
	defer f.Close()
	abs := func(s string) int64 {
		v, _ := strconv.ParseInt(s, 10, 64)
		if v < 1_000_000_000_000 {
			v += epochMs
		}
		return v
	}
	set := &sampleSet{}
	var up *upstream
	db := ""
	dbn := 0
	lb := lookbackMs
	load := func(bounds []int64) error {
		if up != nil {
			up.close()
		}
		dbn++
		db = fmt.Sprintf("c18r%d", dbn)
		if _, err := srv.influx("", "CREATE DATABASE "+db); err != nil {
			return err
		}
		sort.SliceStable(set.series, func(i, j int) bool { return labelsKey(set.series[i].labels) < labelsKey(set.series[j].labels) })
		prev := int64(math.MinInt64)
		for _, b := range append(bounds, math.MaxInt64) {
			part := &sampleSet{}
			for _, sr := range set.series {
				ps := series{labels: sr.labels}
				for _, p := range sr.points {
					if p.t > prev && p.t <= b {
						ps.points = append(ps.points, p)
					}
				}
				if len(ps.points) > 0 {
					part.series = append(part.series, ps)
				}
			}
			if len(part.series) > 0 {
				if err := srv.remoteWrite(db, part); err != nil {
					return err
				}
			}
			acc := &sampleSet{}
			for _, sr := range set.series {
				ps := series{labels: sr.labels}
				for _, p := range sr.points {
					if p.t <= b {
						ps.points = append(ps.points, p)
					}
				}
				if len(ps.points) > 0 {
					acc.series = append(acc.series, ps)
				}
			}
			if err := srv.waitVisible(db, acc); err != nil {
				return err
			}
			if b != math.MaxInt64 {
				if err := srv.flush(); err != nil {
					return err
				}
			}
			prev = b
		}
		up, err = openUpstream(filepath.Join(out, "up", db), eng, set)
		return err
	}
	run := func(q *query) {
		want := up.query(q)
		got := srv.promQuery(db, q)
		fmt.Printf("QUERY %s start=%d end=%d step=%d lb=%d\n   og : %s vals %s\n   ref: %s vals %s\n", q.text, q.start, q.end, q.step, q.lb,
			got.structure(), floats(&got), want.structure(), floats(&want))
		if k, d := diffResults(&got, &want); k == "" {
			fmt.Println("   SAME")
		} else {
			fmt.Printf("   DIFF[%s] %s\n", k, d)
		}
	}
	sc := bufio.NewScanner(f)
	sc.Buffer(make([]byte, 1<<20), 1<<26)
	for sc.Scan() {
		line := strings.TrimSpace(sc.Text())
		if line == "" || strings.HasPrefix(line, "#") {
			continue
		}
		fs := strings.Fields(line)
		switch fs[0] {
		case "series":
			sr := series{}
			for _, kv := range strings.Split(fs[1], ",") {
				i := strings.IndexByte(kv, '=')
				sr.labels = append(sr.labels, label{kv[:i], kv[i+1:]})
			}
			sort.Slice(sr.labels, func(i, j int) bool { return sr.labels[i].name < sr.labels[j].name })
			for _, tv := range fs[2:] {
				i := strings.IndexByte(tv, ':')
				v := math.Float64frombits(staleBits)
				if tv[i+1:] != "STALE" {
					v, _ = strconv.ParseFloat(tv[i+1:], 64)
				}
				sr.points = append(sr.points, point{abs(tv[:i]), v})
			}
			set.series = append(set.series, sr)
		case "load":
			if err := load(nil); err != nil {
				return err
			}
		case "loadphases", "loadsplit":
			var bs []int64
			for _, b := range fs[1:] {
				bs = append(bs, abs(b))
			}
			if err := load(bs); err != nil {
				return err
			}
		case "lb":
			lb, _ = strconv.ParseInt(fs[1], 10, 64)
		case "q":
			t := abs(fs[1])
			run(&query{text: strings.Join(fs[2:], " "), start: t, end: t, lb: lb})
		case "qr":
			st, _ := strconv.ParseInt(fs[3], 10, 64)
			run(&query{text: strings.Join(fs[4:], " "), start: abs(fs[1]), end: abs(fs[2]), step: st, lb: lb})
		case "influx":
			body, err := srv.influx(db, strings.Join(fs[1:], " "))
			fmt.Printf("INFLUX %s\n   %s %v\n", strings.Join(fs[1:], " "), strings.TrimSpace(body), err)
		default:
			return fmt.Errorf("replay: unknown verb %q", fs[0])
		}
	}
	if up != nil {
		up.close()
	}
	return nil
}

func floats(r *result) string {
	var out []string
	for _, s := range r.series {
		for _, p := range s.points {
			out = append(out, strconv.FormatFloat(p.v, 'g', -1, 64))
		}
	}
	return strings.Join(out, ",")
}
