package c18

import (
	"context"
	"fmt"
	"os"
	"sort"
	"strings"
	"time"

	"github.com/prometheus/prometheus/model/labels"
	"github.com/prometheus/prometheus/promql"
	"github.com/prometheus/prometheus/tsdb"
)

// ---- the upstream Prometheus engine (module cache, version pinned by /repo/go.mod) over an
// in-process tsdb.DB fed the same samples ---------------------------------------------------

const lookbackMs = int64(5 * 60 * 1000)

type upstream struct {
	db  *tsdb.DB
	dir string
	eng *promql.Engine
}

func newEngine() *promql.Engine {
	return promql.NewEngine(promql.EngineOpts{
		MaxSamples:           50_000_000,
		Timeout:              2 * time.Minute,
		LookbackDelta:        time.Duration(lookbackMs) * time.Millisecond,
		EnableAtModifier:     true,
		EnableNegativeOffset: true,
	})
}

func openUpstream(dir string, eng *promql.Engine, set *sampleSet) (*upstream, error) {
	if err := os.MkdirAll(dir, 0o755); err != nil {
		return nil, err
	}
	opts := tsdb.DefaultOptions()
	opts.MinBlockDuration = int64(24 * time.Hour / time.Millisecond)
	opts.MaxBlockDuration = int64(24 * time.Hour / time.Millisecond)
	opts.RetentionDuration = 0
	db, err := tsdb.Open(dir, nil, nil, opts, tsdb.NewDBStats())
	if err != nil {
		return nil, err
	}
	u := &upstream{db: db, dir: dir, eng: eng}
	// append in global time order (the head rejects nothing then)
	type ev struct {
		t  int64
		si int
		v  float64
	}
	var evs []ev
	for si, sr := range set.series {
		for _, p := range sr.points {
			evs = append(evs, ev{p.t, si, p.v})
		}
	}
	sort.SliceStable(evs, func(i, j int) bool { return evs[i].t < evs[j].t })
	lbls := make([]labels.Labels, len(set.series))
	for si, sr := range set.series {
		var kv []string
		for _, l := range sr.labels {
			kv = append(kv, l.name, l.value)
		}
		lbls[si] = labels.FromStrings(kv...)
	}
	app := db.Appender(context.Background())
	for _, e := range evs {
		if _, err := app.Append(0, lbls[e.si], e.t, e.v); err != nil {
			u.close()
			return nil, fmt.Errorf("upstream append: %w", err)
		}
	}
	if err := app.Commit(); err != nil {
		u.close()
		return nil, err
	}
	return u, nil
}

func (u *upstream) close() {
	if u == nil {
		return
	}
	_ = u.db.Close()
	_ = os.RemoveAll(u.dir)
}

func msTime(ms int64) time.Time { return time.Unix(ms/1000, (ms%1000)*int64(time.Millisecond)).UTC() }

// upstreamErrClass maps an upstream evaluation error to a small enum.
func upstreamErrClass(err error) string {
	s := err.Error()
	switch {
	case strings.Contains(s, "vector cannot contain metrics with the same labelset"):
		return "dup-labelset"
	case strings.Contains(s, "grouping labels must ensure unique matches"):
		return "grouping-dup"
	case strings.Contains(s, "multiple matches for labels: many-to-one matching must be explicit"):
		return "many-to-one"
	case strings.Contains(s, "found duplicate series for the match group"):
		return "dup-match"
	case strings.Contains(s, "multiple matches for labels"):
		return "many-to-many"
	}
	return "other: " + s
}

func (u *upstream) query(q *query) result {
	var qry promql.Query
	var err error
	ctx := context.Background()
	opts := promql.NewPrometheusQueryOpts(false, time.Duration(q.lb)*time.Millisecond)
	if q.step == 0 {
		qry, err = u.eng.NewInstantQuery(ctx, u.db, opts, q.text, msTime(q.start))
	} else {
		qry, err = u.eng.NewRangeQuery(ctx, u.db, opts, q.text, msTime(q.start), msTime(q.end), time.Duration(q.step)*time.Millisecond)
	}
	if err != nil {
		return result{err: "parse: " + err.Error()}
	}
	defer qry.Close()
	r := qry.Exec(ctx)
	if r.Err != nil {
		return result{err: upstreamErrClass(r.Err)}
	}
	res := result{}
	conv := func(m labels.Labels) []label {
		var out []label
		m.Range(func(l labels.Label) { out = append(out, label{l.Name, l.Value}) })
		return out
	}
	switch v := r.Value.(type) {
	case promql.Vector:
		for _, s := range v {
			if s.H != nil {
				return result{err: "histogram"}
			}
			res.series = append(res.series, rseries{labels: conv(s.Metric), points: []point{{s.T, s.F}}})
		}
	case promql.Matrix:
		for _, s := range v {
			rs := rseries{labels: conv(s.Metric)}
			for _, p := range s.Floats {
				rs.points = append(rs.points, point{p.T, p.F})
			}
			res.series = append(res.series, rs)
		}
	default:
		return result{err: "result type " + string(r.Value.Type())}
	}
	res.canon()
	return res
}
