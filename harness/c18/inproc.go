package c18

import (
	"fmt"
	"net/http"
	"os"
	"path/filepath"
	"strings"
	"time"

	"github.com/openGemini/openGemini/app"
	meta "github.com/openGemini/openGemini/app/ts-meta/run"
	tsserver "github.com/openGemini/openGemini/app/ts-server/run"
	ingestserver "github.com/openGemini/openGemini/app/ts-sql/sql"
	store "github.com/openGemini/openGemini/app/ts-store/run"
	"github.com/openGemini/openGemini/lib/config"
	"github.com/openGemini/openGemini/lib/errno"
)

// ---- the single-node server inside the harness process (quick tier) ---------------------------
//
// Exactly what app/ts-server/main.go does - the meta, store and sql commands opened in one
// process from the single-node configuration, storage wired with run.InitStorage - without
// building and spawning a separate binary (that costs 15-60 s of the quick tier under load).
// The harness is itself built from /repo's working tree (with the overlay, if any), so the
// code under test is the same. Requests still go through the HTTP handlers, over loopback.
// The server lives until the harness process exits.

func serverConfig(dir string) (conf string, httpPort int, err error) {
	raw, err := os.ReadFile(filepath.Join(repoDir(), "config", "openGemini.singlenode.conf"))
	if err != nil {
		return "", 0, err
	}
	conf = strings.ReplaceAll(string(raw), "\r\n", "\n")
	ports, err := freePorts(8)
	if err != nil {
		return "", 0, err
	}
	for i, p := range []string{"8092", "8088", "8091", "8086", "8087", "8400", "8401", "8305"} {
		if !strings.Contains(conf, "127.0.0.1:"+p) {
			return "", 0, fmt.Errorf("config rewrite: port %s not found in the single-node config", p)
		}
		conf = strings.ReplaceAll(conf, "127.0.0.1:"+p, fmt.Sprintf("127.0.0.1:%d", ports[i]))
	}
	if !strings.Contains(conf, "/tmp/openGemini") {
		return "", 0, fmt.Errorf("config rewrite: data path not found")
	}
	conf = strings.ReplaceAll(conf, "/tmp/openGemini", filepath.Join(dir, "og"))
	return conf, ports[3], nil
}

func startInProc(dir string) (*ogServer, error) {
	if err := os.MkdirAll(dir, 0o755); err != nil {
		return nil, err
	}
	conf, port, err := serverConfig(dir)
	if err != nil {
		return nil, err
	}
	cf := filepath.Join(dir, "server.conf")
	if err := os.WriteFile(cf, []byte(conf), 0o644); err != nil {
		return nil, err
	}
	errno.SetNode(errno.NodeServer)
	info := app.ServerInfo{App: config.AppSingle, Version: app.Version}
	cmdMeta := meta.NewCommand(info, false)
	cmdStore := store.NewCommand(info, false)
	cmdSql := ingestserver.NewCommand(info, false)
	cmdMeta.Logo, cmdSql.Logo, cmdStore.Logo = "", "", ""
	cmdSql.AfterOpen = func() { tsserver.InitStorage(cmdSql.Server, cmdStore.Server) }
	// the commands print to stdout while starting; keep it out of the harness's own output
	devnull, _ := os.OpenFile(os.DevNull, os.O_WRONLY, 0)
	stdout := os.Stdout
	if devnull != nil {
		os.Stdout = devnull
	}
	for _, c := range []*app.Command{cmdMeta, cmdStore, cmdSql} {
		if err := c.Run("-config", cf); err != nil {
			os.Stdout = stdout
			return nil, fmt.Errorf("in-process server: %w", err)
		}
	}
	os.Stdout = stdout
	s := &ogServer{base: fmt.Sprintf("http://127.0.0.1:%d", port), dir: dir, hc: &http.Client{Timeout: 60 * time.Second}}
	deadline := time.Now().Add(60 * time.Second)
	for time.Now().Before(deadline) {
		resp, err := s.hc.Get(s.base + "/ping")
		if err == nil {
			resp.Body.Close()
			if resp.StatusCode == 204 {
				return s, nil
			}
		}
		time.Sleep(100 * time.Millisecond)
	}
	return nil, fmt.Errorf("in-process server did not answer /ping")
}
