// Package c18: three-way correspondence for C18 (PromQL answers equal Prometheus's).
//
//	(a) openGemini: ONE single-node ts-server per run, built from /repo's working tree (so a
//	    VERIF_OVERLAY mutant reaches it), one database per sample set, samples ingested through
//	    the remote-write endpoint (part of the sets flushed to data files, part left in the
//	    memtable, part split), queried through /api/v1/query and /api/v1/query_range;
//	(b) the Lean reference semantics (the driver answers the same op lines);
//	(c) the upstream promql.Engine (module cache, version pinned by /repo/go.mod) over an
//	    in-process tsdb.DB fed the same samples.
//
// `ref` lines carry the upstream answer (validates the Lean reference), `og` lines the
// openGemini answer (implementation vs model); (a) vs (c) is the property itself and is
// reported through c.Violation with a root-cause class (classify.go).
//
// The HTTP route is used on purpose: handler_prom.go / results_merge_prom.go and the
// remote-write path are anchors of the property and exist only behind the HTTP handlers.
package c18

import (
	"fmt"
	"os"
	"path/filepath"
	"strconv"
	"strings"
	"sync"
	"time"

	"verif/harness/internal/hx"
)

func init() { hx.Register("C18", Run) }

const batchSize = 10

type plannedSet struct {
	id      int
	set     *sampleSet
	info    *setInfo
	rng     *hx.Rng
	variant int // 0 memtable only, 1 flushed, 2 first half flushed + second half in the memtable, 3 two flushes + memtable
	db      string
	up      *upstream
}

func Run(c *hx.Ctx) error {
	if sc := c.Arg("script", ""); sc != "" {
		return replayScript(c, sc)
	}
	n := c.Budget(240, 12000)
	perSet := 12
	if c.Tier == "thorough" {
		perSet = 30
	}
	if v, err := strconv.Atoi(c.Arg("perset", "")); err == nil && v > 0 {
		perSet = v
	}
	only, _ := strconv.Atoi(c.Arg("only", "-1"))
	r := hx.NewRng(c.Seed)
	c.Stats.Rule = "a (sample set, expression, time) case is non-trivial when the reference answer is non-empty"
	c.Stats.Notes = append(c.Stats.Notes,
		fmt.Sprintf("values compared with relative tolerance %g or absolute %g (both engines and the Lean reference); series, label sets and timestamps exactly; exact (bit-for-bit) on integer sample sets for expressions whose operations are exact", relTol, absTol),
		"reference = upstream promql.Engine of the prometheus version pinned by /repo/go.mod over an in-process tsdb; look-back 5m unless the query passes lookback-delta")
	out, err := filepath.Abs(c.Out)
	if err != nil {
		return err
	}
	// the server lives under the scratch directory of ./check (VERIF_SCRATCH, in /var/tmp)
	tStart := time.Now()
	// quick tier: the server inside this process; thorough: a ts-server binary built from the tree
	mode := c.Arg("server", map[bool]string{true: "proc", false: "inproc"}[c.Tier == "thorough"])
	var srv *ogServer
	if mode == "inproc" {
		srv, err = startInProc(filepath.Join(out, "srv"))
	} else {
		srv, err = startServer(filepath.Join(out, "srv"))
	}
	c.Stats.Notes = append(c.Stats.Notes, "openGemini route: "+map[string]string{"inproc": "single-node server opened inside the harness process (as app/ts-server/main.go does), HTTP over loopback", "proc": "ts-server binary built from the tree, HTTP"}[mode])
	if os.Getenv("C18_VERBOSE") != "" {
		fmt.Fprintf(os.Stderr, "TIMING server build+start %v\n", time.Since(tStart))
	}
	if err != nil {
		return fmt.Errorf("openGemini server cannot be run: %w", err)
	}
	defer srv.stop()
	eng := newEngine()
	verbose := os.Getenv("C18_VERBOSE") != ""
	shrunk := false

	var dropLater []string
	cases := 0
	masked := 0 // cases whose deviation is a known finding: a second defect in them would go unseen
	nextID := 0
	defer func() {
		if cases > 0 {
			c.Stats.Notes = append(c.Stats.Notes, fmt.Sprintf("masked share: %d of %d cases (%.1f %%) deviate in a known finding class", masked, cases, 100*float64(masked)/float64(cases)))
		}
	}()
	for cases < n {
		// ---- plan a batch (sequential: every random choice derives from the seed) ----------
		var batch []*plannedSet
		planned := cases
		for len(batch) < batchSize && planned < n {
			sr := r.Fork()
			big := c.Tier == "thorough" && sr.Chance(6)
			set, info := genSet(sr, big)
			ps := &plannedSet{id: nextID, set: set, info: info, rng: sr, variant: sr.Intn(4), db: fmt.Sprintf("c18s%d", nextID)}
			set.cuts = set.cutPoints(ps.variant)
			nextID++
			planned += perSet
			if only >= 0 && ps.id != only {
				continue
			}
			batch = append(batch, ps)
		}
		if only >= 0 && len(batch) == 0 {
			if nextID > only {
				break
			}
			cases = planned
			continue
		}
		if d := os.Getenv("C18_DUMPSETS"); d != "" {
			for _, ps := range batch {
				dumpSet(d, ps)
			}
		}
		// ---- load it: phase A (to be flushed), flush, phase B ---------------------------------
		tLoad := time.Now()
		if err := loadBatch(srv, batch); err != nil {
			return err
		}
		if verbose {
			fmt.Fprintf(os.Stderr, "TIMING load batch of %d: %v\n", len(batch), time.Since(tLoad))
		}
		for _, ps := range batch {
			up, err := openUpstream(filepath.Join(out, "up", ps.db), eng, ps.set)
			if err != nil {
				return err
			}
			ps.up = up
		}
		// ---- query --------------------------------------------------------------------------
		for _, ps := range batch {
			ns, np := ps.set.counts()
			c.Emit(ps.set.opLine(ps.id), fmt.Sprintf("ok %d %d", ns, np))
			c.Count(fmt.Sprintf("layout:%s", []string{"memtable", "flushed", "split", "two-files+memtable"}[ps.variant]))
			g := &exprGen{r: ps.rng, info: ps.info, set: ps.set}
			for k := 0; k < perSet && cases < n; k++ {
				// 80 % of the cases keep clear of the triggers of the known findings (matchers, queries
				// the reference rejects, duplicate signatures over the range), 20 % keep reproducing them
				avoid := ps.rng.Chance(80)
				q := g.genQuery(avoid)
				want := ps.up.query(q)
				for tries := 0; tries < 6 && ((avoid && (want.err != "" || dupSignatureOverRange(ps, q, nil) || dupSignatureX(ps, q, nil, true, false))) || hasTopkTie(ps, q)); tries++ {
					q = g.genQuery(avoid)
					want = ps.up.query(q)
				}
				if avoid {
					c.Count("mode:avoid-known-triggers")
				} else {
					c.Count("mode:any")
				}
				cases++
				got := srv.promQuery(ps.db, q)
				exact := ps.set.allInt && exactExpr(q.e)
				c.Emit(fmt.Sprintf("ref %d %s vals %s", ps.id, q.opTail(), want.values()), want.answer(exact))
				kind, desc := diffResults(&got, &want)
				feat := features(q, ps.set, &want)
				for _, f := range feat {
					c.Count("feature:" + f)
				}
				nontrivial := len(want.series) > 0
				if kind == "" {
					c.Emit(fmt.Sprintf("og %d %s vals %s", ps.id, q.opTail(), got.values()), got.answer(exact))
				} else {
					cls := classify(srv, ps, q, kind, &got, &want)
					if strings.HasPrefix(cls, "unexplained:") {
						// ask again: an answer that differs between two executions of the same query on
						// the same data is a finding of its own (seen under load in long runs only)
						got2 := srv.promQuery(ps.db, q)
						if k2, _ := diffResults(&got2, &want); k2 == "" {
							cls = "answer-not-reproducible"
						}
					}
					line := c.Emit(fmt.Sprintf("og-dev %s %d %s", cls, ps.id, q.opTail()), "dev "+cls)
					full := fmt.Sprintf("query=%q start=%d end=%d step=%d lookback=%d layout=%d: %s", q.text, q.start, q.end, q.step, q.lb, ps.variant, desc)
					if !knownClass(cls) && !shrunk {
						// the first unclassified deviation is minimised: it becomes the replay
						shrunk = true
						full += " || minimised: " + shrink(srv, eng, filepath.Join(out, "shrink"), ps, q)
					} else {
						full += " || samples: " + relevantSamples(ps.set, q, 6)
					}
					c.Violation(line, cls, full)
					c.Count("deviation:" + cls)
					if knownClass(cls) {
						masked++
					}
					if verbose {
						fmt.Fprintf(os.Stderr, "DIFF[%s] set=%d %q start=%d end=%d step=%d lb=%d\n   %s\n", cls, ps.id, q.text, q.start, q.end, q.step, q.lb, desc)
					}
				}
				if nontrivial && len(c.Stats.Samples) < 5 && k == 0 {
					c.Sample(fmt.Sprintf("%s @%d..%d/%d -> %s", q.text, q.start, q.end, q.step, want.structure()))
				}
				c.Case(fmt.Sprintf("%d/%s/%d/%d/%d/%d", ps.id, q.text, q.start, q.end, q.step, q.lb), nontrivial)
				c.Count("expr:" + topKind(q.e))
				if q.step == 0 {
					c.Count("query:instant")
				} else {
					c.Count("query:range")
				}
				if want.err != "" {
					c.Count("reference-error:" + want.err)
				}
			}
		}
		// databases are dropped two batches later: a DROP DATABASE racing with the snapshot a flush
		// started (the flush command returns before it is through) makes the store panic
		// ("wal remove files failed"), which is not what this check is about
		for _, ps := range batch {
			ps.up.close()
			dropLater = append(dropLater, ps.db)
		}
		for len(dropLater) > 2*batchSize {
			if _, err := srv.influx("", "DROP DATABASE "+dropLater[0]); err != nil {
				return err
			}
			dropLater = dropLater[1:]
		}
		if only >= 0 {
			break
		}
	}
	return nil
}

// loadBatch creates the databases and ingests the sets of a batch: what has to end up in data
// files is written first and flushed (the flush command is server-wide), the rest afterwards.
func loadBatch(srv *ogServer, batch []*plannedSet) error {
	par := func(f func(ps *plannedSet) error) error {
		var wg sync.WaitGroup
		errs := make([]error, len(batch))
		for i, ps := range batch {
			wg.Add(1)
			go func(i int, ps *plannedSet) {
				defer wg.Done()
				errs[i] = f(ps)
			}(i, ps)
		}
		wg.Wait()
		for _, e := range errs {
			if e != nil {
				return e
			}
		}
		return nil
	}
	if err := par(func(ps *plannedSet) error {
		_, err := srv.influx("", "CREATE DATABASE "+ps.db)
		return err
	}); err != nil {
		return err
	}
	// three write phases; a flush (server-wide) after the first and after the second
	for phase := 0; phase < 3; phase++ {
		wrote := false
		for _, ps := range batch {
			if ps.set.parts(ps.variant)[phase] != nil {
				wrote = true
			}
		}
		if err := par(func(ps *plannedSet) error {
			part := ps.set.parts(ps.variant)[phase]
			if part == nil {
				return nil
			}
			return srv.remoteWrite(ps.db, part)
		}); err != nil {
			return err
		}
		if phase < 2 && wrote {
			if err := par(func(ps *plannedSet) error {
				acc := ps.set.upTo(ps.variant, phase)
				if acc == nil {
					return nil
				}
				return srv.waitVisible(ps.db, acc)
			}); err != nil {
				return err
			}
			if err := srv.flush(); err != nil {
				return err
			}
		}
	}
	return par(func(ps *plannedSet) error { return srv.waitVisible(ps.db, ps.set) })
}

// cutPoints: the time bounds of the flushed parts (variant 2: the middle; variant 3: the thirds).
func (s *sampleSet) cutPoints(variant int) []int64 {
	var lo, hi int64
	first := true
	for _, sr := range s.series {
		for _, p := range sr.points {
			if first || p.t < lo {
				lo = p.t
			}
			if first || p.t > hi {
				hi = p.t
			}
			first = false
		}
	}
	switch variant {
	case 2:
		return []int64{lo + (hi-lo)/2}
	case 3:
		return []int64{lo + (hi-lo)/3, lo + 2*(hi-lo)/3}
	}
	return nil
}

func (s *sampleSet) between(lo, hi int64) *sampleSet {
	out := &sampleSet{}
	for _, sr := range s.series {
		ps := series{labels: sr.labels}
		for _, p := range sr.points {
			if p.t > lo && p.t <= hi {
				ps.points = append(ps.points, p)
			}
		}
		if len(ps.points) > 0 {
			out.series = append(out.series, ps)
		}
	}
	if len(out.series) == 0 {
		return nil
	}
	return out
}

// parts: what is written in each of the three phases (nil = nothing).
func (s *sampleSet) parts(variant int) [3]*sampleSet {
	const min, max = int64(-1 << 62), int64(1 << 62)
	switch variant {
	case 0:
		return [3]*sampleSet{nil, nil, s}
	case 1:
		return [3]*sampleSet{s, nil, nil}
	case 2:
		return [3]*sampleSet{s.between(min, s.cuts[0]), nil, s.between(s.cuts[0], max)}
	}
	return [3]*sampleSet{s.between(min, s.cuts[0]), s.between(s.cuts[0], s.cuts[1]), s.between(s.cuts[1], max)}
}

// upTo: everything written up to and including the phase.
func (s *sampleSet) upTo(variant, phase int) *sampleSet {
	const min, max = int64(-1 << 62), int64(1 << 62)
	switch {
	case variant == 1:
		return s
	case variant == 2 || (variant == 3 && phase == 0):
		return s.between(min, s.cuts[0])
	case variant == 3:
		return s.between(min, s.cuts[1])
	}
	return nil
}

func topKind(e expr) string {
	switch n := e.(type) {
	case *selector:
		return "selector"
	case *rangeFn:
		return n.fn
	case *aggExpr:
		return "agg:" + n.op
	case *binExpr:
		if n.group != "" {
			return "bin-group_" + n.group
		}
		return "bin:" + n.op
	case *setExpr:
		return "set:" + n.op
	case *kaggExpr:
		return "agg:" + n.op
	case *tsExpr:
		return "timestamp"
	case *subqExpr:
		return "subquery:" + n.fn
	}
	return "other"
}

// waitVisible polls until the written samples can be read back (a write is acknowledged
// before a new series is visible to queries).
func (s *ogServer) waitVisible(db string, set *sampleSet) error {
	_, want := set.counts()
	deadline := time.Now().Add(60 * time.Second)
	last := ""
	for time.Now().Before(deadline) {
		body, err := s.influx(db, "SELECT count(value) FROM /.*/")
		if err == nil {
			got := sumCounts(body)
			if got == want {
				return nil
			}
			last = fmt.Sprintf("%d of %d", got, want)
		} else {
			last = err.Error()
		}
		time.Sleep(50 * time.Millisecond)
	}
	return fmt.Errorf("samples of %s not visible after 60s: %s", db, last)
}

// relevantSamples: the series of the metrics the expression names, restricted to the time
// neighbourhood of the query, at most maxSeries of them (replay text of a deviation).
func relevantSamples(set *sampleSet, q *query, maxSeries int) string {
	names := map[string]bool{}
	anyName := false
	var minOff, maxOff, maxRng int64
	q.e.walk(func(x expr) {
		switch n := x.(type) {
		case *selector:
			m0 := &n.matchers[0]
			if m0.kind == "eq" {
				names[m0.lit] = true
			} else {
				anyName = true
			}
			if n.offset < minOff {
				minOff = n.offset
			}
			if n.offset > maxOff {
				maxOff = n.offset
			}
		case *rangeFn:
			if n.rng > maxRng {
				maxRng = n.rng
			}
		case *subqExpr:
			if n.rng+n.off > maxRng {
				maxRng = n.rng + n.off
			}
		}
	})
	lb := q.lb
	if maxRng > lb {
		lb = maxRng
	}
	lo, hi := q.start-maxOff-lb-1000, q.end-minOff+1000
	var parts []string
	for _, sr := range set.series {
		name := ""
		for _, l := range sr.labels {
			if l.name == "__name__" {
				name = l.value
			}
		}
		if !anyName && !names[name] {
			continue
		}
		var pts []string
		for _, p := range sr.points {
			if p.t >= lo && p.t <= hi {
				v := strconv.FormatFloat(p.v, 'g', -1, 64)
				if isStale(p.v) {
					v = "STALE"
				}
				pts = append(pts, fmt.Sprintf("%d:%s", p.t, v))
			}
		}
		if len(pts) > 40 {
			pts = append(pts[:20], append([]string{"…"}, pts[len(pts)-20:]...)...)
		}
		parts = append(parts, labelsKey(sr.labels)+" "+strings.Join(pts, " "))
		if len(parts) >= maxSeries {
			parts = append(parts, "…")
			break
		}
	}
	return strings.Join(parts, " ; ")
}

// dumpSet writes a sample set as a script of the replay tool (debugging aid, C18_DUMPSETS=<dir>).
func dumpSet(dir string, ps *plannedSet) {
	_ = os.MkdirAll(dir, 0o755)
	var sb strings.Builder
	for _, sr := range ps.set.series {
		sb.WriteString("series ")
		for i, l := range sr.labels {
			if i > 0 {
				sb.WriteByte(',')
			}
			sb.WriteString(l.name + "=" + l.value)
		}
		for _, p := range sr.points {
			if isStale(p.v) {
				fmt.Fprintf(&sb, " %d:STALE", p.t)
			} else {
				fmt.Fprintf(&sb, " %d:%s", p.t, strconv.FormatFloat(p.v, 'g', -1, 64))
			}
		}
		sb.WriteByte('\n')
	}
	fmt.Fprintf(&sb, "# layout %d\n", ps.variant)
	_ = os.WriteFile(filepath.Join(dir, fmt.Sprintf("set%d.txt", ps.id)), []byte(sb.String()), 0o644)
}
