// Package c18: three-way correspondence for C18 (PromQL answers equal Prometheus's).
//
//	(a) openGemini: a single-node ts-server built from /repo's working tree on every run,
//	    samples ingested through the remote-write endpoint, queried through /api/v1/query and
//	    /api/v1/query_range;
//	(b) the Lean reference semantics (the driver answers the same op lines);
//	(c) the upstream promql.Engine (module cache, version pinned by /repo/go.mod) over an
//	    in-process tsdb.DB fed the same samples.
//
// `ref` lines carry the upstream answer (validates the Lean reference), `og` lines the
// openGemini answer (implementation vs model); (a) vs (c) is the property itself and is
// reported through c.Violation with a class assigned from the expression and its trigger.
package c18

import (
	"fmt"
	"os"
	"path/filepath"
	"strings"
	"time"

	"verif/harness/internal/hx"
)

func init() { hx.Register("C18", Run) }

const queriesPerSet = 12

func Run(c *hx.Ctx) error {
	n := c.Budget(60, 3000)
	r := hx.NewRng(c.Seed)
	c.Stats.Rule = "a (sample set, expression, time) case is non-trivial when the reference answer is non-empty and the case exercises a counter reset inside a window, a gap longer than the look-back, a staleness marker, or a boundary-exact sample"
	out, err := filepath.Abs(c.Out)
	if err != nil {
		return err
	}
	srv, err := startServer(filepath.Join(out, "srv"))
	if err != nil {
		return fmt.Errorf("openGemini server cannot be run: %w", err)
	}
	defer srv.stop()
	eng := newEngine()
	verbose := os.Getenv("C18_VERBOSE") != ""

	cases := 0
	for setID := 0; cases < n; setID++ {
		sr := r.Fork()
		set, info := genSet(sr, false)
		db := fmt.Sprintf("c18s%d", setID)
		if _, err := srv.influx("", "CREATE DATABASE "+db); err != nil {
			return err
		}
		if err := srv.remoteWrite(db, set); err != nil {
			return err
		}
		ns, np := set.counts()
		if err := srv.waitVisible(db, set); err != nil {
			return err
		}
		up, err := openUpstream(filepath.Join(out, "up", db), eng, set)
		if err != nil {
			return err
		}
		c.Emit(set.opLine(setID), fmt.Sprintf("ok %d %d", ns, np))
		g := &exprGen{r: sr, info: info, set: set}
		for k := 0; k < queriesPerSet && cases < n; k++ {
			q := g.genQuery()
			cases++
			want := up.query(q)
			got := srv.promQuery(db, q)
			exact := set.allInt && exactExpr(q.e)
			refLine := c.Emit(fmt.Sprintf("ref %d %s vals %s", setID, q.opTail(), want.values()), want.answer(exact))
			_ = refLine
			kind, desc := diffResults(&got, &want)
			if kind == "" {
				c.Emit(fmt.Sprintf("og %d %s vals %s", setID, q.opTail(), got.values()), got.answer(exact))
			} else {
				cls := classify(q, kind)
				line := c.Emit(fmt.Sprintf("og-dev %s %d %s", cls, setID, q.opTail()), "dev "+cls)
				c.Violation(line, cls, fmt.Sprintf("db=%s query=%q start=%d end=%d step=%d: %s", db, q.text, q.start, q.end, q.step, desc))
				if verbose {
					fmt.Fprintf(os.Stderr, "DIFF[%s] set=%d %q start=%d end=%d step=%d\n   %s\n", cls, setID, q.text, q.start, q.end, q.step, desc)
				}
			}
			c.Case(fmt.Sprintf("%d/%s/%d/%d/%d", setID, q.text, q.start, q.end, q.step), len(want.series) > 0)
			c.Count("expr:" + topKind(q.e))
			if q.step == 0 {
				c.Count("query:instant")
			} else {
				c.Count("query:range")
			}
		}
		up.close()
		if _, err := srv.influx("", "DROP DATABASE "+db); err != nil {
			return err
		}
	}
	return nil
}

func topKind(e expr) string {
	switch n := e.(type) {
	case *selector:
		return "selector"
	case *rangeFn:
		return n.fn
	case *aggExpr:
		return "agg:" + n.op
	case *binExpr:
		return "bin:" + n.op
	}
	return "other"
}

// classify: provisional finding class (function names of the expression + kind of diff).
func classify(q *query, kind string) string {
	if kind == "err" {
		return "err:" + kind
	}
	trig := ""
	q.e.walk(func(x expr) {
		if sel, ok := x.(*selector); ok {
			for i := range sel.matchers {
				m := &sel.matchers[i]
				if m.re != nil && trig == "" {
					trig = "matcher:regex"
				}
				if m.re == nil && m.lit == "" {
					trig = "matcher:empty_value"
				}
			}
		}
	})
	if trig != "" {
		return trig
	}
	var parts []string
	seen := map[string]bool{}
	q.e.walk(func(x expr) {
		k := ""
		switch n := x.(type) {
		case *rangeFn:
			k = n.fn
		case *aggExpr:
			k = n.op
		case *binExpr:
			k = "bin"
		}
		if k != "" && !seen[k] {
			seen[k] = true
			parts = append(parts, k)
		}
	})
	if len(parts) == 0 {
		parts = []string{"selector"}
	}
	return strings.Join(parts, "+") + ":" + kind
}

// waitVisible polls until the written samples can be read back (a write is acknowledged
// before a new series is visible to queries).
func (s *ogServer) waitVisible(db string, set *sampleSet) error {
	_, want := set.counts()
	deadline := time.Now().Add(30 * time.Second)
	last := ""
	for time.Now().Before(deadline) {
		body, err := s.influx(db, "SELECT count(value) FROM /.*/")
		if err == nil {
			got := sumCounts(body)
			if got == want {
				return nil
			}
			last = fmt.Sprintf("%d of %d", got, want)
		} else {
			last = err.Error()
		}
		time.Sleep(50 * time.Millisecond)
	}
	return fmt.Errorf("samples of %s not visible after 30s: %s", db, last)
}
