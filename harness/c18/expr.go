package c18

import (
	"fmt"
	"math"
	"strconv"
	"strings"
)

// ---- a tiny regular-expression AST (the generator builds the PromQL text and the prefix
// encoding for the Lean matcher from the same tree) -----------------------------------------

type rx struct {
	kind string // lit any star plus opt alt cat
	s    string
	a, b *rx
}

func (r *rx) text() string {
	switch r.kind {
	case "lit":
		return r.s
	case "any":
		return "."
	case "star":
		return r.a.atom() + "*"
	case "plus":
		return r.a.atom() + "+"
	case "opt":
		return r.a.atom() + "?"
	case "alt":
		return r.a.text() + "|" + r.b.text()
	case "cat":
		return r.a.catArg() + r.b.catArg()
	}
	panic("rx kind")
}

func (r *rx) atom() string {
	if r.kind == "any" || (r.kind == "lit" && len(r.s) == 1) {
		return r.text()
	}
	return "(" + r.text() + ")"
}

func (r *rx) catArg() string {
	if r.kind == "alt" {
		return "(" + r.text() + ")"
	}
	return r.text()
}

func (r *rx) tokens() []string {
	switch r.kind {
	case "lit":
		return []string{"lit:" + r.s}
	case "any":
		return []string{"any"}
	case "star", "plus", "opt":
		return append([]string{r.kind}, r.a.tokens()...)
	default:
		return append(append([]string{r.kind}, r.a.tokens()...), r.b.tokens()...)
	}
}

// ---- PromQL subset ------------------------------------------------------------------------

type expr interface {
	text() string
	tokens() []string
	walk(f func(expr))
}

type numLit struct{ v float64 }

type matcher struct {
	label string
	kind  string // eq ne re nre
	lit   string
	re    *rx
}

type selector struct {
	matchers []matcher // includes the matcher(s) on __name__
	offset   int64     // ms, may be negative
	braces   bool      // print {__name__="m",…} instead of m{…}
	at       *int64    // @ modifier: evaluation time in ms (nil = none)
	atKind   string    // how it is written: "num", "start", "end"
}

// modifiers: the text after the selector (or after the range of a range selector).
func (s *selector) modifiers() string {
	out := ""
	if s.at != nil {
		switch s.atKind {
		case "start":
			out += " @ start()"
		case "end":
			out += " @ end()"
		default:
			out += fmt.Sprintf(" @ %d.%03d", *s.at/1000, *s.at%1000)
		}
	}
	if s.offset != 0 {
		out += " offset " + durText(s.offset)
	}
	return out
}

func (s *selector) base() string {
	var ms []string
	for i := range s.matchers {
		ms = append(ms, s.matchers[i].text())
	}
	out := "{" + strings.Join(ms, ",") + "}"
	if m0 := &s.matchers[0]; m0.label == "__name__" && m0.kind == "eq" && !s.braces {
		out = m0.lit
		if len(ms) > 1 {
			out += "{" + strings.Join(ms[1:], ",") + "}"
		}
	}
	return out
}

type rangeFn struct {
	fn  string
	sel *selector
	rng int64 // ms
}

type aggExpr struct {
	op      string // sum avg min max count
	without bool
	labels  []string
	e       expr
}

type binExpr struct {
	op     string // + - * / == != < <= > >=
	isBool bool
	match  string // none on ign
	labels []string
	l, r   expr
	// many-to-one matching: group = "left" | "right" | "", include = the labels of the modifier
	group   string
	include []string
}

// setExpr: and / or / unless.
type setExpr struct {
	op     string
	match  string // none on ign
	labels []string
	l, r   expr
}

// kaggExpr: topk / bottomk / quantile.
type kaggExpr struct {
	op      string
	param   float64
	without bool
	labels  []string
	e       expr
}

// tsExpr: timestamp(e).
type tsExpr struct{ e expr }

// subqExpr: fn((e)[rng:stp] offset off).
type subqExpr struct {
	fn            string
	rng, stp, off int64
	e             expr
}

func durText(ms int64) string {
	neg := ""
	if ms < 0 {
		neg = "-"
		ms = -ms
	}
	if ms%1000 == 0 {
		return neg + strconv.FormatInt(ms/1000, 10) + "s"
	}
	return neg + strconv.FormatInt(ms, 10) + "ms"
}

func (n *numLit) text() string {
	if n.v == math.Trunc(n.v) && math.Abs(n.v) < 1e15 {
		return strconv.FormatInt(int64(n.v), 10)
	}
	return strconv.FormatFloat(n.v, 'g', -1, 64)
}
func (n *numLit) tokens() []string { return []string{"num", valTok(n.v)} }
func (n *numLit) walk(f func(expr)) { f(n) }

func (m *matcher) text() string {
	op := map[string]string{"eq": "=", "ne": "!=", "re": "=~", "nre": "!~"}[m.kind]
	v := m.lit
	if m.re != nil {
		v = m.re.text()
	}
	return m.label + op + `"` + v + `"`
}

func (s *selector) text() string { return s.base() + s.modifiers() }

func (s *selector) selTokens() []string {
	t := []string{"sel", strconv.Itoa(len(s.matchers))}
	for i := range s.matchers {
		m := &s.matchers[i]
		t = append(t, "l:"+m.label, m.kind)
		if m.re != nil {
			t = append(t, m.re.tokens()...)
		} else {
			t = append(t, "v:"+m.lit)
		}
	}
	at := "-"
	if s.at != nil {
		at = strconv.FormatInt(*s.at, 10)
	}
	return append(t, strconv.FormatInt(s.offset, 10), at)
}
func (s *selector) tokens() []string { return s.selTokens() }
func (s *selector) walk(f func(expr)) { f(s) }

func (r *rangeFn) text() string {
	return r.fn + "(" + r.sel.base() + "[" + durText(r.rng) + "]" + r.sel.modifiers() + ")"
}
func (r *rangeFn) tokens() []string {
	return append([]string{"rfn", r.fn, strconv.FormatInt(r.rng, 10)}, r.sel.selTokens()...)
}
func (r *rangeFn) walk(f func(expr)) { f(r); f(r.sel) }

func (a *aggExpr) text() string {
	mod := "by"
	if a.without {
		mod = "without"
	}
	return fmt.Sprintf("%s %s (%s) (%s)", a.op, mod, strings.Join(a.labels, ","), a.e.text())
}
func (a *aggExpr) tokens() []string {
	mod := "by"
	if a.without {
		mod = "without"
	}
	t := []string{"agg", a.op, mod, strconv.Itoa(len(a.labels))}
	for _, l := range a.labels {
		t = append(t, "l:"+l)
	}
	return append(t, a.e.tokens()...)
}
func (a *aggExpr) walk(f func(expr)) { f(a); a.e.walk(f) }

func (b *binExpr) text() string {
	op := b.op
	if b.isBool {
		op += " bool"
	}
	switch b.match {
	case "on":
		op += " on (" + strings.Join(b.labels, ",") + ")"
	case "ign":
		op += " ignoring (" + strings.Join(b.labels, ",") + ")"
	}
	if b.group != "" {
		op += " group_" + b.group + " (" + strings.Join(b.include, ",") + ")"
	}
	return "(" + b.l.text() + ") " + op + " (" + b.r.text() + ")"
}
func (b *binExpr) tokens() []string {
	bl := "0"
	if b.isBool {
		bl = "1"
	}
	kind := "bin"
	if b.group != "" {
		kind = "bing"
	}
	t := []string{kind, b.op, bl, b.match, strconv.Itoa(len(b.labels))}
	for _, l := range b.labels {
		t = append(t, "l:"+l)
	}
	if b.group != "" {
		t = append(t, b.group, strconv.Itoa(len(b.include)))
		for _, l := range b.include {
			t = append(t, "l:"+l)
		}
	}
	t = append(t, b.l.tokens()...)
	return append(t, b.r.tokens()...)
}
func (b *binExpr) walk(f func(expr)) { f(b); b.l.walk(f); b.r.walk(f) }

func (x *setExpr) text() string {
	op := x.op
	switch x.match {
	case "on":
		op += " on (" + strings.Join(x.labels, ",") + ")"
	case "ign":
		op += " ignoring (" + strings.Join(x.labels, ",") + ")"
	}
	return "(" + x.l.text() + ") " + op + " (" + x.r.text() + ")"
}
func (x *setExpr) tokens() []string {
	t := []string{"set", x.op, x.match, strconv.Itoa(len(x.labels))}
	for _, l := range x.labels {
		t = append(t, "l:"+l)
	}
	t = append(t, x.l.tokens()...)
	return append(t, x.r.tokens()...)
}
func (x *setExpr) walk(f func(expr)) { f(x); x.l.walk(f); x.r.walk(f) }

func (x *kaggExpr) text() string {
	mod := "by"
	if x.without {
		mod = "without"
	}
	return fmt.Sprintf("%s %s (%s) (%s, %s)", x.op, mod, strings.Join(x.labels, ","), (&numLit{v: x.param}).text(), x.e.text())
}
func (x *kaggExpr) tokens() []string {
	mod := "by"
	if x.without {
		mod = "without"
	}
	t := []string{"aggk", x.op, valTok(x.param), mod, strconv.Itoa(len(x.labels))}
	for _, l := range x.labels {
		t = append(t, "l:"+l)
	}
	return append(t, x.e.tokens()...)
}
func (x *kaggExpr) walk(f func(expr)) { f(x); x.e.walk(f) }

func (x *tsExpr) text() string { return "timestamp(" + x.e.text() + ")" }
func (x *tsExpr) tokens() []string {
	if sel, ok := x.e.(*selector); ok {
		return append([]string{"tssel"}, sel.selTokens()...)
	}
	return append([]string{"ts"}, x.e.tokens()...)
}
func (x *tsExpr) walk(f func(expr)) { f(x); x.e.walk(f) }

func (x *subqExpr) text() string {
	off := ""
	if x.off != 0 {
		off = " offset " + durText(x.off)
	}
	return x.fn + "((" + x.e.text() + ")[" + durText(x.rng) + ":" + durText(x.stp) + "]" + off + ")"
}
func (x *subqExpr) tokens() []string {
	return append([]string{"subq", x.fn, strconv.FormatInt(x.rng, 10), strconv.FormatInt(x.stp, 10), strconv.FormatInt(x.off, 10)}, x.e.tokens()...)
}
func (x *subqExpr) walk(f func(expr)) { f(x); x.e.walk(f) }

func exactFn(fn string) bool {
	switch fn {
	case "last_over_time", "min_over_time", "max_over_time", "count_over_time", "sum_over_time", "present_over_time":
		return true
	}
	return false
}

func isScalar(e expr) bool { _, ok := e.(*numLit); return ok }

// exactExpr: every operation of the expression is exact on small integers, whatever the
// evaluation order (so an answer can be compared bit for bit).
func exactExpr(e expr) bool {
	ok := true
	e.walk(func(x expr) {
		switch n := x.(type) {
		case *numLit:
			if n.v != math.Trunc(n.v) || math.Abs(n.v) > 1000 {
				ok = false
			}
		case *rangeFn:
			switch n.fn {
			case "last_over_time", "min_over_time", "max_over_time", "count_over_time", "sum_over_time", "present_over_time":
			default:
				ok = false
			}
		case *aggExpr:
			if n.op == "avg" {
				ok = false
			}
		case *binExpr:
			if n.op == "/" {
				ok = false
			}
			if n.op == "*" && !isScalar(n.l) && !isScalar(n.r) {
				ok = false
			}
		case *tsExpr:
			ok = false
		case *subqExpr:
			if !exactFn(n.fn) {
				ok = false
			}
		case *kaggExpr:
			if n.op == "quantile" {
				ok = false
			}
		}
	})
	return ok
}

type query struct {
	e                expr
	text             string
	start, end, step int64 // ms; instant: start == end, step == 0
	lb               int64 // look-back delta in ms (the request parameter lookback-delta); lookbackMs = server default
}

func (q *query) opTail() string {
	lb := "D" // the server's default look-back (the model takes it from the regenerated facts)
	if q.lb != lookbackMs {
		lb = strconv.FormatInt(q.lb, 10)
	}
	return fmt.Sprintf("%d %d %d %s %s", q.start, q.end, q.step, lb, strings.Join(q.e.tokens(), " "))
}

func (q *query) steps() []int64 {
	if q.step == 0 {
		return []int64{q.start}
	}
	var out []int64
	for t := q.start; t <= q.end; t += q.step {
		out = append(out, t)
	}
	return out
}
