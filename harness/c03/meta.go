package c03

// The metadata the read path prunes with, audited against the rows, and bounded reads.
//
// A ts-store data file carries, besides the rows: a trailer (series-id range, time range, number
// of chunks), a meta index - one entry per chunk-meta BLOCK with the first series id of the
// block, the time range of the block and its number of chunks -, the chunk metas (one per
// series, with a time range per segment) and a bloom filter over the series ids. A read of
// (series, time range) consults them in this order and skips everything they exclude
// (tsspFileReader.Contains / MetaIndex(sid, tr) / segment ranges). A writer that stores a range
// narrower than the rows it covers loses rows for bounded reads only: full-range dumps still see
// everything.
//
// auditFiles recomputes every stored range and id from the rows of every file of a measurement
// (hook engine.VerifShard.FileMetas) and reports what does not cover its contents; it also
// returns every boundary (segment / block / file min and max) so that boundedReads can read the
// measurement through the real cursor path with ranges that start and end at, just before and
// just after every boundary and compare with the last-write-wins map restricted to the range.
// Every new file also goes to the model as a `meta` line (OG.C03.Meta: the writers' update
// rules, regenerated), which answers with the blocks and the trailer it expects.

import (
	"fmt"
	"os"
	"sort"
	"strings"

	"github.com/openGemini/openGemini/engine"
	"github.com/openGemini/openGemini/engine/immutable"
	"github.com/openGemini/openGemini/lib/util"

	"verif/harness/engx"
	"verif/harness/internal/hx"
)

func tIdx(ns int64) int64 { return (ns - engx.BaseTime) / 1e9 }

func (m lww) readRange(lo, hi int) string {
	sub := lww{}
	for k, v := range m {
		if k.t >= lo && k.t <= hi {
			sub[k] = v
		}
	}
	return sub.read()
}

// blockLimit is the chunk-meta block size the writers of this process use now (0 = default).
var blockLimit int

func setBlockLimit(n int) {
	blockLimit = n
	immutable.VerifSetChunkMetaBlockLimits(n, 0)
}

type auditResult struct {
	bad    []string
	bounds []int
	metas  []immutable.VerifC03FileMeta
}

func auditFiles(sh *engine.VerifShard, m string) (auditResult, error) {
	var res auditResult
	metas, err := sh.FileMetas(m)
	if err != nil {
		return res, err
	}
	res.metas = metas
	bset := map[int]bool{}
	addB := func(ns int64) { bset[int(tIdx(ns))] = true }
	for _, f := range metas {
		say := func(format string, a ...interface{}) {
			res.bad = append(res.bad, fmt.Sprintf("file %s: ", f.Name)+fmt.Sprintf(format, a...))
		}
		addB(f.MinTime)
		addB(f.MaxTime)
		var lastSid uint64
		first := true
		total := int64(0)
		for bi, b := range f.Blocks {
			addB(b.MinTime)
			addB(b.MaxTime)
			if int(b.Count) != len(b.Chunks) {
				say("block %d says %d chunks, holds %d", bi, b.Count, len(b.Chunks))
			}
			if len(b.Chunks) == 0 {
				say("block %d is empty", bi)
				continue
			}
			if b.ID != b.Chunks[0].Sid {
				say("block %d is indexed under series id %d, its first chunk is series %d", bi, b.ID, b.Chunks[0].Sid)
			}
			for _, ch := range b.Chunks {
				total++
				if !first && ch.Sid <= lastSid {
					say("series ids not ascending: %d after %d", ch.Sid, lastSid)
				}
				if first && f.MinID != ch.Sid {
					say("trailer min id %d, first chunk %d", f.MinID, ch.Sid)
				}
				first = false
				lastSid = ch.Sid
				if !ch.InBloom {
					say("the bloom filter excludes series %d, which has a chunk", ch.Sid)
				}
				if len(ch.Segments) == 0 {
					say("series %d has no segment", ch.Sid)
				}
				var prevMax int64
				for si, sg := range ch.Segments {
					addB(sg.Min)
					addB(sg.Max)
					if len(sg.Times) == 0 {
						say("series %d segment %d holds no row", ch.Sid, si)
						continue
					}
					mn, mx := sg.Times[0], sg.Times[0]
					for k, t := range sg.Times {
						if k > 0 && t <= sg.Times[k-1] {
							say("series %d segment %d: timestamps not ascending", ch.Sid, si)
						}
						if t < mn {
							mn = t
						}
						if t > mx {
							mx = t
						}
					}
					if sg.Min > mn || sg.Max < mx {
						say("series %d segment %d stores the range [%d,%d], its rows span [%d,%d]", ch.Sid, si, tIdx(sg.Min), tIdx(sg.Max), tIdx(mn), tIdx(mx))
					}
					if si > 0 && mn <= prevMax {
						say("series %d segment %d starts at %d, the segment before ends at %d", ch.Sid, si, tIdx(mn), tIdx(prevMax))
					}
					prevMax = mx
					if b.MinTime > mn || b.MaxTime < mx {
						say("chunk-meta block %d (first series %d) stores the range [%d,%d], series %d in it has rows in [%d,%d]: a read of series %d bounded outside the stored range skips the block",
							bi, b.ID, tIdx(b.MinTime), tIdx(b.MaxTime), ch.Sid, tIdx(mn), tIdx(mx), ch.Sid)
					}
					if f.MinTime > mn || f.MaxTime < mx {
						say("the trailer stores the range [%d,%d], series %d has rows in [%d,%d]", tIdx(f.MinTime), tIdx(f.MaxTime), ch.Sid, tIdx(mn), tIdx(mx))
					}
				}
			}
		}
		if !first && f.MaxID != lastSid {
			say("trailer max id %d, last chunk %d", f.MaxID, lastSid)
		}
		if total != f.IDCount {
			say("trailer counts %d chunks, the blocks hold %d", f.IDCount, total)
		}
	}
	for b := range bset {
		res.bounds = append(res.bounds, b)
	}
	sort.Ints(res.bounds)
	return res, nil
}

// metaLine: the chunks of a file as the model's writer gets them, and the blocks and the trailer
// the real writer stored.
func metaLine(f immutable.VerifC03FileMeta, writer string, limit int) (op, ans string) {
	if limit <= 0 {
		limit = util.DefaultMaxChunkMetaItemCount
	}
	var cs, bs []string
	for _, b := range f.Blocks {
		for _, ch := range b.Chunks {
			mn, mx := int64(0), int64(0)
			if len(ch.Segments) > 0 {
				mn, mx = ch.Segments[0].Min, ch.Segments[len(ch.Segments)-1].Max
			}
			cs = append(cs, fmt.Sprintf("%d:%d:%d", ch.Sid, tIdx(mn), tIdx(mx)))
		}
		bs = append(bs, fmt.Sprintf("%d:%d:%d:%d", b.ID, tIdx(b.MinTime), tIdx(b.MaxTime), b.Count))
	}
	op = fmt.Sprintf("meta w=%s limit=%d chunks=%s", writer, limit, strings.Join(cs, ","))
	ans = fmt.Sprintf("blocks %s trailer %d:%d:%d:%d:%d", strings.Join(bs, ";"), f.MinID, f.MaxID, tIdx(f.MinTime), tIdx(f.MaxTime), f.IDCount)
	return
}

// boundedRanges: ranges that start / end at, before and after every boundary.
func boundedRanges(bounds []int, r *hx.Rng, max int) [][2]int {
	if len(bounds) == 0 {
		return nil
	}
	lo, hi := bounds[0]-1, bounds[len(bounds)-1]+1
	var all [][2]int
	for _, b := range bounds {
		all = append(all, [2]int{b, hi}, [2]int{b + 1, hi}, [2]int{lo, b}, [2]int{lo, b - 1}, [2]int{b, b})
	}
	for i := 0; i+1 < len(bounds); i++ {
		all = append(all, [2]int{bounds[i] + 1, bounds[i+1]}, [2]int{bounds[i], bounds[i+1] - 1})
	}
	if len(all) <= max {
		return all
	}
	// a spread over the list, the start shifted by the seed
	var out [][2]int
	off := r.Intn(len(all))
	for i := 0; i < max; i++ {
		out = append(out, all[(off+i*len(all)/max)%len(all)])
	}
	return out
}

// checkMeta runs the audit, the bounded reads and emits the model lines of the files not seen
// before. what says where in which history; seen de-duplicates files; writerOf names the
// writer of a new file ("stream", "builder", "any").
func checkMeta(c *hx.Ctx, sh *engine.VerifShard, m string, spec lww, r *hx.Rng, what string, seen map[string]bool, writer string, maxRanges int) {
	res, err := auditFiles(sh, m)
	if err != nil {
		line := c.Emit("open 0", "ok")
		c.Violation(line, "", fmt.Sprintf("%s: reading the file metadata failed: %v", what, err))
		return
	}
	c.Count("meta:audits")
	for _, f := range res.metas {
		key := fmt.Sprintf("%v/%s/%d/%d", f.Order, f.Name, f.IDCount, f.MaxTime)
		if seen[key] {
			continue
		}
		seen[key] = true
		op, ans := metaLine(f, writer, blockLimit)
		c.Emit(op, ans)
		c.Count(fmt.Sprintf("meta:file-blocks=%d", min(len(f.Blocks), 4)))
		c.Case("meta|"+op, len(f.Blocks) > 1)
	}
	if len(res.bad) > 0 {
		line := c.Emit("open 0", "ok")
		n := len(res.bad)
		if n > 4 {
			res.bad = res.bad[:4]
		}
		c.Violation(line, "", fmt.Sprintf("%s: metadata audit of measurement %s (%d findings): %s", what, m, n, strings.Join(res.bad, "; ")))
	}
	for _, rg := range boundedRanges(res.bounds, r, maxRanges) {
		if rg[0] > rg[1] {
			continue
		}
		rows, derr := sh.Dump(m, engx.AllFields(), engx.TimeOf(rg[0]), engx.TimeOf(rg[1]), true)
		got := engx.DumpText(rows)
		want := spec.readRange(rg[0], rg[1])
		c.Count("meta:bounded-reads")
		if derr != nil || got != want {
			line := c.Emit("open 0", "ok")
			c.Violation(line, "", fmt.Sprintf("%s: read of measurement %s bounded to times [%d,%d] returns %q (%v), the last-write-wins map restricted to the range is %q", what, m, rg[0], rg[1], got, derr, want))
			return
		}
	}
}

// runMetaHistory: more series than a block holds, series with different time coverage (some
// stop early, some start late), flush generations, then level compaction (streaming or not),
// merge of late data, full compaction - audit and bounded reads after every step.
func runMetaHistory(c *hx.Ctx, r *hx.Rng, idx int, thorough bool) error {
	root := scratchDir("c03meta")
	defer os.RemoveAll(root)
	limit := 2 + r.Intn(2)
	nS := 2*limit + r.Intn(4)
	flag := []int32{util.StreamingCompact, util.NonStreamingCompact}[idx%2]
	k := knobs{minGroup0: 2 + r.Intn(2), minGroup1: 2, mergeFlag: flag, streamModeLevel: []int{2, 0}[r.Intn(2)],
		maxSelfLevel: 0, levelMergeNum: 8, maxUnorderedNum: 64, segRows: []int{0, 16}[r.Intn(2)]}
	applyKnobs(k)
	setBlockLimit(limit)
	defer resetKnobs()
	sh, err := engine.VerifOpenShard(root, 1)
	if err != nil {
		return err
	}
	sh.DetachFromCompactor()
	c.Emit(fmt.Sprintf("open %d", 300000+idx), "ok")
	spec := lww{}
	seen := map[string]bool{}
	what := func(s string) string {
		return fmt.Sprintf("meta-history %d (%d series, %d chunk metas per block, %s) %s", idx, nS, limit, k.String(), s)
	}
	maxR := 40
	if thorough {
		maxR = 200
	}
	gens := k.minGroup0*2 + r.Intn(2)
	span := 6 + r.Intn(6)
	// the role of a series over the whole history: 0 = reports all the time, 1 = stops early
	// (silent in the later generations), 2 = starts late. Series are created one write after
	// the other, so series ids ascend with the series number and chunk-meta block b starts
	// with series b*limit: the first series of every later block covers less time than the
	// series behind it, while series 0 covers everything - the ranges of the later blocks have
	// to be widened by chunks that do not widen the file's range.
	role := make([]int, nS)
	stopAfter := make([]int, nS) // last generation a role-1 series reports in / first of a role-2 series
	for s := 1; s < nS; s++ {
		switch {
		case s%limit == 0 && (s/limit)%2 == 1:
			role[s] = 1
		case s%limit == 0:
			role[s] = 2
		case s > limit && s%limit == 1:
			role[s] = 0 // the series right behind the first of a later block covers everything
		case r.Chance(25):
			role[s] = 1 + r.Intn(2)
		}
		stopAfter[s] = r.Intn(gens - 1)
		if role[s] == 2 {
			stopAfter[s] = 1 + r.Intn(gens-1)
		}
	}
	for g := 0; g < gens; g++ {
		var rows []engx.Row
		for s := 0; s < nS; s++ {
			from, to := 0, span-1
			switch role[s] {
			case 1:
				if g > stopAfter[s] && g > 0 {
					continue
				}
				if g == stopAfter[s] {
					to = r.Intn(span/2 + 1)
				}
			case 2:
				if g < stopAfter[s] && g > 0 {
					continue
				}
				if g == stopAfter[s] {
					from = span/2 + r.Intn(span/2)
				}
			}
			for t := from; t <= to; t++ {
				if r.Chance(85) || t == from || t == to {
					row := engx.Row{Mst: mst, Series: s, T: 10 + g*span + t, Fields: map[string]string{}}
					for _, f := range engx.FieldNames {
						if r.Chance(60) {
							row.Fields[f] = genVal(r, f)
						}
					}
					if len(row.Fields) == 0 {
						row.Fields["fi"] = genVal(r, "fi")
					}
					rows = append(rows, row)
				}
			}
			if g > 0 && r.Chance(25) { // late data: an out-of-order file
				row := engx.Row{Mst: mst, Series: s, T: r.Intn(10 + g*span), Fields: map[string]string{"fi": genVal(r, "fi")}}
				rows = append(rows, row)
			}
			if g == 0 { // one write per series: series ids in series order
				var werr error
				if perr := hx.Safe(func() { werr = sh.Write(engx.ToInflux(rows)) }); perr != "" || werr != nil {
					return fmt.Errorf("write failed: %s %v", perr, werr)
				}
				spec.apply(rows)
				rows = nil
			}
		}
		if len(rows) > 0 {
			var werr error
			if perr := hx.Safe(func() { werr = sh.Write(engx.ToInflux(rows)) }); perr != "" || werr != nil {
				return fmt.Errorf("write failed: %s %v", perr, werr)
			}
			spec.apply(rows)
		}
		if perr := hx.Safe(func() { sh.Flush() }); perr != "" {
			return fmt.Errorf("flush failed: %s", perr)
		}
	}
	sh.FlushIndex()
	checkMeta(c, sh, mst, spec, r, what("after the flushes"), seen, "builder", maxR)
	w := "builder"
	if flag == util.StreamingCompact {
		w = "stream"
	}
	steps := []struct {
		name, writer string
		f            func() error
	}{
		{"level 0 compaction", w, func() error { return sh.LevelCompact(0) }},
		{"merge of the out-of-order files", "any", func() error { return sh.MergeOutOfOrder(false, true) }},
		{"level 0 compaction", w, func() error { return sh.LevelCompact(0) }},
		{"full compaction", w, func() error { return sh.FullCompact() }},
	}
	for _, st := range steps {
		var oerr error
		if perr := hx.Safe(func() { oerr = st.f() }); perr != "" || oerr != nil {
			return fmt.Errorf("%s failed: %s %v", st.name, perr, oerr)
		}
		sh.FlushIndex()
		checkMeta(c, sh, mst, spec, r, what("after "+st.name), seen, st.writer, maxR)
	}
	c.Count("meta-histories")
	if perr := hx.Safe(func() { sh.Close() }); perr != "" {
		return fmt.Errorf("close failed: %s", perr)
	}
	return nil
}
