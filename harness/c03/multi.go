package c03

// Crash images with SEVERAL reorganisations in flight in one shard.
//
// Level compaction runs one task group per measurement (and one goroutine per plan of a
// measurement), the out-of-order merge one goroutine per measurement, a self-merge of the
// out-of-order files of a measurement runs next to a compaction of its ordered files. All of
// them keep their intent log in the one compact_log directory of the shard, under random
// names, and the start-up loop (procCompactLog) walks that directory in name order.
//
// A multi-history builds a shard with two or three measurements, runs level compaction and
// out-of-order merges over all of them without serialising anything, and records after every
// file-system mutation under data/ a snapshot of the data tree. Afterwards every observed
// reorganisation r has a footprint F_r (its log file, its old / new / merged out-of-order
// files under both names) and a step sequence; the snapshot taken after r's k-th step,
// restricted to F_r, is the state of r's files after k steps - whatever the other
// reorganisations were doing. Reorganisations whose inputs all exist before the operations
// start and whose footprints are disjoint run independently of each other in the code
// (different measurements; ordered vs. out-of-order directory of one measurement; two plans of
// one level-compaction call), so EVERY tuple of step counts (k_1 … k_n) is a disk a kill -9 can
// leave. An image is composed from the state at rest M0 and, per chosen reorganisation, its
// footprint at the chosen step; the intent log is placed complete, cut short (torn) or empty,
// under a name chosen so that dirty logs sort before, between and after complete ones (the
// names are random in the code: any order is a legitimate crash state). A stale dirty log - the
// leftover of an earlier crash, which start-up never removes - is a further variant.
//
// Every image is recovered by a real shard open; the directory after recovery goes to the
// model as an `mcrash` line (the multi-log start-up loop of OG.C03.Multi), and the property is
// checked directly: every measurement dumps exactly what it held before, no `.init` file, no
// complete log, every reorganisation's files are its old set or its new set.

import (
	"fmt"
	"io"
	"math"
	"os"
	"path/filepath"
	"sort"
	"strings"
	"sync"
	"sync/atomic"
	"syscall"
	"time"

	"github.com/openGemini/openGemini/engine"
	"github.com/openGemini/openGemini/engine/immutable"
	"github.com/openGemini/openGemini/lib/util"

	"verif/harness/engx"
	"verif/harness/internal/hx"
)

var scratchN int64

// scratchDir: crash images are many small directory trees that live for a second each. On a
// loaded machine the metadata operations on the shared disk dominate the run (profile: 55 % of
// the CPU time in openat/mkdir), so the images go to tmpfs when there is one with room;
// otherwise to $VERIF_SCRATCH as before. C03_SCRATCH overrides.
func scratchDir(prefix string) string {
	root := os.Getenv("C03_SCRATCH")
	if root == "" {
		root = shmRoot()
	}
	if root == "" {
		return engx.ScratchDir(prefix)
	}
	n := atomic.AddInt64(&scratchN, 1)
	d := filepath.Join(root, fmt.Sprintf("%s-%d-%d", prefix, os.Getpid(), n))
	os.RemoveAll(d)
	if err := os.MkdirAll(d, 0o755); err != nil {
		return engx.ScratchDir(prefix)
	}
	return d
}

var shmOnce sync.Once
var shmDir string

func shmRoot() string {
	shmOnce.Do(func() {
		const base = "/dev/shm"
		// directories of runs that died without cleaning up
		if des, err := os.ReadDir(base); err == nil {
			for _, de := range des {
				var pid int
				if n, _ := fmt.Sscanf(de.Name(), "verif-c03-%d", &pid); n == 1 && pid != os.Getpid() {
					if _, e := os.Stat(fmt.Sprintf("/proc/%d", pid)); os.IsNotExist(e) {
						os.RemoveAll(filepath.Join(base, de.Name()))
					}
				}
			}
		}
		if freeBytes(base) < 4<<30 {
			return
		}
		d := filepath.Join(base, fmt.Sprintf("verif-c03-%d", os.Getpid()))
		if os.MkdirAll(d, 0o755) == nil {
			shmDir = d
		}
	})
	return shmDir
}

func freeBytes(dir string) uint64 {
	var st syscall.Statfs_t
	if syscall.Statfs(dir, &st) != nil {
		return 0
	}
	return st.Bavail * uint64(st.Bsize)
}

func scratchCleanup() {
	if shmDir != "" {
		os.RemoveAll(shmDir)
	}
}

// ---------- paths

var tsspRoot = filepath.Join("data", immutable.TsspDirName)

// mEnt classifies a path relative to the shard root: "o/<mst>/<name>", "u/<mst>/<name>",
// "log/<name>", "".
func mEnt(rel string) string {
	if filepath.Dir(rel) == logDir {
		return "log/" + filepath.Base(rel)
	}
	if !strings.HasPrefix(rel, tsspRoot+"/") {
		return ""
	}
	p := strings.Split(strings.TrimPrefix(rel, tsspRoot+"/"), "/")
	switch {
	case len(p) == 2:
		return "o/" + p[0] + "/" + p[1]
	case len(p) == 3 && p[1] == "out-of-order":
		return "u/" + p[0] + "/" + p[2]
	}
	return ""
}

func relOfEnt(e string) string {
	p := strings.SplitN(e, "/", 3)
	switch p[0] {
	case "o":
		return filepath.Join(tsspRoot, p[1], p[2])
	case "u":
		return filepath.Join(tsspRoot, p[1], "out-of-order", p[2])
	}
	return filepath.Join(logDir, strings.TrimPrefix(e, "log/"))
}

func linkOrCopy(src, dst string) error {
	os.MkdirAll(filepath.Dir(dst), 0o755)
	if strings.HasSuffix(src, ".tssp") {
		if os.Link(src, dst) == nil {
			return nil
		}
	}
	in, err := os.Open(src)
	if err != nil {
		return err
	}
	defer in.Close()
	out, err := os.Create(dst)
	if err != nil {
		return err
	}
	_, err = io.Copy(out, in)
	out.Close()
	return err
}

// snapData copies the data tree (data files under their final name are immutable: hard link).
func snapData(root, dst string) {
	base := filepath.Join(root, "data")
	filepath.Walk(base, func(p string, info os.FileInfo, err error) error {
		if err != nil || info.IsDir() {
			return nil
		}
		rel, _ := filepath.Rel(root, p)
		linkOrCopy(p, filepath.Join(dst, rel))
		return nil
	})
}

// listTree lists the regular files below root/data as shard-relative paths.
func listTree(root string) []string {
	var out []string
	filepath.Walk(filepath.Join(root, "data"), func(p string, info os.FileInfo, err error) error {
		if err != nil || info.IsDir() {
			return nil
		}
		rel, _ := filepath.Rel(root, p)
		out = append(out, rel)
		return nil
	})
	sort.Strings(out)
	return out
}

// mListDisk: data-file entries (shard order per directory, `.init` names included) and the log
// directory (name order) with each log classified by the real reader.
func mListDisk(root string) (ents []string, logs []string) {
	des, _ := os.ReadDir(filepath.Join(root, tsspRoot))
	var msts []string
	for _, de := range des {
		if de.IsDir() {
			msts = append(msts, de.Name())
		}
	}
	sort.Strings(msts)
	for _, m := range msts {
		for _, d := range []struct{ dir, pre string }{{filepath.Join(tsspRoot, m), "o/" + m + "/"}, {filepath.Join(tsspRoot, m, "out-of-order"), "u/" + m + "/"}} {
			fs, err := os.ReadDir(filepath.Join(root, d.dir))
			if err != nil {
				continue
			}
			var names []string
			for _, de := range fs {
				if !de.IsDir() {
					names = append(names, de.Name())
				}
			}
			sortShardOrder(names)
			for _, n := range names {
				ents = append(ents, d.pre+n)
			}
		}
	}
	ls, _ := os.ReadDir(filepath.Join(root, logDir))
	var names []string
	for _, de := range ls {
		names = append(names, de.Name())
	}
	sort.Strings(names)
	for _, n := range names {
		logs = append(logs, n+"="+logStateOf(filepath.Join(root, logDir, n)))
	}
	return
}

// logStateOf: "torn" | "unreadable" | "full:<ord>:<mst>/<old>,…:<mst>/<new>,…"
func logStateOf(path string) string {
	lg, dirty, e := immutable.VerifReadCompactLog(path)
	switch {
	case e != nil:
		return "unreadable"
	case dirty:
		return "torn"
	}
	o := "0"
	if lg.IsOrder {
		o = "1"
	}
	var olds, news []string
	for _, x := range lg.Old {
		olds = append(olds, lg.Name+"/"+x)
	}
	for _, x := range lg.New {
		news = append(news, lg.Name+"/"+strings.TrimSuffix(x, tmpSuffix))
	}
	return fmt.Sprintf("full:%s:%s:%s", o, strings.Join(olds, ","), strings.Join(news, ","))
}

// ---------- recorder

type mEvent struct {
	op, rel, rel2 string
	n             int64
	snap          string // snapshot of the data tree taken right after the event
	opIdx         int
}

type mRecorder struct {
	mu      sync.Mutex
	root    string
	snaps   string
	on      bool
	opIdx   int
	events  []*mEvent
	idxEv   int64
	idxFly  int64
	nSnap   int
	notes   map[string]int
}

func (rc *mRecorder) before(op, rel, rel2 string, n int64) {
	if !strings.HasPrefix(rel, "data/") && !strings.HasPrefix(rel, "wal/") {
		atomic.AddInt64(&rc.idxEv, 1)
		atomic.AddInt64(&rc.idxFly, 1)
	}
}

func (rc *mRecorder) failed(op, rel string) {
	if !strings.HasPrefix(rel, "data/") && !strings.HasPrefix(rel, "wal/") {
		atomic.AddInt64(&rc.idxEv, 1)
		if op != "sync" {
			atomic.AddInt64(&rc.idxFly, -1)
		}
	}
}

func (rc *mRecorder) after(op, rel, rel2 string, n int64) {
	if !strings.HasPrefix(rel, "data/") && !strings.HasPrefix(rel, "wal/") {
		atomic.AddInt64(&rc.idxEv, 1)
		if op != "sync" {
			atomic.AddInt64(&rc.idxFly, -1)
		}
		return
	}
	ent := mEnt(rel)
	if ent == "" || op == "sync" || op == "mkdir" {
		return
	}
	isLog := strings.HasPrefix(ent, "log/")
	if !isLog && (op == "write" || op == "truncate") {
		return // the content of a half-written `.init` file is whatever the snapshot catches
	}
	rc.mu.Lock()
	defer rc.mu.Unlock()
	if !rc.on {
		return
	}
	rc.nSnap++
	dst := filepath.Join(rc.snaps, fmt.Sprintf("s%05d", rc.nSnap))
	snapData(rc.root, dst)
	rc.events = append(rc.events, &mEvent{op: op, rel: rel, rel2: rel2, n: n, snap: dst, opIdx: rc.opIdx})
}

func (rc *mRecorder) indexAtRest(dst string) error {
	for try := 0; try < 400; try++ {
		os.RemoveAll(dst)
		if atomic.LoadInt64(&rc.idxFly) != 0 {
			time.Sleep(5 * time.Millisecond)
			continue
		}
		ev := atomic.LoadInt64(&rc.idxEv)
		if e := copyTree(filepath.Join(rc.root, "db0"), filepath.Join(dst, "db0")); e != nil {
			continue
		}
		if atomic.LoadInt64(&rc.idxEv) == ev && atomic.LoadInt64(&rc.idxFly) == 0 {
			return nil
		}
		time.Sleep(5 * time.Millisecond)
	}
	return fmt.Errorf("the series index did not come to rest")
}

// ---------- reorganisations reconstructed from the event list

type mReorg struct {
	id         int
	opIdx      int
	opName     string
	logRel     string
	logName    string
	mst        string
	isOrd      bool
	olds, news []string // plain file names
	us         []string
	parsed     bool
	fullLog    []byte
	creates    []string   // "C:<ent>" of its new files
	tokens     []string   // L+ LW P:… R:… H:… L-
	snaps      []string   // snaps[k] = snapshot after k tokens (snaps[0] = M0)
	foot       map[string]bool // shard-relative paths
	filesM0    []string   // the measurement's entries at rest, shard order, "o/<name>" / "u/<name>"
	logRemoved bool
	lastEvent  int
}

func (ro *mReorg) dirRel() string {
	if ro.isOrd {
		return filepath.Join(tsspRoot, ro.mst)
	}
	return filepath.Join(tsspRoot, ro.mst, "out-of-order")
}

func (ro *mReorg) pre() string {
	if ro.isOrd {
		return "o/"
	}
	return "u/"
}

// committedAt: the first step count at which the complete log is on disk.
func (ro *mReorg) committedAt() int {
	for i, t := range ro.tokens {
		if t == "LW" {
			return i + 1
		}
	}
	return len(ro.tokens) + 1
}

// outcomes: acceptable sets of final-name entries within the footprint ("o/<mst>/<n>" form).
func (ro *mReorg) outcomes() (old []string, news [][]string) {
	ent := func(pre, n string) string { return pre + ro.mst + "/" + n }
	for _, x := range ro.olds {
		old = append(old, ent(ro.pre(), x))
	}
	for _, x := range ro.us {
		old = append(old, ent("u/", x))
	}
	sort.Strings(old)
	for j := 0; j <= len(ro.us); j++ {
		var s []string
		for _, x := range ro.news {
			s = append(s, ent(ro.pre(), x))
		}
		for _, x := range ro.us[j:] {
			s = append(s, ent("u/", x))
		}
		sort.Strings(s)
		news = append(news, s)
	}
	return
}

func (ro *mReorg) kind() string {
	switch {
	case ro.isOrd && len(ro.us) > 0:
		return "merge-into-ordered"
	case ro.isOrd:
		return "replace-ordered"
	case len(ro.us) > 0:
		return "self-merge-streaming"
	}
	return "self-merge-fast"
}

// reconstruct turns the event list into reorganisations: a log file identifies one; its
// content gives measurement, directory, old and new names; data-file events are attributed by
// path; removals in the out-of-order directory of a merge's measurement after its log is gone
// are its merged out-of-order files.
func reconstruct(events []*mEvent, m0 string, opNames []string, notes map[string]int) []*mReorg {
	byLog := map[string]*mReorg{}
	var ros []*mReorg
	for _, ev := range events {
		ent := mEnt(ev.rel)
		if !strings.HasPrefix(ent, "log/") {
			continue
		}
		ro := byLog[ev.rel]
		if ro == nil {
			if ev.op != "openfile" && ev.op != "create" {
				notes["multi:log-event-without-create"]++
				continue
			}
			ro = &mReorg{id: len(ros) + 1, opIdx: ev.opIdx, opName: opNames[ev.opIdx], logRel: ev.rel, logName: filepath.Base(ev.rel), foot: map[string]bool{}}
			byLog[ev.rel] = ro
			ros = append(ros, ro)
			continue
		}
		if ev.op == "write" && !ro.parsed {
			p := filepath.Join(ev.snap, ev.rel)
			lg, dirty, e := immutable.VerifReadCompactLog(p)
			if e != nil || dirty {
				notes["multi:log-unreadable-after-write"]++
				continue
			}
			ro.mst, ro.isOrd, ro.olds = lg.Name, lg.IsOrder, append([]string{}, lg.Old...)
			for _, x := range lg.New {
				ro.news = append(ro.news, strings.TrimSuffix(x, tmpSuffix))
			}
			ro.fullLog, _ = os.ReadFile(p)
			ro.parsed = true
		}
	}
	var parsed []*mReorg
	for _, ro := range ros {
		if !ro.parsed {
			notes["multi:reorganisation-without-readable-log"]++
			continue
		}
		ro.foot[ro.logRel] = true
		for _, x := range append(append([]string{}, ro.olds...), ro.news...) {
			ro.foot[filepath.Join(ro.dirRel(), x)] = true
			ro.foot[filepath.Join(ro.dirRel(), x+tmpSuffix)] = true
		}
		parsed = append(parsed, ro)
	}
	// a path belongs to the reorganisation that is working on it now: one whose log exists
	// (between L+ and L-), else the earliest one that has not written its log yet (its new
	// files are created before the log). A later reorganisation may take the output of an
	// earlier one as its input, so a finished one no longer owns anything.
	started := map[*mReorg]bool{}
	owner := func(rel string) *mReorg {
		var active, future *mReorg
		for _, ro := range parsed {
			if !ro.foot[rel] || ro.logRemoved {
				continue
			}
			if started[ro] {
				if active != nil {
					notes["multi:path-in-two-active-footprints"]++
				}
				active = ro
			} else if future == nil {
				future = ro
			}
		}
		if active != nil {
			return active
		}
		return future
	}
	// the most recent merge per measurement whose log is gone (owner of out-of-order deletions)
	lastDone := map[string]*mReorg{}
	for i, ev := range events {
		ent := mEnt(ev.rel)
		if strings.HasPrefix(ent, "log/") {
			ro := byLog[ev.rel]
			if ro == nil || !ro.parsed {
				continue
			}
			switch ev.op {
			case "openfile", "create":
				ro.tokens = append(ro.tokens, "L+")
				started[ro] = true
			case "write":
				ro.tokens = append(ro.tokens, "LW")
			case "remove":
				ro.tokens = append(ro.tokens, "L-")
				ro.logRemoved = true
				lastDone[ro.mst] = ro
			default:
				continue
			}
			ro.snaps = append(ro.snaps, ev.snap)
			ro.lastEvent = i
			continue
		}
		isTmp := strings.HasSuffix(ent, tmpSuffix)
		ro := owner(ev.rel)
		switch ev.op {
		case "openfile", "create":
			if ro == nil {
				notes["multi:unowned-create"]++
				continue
			}
			if !isTmp {
				notes["multi:data-file-created-under-final-name"]++
			}
			ro.creates = append(ro.creates, "C:"+ent)
		case "rename":
			ent2 := mEnt(ev.rel2)
			var tok string
			switch {
			case isTmp && ent2 == strings.TrimSuffix(ent, tmpSuffix):
				tok = "P:" + ent2
			case !isTmp && ent2 == ent+tmpSuffix:
				tok = "H:" + ent
			default:
				notes["multi:unexpected-rename"]++
				continue
			}
			if ro == nil && tok[0] == 'H' && ent[0] == 'u' {
				ro = claimUnordered(lastDone, ent, ev)
			}
			if ro == nil {
				notes["multi:unowned-rename"]++
				continue
			}
			ro.tokens = append(ro.tokens, tok)
			ro.snaps = append(ro.snaps, ev.snap)
			ro.lastEvent = i
		case "remove":
			if isTmp {
				continue // GC of a hidden old file, cleanup
			}
			if ro == nil && ent[0] == 'u' {
				ro = claimUnordered(lastDone, ent, ev)
			}
			if ro == nil {
				notes["multi:unowned-remove"]++
				continue
			}
			ro.tokens = append(ro.tokens, "R:"+ent)
			ro.snaps = append(ro.snaps, ev.snap)
			ro.lastEvent = i
		}
	}
	for _, ro := range parsed {
		ro.snaps = append([]string{m0}, ro.snaps...)
		sort.Strings(ro.creates)
	}
	return parsed
}

func claimUnordered(lastDone map[string]*mReorg, ent string, ev *mEvent) *mReorg {
	p := strings.SplitN(ent, "/", 3)
	ro := lastDone[p[1]]
	if ro == nil || ro.opIdx != ev.opIdx {
		return nil
	}
	ro.us = append(ro.us, p[2])
	ro.foot[ev.rel] = true
	ro.foot[ev.rel+tmpSuffix] = true
	return ro
}

// ---------- composition

type pick struct {
	ro      *mReorg
	k       int    // tokens executed
	cut     int    // > 0: the log write was cut by this many bytes (k is then the step before LW)
	logName string // the name its log gets in the image
}

type mImage struct {
	dir    string
	picks  []pick
	stale  string // name of a stale dirty log, "" = none
	desc   string
	ents   []string
	logs   []string
	parent *mImage
	kindOf string
	synth  bool // a disk no crash leaves (files removed by hand): model = implementation only
}

// compose builds the image directory: base (wal, index at rest) + M0 outside the footprints +
// every picked reorganisation's footprint at its step.
func compose(dst, base, m0 string, picks []pick, stale string, staleBytes []byte) error {
	for _, sub := range []string{"wal", "db0"} {
		if e := copyTree(filepath.Join(base, sub), filepath.Join(dst, sub)); e != nil {
			return e
		}
	}
	os.MkdirAll(filepath.Join(dst, "data"), 0o755)
	owner := func(rel string) int {
		for i, p := range picks {
			if p.ro.foot[rel] {
				return i
			}
		}
		return -1
	}
	// directories first (an empty out-of-order directory must exist as it did)
	filepath.Walk(filepath.Join(m0, "data"), func(p string, info os.FileInfo, err error) error {
		if err == nil && info.IsDir() {
			rel, _ := filepath.Rel(m0, p)
			os.MkdirAll(filepath.Join(dst, rel), 0o755)
		}
		return nil
	})
	for _, rel := range listTree(m0) {
		if owner(rel) < 0 {
			if e := linkOrCopy(filepath.Join(m0, rel), filepath.Join(dst, rel)); e != nil {
				return e
			}
		}
	}
	for _, p := range picks {
		snap := p.ro.snaps[p.k]
		for _, rel := range listTree(snap) {
			if !p.ro.foot[rel] {
				continue
			}
			target := rel
			if rel == p.ro.logRel {
				target = filepath.Join(logDir, p.logName)
			}
			if e := linkOrCopy(filepath.Join(snap, rel), filepath.Join(dst, target)); e != nil {
				return e
			}
		}
		if p.cut > 0 {
			b := p.ro.fullLog
			n := len(b) - p.cut
			if n < 0 {
				n = 0
			}
			f := filepath.Join(dst, logDir, p.logName)
			os.MkdirAll(filepath.Dir(f), 0o755)
			if e := os.WriteFile(f, b[:n], 0o600); e != nil {
				return e
			}
		}
	}
	if stale != "" {
		f := filepath.Join(dst, logDir, stale)
		os.MkdirAll(filepath.Dir(f), 0o755)
		if e := os.WriteFile(f, staleBytes, 0o600); e != nil {
			return e
		}
	}
	return nil
}

// independent: both could have been started from the state at rest and never touch the same
// path, and the code runs such a pair concurrently.
func independent(a, b *mReorg, m0set map[string]bool) bool {
	for rel := range a.foot {
		if b.foot[rel] {
			return false
		}
	}
	for _, ro := range []*mReorg{a, b} {
		for _, x := range ro.olds {
			if !m0set[filepath.Join(ro.dirRel(), x)] {
				return false
			}
		}
		for _, x := range ro.us {
			if !m0set[filepath.Join(tsspRoot, ro.mst, "out-of-order", x)] {
				return false
			}
		}
	}
	if a.mst != b.mst {
		return true
	}
	// one measurement: a compaction of ordered files next to a self-merge of out-of-order
	// files, or two plans of one level-compaction call
	if a.isOrd != b.isOrd && len(a.us) == 0 && len(b.us) == 0 {
		return true
	}
	return a.opIdx == b.opIdx && a.isOrd && b.isOrd && len(a.us) == 0 && len(b.us) == 0
}

// positions of interest of one reorganisation: (k, cut).
type pos struct {
	k, cut int
	label  string
}

func dirtyPositions(ro *mReorg, r *hx.Rng) []pos {
	n := len(ro.fullLog)
	// the last variant: the write stopped right after the measurement name (2 bytes of length +
	// the name); a measurement name may end with the bytes of the log trailer
	out := []pos{{1, 0, "log-created-empty"}, {1, 1, "log-cut-1"}, {1, n - 7, "log-cut-to-7-bytes"}, {1, n - 2 - len(ro.mst), "log-cut-after-name"}}
	if n > 20 {
		out = append(out, pos{1, 9 + r.Intn(n-18), "log-cut-random"})
	}
	return out
}

func midPositions(ro *mReorg) []pos {
	var out []pos
	c := ro.committedAt()
	for k := c; k <= len(ro.tokens); k++ {
		label := "after-" + strings.SplitN(ro.tokens[k-1], ":", 2)[0]
		out = append(out, pos{k, 0, fmt.Sprintf("%s@%d/%d", label, k, len(ro.tokens))})
	}
	return out
}

// thin keeps the first, the last and a structured selection of the positions in between:
// first of every token kind, and every position when few.
func thin(ps []pos, max int) []pos {
	if len(ps) <= max {
		return ps
	}
	keep := map[int]bool{0: true, len(ps) - 1: true}
	seen := map[string]bool{}
	for i, p := range ps {
		kind := strings.SplitN(p.label, "@", 2)[0]
		if !seen[kind] {
			seen[kind] = true
			keep[i] = true
		}
	}
	for i := 1; len(keep) < max && i < len(ps); i += (len(ps) + max - 1) / max {
		keep[i] = true
	}
	var out []pos
	for i, p := range ps {
		if keep[i] {
			out = append(out, p)
		}
	}
	return out
}

// a measurement whose name ends with the bytes of the compact-log trailer
const trailerName = "2021A5A5"

var logNames = []string{"1111111111111111-0000000000000001", "5555555555555555-0000000000000002", "9999999999999999-0000000000000003", "dddddddddddddddd-0000000000000004"}

// ---------- recovery of a multi image

type mRecResult struct {
	err     string
	dumps   map[string]string
	loaded  []string
	ents    []string
	logs    []string
	nested  []*mImage
	created map[string]bool
}

type mNestRec struct {
	mu      sync.Mutex
	pristine string // copy of wal/ and db0/ of the image taken before it was opened
	root    string
	imgRoot string
	parent  *mImage
	n       int
	stop    bool
	images  []*mImage
	budget  int
	created map[string]bool
}

func (nr *mNestRec) before(op, rel, rel2 string, n int64) {}
func (nr *mNestRec) failed(op, rel string)                {}
func (nr *mNestRec) after(op, rel, rel2 string, n int64) {
	nr.mu.Lock()
	defer nr.mu.Unlock()
	ent := mEnt(rel)
	if (op == "openfile" || op == "create") && strings.HasSuffix(ent, tmpSuffix) {
		nr.created[strings.TrimSuffix(ent, tmpSuffix)] = true
	}
	if nr.stop {
		return
	}
	if strings.HasPrefix(rel, "wal/") {
		if op != "mkdir" {
			nr.stop = true
		}
		return
	}
	if ent == "" {
		return
	}
	if !strings.HasPrefix(ent, "log/") && (op == "openfile" || op == "create" || op == "write") {
		nr.stop = true
		return
	}
	if op != "rename" && op != "remove" {
		return
	}
	if nr.n >= nr.budget {
		return
	}
	nr.n++
	dst := filepath.Join(nr.imgRoot, fmt.Sprintf("%s-n%02d", filepath.Base(nr.root), nr.n))
	// data/ as it is at this instant; the WAL and the series index as the parent image had them
	// before it was opened (start-up has not touched them yet - the recorder stops at the first
	// WAL event - and a copy of the index directory of an OPEN index is not a state a crash
	// leaves: its background merges rewrite part directories while we would be copying)
	if e := copyTree(filepath.Join(nr.root, "data"), filepath.Join(dst, "data")); e != nil {
		return
	}
	for _, sub := range []string{"wal", "db0"} {
		if e := copyTree(filepath.Join(nr.pristine, sub), filepath.Join(dst, sub)); e != nil {
			return
		}
	}
	relocateTxn(dst, nr.root)
	ents, logs := mListDisk(dst)
	nr.images = append(nr.images, &mImage{dir: dst, parent: nr.parent, picks: nr.parent.picks, kindOf: "second-level", synth: nr.parent.synth,
		desc: fmt.Sprintf("%s; recovery interrupted after %s %s %s", nr.parent.desc, op, rel, rel2), ents: ents, logs: logs})
}

func recoverMulti(img *mImage, msts []string, nParts, nestBudget int, imgRoot string) mRecResult {
	res := mRecResult{dumps: map[string]string{}}
	var err error
	nr := &mNestRec{root: img.dir, imgRoot: imgRoot, parent: img, budget: nestBudget, created: map[string]bool{}}
	if nestBudget > 0 {
		nr.pristine = img.dir + ".pristine"
		for _, sub := range []string{"wal", "db0"} {
			if e := copyTree(filepath.Join(img.dir, sub), filepath.Join(nr.pristine, sub)); e != nil {
				nr.budget = 0
			}
		}
		defer os.RemoveAll(nr.pristine)
	}
	theMux.set(img.dir, nr)
	perr := hx.Safe(func() {
		var sh *engine.VerifShard
		sh, err = engine.VerifOpenShard(img.dir, nParts)
		nr.mu.Lock()
		nr.stop = true
		nr.mu.Unlock()
		if err != nil {
			return
		}
		// no DetachFromCompactor here: every shard of this process has id 1, the compactor's
		// registry is keyed by id and counts registrations in a WaitGroup; a second
		// unregistration per open (detach + close) racing with another image's close drives
		// the counter negative. DisableBackground is enough for a shard that is only read.
		sh.DisableBackground()
		sh.FlushIndex()
		for _, m := range msts {
			for _, f := range sh.Files(m) {
				if f.Order {
					res.loaded = append(res.loaded, "o/"+m+"/"+f.Name)
				} else {
					res.loaded = append(res.loaded, "u/"+m+"/"+f.Name)
				}
			}
			rows, derr := sh.Dump(m, engx.AllFields(), math.MinInt64, math.MaxInt64, true)
			if derr != nil && err == nil {
				err = derr
			}
			res.dumps[m] = engx.DumpText(rows)
		}
		if cerr := sh.Close(); err == nil && cerr != nil {
			err = cerr
		}
	})
	theMux.set(img.dir, nil)
	res.nested = nr.images
	res.created = nr.created
	switch {
	case perr != "":
		res.err = "err " + strings.SplitN(perr, "\n", 2)[0]
	case err != nil:
		res.err = "err " + strings.SplitN(err.Error(), "\n", 2)[0]
		if os.Getenv("C03_DEBUG") != "" {
			fmt.Fprintln(os.Stderr, "C03_DEBUG recovery error:", err.Error())
		}
	}
	res.ents, res.logs = mListDisk(img.dir)
	os.RemoveAll(img.dir)
	return res
}

// ---------- the multi-history

func genBatchM(r *hx.Rng, m string, hi *[nSeries]int, nTimes, latePct int) []engx.Row {
	rows := genBatch(r, hi, nTimes, latePct, false)
	for i := range rows {
		rows[i].Mst = m
	}
	return rows
}

func runMultiHistory(c *hx.Ctx, r *hx.Rng, idx int, workers int, thorough bool) error {
	root := scratchDir("c03m")
	imgRoot := scratchDir("c03mimg")
	defer os.RemoveAll(root)
	defer os.RemoveAll(imgRoot)
	k := knobs{
		minGroup0:       []int{2, 2, 3}[r.Intn(3)],
		minGroup1:       2,
		mergeFlag:       []int32{util.AutoCompact, util.StreamingCompact, util.NonStreamingCompact}[r.Intn(3)],
		streamModeLevel: []int{2, 0, 1}[r.Intn(3)],
		maxSelfLevel:    []uint16{0, 2, 3}[r.Intn(3)],
		levelMergeNum:   []int{8, 2, 3}[r.Intn(3)],
		maxUnorderedNum: 64,
		segRows:         []int{0, 0, 16, 12}[r.Intn(4)],
	}
	applyKnobs(k)
	defer resetKnobs()
	nParts := []int{1, 2}[r.Intn(2)]
	msts := []string{"ma", "mb"}
	if r.Chance(40) {
		msts = append(msts, "mc"+trailerName)
	}
	rc := &mRecorder{root: root, snaps: filepath.Join(imgRoot, "snaps"), notes: map[string]int{}}
	theMux.set(root, rc)
	defer theMux.set(root, nil)
	sh, err := engine.VerifOpenShard(root, nParts)
	if err != nil {
		return err
	}
	sh.DetachFromCompactor()
	line0 := c.Emit(fmt.Sprintf("open %d", 100000+idx), "ok")
	specs := map[string]lww{}
	his := map[string]*[nSeries]int{}
	for _, m := range msts {
		specs[m] = lww{}
		his[m] = &[nSeries]int{}
	}
	nTimes := 14 + r.Intn(16)
	latePct := []int{30, 50}[r.Intn(2)]
	write := func(m string) error {
		rows := genBatchM(r, m, his[m], nTimes, latePct)
		for _, x := range rows {
			if x.T > his[m][x.Series] {
				his[m][x.Series] = x.T
			}
		}
		var werr error
		perr := hx.Safe(func() { werr = sh.Write(engx.ToInflux(rows)) })
		if perr != "" || werr != nil {
			return fmt.Errorf("write failed: %s %v", perr, werr)
		}
		specs[m].apply(rows)
		return nil
	}
	gens := 4 + r.Intn(3)
	for g := 0; g < gens; g++ {
		for _, m := range msts {
			for b := 0; b < 1+r.Intn(2); b++ {
				if err := write(m); err != nil {
					return err
				}
			}
		}
		if perr := hx.Safe(func() { sh.Flush() }); perr != "" {
			return fmt.Errorf("flush failed: %s", perr)
		}
	}
	if r.Chance(50) { // unflushed writes stay in the WAL
		for _, m := range msts {
			if err := write(m); err != nil {
				return err
			}
		}
	}
	want := map[string]string{}
	sh.FlushIndex()
	for _, m := range msts {
		want[m] = specs[m].read()
		rows, derr := sh.Dump(m, engx.AllFields(), math.MinInt64, math.MaxInt64, true)
		if got := engx.DumpText(rows); derr != nil || got != want[m] {
			c.Violation(line0, "", fmt.Sprintf("multi-history %d before the reorganisations, measurement %s: dump %q (%v), last-write-wins map %q", idx, m, got, derr, want[m]))
			sh.Close()
			return nil
		}
	}
	// ---- state at rest
	base := filepath.Join(imgRoot, "base")
	if err := rc.indexAtRest(base); err != nil {
		return err
	}
	if e := copyTree(filepath.Join(root, "wal"), filepath.Join(base, "wal")); e != nil {
		return e
	}
	m0 := filepath.Join(imgRoot, "m0")
	snapData(root, m0)
	m0set := map[string]bool{}
	for _, rel := range listTree(m0) {
		m0set[rel] = true
		if strings.HasPrefix(mEnt(rel), "log/") {
			rc.notes["multi:log-at-rest"]++
		}
	}
	m0ents, _ := mListDisk(m0)

	// ---- the operations, nothing serialised
	type opT struct {
		name string
		f    func() error
	}
	ops := []opT{
		{"level 0", func() error { return sh.LevelCompact(0) }},
		{"selfmerge", func() error { return sh.MergeOutOfOrder(true, false) }},
	}
	switch {
	case r.Chance(30):
		// merges into the ordered files first (one goroutine per measurement, each with merged
		// out-of-order files to delete after its log is gone), then what is left to compact
		ops = []opT{
			{"merge", func() error { return sh.MergeOutOfOrder(false, true) }},
			{"level 0", func() error { return sh.LevelCompact(0) }},
		}
	default:
		if r.Chance(50) {
			ops[0], ops[1] = ops[1], ops[0]
		}
		if r.Chance(50) {
			ops = append(ops, opT{"merge", func() error { return sh.MergeOutOfOrder(false, true) }})
		}
	}
	var opNames []string
	var release func()
	held := r.Chance(25)
	if held {
		var rel []func()
		for _, m := range msts {
			rel = append(rel, sh.HoldFiles(m))
		}
		release = func() {
			for _, f := range rel {
				f()
			}
		}
	}
	for i, op := range ops {
		opNames = append(opNames, op.name)
		rc.mu.Lock()
		rc.on, rc.opIdx = true, i
		rc.mu.Unlock()
		var oerr error
		perr := hx.Safe(func() { oerr = op.f() })
		rc.mu.Lock()
		rc.on = false
		rc.mu.Unlock()
		if perr != "" || oerr != nil {
			return fmt.Errorf("%s failed: %s %v", op.name, perr, oerr)
		}
		c.Count("multi-op:" + strings.Fields(op.name)[0])
	}
	if release != nil {
		release()
	}
	// the answers did not change
	sh.FlushIndex()
	for _, m := range msts {
		rows, derr := sh.Dump(m, engx.AllFields(), math.MinInt64, math.MaxInt64, true)
		if got := engx.DumpText(rows); derr != nil || got != want[m] {
			c.Violation(line0, "", fmt.Sprintf("multi-history %d after %v (%s), measurement %s: dump %q (%v), before %q", idx, opNames, k.String(), m, got, derr, want[m]))
		}
	}
	theMux.set(root, nil)
	if perr := hx.Safe(func() { sh.Close() }); perr != "" {
		return fmt.Errorf("close failed: %s", perr)
	}

	ros := reconstruct(rc.events, m0, opNames, rc.notes)
	for _, ro := range ros {
		for _, e := range m0ents {
			p := strings.SplitN(e, "/", 3)
			if p[1] == ro.mst && !strings.HasSuffix(p[2], tmpSuffix) {
				ro.filesM0 = append(ro.filesM0, p[0]+"/"+p[2])
			}
		}
	}
	// ---- reorg lines (step sequence and plan shape of every reorganisation that started from
	// the state at rest; later ones work on files that M0 does not list)
	startsAtRest := func(ro *mReorg) bool {
		for _, x := range ro.olds {
			if !m0set[filepath.Join(ro.dirRel(), x)] {
				return false
			}
		}
		return true
	}
	for _, ro := range ros {
		c.Count("multi-reorg:" + ro.kind())
		if !startsAtRest(ro) {
			continue
		}
		o := "0"
		if ro.isOrd {
			o = "1"
		}
		var inuse []string
		if held {
			inuse = append(append(inuse, ro.olds...), ro.us...)
		}
		strip := func(ts []string) []string { // tokens carry "o/<mst>/<name>": the line is about one measurement
			var out []string
			for _, t := range ts {
				out = append(out, strings.Replace(t, "/"+ro.mst+"/", "/", 1))
			}
			return out
		}
		line := fmt.Sprintf("reorg id=%d ord=%s old=%s new=%s us=%s inuse=%s files=%s", 1000+ro.id, o,
			strings.Join(ro.olds, ","), strings.Join(ro.news, ","), strings.Join(ro.us, ","), strings.Join(inuse, ","), strings.Join(ro.filesM0, ","))
		c.Emit(line, "steps "+strings.Join(append(strip(ro.creates), strip(ro.tokens)...), " ")+" plan=adjacent")
		c.Sample(fmt.Sprintf("multi-history %d %s on %s: %s", idx, ro.opName, ro.mst, line))
	}

	// ---- choose the images
	type plan struct {
		picks []pick
		stale string
		kind  string
		synth string // "", "drop-new", "drop-new-and-old", "hide-old"
	}
	var plans []plan
	var cand []*mReorg
	for _, ro := range ros {
		if startsAtRest(ro) && len(ro.tokens) >= 4 {
			cand = append(cand, ro)
		}
	}
	maxMid := 5
	if thorough {
		maxMid = 1000
	}
	nPairs := 0
	for _, a := range cand {
		for _, b := range cand {
			if a == b || !independent(a, b, m0set) {
				continue
			}
			nPairs++
			// a: dirty log only; b: complete log, somewhere in the protocol; both name orders
			dps := dirtyPositions(a, r)
			if !thorough {
				dps = []pos{dps[nPairs%len(dps)], dps[(nPairs+1)%len(dps)]}
				if strings.HasSuffix(a.mst, trailerName) {
					dps[1] = dirtyPositions(a, r)[3]
				}
			}
			// the positions with the new files renamed and old files still there first: a start-up
			// that does not finish b shows there as duplicated rows (the most telling replay)
			mids := thin(midPositions(b), maxMid)
			sort.SliceStable(mids, func(x, y int) bool {
				rank := func(p pos) int {
					switch {
					case strings.HasPrefix(p.label, "after-P"):
						return 0
					case strings.HasPrefix(p.label, "after-R"), strings.HasPrefix(p.label, "after-H"):
						return 1
					}
					return 2
				}
				return rank(mids[x]) < rank(mids[y])
			})
			for di, dp := range dps {
				for mi, mp := range mids {
					for order := 0; order < 2; order++ {
						if !thorough && (di+mi+order)%2 == 1 && mi != 0 {
							continue // quick: each mid position with one order per dirty kind, alternating
						}
						na, nb := logNames[0], logNames[2]
						if order == 1 {
							na, nb = logNames[3], logNames[1]
						}
						plans = append(plans, plan{picks: []pick{{a, dp.k, dp.cut, na}, {b, mp.k, 0, nb}},
							kind: fmt.Sprintf("dirty(%s)+mid(%s)/dirty-%s", dp.label, strings.SplitN(mp.label, "@", 2)[0], []string{"first", "last"}[order])})
					}
				}
			}
		}
	}
	// both complete and mid-protocol (a before b only: the pair (b, a) is the same set of disks)
	for i, a := range cand {
		for _, b := range cand[i+1:] {
			if !independent(a, b, m0set) {
				continue
			}
			pa, pb := thin(midPositions(a), 3), thin(midPositions(b), 3)
			if thorough {
				pa, pb = thin(midPositions(a), 6), thin(midPositions(b), 6)
			}
			for _, x := range pa {
				for _, y := range pb {
					na, nb := logNames[0], logNames[1]
					if r.Bool() {
						na, nb = nb, na
					}
					plans = append(plans, plan{picks: []pick{{a, x.k, 0, na}, {b, y.k, 0, nb}}, kind: "mid+mid"})
				}
			}
		}
	}
	// three at once: dirty first / between / last
	for _, a := range cand {
		for _, b := range cand {
			for _, d := range cand {
				if a == b || a == d || b.id >= d.id || !independent(a, b, m0set) || !independent(a, d, m0set) || !independent(b, d, m0set) {
					continue
				}
				mb, md := thin(midPositions(b), 3), thin(midPositions(d), 3)
				for where := 0; where < 3; where++ {
					if !thorough && r.Chance(50) {
						continue
					}
					names := [][3]string{{logNames[0], logNames[1], logNames[2]}, {logNames[1], logNames[0], logNames[2]}, {logNames[3], logNames[0], logNames[1]}}[where]
					dp := dirtyPositions(a, r)[r.Intn(4)]
					x, y := mb[r.Intn(len(mb))], md[r.Intn(len(md))]
					plans = append(plans, plan{picks: []pick{{a, dp.k, dp.cut, names[0]}, {b, x.k, 0, names[1]}, {d, y.k, 0, names[2]}},
						kind: fmt.Sprintf("dirty+mid+mid/dirty-%s", []string{"first", "between", "last"}[where])})
				}
			}
		}
	}
	// one reorganisation in flight and the stale dirty log of an earlier crash before / after it
	for _, b := range cand {
		for order := 0; order < 2; order++ {
			for _, mp := range thin(midPositions(b), 4) {
				if !thorough && r.Chance(40) {
					continue
				}
				st := logNames[0]
				if order == 1 {
					st = logNames[3]
				}
				plans = append(plans, plan{picks: []pick{{b, mp.k, 0, logNames[1]}}, stale: st,
					kind: fmt.Sprintf("stale-dirty-%s+mid(%s)", []string{"first", "last"}[order], strings.SplitN(mp.label, "@", 2)[0])})
			}
		}
	}
	if len(cand) < 2 || nPairs == 0 {
		c.Count("multi-history-without-independent-pair")
	}
	// disks no crash leaves, to exercise the other two branches of processLog (roll back when a
	// new file is missing and every old file is there under one of its names; "invalid compact
	// log" when neither set is complete): implementation against model only
	var synth []plan
	for _, b := range cand {
		for _, mp := range thin(midPositions(b), 3) {
			if mp.k >= len(b.tokens) {
				continue // log already removed
			}
			for _, mut := range []string{"drop-new", "drop-new-and-old", "hide-old"} {
				if !thorough && r.Chance(50) {
					continue
				}
				synth = append(synth, plan{picks: []pick{{b, mp.k, 0, logNames[1]}}, kind: "synthetic-" + mut, synth: mut})
			}
		}
	}
	limit := 90
	if thorough {
		limit = 400
	}
	if v := c.Arg("multilimit", ""); v != "" {
		fmt.Sscan(v, &limit)
	}
	if len(plans) > limit {
		// keep the spread: every (limit)-th, starting points shifted
		var sel []plan
		step := float64(len(plans)) / float64(limit)
		for i := 0; i < limit; i++ {
			sel = append(sel, plans[int(float64(i)*step)])
		}
		plans = sel
	}
	if len(synth) > limit/4 {
		synth = synth[:limit/4]
	}
	plans = append(plans, synth...)

	imgs := make([]*mImage, 0, len(plans))
	for i, pl := range plans {
		dst := filepath.Join(imgRoot, fmt.Sprintf("mimg%05d", i))
		var sb []byte
		if pl.stale != "" {
			b := pl.picks[0].ro.fullLog
			switch i % 3 {
			case 1:
				sb = b[:len(b)-1]
			case 2:
				sb = b[:1+r.Intn(len(b)-1)]
			}
		}
		if e := compose(dst, base, m0, pl.picks, pl.stale, sb); e != nil {
			rc.notes["multi:compose-failed"]++
			continue
		}
		relocateTxn(dst, root)
		if pl.synth != "" {
			ro := pl.picks[0].ro
			rm := func(name string) {
				os.Remove(filepath.Join(dst, ro.dirRel(), name))
				os.Remove(filepath.Join(dst, ro.dirRel(), name+tmpSuffix))
			}
			switch pl.synth {
			case "drop-new":
				rm(ro.news[r.Intn(len(ro.news))])
			case "drop-new-and-old":
				rm(ro.news[r.Intn(len(ro.news))])
				rm(ro.olds[r.Intn(len(ro.olds))])
			case "hide-old":
				rm(ro.news[r.Intn(len(ro.news))])
				o := filepath.Join(dst, ro.dirRel(), ro.olds[r.Intn(len(ro.olds))])
				os.Rename(o, o+tmpSuffix)
			}
		}
		ents, logs := mListDisk(dst)
		var ds []string
		for _, p := range pl.picks {
			cut := ""
			if p.cut > 0 {
				cut = fmt.Sprintf(", log cut by %d of %d bytes", p.cut, len(p.ro.fullLog))
			}
			ds = append(ds, fmt.Sprintf("[%s of %s (%s) stopped after %d of %d steps%s, log file %s]", p.ro.opName, p.ro.mst, p.ro.kind(), p.k, len(p.ro.tokens), cut, p.logName))
		}
		if pl.stale != "" {
			ds = append(ds, fmt.Sprintf("[stale dirty log %s of %d bytes]", pl.stale, len(sb)))
		}
		imgs = append(imgs, &mImage{dir: dst, picks: pl.picks, stale: pl.stale, kindOf: pl.kind, ents: ents, logs: logs, synth: pl.synth != "",
			desc: fmt.Sprintf("multi-history %d (%s): %s", idx, k.String(), strings.Join(ds, " + "))})
	}

	// ---- recover
	nestBudget := 2
	if thorough {
		nestBudget = 4
	}
	results := make([]mRecResult, len(imgs))
	parallel := func(n int, f func(i int)) {
		var wg sync.WaitGroup
		ch := make(chan int)
		for w := 0; w < workers; w++ {
			wg.Add(1)
			go func() {
				defer wg.Done()
				for i := range ch {
					f(i)
				}
			}()
		}
		for i := 0; i < n; i++ {
			ch <- i
		}
		close(ch)
		wg.Wait()
	}
	parallel(len(imgs), func(i int) {
		nb := 0
		if (thorough && i%2 == 0) || i%5 == 0 {
			nb = nestBudget
		}
		results[i] = recoverMulti(imgs[i], msts, nParts, nb, imgRoot)
	})
	var nested []*mImage
	for i := range imgs {
		nested = append(nested, results[i].nested...)
	}
	nres := make([]mRecResult, len(nested))
	parallel(len(nested), func(i int) { nres[i] = recoverMulti(nested[i], msts, nParts, 0, imgRoot) })

	judge := func(img *mImage, res mRecResult) {
		known := setOf(img.ents)
		for _, l := range img.logs {
			st := strings.SplitN(l, "=", 2)[1]
			if strings.HasPrefix(st, "full:") {
				p := strings.Split(st, ":")
				pre := "o/"
				if p[1] == "0" {
					pre = "u/"
				}
				for _, x := range append(strings.Split(p[2], ","), strings.Split(p[3], ",")...) {
					known[pre+x] = true
				}
			}
		}
		for e := range res.created {
			delete(known, e)
		}
		nInit := 0
		for _, e := range res.ents {
			if strings.HasSuffix(e, tmpSuffix) {
				nInit++
			}
		}
		fin := finals(res.ents, known)
		var logsAfter []string
		fullLeft := false
		for _, l := range res.logs {
			p := strings.SplitN(l, "=", 2)
			st := strings.SplitN(p[1], ":", 2)[0]
			if st != "torn" {
				fullLeft = true
			}
			logsAfter = append(logsAfter, p[0]+":"+st)
		}
		ans := fmt.Sprintf("rec files=%s init=%d logs=%s", strings.Join(fin, ","), nInit, strings.Join(logsAfter, ","))
		if res.err != "" {
			ans = res.err
		}
		line := c.Emit(fmt.Sprintf("mcrash files=%s logs=%s", strings.Join(img.ents, ","), strings.Join(img.logs, ";")), ans)
		var bad []string
		if img.synth {
			c.Count("multi-image:" + img.kindOf)
			c.Case(fmt.Sprintf("multi|%s|%v", img.kindOf, img.logs), true)
			return
		}
		if res.err != "" {
			bad = append(bad, "recovery failed: "+res.err)
		} else {
			for _, m := range msts {
				if res.dumps[m] != want[m] {
					bad = append(bad, fmt.Sprintf("measurement %s: dump after recovery %q, before the reorganisations %q", m, res.dumps[m], want[m]))
				}
			}
			if nInit != 0 {
				bad = append(bad, fmt.Sprintf("%d .init file(s) left", nInit))
			}
			if fullLeft {
				bad = append(bad, fmt.Sprintf("a complete or unreadable compact log is left: %v", logsAfter))
			}
			all := finals(res.ents, nil)
			ld := append([]string{}, res.loaded...)
			sort.Strings(ld)
			if !sameSet(all, ld) {
				bad = append(bad, fmt.Sprintf("the shard loaded %v, the directory holds %v", ld, all))
			}
			finSet := setOf(fin)
			for _, p := range img.picks {
				old, news := p.ro.outcomes()
				inFoot := map[string]bool{}
				for _, e := range append(append([]string{}, old...), news[0]...) {
					inFoot[e] = true
				}
				var got []string
				for e := range finSet {
					if inFoot[e] {
						got = append(got, e)
					}
				}
				sort.Strings(got)
				ok := sameSet(got, old)
				for _, s := range news {
					if sameSet(got, s) {
						ok = true
					}
				}
				if !ok {
					bad = append(bad, fmt.Sprintf("files of the %s of %s after recovery %v: neither its old set %v nor its new set %v", p.ro.kind(), p.ro.mst, got, old, news[0]))
				}
			}
			// outside every footprint nothing changed
			foot := map[string]bool{}
			for _, p := range img.picks {
				for rel := range p.ro.foot {
					foot[rel] = true
				}
			}
			for _, e := range m0ents {
				if strings.HasSuffix(e, tmpSuffix) || foot[relOfEnt(e)] {
					continue
				}
				if !finSet[e] {
					bad = append(bad, "a file no reorganisation touched is gone: "+e)
				}
			}
		}
		kind := img.kindOf
		c.Count("multi-image:" + strings.SplitN(kind, "(", 2)[0])
		if img.parent != nil {
			c.Count("multi-image-parent:" + strings.SplitN(img.parent.kindOf, "(", 2)[0])
		}
		var shape []string
		for _, p := range img.picks {
			shape = append(shape, fmt.Sprintf("%s@%d/%d:%d", p.ro.kind(), p.k, len(p.ro.tokens), p.cut))
		}
		c.Case(fmt.Sprintf("multi|%s|%s|%s", kind, strings.Join(shape, "+"), img.stale), true)
		if len(bad) > 0 {
			c.Violation(line, "", fmt.Sprintf("%s: %s", img.desc, strings.Join(bad, "; ")))
		}
	}
	for i, img := range imgs {
		judge(img, results[i])
	}
	for i, img := range nested {
		judge(img, nres[i])
	}
	c.Stats.Hist["crash-images"] += len(imgs) + len(nested)
	c.Stats.Hist["multi-crash-images"] += len(imgs) + len(nested)
	c.Stats.Hist["multi-independent-ordered-pairs"] += nPairs
	c.Count("multi-knobs:" + k.String())
	for _, n := range hx.SortedKeys(rc.notes) {
		c.Stats.Hist["note:"+n] += rc.notes[n]
	}
	return nil
}
