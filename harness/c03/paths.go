package c03

// Streaming and non-streaming compaction (and the fast / streaming self-merge) on the SAME
// input files: a shard is built and flushed, its directory copied at rest, and each copy is
// reorganised under one setting of the compaction path; the full dumps must be equal to each
// other and to the last-write-wins map, and the resulting file names must be the same (the
// plan does not depend on the path). In the model both outputs satisfy the same hypothesis `hN`
// (new files = merge of their inputs), so they are Equiv to each other (`paths_equiv`).

import (
	"fmt"
	"math"
	"os"
	"path/filepath"
	"sort"
	"strings"

	"github.com/openGemini/openGemini/engine"
	"github.com/openGemini/openGemini/lib/util"

	"verif/harness/engx"
	"verif/harness/internal/hx"
)

func runPaths(c *hx.Ctx, r *hx.Rng, idx int) error {
	root := scratchDir("c03p")
	defer os.RemoveAll(root)
	k := knobs{minGroup0: []int{2, 3}[r.Intn(2)], minGroup1: 2, mergeFlag: util.AutoCompact, streamModeLevel: 2,
		maxSelfLevel: 0, levelMergeNum: 8, maxUnorderedNum: 64, segRows: []int{0, 16}[r.Intn(2)]}
	applyKnobs(k)
	defer resetKnobs()
	src := filepath.Join(root, "src")
	sh, err := engine.VerifOpenShard(src, 1)
	if err != nil {
		return err
	}
	sh.DetachFromCompactor()
	line0 := c.Emit(fmt.Sprintf("open %d", 200000+idx), "ok")
	spec := lww{}
	var hi [nSeries]int
	nTimes := 14 + r.Intn(16)
	for g := 0; g < 4+r.Intn(4); g++ {
		for b := 0; b < 1+r.Intn(2); b++ {
			rows := genBatch(r, &hi, nTimes, 35, r.Chance(10))
			for _, x := range rows {
				if x.T > hi[x.Series] {
					hi[x.Series] = x.T
				}
			}
			var werr error
			if perr := hx.Safe(func() { werr = sh.Write(engx.ToInflux(rows)) }); perr != "" || werr != nil {
				return fmt.Errorf("write failed: %s %v", perr, werr)
			}
			spec.apply(rows)
		}
		if perr := hx.Safe(func() { sh.Flush() }); perr != "" {
			return fmt.Errorf("flush failed: %s", perr)
		}
	}
	want := spec.read()
	sh.FlushIndex()
	if perr := hx.Safe(func() { sh.Close() }); perr != "" {
		return fmt.Errorf("close failed: %s", perr)
	}
	type variant struct {
		name      string
		mergeFlag int32
		streamLv  int
		selfLevel uint16
	}
	variants := []variant{
		{"non-streaming compaction, streaming self-merge", util.NonStreamingCompact, 0, 0},
		{"streaming compaction, fast self-merge", util.StreamingCompact, 2, 3},
	}
	type outcome struct {
		dump  string
		files []string
	}
	var outs []outcome
	for vi, v := range variants {
		dst := filepath.Join(root, fmt.Sprintf("v%d", vi))
		if e := copyTree(src, dst); e != nil {
			return e
		}
		relocateTxn(dst, src)
		kv := k
		kv.mergeFlag, kv.streamModeLevel, kv.maxSelfLevel = v.mergeFlag, v.streamLv, v.selfLevel
		applyKnobs(kv)
		s2, err := engine.VerifOpenShard(dst, 1)
		if err != nil {
			return err
		}
		s2.DetachFromCompactor()
		var oerr error
		perr := hx.Safe(func() {
			if oerr = s2.LevelCompact(0); oerr != nil {
				return
			}
			if oerr = s2.MergeOutOfOrder(true, false); oerr != nil {
				return
			}
			oerr = s2.FullCompact()
		})
		if perr != "" || oerr != nil {
			s2.Close()
			return fmt.Errorf("reorganisation (%s) failed: %s %v", v.name, perr, oerr)
		}
		s2.FlushIndex()
		rows, derr := s2.Dump(mst, engx.AllFields(), math.MinInt64, math.MaxInt64, true)
		o := outcome{dump: engx.DumpText(rows)}
		if derr != nil {
			o.dump = "err " + derr.Error()
		}
		for _, f := range s2.Files(mst) {
			o.files = append(o.files, fmt.Sprintf("%v/%s", f.Order, f.Name))
		}
		sort.Strings(o.files)
		outs = append(outs, o)
		s2.Close()
	}
	var bad []string
	for vi, o := range outs {
		if o.dump != want {
			bad = append(bad, fmt.Sprintf("%s: dump %q, last-write-wins map %q", variants[vi].name, o.dump, want))
		}
	}
	if outs[0].dump != outs[1].dump {
		bad = append(bad, "the two paths read differently")
	}
	if strings.Join(outs[0].files, ",") != strings.Join(outs[1].files, ",") {
		c.Count("paths:file-names-differ")
	}
	c.Count("paths:compared")
	c.Case(fmt.Sprintf("paths|%d|%s", idx, k.String()), true)
	if len(bad) > 0 {
		c.Violation(line0, "", fmt.Sprintf("compaction paths on the same files (%s): %s", k.String(), strings.Join(bad, "; ")))
	}
	return nil
}
