package c03

// Column-store level compaction under crash images.
//
// The column-store path does not follow the replace protocol (model: OG.C03.ColStore): the
// compaction renames its output to the final name while it writes it, and only then
// csImmTableImpl.ReplaceFiles writes the compact log. A column-store table store (hook
// immutable.VerifOpenColStore) gets a group of level-0 files, level compaction runs under the VFS
// observer, the shard directory is copied after every mutation (plus torn variants of the log
// write), every image is reopened (start-up pass + loader) and all rows are read back file by
// file - a column-store scan does not de-duplicate, so a row that is in an old file and in the
// new one comes back twice. The images go to the single-log model as `crash` lines like those of
// the ts-store histories (the model has no notion of the engine: it predicts, from the entries
// and the log, which files start-up leaves - for an image in the window: old and new files).
// A wrong answer on an image taken while the new file is under its final name and no complete
// log exists is the known finding colstore_compaction_publishes_before_log; anything else is not.

import (
	"fmt"
	"os"
	"path/filepath"
	"sort"
	"strings"
	"sync"

	"github.com/openGemini/openGemini/engine/immutable"

	"verif/harness/internal/hx"
)

const csClass = "colstore_compaction_publishes_before_log"

// csClassMultiple: row-mode compaction of a group whose total row count is an exact multiple of
// the flush unit (rows per segment x fragments per flush) writes an output without chunk meta.
const csClassMultiple = "colstore_compaction_total_rows_multiple_of_flush_unit"

const csSegRows = 64

var csMstDir = filepath.Join(immutable.ColumnStoreDirName, "mst")

type csImage struct {
	dir   string
	desc  string
	step  int
	ents  []string
	log   string
}

type csRecorder struct {
	mu      sync.Mutex
	root    string
	imgRoot string
	on      bool
	n       int
	images  []*csImage
	r       *hx.Rng
}

func csList(root string) (ents []string, logState string) {
	des, _ := os.ReadDir(filepath.Join(root, csMstDir))
	var names []string
	for _, de := range des {
		n := de.Name()
		if strings.HasSuffix(n, ".tssp") || strings.HasSuffix(n, ".tssp"+tmpSuffix) {
			names = append(names, n)
		}
	}
	sortShardOrder(names)
	for _, n := range names {
		ents = append(ents, "o/"+n)
	}
	logState = "none"
	ls, _ := os.ReadDir(filepath.Join(root, immutable.VerifCompactLogDir()))
	for _, de := range ls {
		lg, dirty, e := immutable.VerifReadCompactLog(filepath.Join(root, immutable.VerifCompactLogDir(), de.Name()))
		switch {
		case e != nil:
			logState = "unreadable"
		case dirty:
			if logState == "none" {
				logState = "torn"
			}
		default:
			var news []string
			for _, x := range lg.New {
				news = append(news, strings.TrimSuffix(x, tmpSuffix))
			}
			o := "0"
			if lg.IsOrder {
				o = "1"
			}
			logState = fmt.Sprintf("full:%s:%s:%s", o, strings.Join(lg.Old, ","), strings.Join(news, ","))
		}
	}
	return
}

func (rc *csRecorder) before(op, rel, rel2 string, n int64) {}
func (rc *csRecorder) failed(op, rel string)                {}
func (rc *csRecorder) after(op, rel, rel2 string, n int64) {
	inLog := strings.HasPrefix(rel, immutable.VerifCompactLogDir()+"/")
	if !strings.HasPrefix(rel, csMstDir+"/") && !inLog {
		return
	}
	if op == "sync" || op == "mkdir" || (!inLog && (op == "write" || op == "truncate")) {
		return
	}
	rc.mu.Lock()
	defer rc.mu.Unlock()
	if !rc.on {
		return
	}
	take := func(cut int64, desc string) {
		rc.n++
		dst := filepath.Join(rc.imgRoot, fmt.Sprintf("cs%04d", rc.n))
		if e := copyTree(rc.root, dst); e != nil {
			return
		}
		if cut > 0 {
			f := filepath.Join(dst, rel)
			if st, e := os.Stat(f); e == nil {
				os.Truncate(f, st.Size()-cut)
			}
		}
		ents, lg := csList(dst)
		rc.images = append(rc.images, &csImage{dir: dst, desc: desc, step: rc.n, ents: ents, log: lg})
	}
	desc := fmt.Sprintf("after %s %s %s", op, rel, rel2)
	take(0, desc)
	if inLog && op == "write" {
		for _, cut := range []int64{1, n - 7, 9 + int64(rc.r.Intn(int(max64(n-18, 1))))} {
			if cut > 0 && cut <= n {
				take(cut, fmt.Sprintf("%s (log cut by %d of %d bytes)", desc, cut, n))
			}
		}
	}
}

func max64(a, b int64) int64 {
	if a > b {
		return a
	}
	return b
}

func csRowsText(rows []immutable.VerifCSRow) string {
	xs := make([]string, 0, len(rows))
	for _, r := range rows {
		xs = append(xs, fmt.Sprintf("%d:%d:%d", r.K, r.V, r.T))
	}
	sort.Strings(xs)
	return strings.Join(xs, "|")
}

func csSummary(rows []immutable.VerifCSRow) string {
	seen := map[int64]int{}
	dup := 0
	for _, r := range rows {
		seen[r.K*1000003+r.V]++
	}
	for _, n := range seen {
		if n > 1 {
			dup++
		}
	}
	return fmt.Sprintf("%d rows, %d distinct, %d of them more than once", len(rows), len(seen), dup)
}

func runColStore(c *hx.Ctx, r *hx.Rng, idx int, workers int) error {
	root := scratchDir("c03cs")
	imgRoot := scratchDir("c03csimg")
	defer os.RemoveAll(root)
	defer os.RemoveAll(imgRoot)
	defMin := immutable.LeveLMinGroupFiles
	nFiles := 2 + r.Intn(3)
	immutable.LeveLMinGroupFiles[0] = nFiles
	defer func() { immutable.LeveLMinGroupFiles = defMin }()
	st, err := immutable.VerifOpenColStore(root)
	if err != nil {
		return err
	}
	c.Emit(fmt.Sprintf("open %d", 400000+idx), "ok")
	// every second history of a run compacts a group whose total row count is an exact multiple
	// of the flush unit (known finding csClassMultiple); the others never do
	multiple := idx%2 == 1
	immutable.VerifCSSegmentRows = csSegRows
	k := int64(0)
	total := 0
	for f := 0; f < nFiles; f++ {
		n := 10 + r.Intn(140)
		if f == nFiles-1 {
			rem := (total + n) % csSegRows
			switch {
			case multiple && rem != 0:
				n += csSegRows - rem
			case !multiple && rem == 0:
				n++
			}
		}
		total += n
		var rows []immutable.VerifCSRow
		for i := 0; i < n; i++ {
			k += int64(1 + r.Intn(3))
			rows = append(rows, immutable.VerifCSRow{K: k, V: int64(r.Intn(100000)), T: 1700000000e9 + k*1e9})
		}
		if err := st.AddFile(rows); err != nil {
			return fmt.Errorf("column store: write of file %d failed: %v", f, err)
		}
	}
	beforeRows, beforeFiles, err := st.Rows()
	if err != nil {
		return err
	}
	want := csRowsText(beforeRows)
	isOld := map[string]bool{}
	for _, f := range beforeFiles {
		isOld["o/"+f] = true
	}
	rc := &csRecorder{root: root, imgRoot: imgRoot, r: r.Fork(), on: true}
	theMux.set(root, rc)
	var cerr error
	perr := hx.Safe(func() { cerr = st.LevelCompact(0) })
	rc.mu.Lock()
	rc.on = false
	rc.mu.Unlock()
	theMux.set(root, nil)
	if perr != "" || cerr != nil {
		return fmt.Errorf("column store: level compaction failed: %s %v", perr, cerr)
	}
	afterRows, afterFiles, err := st.Rows()
	if os.Getenv("C03_DEBUG") != "" {
		des, _ := os.ReadDir(filepath.Join(root, csMstDir))
		for _, d := range des {
			i, _ := d.Info()
			fmt.Fprintln(os.Stderr, "C03_DEBUG cs file", d.Name(), i.Size())
		}
		fmt.Fprintln(os.Stderr, "C03_DEBUG cs after", len(afterRows), afterFiles, err, "before", len(beforeRows), beforeFiles)
	}
	line0 := c.Emit(fmt.Sprintf("open %d", 400000+idx), "ok")
	if err != nil || csRowsText(afterRows) != want {
		class := ""
		if multiple {
			class = csClassMultiple
		}
		c.Violation(line0, class, fmt.Sprintf("column-store history %d: %d files with %d rows in all (rows per segment %d) compacted without any crash: rows after level compaction: %s in files %v (%v); before: %s", idx, nFiles, total, csSegRows, csSummary(afterRows), afterFiles, err, csSummary(beforeRows)))
		c.Count("colstore:compaction-lost-rows")
		st.Close()
		return nil // every image of this compaction would only repeat it
	}
	st.Close()
	c.Count("colstore:compactions")
	if len(afterFiles) >= len(beforeFiles) {
		c.Count("colstore:compaction-did-nothing")
	}

	type res struct {
		err   string
		rows  []immutable.VerifCSRow
		files []string
		ents  []string
		log   string
	}
	results := make([]res, len(rc.images))
	var wg sync.WaitGroup
	ch := make(chan int)
	for w := 0; w < workers; w++ {
		wg.Add(1)
		go func() {
			defer wg.Done()
			for i := range ch {
				img := rc.images[i]
				var rs res
				perr := hx.Safe(func() {
					s2, e := immutable.VerifOpenColStore(img.dir)
					if e != nil {
						rs.err = "err " + strings.SplitN(e.Error(), "\n", 2)[0]
						return
					}
					rs.rows, rs.files, e = s2.Rows()
					if e != nil {
						rs.err = "err " + strings.SplitN(e.Error(), "\n", 2)[0]
					}
					s2.Close()
				})
				if perr != "" {
					rs.err = "err " + strings.SplitN(perr, "\n", 2)[0]
				}
				rs.ents, rs.log = csList(img.dir)
				os.RemoveAll(img.dir)
				results[i] = rs
			}
		}()
	}
	for i := range rc.images {
		ch <- i
	}
	close(ch)
	wg.Wait()

	for i, img := range rc.images {
		rs := results[i]
		nInit := 0
		var fin []string
		for _, e := range rs.ents {
			if strings.HasSuffix(e, tmpSuffix) {
				nInit++
			} else {
				fin = append(fin, e)
			}
		}
		sort.Strings(fin)
		logAfter := rs.log
		if strings.HasPrefix(logAfter, "full") {
			logAfter = "full"
		}
		ans := fmt.Sprintf("rec files=%s init=%d log=%s", strings.Join(fin, ","), nInit, logAfter)
		if rs.err != "" {
			ans = rs.err
		}
		line := c.Emit(fmt.Sprintf("crash r=%d files=%s log=%s", 9000+idx, strings.Join(img.ents, ","), img.log), ans)
		// the window: a new data file under its final name, no complete log
		inWindow := !strings.HasPrefix(img.log, "full")
		hasNewFinal := false
		for _, e := range img.ents {
			if !strings.HasSuffix(e, tmpSuffix) && !isOld[e] {
				hasNewFinal = true
			}
		}
		inWindow = inWindow && hasNewFinal
		var bad []string
		if rs.err != "" {
			bad = append(bad, "recovery failed: "+rs.err)
		} else {
			if got := csRowsText(rs.rows); got != want {
				bad = append(bad, fmt.Sprintf("rows after restart: %s in files %v; before the compaction: %s", csSummary(rs.rows), rs.files, csSummary(beforeRows)))
			}
			if nInit != 0 {
				bad = append(bad, fmt.Sprintf("%d .init data file(s) left", nInit))
			}
			if logAfter == "full" || logAfter == "unreadable" {
				bad = append(bad, "a "+logAfter+" compact log is left")
			}
		}
		c.Count("colstore:image")
		if inWindow {
			c.Count("colstore:image-in-window")
		}
		c.Case(fmt.Sprintf("colstore|%d|%d|%s|%v", nFiles, img.step, strings.SplitN(img.log, ":", 2)[0], inWindow), true)
		if len(bad) > 0 {
			class := ""
			if inWindow {
				class = csClass
			}
			c.Violation(line, class, fmt.Sprintf("column-store history %d (%d files compacted), image %s: %s", idx, nFiles, img.desc, strings.Join(bad, "; ")))
		}
	}
	return nil
}
