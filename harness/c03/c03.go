// Package c03: correspondence harness for C03 (compaction and out-of-order merge change no
// answer and are crash-atomic).
//
// Phase 1 builds real data files through the shard facade (several flush generations with late
// data, so that ordered and out-of-order files exist; sparse rows, different field subsets per
// file, overwrites), then runs level compaction, full compaction, out-of-order merge (merge
// into the ordered files, fast and streaming self-merge) while a VFS observer (hook
// lib/fileops verif_hook.go) copies the whole shard directory after every file-system mutation
// under data/ (new `.init` files, the compact log, renames, removals): each copy is the disk
// as a `kill -9` at that instant would leave it. For the log write it also makes torn variants
// (the log cut short). Some reorganisations run while every data file is referenced the way an
// open cursor references it (old files are then renamed to `<name>.init` instead of removed).
// A few unflushed writes sit in the WAL meanwhile.
//
// Phase 2 reopens a real shard on every image and records the data files it ends up with (the
// directory listing and the shard's own file list) and a full dump. Thorough tier: second-level
// images are taken during that recovery and recovered again.
//
//	ops.txt  : `reorg …`  what the harness observed of one reorganisation (log content read with
//	            the real reader, files before, which files were in use) - the model answers
//	            with the step sequence it expects; the implementation's answer is the observed one
//	           `crash …`  the disk found in an image (entries + log state) - the model answers
//	            with the disk a start-up pass leaves; the implementation's answer is the listing
//	            after the real recovery
//	viol.out : the property: dump after recovery = last-write-wins replay of the acknowledged
//	           writes = dump before the reorganisation; the file set is the old one or the new
//	           one (minus a prefix of the merged out-of-order files), nothing half; no `.init`
//	           file and no complete log remain.
package c03

import (
	"fmt"
	"io"
	"math"
	"os"
	"path/filepath"
	"runtime"
	"runtime/pprof"
	"sort"
	"strconv"
	"strings"
	"sync"
	"sync/atomic"
	"time"

	"github.com/openGemini/openGemini/engine"
	"github.com/openGemini/openGemini/engine/immutable"
	"github.com/openGemini/openGemini/lib/config"
	"github.com/openGemini/openGemini/lib/fileops"
	"github.com/openGemini/openGemini/lib/util"

	"verif/harness/engx"
	"verif/harness/internal/hx"
)

func init() { hx.Register("C03", Run) }

const nSeries = 3
const mst = "m"
const tmpSuffix = ".init"

// ---------- spec: last-write-wins map

type key struct{ s, t int }
type lww map[key]map[string]string

func (m lww) apply(rows []engx.Row) {
	for _, r := range rows {
		k := key{r.Series, r.T}
		if m[k] == nil {
			m[k] = map[string]string{}
		}
		for f, v := range r.Fields {
			m[k][f] = v
		}
	}
}

func (m lww) read() string {
	var ks []key
	for k := range m {
		ks = append(ks, k)
	}
	sort.Slice(ks, func(a, b int) bool {
		if ks[a].s != ks[b].s {
			return ks[a].s < ks[b].s
		}
		return ks[a].t < ks[b].t
	})
	var cells []string
	for _, k := range ks {
		var vs []string
		for _, f := range engx.FieldNames {
			if v, ok := m[k][f]; ok {
				vs = append(vs, v)
			} else {
				vs = append(vs, "_")
			}
		}
		cells = append(cells, fmt.Sprintf("%d:%d:%s", k.s, k.t, strings.Join(vs, ",")))
	}
	return "rows " + strings.Join(cells, "|")
}

// ---------- observer multiplexer (one global observer, handlers by directory prefix)

type handler interface {
	before(op, rel, rel2 string, n int64)
	after(op, rel, rel2 string, n int64)
	failed(op, rel string)
}

type mux struct {
	mu sync.RWMutex
	hs map[string]handler // root (no trailing slash) -> handler
}

var theMux = &mux{hs: map[string]handler{}}

func (m *mux) find(p string) (handler, string) {
	m.mu.RLock()
	defer m.mu.RUnlock()
	for root, h := range m.hs {
		if strings.HasPrefix(p, root+"/") {
			return h, root
		}
	}
	return nil, ""
}

func (m *mux) set(root string, h handler) {
	m.mu.Lock()
	if h == nil {
		delete(m.hs, root)
	} else {
		m.hs[root] = h
	}
	m.mu.Unlock()
}

func (m *mux) Before(op, p, p2 string, n int64) {
	if h, root := m.find(p); h != nil {
		h.before(op, strings.TrimPrefix(p, root+"/"), strings.TrimPrefix(p2, root+"/"), n)
	}
}

func (m *mux) After(op, p, p2 string, n int64, err error) {
	if err != nil {
		if h, root := m.find(p); h != nil {
			h.failed(op, strings.TrimPrefix(p, root+"/"))
		}
		return
	}
	if h, root := m.find(p); h != nil {
		h.after(op, strings.TrimPrefix(p, root+"/"), strings.TrimPrefix(p2, root+"/"), n)
	}
}

// ---------- directory observation

func copyTree(src, dst string) error {
	return filepath.Walk(src, func(p string, info os.FileInfo, err error) error {
		if err != nil {
			if os.IsNotExist(err) {
				return nil
			}
			return err
		}
		rel, _ := filepath.Rel(src, p)
		target := filepath.Join(dst, rel)
		if info.IsDir() {
			return os.MkdirAll(target, 0o755)
		}
		in, err := os.Open(p)
		if err != nil {
			if os.IsNotExist(err) {
				return nil
			}
			return err
		}
		defer in.Close()
		out, err := os.Create(target)
		if err != nil {
			return err
		}
		_, err = io.Copy(out, in)
		out.Close()
		return err
	})
}

// relocateTxn: see harness/c01 (the series index keeps absolute paths in its pending
// transaction files; an image lives in another directory than the shard it was copied from).
func relocateTxn(imgRoot, origRoot string) {
	filepath.Walk(imgRoot, func(p string, info os.FileInfo, err error) error {
		if err != nil || info.IsDir() || !strings.Contains(p, "/txn/") {
			return nil
		}
		b, e := os.ReadFile(p)
		if e != nil || !strings.Contains(string(b), origRoot) {
			return nil
		}
		os.WriteFile(p, []byte(strings.ReplaceAll(string(b), origRoot, imgRoot)), 0o644)
		return nil
	})
}

var mstDir = filepath.Join("data", immutable.TsspDirName, mst)
var oooDir = filepath.Join(mstDir, "out-of-order")
var logDir = filepath.Join("data", immutable.VerifCompactLogDir())

// entOf classifies a path relative to the shard root: "o/<name>", "u/<name>", "log", "".
func entOf(rel string) string {
	d, b := filepath.Dir(rel), filepath.Base(rel)
	switch d {
	case mstDir:
		return "o/" + b
	case oooDir:
		return "u/" + b
	case logDir:
		return "log"
	}
	return ""
}

type seqKey struct {
	seq uint64
	ext uint64
}

func parseName(n string) seqKey {
	n = strings.TrimSuffix(strings.TrimSuffix(n, tmpSuffix), ".tssp")
	p := strings.Split(n, "-")
	if len(p) != 3 || len(p[2]) != 8 {
		return seqKey{math.MaxUint64, 0}
	}
	s, _ := strconv.ParseUint(p[0], 16, 64)
	e, _ := strconv.ParseUint(p[2][4:], 16, 64)
	return seqKey{s, e}
}

// sortShardOrder sorts file names the way TSSPFiles.Less does (sequence, then extent).
func sortShardOrder(names []string) {
	sort.SliceStable(names, func(a, b int) bool {
		ka, kb := parseName(names[a]), parseName(names[b])
		if ka.seq != kb.seq {
			return ka.seq < kb.seq
		}
		if ka.ext != kb.ext {
			return ka.ext < kb.ext
		}
		return names[a] < names[b]
	})
}

// listDisk lists the measurement's entries ("o/…", "u/…", incl. `.init` names) in shard order
// per directory and classifies the compact logs with the real reader.
func listDisk(root string) (ents []string, logState string, nLogs int) {
	for _, d := range []struct{ dir, pre string }{{mstDir, "o/"}, {oooDir, "u/"}} {
		des, err := os.ReadDir(filepath.Join(root, d.dir))
		if err != nil {
			continue
		}
		var names []string
		for _, de := range des {
			if !de.IsDir() {
				names = append(names, de.Name())
			}
		}
		sortShardOrder(names)
		for _, n := range names {
			ents = append(ents, d.pre+n)
		}
	}
	logState = "none"
	des, err := os.ReadDir(filepath.Join(root, logDir))
	if err != nil {
		return
	}
	var names []string
	for _, de := range des {
		names = append(names, de.Name())
	}
	sort.Strings(names)
	for _, n := range names {
		nLogs++
		lg, dirty, e := immutable.VerifReadCompactLog(filepath.Join(root, logDir, n))
		switch {
		case e != nil:
			if !strings.HasPrefix(logState, "full") {
				logState = "unreadable"
			}
		case dirty:
			if logState == "none" {
				logState = "torn"
			}
		default:
			o := "0"
			if lg.IsOrder {
				o = "1"
			}
			var news []string
			for _, x := range lg.New {
				news = append(news, strings.TrimSuffix(x, tmpSuffix))
			}
			logState = fmt.Sprintf("full:%s:%s:%s", o, strings.Join(lg.Old, ","), strings.Join(news, ","))
		}
	}
	return
}

// ---------- phase 1 recorder

type reorg struct {
	id          int
	op          string
	logRel      string
	isOrd       bool
	olds, news  []string
	us          []string
	held        bool
	filesBefore []string // entries in shard order at the moment the log was created
	creates     []string
	tokens      []string
	logRemoved  bool
	parsed      bool
	nImages     int
}

type image struct {
	dir    string
	ro     *reorg // nil for second-level images
	parent *image
	step   int // number of protocol tokens executed when the image was taken
	torn   bool
	desc   string
	ents   []string
	log    string
	want   string // dump before the reorganisation the image belongs to
}

type recorder struct {
	mu       sync.Mutex
	cond     *sync.Cond
	root     string
	imgRoot  string
	on       bool
	held     bool
	op       string
	want     string
	opFirst  int // index of the first reorganisation of the running operation
	opFirstID int // id of the last reorganisation before the running operation
	n        int
	nextID   int
	pending  []string // C tokens not yet claimed by a log
	idxSnap  string   // consistent copy of the series index taken before the running operation
	idxEv    int64    // index mutations seen (before + after callbacks)
	idxFly   int64    // index mutations in flight
	busy     bool     // a reorganisation is between the creation and the removal of its log
	active   *reorg   // between its L+ and L- (logs are serialised)
	last     *reorg   // most recent reorganisation whose log is gone (owner of unordered deletions)
	reorgs   []*reorg
	images   []*image
	r        *hx.Rng
	allSteps bool
	notes    map[string]int
}

func (rc *recorder) before(op, rel, rel2 string, n int64) {
	if !strings.HasPrefix(rel, "data/") && !strings.HasPrefix(rel, "wal/") {
		atomic.AddInt64(&rc.idxEv, 1)
		atomic.AddInt64(&rc.idxFly, 1)
		return
	}
	if entOf(rel) != "log" || (op != "openfile" && op != "create") {
		return
	}
	// one compact log at a time: a second reorganisation waits before creating its log
	rc.mu.Lock()
	for rc.on && rc.busy {
		rc.cond.Wait()
	}
	rc.busy = true
	rc.mu.Unlock()
}

func (rc *recorder) failed(op, rel string) {
	if !strings.HasPrefix(rel, "data/") && !strings.HasPrefix(rel, "wal/") {
		atomic.AddInt64(&rc.idxEv, 1)
		if op != "sync" {
			atomic.AddInt64(&rc.idxFly, -1)
		}
		return
	}
	if entOf(rel) == "log" && (op == "openfile" || op == "create") {
		rc.mu.Lock()
		rc.busy = false
		rc.cond.Broadcast()
		rc.mu.Unlock()
	}
}

// snapshotIndex copies the series index while nothing writes to it. The reorganisations do not
// touch the index and no write happens while they run, so every crash image of the operation
// gets this copy (the index's own background merges are not the subject here; copying its
// directory while one of them runs would not be a state any crash can leave).
func (rc *recorder) snapshotIndex() error {
	dst := filepath.Join(rc.imgRoot, "index-snapshot")
	for try := 0; try < 200; try++ {
		os.RemoveAll(dst)
		if atomic.LoadInt64(&rc.idxFly) != 0 {
			time.Sleep(5 * time.Millisecond)
			continue
		}
		ev := atomic.LoadInt64(&rc.idxEv)
		if e := copyTree(filepath.Join(rc.root, "db0"), filepath.Join(dst, "db0")); e != nil {
			continue
		}
		if atomic.LoadInt64(&rc.idxEv) == ev && atomic.LoadInt64(&rc.idxFly) == 0 {
			rc.idxSnap = dst
			return nil
		}
		time.Sleep(5 * time.Millisecond)
	}
	return fmt.Errorf("the series index did not come to rest")
}

func (rc *recorder) take(ro *reorg, torn bool, cut int64, logRel, desc string) {
	rc.n++
	dst := filepath.Join(rc.imgRoot, fmt.Sprintf("img%05d", rc.n))
	for _, sub := range []string{"data", "wal"} {
		if e := copyTree(filepath.Join(rc.root, sub), filepath.Join(dst, sub)); e != nil {
			rc.notes["copy-failed"]++
			return
		}
	}
	if e := copyTree(filepath.Join(rc.idxSnap, "db0"), filepath.Join(dst, "db0")); e != nil {
		rc.notes["copy-failed"]++
		return
	}
	relocateTxn(dst, rc.root)
	if torn {
		f := filepath.Join(dst, logRel)
		if st, e := os.Stat(f); e == nil {
			os.Truncate(f, st.Size()-cut)
		}
	}
	ents, lg, _ := listDisk(dst)
	step := 0
	if ro != nil {
		step = len(ro.tokens)
		ro.nImages++
	}
	rc.images = append(rc.images, &image{dir: dst, ro: ro, step: step, torn: torn, desc: desc, ents: ents, log: lg, want: rc.want})
}

func (rc *recorder) owner(ent string) *reorg {
	name := ent[2:]
	ooo := ent[0] == 'u'
	for i := len(rc.reorgs) - 1; i >= rc.opFirst; i-- {
		ro := rc.reorgs[i]
		if !ro.parsed || ro.isOrd == ooo {
			continue
		}
		for _, x := range ro.olds {
			if x == name {
				return ro
			}
		}
		for _, x := range ro.news {
			if x == name {
				return ro
			}
		}
	}
	return nil
}

func (rc *recorder) after(op, rel, rel2 string, n int64) {
	if !strings.HasPrefix(rel, "data/") && !strings.HasPrefix(rel, "wal/") {
		atomic.AddInt64(&rc.idxEv, 1)
		if op != "sync" { // Sync has no before callback
			atomic.AddInt64(&rc.idxFly, -1)
		}
		return
	}
	ent := entOf(rel)
	if ent == "" || op == "sync" || op == "mkdir" {
		return
	}
	rc.mu.Lock()
	defer rc.mu.Unlock()
	if !rc.on {
		return
	}
	desc := fmt.Sprintf("%s; after %s %s %s", rc.op, op, rel, rel2)
	if ent == "log" {
		switch op {
		case "openfile", "create":
			rc.nextID++
			ro := &reorg{id: rc.nextID, op: rc.op, logRel: rel, held: rc.held}
			ents, _, _ := listDisk(rc.root)
			for _, e := range ents {
				if !strings.HasSuffix(e, tmpSuffix) {
					ro.filesBefore = append(ro.filesBefore, e)
				}
			}
			ro.tokens = append(ro.tokens, "L+")
			rc.active = ro
			rc.reorgs = append(rc.reorgs, ro)
			rc.take(ro, false, 0, rel, desc)
		case "write":
			ro := rc.active
			if ro == nil || ro.logRel != rel {
				rc.notes["log-write-without-create"]++
				return
			}
			lg, dirty, e := immutable.VerifReadCompactLog(filepath.Join(rc.root, rel))
			if e != nil || dirty {
				rc.notes["log-unreadable-after-write"]++
				return
			}
			ro.isOrd = lg.IsOrder
			ro.olds = append([]string{}, lg.Old...)
			for _, x := range lg.New {
				ro.news = append(ro.news, strings.TrimSuffix(x, tmpSuffix))
			}
			ro.parsed = true
			pre := "o/"
			if !ro.isOrd {
				pre = "u/"
			}
			var rest []string
			for _, c := range rc.pending {
				mine := false
				for _, x := range ro.news {
					if c == "C:"+pre+x+tmpSuffix {
						mine = true
					}
				}
				if mine {
					ro.creates = append(ro.creates, c)
				} else {
					rest = append(rest, c)
				}
			}
			rc.pending = rest
			ro.tokens = append(ro.tokens, "LW")
			rc.take(ro, false, 0, rel, desc)
			// torn variants of the log write
			cuts := []int64{1, 8, n - 7, n}
			if n > 20 {
				cuts = append(cuts, 9+int64(rc.r.Intn(int(n-18))))
			}
			for _, c := range cuts {
				if c > 0 && c <= n {
					ro.tokens = ro.tokens[:len(ro.tokens)-1]
					rc.take(ro, true, c, rel, fmt.Sprintf("%s (log cut by %d of %d bytes)", desc, c, n))
					ro.tokens = append(ro.tokens, "LW")
				}
			}
		case "remove":
			ro := rc.active
			if ro == nil || ro.logRel != rel {
				rc.notes["log-remove-without-create"]++
				return
			}
			ro.tokens = append(ro.tokens, "L-")
			ro.logRemoved = true
			rc.active = nil
			rc.busy = false
			rc.last = ro
			rc.take(ro, false, 0, rel, desc)
			rc.cond.Broadcast()
		}
		return
	}
	// data files
	isTmp := strings.HasSuffix(ent, tmpSuffix)
	switch op {
	case "openfile", "create":
		if !isTmp {
			rc.notes["data-file-created-under-final-name"]++
			return
		}
		rc.pending = append(rc.pending, "C:"+ent)
		if rc.allSteps || rc.r.Chance(40) {
			rc.take(nil, false, 0, "", desc)
		}
	case "write", "truncate":
		if rc.allSteps && rc.r.Chance(25) {
			rc.take(nil, false, 0, "", desc) // a half-written `.init` file
		}
	case "rename":
		ent2 := entOf(rel2)
		var tok string
		var who string
		switch {
		case isTmp && ent2 == strings.TrimSuffix(ent, tmpSuffix):
			tok, who = "P:"+ent2, ent2
		case !isTmp && ent2 == ent+tmpSuffix:
			tok, who = "H:"+ent, ent
		default:
			rc.notes["unexpected-rename"]++
			tok, who = "?rename:"+ent+">"+ent2, ent
		}
		ro := rc.owner(who)
		if ro == nil && tok[0] == 'H' && ent[0] == 'u' && rc.last != nil && rc.last.id > rc.opFirstID {
			ro = rc.last
			ro.us = append(ro.us, ent[2:])
		}
		if ro == nil {
			rc.notes["unowned-rename"]++
			return
		}
		ro.tokens = append(ro.tokens, tok)
		rc.take(ro, false, 0, "", desc)
	case "remove":
		if isTmp {
			// a `.init` file goes away (table-store GC, cleanup of a failed merge)
			rc.take(nil, false, 0, "", desc)
			return
		}
		ro := rc.owner(ent)
		if ro == nil && ent[0] == 'u' && rc.last != nil && rc.last.id > rc.opFirstID {
			ro = rc.last
			ro.us = append(ro.us, ent[2:])
		}
		if ro == nil {
			rc.notes["unowned-remove"]++
			return
		}
		ro.tokens = append(ro.tokens, "R:"+ent)
		rc.take(ro, false, 0, "", desc)
	}
}

// ---------- phase 2: recovery of an image

type recResult struct {
	err     string
	dump    string
	loaded  []string // "o/…","u/…" as the shard reports them
	ents    []string // listing after recovery
	log     string
	nested  []*image
	created []string // entries written by the recovery itself (flush of the replayed WAL)
}

// nestRec takes second-level images while an image is being recovered: after every rename /
// removal under data/ until the recovery starts writing new data (WAL replay and its flush are
// C01's subject).
type nestRec struct {
	mu      sync.Mutex
	pristine string
	root    string
	imgRoot string
	parent  *image
	n       int
	stop    bool
	images  []*image
	budget  int
	created []string
}

func (nr *nestRec) before(op, rel, rel2 string, n int64) {}
func (nr *nestRec) failed(op, rel string)                {}
func (nr *nestRec) after(op, rel, rel2 string, n int64) {
	nr.mu.Lock()
	defer nr.mu.Unlock()
	if e := entOf(rel); (op == "openfile" || op == "create") && strings.HasSuffix(e, tmpSuffix) {
		nr.created = append(nr.created, strings.TrimSuffix(e, tmpSuffix))
	}
	if nr.stop {
		return
	}
	if strings.HasPrefix(rel, "wal/") {
		if op != "mkdir" {
			nr.stop = true
		}
		return
	}
	ent := entOf(rel)
	if ent == "" {
		return
	}
	if op == "openfile" || op == "create" || op == "write" {
		nr.stop = true
		return
	}
	if op != "rename" && op != "remove" {
		return
	}
	if nr.n >= nr.budget {
		return
	}
	nr.n++
	dst := filepath.Join(nr.imgRoot, fmt.Sprintf("%s-n%02d", filepath.Base(nr.root), nr.n))
	// data/ as it is now; WAL and series index as the image had them before it was opened (see
	// multi.go: a copy of the directory of an open index is not a crash state)
	if e := copyTree(filepath.Join(nr.root, "data"), filepath.Join(dst, "data")); e != nil {
		return
	}
	for _, sub := range []string{"wal", "db0"} {
		if e := copyTree(filepath.Join(nr.pristine, sub), filepath.Join(dst, sub)); e != nil {
			return
		}
	}
	relocateTxn(dst, nr.root)
	ents, lg, _ := listDisk(dst)
	nr.images = append(nr.images, &image{dir: dst, parent: nr.parent, want: nr.parent.want, desc: fmt.Sprintf("%s; recovery interrupted after %s %s %s", nr.parent.desc, op, rel, rel2), ents: ents, log: lg})
}

func recoverImage(img *image, nParts int, nestBudget int, imgRoot string) recResult {
	var res recResult
	var rows []engine.VerifRow
	var err error
	nr := &nestRec{root: img.dir, imgRoot: imgRoot, parent: img, budget: nestBudget}
	if nestBudget > 0 {
		nr.pristine = img.dir + ".pristine"
		for _, sub := range []string{"wal", "db0"} {
			if e := copyTree(filepath.Join(img.dir, sub), filepath.Join(nr.pristine, sub)); e != nil {
				nr.budget = 0
			}
		}
		defer os.RemoveAll(nr.pristine)
	}
	theMux.set(img.dir, nr)
	perr := hx.Safe(func() {
		var sh *engine.VerifShard
		sh, err = engine.VerifOpenShard(img.dir, nParts)
		nr.mu.Lock()
		nr.stop = true
		nr.mu.Unlock()
		if err != nil {
			return
		}
		// no DetachFromCompactor here: every shard of this process has id 1, the compactor's
		// registry is keyed by id and counts registrations in a WaitGroup; a second
		// unregistration per open (detach + close) racing with another image's close drives
		// the counter negative. DisableBackground is enough for a shard that is only read.
		sh.DisableBackground()
		sh.FlushIndex()
		for _, f := range sh.Files(mst) {
			if f.Order {
				res.loaded = append(res.loaded, "o/"+f.Name)
			} else {
				res.loaded = append(res.loaded, "u/"+f.Name)
			}
		}
		rows, err = sh.Dump(mst, engx.AllFields(), math.MinInt64, math.MaxInt64, true)
		if cerr := sh.Close(); err == nil && cerr != nil {
			err = cerr
		}
	})
	theMux.set(img.dir, nil)
	res.nested = nr.images
	res.created = nr.created
	switch {
	case perr != "":
		res.err = "err " + strings.SplitN(perr, "\n", 2)[0]
	case err != nil:
		res.err = "err " + strings.SplitN(err.Error(), "\n", 2)[0]
	}
	res.dump = engx.DumpText(rows)
	res.ents, res.log, _ = listDisk(img.dir)
	os.RemoveAll(img.dir)
	return res
}

// ---------- history

type knobs struct {
	minGroup0, minGroup1 int
	mergeFlag            int32
	streamModeLevel      int
	maxSelfLevel         uint16
	levelMergeNum        int
	maxUnorderedNum      int
	segRows              int
}

func (k knobs) String() string {
	return fmt.Sprintf("minGroup=%d/%d compact=%d streamMergeLevel=%d maxSelfLevel=%d levelMergeNum=%d maxUnordered=%d segRows=%d",
		k.minGroup0, k.minGroup1, k.mergeFlag, k.streamModeLevel, k.maxSelfLevel, k.levelMergeNum, k.maxUnorderedNum, k.segRows)
}

var defMinGroup = immutable.LeveLMinGroupFiles
var defLevelMerge = append([]int{}, immutable.LevelMergeFileNum...)

func applyKnobs(k knobs) {
	immutable.LeveLMinGroupFiles = defMinGroup
	immutable.LeveLMinGroupFiles[0] = k.minGroup0
	immutable.LeveLMinGroupFiles[1] = k.minGroup1
	immutable.SetMergeFlag4TsStore(k.mergeFlag)
	m := &config.GetStoreConfig().Merge
	m.StreamMergeModeLevel = k.streamModeLevel
	m.MaxMergeSelfLevel = k.maxSelfLevel
	m.MaxUnorderedFileNumber = k.maxUnorderedNum
	immutable.LevelMergeFileNum = []int{k.levelMergeNum, k.levelMergeNum}
	immutable.SetMaxRowsPerSegment4TsStore(k.segRows)
}

func resetKnobs() {
	immutable.LeveLMinGroupFiles = defMinGroup
	immutable.LevelMergeFileNum = append([]int{}, defLevelMerge...)
	immutable.SetMergeFlag4TsStore(util.AutoCompact)
	m := &config.GetStoreConfig().Merge
	m.StreamMergeModeLevel = 2
	m.MaxMergeSelfLevel = 0
	m.MaxUnorderedFileNumber = 64
	immutable.SetMaxRowsPerSegment4TsStore(0)
	setBlockLimit(0)
}

func genVal(r *hx.Rng, f string) string {
	switch f {
	case "fi":
		return fmt.Sprint(int64(r.Intn(2000)) - 1000)
	case "ff":
		return fmt.Sprintf("%016x", math.Float64bits(float64(r.Intn(64))/8-3))
	case "fb":
		return fmt.Sprint(r.Intn(2))
	}
	return fmt.Sprintf("s%d", r.Intn(60))
}

// genBatch: rows mostly at or above the high-water mark of their series (ordered data), some
// late (out-of-order data), random field subsets, sometimes a run of many rows for one series.
func genBatch(r *hx.Rng, hi *[nSeries]int, nTimes int, latePct int, wide bool) []engx.Row {
	n := 1 + r.Intn(5)
	if wide {
		n = 20 + r.Intn(40)
	}
	var rows []engx.Row
	fsub := []string{}
	for _, f := range engx.FieldNames {
		if r.Chance(60) {
			fsub = append(fsub, f)
		}
	}
	if len(fsub) == 0 {
		fsub = []string{engx.FieldNames[r.Intn(len(engx.FieldNames))]}
	}
	for i := 0; i < n; i++ {
		s := r.Intn(nSeries)
		row := engx.Row{Mst: mst, Series: s, Fields: map[string]string{}}
		if r.Chance(latePct) && hi[s] > 0 {
			row.T = r.Intn(hi[s] + 1)
		} else {
			row.T = hi[s] + r.Intn(3)
			if row.T >= nTimes {
				row.T = nTimes - 1
			}
		}
		for _, f := range fsub {
			if r.Chance(70) {
				row.Fields[f] = genVal(r, f)
			}
		}
		if len(row.Fields) == 0 {
			row.Fields[fsub[0]] = genVal(r, fsub[0])
		}
		rows = append(rows, row)
	}
	return rows
}

func loadedOf(sh *engine.VerifShard) []string {
	var out []string
	for _, f := range sh.Files(mst) {
		if f.Order {
			out = append(out, "o/"+f.Name)
		} else {
			out = append(out, "u/"+f.Name)
		}
	}
	return out
}

func waitNoInit(root string) {
	for i := 0; i < 100; i++ {
		ents, _, _ := listDisk(root)
		any := false
		for _, e := range ents {
			if strings.HasSuffix(e, tmpSuffix) {
				any = true
			}
		}
		if !any {
			return
		}
		time.Sleep(30 * time.Millisecond)
	}
}

func setOf(xs []string) map[string]bool {
	m := map[string]bool{}
	for _, x := range xs {
		m[x] = true
	}
	return m
}

func finals(ents []string, known map[string]bool) []string {
	var out []string
	for _, e := range ents {
		if strings.HasSuffix(e, tmpSuffix) {
			continue
		}
		if known == nil || known[e] {
			out = append(out, e)
		}
	}
	sort.Strings(out)
	return out
}

func sameSet(a, b []string) bool {
	if len(a) != len(b) {
		return false
	}
	for i := range a {
		if a[i] != b[i] {
			return false
		}
	}
	return true
}

// outcomes of a reorganisation: the file set before, and the file sets after the replacement
// with j = 0..|us| of the merged out-of-order files deleted.
func (ro *reorg) outcomes() (old []string, news [][]string) {
	old = append([]string{}, ro.filesBefore...)
	sort.Strings(old)
	pre := "o/"
	if !ro.isOrd {
		pre = "u/"
	}
	gone := map[string]bool{}
	for _, x := range ro.olds {
		gone[pre+x] = true
	}
	for j := 0; j <= len(ro.us); j++ {
		if j > 0 {
			gone["u/"+ro.us[j-1]] = true
		}
		var s []string
		for _, e := range ro.filesBefore {
			if !gone[e] {
				s = append(s, e)
			}
		}
		for _, x := range ro.news {
			s = append(s, pre+x)
		}
		sort.Strings(s)
		news = append(news, s)
	}
	return
}

func runHistory(c *hx.Ctx, r *hx.Rng, idx int, workers int, thorough bool) error {
	root := scratchDir("c03")
	imgRoot := scratchDir("c03img")
	defer os.RemoveAll(root)
	defer os.RemoveAll(imgRoot)
	k := knobs{
		minGroup0:       []int{2, 3, 4, 8}[r.Intn(4)],
		minGroup1:       []int{2, 4}[r.Intn(2)],
		mergeFlag:       []int32{util.AutoCompact, util.StreamingCompact, util.NonStreamingCompact}[r.Intn(3)],
		streamModeLevel: []int{2, 0, 1}[r.Intn(3)],
		maxSelfLevel:    []uint16{0, 2, 3}[r.Intn(3)],
		levelMergeNum:   []int{8, 2, 3}[r.Intn(3)],
		maxUnorderedNum: []int{64, 64, 2, 3}[r.Intn(4)],
		segRows:         []int{0, 0, 16, 32, 12}[r.Intn(5)], // 12: not a multiple of 8 (merge repaired in /repo 2a205e1)
	}
	if v := c.Arg("segrows", ""); v != "" {
		k.segRows, _ = strconv.Atoi(v)
	}
	applyKnobs(k)
	defer resetKnobs()
	rmeta := r.Fork()
	setBlockLimit([]int{0, 2, 1}[rmeta.Intn(3)]) // chunk metas per block: default (one block), 2, 1
	metaSeen := map[string]bool{}
	metaRanges := 8
	if thorough {
		metaRanges = 30
	}
	nParts := []int{1, 2}[r.Intn(2)]
	rc := &recorder{root: root, imgRoot: imgRoot, r: r.Fork(), allSteps: thorough, notes: map[string]int{}}
	rc.cond = sync.NewCond(&rc.mu)
	theMux.set(root, rc)
	defer theMux.set(root, nil)
	sh, err := engine.VerifOpenShard(root, nParts)
	if err != nil {
		return err
	}
	// the process-wide background compactor (10 s ticker) must not touch this shard, but
	// DisableBackground cannot be used: DisableCompAndMerge closes the task scheduler for good,
	// after which level and full compaction never run.
	sh.DetachFromCompactor()
	c.Emit(fmt.Sprintf("open %d", idx), "ok")
	spec := lww{}
	var hi [nSeries]int
	nTimes := 14 + r.Intn(20)
	latePct := []int{15, 30, 50}[r.Intn(3)]
	overwrite := false
	seen := map[key]bool{}
	kinds := ""

	write := func(wide bool) error {
		rows := genBatch(r, &hi, nTimes, latePct, wide)
		for _, x := range rows {
			if x.T > hi[x.Series] {
				hi[x.Series] = x.T
			}
			if seen[key{x.Series, x.T}] {
				overwrite = true
			}
			seen[key{x.Series, x.T}] = true
		}
		var werr error
		perr := hx.Safe(func() { werr = sh.Write(engx.ToInflux(rows)) })
		if perr != "" || werr != nil {
			return fmt.Errorf("write failed: %s %v", perr, werr)
		}
		spec.apply(rows)
		return nil
	}
	flushGens := func(n int) error {
		for g := 0; g < n; g++ {
			nb := 1 + r.Intn(2)
			for b := 0; b < nb; b++ {
				if err := write(r.Chance(8)); err != nil {
					return err
				}
			}
			if perr := hx.Safe(func() { sh.Flush() }); perr != "" {
				return fmt.Errorf("flush failed: %s", perr)
			}
			kinds += "f"
		}
		return nil
	}

	abandon := false
	reorgOp := func(name string, f func() error) error {
		// a few unflushed writes stay in the WAL during the reorganisation
		if r.Chance(60) {
			nb := 1 + r.Intn(2)
			for b := 0; b < nb; b++ {
				if err := write(false); err != nil {
					return err
				}
			}
			kinds += "w"
		}
		before := loadedOf(sh)
		want := spec.read()
		sh.FlushIndex()
		rows, derr := sh.Dump(mst, engx.AllFields(), math.MinInt64, math.MaxInt64, true)
		if got := engx.DumpText(rows); derr != nil || got != want {
			line := c.Emit(fmt.Sprintf("open %d", idx), "ok")
			c.Violation(line, "", fmt.Sprintf("history %d before %s: dump %q (%v), last-write-wins map %q", idx, name, got, derr, want))
			abandon = true
			return nil
		}
		if err := rc.snapshotIndex(); err != nil {
			return err
		}
		held := r.Chance(30)
		var release func()
		if held {
			release = sh.HoldFiles(mst)
		}
		rc.mu.Lock()
		first := len(rc.reorgs)
		rc.opFirst, rc.opFirstID, rc.want = first, rc.nextID, want
		rc.on, rc.held, rc.op = true, held, fmt.Sprintf("history %d %s%s", idx, name, map[bool]string{true: " (files in use)", false: ""}[held])
		rc.pending = nil
		rc.mu.Unlock()
		var oerr error
		perr := hx.Safe(func() { oerr = f() })
		rc.mu.Lock()
		rc.on = false
		rc.busy = false
		rc.cond.Broadcast()
		rc.mu.Unlock()
		if release != nil {
			release()
			waitNoInit(root)
		}
		if perr != "" || oerr != nil {
			return fmt.Errorf("%s failed: %s %v", name, perr, oerr)
		}
		kinds += map[string]string{"level": "c", "full": "C", "merge": "m", "selfmerge": "s", "automerge": "a"}[strings.Fields(name)[0]]
		c.Count("op:" + strings.Fields(name)[0])
		// the answer did not change
		sh.FlushIndex()
		rows, derr = sh.Dump(mst, engx.AllFields(), math.MinInt64, math.MaxInt64, true)
		if got := engx.DumpText(rows); derr != nil || got != want {
			line := c.Emit(fmt.Sprintf("open %d", idx), "ok")
			c.Violation(line, "", fmt.Sprintf("history %d after %s (%s): dump %q (%v), before %q", idx, name, k.String(), got, derr, want))
			abandon = true // everything later in this history would only repeat the difference
		}
		// the metadata the read path prunes with, and reads bounded at every stored boundary
		if !abandon {
			w := "any"
			if op0 := strings.Fields(name)[0]; op0 == "level" || op0 == "full" {
				switch k.mergeFlag {
				case util.StreamingCompact:
					w = "stream"
				case util.NonStreamingCompact:
					w = "builder"
				}
			}
			checkMeta(c, sh, mst, spec, rmeta, fmt.Sprintf("history %d after %s (%s, %d chunk metas per block)", idx, name, k.String(), blockLimit), metaSeen, w, metaRanges)
			checkStats(c, sh, mst, fmt.Sprintf("history %d after %s (%s)", idx, name, k.String()))
		}
		rc.mu.Lock()
		ros := rc.reorgs[first:]
		rc.mu.Unlock()
		if len(ros) == 0 {
			c.Count("op-without-reorganisation:" + strings.Fields(name)[0])
			return nil
		}
		// the listing-derived order of the files must be the shard's own
		if got := strings.Join(ros[0].filesBefore, ","); got != strings.Join(before, ",") {
			rc.notes["files-before-differ-from-shard-list"]++
		}
		after := loadedOf(sh)
		_, outs := ros[len(ros)-1].outcomes()
		if a := append([]string{}, after...); true {
			sort.Strings(a)
			if !sameSet(a, outs[len(outs)-1]) {
				rc.notes["files-after-differ-from-expected-new-set"]++
			}
		}
		return nil
	}

	// ---- the history
	if err := flushGens(2 + r.Intn(4)); err != nil {
		return err
	}
	nOps := 2 + r.Intn(4)
	for i := 0; i < nOps; i++ {
		var err error
		switch p := r.Intn(100); {
		case p < 28:
			lv := uint16(r.Intn(2))
			err = reorgOp(fmt.Sprintf("level %d", lv), func() error { return sh.LevelCompact(lv) })
		case p < 40:
			err = reorgOp("full", func() error { return sh.FullCompact() })
		case p < 65:
			err = reorgOp("merge", func() error { return sh.MergeOutOfOrder(false, true) })
		case p < 85:
			err = reorgOp("selfmerge", func() error { return sh.MergeOutOfOrder(true, false) })
		default:
			err = reorgOp("automerge", func() error { return sh.MergeOutOfOrder(false, false) })
		}
		if err != nil {
			return err
		}
		if abandon {
			break
		}
		if err := flushGens(1 + r.Intn(4)); err != nil {
			return err
		}
	}
	theMux.set(root, nil)
	if perr := hx.Safe(func() { sh.Close() }); perr != "" {
		return fmt.Errorf("close failed: %s", perr)
	}

	// ---- reorg lines
	for _, ro := range rc.reorgs {
		if !ro.parsed {
			rc.notes["reorganisation-without-readable-log"]++
			continue
		}
		o := "0"
		if ro.isOrd {
			o = "1"
		}
		var inuse []string
		if ro.held {
			inuse = append(append(inuse, ro.olds...), ro.us...)
		}
		sort.Strings(ro.creates)
		line := fmt.Sprintf("reorg id=%d ord=%s old=%s new=%s us=%s inuse=%s files=%s", ro.id, o,
			strings.Join(ro.olds, ","), strings.Join(ro.news, ","), strings.Join(ro.us, ","), strings.Join(inuse, ","), strings.Join(ro.filesBefore, ","))
		c.Emit(line, "steps "+strings.Join(append(append([]string{}, ro.creates...), ro.tokens...), " ")+" plan=adjacent")
		kind := "replace-ordered"
		switch {
		case ro.isOrd && len(ro.us) > 0:
			kind = "merge-into-ordered"
		case !ro.isOrd && len(ro.us) > 0:
			kind = "self-merge-streaming"
		case !ro.isOrd:
			kind = "self-merge-fast"
		}
		if ro.held {
			kind += "+in-use"
		}
		c.Count("reorg:" + kind)
		c.Sample(fmt.Sprintf("%s: %s; observed %s", ro.op, line, strings.Join(ro.tokens, " ")))
	}

	// ---- phase 2
	nestBudget := 0
	if thorough {
		nestBudget = 6
	}
	imgs := rc.images
	results := make([]recResult, len(imgs))
	parallel := func(n int, f func(i int)) {
		var wg sync.WaitGroup
		ch := make(chan int)
		for w := 0; w < workers; w++ {
			wg.Add(1)
			go func() {
				defer wg.Done()
				for i := range ch {
					f(i)
				}
			}()
		}
		for i := 0; i < n; i++ {
			ch <- i
		}
		close(ch)
		wg.Wait()
	}
	parallel(len(imgs), func(i int) {
		nb := 0
		if nestBudget > 0 && imgs[i].ro != nil && imgs[i].log != "none" {
			nb = nestBudget
		}
		results[i] = recoverImage(imgs[i], nParts, nb, imgRoot)
	})
	var nested []*image
	for i := range imgs {
		nested = append(nested, results[i].nested...)
	}
	nres := make([]recResult, len(nested))
	parallel(len(nested), func(i int) { nres[i] = recoverImage(nested[i], nParts, 0, imgRoot) })

	judge := func(img *image, res recResult) {
		ro := img.ro
		if ro == nil && img.parent != nil {
			ro = img.parent.ro
		}
		rid := 0
		if ro != nil {
			rid = ro.id
		}
		known := setOf(img.ents)
		if strings.HasPrefix(img.log, "full:") {
			p := strings.Split(img.log, ":")
			pre := "o/"
			if p[1] == "0" {
				pre = "u/"
			}
			for _, x := range strings.Split(p[3], ",") {
				known[pre+x] = true
			}
		}
		if strings.HasPrefix(img.log, "full:") {
			p := strings.Split(img.log, ":")
			pre := "o/"
			if p[1] == "0" {
				pre = "u/"
			}
			for _, x := range strings.Split(p[2], ",") {
				known[pre+x] = true
			}
		}
		for _, e := range res.created {
			delete(known, e) // a file written by the recovery's own flush of the replayed WAL
		}
		nInit := 0
		for _, e := range res.ents {
			if strings.HasSuffix(e, tmpSuffix) {
				nInit++
			}
		}
		logAfter := res.log
		if strings.HasPrefix(logAfter, "full") {
			logAfter = "full"
		}
		fin := finals(res.ents, known)
		ans := fmt.Sprintf("rec files=%s init=%d log=%s", strings.Join(fin, ","), nInit, logAfter)
		if res.err != "" {
			ans = res.err
		}
		line := c.Emit(fmt.Sprintf("crash r=%d files=%s log=%s", rid, strings.Join(img.ents, ","), img.log), ans)
		// ---- the property
		var bad []string
		if res.err != "" {
			bad = append(bad, "recovery failed: "+res.err)
		} else {
			if res.dump != img.want {
				bad = append(bad, fmt.Sprintf("dump after recovery %q, before the reorganisation %q", res.dump, img.want))
			}
			if nInit != 0 {
				bad = append(bad, fmt.Sprintf("%d .init file(s) left", nInit))
			}
			if logAfter == "full" || logAfter == "unreadable" {
				bad = append(bad, "a "+logAfter+" compact log is left")
			}
			all := finals(res.ents, nil)
			ld := append([]string{}, res.loaded...)
			sort.Strings(ld)
			if !sameSet(all, ld) {
				bad = append(bad, fmt.Sprintf("the shard loaded %v, the directory holds %v", ld, all))
			}
			if ro != nil && ro.parsed {
				old, news := ro.outcomes()
				kn := func(s []string) []string {
					var o []string
					for _, e := range s {
						if known[e] {
							o = append(o, e)
						}
					}
					return o
				}
				ok := sameSet(fin, kn(old))
				for _, s := range news {
					if sameSet(fin, kn(s)) {
						ok = true
					}
				}
				if !ok {
					bad = append(bad, fmt.Sprintf("file set %v is neither the old set %v nor the new set %v (nor new minus a prefix of the merged out-of-order files)", fin, kn(old), kn(news[0])))
				}
			}
		}
		pos := "outside"
		if img.ro != nil && img.ro.parsed && img.step >= 2 && !img.ro.logRemoved {
			pos = "inside"
		}
		if img.ro != nil && img.step >= 2 && img.step < len(img.ro.tokens) {
			pos = "inside"
		}
		kind := "first-level"
		if img.parent != nil {
			kind = "second-level"
		}
		if img.torn {
			kind = "torn-log"
		}
		c.Count("image:" + kind)
		c.Count("image-log:" + strings.SplitN(img.log, ":", 2)[0])
		shape := ""
		if ro != nil {
			shape = fmt.Sprintf("%v/%d>%d+%d/%v", ro.isOrd, len(ro.olds), len(ro.news), len(ro.us), ro.held)
		}
		c.Case(fmt.Sprintf("%s|%s|%d|%s", shape, kind, img.step, strings.SplitN(img.log, ":", 2)[0]), pos == "inside" || img.parent != nil)
		if len(bad) > 0 {
			c.Violation(line, "", fmt.Sprintf("%s: %s", img.desc, strings.Join(bad, "; ")))
		}
	}
	for i, img := range imgs {
		judge(img, results[i])
	}
	for i, img := range nested {
		judge(img, nres[i])
	}
	c.Stats.Hist["crash-images"] += len(imgs) + len(nested)
	c.Count("knobs:" + k.String())
	if overwrite {
		c.Count("history-with-overwrite")
	}
	for _, n := range hx.SortedKeys(rc.notes) {
		c.Stats.Hist["note:"+n] += rc.notes[n]
	}
	_ = kinds
	return nil
}

func Run(c *hx.Ctx) error {
	c.Stats.Rule = "random histories on a real shard (3 series, late data so that ordered and out-of-order files exist, sparse rows, different field subsets per batch, overwrites, sometimes long runs and small segments; 1 or 2 WAL partitions; unflushed writes in the WAL) with level compaction, full compaction, merge of out-of-order files into ordered ones, fast and streaming self-merge, under random planner knobs (group sizes, streaming / non-streaming compaction, self-merge levels) and sometimes with every data file referenced (old files renamed to .init instead of removed); a crash image (copy of the shard directory) after every file-system mutation under data/ during the reorganisation plus torn variants of the compact-log write; every image is recovered by reopening a shard on it; thorough tier: second-level images during that recovery, recovered again. A case = one image, keyed by (shape of the reorganisation, image kind, step index, log state); non-trivial when the crash is strictly inside the replace protocol (after the log write, before the last step) or inside a recovery"
	fileops.SetVerifObserver(theMux)
	defer fileops.SetVerifObserver(nil)
	if pf := c.Arg("cpuprofile", ""); pf != "" {
		if f, e := os.Create(pf); e == nil {
			pprof.StartCPUProfile(f)
			defer pprof.StopCPUProfile()
		}
	}
	defer scratchCleanup()
	// The process-wide background compactor (a 10 s ticker over every registered shard) must
	// never act on a shard of this harness: the shard of phase 1 is detached from it, the
	// shards opened on crash images are registered for the instant between the end of the
	// open and DisableBackground - a tick in that instant merged the out-of-order files of an
	// image (seen once in ~14 000 opens). The ticker's three actions are switched off through
	// the engine's own process-wide knobs; the harness starts every reorganisation itself.
	oldRule := immutable.LevelCompactRule
	immutable.LevelCompactRule = nil
	immutable.EnableMergeOutOfOrder = false
	engine.SetFullCompColdDuration(100 * 365 * 24 * time.Hour)
	defer func() {
		immutable.LevelCompactRule = oldRule
		immutable.EnableMergeOutOfOrder = true
		engine.SetFullCompColdDuration(time.Hour)
	}()
	n := c.Budget(14, 160)
	r := hx.NewRng(c.Seed)
	thorough := c.Tier == "thorough"
	workers := runtime.NumCPU()
	if workers > 16 {
		workers = 16
	}
	if workers < 4 {
		workers = 4
	}
	// structured part first: several reorganisations in flight at the crash (multi.go)
	nMulti := 2
	if thorough {
		nMulti = 4 + n/20
	}
	if v := c.Arg("multi", ""); v != "" {
		nMulti, _ = strconv.Atoi(v)
	}
	// the planner against its model
	nPlans := 600
	if thorough {
		nPlans = 6000
	}
	if part := c.Arg("part", ""); part == "" || part == "plan" {
		runPlans(c, hx.NewRng(c.Seed^0x706c616e), nPlans)
		if part == "plan" {
			return nil
		}
	}
	// the compaction paths on the same input files
	nPaths := 3
	if thorough {
		nPaths = 25
	}
	if part := c.Arg("part", ""); part == "" || part == "paths" {
		rp := hx.NewRng(c.Seed ^ 0x7061746873)
		for i := 0; i < nPaths; i++ {
			if err := runPaths(c, rp.Fork(), i); err != nil {
				return err
			}
		}
		if part == "paths" {
			return nil
		}
	}
	// column-store level compaction under crash images (known finding colstore_compaction_publishes_before_log)
	nCS := 2
	if thorough {
		nCS = 12
	}
	if part := c.Arg("part", ""); part == "colstore" || (part == "" && c.Arg("colstore", "on") != "off") {
		rcs := hx.NewRng(c.Seed ^ 0x636f6c73)
		for i := 0; i < nCS; i++ {
			if err := runColStore(c, rcs.Fork(), i, workers); err != nil {
				return err
			}
		}
		if part == "colstore" {
			return nil
		}
	}
	// the per-column statistics the writers store: audit against the rows
	nStats := 3
	if thorough {
		nStats = 24
	}
	if part := c.Arg("part", ""); part == "" || part == "stats" {
		rst := hx.NewRng(c.Seed ^ 0x7374617473)
		for i := 0; i < nStats; i++ {
			if err := runStatsHistory(c, rst.Fork(), i, thorough); err != nil {
				return err
			}
		}
		if part == "stats" {
			return nil
		}
	}
	// the metadata the read path prunes with: audit and bounded reads
	nMeta := 2
	if thorough {
		nMeta = 24
	}
	if part := c.Arg("part", ""); part == "" || part == "meta" {
		rmeta := hx.NewRng(c.Seed ^ 0x6d657461)
		for i := 0; i < nMeta; i++ {
			if err := runMetaHistory(c, rmeta.Fork(), i, thorough); err != nil {
				return err
			}
		}
		if part == "meta" {
			return nil
		}
	}
	rm := hx.NewRng(c.Seed ^ 0x6d756c7469)
	for i := 0; i < nMulti; i++ {
		if err := runMultiHistory(c, rm.Fork(), i, workers, thorough); err != nil {
			return err
		}
	}
	if c.Arg("part", "") == "multi" {
		return nil
	}
	for i := 0; i < n; i++ {
		if err := runHistory(c, r.Fork(), i, workers, thorough); err != nil {
			return err
		}
	}
	return nil
}
