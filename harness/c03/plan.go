package c03

// The level-compaction planner against its model (OG.C03.Plan): random ordered file lists given
// by (level, sequence, extent) - runs of one level, other levels in between, outputs split into
// several parts (same sequence, extents 0..k) - are handed to the real planner through the hook
// immutable.VerifMmsPlan; the model answers the same `plan` line. The property is checked here
// directly as well: every plan is a contiguous block of the list, of the planned level, with
// pairwise distinct sequences and at least minN files; plans do not overlap; the output of a
// plan, named after the sequence of its first file, sorts strictly after every file before the
// block and strictly before every file after it (so replacing the block by its output moves no
// other file across the merged data).

import (
	"fmt"
	"strings"

	"github.com/openGemini/openGemini/engine/immutable"

	"verif/harness/internal/hx"
)

func genPlanFiles(r *hx.Rng) []immutable.VerifPlanFile {
	n := r.Intn(14)
	if r.Chance(15) {
		n = 14 + r.Intn(20)
	}
	var out []immutable.VerifPlanFile
	seq := uint64(1 + r.Intn(3))
	lv := uint16(r.Intn(3))
	for len(out) < n {
		if r.Chance(22) {
			lv = uint16(r.Intn(3))
		}
		parts := 1
		if r.Chance(18) {
			parts = 2 + r.Intn(2)
		}
		for e := 0; e < parts; e++ {
			l := lv
			if parts > 1 && r.Chance(4) {
				l = uint16(r.Intn(3)) // a part of another level than its siblings (not what compaction writes)
			}
			out = append(out, immutable.VerifPlanFile{Level: l, Seq: seq, Ext: uint16(e)})
		}
		seq += uint64(1 + r.Intn(3))
	}
	return out
}

// runFullPlans: what a measurement contributes to a full-compaction plan (fullCompacted, the
// group builder in low-level and in normal mode) against OG.C03.FullPlan; the property checked
// here: every group is a contiguous block; in low-level mode its files are below the level and
// its neighbours are not; the output of a group sorts strictly between its neighbours.
func runFullPlans(c *hx.Ctx, r *hx.Rng, n int) {
	for i := 0; i < n; i++ {
		fs := genPlanFiles(r)
		if r.Chance(10) && len(fs) > 0 { // a fully compacted measurement: the parts of one output
			f0 := fs[0]
			fs = fs[:0]
			for e := 0; e < 1+r.Intn(3); e++ {
				fs = append(fs, immutable.VerifPlanFile{Level: f0.Level, Seq: f0.Seq, Ext: uint16(e)})
			}
		}
		to := uint16([]int{0, 0, 1, 2, 3}[r.Intn(5)])
		parquet := uint16([]int{0, 0, 0, 1, 2}[r.Intn(5)])
		var toks []string
		for _, f := range fs {
			toks = append(toks, fmt.Sprintf("%d:%d:%d", f.Level, f.Seq, f.Ext))
		}
		var groups [][]int
		var lvs []uint16
		var skipped, refused bool
		perr := hx.Safe(func() { groups, lvs, skipped, refused = immutable.VerifFullPlan(fs, to, parquet) })
		ans := ""
		switch {
		case perr != "":
			ans = "err " + strings.SplitN(perr, "\n", 2)[0]
		case skipped:
			ans = "skipped"
		case refused:
			ans = "refused"
		default:
			var ps []string
			for gi, g := range groups {
				var is []string
				for _, x := range g {
					is = append(is, fmt.Sprint(x))
				}
				ps = append(ps, strings.Join(is, ",")+"@"+fmt.Sprint(lvs[gi]))
			}
			ans = "groups " + strings.Join(ps, ";")
		}
		line := c.Emit(fmt.Sprintf("fullplan to=%d parquet=%d files=%s", to, parquet, strings.Join(toks, ",")), ans)
		consistent := true
		for j := 1; j < len(fs); j++ {
			if fs[j].Seq == fs[j-1].Seq && fs[j].Level != fs[j-1].Level {
				consistent = false
			}
		}
		var bad []string
		if perr != "" {
			bad = append(bad, "builder panicked: "+perr)
		}
		prevEnd := -1
		for _, g := range groups {
			if len(g) == 0 {
				bad = append(bad, "empty group")
				continue
			}
			for k, x := range g {
				if k > 0 && x != g[k-1]+1 {
					bad = append(bad, fmt.Sprintf("group %v is not a contiguous block", g))
				}
				if to > 0 && fs[x].Level >= to {
					bad = append(bad, fmt.Sprintf("group %v holds a file of level %d, not below %d", g, fs[x].Level, to))
				}
			}
			if g[0] <= prevEnd {
				bad = append(bad, fmt.Sprintf("group %v overlaps the group before it", g))
			}
			prevEnd = g[len(g)-1]
			if consistent {
				if a := g[0] - 1; a >= 0 && fs[a].Seq >= fs[g[0]].Seq {
					bad = append(bad, fmt.Sprintf("the output of group %v does not sort after the file before it", g))
				}
				if b := g[len(g)-1] + 1; b < len(fs) && fs[b].Seq <= fs[g[0]].Seq {
					bad = append(bad, fmt.Sprintf("the output of group %v does not sort before the file after it", g))
				}
			}
		}
		c.Count("fullplan:" + strings.SplitN(ans, " ", 2)[0])
		c.Case(fmt.Sprintf("fullplan|%d|%d|%s", to, parquet, strings.Join(toks, ",")), len(groups) > 0)
		if len(bad) > 0 {
			c.Violation(line, "", fmt.Sprintf("full plan to=%d parquet=%d files=%v: %s", to, parquet, toks, strings.Join(bad, "; ")))
		}
	}
}

func runPlans(c *hx.Ctx, r *hx.Rng, n int) {
	runFullPlans(c, r.Fork(), n/3)
	for i := 0; i < n; i++ {
		fs := genPlanFiles(r)
		level := uint16(r.Intn(3))
		if len(fs) > 0 && r.Chance(75) {
			level = fs[r.Intn(len(fs))].Level
		}
		minN := []int{2, 2, 3, 4, 8, 1}[r.Intn(6)]
		var toks []string
		for _, f := range fs {
			toks = append(toks, fmt.Sprintf("%d:%d:%d", f.Level, f.Seq, f.Ext))
		}
		var plans [][]int
		perr := hx.Safe(func() { plans = immutable.VerifMmsPlan(fs, level, minN) })
		var ps []string
		for _, g := range plans {
			var is []string
			for _, x := range g {
				is = append(is, fmt.Sprint(x))
			}
			ps = append(ps, strings.Join(is, ","))
		}
		ans := "plans " + strings.Join(ps, ";")
		if perr != "" {
			ans = "err " + strings.SplitN(perr, "\n", 2)[0]
		}
		line := c.Emit(fmt.Sprintf("plan level=%d min=%d files=%s", level, minN, strings.Join(toks, ",")), ans)
		// ---- the property
		consistent := true // parts of one sequence share their level (what compaction writes)
		for j := 1; j < len(fs); j++ {
			if fs[j].Seq == fs[j-1].Seq && fs[j].Level != fs[j-1].Level {
				consistent = false
			}
		}
		var bad []string
		if perr != "" {
			bad = append(bad, "planner panicked: "+perr)
		}
		prevEnd := -1
		for _, g := range plans {
			if len(g) < minN || len(g) == 0 {
				bad = append(bad, fmt.Sprintf("plan %v has fewer than %d files", g, minN))
				continue
			}
			seqs := map[uint64]bool{}
			for k, x := range g {
				if k > 0 && x != g[k-1]+1 {
					bad = append(bad, fmt.Sprintf("plan %v is not a contiguous block", g))
				}
				if fs[x].Level != level {
					bad = append(bad, fmt.Sprintf("plan %v holds a file of level %d", g, fs[x].Level))
				}
				if seqs[fs[x].Seq] {
					bad = append(bad, fmt.Sprintf("plan %v holds sequence %d twice", g, fs[x].Seq))
				}
				seqs[fs[x].Seq] = true
			}
			if g[0] <= prevEnd {
				bad = append(bad, fmt.Sprintf("plan %v overlaps the plan before it", g))
			}
			prevEnd = g[len(g)-1]
			if consistent {
				if a := g[0] - 1; a >= 0 && fs[a].Seq >= fs[g[0]].Seq {
					bad = append(bad, fmt.Sprintf("the output of plan %v (sequence %d) does not sort after the file before the block (sequence %d)", g, fs[g[0]].Seq, fs[a].Seq))
				}
				if b := g[len(g)-1] + 1; b < len(fs) && fs[b].Seq <= fs[g[0]].Seq {
					bad = append(bad, fmt.Sprintf("the output of plan %v (sequence %d) does not sort before the file after the block (sequence %d)", g, fs[g[0]].Seq, fs[b].Seq))
				}
			}
		}
		split := false
		for j := 1; j < len(fs); j++ {
			if fs[j].Seq == fs[j-1].Seq {
				split = true
			}
		}
		c.Count(fmt.Sprintf("plan:groups=%d", min(len(plans), 3)))
		if split {
			c.Count("plan:with-split-output")
		}
		if !consistent {
			c.Count("plan:parts-of-different-level")
		}
		c.Case(fmt.Sprintf("plan|%d|%d|%s", level, minN, strings.Join(toks, ",")), len(plans) > 0 || split)
		if len(bad) > 0 {
			c.Violation(line, "", fmt.Sprintf("planner level=%d min=%d files=%v: %s", level, minN, toks, strings.Join(bad, "; ")))
		}
	}
}
