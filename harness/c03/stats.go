package c03

// The per-column statistics a writer stores in a chunk meta (the "pre-aggregation" record:
// count, sum, min and max with the times at which they occur; count only for strings; the row
// count for the time column), audited against the rows of the chunk after every reorganisation.
// Aggregates are answered from these records without reading the rows, so a compaction that
// rebuilds them wrongly changes answers although every row is intact.
//
// A compaction either merges the records of its input chunks or recomputes the record from the
// rows; streaming compaction recomputes when the segments of a series, summed over the input
// files, exceed the segment limit of a chunk (the series is then split over several output
// files): the caller (StreamIterators.compact) and the four merge*PreAgg functions must take the
// same decision (model: OG.C03.PreAgg, conditions regenerated). runStatsHistory builds series
// whose segment counts over the compaction group are limit-1, limit, limit+1 and more.

import (
	"fmt"
	"math"
	"os"
	"strings"

	"github.com/openGemini/openGemini/engine"
	"github.com/openGemini/openGemini/engine/immutable"
	"github.com/openGemini/openGemini/lib/util"
	"github.com/openGemini/openGemini/lib/util/lifted/vm/protoparser/influx"

	"verif/harness/engx"
	"verif/harness/internal/hx"
)

// auditStats recomputes every stored statistics record of every chunk of every file of a
// measurement from the chunk's rows.
func auditStats(sh *engine.VerifShard, m string) (bad []string, nRecords int, err error) {
	layout, err := sh.Layout(m)
	if err != nil {
		return nil, 0, err
	}
	for _, f := range layout {
		for _, ch := range f.Chunks {
			say := func(format string, a ...interface{}) {
				bad = append(bad, fmt.Sprintf("file %s series %d: ", f.Name, ch.Sid)+fmt.Sprintf(format, a...))
			}
			var rows []engine.VerifRow
			for _, seg := range ch.Segments {
				rows = append(rows, seg...)
			}
			for _, st := range ch.Stats {
				nRecords++
				if st.Name == "time" {
					if st.Count != int64(len(rows)) {
						say("the time column's record counts %d rows, the chunk holds %d", st.Count, len(rows))
					}
					continue
				}
				ci := -1
				for i, c := range ch.Columns {
					if c.Name == st.Name {
						ci = i
					}
				}
				if ci < 0 {
					say("a statistics record for column %s, which the chunk does not list", st.Name)
					continue
				}
				type pt struct {
					t int64
					v interface{}
				}
				var pts []pt
				for _, r := range rows {
					if r.Vals[ci] != nil {
						pts = append(pts, pt{r.Time, r.Vals[ci]})
					}
				}
				if st.Count != int64(len(pts)) {
					say("column %s: stored count %d, the rows hold %d values", st.Name, st.Count, len(pts))
					continue
				}
				if len(pts) == 0 || st.Type == influx.Field_Type_String {
					continue
				}
				less := func(a, b interface{}) bool {
					switch x := a.(type) {
					case int64:
						return x < b.(int64)
					case float64:
						return x < b.(float64)
					case bool:
						return !x && b.(bool)
					}
					return false
				}
				mn, mx := pts[0].v, pts[0].v
				var isum int64
				var fsum float64
				for _, p := range pts {
					if less(p.v, mn) {
						mn = p.v
					}
					if less(mx, p.v) {
						mx = p.v
					}
					switch x := p.v.(type) {
					case int64:
						isum += x
					case float64:
						fsum += x
					}
				}
				at := func(v interface{}, t int64) bool {
					for _, p := range pts {
						if p.v == v && p.t == t {
							return true
						}
					}
					return false
				}
				switch st.Type {
				case influx.Field_Type_Int:
					if s, ok := st.Sum.(int64); !ok || s != isum {
						say("column %s: stored sum %v, the rows sum to %d", st.Name, st.Sum, isum)
					}
				case influx.Field_Type_Float:
					if s, ok := st.Sum.(float64); !ok || math.Abs(s-fsum) > 1e-9*(1+math.Abs(fsum)) {
						say("column %s: stored sum %v, the rows sum to %v", st.Name, st.Sum, fsum)
					}
				}
				if st.Min != mn || !at(mn, st.MinT) {
					say("column %s: stored min %v at %d, the rows have min %v (not at that time)", st.Name, st.Min, tIdx(st.MinT), mn)
				}
				if st.Max != mx || !at(mx, st.MaxT) {
					say("column %s: stored max %v at %d, the rows have max %v (not at that time)", st.Name, st.Max, tIdx(st.MaxT), mx)
				}
			}
		}
	}
	return bad, nRecords, nil
}

// checkStats runs the audit and reports.
func checkStats(c *hx.Ctx, sh *engine.VerifShard, m string, what string) {
	bad, n, err := auditStats(sh, m)
	c.Stats.Hist["stats:records-audited"] += n
	if err != nil {
		line := c.Emit("open 0", "ok")
		c.Violation(line, "", fmt.Sprintf("%s: reading the chunk statistics failed: %v", what, err))
		return
	}
	if len(bad) > 0 {
		line := c.Emit("open 0", "ok")
		k := len(bad)
		if k > 4 {
			bad = bad[:4]
		}
		c.Violation(line, "", fmt.Sprintf("%s: stored column statistics of measurement %s differ from the rows (%d findings): %s", what, m, k, strings.Join(bad, "; ")))
	}
}

// runStatsHistory: a small segment limit per chunk and few rows per segment; per series the
// segments summed over the files of the first compaction group are limit-1, limit, limit+1 or
// few; level compaction (streaming / non-streaming alternating), full compaction; statistics
// audit, metadata audit and bounded reads after every step.
func runStatsHistory(c *hx.Ctx, r *hx.Rng, idx int, thorough bool) error {
	root := scratchDir("c03stats")
	defer os.RemoveAll(root)
	const segRows = 8
	limit := 4 + r.Intn(5)
	group := 2 + r.Intn(2)
	flag := []int32{util.StreamingCompact, util.NonStreamingCompact}[idx%2]
	if idx%4 == 3 {
		flag = util.StreamingCompact
	}
	k := knobs{minGroup0: group, minGroup1: 2, mergeFlag: flag, streamModeLevel: 2, maxSelfLevel: 0, levelMergeNum: 8, maxUnorderedNum: 64, segRows: segRows}
	applyKnobs(k)
	immutable.SetMaxSegmentLimit4TsStore(limit)
	defer func() {
		resetKnobs()
		immutable.SetMaxSegmentLimit4TsStore(math.MaxUint16)
	}()
	sh, err := engine.VerifOpenShard(root, 1)
	if err != nil {
		return err
	}
	sh.DetachFromCompactor()
	c.Emit(fmt.Sprintf("open %d", 500000+idx), "ok")
	spec := lww{}
	seen := map[string]bool{}
	nS := 4 + r.Intn(3)
	// segments of series s in file g of the group
	// Series over the limit (limit+1, limit+2: the series is split over several output files) are
	// only generated with -D overlimit=1: on the unchanged tree the streaming compactor then
	// panics in a compaction goroutine (compactColumn: index out of range on chunkItrs, finding
	// stream_compaction_panics_over_segment_limit) and takes the process with it.
	targets := []int{limit, limit - 1, 2, limit, limit - 2}
	if c.Arg("overlimit", "") != "" {
		targets = []int{limit, limit - 1, limit + 1, 2, limit, limit + 2}
	}
	parts := make([][]int, nS)
	for s := 0; s < nS; s++ {
		total := targets[s%len(targets)]
		if total < group {
			total = group
		}
		p := make([]int, group)
		for g := range p {
			p[g] = 1
		}
		for x := total - group; x > 0; x-- {
			g := r.Intn(group)
			if p[g] < limit {
				p[g]++
			} else {
				p[(g+1)%group]++
			}
		}
		parts[s] = p
	}
	what := func(st string) string {
		return fmt.Sprintf("stats-history %d (segment limit %d per chunk, %d rows per segment, group of %d files, segments per series over the group %v, %s) %s", idx, limit, segRows, group, func() []int {
			var t []int
			for _, p := range parts {
				n := 0
				for _, x := range p {
					n += x
				}
				t = append(t, n)
			}
			return t
		}(), k.String(), st)
	}
	tBase := 10
	for g := 0; g < group; g++ {
		span := 0
		for s := 0; s < nS; s++ {
			n := parts[s][g]*segRows - r.Intn(segRows)
			if n > span {
				span = n
			}
			var rows []engx.Row
			for i := 0; i < n; i++ {
				row := engx.Row{Mst: mst, Series: s, T: tBase + i, Fields: map[string]string{}}
				for _, f := range engx.FieldNames {
					if r.Chance(80) {
						row.Fields[f] = genVal(r, f)
					}
				}
				if len(row.Fields) == 0 {
					row.Fields["fi"] = genVal(r, "fi")
				}
				rows = append(rows, row)
			}
			var werr error
			if perr := hx.Safe(func() { werr = sh.Write(engx.ToInflux(rows)) }); perr != "" || werr != nil {
				return fmt.Errorf("write failed: %s %v", perr, werr)
			}
			spec.apply(rows)
		}
		tBase += span + 1
		if perr := hx.Safe(func() { sh.Flush() }); perr != "" {
			return fmt.Errorf("flush failed: %s", perr)
		}
	}
	sh.FlushIndex()
	maxR := 12
	if thorough {
		maxR = 60
	}
	w := "builder"
	if flag == util.StreamingCompact {
		w = "stream"
	}
	if os.Getenv("C03_DEBUG") != "" {
		fmt.Fprintln(os.Stderr, "C03_DEBUG", what("parts"), parts)
	}
	checkStats(c, sh, mst, what("after the flushes"))
	checkMeta(c, sh, mst, spec, r, what("after the flushes"), seen, "builder", maxR)
	for _, st := range []struct {
		name string
		f    func() error
	}{
		{"level 0 compaction", func() error { return sh.LevelCompact(0) }},
		{"full compaction", func() error { return sh.FullCompact() }},
	} {
		var oerr error
		if perr := hx.Safe(func() { oerr = st.f() }); perr != "" || oerr != nil {
			return fmt.Errorf("%s failed: %s %v", st.name, perr, oerr)
		}
		sh.FlushIndex()
		checkStats(c, sh, mst, what("after "+st.name))
		if os.Getenv("C03_DEBUG") != "" {
			lay, _ := sh.Layout(mst)
			for _, f := range lay {
				var segs []int
				for _, ch := range f.Chunks {
					segs = append(segs, len(ch.Segments))
				}
				fmt.Fprintln(os.Stderr, "C03_DEBUG", what("after "+st.name), f.Name, segs)
			}
		}
		checkMeta(c, sh, mst, spec, r, what("after "+st.name), seen, w, maxR)
		rows, derr := sh.Dump(mst, engx.AllFields(), math.MinInt64, math.MaxInt64, true)
		if got := engx.DumpText(rows); derr != nil || got != spec.read() {
			line := c.Emit("open 0", "ok")
			c.Violation(line, "", fmt.Sprintf("%s: dump %q (%v), last-write-wins map %q", what("after "+st.name), got, derr, spec.read()))
		}
	}
	c.Count("stats-histories")
	if perr := hx.Safe(func() { sh.Close() }); perr != "" {
		return fmt.Errorf("close failed: %s", perr)
	}
	return nil
}
