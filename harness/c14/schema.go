package c14

// The `c` stream: what a prune of shard groups does to the schema of a measurement
// (SchemaCleanEn, the default).  The real meta.Data: CreateShardGroup, UpdateSchema (the command
// a write sends when a field is new or is written into a newer shard group: EndTime = high 32 bits
// of the group's end), DeleteShardGroup + PruneGroups(true, shard) → pruneShardGroups →
// SchemaClean → MarkMeasurementDelete.  viol.out: a field cleaned although it was written into a
// shard group that ends later than the pruned one; a measurement marked deleted although one of
// its fields was.  No wall clock is involved.

import (
	"fmt"
	"sort"
	"strings"
	"time"

	"github.com/openGemini/openGemini/lib/config"
	"github.com/openGemini/openGemini/lib/util"
	"github.com/openGemini/openGemini/lib/util/lifted/influx/meta"
	proto2 "github.com/openGemini/openGemini/lib/util/lifted/influx/meta/proto"
	"github.com/openGemini/openGemini/lib/util/lifted/protobuf/proto"

	"verif/harness/internal/hx"
)

// theMst: the measurement, also once it is marked deleted (Data.Measurement hides it then).
func theMst(data *meta.Data) *meta.MeasurementInfo {
	rp, err := data.RetentionPolicy(dbName, rpName)
	if err != nil || rp == nil {
		return nil
	}
	return rp.Measurement("m")
}

func schemaDump(data *meta.Data) string {
	m := theMst(data)
	if m == nil {
		return "schema [] marked ?"
	}
	var fs []string
	if m.Schema != nil {
		for k, v := range *m.Schema {
			fs = append(fs, fmt.Sprintf("%s:%d", strings.TrimPrefix(k, "f"), v.EndTime))
		}
	}
	sort.Slice(fs, func(i, j int) bool {
		var a, b int
		fmt.Sscanf(fs[i], "%d:", &a)
		fmt.Sscanf(fs[j], "%d:", &b)
		return a < b
	})
	return fmt.Sprintf("schema [%s] marked %s", strings.Join(fs, ","), bit(m.MarkDeleted))
}

func runC(c *hx.Ctx, r *hx.Rng, n int) error {
	was := meta.SchemaCleanEn
	meta.InitSchemaCleanEn(true)
	defer meta.InitSchemaCleanEn(was)
	const t0 = int64(1654683000) * sec
	for k := 0; k < n; k++ {
		cr := r.Fork()
		G := []int64{hour, 2 * hour, 24 * hour}[cr.Intn(3)]
		data, rp, err := newAlignData(G, G)
		key := fmt.Sprintf("c new %d", G)
		if err != nil {
			c.Emit(key, "err "+err.Error())
			continue
		}
		c.Emit(key, "ok | "+schemaDump(data))
		hist := key
		type grp struct {
			gid  uint64
			end  int64
			sids []uint64
			live bool
		}
		var groups []grp
		writes := map[int][]int64{} // field -> ends of the groups it was written to
		// three to five consecutive groups
		ng := 3 + cr.Intn(3)
		for i := 0; i < ng; i++ {
			ts := t0 + int64(i)*G
			op := fmt.Sprintf("c sg %d", ts)
			hist += " ;; " + op
			ans := ""
			if perr := hx.Safe(func() {
				before := map[uint64]bool{}
				for j := range rp.ShardGroups {
					before[rp.ShardGroups[j].ID] = true
				}
				if err := data.CreateShardGroup(dbName, rpName, time.Unix(0, ts).UTC(), util.Hot, config.TSSTORE, 0); err != nil {
					ans = "err " + err.Error()
					return
				}
				for j := range rp.ShardGroups {
					if g := &rp.ShardGroups[j]; !before[g.ID] {
						ng := grp{gid: g.ID, end: g.EndTime.UnixNano(), live: true}
						for _, s := range g.Shards {
							ng.sids = append(ng.sids, s.ID)
						}
						groups = append(groups, ng)
						ans = fmt.Sprintf("end %d", ng.end)
					}
				}
			}); perr != "" {
				ans = "err " + perr
			}
			c.Emit(op, ans+" | "+schemaDump(data))
		}
		nontrivial := false
		nops := 4 + cr.Intn(10)
		for i := 0; i < nops && len(groups) > 0; i++ {
			if m := theMst(data); m == nil || m.MarkDeleted {
				break
			}
			if cr.Chance(65) {
				f := 1 + cr.Intn(4)
				gi := cr.Intn(len(groups))
				if !groups[gi].live {
					continue
				}
				op := fmt.Sprintf("c w %d %d", f, groups[gi].end)
				hist += " ;; " + op
				ans := "ok"
				if perr := hx.Safe(func() {
					fs := []*proto2.FieldSchema{{FieldName: proto.String(fmt.Sprintf("f%d", f)), FieldType: proto.Int32(1), EndTime: proto.Int32(meta.TimeReserveHigh32(groups[gi].end))}}
					if err := data.UpdateSchema(dbName, rpName, "m", fs); err != nil {
						ans = "err " + err.Error()
					}
				}); perr != "" {
					ans = "err " + perr
				}
				writes[f] = append(writes[f], groups[gi].end)
				c.Emit(op, ans+" | "+schemaDump(data))
				continue
			}
			// retention removes the oldest live group (mark, then prune every shard of it)
			gi := -1
			for j := range groups {
				if groups[j].live {
					gi = j
					break
				}
			}
			if gi < 0 {
				break
			}
			g := &groups[gi]
			op := fmt.Sprintf("c prune %d", g.end)
			hist += " ;; " + op
			ans := "ok"
			var viol [][2]string
			if perr := hx.Safe(func() {
				if err := data.DeleteShardGroup(dbName, rpName, g.gid, 0, meta.MarkDelete); err != nil {
					ans = "err " + err.Error()
					return
				}
				for _, sid := range g.sids {
					if err := data.PruneGroups(true, sid); err != nil {
						ans = "err " + err.Error()
						return
					}
				}
				g.live = false
				mm := theMst(data)
				if mm == nil || mm.Schema == nil {
					ans = "err measurement or schema missing"
					return
				}
				for f, ends := range writes {
					newer := false
					for _, e := range ends {
						if e > g.end {
							newer = true
						}
					}
					_, still := (*mm.Schema)[fmt.Sprintf("f%d", f)]
					if newer && !still {
						viol = append(viol, [2]string{"schema-field-cleaned-with-newer-data", fmt.Sprintf("field f%d was written into a shard group that ends after the pruned one (%d) but left the schema ;; history: %s", f, g.end, hist)})
					}
					if newer && mm.MarkDeleted {
						viol = append(viol, [2]string{"measurement-marked-deleted-with-newer-data", fmt.Sprintf("measurement marked deleted although field f%d was written into a shard group that ends after the pruned one (%d) ;; history: %s", f, g.end, hist)})
					}
				}
				if len(*mm.Schema) > 0 && len(writes) > len(*mm.Schema) {
					nontrivial = true
				}
			}); perr != "" {
				ans = "err " + perr
			}
			line := c.Emit(op, ans+" | "+schemaDump(data))
			for _, v := range viol {
				c.Violation(line, v[0], v[1])
			}
		}
		c.Case(hist, nontrivial)
		c.Count("c.case")
		if k < 1 {
			c.Sample(hist)
		}
	}
	return nil
}
