package c14

// The `g` stream: how the catalogue assigns shard groups to index groups.
//
// The real meta.Data: CreateRetentionPolicy (durations normalised by CheckSpecValid),
// CreateShardGroup(timestamp) for timestamps around group boundaries, UpdateRetentionPolicy
// (ALTER RETENTION POLICY ... SHARD DURATION / INDEX DURATION) in between.  impl.out: the shard
// group made for the timestamp and the index group its shards were given.  viol.out: a shard
// group that ends after its index group (the alignment the index-side theorems assume), a group
// that does not contain the timestamp it was made for.  No wall clock is involved.

import (
	"fmt"
	"strconv"
	"time"

	"github.com/openGemini/openGemini/lib/config"
	"github.com/openGemini/openGemini/lib/util"
	"github.com/openGemini/openGemini/lib/util/lifted/influx/influxql"
	"github.com/openGemini/openGemini/lib/util/lifted/influx/meta"
	proto2 "github.com/openGemini/openGemini/lib/util/lifted/influx/meta/proto"
	"github.com/openGemini/openGemini/lib/util/lifted/protobuf/proto"

	"verif/harness/internal/hx"
)

func newAlignData(sgd, igd int64) (*meta.Data, *meta.RetentionPolicyInfo, error) {
	data := &meta.Data{PtNumPerNode: 1}
	if _, err := data.CreateDataNode("127.0.0.1:8086", "127.0.0.1:8188", "", ""); err != nil {
		return nil, nil, err
	}
	if err := data.CreateDatabase(dbName, nil, nil, false, 1, nil); err != nil {
		return nil, nil, err
	}
	if _, err := data.CreateDBPtView(dbName); err != nil {
		return nil, nil, err
	}
	rpi := &meta.RetentionPolicyInfo{Name: rpName, ReplicaN: 1, ShardGroupDuration: time.Duration(sgd), IndexGroupDuration: time.Duration(igd)}
	if err := data.CreateRetentionPolicy(dbName, rpi, true); err != nil {
		return nil, nil, err
	}
	if err := data.CreateMeasurement(dbName, rpName, "m", &proto2.ShardKeyInfo{ShardKey: []string{"h"}, Type: proto.String(influxql.HASH)}, 0, nil, 0, nil, nil, nil); err != nil {
		return nil, nil, err
	}
	rp, err := data.RetentionPolicy(dbName, rpName)
	return data, rp, err
}

func runG(c *hx.Ctx, r *hx.Rng, n int) error {
	sgds := []int64{hour, 2 * hour, 3 * hour, 6 * hour, 12 * hour, 24 * hour, 168 * hour}
	const t0 = int64(1654683000) * sec // 2022-06-08T10:10:00Z
	for k := 0; k < n; k++ {
		cr := r.Fork()
		sgd := sgds[cr.Intn(len(sgds))]
		pickIgd := func(s int64) int64 {
			return []int64{0, s, 2 * s, 3 * s, 5 * hour, 7 * hour, 24 * hour, 48 * hour, 168 * hour, 1000 * hour, s + 1}[cr.Intn(11)]
		}
		igd := pickIgd(sgd)
		var data *meta.Data
		var rp *meta.RetentionPolicyInfo
		var ans string
		if perr := hx.Safe(func() {
			var err error
			data, rp, err = newAlignData(sgd, igd)
			if err != nil {
				ans = "err " + err.Error()
				return
			}
			ans = fmt.Sprintf("ok %d %d", int64(rp.ShardGroupDuration), int64(rp.IndexGroupDuration))
		}); perr != "" {
			ans = "err " + perr
		}
		key := fmt.Sprintf("g new %d %d", sgd, igd)
		c.Emit(key, ans)
		if data == nil {
			c.Case(key, false)
			continue
		}
		hist := key
		altered, misaligned := false, false
		var stamps []int64
		nops := 3 + cr.Intn(8)
		for i := 0; i < nops; i++ {
			if cr.Chance(22) {
				var c2 rpCmd
				ss, is, ds := "-", "-", "-"
				if cr.Chance(75) {
					v := sgds[cr.Intn(len(sgds))]
					c2.sgd, ss = i64(v), strconv.FormatInt(v, 10)
				}
				if c2.sgd == nil || cr.Chance(30) {
					v := pickIgd(int64(rp.ShardGroupDuration))
					c2.igd, is = i64(v), strconv.FormatInt(v, 10)
				}
				if cr.Chance(50) {
					// the policy duration: unlimited, below the minimum, below / above the shard group duration
					v := []int64{0, 0, 30 * 60 * sec, hour, 2 * hour, int64(rp.ShardGroupDuration) - 1, int64(rp.ShardGroupDuration), 30 * 24 * hour, 99999 * 24 * hour}[cr.Intn(9)]
					c2.dur, ds = i64(v), strconv.FormatInt(v, 10)
				}
				// fields that are 0 in this policy, sent as 0 or left out: two different commands, one result
				if cr.Chance(30) {
					c2.hot = i64(0)
				}
				if cr.Chance(30) {
					c2.warm = i64(0)
				}
				if cr.Chance(30) {
					c2.cold = i64(0)
				}
				c2.makeDefault = cr.Bool()
				op := fmt.Sprintf("g alter %s %s %s", ss, is, ds)
				hist += " ;; " + op
				var viol [][2]string
				if perr := hx.Safe(func() {
					if err := applyAlterCmd(data, dbName, rpName, c2); err != nil {
						ans = "err"
						return
					}
					ans = fmt.Sprintf("ok %d %d %d", int64(rp.ShardGroupDuration), int64(rp.IndexGroupDuration), int64(rp.Duration))
					if c2.dur != nil && int64(rp.Duration) != *c2.dur {
						viol = append(viol, [2]string{"alter-not-applied", fmt.Sprintf("the command carried DURATION %d and was acknowledged, the catalogue holds %d ;; history: %s", *c2.dur, int64(rp.Duration), hist)})
					}
				}); perr != "" {
					ans = "err " + perr
				}
				line := c.Emit(op, ans)
				for _, v := range viol {
					c.Violation(line, v[0], v[1])
				}
				c.Count("g.alter")
				altered = true
				continue
			}
			// a timestamp: near an earlier one, near a boundary of the current durations, or anywhere in ±10 days
			var t int64
			switch x := cr.Intn(10); {
			case x < 3 && len(stamps) > 0:
				t = stamps[cr.Intn(len(stamps))] + int64(cr.Intn(5)-2)*int64(rp.ShardGroupDuration) + int64(cr.Intn(7200)-3600)*sec
			case x < 6:
				b := t0 + int64(cr.Intn(21)-10)*24*hour
				d := int64(rp.ShardGroupDuration)
				if cr.Bool() {
					d = int64(rp.IndexGroupDuration)
				}
				t = b - b%d + []int64{0, -1, 1, d - 1, d, d / 2}[cr.Intn(6)]
			default:
				t = t0 + int64(cr.Intn(20*24*3600)-10*24*3600)*sec
			}
			stamps = append(stamps, t)
			op := fmt.Sprintf("g sg %d", t)
			hist += " ;; " + op
			var viol [][2]string
			if perr := hx.Safe(func() {
				before := map[uint64]bool{}
				for i := range rp.ShardGroups {
					before[rp.ShardGroups[i].ID] = true
				}
				if err := data.CreateShardGroup(dbName, rpName, time.Unix(0, t).UTC(), util.Hot, config.TSSTORE, 0); err != nil {
					ans = "err " + err.Error()
					return
				}
				var sg *meta.ShardGroupInfo
				for i := range rp.ShardGroups {
					if !before[rp.ShardGroups[i].ID] {
						sg = &rp.ShardGroups[i]
					}
				}
				if sg == nil {
					ans = "exists"
					return
				}
				var ig *meta.IndexGroupInfo
				for i := range rp.IndexGroups {
					for _, x := range rp.IndexGroups[i].Indexes {
						if x.ID == sg.Shards[0].IndexID {
							ig = &rp.IndexGroups[i]
						}
					}
				}
				if ig == nil {
					ans = "err no index group holds the index of the new shards"
					return
				}
				ss, se, is, ie := sg.StartTime.UnixNano(), sg.EndTime.UnixNano(), ig.StartTime.UnixNano(), ig.EndTime.UnixNano()
				ans = fmt.Sprintf("sg %d %d ig %d %d", ss, se, is, ie)
				c.Count("g.sg.created")
				if !(ss <= t && t < se) || !(is <= t && t < ie) {
					viol = append(viol, [2]string{"group-does-not-contain-timestamp", "timestamp " + strconv.FormatInt(t, 10) + ": " + ans + " ;; history: " + hist})
				}
				if se > ie {
					misaligned = true
					cls := "shard-group-outlives-index-group"
					if !altered {
						cls = "shard-group-outlives-index-group-without-alter" // never on the unchanged tree (aligned_without_alter)
					}
					viol = append(viol, [2]string{cls, fmt.Sprintf("the shard group made for %d ends %d ns after the index group its shards were given (%s) ;; history: %s", t, se-ie, ans, hist)})
				}
			}); perr != "" {
				ans = "err " + perr
			}
			line := c.Emit(op, ans)
			for _, v := range viol {
				c.Violation(line, v[0], v[1])
			}
		}
		c.Case(hist, altered)
		c.Count("g.case")
		if misaligned {
			c.Count("g.case.misaligned")
			if !altered {
				c.Count("g.case.misaligned-without-alter")
			}
		}
		if k < 1 {
			c.Sample(hist)
		}
	}
	return nil
}
