package c14

// ALTER RETENTION POLICY through the command path: the protobuf command is built field by field as
// metaclient.(*Client).UpdateRetentionPolicy builds it (a field is in the command iff the pointer
// of the update is set: nil vs 0 vs a value are three different commands), marshalled and
// unmarshalled as it is on its way through the raft log, and applied to the catalogue by the real
// meta.ApplyUpdateRetentionPolicy (the state machine's handler).

import (
	"github.com/openGemini/openGemini/lib/util/lifted/influx/meta"
	proto2 "github.com/openGemini/openGemini/lib/util/lifted/influx/meta/proto"
	"github.com/openGemini/openGemini/lib/util/lifted/protobuf/proto"
)

type rpCmd struct {
	dur, sgd, igd, hot, warm, cold *int64
	makeDefault                    bool
}

func i64(v int64) *int64 { return &v }

func applyAlterCmd(data *meta.Data, db, rp string, c rpCmd) error {
	v := &proto2.UpdateRetentionPolicyCommand{
		Database:           proto.String(db),
		Name:               proto.String(rp),
		Duration:           c.dur,
		ShardGroupDuration: c.sgd,
		MakeDefault:        proto.Bool(c.makeDefault),
		HotDuration:        c.hot,
		WarmDuration:       c.warm,
		IndexGroupDuration: c.igd,
		IndexColdDuration:  c.cold,
	}
	typ := proto2.Command_UpdateRetentionPolicyCommand
	cmd := &proto2.Command{Type: &typ}
	if err := proto.SetExtension(cmd, proto2.E_UpdateRetentionPolicyCommand_Command, v); err != nil {
		return err
	}
	b, err := proto.Marshal(cmd)
	if err != nil {
		return err
	}
	got := &proto2.Command{}
	if err := proto.Unmarshal(b, got); err != nil {
		return err
	}
	return meta.ApplyUpdateRetentionPolicy(data, got)
}
