package c14

// The `s` stream: retention on shared storage (product mode logkeeper), decided by the catalogue.
//
// The real metaclient.Client.GetExpiredShards / GetExpiredIndexes over the real meta.Data, and
// the catalogue commands HandleSharedStorage issues for their results (Data.DeleteShardGroup with
// the client-side deletedAt, PruneGroups(true, shard), DeleteIndexGroup, PruneGroups(false, index));
// RevertRetentionPolicyDelete as its loop of CancelDelete commands.  The object store itself is
// not driven (no network here): the loop of HandleSharedStorage / RevertRetentionPolicyDelete is
// replayed by the harness and tied to the source by facts.  The clock ticks by moving every time
// of the catalogue (group ranges, DeletedAt).
//
// viol.out: a group marked although end + duration (of the policy at that moment) has not passed,
// a shard removed before its group had been marked for RetentionDelayedTime, anything removed
// right after the marks were taken back; class shared-alter-in-grace-not-cancelled: a shard
// removed although the policy of that moment (unlimited, or raised) keeps it.

import (
	"fmt"
	"sort"
	"strings"
	"time"

	"github.com/openGemini/openGemini/lib/config"
	"github.com/openGemini/openGemini/lib/metaclient"
	"github.com/openGemini/openGemini/lib/obs"
	"github.com/openGemini/openGemini/lib/util/lifted/influx/meta"

	"verif/harness/internal/hx"
)

const graceNs = int64(24 * time.Hour)

type sgrp struct {
	gid    uint64
	endRel int64
	sids   []uint64
}

type sworld struct {
	data    *meta.Data
	rpi     *meta.RetentionPolicyInfo
	cl      *metaclient.Client
	t0      time.Time
	vnow    int64
	gone    []uint64
	markAt  map[uint64]int64 // gid -> virtual time of the mark
	markDur map[uint64]int64
	endOf   map[uint64]int64 // gid -> end (virtual)
	igEnd   map[uint64]int64 // index group id -> end (virtual)
	gidOf   map[uint64]uint64
}

func (w *sworld) dump() string {
	var sg []string
	for i := range w.rpi.ShardGroups {
		g := &w.rpi.ShardGroups[i]
		var ss []string
		for _, s := range g.Shards {
			ss = append(ss, fmt.Sprintf("%d.%s", s.ID, bit(s.MarkDelete)))
		}
		sg = append(sg, fmt.Sprintf("%d:%s:%s", g.ID, bit(g.Deleted()), strings.Join(ss, "+")))
	}
	var ig []uint64
	for i := range w.rpi.IndexGroups {
		ig = append(ig, w.rpi.IndexGroups[i].ID)
	}
	gone := append([]uint64(nil), w.gone...)
	sort.Slice(gone, func(i, j int) bool { return gone[i] < gone[j] })
	return fmt.Sprintf("d=%d sg=[%s] ig=[%s] gone=[%s]", int64(w.rpi.Duration), strings.Join(sg, ";"), joinU(ig), joinU(gone))
}

func (w *sworld) tick(dt int64) {
	d := -time.Duration(dt)
	w.vnow += dt
	for i := range w.rpi.ShardGroups {
		g := &w.rpi.ShardGroups[i]
		g.StartTime, g.EndTime = g.StartTime.Add(d), g.EndTime.Add(d)
		if g.Deleted() {
			g.DeletedAt = g.DeletedAt.Add(d)
		}
	}
	for i := range w.rpi.IndexGroups {
		g := &w.rpi.IndexGroups[i]
		g.StartTime, g.EndTime = g.StartTime.Add(d), g.EndTime.Add(d)
	}
}

func runS(c *hx.Ctx, r *hx.Rng, n int) error {
	for k := 0; k < n; k++ {
		seed := r.U64()
		var out []emitted
		var err error
		for try := 0; try < 25; try++ {
			out, err = playS(hx.NewRng(seed))
			if err != errTooSlow {
				break
			}
			c.Count("s.retry-wallclock")
		}
		if err != nil {
			return err
		}
		key := ""
		nt := false
		for _, e := range out {
			line := c.Emit(e.op, e.ans)
			for _, v := range e.viol {
				c.Violation(line, v[0], v[1])
			}
			key += e.op + "\n"
			nt = nt || e.nontrivial
		}
		c.Case(key, nt)
		c.Count("s.case")
		if k < 1 {
			var s []string
			for _, e := range out {
				s = append(s, e.op+" => "+e.ans)
			}
			c.Sample(strings.Join(s, " ;; "))
		}
	}
	return nil
}

func playS(r *hx.Rng) (out []emitted, err error) {
	G := []int64{hour, 24 * hour, 168 * hour}[r.Intn(3)]
	ds := []int64{G, 2 * G, 3*G + hour, 30 * 24 * hour}
	if r.Chance(15) {
		// durations near the time.Duration maximum: duration + RetentionDelayedTime does not fit an int64
		ds = append(ds, 106751*day, 99999*day, maxDurNs)
	}
	d0 := ds[r.Intn(len(ds))]
	if r.Chance(10) {
		d0 = 0
	}
	w := &sworld{igEnd: map[uint64]int64{}, markAt: map[uint64]int64{}, markDur: map[uint64]int64{}, endOf: map[uint64]int64{}, gidOf: map[uint64]uint64{}}
	w.rpi = &meta.RetentionPolicyInfo{Name: rpName, Duration: time.Duration(d0), ReplicaN: 1, ShardGroupDuration: time.Duration(G), IndexGroupDuration: time.Duration(4 * G)}
	w.data = &meta.Data{Databases: map[string]*meta.DatabaseInfo{dbName: {Name: dbName, DefaultRetentionPolicy: rpName, Options: &obs.ObsOptions{},
		RetentionPolicies: map[string]*meta.RetentionPolicyInfo{rpName: w.rpi}}},
		PtView: map[string]meta.DBPtInfos{dbName: {{PtId: 0, Owner: meta.PtOwner{NodeID: 0}, Status: meta.Online}, {PtId: 1, Owner: meta.PtOwner{NodeID: 0}, Status: meta.Online}}}}
	w.cl = metaclient.NewClient("", false, 0)
	w.cl.SetCacheData(w.data)
	w.t0 = time.Now()
	at := func(rel int64) time.Time { return w.t0.Add(time.Duration(rel)) }
	// groups: the oldest one's end + d0 sits a little ahead of now
	dl := append([]int64{G / 2}, deltas...)
	dA := d0
	if dA == 0 {
		dA = ds[r.Intn(len(ds))]
	}
	base := dl[r.Intn(len(dl))] - dA
	ng := 2 + r.Intn(3)
	var gs []sgrp
	sid := uint64(1)
	var sgTxt, igTxt []string
	ends := []int64{}
	for i := 0; i < ng; i++ {
		g := sgrp{gid: uint64(i + 1), endRel: base + int64(i)*G}
		np := 1 + r.Intn(2)
		sg := meta.ShardGroupInfo{ID: g.gid, StartTime: at(g.endRel - G), EndTime: at(g.endRel), EngineType: config.COLUMNSTORE}
		var ids []string
		for p := 0; p < np; p++ {
			sg.Shards = append(sg.Shards, meta.ShardInfo{ID: sid, Owners: []uint32{uint32(p)}, IndexID: uint64(100 + p)})
			g.sids = append(g.sids, sid)
			w.gidOf[sid] = g.gid
			ids = append(ids, fmt.Sprint(sid))
			sid++
		}
		w.endOf[g.gid] = g.endRel
		ends = append(ends, g.endRel)
		w.rpi.ShardGroups = append(w.rpi.ShardGroups, sg)
		gs = append(gs, g)
		sgTxt = append(sgTxt, fmt.Sprintf("%d:%d:%s", g.gid, g.endRel, strings.Join(ids, "+")))
	}
	igEnds := []int64{}
	for i := 0; i < 1+r.Intn(2); i++ {
		e := base + int64(i+1)*2*G + 7*sec
		ig := meta.IndexGroupInfo{ID: uint64(i + 1), StartTime: at(e - 2*G), EndTime: at(e), EngineType: config.COLUMNSTORE,
			Indexes: []meta.IndexInfo{{ID: uint64(100 + 10*i), Owners: []uint32{0}}, {ID: uint64(101 + 10*i), Owners: []uint32{1}}}}
		w.rpi.IndexGroups = append(w.rpi.IndexGroups, ig)
		igEnds = append(igEnds, e)
		w.igEnd[ig.ID] = e
		igTxt = append(igTxt, fmt.Sprintf("%d:%d:%d+%d", ig.ID, e, 100+10*i, 101+10*i))
	}
	newLine := fmt.Sprintf("s new %d %s %s", d0, strings.Join(sgTxt, ";"), strings.Join(igTxt, ";"))
	hist := newLine
	out = append(out, emitted{op: newLine, ans: "ok | " + w.dump()})
	used := []int64{d0}
	marks := []int64{} // virtual times of checks that may have marked something
	safe := func(now int64, dsx []int64) bool {
		for _, d := range dsx {
			if d == 0 {
				continue
			}
			for _, e := range ends {
				if abs(addSat(addSat(e, d), -now)) < margin {
					return false
				}
			}
			for _, e := range igEnds {
				if abs(addSat(addSat(addSat(e, d), graceNs), -now)) < margin {
					return false
				}
			}
		}
		for _, m := range marks {
			if abs(m+graceNs-now) < margin {
				return false
			}
		}
		return true
	}
	if !safe(0, used) {
		w.rpi.Duration, d0, used = 0, 0, []int64{0}
		out[0].op = fmt.Sprintf("s new 0 %s %s", strings.Join(sgTxt, ";"), strings.Join(igTxt, ";"))
		out[0].ans = "ok | " + w.dump()
		hist = out[0].op
	}
	nops := 5 + r.Intn(9)
	for i := 0; i < nops; i++ {
		var op, ans string
		var viol [][2]string
		nontrivial := false
		switch x := r.Intn(100); {
		case x < 30:
			cands := []int64{hour, G / 2, G, 2 * G, 23 * hour, 25 * hour, 49 * hour, graceNs - 3*sec, graceNs + 3*sec}
			dt := cands[r.Intn(len(cands))]
			if r.Chance(8) {
				dt = -dt
			}
			if !safe(w.vnow+dt, used) {
				continue
			}
			w.tick(dt)
			op, ans = fmt.Sprintf("s tick %d", dt), "ok"
		case x < 45:
			var d int64
			switch y := r.Intn(10); {
			case y < 3:
				d = 0
			case y < 6:
				d = ds[r.Intn(len(ds))]
			default:
				d = w.vnow - ends[r.Intn(len(ends))] + []int64{3 * sec, -3 * sec, hour, -hour, G}[r.Intn(5)]
			}
			if d < 0 || !safe(w.vnow, []int64{d}) {
				continue
			}
			used = append(used, d)
			w.rpi.Duration = time.Duration(d)
			op, ans = fmt.Sprintf("s alter %d", d), "ok"
		case x < 52:
			// RevertRetentionPolicyDelete: CancelDelete for every marked group
			for i := range w.rpi.ShardGroups {
				if w.rpi.ShardGroups[i].Deleted() {
					if err := w.data.DeleteShardGroup(dbName, rpName, w.rpi.ShardGroups[i].ID, 0, meta.CancelDelete); err != nil {
						ans = "err " + err.Error()
					}
				}
			}
			w.markAt, w.markDur = map[uint64]int64{}, map[uint64]int64{}
			op = "s revert"
			if ans == "" {
				ans = "ok"
			}
		default:
			if !safe(w.vnow, used) {
				continue
			}
			op = "s check"
			dNow := int64(w.rpi.Duration)
			perr := hx.Safe(func() {
				t := time.Now().UTC()
				markL, delL := w.cl.GetExpiredShards()
				if time.Since(w.t0) > maxAge {
					panic(errTooSlow)
				}
				var mk, dl, ix []uint64
				sort.Slice(markL, func(i, j int) bool { return markL[i].ShardGroupId < markL[j].ShardGroupId })
				for _, m := range markL {
					mk = append(mk, m.ShardGroupId)
					if err := w.data.DeleteShardGroup(m.Database, m.Policy, m.ShardGroupId, t.UnixNano(), meta.MarkDelete); err != nil {
						panic(err)
					}
					w.markAt[m.ShardGroupId], w.markDur[m.ShardGroupId] = w.vnow, dNow
					if !(dNow != 0 && addSat(w.endOf[m.ShardGroupId], dNow) < w.vnow) {
						viol = append(viol, [2]string{"shared-marked-unexpired", fmt.Sprintf("group %d (end %+d, clock %d) marked deleted under policy duration %d ;; history: %s ;; s check", m.ShardGroupId, w.endOf[m.ShardGroupId], w.vnow, dNow, hist)})
					}
				}
				sort.Slice(delL, func(i, j int) bool { return delL[i].ShardGroupId < delL[j].ShardGroupId })
				for _, g := range delL {
					for _, sid := range g.ShardIds {
						dl = append(dl, sid)
						w.gone = append(w.gone, sid)
						if err := w.data.PruneGroups(true, sid); err != nil {
							panic(err)
						}
						ma, ok := w.markAt[g.ShardGroupId]
						if !ok || ma+graceNs > w.vnow {
							viol = append(viol, [2]string{"shared-removed-inside-grace", fmt.Sprintf("shard %d of group %d removed at clock %d, group marked at %d (known %v) ;; history: %s ;; s check", sid, g.ShardGroupId, w.vnow, ma, ok, hist)})
						}
						if !(dNow != 0 && addSat(w.endOf[g.ShardGroupId], dNow) < w.vnow) {
							viol = append(viol, [2]string{"shared-alter-in-grace-not-cancelled", fmt.Sprintf("shard %d of group %d (end %+d, clock %d) removed although the policy duration is now %d (marked under %d) ;; history: %s ;; s check", sid, g.ShardGroupId, w.endOf[g.ShardGroupId], w.vnow, dNow, w.markDur[g.ShardGroupId], hist)})
						}
					}
				}
				if len(mk) > 0 {
					marks = append(marks, w.vnow)
				}
				exI := w.cl.GetExpiredIndexes()
				sort.Slice(exI, func(i, j int) bool { return exI[i].IndexGroupID < exI[j].IndexGroupID })
				for _, g := range exI {
					ix = append(ix, g.IndexGroupID)
					if ie, ok := w.igEnd[g.IndexGroupID]; ok && !(dNow != 0 && addSat(addSat(ie, dNow), graceNs) <= w.vnow) {
						viol = append(viol, [2]string{"shared-index-removed-early", fmt.Sprintf("index group %d (end %+d, clock %d) removed under policy duration %d: end + duration + 24h has not passed ;; history: %s ;; s check", g.IndexGroupID, ie, w.vnow, dNow, hist)})
					}
					if err := w.data.DeleteIndexGroup(g.Database, g.Policy, g.IndexGroupID); err != nil {
						panic(err)
					}
					for _, id := range g.IndexIDs {
						if err := w.data.PruneGroups(false, id); err != nil {
							panic(err)
						}
					}
				}
				ans = fmt.Sprintf("mark [%s] del [%s] idx [%s]", joinU(mk), joinU(dl), joinU(ix))
				nontrivial = len(dl) > 0 && len(w.rpi.ShardGroups) > 0
			})
			if perr != "" {
				if strings.Contains(perr, errTooSlow.Error()) {
					return nil, errTooSlow
				}
				ans = "err " + perr
			}
		}
		hist += " ;; " + op
		out = append(out, emitted{op: op, ans: ans + " | " + w.dump(), viol: viol, nontrivial: nontrivial})
	}
	if time.Since(w.t0) > maxAge {
		return nil, errTooSlow
	}
	return out, nil
}
