// Package c14: correspondence harness for C14 (retention removes only data that has expired).
//
// Two streams of cases, both against the real code, in-process:
//
//   - tuples: the real EngineImpl.ExpiredShards / Shard.IsExpired over a pool of real shards
//     (created through EngineImpl.CreateShard, durations set through
//     EngineImpl.UpdateShardDurationInfo) and explicit not-loaded maps, with
//     (end, duration) placed at now ± {2 s, 3 s, 1 min, 1 h, one group} around the expiry
//     instant.  time.Now cannot be injected, so every case keeps a ≥ 2 s margin and the pool is
//     rebuilt before it is 1 s old; the op line carries times relative to the wall clock and
//     the model runs at now = 0.
//   - traces: the real retention.Service.handle() (hook VerifHandle) over the real engine
//     (through a recording wrapper that can inject delete failures / timeouts) and a meta
//     client backed by the real meta.Data (DurationInfos, DeleteShardGroup, PruneGroups,
//     ShardGroupsByTimeRange), with alterations of the policy duration before, between and in
//     the middle of runs, shards loaded / not loaded / closing, foreign shards in the group.
//
// impl.out carries the exact observable behaviour (which shards are reported, which calls the
// service makes in which order with which result, the store / catalogue state after every op);
// viol.out carries the property itself, decided by an oracle written independently in Go.
package c14

import (
	"errors"
	"flag"
	"fmt"
	"math"
	"os"
	"path/filepath"
	"sort"
	"strconv"
	"strings"
	"sync"
	"time"

	"github.com/openGemini/openGemini/engine"
	"github.com/openGemini/openGemini/lib/config"
	"github.com/openGemini/openGemini/lib/errno"
	"github.com/openGemini/openGemini/lib/logger"
	"github.com/openGemini/openGemini/lib/metaclient"
	"github.com/openGemini/openGemini/lib/util/lifted/influx/meta"
	"github.com/openGemini/openGemini/services/retention"
	"go.uber.org/zap"

	"verif/harness/internal/hx"
)

func init() { hx.Register("C14", Run) }

const (
	dbName = "db0"
	rpName = "rp0"
	sec    = int64(time.Second)
	hour   = int64(time.Hour)
	// every generated case keeps |end + duration - now| ≥ margin; a pool / trace older than
	// maxAge is discarded and redone, so the wall clock cannot change an answer.
	margin = 2 * sec
	maxAge = 1200 * time.Millisecond
)

var errTooSlow = errors.New("c14: wall clock moved too far during a case")

func loadCtx() *metaclient.LoadCtx {
	lc := &metaclient.LoadCtx{}
	lc.LoadCh = make(chan *metaclient.DBPTCtx, 6)
	go func() {
		for range lc.LoadCh {
		}
	}()
	return lc
}

// ---------------------------------------------------------------------------------------
// a world: one engine, one catalogue

type world struct {
	dir       string
	eng       *engine.EngineImpl
	data      *meta.Data
	rpi       *meta.RetentionPolicyInfo
	mine      []uint32 // partitions owned by this store
	t0        time.Time
	sids      []uint64 // every shard id ever in the catalogue
	ptOf      map[uint64]uint32
	endOf     map[uint64]int64  // sid -> endRel
	paths     map[uint64]string // sid -> data directory of the shard once it was created on the store
	closedAny map[uint64]bool
}

var worldSeq int

func newWorld(root string, mine []uint32, d int64) (*world, error) {
	worldSeq++
	w := &world{dir: filepath.Join(root, fmt.Sprintf("w%d", worldSeq)), mine: mine, ptOf: map[uint64]uint32{}, endOf: map[uint64]int64{}, paths: map[uint64]string{}, closedAny: map[uint64]bool{}}
	e, err := engine.NewEngine(filepath.Join(w.dir, "d"), filepath.Join(w.dir, "w"), engine.NewEngineOptions(), loadCtx())
	if err != nil {
		return nil, err
	}
	w.eng = e.(*engine.EngineImpl)
	w.rpi = &meta.RetentionPolicyInfo{Name: rpName, Duration: time.Duration(d), ReplicaN: 1,
		ShardGroupDuration: time.Hour, IndexGroupDuration: 20000 * time.Hour}
	w.data = &meta.Data{Databases: map[string]*meta.DatabaseInfo{dbName: {Name: dbName, DefaultRetentionPolicy: rpName,
		RetentionPolicies: map[string]*meta.RetentionPolicyInfo{rpName: w.rpi}}}}
	cl := metaclient.NewClient("", false, 0)
	cl.SetCacheData(w.data)
	w.eng.SetMetaClient(cl)
	for _, pt := range mine {
		w.eng.CreateDBPT(dbName, pt, false)
	}
	w.t0 = time.Now()
	// one index group that outlives every shard group of the case
	ig := meta.IndexGroupInfo{ID: 1, StartTime: w.t0.Add(-10000 * time.Hour), EndTime: w.t0.Add(10000 * time.Hour), EngineType: config.TSSTORE}
	for pt := uint32(0); pt < 4; pt++ {
		ig.Indexes = append(ig.Indexes, meta.IndexInfo{ID: uint64(pt + 1), Owners: []uint32{pt}})
	}
	w.rpi.IndexGroups = []meta.IndexGroupInfo{ig}
	return w, nil
}

// close shuts the engine down. The directory is removed only after a clean shutdown: when a
// shard had been closed by the case, EngineImpl.Close stops early and the index's background
// goroutines keep looking at their directory (they panic when it disappears); ./check removes
// the whole scratch tree after the process has exited.
func (w *world) close() {
	if err := w.eng.Close(); err == nil && len(w.closedAny) == 0 {
		_ = os.RemoveAll(w.dir)
	}
}

func (w *world) isMine(pt uint32) bool {
	for _, p := range w.mine {
		if p == pt {
			return true
		}
	}
	return false
}

// addGroup appends a shard group [startRel, endRel) (relative to t0) with one shard per pt.
func (w *world) addGroup(gid uint64, startRel, endRel int64, pts []uint32, firstSid uint64, deleted bool, marked []bool) {
	g := meta.ShardGroupInfo{ID: gid, StartTime: w.t0.Add(time.Duration(startRel)), EndTime: w.t0.Add(time.Duration(endRel)), EngineType: config.TSSTORE}
	if deleted {
		g.DeletedAt = w.t0
	}
	for i, pt := range pts {
		sid := firstSid + uint64(i)
		g.Shards = append(g.Shards, meta.ShardInfo{ID: sid, Owners: []uint32{pt}, IndexID: uint64(pt + 1), MarkDelete: marked != nil && marked[i]})
		w.sids = append(w.sids, sid)
		w.ptOf[sid] = pt
		w.endOf[sid] = endRel
	}
	w.rpi.ShardGroups = append(w.rpi.ShardGroups, g)
}

// load creates the shard on the store the way the first write does: time range and
// duration come from the catalogue (RetentionPolicyInfo.TimeRangeInfo), then CreateShard.
func (w *world) load(sid uint64) (bool, error) {
	pt, ok := w.ptOf[sid]
	if !ok || !w.isMine(pt) {
		return false, nil
	}
	if w.eng.DBPartitions[dbName][pt].Shard(sid) != nil {
		return false, nil
	}
	tri := w.rpi.TimeRangeInfo(sid)
	if tri == nil {
		return false, nil
	}
	err := w.eng.CreateShard(dbName, rpName, pt, sid, tri, &meta.MeasurementInfo{EngineType: config.TSSTORE})
	if err == nil {
		w.paths[sid] = w.eng.DBPartitions[dbName][pt].Shard(sid).GetDataPath()
	}
	return err == nil, err
}

// dumpDisk: shards whose data directory exists on the store.
func (w *world) dumpDisk() string {
	var ids []uint64
	for sid, p := range w.paths {
		if _, err := os.Stat(p); err == nil {
			ids = append(ids, sid)
		}
	}
	sort.Slice(ids, func(i, j int) bool { return ids[i] < ids[j] })
	return joinU(ids)
}

func (w *world) shard(sid uint64) engine.Shard {
	pt, ok := w.ptOf[sid]
	if !ok || !w.isMine(pt) {
		return nil
	}
	p := w.eng.DBPartitions[dbName][pt]
	if p == nil {
		return nil
	}
	return p.Shard(sid)
}

func (w *world) dumpEng() string {
	var parts []string
	ids := append([]uint64(nil), w.sids...)
	sort.Slice(ids, func(i, j int) bool { return ids[i] < ids[j] })
	for _, sid := range ids {
		sh := w.shard(sid)
		if sh == nil {
			continue
		}
		parts = append(parts, fmt.Sprintf("%d:%d:%d:%s", sid, sh.GetIdent().ShardGroupID, int64(sh.GetDuration().Duration), bit(sh.GetIndexBuilder() != nil)))
	}
	return strings.Join(parts, ",")
}

func (w *world) dumpCat() string {
	var gs []string
	for i := range w.rpi.ShardGroups {
		g := &w.rpi.ShardGroups[i]
		var ss []string
		for _, s := range g.Shards {
			ss = append(ss, fmt.Sprintf("%d.%s.%s", s.ID, bit(w.isMine(s.Owners[0])), bit(s.MarkDelete)))
		}
		gs = append(gs, fmt.Sprintf("%d:%s:%s", g.ID, bit(g.Deleted()), strings.Join(ss, "+")))
	}
	return strings.Join(gs, ";")
}

func bit(b bool) string {
	if b {
		return "1"
	}
	return "0"
}

func joinU(xs []uint64) string {
	var s []string
	for _, x := range xs {
		s = append(s, strconv.FormatUint(x, 10))
	}
	return strings.Join(s, ",")
}

func orDash(s string) string {
	if s == "" {
		return "-"
	}
	return s
}

// ---------------------------------------------------------------------------------------
// tuples

type poolShard struct {
	sid    uint64
	endRel int64
	d      int64
	idx    bool
}

type pool struct {
	w      *world
	shards []*poolShard
}

var deltas = []int64{2 * sec, 3 * sec, 60 * sec, hour}

func newPool(root string, r *hx.Rng, G int64) (*pool, error) {
	w, err := newWorld(root, []uint32{0}, 0)
	if err != nil {
		return nil, err
	}
	p := &pool{w: w}
	// six real shards, ends spread from "one group in the future" to "five groups ago"
	for k := 0; k < 6; k++ {
		endRel := int64(1-k) * G
		sid := uint64(k + 1)
		w.addGroup(uint64(k+1), endRel-G, endRel, []uint32{0}, sid, false, nil)
		if _, err := w.load(sid); err != nil {
			w.close()
			return nil, err
		}
		p.shards = append(p.shards, &poolShard{sid: sid, endRel: endRel, idx: true})
	}
	// a shard group that ends near the end of the int64 nanosecond range (year ~2248)
	{
		sid := uint64(7)
		w.addGroup(7, farEnd-G, farEnd, []uint32{0}, sid, false, nil)
		if _, err := w.load(sid); err != nil {
			w.close()
			return nil, err
		}
		p.shards = append(p.shards, &poolShard{sid: sid, endRel: farEnd, idx: true})
	}
	// two shard objects without an index builder (what a closing shard looks like to
	// UpdateShardDurationInfo): their duration is whatever they were created with.
	for k := 0; k < 2; k++ {
		sid := uint64(100 + k)
		endRel := -int64(r.Intn(3)) * G
		d := pickDur(r, endRel, G)
		lock := filepath.Join(w.dir, "LOCK")
		sh := engine.NewShard(filepath.Join(w.dir, "d", "data", dbName, "0", rpName, fmt.Sprintf("%d_0_0_1", sid)), filepath.Join(w.dir, "w", "raw", fmt.Sprint(sid)), &lock,
			&meta.ShardIdentifier{ShardID: sid, Policy: rpName, OwnerDb: dbName, OwnerPt: 0},
			&meta.DurationDescriptor{Duration: time.Duration(d)},
			&meta.TimeRangeInfo{StartTime: w.t0.Add(time.Duration(endRel - G)), EndTime: w.t0.Add(time.Duration(endRel))},
			engine.NewEngineOptions(), config.TSSTORE, nil)
		w.eng.DBPartitions[dbName][0].AddShard(sid, sh)
		w.sids = append(w.sids, sid)
		w.ptOf[sid] = 0
		p.shards = append(p.shards, &poolShard{sid: sid, endRel: endRel, d: d, idx: false})
	}
	return p, nil
}

// pickDur: a duration that puts end+d at now ± δ (δ from 2 s to one group), or 0, or
// something far away; |endRel + d| ≥ margin always (or d = 0).
func pickDur(r *hx.Rng, endRel, G int64) int64 {
	d := pickDurRaw(r, endRel, G)
	// never inside the margin around the expiry instant (and not accidentally 0)
	for d != 0 && abs(addSat(endRel, d)) < margin {
		d += margin
		if d == 0 {
			d += margin
		}
	}
	return d
}

func pickDurRaw(r *hx.Rng, endRel, G int64) int64 {
	switch k := r.Intn(100); {
	case k < 16:
		return 0
	case k < 24:
		return extremeDurs[r.Intn(len(extremeDurs))]
	case k < 28:
		return int64(r.Intn(1000)+1) * hour * 24 // years
	case k < 31:
		return -int64(r.Intn(100)+1) * hour // negative durations are not rejected by the code
	}
	ds := append([]int64{G, 2 * G}, deltas...)
	delta := ds[r.Intn(len(ds))]
	if r.Bool() {
		delta = -delta
	}
	d := -endRel + delta
	if d == 0 {
		d = margin
	}
	return d
}

func specExpired(d, rel int64) bool { return d != 0 && addSat(rel, d) < 0 }

// runTuples: cases come in batches that share one pool of real shards. A batch is emitted
// only if it finished while the pool was younger than maxAge; otherwise it is redone from the
// same seed, so the emitted stream depends on the seed alone.
func runTuples(c *hx.Ctx, root string, r *hx.Rng, n int) error {
	const batch = 64
	slow := 0
	for done := 0; done < n; {
		k := batch
		if n-done < k {
			k = n - done
		}
		seed := r.U64()
		var out []emitted
		var st map[string]int
		var err error
		for {
			out, st, err = tupleBatch(root, hx.NewRng(seed), k)
			if err != errTooSlow {
				break
			}
			c.Count("tuple.retry-wallclock")
			if slow++; slow > 40 {
				return errTooSlow
			}
		}
		if err != nil {
			return err
		}
		for i, e := range out {
			line := c.Emit(e.op, e.ans)
			for _, v := range e.viol {
				c.Violation(line, v[0], v[1])
			}
			c.Case(e.op, e.nontrivial)
			if done == 0 && i < 2 {
				c.Sample(e.op + " => " + e.ans)
			}
		}
		for b, v := range st {
			c.Stats.Hist[b] += v
		}
		done += k
	}
	return nil
}

func tupleBatch(root string, r *hx.Rng, k int) (out []emitted, st map[string]int, err error) {
	st = map[string]int{}
	G := []int64{hour, 24 * hour, 168 * hour}[r.Intn(3)]
	p, err := newPool(root, r, G)
	if err != nil {
		return nil, nil, err
	}
	defer p.w.close()
	st["tuple.pool"]++
	for done := 0; done < k; done++ {
		cr := r.Fork()
		// new durations for the real shards, through the service's own entry point
		scratch := map[uint64]*meta.ShardDurationInfo{}
		type upd struct {
			ps *poolShard
			d  int64
		}
		var upds []upd
		for _, ps := range p.shards {
			if !ps.idx {
				continue
			}
			upds = append(upds, upd{ps, pickDur(cr, ps.endRel, G)})
		}
		// not-loaded entries with explicit end times; some reuse ids of loaded shards (containSid)
		type nilE struct {
			sid    uint64
			d, rel int64
		}
		var nils []nilE
		used := map[uint64]bool{}
		for k, m := 0, cr.Intn(5); k < m; k++ {
			var sid uint64
			if cr.Chance(35) {
				sid = p.shards[cr.Intn(len(p.shards))].sid
			} else {
				sid = uint64(200 + cr.Intn(50))
			}
			if used[sid] {
				continue
			}
			used[sid] = true
			rel := -int64(cr.Intn(4)) * G
			if cr.Chance(30) {
				rel = int64(cr.Intn(3)) * G
			}
			if cr.Chance(8) {
				rel = farEnd
			}
			nils = append(nils, nilE{sid, pickDur(cr, rel, G), rel})
		}
		var got []uint64
		var isx []bool
		perr := hx.Safe(func() {
			for _, u := range upds {
				info := &meta.ShardDurationInfo{Ident: meta.ShardIdentifier{ShardID: u.ps.sid, ShardGroupID: u.ps.sid, OwnerDb: dbName, OwnerPt: 0, Policy: rpName},
					DurationInfo: meta.DurationDescriptor{Duration: time.Duration(u.d)}}
				if err := p.w.eng.UpdateShardDurationInfo(info, &scratch); err != nil {
					panic(err)
				}
				u.ps.d = u.d
			}
			now := time.Now()
			nm := map[uint64]*meta.ShardDurationInfo{}
			for _, e := range nils {
				nm[e.sid] = &meta.ShardDurationInfo{Ident: meta.ShardIdentifier{ShardID: e.sid, OwnerDb: dbName, OwnerPt: 0, Policy: rpName, EndTime: now.Add(time.Duration(e.rel))},
					DurationInfo: meta.DurationDescriptor{Duration: time.Duration(e.d)}}
			}
			for _, id := range p.w.eng.ExpiredShards(&nm) {
				got = append(got, id.ShardID)
			}
			for _, ps := range p.shards {
				isx = append(isx, p.w.shard(ps.sid).IsExpired())
			}
		})
		if time.Since(p.w.t0) > maxAge {
			return nil, nil, errTooSlow // too old to trust the margins: the whole batch is redone
		}
		if len(scratch) != 0 && perr == "" {
			perr = "unexpected nil-map entry for a loaded shard with an index builder"
		}
		sort.Slice(got, func(i, j int) bool { return got[i] < got[j] })
		var ls, ns []string
		for _, ps := range p.shards {
			ls = append(ls, fmt.Sprintf("%d:%d:%d:%s", ps.sid, ps.d, ps.endRel, bit(ps.idx)))
		}
		for _, e := range nils {
			ns = append(ns, fmt.Sprintf("%d:%d:%d", e.sid, e.d, e.rel))
		}
		em := emitted{op: "es " + strings.Join(ls, ",") + " " + orDash(strings.Join(ns, ",")), ans: "exp " + joinU(got)}
		if perr != "" {
			em.ans = "err " + perr
		}
		// the property on this case: reported ⇔ d ≠ 0 ∧ end + d < now, where (d, end) is the
		// entry of the not-loaded map when the shard has one (that is what meta sent in this run
		// and could not be stored on the shard object), else the shard's own duration and end.
		want := map[uint64]bool{}
		loadedID := map[uint64]bool{}
		nilID := map[uint64]bool{}
		for _, e := range nils {
			nilID[e.sid] = true
			if specExpired(e.d, e.rel) {
				want[e.sid] = true
			}
		}
		for _, ps := range p.shards {
			loadedID[ps.sid] = true
			if !nilID[ps.sid] && specExpired(ps.d, ps.endRel) {
				want[ps.sid] = true
			}
		}
		gotSet := map[uint64]bool{}
		for _, s := range got {
			if gotSet[s] {
				em.viol = append(em.viol, [2]string{"reported-twice", fmt.Sprintf("shard %d reported twice", s)})
			}
			gotSet[s] = true
		}
		for _, ps := range p.shards {
			if nilID[ps.sid] {
				continue // judged with the not-loaded entry below
			}
			if gotSet[ps.sid] && !want[ps.sid] {
				em.viol = append(em.viol, [2]string{"reported-unexpired", fmt.Sprintf("shard %d duration %d end %+d ns relative to now reported expired", ps.sid, ps.d, ps.endRel)})
			}
			if !gotSet[ps.sid] && want[ps.sid] {
				em.viol = append(em.viol, [2]string{"expired-not-reported", fmt.Sprintf("shard %d duration %d end %+d ns relative to now not reported", ps.sid, ps.d, ps.endRel)})
			}
		}
		for _, e := range nils {
			if gotSet[e.sid] && !want[e.sid] {
				em.viol = append(em.viol, [2]string{"reported-unexpired", fmt.Sprintf("shard %d (not refreshed, loaded=%v): meta sent duration %d end %+d, reported expired", e.sid, loadedID[e.sid], e.d, e.rel)})
			}
			if !gotSet[e.sid] && want[e.sid] {
				em.viol = append(em.viol, [2]string{"expired-not-reported", fmt.Sprintf("shard %d (not refreshed, loaded=%v): meta sent duration %d end %+d, not reported", e.sid, loadedID[e.sid], e.d, e.rel)})
			}
		}
		nExp := len(gotSet)
		total := len(p.shards) + len(nils)
		em.nontrivial = nExp > 0 && nExp < total
		out = append(out, em)
		st["tuple.es"]++
		st["tuple.candidates"] += total
		st["tuple.reported"] += nExp
		// the per-shard predicate on its own
		for i, ps := range p.shards {
			e := emitted{op: fmt.Sprintf("isx %d %d", ps.d, ps.endRel), nontrivial: true}
			if perr != "" || i >= len(isx) {
				e.ans = "err " + perr
				out = append(out, e)
				continue
			}
			e.ans = bit(isx[i])
			if isx[i] != specExpired(ps.d, ps.endRel) {
				e.viol = append(e.viol, [2]string{"isexpired-wrong", fmt.Sprintf("IsExpired()=%v for duration %d, end %+d ns relative to now", isx[i], ps.d, ps.endRel)})
			}
			out = append(out, e)
			switch {
			case ps.d == 0:
				st["tuple.isx.unlimited"]++
			case ps.d < 0:
				st["tuple.isx.negative"]++
			case ps.d >= 36500*day:
				st["tuple.isx.century-or-more"]++
			case abs(addSat(ps.endRel, ps.d)) <= 3*sec:
				st["tuple.isx.within3s"]++
			case abs(addSat(ps.endRel, ps.d)) <= hour:
				st["tuple.isx.within1h"]++
			default:
				st["tuple.isx.far"]++
			}
		}
	}
	return out, st, nil
}

// addSat adds two int64 values and saturates instead of wrapping (the generators and the oracle
// work with durations up to the time.Duration maximum and ends up to the year 2262).
func addSat(a, b int64) int64 {
	c := a + b
	if a > 0 && b > 0 && c < 0 {
		return math.MaxInt64
	}
	if a < 0 && b < 0 && c >= 0 {
		return math.MinInt64
	}
	return c
}

const (
	day      = 24 * hour
	farEnd   = int64(7_000_000_000_000_000_000) // a shard group that ends about 221 years from now (before 2262-04-11)
	maxDurNs = int64(math.MaxInt64)
)

// extremeDurs: 1 ns, an hour minus / plus 1 ns, 100 years, the "keep forever" idioms, the
// time.Duration maximum.
var extremeDurs = []int64{1, hour - 1, hour + 1, 36500 * day, 86000 * day, 99999 * day, 106751 * day, maxDurNs}

func abs(x int64) int64 {
	if x < 0 {
		return -x
	}
	return x
}

// ---------------------------------------------------------------------------------------
// traces

type outcome struct {
	mark  bool
	del   byte // 'o' ok, 'f' fail, 't' timeout
	prune bool
}

var good = outcome{true, 'o', true}

type top struct {
	kind string // alter load close run complete query
	d    int64
	sid  uint64
	t    int64
	rf   bool
	am   *int64
	oc   map[uint64]outcome
}

type tgroup struct {
	gid              uint64
	startRel, endRel int64
	deleted          bool
	pts              []uint32
	firstSid         uint64
	marked           []bool
}

type ttrace struct {
	d0     int64
	mine   []uint32
	groups []tgroup
	ops    []top
}

// fakeMeta: the MetaClient of the service, backed by the real meta.Data.
type fakeMeta struct {
	w          *world
	svc        *retention.Service
	script     *top
	calls      *[]string
	ew         *engWrap
	dRef       *int64 // duration returned by the last successful refresh
	seen       *[]int64
	wasPending map[uint64]bool
}

var errInjected = errors.New("injected failure")

func (m *fakeMeta) GetShardDurationInfo(index uint64) (*meta.ShardDurationResponse, error) {
	if !m.script.rf {
		return nil, errInjected
	}
	dbPt := map[string][]uint32{dbName: m.w.mine}
	r := m.w.data.DurationInfos(dbPt)
	// the real client receives the marshalled form
	b, err := r.MarshalBinary()
	if err != nil {
		return nil, err
	}
	out := &meta.ShardDurationResponse{}
	if err := out.UnmarshalBinary(b); err != nil {
		return nil, err
	}
	*m.dRef = int64(m.w.rpi.Duration)
	*m.seen = append(*m.seen, *m.dRef)
	if m.script.am != nil { // an ALTER lands right after meta answered
		m.w.rpi.Duration = time.Duration(*m.script.am)
	}
	return out, nil
}

func (m *fakeMeta) GetIndexDurationInfo(index uint64) (*meta.IndexDurationResponse, error) {
	return &meta.IndexDurationResponse{}, nil
}

func (m *fakeMeta) outcomeFor(sid uint64) outcome {
	if o, ok := m.script.oc[sid]; ok {
		return o
	}
	return good
}

func (m *fakeMeta) DeleteShardGroup(database, policy string, id uint64, deleteType int32) error {
	// the loop calls mark, delete, prune for one shard; the shard is the next of the reported list
	sid := m.ew.next()
	m.wasPending[sid] = m.svc.VerifShardPending(sid)
	o := m.outcomeFor(sid)
	if o.del == 't' {
		retention.SetShardDeletionDelay(10 * time.Millisecond)
	} else {
		retention.SetShardDeletionDelay(60 * time.Second)
	}
	if deleteType != meta.MarkDelete || database != dbName || policy != rpName {
		*m.calls = append(*m.calls, fmt.Sprintf("M?%s/%s/%d/%d", database, policy, id, deleteType))
	}
	if !o.mark {
		*m.calls = append(*m.calls, fmt.Sprintf("M%d:0", id))
		return errInjected
	}
	err := m.w.data.DeleteShardGroup(database, policy, id, 0, deleteType)
	*m.calls = append(*m.calls, fmt.Sprintf("M%d:%s", id, bit(err == nil)))
	return err
}

func (m *fakeMeta) PruneGroupsCommand(shardGroup bool, id uint64) error {
	if !shardGroup {
		*m.calls = append(*m.calls, "P?index")
		return nil
	}
	o := m.outcomeFor(id)
	switch {
	case m.wasPending[id]:
		// DeleteShardOrIndex refused before reaching the engine: still pending
		*m.calls = append(*m.calls, fmt.Sprintf("D%d:pend", id))
	case o.del == 't':
		// the delete was handed to a goroutine that is (or will be) blocked in the engine wrapper
		m.ew.waitEntered(id)
		*m.calls = append(*m.calls, fmt.Sprintf("D%d:tmo", id))
	}
	if !o.prune {
		*m.calls = append(*m.calls, fmt.Sprintf("P%d:0", id))
		return errInjected
	}
	res := "1"
	if perr := hx.Safe(func() {
		if err := m.w.data.PruneGroups(true, id); err != nil {
			res = "err"
		}
	}); perr != "" {
		res = "panic"
	}
	*m.calls = append(*m.calls, fmt.Sprintf("P%d:%s", id, res))
	return nil
}

func (m *fakeMeta) DeleteIndexGroup(database, policy string, id uint64) error { return nil }
func (m *fakeMeta) DelayDeleteShardGroup(database, policy string, id uint64, deletedAt time.Time, deleteType int32) error {
	*m.calls = append(*m.calls, "unexpected-DelayDeleteShardGroup")
	return nil
}
func (m *fakeMeta) GetExpiredShards() ([]meta.ExpiredShardInfos, []meta.ExpiredShardInfos) {
	*m.calls = append(*m.calls, "unexpected-GetExpiredShards")
	return nil, nil
}
func (m *fakeMeta) GetExpiredIndexes() []meta.ExpiredIndexInfos { return nil }

// engWrap: the Engine of the service: the real EngineImpl, recorded; deletes can be made to
// fail or to hang until released.
type engWrap struct {
	w        *world
	m        *fakeMeta
	calls    *[]string
	reported []uint64
	pos      int
	age      time.Duration

	mu      sync.Mutex
	blocked map[uint64]*blockedDel // deletes that timed out and wait to be released
}

type blockedDel struct {
	release, finished chan struct{}
}

func (e *engWrap) next() uint64 {
	if e.pos < len(e.reported) {
		e.pos++
		return e.reported[e.pos-1]
	}
	return 0
}

func (e *engWrap) waitEntered(sid uint64) {
	for k := 0; ; k++ {
		e.mu.Lock()
		_, ok := e.blocked[sid]
		e.mu.Unlock()
		if ok {
			return
		}
		if k > 4000 { // ~0.4 s: the goroutine is started right before the service's select
			panic("scripted timeout: the delete never reached the engine")
		}
		time.Sleep(100 * time.Microsecond)
	}
}

// releaseAll lets every blocked delete run and waits until it is done.
func (e *engWrap) releaseAll() {
	e.mu.Lock()
	bs := e.blocked
	e.blocked = map[uint64]*blockedDel{}
	e.mu.Unlock()
	for _, b := range bs {
		close(b.release)
		<-b.finished
	}
}

func (e *engWrap) UpdateShardDurationInfo(info *meta.ShardDurationInfo, nilShardMap *map[uint64]*meta.ShardDurationInfo) error {
	return e.w.eng.UpdateShardDurationInfo(info, nilShardMap)
}

func (e *engWrap) ExpiredShards(nilShardMap *map[uint64]*meta.ShardDurationInfo) []*meta.ShardIdentifier {
	var nk []uint64
	for k := range *nilShardMap {
		nk = append(nk, k)
	}
	sort.Slice(nk, func(i, j int) bool { return nk[i] < nk[j] })
	res := e.w.eng.ExpiredShards(nilShardMap)
	e.age = time.Since(e.w.t0)
	// Go map order is random: hand the list over sorted by shard id
	sort.SliceStable(res, func(i, j int) bool { return res[i].ShardID < res[j].ShardID })
	e.reported = e.reported[:0]
	e.pos = 0
	for _, r := range res {
		e.reported = append(e.reported, r.ShardID)
	}
	*e.calls = append(*e.calls, fmt.Sprintf("Rok N[%s] E[%s] X[%s]", joinU(nk), e.w.dumpEng(), joinU(e.reported)))
	return res
}

func (e *engWrap) DeleteShard(db string, ptId uint32, shardID uint64) error {
	o := e.m.outcomeFor(shardID)
	switch o.del {
	case 'f':
		*e.calls = append(*e.calls, fmt.Sprintf("D%d:fail", shardID))
		return errInjected
	case 't':
		// runs in the goroutine DeleteShardOrIndex started; the service gives up after
		// shardDeletionTimeout and enters the pending state
		b := &blockedDel{make(chan struct{}), make(chan struct{})}
		e.mu.Lock()
		e.blocked[shardID] = b
		e.mu.Unlock()
		<-b.release
		err := e.w.eng.DeleteShard(db, ptId, shardID)
		close(b.finished)
		return err
	}
	err := e.w.eng.DeleteShard(db, ptId, shardID)
	res := "ok"
	switch {
	case err == nil:
	case errno.Equal(err, errno.ShardNotFound):
		res = "nf"
	case errno.Equal(err, errno.ErrShardClosed):
		res = "closed"
	default:
		res = "err:" + err.Error()
	}
	*e.calls = append(*e.calls, fmt.Sprintf("D%d:%s", shardID, res))
	return err
}

func (e *engWrap) DeleteIndex(db string, ptId uint32, indexID uint64) error { return nil }
func (e *engWrap) UpdateIndexDurationInfo(info *meta.IndexDurationInfo, nilIndexMap *map[uint64]*meta.IndexDurationInfo) error {
	return nil
}
func (e *engWrap) ExpiredIndexes(nilIndexMap *map[uint64]*meta.IndexDurationInfo) []*meta.IndexIdentifier {
	return nil
}
func (e *engWrap) ExpiredCacheIndexes() []*meta.IndexIdentifier                 { return nil }
func (e *engWrap) ClearIndexCache(db string, ptId uint32, indexID uint64) error { return nil }

func fmtOutcomes(oc map[uint64]outcome) string {
	var ks []uint64
	for k := range oc {
		ks = append(ks, k)
	}
	sort.Slice(ks, func(i, j int) bool { return ks[i] < ks[j] })
	var s []string
	for _, k := range ks {
		o := oc[k]
		s = append(s, fmt.Sprintf("%d=%s.%c.%s", k, bit(o.mark), o.del, bit(o.prune)))
	}
	return orDash(strings.Join(s, ","))
}

func (tr *ttrace) newLine() string {
	var gs []string
	for _, g := range tr.groups {
		var ss []string
		for i, pt := range g.pts {
			mine := false
			for _, p := range tr.mine {
				if p == pt {
					mine = true
				}
			}
			ss = append(ss, fmt.Sprintf("%d.%s.%s", g.firstSid+uint64(i), bit(mine), bit(g.marked != nil && g.marked[i])))
		}
		gs = append(gs, fmt.Sprintf("%d:%d:%d:%s:%s", g.gid, g.startRel, g.endRel, bit(g.deleted), strings.Join(ss, "+")))
	}
	return fmt.Sprintf("t new %d %s", tr.d0, strings.Join(gs, ";"))
}

func (o *top) line() string {
	switch o.kind {
	case "alter":
		return fmt.Sprintf("t alter %d", o.d)
	case "load":
		return fmt.Sprintf("t load %d", o.sid)
	case "close":
		return fmt.Sprintf("t close %d", o.sid)
	case "complete":
		return "t complete"
	case "query":
		return fmt.Sprintf("t query %d", o.t)
	case "run":
		am := "-"
		if o.am != nil {
			am = strconv.FormatInt(*o.am, 10)
		}
		return fmt.Sprintf("t run %s %s %s", bit(o.rf), am, fmtOutcomes(o.oc))
	}
	return "t ?"
}

// genTrace: groups laid out so that some group's end + duration falls at now ± δ.
func genTrace(r *hx.Rng) *ttrace {
	tr := &ttrace{}
	G := []int64{hour, 24 * hour, 168 * hour}[r.Intn(3)]
	nPT := 1 + r.Intn(2)
	pts := []uint32{0}
	tr.mine = []uint32{0}
	if nPT == 2 {
		pts = []uint32{0, 1}
		if r.Chance(60) {
			tr.mine = []uint32{0, 1}
		}
	}
	n := 2 + r.Intn(3)
	ds := []int64{G / 2, G, 2 * G, 3*G + hour, hour, 30 * 24 * hour}
	if r.Chance(20) {
		tr.d0 = 0
	} else {
		tr.d0 = ds[r.Intn(len(ds))]
	}
	dl := append([]int64{G}, deltas...)
	delta := dl[r.Intn(len(dl))]
	if r.Bool() {
		delta = -delta
	}
	anchorEnd := -tr.d0 + delta
	a := r.Intn(n)
	sid := uint64(1)
	for i := 0; i < n; i++ {
		endRel := anchorEnd + int64(i-a)*G
		g := tgroup{gid: uint64(i + 1), startRel: endRel - G, endRel: endRel, pts: pts, firstSid: sid}
		sid += uint64(len(pts))
		tr.groups = append(tr.groups, g)
	}
	ok := func(d int64) bool {
		if d == 0 {
			return true
		}
		for _, g := range tr.groups {
			if abs(g.endRel+d) < margin {
				return false
			}
		}
		return true
	}
	pickAlter := func() int64 {
		for try := 0; try < 8; try++ {
			var d int64
			switch k := r.Intn(10); {
			case k < 2:
				d = 0
			case k < 4:
				d = ds[r.Intn(len(ds))]
			default:
				g := tr.groups[r.Intn(len(tr.groups))]
				dd := dl[r.Intn(len(dl))]
				if r.Bool() {
					dd = -dd
				}
				d = -g.endRel + dd
			}
			if d >= 0 && ok(d) {
				return d
			}
		}
		return 0
	}
	if !ok(tr.d0) {
		tr.d0 = pickAlter()
	}
	var mineSids []uint64
	for _, g := range tr.groups {
		for i, pt := range g.pts {
			for _, p := range tr.mine {
				if p == pt {
					mineSids = append(mineSids, g.firstSid+uint64(i))
				}
			}
		}
	}
	loaded := map[uint64]bool{}
	canClose := len(tr.mine) == 1
	pending := false
	nops := 4 + r.Intn(8)
	for k := 0; k < nops; k++ {
		switch x := r.Intn(100); {
		case x < 22:
			s := mineSids[r.Intn(len(mineSids))]
			if r.Chance(5) {
				s = 99 // not in the catalogue
			}
			loaded[s] = true
			tr.ops = append(tr.ops, top{kind: "load", sid: s})
		case x < 28:
			if !canClose || len(loaded) == 0 {
				continue
			}
			var ls []uint64
			for s := range loaded {
				ls = append(ls, s)
			}
			sort.Slice(ls, func(i, j int) bool { return ls[i] < ls[j] })
			tr.ops = append(tr.ops, top{kind: "close", sid: ls[r.Intn(len(ls))]})
		case x < 45:
			tr.ops = append(tr.ops, top{kind: "alter", d: pickAlter()})
		case x < 55:
			g := tr.groups[r.Intn(len(tr.groups))]
			t := []int64{g.startRel, g.endRel - 1, g.startRel + G/2, g.endRel, g.startRel - 1}[r.Intn(5)]
			tr.ops = append(tr.ops, top{kind: "query", t: t})
		case x < 60:
			if pending {
				tr.ops = append(tr.ops, top{kind: "complete"})
				pending = false
			}
		default:
			o := top{kind: "run", rf: !r.Chance(8), oc: map[uint64]outcome{}}
			if r.Chance(12) {
				d := pickAlter()
				o.am = &d
			}
			for _, s := range mineSids {
				if r.Chance(14) {
					oc := outcome{mark: !r.Chance(40), del: "oft"[r.Intn(3)], prune: !r.Chance(40)}
					if oc.del == 't' {
						pending = true
					}
					o.oc[s] = oc
				}
			}
			tr.ops = append(tr.ops, o)
		}
	}
	if pending {
		tr.ops = append(tr.ops, top{kind: "complete"})
	}
	// always end with a clean run and a look at every group
	tr.ops = append(tr.ops, top{kind: "run", rf: true, oc: map[uint64]outcome{}})
	for _, g := range tr.groups {
		tr.ops = append(tr.ops, top{kind: "query", t: g.endRel - 1})
	}
	return tr
}

type emitted struct {
	op, ans    string
	viol       [][2]string
	nontrivial bool
}

// playTrace runs one trace against the real code. Nothing is written to the context: the
// caller emits the lines only when the trace finished inside the wall-clock budget.
func playTrace(root string, tr *ttrace) (out []emitted, st map[string]int, err error) {
	st = map[string]int{}
	w, err := newWorld(root, tr.mine, tr.d0)
	if err != nil {
		return nil, nil, err
	}
	defer w.close()
	for _, g := range tr.groups {
		w.addGroup(g.gid, g.startRel, g.endRel, g.pts, g.firstSid, g.deleted, g.marked)
	}
	var calls []string
	var dRef int64 = tr.d0
	seen := []int64{}
	svc := retention.NewService(time.Hour)
	svc.Logger = logger.NewLogger(errno.ModuleUnknown).SetZapLogger(zap.NewNop())
	fm := &fakeMeta{w: w, svc: svc, calls: &calls, dRef: &dRef, seen: &seen, wasPending: map[uint64]bool{}}
	ew := &engWrap{w: w, m: fm, calls: &calls, blocked: map[uint64]*blockedDel{}}
	fm.ew = ew
	defer ew.releaseAll()
	svc.MetaClient = fm
	svc.Engine = ew
	closed := map[uint64]bool{}
	dump := func() string {
		var pend []uint64
		for _, s := range w.sids {
			if svc.VerifShardPending(s) {
				pend = append(pend, s)
			}
		}
		sort.Slice(pend, func(i, j int) bool { return pend[i] < pend[j] })
		return fmt.Sprintf("d=%d eng=[%s] disk=[%s] cat=[%s] pend=[%s]", int64(w.rpi.Duration), w.dumpEng(), w.dumpDisk(), w.dumpCat(), joinU(pend))
	}
	out = append(out, emitted{op: tr.newLine(), ans: "ok | " + dump()})
	type snap struct {
		eng     map[uint64]bool
		marked  map[uint64]bool
		present map[uint64]bool // sid still listed in the catalogue
		gdel    map[uint64]bool
		gend    map[uint64]int64
	}
	take := func() snap {
		s := snap{map[uint64]bool{}, map[uint64]bool{}, map[uint64]bool{}, map[uint64]bool{}, map[uint64]int64{}}
		for _, sid := range w.sids {
			if w.shard(sid) != nil {
				s.eng[sid] = true
			}
		}
		for i := range w.rpi.ShardGroups {
			g := &w.rpi.ShardGroups[i]
			s.gdel[g.ID] = g.Deleted()
			s.gend[g.ID] = int64(g.EndTime.Sub(w.t0))
			for _, sh := range g.Shards {
				s.present[sh.ID] = true
				s.marked[sh.ID] = sh.MarkDelete
			}
		}
		return s
	}
	groupOf := map[uint64]*tgroup{}
	for i := range tr.groups {
		g := &tr.groups[i]
		for k := range g.pts {
			groupOf[g.firstSid+uint64(k)] = g
		}
	}
	for i := range tr.ops {
		o := &tr.ops[i]
		var ans string
		var viol [][2]string
		perr := hx.Safe(func() {
			switch o.kind {
			case "alter":
				w.rpi.Duration = time.Duration(o.d)
				ans = "ok"
			case "load":
				d := int64(w.rpi.Duration)
				ok, err := w.load(o.sid)
				switch {
				case err != nil:
					ans = "err " + err.Error()
				case ok:
					ans = "ok"
					seen = append(seen, d)
				default:
					ans = "noop"
				}
			case "close":
				if sh := w.shard(o.sid); sh != nil {
					if err := sh.Close(); err != nil && !errno.Equal(err, errno.ErrShardClosed) {
						ans = "err " + err.Error()
						return
					}
					closed[o.sid] = true
					w.closedAny[o.sid] = true
				}
				ans = "ok"
			case "complete":
				ew.releaseAll()
				for _, sid := range w.sids {
					for k := 0; svc.VerifShardPending(sid); k++ {
						if k > 200000 {
							panic("pending state never cleared")
						}
						time.Sleep(50 * time.Microsecond)
					}
				}
				ans = "ok"
			case "query":
				t := w.t0.Add(time.Duration(o.t))
				gs, err := w.data.ShardGroupsByTimeRange(dbName, rpName, t, t)
				if err != nil {
					ans = "err " + err.Error()
					return
				}
				var ids []uint64
				for _, g := range gs {
					ids = append(ids, g.ID)
				}
				ans = "groups " + joinU(ids)
				// what a point query must read: exactly the live groups whose [start, end) holds t
				liveWant := map[uint64]bool{}
				for k := range w.rpi.ShardGroups {
					g := &w.rpi.ShardGroups[k]
					st, en := int64(g.StartTime.Sub(w.t0)), int64(g.EndTime.Sub(w.t0))
					if !g.Deleted() && st <= o.t && o.t < en {
						liveWant[g.ID] = true
					}
				}
				for _, id := range ids {
					if !liveWant[id] {
						viol = append(viol, [2]string{"query-reads-wrong-group", fmt.Sprintf("point at %+d ns: group %d returned but it is deleted or does not contain the point", o.t, id)})
					}
					delete(liveWant, id)
				}
				for id := range liveWant {
					viol = append(viol, [2]string{"query-misses-group", fmt.Sprintf("point at %+d ns: live group %d contains it but was not returned", o.t, id)})
				}
				// property: a point that every duration the store ever saw keeps inside the
				// window is in a group a query still reads
				var home *tgroup
				for k := range tr.groups {
					if tr.groups[k].startRel <= o.t && o.t < tr.groups[k].endRel {
						home = &tr.groups[k]
					}
				}
				if home != nil {
					inWindow := true
					for _, d := range append([]int64{tr.d0}, seen...) {
						if d != 0 && o.t+d < margin {
							inWindow = false
						}
					}
					if inWindow {
						st["trace.query.inwindow"]++
						found := false
						for _, id := range ids {
							if id == home.gid {
								found = true
							}
						}
						if !found {
							viol = append(viol, [2]string{"in-window-unqueryable", fmt.Sprintf("point at %+d ns (group %d) is inside the window of every duration the store saw %v but no live group covers it", o.t, home.gid, seen)})
						}
					} else {
						st["trace.query.outside"]++
					}
				}
			case "run":
				calls = calls[:0]
				fm.script = o
				before := take()
				pendBefore := false
				for _, s := range w.sids {
					if svc.VerifShardPending(s) {
						pendBefore = true
					}
				}
				svc.VerifHandle()
				after := take()
				if ew.age > maxAge || time.Since(w.t0) > maxAge {
					panic(errTooSlow)
				}
				ans = strings.Join(calls, " ")
				if !o.rf {
					ans = strings.TrimSpace("Rfail " + ans)
				}
				// ---- the property, by an oracle that does not know the model ----
				expiredByRef := func(endRel int64) bool { return dRef != 0 && endRel+dRef < 0 }
				removedAny := false
				for sid := range before.eng {
					if !after.eng[sid] {
						removedAny = true
						st["trace.shard-deleted"]++
						if !before.present[sid] {
							st["trace.orphan-deleted"]++
							continue
						}
						if !expiredByRef(w.endOf[sid]) {
							cls := "deleted-unexpired"
							if closed[sid] {
								cls = "stale-duration-closing-shard"
							}
							viol = append(viol, [2]string{cls, fmt.Sprintf("shard %d (end %+d ns) deleted from the store although the refreshed duration is %d", sid, w.endOf[sid], dRef)})
						}
					}
				}
				for gid, was := range before.gdel {
					now, still := after.gdel[gid]
					if !was && (now || !still) {
						st["trace.group-marked"]++
						if !expiredByRef(before.gend[gid]) {
							cls := "deleted-unexpired"
							for sid, g := range groupOf {
								if g.gid == gid && closed[sid] {
									cls = "stale-duration-closing-shard"
								}
							}
							viol = append(viol, [2]string{cls, fmt.Sprintf("group %d (end %+d ns) marked deleted although the refreshed duration is %d", gid, before.gend[gid], dRef)})
						}
					}
				}
				for sid, was := range before.marked {
					if !was && (after.marked[sid] || !after.present[sid]) {
						st["trace.shard-pruned"]++
						if !expiredByRef(w.endOf[sid]) {
							cls := "deleted-unexpired"
							if closed[sid] {
								cls = "stale-duration-closing-shard"
							}
							viol = append(viol, [2]string{cls, fmt.Sprintf("shard %d (end %+d ns) pruned from the catalogue although the refreshed duration is %d", sid, w.endOf[sid], dRef)})
						}
					}
				}
				if !o.rf && (removedAny || len(calls) > 0) {
					viol = append(viol, [2]string{"acted-without-refresh", "the run made calls although the refresh failed: " + strings.Join(calls, " ")})
				}
				fair := o.rf && o.am == nil && len(o.oc) == 0 && !pendBefore
				if fair {
					st["trace.fair-run"]++
					for sid := range before.present {
						if w.isMine(w.ptOf[sid]) && expiredByRef(w.endOf[sid]) {
							st["trace.fair-run.expired"]++
							if after.eng[sid] || (after.present[sid] && !after.marked[sid]) {
								viol = append(viol, [2]string{"expired-not-removed", fmt.Sprintf("shard %d (end %+d ns, duration %d) survived a run without failures: in store %v, listed %v marked %v", sid, w.endOf[sid], dRef, after.eng[sid], after.present[sid], after.marked[sid])})
							}
						}
					}
				}
				if removedAny {
					st["trace.run.deleting"]++
				}
				kept := false
				for sid := range after.eng {
					if !expiredByRef(w.endOf[sid]) {
						kept = true
					}
				}
				if removedAny && kept {
					st["nontrivial"]++
				}
			}
		})
		if perr != "" {
			if strings.Contains(perr, errTooSlow.Error()) {
				return nil, nil, errTooSlow
			}
			ans = "err " + perr
		}
		out = append(out, emitted{op: o.line(), ans: ans + " | " + dump(), viol: viol})
		st["trace.op."+o.kind]++
	}
	if time.Since(w.t0) > maxAge {
		return nil, nil, errTooSlow
	}
	return out, st, nil
}

func runTraces(c *hx.Ctx, root string, r *hx.Rng, n int) error {
	for k := 0; k < n; k++ {
		tr := genTrace(r.Fork())
		var out []emitted
		var st map[string]int
		var err error
		for try := 0; try < 25; try++ {
			out, st, err = playTrace(root, tr)
			if err != errTooSlow {
				break
			}
			c.Count("trace.retry-wallclock")
		}
		if err != nil {
			return err
		}
		key := ""
		for _, e := range out {
			line := c.Emit(e.op, e.ans)
			for _, v := range e.viol {
				c.Violation(line, v[0], v[1])
			}
			key += e.op + "\n"
		}
		for b, v := range st {
			if b != "nontrivial" {
				c.Stats.Hist[b] += v
			}
		}
		c.Case(key, st["nontrivial"] > 0)
		c.Count("trace")
		if k < 2 {
			var s []string
			for _, e := range out {
				s = append(s, e.op+" => "+e.ans)
			}
			c.Sample(strings.Join(s, " ;; "))
		}
	}
	return nil
}

// Run: -n is the number of tuple cases (each case asks ExpiredShards about ~10 shards and
// IsExpired about 8); traces = n/25 unless -D traces=k.
func Run(c *hx.Ctx) error {
	if !flag.Parsed() {
		_ = flag.CommandLine.Parse([]string{"-loggerLevel=ERROR"})
	}
	logger.SetLogger(zap.NewNop())
	root := filepath.Join(os.Getenv("VERIF_SCRATCH"), fmt.Sprintf("c14data-%d", os.Getpid()))
	if os.Getenv("VERIF_SCRATCH") == "" {
		root = filepath.Join("/var/tmp", fmt.Sprintf("c14data-%d", os.Getpid()))
	}
	// the worlds are small and short-lived, and creating / removing their directory trees is what
	// the run spends its time on when the disk is busy: keep them on tmpfs when there is one
	if st, err := os.Stat("/dev/shm"); err == nil && st.IsDir() {
		if old, _ := filepath.Glob("/dev/shm/verif-c14-*"); len(old) > 0 {
			for _, d := range old {
				// left behind by an earlier run (worlds with a closed shard are not removed while their
				// process lives: background goroutines of the index still look at the directories)
				if pid, err := strconv.Atoi(strings.TrimPrefix(filepath.Base(d), "verif-c14-")); err == nil {
					if _, err := os.Stat(fmt.Sprintf("/proc/%d", pid)); err != nil {
						_ = os.RemoveAll(d)
					}
				}
			}
		}
		shm := fmt.Sprintf("/dev/shm/verif-c14-%d", os.Getpid())
		if err := os.MkdirAll(shm, 0o755); err == nil {
			root = shm
		}
	}
	_ = os.RemoveAll(root)
	n := c.Budget(600, 60000)
	traces := n / 3
	if v := c.Arg("traces", ""); v != "" {
		traces, _ = strconv.Atoi(v)
	}
	if v := c.Arg("tuples", ""); v != "" {
		n, _ = strconv.Atoi(v)
	}
	c.Stats.Rule = "a tuple case is non-trivial when ExpiredShards reports at least one and keeps at least one of its candidates (every IsExpired tuple counts); a trace is non-trivial when some run deletes a shard from the store while another shard that is not expired under the refreshed duration stays; an index history (x) is non-trivial when some run deletes an index builder from the store while another index builder or a shard that is not expired stays"
	r := hx.NewRng(c.Seed)
	if err := runTuples(c, root, r.Fork(), n); err != nil {
		return err
	}
	if err := runTraces(c, root, r.Fork(), traces); err != nil {
		return err
	}
	// index side (index.go): histories over shards + their index builders + index groups
	xtraces := n / 4
	if v := c.Arg("xtraces", ""); v != "" {
		xtraces, _ = strconv.Atoi(v)
	}
	if err := runX(c, root, r.Fork(), xtraces); err != nil {
		return err
	}
	// catalogue side (align.go): which index group the shards of a new shard group are given
	gcases := n / 2
	if v := c.Arg("gcases", ""); v != "" {
		gcases, _ = strconv.Atoi(v)
	}
	if err := runG(c, r.Fork(), gcases); err != nil {
		return err
	}
	// shared-storage retention decided by the catalogue (shared.go)
	scases := n / 2
	if v := c.Arg("scases", ""); v != "" {
		scases, _ = strconv.Atoi(v)
	}
	if err := runS(c, r.Fork(), scases); err != nil {
		return err
	}
	// tier moves (tier.go)
	mcases := n / 3
	if v := c.Arg("mcases", ""); v != "" {
		mcases, _ = strconv.Atoi(v)
	}
	if err := runM(c, root, r.Fork(), mcases); err != nil {
		return err
	}
	// schema of a measurement under prunes (schema.go)
	ccases := n / 3
	if v := c.Arg("ccases", ""); v != "" {
		ccases, _ = strconv.Atoi(v)
	}
	if err := runC(c, r.Fork(), ccases); err != nil {
		return err
	}
	c.Stats.Notes = append(c.Stats.Notes,
		"time.Now is not injectable: every case keeps a 2 s margin around end+duration and is redone if it took longer than 1.2 s; the exact boundary instant is covered by the regenerated expression and expired_iff only",
		"the write-side window test (checkDBRP / routeAndMapOriginRows) is regenerated and proved about, not driven dynamically")
	return nil
}
