package c14

// The `m` stream: which shards FetchShardsNeedChangeStore hands to the tier mover.  A pool of
// real shards (as in the tuple stream); tier and tier duration go in through the service's own
// entry point (UpdateShardDurationInfo), end + tierDuration sits at now ± {2 s … one group}.

import (
	"fmt"
	"sort"
	"strings"
	"time"

	"github.com/openGemini/openGemini/lib/util/lifted/influx/meta"

	"verif/harness/internal/hx"
)

func runM(c *hx.Ctx, root string, r *hx.Rng, n int) error {
	const batch = 48
	slow := 0
	for done := 0; done < n; {
		k := batch
		if n-done < k {
			k = n - done
		}
		seed := r.U64()
		var out []emitted
		var err error
		for {
			out, err = tierBatch(root, hx.NewRng(seed), k)
			if err != errTooSlow {
				break
			}
			c.Count("m.retry-wallclock")
			if slow++; slow > 40 {
				return errTooSlow
			}
		}
		if err != nil {
			return err
		}
		for i, e := range out {
			line := c.Emit(e.op, e.ans)
			for _, v := range e.viol {
				c.Violation(line, v[0], v[1])
			}
			c.Case(e.op, e.nontrivial)
			if done == 0 && i < 1 {
				c.Sample(e.op + " => " + e.ans)
			}
		}
		c.Stats.Hist["m.case"] += len(out)
		done += k
	}
	return nil
}

func tierBatch(root string, r *hx.Rng, k int) (out []emitted, err error) {
	G := []int64{hour, 24 * hour, 168 * hour}[r.Intn(3)]
	p, err := newPool(root, r, G)
	if err != nil {
		return nil, err
	}
	defer p.w.close()
	for done := 0; done < k; done++ {
		cr := r.Fork()
		type it struct {
			sid      uint64
			tier     uint64
			td, rel  int64
			expected string
		}
		var items []it
		scratch := map[uint64]*meta.ShardDurationInfo{}
		var warm, cold []uint64
		perr := hx.Safe(func() {
			for _, ps := range p.shards {
				if !ps.idx {
					continue
				}
				tier := uint64([]int{0, 1, 1, 2, 2, 3, 4}[cr.Intn(7)])
				td := pickDur(cr, ps.endRel, G)
				if td < 0 {
					td = -td
					for abs(addSat(ps.endRel, td)) < margin {
						td += margin
					}
				}
				info := &meta.ShardDurationInfo{Ident: meta.ShardIdentifier{ShardID: ps.sid, ShardGroupID: ps.sid, OwnerDb: dbName, OwnerPt: 0, Policy: rpName},
					DurationInfo: meta.DurationDescriptor{Duration: 0, Tier: tier, TierDuration: time.Duration(td)}}
				if err := p.w.eng.UpdateShardDurationInfo(info, &scratch); err != nil {
					panic(err)
				}
				items = append(items, it{sid: ps.sid, tier: tier, td: td, rel: ps.endRel})
			}
			w, c := p.w.eng.FetchShardsNeedChangeStore()
			for _, x := range w {
				warm = append(warm, x.ShardID)
			}
			for _, x := range c {
				cold = append(cold, x.ShardID)
			}
		})
		if time.Since(p.w.t0) > maxAge {
			return nil, errTooSlow
		}
		sort.Slice(warm, func(i, j int) bool { return warm[i] < warm[j] })
		sort.Slice(cold, func(i, j int) bool { return cold[i] < cold[j] })
		var txt []string
		for _, x := range items {
			txt = append(txt, fmt.Sprintf("%d:%d:%d:%d", x.sid, x.tier, x.td, x.rel))
		}
		em := emitted{op: "m " + strings.Join(txt, ","), ans: fmt.Sprintf("warm [%s] cold [%s]", joinU(warm), joinU(cold))}
		if perr != "" {
			em.ans = "err " + perr
		}
		inW, inC := map[uint64]bool{}, map[uint64]bool{}
		for _, s := range warm {
			inW[s] = true
		}
		for _, s := range cold {
			inC[s] = true
		}
		// the property: handed to the mover <=> tier duration set, end + tierDuration passed, not cold;
		// the two-index-less shard objects of the pool keep tier 0 / duration 0 and never move
		for _, x := range items {
			due := x.td != 0 && addSat(x.rel, x.td) < 0 && x.tier != 3
			if (inW[x.sid] || inC[x.sid]) != due {
				em.viol = append(em.viol, [2]string{"tier-move-wrong", fmt.Sprintf("shard %d tier %d tierDuration %d end %+d: handed to the mover %v, due %v", x.sid, x.tier, x.td, x.rel, inW[x.sid] || inC[x.sid], due)})
			}
			if inW[x.sid] && x.tier != 1 {
				em.viol = append(em.viol, [2]string{"tier-move-wrong", fmt.Sprintf("shard %d of tier %d listed for the move to warm", x.sid, x.tier)})
			}
		}
		em.nontrivial = len(warm)+len(cold) > 0 && len(warm)+len(cold) < len(items)
		out = append(out, em)
	}
	return out, nil
}
