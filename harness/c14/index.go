package c14

// The `x` stream: the index side of retention.
//
// One real engine with one owned partition, a catalogue (the real meta.Data) whose policy has
// index groups that span several shard groups, and the real retention.Service.handle() on top:
// refresh of both sides (DurationInfos -> UpdateShardDurationInfo, IndexDurationInfos ->
// UpdateIndexDurationInfo, each through Marshal/Unmarshal as the client receives them),
// ExpiredShards + shard loop, ExpiredIndexes + index loop (DeleteIndexGroup, DeleteIndex,
// PruneGroups(false, id)), ExpiredCacheIndexes + ClearIndexCache.
//
// Histories: ALTER finite -> finite (raise / lower), finite -> 0, 0 -> finite, landing before a
// run, between the two refresh calls, or right after them; refresh calls that do not reach meta;
// clock ticks across end + duration of shard groups and of index groups (time.Now cannot be
// injected: a tick of dt moves every time range of the store and of the catalogue by -dt through
// the hooks engine.VerifShiftShardTime / DBPTInfo.VerifShiftIndexTime); shards created before /
// between / inside runs, shards closing (no index builder: nilShardMap), indexes the store has
// not created yet (nilIndexMap); delete / mark / prune calls that fail.
//
// impl.out: the exact call log of the run + a dump of store and catalogue after every op.
// viol.out (oracle written in Go, independent of the model): an index reported as expired
// although the policy duration meta handed out in this run keeps it (class
// index-expired-under-unlimited when that duration is 0), an index deleted while a shard object
// that uses it is not expired under that duration, the same for shards, calls after a failed
// refresh, an expired index that survives a run without failures.

import (
	"fmt"
	"os"
	"path/filepath"
	"sort"
	"strconv"
	"strings"
	"time"

	"github.com/openGemini/openGemini/engine"
	"github.com/openGemini/openGemini/lib/config"
	"github.com/openGemini/openGemini/lib/errno"
	"github.com/openGemini/openGemini/lib/logger"
	"github.com/openGemini/openGemini/lib/metaclient"
	"github.com/openGemini/openGemini/lib/util/lifted/influx/meta"
	"github.com/openGemini/openGemini/services/retention"
	"go.uber.org/zap"

	"verif/harness/internal/hx"
)

// ---------------------------------------------------------------------------------------
// the generated history

type xsh struct { // catalogue shard (one owned shard per shard group)
	sid, gid, iid    uint64
	startRel, endRel int64
	shared           bool
}

type xix struct { // catalogue index (one owned index per index group)
	iid, igid        uint64
	startRel, endRel int64
	shared           bool
}

type xout struct{ mark, del, prune bool }

var xgood = xout{true, true, true}

type xop struct {
	kind     string // tick alter load close run
	d        int64
	sid      uint64
	okS, okI bool
	a1, a2   *int64
	lm       uint64 // shard created on the store right after meta answered the index side of the refresh (0 = none)
	outS     map[uint64]xout
	outI     map[uint64]xout
}

type xtrace struct {
	mis bool // some shard group ends after its index group
	d0  int64
	sh  []xsh
	ix  []xix
	ops []xop
}

func (t *xtrace) newLine() string {
	var a, b []string
	for _, s := range t.sh {
		a = append(a, fmt.Sprintf("%d:%d:%d:%d:0:0:%s", s.sid, s.gid, s.iid, s.endRel, bit(s.shared)))
	}
	for _, x := range t.ix {
		b = append(b, fmt.Sprintf("%d:%d:%d:%d:0:0:%s", x.iid, x.igid, x.startRel, x.endRel, bit(x.shared)))
	}
	return fmt.Sprintf("x new %d %s %s", t.d0, orDash(strings.Join(a, ";")), orDash(strings.Join(b, ";")))
}

func fmtXOut(m map[uint64]xout) string {
	var ks []uint64
	for k := range m {
		ks = append(ks, k)
	}
	sort.Slice(ks, func(i, j int) bool { return ks[i] < ks[j] })
	var s []string
	for _, k := range ks {
		o := m[k]
		s = append(s, fmt.Sprintf("%d=%s.%s.%s", k, bit(o.mark), bit(o.del), bit(o.prune)))
	}
	return orDash(strings.Join(s, ","))
}

func optI(p *int64) string {
	if p == nil {
		return "-"
	}
	return strconv.FormatInt(*p, 10)
}

func (o *xop) line() string {
	switch o.kind {
	case "tick":
		return fmt.Sprintf("x tick %d", o.d)
	case "alter":
		return fmt.Sprintf("x alter %d", o.d)
	case "load":
		return fmt.Sprintf("x load %d", o.sid)
	case "close":
		return fmt.Sprintf("x close %d", o.sid)
	case "offload":
		return "x offload"
	case "rollback":
		return "x rollback"
	case "run":
		lm := "-"
		if o.lm != 0 {
			lm = fmt.Sprint(o.lm)
		}
		return fmt.Sprintf("x run %s %s %s %s %s %s %s", bit(o.okS), optI(o.a1), bit(o.okI), optI(o.a2), fmtXOut(o.outS), fmtXOut(o.outI), lm)
	}
	return "x ?"
}

// genX lays out 1..3 consecutive index groups of k shard-group slots each; some slots hold a
// shard group. The policy duration and the position of "now" are chosen so that the end of a
// shard group or of an index group plus some duration of the history falls near now.
func genX(r *hx.Rng) *xtrace {
	t := &xtrace{}
	G := []int64{hour, 24 * hour, 168 * hour}[r.Intn(3)]
	k := int64(1 + r.Intn(4)) // slots per index group
	nIG := 1 + r.Intn(3)
	ds := []int64{G, 2 * G, k * G, (k + 1) * G, 3*G + hour, 30 * 24 * hour}
	if r.Chance(12) {
		// the "keep forever" idioms: end + duration lies beyond the int64 nanosecond range (2262)
		ds = append(ds, 99999*day, 105000*day, 36500*day)
	}
	if r.Chance(20) {
		t.d0 = 0
	} else {
		t.d0 = ds[r.Intn(len(ds))]
	}
	// index group i covers [base + i*k*G, base + (i+1)*k*G)
	var ends []int64 // interesting ends relative to base = 0
	for i := 0; i < nIG; i++ {
		ends = append(ends, int64(i+1)*k*G)
		for s := int64(0); s < k; s++ {
			ends = append(ends, (int64(i)*k+s+1)*G)
		}
	}
	dl := append([]int64{G, G / 2}, deltas...)
	delta := dl[r.Intn(len(dl))]
	if r.Chance(25) {
		delta = -delta // mostly: nothing of the anchor has expired yet, the ticks get there
	}
	dAnchor := t.d0
	if dAnchor == 0 {
		dAnchor = ds[r.Intn(len(ds))]
	}
	// base such that  base + end + dAnchor = delta; the anchor is mostly one of the earliest ends
	ai := r.Intn(len(ends))
	if r.Chance(60) {
		ai = r.Intn(int(k) + 1)
	}
	base := delta - dAnchor - ends[ai]
	sid, gid := uint64(1), uint64(1)
	for i := 0; i < nIG; i++ {
		x := xix{iid: uint64(10*(i+1) + 1), igid: uint64(i + 1), startRel: base + int64(i)*k*G, endRel: base + int64(i+1)*k*G, shared: r.Chance(25)}
		t.ix = append(t.ix, x)
		for s := int64(0); s < k; s++ {
			if len(t.sh) >= 6 || (!r.Chance(70) && !(s == k-1 && r.Chance(50))) {
				continue
			}
			st := x.startRel + s*G
			t.sh = append(t.sh, xsh{sid: sid, gid: gid, iid: x.iid, startRel: st, endRel: st + G, shared: x.shared || r.Chance(15)})
			sid += 2
			gid++
		}
	}
	if r.Chance(15) && len(t.sh) > 0 {
		// a shard group that outlives its index group: what CreateShardGroup produces after
		// ALTER RETENTION POLICY ... SHARD DURATION raised the shard group duration (the new,
		// longer shard group is attached to the older, shorter index group that contains the timestamp)
		i := r.Intn(len(t.sh))
		x := t.ix[0]
		for _, c := range t.ix {
			if c.iid == t.sh[i].iid {
				x = c
			}
		}
		t.sh[i].endRel = x.endRel + int64(1+r.Intn(2))*k*G
		t.mis = true
	}
	if len(t.sh) == 0 {
		x := t.ix[0]
		t.sh = append(t.sh, xsh{sid: 1, gid: 1, iid: x.iid, startRel: x.endRel - G, endRel: x.endRel, shared: x.shared})
	}
	// every (end, duration) pair of the history keeps the margin around the virtual clock
	used := []int64{}
	vnow := int64(0)
	okAt := func(d, now int64) bool {
		if d == 0 {
			return true
		}
		for _, s := range t.sh {
			if abs(s.endRel+d-now) < margin {
				return false
			}
		}
		for _, x := range t.ix {
			if abs(x.endRel+d-now) < margin {
				return false
			}
		}
		return true
	}
	cacheOK := func(now int64) bool {
		for _, x := range t.ix {
			if abs(x.endRel+(x.endRel-x.startRel)-now) < margin {
				return false
			}
		}
		return true
	}
	pick := func() (int64, bool) {
		for try := 0; try < 10; try++ {
			var d int64
			switch c := r.Intn(10); {
			case c < 3:
				d = 0
			case c < 5:
				d = ds[r.Intn(len(ds))]
			default:
				es := []int64{}
				for _, s := range t.sh {
					es = append(es, s.endRel)
				}
				for _, x := range t.ix {
					es = append(es, x.endRel)
				}
				dd := dl[r.Intn(len(dl))]
				if r.Bool() {
					dd = -dd
				}
				d = vnow - es[r.Intn(len(es))] + dd
			}
			if d >= 0 && okAt(d, vnow) {
				return d, true
			}
		}
		return 0, true
	}
	if !okAt(t.d0, 0) || !cacheOK(0) {
		// shift everything a little instead of giving the case up
		for i := range t.sh {
			t.sh[i].startRel += 5 * sec
			t.sh[i].endRel += 5 * sec
		}
		for i := range t.ix {
			t.ix[i].startRel += 5 * sec
			t.ix[i].endRel += 5 * sec
		}
		if !okAt(t.d0, 0) || !cacheOK(0) {
			t.d0 = 0
		}
	}
	used = append(used, t.d0)
	alter := func() int64 {
		d, _ := pick()
		used = append(used, d)
		return d
	}
	loaded := map[uint64]bool{}
	off := false
	if r.Chance(85) {
		// the shards that were written to exist on the store before the first check
		for _, s := range t.sh {
			if r.Chance(75) {
				loaded[s.sid] = true
				t.ops = append(t.ops, xop{kind: "load", sid: s.sid})
			}
		}
	}
	nops := 5 + r.Intn(9)
	for n := 0; n < nops; n++ {
		switch c := r.Intn(100); {
		case c < 3:
			// the partition is being offloaded to another store (PreOffload), or the offload is rolled back
			if off {
				t.ops = append(t.ops, xop{kind: "rollback"})
			} else {
				t.ops = append(t.ops, xop{kind: "offload"})
			}
			off = !off
		case c < 12:
			s := t.sh[r.Intn(len(t.sh))].sid
			if r.Chance(4) {
				s = 98 // not in the catalogue
			}
			loaded[s] = true
			t.ops = append(t.ops, xop{kind: "load", sid: s})
		case c < 17:
			if len(loaded) == 0 {
				continue
			}
			var ls []uint64
			for s := range loaded {
				ls = append(ls, s)
			}
			sort.Slice(ls, func(i, j int) bool { return ls[i] < ls[j] })
			t.ops = append(t.ops, xop{kind: "close", sid: ls[r.Intn(len(ls))]})
		case c < 37:
			t.ops = append(t.ops, xop{kind: "alter", d: alter()})
		case c < 62:
			// a tick: across some end + duration, or just time passing
			cands := []int64{G / 2, G, 2 * G, k * G, hour, 60 * sec}
			for _, s := range t.sh {
				for _, d := range used {
					if d != 0 {
						cands = append(cands, s.endRel+d-vnow+3*sec, s.endRel+d-vnow-3*sec)
					}
				}
			}
			for _, x := range t.ix {
				for _, d := range used {
					if d != 0 {
						cands = append(cands, x.endRel+d-vnow+3*sec, x.endRel+d-vnow-3*sec)
					}
				}
			}
			back := r.Chance(6) // the wall clock is set back
			for try := 0; try < 8; try++ {
				dt := cands[r.Intn(len(cands))]
				if dt <= 0 {
					continue
				}
				if back {
					dt = -dt
				}
				good := cacheOK(vnow + dt)
				for _, d := range used {
					good = good && okAt(d, vnow+dt)
				}
				if good {
					vnow += dt
					t.ops = append(t.ops, xop{kind: "tick", d: dt})
					break
				}
			}
		default:
			o := xop{kind: "run", okS: !r.Chance(6), okI: !r.Chance(6), outS: map[uint64]xout{}, outI: map[uint64]xout{}}
			if r.Chance(10) {
				d := alter()
				o.a1 = &d
			}
			if r.Chance(10) {
				d := alter()
				o.a2 = &d
			}
			if r.Chance(12) {
				o.lm = t.sh[r.Intn(len(t.sh))].sid
			}
			for _, s := range t.sh {
				if r.Chance(12) {
					o.outS[s.sid] = xout{!r.Chance(40), !r.Chance(50), !r.Chance(40)}
				}
			}
			for _, x := range t.ix {
				if r.Chance(15) {
					o.outI[x.iid] = xout{!r.Chance(40), !r.Chance(50), !r.Chance(40)}
				}
			}
			t.ops = append(t.ops, o)
		}
	}
	if off && r.Chance(70) {
		t.ops = append(t.ops, xop{kind: "rollback"})
	}
	t.ops = append(t.ops, xop{kind: "run", okS: true, okI: true, outS: map[uint64]xout{}, outI: map[uint64]xout{}})
	return t
}

// ---------------------------------------------------------------------------------------
// the world

type xworld struct {
	dir    string
	eng    *engine.EngineImpl
	data   *meta.Data
	rpi    *meta.RetentionPolicyInfo
	t0     time.Time
	vnow   int64
	closed bool
	ack    int64
	shOf   map[uint64]*xsh
	ixOf   map[uint64]*xix
}

func newXWorld(root string, t *xtrace) (*xworld, error) {
	worldSeq++
	w := &xworld{dir: filepath.Join(root, fmt.Sprintf("x%d", worldSeq)), shOf: map[uint64]*xsh{}, ixOf: map[uint64]*xix{}}
	e, err := engine.NewEngine(filepath.Join(w.dir, "d"), filepath.Join(w.dir, "w"), engine.NewEngineOptions(), loadCtx())
	if err != nil {
		return nil, err
	}
	w.eng = e.(*engine.EngineImpl)
	w.ack = t.d0
	w.rpi = &meta.RetentionPolicyInfo{Name: rpName, Duration: time.Duration(t.d0), ReplicaN: 1, ShardGroupDuration: time.Hour, IndexGroupDuration: time.Hour}
	w.data = &meta.Data{Databases: map[string]*meta.DatabaseInfo{dbName: {Name: dbName, DefaultRetentionPolicy: rpName,
		RetentionPolicies: map[string]*meta.RetentionPolicyInfo{rpName: w.rpi}}}}
	cl := metaclient.NewClient("", false, 0)
	cl.SetCacheData(w.data)
	w.eng.SetMetaClient(cl)
	w.eng.CreateDBPT(dbName, 0, false)
	w.t0 = time.Now()
	at := func(rel int64) time.Time { return w.t0.Add(time.Duration(rel)) }
	for i := range t.ix {
		x := &t.ix[i]
		w.ixOf[x.iid] = x
		ig := meta.IndexGroupInfo{ID: x.igid, StartTime: at(x.startRel), EndTime: at(x.endRel), EngineType: config.TSSTORE,
			Indexes: []meta.IndexInfo{{ID: x.iid, Owners: []uint32{0}}}}
		if x.shared {
			ig.Indexes = append(ig.Indexes, meta.IndexInfo{ID: x.iid + 1, Owners: []uint32{1}})
		}
		w.rpi.IndexGroups = append(w.rpi.IndexGroups, ig)
	}
	for i := range t.sh {
		s := &t.sh[i]
		w.shOf[s.sid] = s
		g := meta.ShardGroupInfo{ID: s.gid, StartTime: at(s.startRel), EndTime: at(s.endRel), EngineType: config.TSSTORE,
			Shards: []meta.ShardInfo{{ID: s.sid, Owners: []uint32{0}, IndexID: s.iid}}}
		if s.shared {
			g.Shards = append(g.Shards, meta.ShardInfo{ID: s.sid + 1, Owners: []uint32{1}, IndexID: s.iid + 1})
		}
		w.rpi.ShardGroups = append(w.rpi.ShardGroups, g)
	}
	return w, nil
}

func (w *xworld) close() {
	if err := w.eng.Close(); err == nil && !w.closed {
		_ = os.RemoveAll(w.dir)
	}
}

// alter: the policy duration changes through the command path (cmd.go). ack = the duration of
// the last ALTER that was acknowledged (what the user may rely on).
func (w *xworld) alter(d int64) error {
	err := applyAlterCmd(w.data, dbName, rpName, rpCmd{dur: i64(d)})
	if err == nil {
		w.ack = d
	}
	return err
}

func (w *xworld) pt() *engine.DBPTInfo { return w.eng.DBPartitions[dbName][0] }

func (w *xworld) shardIDs() []uint64 {
	var ids []uint64
	for sid := range w.shOf {
		if w.pt().Shard(sid) != nil {
			ids = append(ids, sid)
		}
	}
	sort.Slice(ids, func(i, j int) bool { return ids[i] < ids[j] })
	return ids
}

func (w *xworld) indexIDs() []uint64 {
	ids := w.pt().VerifIndexBuilderIDs()
	sort.Slice(ids, func(i, j int) bool { return ids[i] < ids[j] })
	return ids
}

// tick: the clock advances by dt = every time range moves by -dt.
func (w *xworld) tick(dt int64) {
	d := -time.Duration(dt)
	w.vnow += dt
	for _, sid := range w.shardIDs() {
		engine.VerifShiftShardTime(w.pt().Shard(sid), d)
	}
	for _, id := range w.indexIDs() {
		w.pt().VerifShiftIndexTime(id, d)
	}
	for i := range w.rpi.ShardGroups {
		g := &w.rpi.ShardGroups[i]
		g.StartTime, g.EndTime = g.StartTime.Add(d), g.EndTime.Add(d)
	}
	for i := range w.rpi.IndexGroups {
		g := &w.rpi.IndexGroups[i]
		g.StartTime, g.EndTime = g.StartTime.Add(d), g.EndTime.Add(d)
	}
}

func (w *xworld) catHasIndex(iid uint64) bool {
	for i := range w.rpi.IndexGroups {
		for _, x := range w.rpi.IndexGroups[i].Indexes {
			if x.ID == iid {
				return true
			}
		}
	}
	return false
}

// load: what the first write into the shard does on the store (CreateShard with the time
// ranges and the duration of the catalogue).
func (w *xworld) load(sid uint64) (string, error) {
	s, ok := w.shOf[sid]
	if !ok || w.pt().Shard(sid) != nil {
		return "noop", nil
	}
	tri := w.rpi.TimeRangeInfo(sid)
	if tri == nil {
		return "noop", nil
	}
	if _, _, have := w.pt().VerifIndexDuration(s.iid); !have && !w.catHasIndex(s.iid) {
		// the index group left the catalogue and the store: the catalogue would hand out a zero
		// time range for the index; the model does not create such a shard either
		return "noop", nil
	}
	if err := w.eng.CreateShard(dbName, rpName, 0, sid, tri, &meta.MeasurementInfo{EngineType: config.TSSTORE}); err != nil {
		return "", err
	}
	return "ok", nil
}

func (w *xworld) dump() string {
	var sh, ix []string
	type ent struct {
		id uint64
		s  string
	}
	var cs, ci []ent
	for _, sid := range w.shardIDs() {
		s := w.pt().Shard(sid)
		sh = append(sh, fmt.Sprintf("%d:%d:%d:%s", sid, s.GetIdent().ShardGroupID, int64(s.GetDuration().Duration), bit(s.GetIndexBuilder() != nil)))
	}
	for _, id := range w.indexIDs() {
		d, g, _ := w.pt().VerifIndexDuration(id)
		ix = append(ix, fmt.Sprintf("%d:%d:%d", id, g, int64(d)))
	}
	for i := range w.rpi.ShardGroups {
		g := &w.rpi.ShardGroups[i]
		for _, s := range g.Shards {
			if s.Owners[0] == 0 {
				cs = append(cs, ent{s.ID, fmt.Sprintf("%d:%s:%s", s.ID, bit(g.Deleted()), bit(s.MarkDelete))})
			}
		}
	}
	for i := range w.rpi.IndexGroups {
		g := &w.rpi.IndexGroups[i]
		for _, x := range g.Indexes {
			if x.Owners[0] == 0 {
				ci = append(ci, ent{x.ID, fmt.Sprintf("%d:%s:%s", x.ID, bit(g.Deleted()), bit(x.MarkDelete))})
			}
		}
	}
	txt := func(es []ent) string {
		sort.SliceStable(es, func(i, j int) bool { return es[i].id < es[j].id })
		var s []string
		for _, e := range es {
			s = append(s, e.s)
		}
		return strings.Join(s, ",")
	}
	return fmt.Sprintf("d=%d sh=[%s] ix=[%s] cs=[%s] ci=[%s]", int64(w.rpi.Duration), strings.Join(sh, ","), strings.Join(ix, ","), txt(cs), txt(ci))
}

// ---------------------------------------------------------------------------------------
// the service's two collaborators

type xmeta struct {
	w        *xworld
	op       *xop
	calls    *[]string
	e        *xeng
	refS     *int64 // policy duration when the shard side was answered
	refI     *int64
	listed   map[uint64]bool // index ids IndexDurationInfos listed in this run
	listedS  map[uint64]bool // shard ids DurationInfos listed in this run
	lmMade   bool            // … and made a new shard object
	lmDone   bool            // the mid-run shard creation of this run has happened
	lmDur    int64           // the policy duration at that moment (what a builder created then holds)
	reloaded func(sid uint64)
}

func (m *xmeta) GetShardDurationInfo(index uint64) (*meta.ShardDurationResponse, error) {
	if !m.op.okS {
		*m.calls = append(*m.calls, "RS0")
		return nil, errInjected
	}
	r := m.w.data.DurationInfos(map[string][]uint32{dbName: {0}})
	b, err := r.MarshalBinary()
	if err != nil {
		return nil, err
	}
	out := &meta.ShardDurationResponse{}
	if err := out.UnmarshalBinary(b); err != nil {
		return nil, err
	}
	for i := range out.Durations {
		m.listedS[out.Durations[i].Ident.ShardID] = true
	}
	*m.refS = int64(m.w.rpi.Duration)
	*m.calls = append(*m.calls, "RS1")
	if m.op.a1 != nil {
		_ = m.w.alter(*m.op.a1)
	}
	return out, nil
}

func (m *xmeta) GetIndexDurationInfo(index uint64) (*meta.IndexDurationResponse, error) {
	if !m.op.okS && m.op.a1 != nil {
		// the alteration lands between the two calls whether or not the first one was answered
		_ = m.w.alter(*m.op.a1)
	}
	if !m.op.okI {
		*m.calls = append(*m.calls, "RI0")
		if m.op.a2 != nil {
			_ = m.w.alter(*m.op.a2)
		}
		return nil, errInjected
	}
	r := m.w.data.IndexDurationInfos(map[string][]uint32{dbName: {0}})
	b, err := r.MarshalBinary()
	if err != nil {
		return nil, err
	}
	out := &meta.IndexDurationResponse{}
	if err := out.UnmarshalBinary(b); err != nil {
		return nil, err
	}
	for i := range out.Durations {
		m.listed[out.Durations[i].Ident.IndexID] = true
	}
	*m.refI = int64(m.w.rpi.Duration)
	*m.calls = append(*m.calls, "RI1")
	if m.op.a2 != nil {
		_ = m.w.alter(*m.op.a2)
	}
	return out, nil
}

// loadMid: a write reaches the store while the retention check is between its refresh and its
// expiry tests: the shard (and its index builder, if the partition has none) is created now.
func (m *xmeta) loadMid() {
	if m.op.lm == 0 || m.lmDone {
		return
	}
	m.lmDone = true
	m.lmDur = int64(m.w.rpi.Duration)
	if r, err := m.w.load(m.op.lm); err != nil {
		*m.calls = append(*m.calls, "L!"+err.Error())
	} else if r == "ok" {
		m.lmMade = true
		if m.reloaded != nil {
			m.reloaded(m.op.lm)
		}
	}
}

func (m *xmeta) outS(sid uint64) xout {
	if o, ok := m.op.outS[sid]; ok {
		return o
	}
	return xgood
}

func (m *xmeta) outI(iid uint64) xout {
	if o, ok := m.op.outI[iid]; ok {
		return o
	}
	return xgood
}

func (m *xmeta) DeleteShardGroup(database, policy string, id uint64, deleteType int32) error {
	sid := m.e.nextS()
	if deleteType != meta.MarkDelete || database != dbName || policy != rpName {
		*m.calls = append(*m.calls, fmt.Sprintf("M?%s/%s/%d/%d", database, policy, id, deleteType))
	}
	if !m.outS(sid).mark {
		*m.calls = append(*m.calls, fmt.Sprintf("M%d:0", id))
		return errInjected
	}
	err := m.w.data.DeleteShardGroup(database, policy, id, 0, deleteType)
	*m.calls = append(*m.calls, fmt.Sprintf("M%d:%s", id, bit(err == nil)))
	return err
}

func (m *xmeta) DeleteIndexGroup(database, policy string, id uint64) error {
	iid := m.e.nextI()
	if database != dbName || policy != rpName {
		*m.calls = append(*m.calls, fmt.Sprintf("m?%s/%s/%d", database, policy, id))
	}
	if !m.outI(iid).mark {
		*m.calls = append(*m.calls, fmt.Sprintf("m%d:0", id))
		return errInjected
	}
	err := m.w.data.DeleteIndexGroup(database, policy, id)
	*m.calls = append(*m.calls, fmt.Sprintf("m%d:%s", id, bit(err == nil)))
	return err
}

func (m *xmeta) PruneGroupsCommand(shardGroup bool, id uint64) error {
	tag, ok := "P", m.outS(id).prune
	if !shardGroup {
		tag, ok = "p", m.outI(id).prune
	}
	if !ok {
		*m.calls = append(*m.calls, fmt.Sprintf("%s%d:0", tag, id))
		return errInjected
	}
	res := "1"
	if perr := hx.Safe(func() {
		if err := m.w.data.PruneGroups(shardGroup, id); err != nil {
			res = "err"
		}
	}); perr != "" {
		res = "panic"
	}
	*m.calls = append(*m.calls, fmt.Sprintf("%s%d:%s", tag, id, res))
	return nil
}

func (m *xmeta) DelayDeleteShardGroup(database, policy string, id uint64, deletedAt time.Time, deleteType int32) error {
	*m.calls = append(*m.calls, "unexpected-DelayDeleteShardGroup")
	return nil
}
func (m *xmeta) GetExpiredShards() ([]meta.ExpiredShardInfos, []meta.ExpiredShardInfos) {
	*m.calls = append(*m.calls, "unexpected-GetExpiredShards")
	return nil, nil
}
func (m *xmeta) GetExpiredIndexes() []meta.ExpiredIndexInfos {
	*m.calls = append(*m.calls, "unexpected-GetExpiredIndexes")
	return nil
}

// xeng: the real EngineImpl, recorded; deletes can be made to fail.
type xeng struct {
	w          *xworld
	m          *xmeta
	calls      *[]string
	repS, repI []uint64
	repIEnd    map[uint64]int64 // end (relative, virtual clock) the report carried
	repC       []uint64
	posS, posI int
	usersAtI   map[uint64][]uint64 // shard objects holding index iid when ExpiredIndexes ran
	ixAtI      map[uint64]bool     // index builders the partition held when ExpiredIndexes ran
	age        time.Duration
}

func (e *xeng) nextS() uint64 {
	if e.posS < len(e.repS) {
		e.posS++
		return e.repS[e.posS-1]
	}
	return 0
}

func (e *xeng) nextI() uint64 {
	if e.posI < len(e.repI) {
		e.posI++
		return e.repI[e.posI-1]
	}
	return 0
}

func (e *xeng) UpdateShardDurationInfo(info *meta.ShardDurationInfo, nm *map[uint64]*meta.ShardDurationInfo) error {
	return e.w.eng.UpdateShardDurationInfo(info, nm)
}

func (e *xeng) UpdateIndexDurationInfo(info *meta.IndexDurationInfo, nm *map[uint64]*meta.IndexDurationInfo) error {
	return e.w.eng.UpdateIndexDurationInfo(info, nm)
}

func (e *xeng) ExpiredShards(nm *map[uint64]*meta.ShardDurationInfo) []*meta.ShardIdentifier {
	var nk []uint64
	for k := range *nm {
		nk = append(nk, k)
	}
	sort.Slice(nk, func(i, j int) bool { return nk[i] < nk[j] })
	e.m.loadMid() // both sides of the refresh have been applied; the expiry tests follow
	res := e.w.eng.ExpiredShards(nm)
	e.age = time.Since(e.w.t0)
	sort.SliceStable(res, func(i, j int) bool { return res[i].ShardID < res[j].ShardID })
	e.repS, e.posS = e.repS[:0], 0
	for _, r := range res {
		e.repS = append(e.repS, r.ShardID)
	}
	*e.calls = append(*e.calls, fmt.Sprintf("NS[%s] XS[%s]", joinU(nk), joinU(e.repS)))
	return res
}

func (e *xeng) ExpiredIndexes(nm *map[uint64]*meta.IndexDurationInfo) []*meta.IndexIdentifier {
	var nk []uint64
	for k := range *nm {
		nk = append(nk, k)
	}
	sort.Slice(nk, func(i, j int) bool { return nk[i] < nk[j] })
	res := e.w.eng.ExpiredIndexes(nm)
	e.age = time.Since(e.w.t0)
	sort.SliceStable(res, func(i, j int) bool { return res[i].Index.IndexID < res[j].Index.IndexID })
	e.repI, e.posI = e.repI[:0], 0
	e.repIEnd = map[uint64]int64{}
	e.usersAtI = map[uint64][]uint64{}
	for _, r := range res {
		e.repI = append(e.repI, r.Index.IndexID)
		e.repIEnd[r.Index.IndexID] = int64(r.Index.TimeRange.EndTime.Sub(e.w.t0)) + e.w.vnow
	}
	for _, sid := range e.w.shardIDs() {
		iid := e.w.shOf[sid].iid
		e.usersAtI[iid] = append(e.usersAtI[iid], sid)
	}
	e.ixAtI = map[uint64]bool{}
	for _, id := range e.w.indexIDs() {
		e.ixAtI[id] = true
	}
	*e.calls = append(*e.calls, fmt.Sprintf("NI[%s] XI[%s]", joinU(nk), joinU(e.repI)))
	return res
}

func (e *xeng) ExpiredCacheIndexes() []*meta.IndexIdentifier {
	res := e.w.eng.ExpiredCacheIndexes()
	e.age = time.Since(e.w.t0)
	sort.SliceStable(res, func(i, j int) bool { return res[i].Index.IndexID < res[j].Index.IndexID })
	e.repC = e.repC[:0]
	for _, r := range res {
		e.repC = append(e.repC, r.Index.IndexID)
	}
	*e.calls = append(*e.calls, fmt.Sprintf("XC[%s]", joinU(e.repC)))
	return res
}

func (e *xeng) DeleteShard(db string, ptId uint32, shardID uint64) error {
	if !e.m.outS(shardID).del {
		*e.calls = append(*e.calls, fmt.Sprintf("D%d:fail", shardID))
		return errInjected
	}
	err := e.w.eng.DeleteShard(db, ptId, shardID)
	res := "ok"
	switch {
	case err == nil:
	case errno.Equal(err, errno.ShardNotFound):
		res = "nf"
	case errno.Equal(err, errno.ErrShardClosed):
		res = "closed"
	case errno.Equal(err, errno.PtIsAlreadyMigrating):
		res = "mig"
	default:
		res = "err:" + err.Error()
	}
	*e.calls = append(*e.calls, fmt.Sprintf("D%d:%s", shardID, res))
	return err
}

func (e *xeng) DeleteIndex(db string, ptId uint32, indexID uint64) error {
	if !e.m.outI(indexID).del {
		*e.calls = append(*e.calls, fmt.Sprintf("d%d:fail", indexID))
		return errInjected
	}
	err := e.w.eng.DeleteIndex(db, ptId, indexID)
	res := "ok"
	switch {
	case err == nil:
	case errno.Equal(err, errno.IndexNotFound):
		res = "nf"
	default:
		res = "err:" + err.Error()
	}
	*e.calls = append(*e.calls, fmt.Sprintf("d%d:%s", indexID, res))
	return err
}

func (e *xeng) ClearIndexCache(db string, ptId uint32, indexID uint64) error {
	return e.w.eng.ClearIndexCache(db, ptId, indexID)
}

// ---------------------------------------------------------------------------------------
// playing one history

func histText(t *xtrace, upto int) string {
	s := []string{t.newLine()}
	for i := 0; i <= upto && i < len(t.ops); i++ {
		s = append(s, t.ops[i].line())
	}
	return strings.Join(s, " ;; ")
}

func playX(root string, t *xtrace) (out []emitted, st map[string]int, err error) {
	st = map[string]int{}
	w, err := newXWorld(root, t)
	if err != nil {
		return nil, nil, err
	}
	defer w.close()
	retention.SetShardDeletionDelay(60 * time.Second)
	var calls []string
	var refS, refI int64 = t.d0, t.d0
	svc := retention.NewService(time.Hour)
	svc.Logger = logger.NewLogger(errno.ModuleUnknown).SetZapLogger(zap.NewNop())
	xm := &xmeta{w: w, calls: &calls, refS: &refS, refI: &refI}
	xe := &xeng{w: w, m: xm, calls: &calls}
	xm.e = xe
	svc.MetaClient = xm
	svc.Engine = xe
	out = append(out, emitted{op: t.newLine(), ans: "ok | " + w.dump()})
	closedS := map[uint64]bool{}
	xm.reloaded = func(sid uint64) { delete(closedS, sid) }
	offloading := false
	expired := func(d, endRel int64) bool { return d != 0 && endRel+d < w.vnow }
	for i := range t.ops {
		o := &t.ops[i]
		var ans string
		var viol [][2]string
		perr := hx.Safe(func() {
			switch o.kind {
			case "tick":
				w.tick(o.d)
				ans = "ok"
			case "alter":
				// ALTER RETENTION POLICY … DURATION d, as a command applied by the meta state machine
				if err := w.alter(o.d); err != nil {
					ans = "err"
				} else {
					ans = "ok"
				}
				if o.d == 0 && int64(w.rpi.Duration) != 0 {
					viol = append(viol, [2]string{"alter-to-unlimited-not-applied", fmt.Sprintf("ALTER RETENTION POLICY … DURATION INF was answered %q but the catalogue still holds duration %d ;; history: %s", ans, int64(w.rpi.Duration), histText(t, i))})
				} else if ans == "ok" && int64(w.rpi.Duration) != o.d {
					viol = append(viol, [2]string{"alter-not-applied", fmt.Sprintf("ALTER RETENTION POLICY … DURATION %d was acknowledged but the catalogue holds %d ;; history: %s", o.d, int64(w.rpi.Duration), histText(t, i))})
				}
			case "load":
				r, err := w.load(o.sid)
				if err != nil {
					ans = "err " + err.Error()
				} else {
					ans = r
					if r == "ok" {
						delete(closedS, o.sid) // a new shard object
					}
				}
			case "offload":
				if err := w.eng.PreOffload(1, dbName, 0); err != nil {
					ans = "err " + err.Error()
					return
				}
				offloading = true
				ans = "ok"
			case "rollback":
				if err := w.eng.RollbackPreOffload(1, dbName, 0); err != nil {
					ans = "err " + err.Error()
					return
				}
				offloading = false
				ans = "ok"
			case "close":
				if sh := w.pt().Shard(o.sid); sh != nil {
					if err := sh.Close(); err != nil && !errno.Equal(err, errno.ErrShardClosed) {
						ans = "err " + err.Error()
						return
					}
					closedS[o.sid] = true
					w.closed = true
				}
				ans = "ok"
			case "run":
				calls = calls[:0]
				xm.op = o
				xm.listed = map[uint64]bool{}
				xm.listedS = map[uint64]bool{}
				xe.repS, xe.repI, xe.repC = nil, nil, nil
				xe.usersAtI = map[uint64][]uint64{}
				ixBefore := map[uint64]bool{}
				for _, id := range w.indexIDs() {
					ixBefore[id] = true
				}
				shBefore := map[uint64]bool{}
				for _, id := range w.shardIDs() {
					shBefore[id] = true
				}
				xm.lmDone, xm.lmMade = false, false
				ack0 := w.ack
				svc.VerifHandle()
				xm.loadMid() // a run that stopped after a failed refresh: the write arrives all the same
				if offloading {
					st["x.run.while-offloading"]++
					for id := range shBefore {
						if w.pt().Shard(id) == nil {
							viol = append(viol, [2]string{"shard-deleted-while-offloading", fmt.Sprintf("shard %d left the store while its partition was being offloaded ;; history: %s", id, histText(t, i))})
						}
					}
				}
				if xe.age > maxAge || time.Since(w.t0) > maxAge {
					panic(errTooSlow)
				}
				ans = strings.Join(calls, " ")
				hist := histText(t, i)
				refreshed := o.okS && o.okI
				if !refreshed {
					for _, c := range calls {
						if !strings.HasPrefix(c, "RS") && !strings.HasPrefix(c, "RI") {
							viol = append(viol, [2]string{"acted-without-refresh", "the run went on although a refresh call failed: " + ans + " ;; history: " + hist})
							break
						}
					}
				}
				shAfter := map[uint64]bool{}
				for _, id := range w.shardIDs() {
					shAfter[id] = true
				}
				ixAfter := map[uint64]bool{}
				for _, id := range w.indexIDs() {
					ixAfter[id] = true
				}
				// ---- the durations meta hands out are the acknowledged policy (no alteration during this run)
				if refreshed && o.a1 == nil && o.a2 == nil {
					if refS != ack0 || refI != ack0 {
						viol = append(viol, [2]string{"refresh-hands-out-stale-duration", fmt.Sprintf("the acknowledged policy duration is %d, this run's refresh handed out %d (shards) / %d (indexes) ;; history: %s", ack0, refS, refI, hist)})
					}
					for _, sid := range xe.repS {
						if s := w.shOf[sid]; s != nil && xm.listedS[sid] && !expired(ack0, s.endRel) {
							gone := shBefore[sid] && w.pt().Shard(sid) == nil
							viol = append(viol, [2]string{"deleted-under-acknowledged-policy", fmt.Sprintf("shard %d (end %+d ns, clock %d) reported expired (deleted from the store: %v) although the acknowledged policy duration %d keeps it ;; history: %s", sid, s.endRel, w.vnow, gone, ack0, hist)})
						}
					}
					for _, iid := range xe.repI {
						if x := w.ixOf[iid]; x != nil && xm.listed[iid] && !expired(ack0, x.endRel) {
							viol = append(viol, [2]string{"deleted-under-acknowledged-policy", fmt.Sprintf("index %d (end %+d ns, clock %d) reported expired (deleted from the store: %v) although the acknowledged policy duration %d keeps it ;; history: %s", iid, x.endRel, w.vnow, ixBefore[iid] && !ixAfter[iid], ack0, hist)})
						}
					}
				}
				// ---- shards: reported => expired under what the shard side of this run got
				for _, sid := range xe.repS {
					s := w.shOf[sid]
					if s == nil {
						continue
					}
					if !xm.listedS[sid] {
						// the catalogue entry was pruned while the delete had failed: the shard object is an
						// orphan the refresh cannot reach (see raise_before_delete_keeps: "no orphan store shards")
						st["x.shard-reported.orphan"]++
						continue
					}
					st["x.shard-reported"]++
					if !expired(refS, s.endRel) {
						cls := "deleted-unexpired"
						if closedS[sid] {
							cls = "stale-duration-closing-shard"
						}
						viol = append(viol, [2]string{cls, fmt.Sprintf("shard %d (end %+d ns, clock %d) reported expired although the refreshed duration is %d ;; history: %s", sid, s.endRel, w.vnow, refS, hist)})
					}
				}
				// ---- indexes: reported => expired under what the index side of this run got,
				// and no shard object that holds the index is still inside the window
				for _, iid := range xe.repI {
					x := w.ixOf[iid]
					if x == nil || !xm.listed[iid] {
						st["x.index-reported.orphan"]++
						continue
					}
					st["x.index-reported"]++
					if ixBefore[iid] && !ixAfter[iid] {
						st["x.index-deleted"]++
					}
					// a builder created during this run (by the write that arrived after the refresh) holds the
					// policy duration of that moment: a decision by that duration is a decision by the policy too
					madeMidRun := o.lm != 0 && !ixBefore[iid] && w.shOf[o.lm] != nil && w.shOf[o.lm].iid == iid
					switch {
					case madeMidRun && expired(xm.lmDur, x.endRel):
						st["x.index-reported.made-mid-run"]++
					case refI == 0:
						viol = append(viol, [2]string{"index-expired-under-unlimited", fmt.Sprintf("index %d (group %d, end %+d ns, clock %d) reported expired although the policy is unlimited (duration 0 handed out by this run's refresh); deleted from the store: %v; shard objects holding it: %v ;; history: %s", iid, x.igid, x.endRel, w.vnow, ixBefore[iid] && !ixAfter[iid], xe.usersAtI[iid], hist)})
					case !expired(refI, x.endRel):
						viol = append(viol, [2]string{"index-reported-unexpired", fmt.Sprintf("index %d (group %d, end %+d ns, clock %d) reported expired although the refreshed duration is %d; deleted from the store: %v ;; history: %s", iid, x.igid, x.endRel, w.vnow, refI, ixBefore[iid] && !ixAfter[iid], hist)})
					}
					for _, sid := range xe.usersAtI[iid] {
						s := w.shOf[sid]
						if !xe.ixAtI[iid] {
							// the partition holds no builder for this index (an earlier run deleted it): the
							// report names the catalogue entry only, the shard objects hold a closed builder
							st["x.index-reported.not-in-store"]++
							break
						}
						if closedS[sid] {
							continue // a closing shard has let go of its index builder
						}
						if !xm.listedS[sid] {
							st["x.index-reported.orphan-holder"]++
							continue // an orphan shard object (see above): the refresh cannot reach it
						}
						// the shard loop of this run works with what the shard side of the refresh got
						if xm.lmMade && sid == o.lm && expired(xm.lmDur, s.endRel) {
							continue // a shard object made during this run holds the policy duration of that moment
						}
						if !expired(refS, s.endRel) {
							viol = append(viol, [2]string{"index-expired-under-live-shard", fmt.Sprintf("index %d reported expired while shard %d (end %+d ns, clock %d) that holds it is not expired under the policy duration %d this run's refresh handed out ;; history: %s", iid, sid, s.endRel, w.vnow, refS, hist)})
						}
					}
				}
				// ---- cache: only for limited policies, only after end + (end - start)
				for _, iid := range xe.repC {
					x := w.ixOf[iid]
					if x == nil {
						continue
					}
					st["x.cache-reported"]++
					if x.endRel+(x.endRel-x.startRel) >= w.vnow {
						viol = append(viol, [2]string{"cache-cleared-early", fmt.Sprintf("index %d cache reported expired before end + group length ;; history: %s", iid, hist)})
					}
				}
				// ---- a run without failures removes every expired listed index
				fair := refreshed && o.a1 == nil && o.a2 == nil && o.lm == 0 && len(o.outS) == 0 && len(o.outI) == 0
				if fair {
					st["x.fair-run"]++
					for iid := range xm.listed {
						x := w.ixOf[iid]
						if x == nil || !expired(refI, x.endRel) {
							continue
						}
						waits := false
						for _, sid := range xe.usersAtI[iid] {
							if !closedS[sid] && xm.listedS[sid] && !expired(refS, w.shOf[sid].endRel) {
								waits = true // a live shard still works with the index (shard group outlives the index group)
							}
						}
						if waits {
							st["x.fair-run.index-waits-for-live-shard"]++
							continue
						}
						st["x.fair-run.expired-index"]++
						live := false
						for i := range w.rpi.IndexGroups {
							for _, xi := range w.rpi.IndexGroups[i].Indexes {
								if xi.ID == iid && !xi.MarkDelete {
									live = true
								}
							}
						}
						if ixAfter[iid] || live {
							viol = append(viol, [2]string{"expired-index-not-removed", fmt.Sprintf("index %d (end %+d ns, duration %d, clock %d) survived a run without failures: in store %v, unmarked in the catalogue %v ;; history: %s", iid, x.endRel, refI, w.vnow, ixAfter[iid], live, hist)})
						}
					}
				}
				delI, keptI := false, false
				for id := range ixBefore {
					if !ixAfter[id] {
						delI = true
					} else {
						keptI = true
					}
				}
				if delI {
					st["x.run.deleting-index"]++
				}
				keptS := false
				for sid := range shAfter {
					if !expired(refS, w.shOf[sid].endRel) {
						keptS = true
					}
				}
				if delI && (keptI || keptS) {
					st["nontrivial"]++
				}
				if refreshed && refI == 0 {
					st["x.run.unlimited"]++
				}
				if t.mis {
					st["x.run.misaligned-layout"]++
				}
			}
		})
		if perr != "" {
			if strings.Contains(perr, errTooSlow.Error()) {
				return nil, nil, errTooSlow
			}
			ans = "err " + perr
		}
		out = append(out, emitted{op: o.line(), ans: ans + " | " + w.dump(), viol: viol})
		st["x.op."+o.kind]++
	}
	if time.Since(w.t0) > maxAge {
		return nil, nil, errTooSlow
	}
	return out, st, nil
}

func runX(c *hx.Ctx, root string, r *hx.Rng, n int) error {
	for k := 0; k < n; k++ {
		t := genX(r.Fork())
		var out []emitted
		var st map[string]int
		var err error
		for try := 0; try < 25; try++ {
			out, st, err = playX(root, t)
			if err != errTooSlow {
				break
			}
			c.Count("x.retry-wallclock")
		}
		if err != nil {
			return err
		}
		key := ""
		for _, e := range out {
			line := c.Emit(e.op, e.ans)
			for _, v := range e.viol {
				c.Violation(line, v[0], v[1])
			}
			key += e.op + "\n"
		}
		for b, v := range st {
			if b != "nontrivial" {
				c.Stats.Hist[b] += v
			}
		}
		c.Case(key, st["nontrivial"] > 0)
		c.Count("x.trace")
		if k < 2 {
			var s []string
			for _, e := range out {
				s = append(s, e.op+" => "+e.ans)
			}
			c.Sample(strings.Join(s, " ;; "))
		}
	}
	return nil
}
