package metax

import (
	"fmt"

	"github.com/openGemini/openGemini/lib/util/lifted/influx/meta"

	"verif/harness/internal/hx"
)

// Structured sub-sequences: the delete life cycle of a measurement (create, mark delete, drop =
// purge, create again) in its variants, with the policy's own life cycle around it. Independent
// random commands practically never line these up (the drop needs the versioned name of the
// incarnation that is current *then*), so they are generated as scripts whose steps are built
// when it is their turn, from the catalogue as it is at that moment.

// ScriptStep builds the next command from the current catalogue.
type ScriptStep func(d *meta.Data) Cmd

type Script struct {
	Name  string
	Steps []ScriptStep
}

func fixed(text string) ScriptStep {
	c := FromText(text)
	return func(*meta.Data) Cmd { return c }
}

// currentVersioned: the versioned name the policy's version table records for `mst` right now
// (what `DROP MEASUREMENT` purges after the mark), `mst_0000` if there is none.
func currentVersioned(d *meta.Data, db, rp, mst string) string {
	if dbi := d.Databases[db]; dbi != nil {
		if rpi := dbi.RetentionPolicies[rp]; rpi != nil {
			if v, ok := rpi.MstVersions[mst]; ok {
				return fmt.Sprintf("%s_%04x", mst, v.Version&0xffff)
			}
		}
	}
	return mst + "_0000"
}

func dropCurrent(db, rp, mst string) ScriptStep {
	return func(d *meta.Data) Cmd {
		return FromText(fmt.Sprintf("DropMeasurement %s %s %s", db, rp, currentVersioned(d, db, rp, mst)))
	}
}

// dropPrevious purges the incarnation before the current one (created while the old one was
// only marked).
func dropPrevious(db, rp, mst string) ScriptStep {
	return func(d *meta.Data) Cmd {
		ver := uint32(0)
		if dbi := d.Databases[db]; dbi != nil {
			if rpi := dbi.RetentionPolicies[rp]; rpi != nil {
				if v, ok := rpi.MstVersions[mst]; ok && v.Version > 0 {
					ver = v.Version - 1
				}
			}
		}
		return FromText(fmt.Sprintf("DropMeasurement %s %s %s_%04x", db, rp, mst, ver))
	}
}

// LifeCycles returns the script templates instantiated for one (database, policy, measurement).
// `other` is a second measurement name of the same policy.
func LifeCycles(db, rp, mst, other string) []Script {
	create := func(m string) ScriptStep {
		return fixed(fmt.Sprintf("CreateMeasurement %s %s %s hash:t0 0 f0:1:_", db, rp, m))
	}
	mark := func(m string) ScriptStep { return fixed(fmt.Sprintf("MarkMeasurementDelete %s %s %s", db, rp, m)) }
	sg := func(h int64) ScriptStep {
		return fixed(fmt.Sprintf("CreateShardGroup %s %s %d 1 0 0", db, rp, h*Hour))
	}
	schema := fixed(fmt.Sprintf("UpdateSchema %s %s %s f1:2:_", db, rp, mst))
	rpSpec := func(name string) string { return fmt.Sprintf("%s 1 %d %d 0 0 0 0 0", name, 7*Day, Day) }
	return []Script{
		{"full", []ScriptStep{create(mst), mark(mst), dropCurrent(db, rp, mst), create(mst)}},
		{"recreate-while-marked", []ScriptStep{create(mst), mark(mst), create(mst), dropPrevious(db, rp, mst), mark(mst), dropCurrent(db, rp, mst), create(mst)}},
		{"two-rounds", []ScriptStep{create(mst), mark(mst), dropCurrent(db, rp, mst), create(mst), mark(mst), dropCurrent(db, rp, mst), create(mst)}},
		{"with-sibling", []ScriptStep{create(mst), create(other), mark(mst), dropCurrent(db, rp, mst), create(mst), mark(other), dropCurrent(db, rp, other),
			mark(mst), dropCurrent(db, rp, mst), create(other), create(mst)}},
		{"with-groups", []ScriptStep{create(mst), sg(3), schema, mark(mst), dropCurrent(db, rp, mst), sg(30), create(mst), sg(60), schema}},
		{"rename-policy", []ScriptStep{create(mst), mark(mst), dropCurrent(db, rp, mst),
			fixed(fmt.Sprintf("UpdateRetentionPolicy %s %s rp9 _ _ _ _ _ _ 0", db, rp)),
			fixed(fmt.Sprintf("CreateMeasurement %s rp9 %s hash:t0 0 f0:1:_", db, mst)),
			fixed(fmt.Sprintf("UpdateRetentionPolicy %s rp9 %s _ _ _ _ _ _ 0", db, rp)), mark(mst), dropCurrent(db, rp, mst), create(mst)}},
		{"drop-policy", []ScriptStep{create(mst), mark(mst), dropCurrent(db, rp, mst),
			fixed(fmt.Sprintf("DropRetentionPolicy %s %s", db, rp)),
			fixed(fmt.Sprintf("CreateRetentionPolicy %s 1 %s", db, rpSpec(rp))), create(mst), mark(mst), dropCurrent(db, rp, mst), create(mst)}},
		{"drop-database", []ScriptStep{create(mst), mark(mst), dropCurrent(db, rp, mst),
			fixed("DropDatabase " + db),
			fixed(fmt.Sprintf("CreateDatabase %s rp %s 1", db, rpSpec(rp))), fixed("CreateDbPtView " + db), create(mst), mark(mst), dropCurrent(db, rp, mst), create(mst)}},
	}
}

// LifeCyclePrologue: a node, the database with the policy as default, its partition view.
func LifeCyclePrologue(db, rp string) []Cmd {
	return []Cmd{
		FromText("CreateDataNode 10.0.0.1:8400 10.0.0.1:8401 -"),
		FromText(fmt.Sprintf("CreateDatabase %s rp %s 1 %d %d 0 0 0 0 0 1", db, rp, 7*Day, Day)),
		FromText("CreateDbPtView " + db),
	}
}

// RandomLifeCycle draws one template over the universe's names.
func RandomLifeCycle(u *Universe, r *hx.Rng) Script {
	db := u.DBs[r.Intn(len(u.DBs))]
	rp := u.RPs[r.Intn(len(u.RPs))]
	i := r.Intn(len(u.Msts))
	mst, other := u.Msts[i], u.Msts[(i+1)%len(u.Msts)]
	all := LifeCycles(db, rp, mst, other)
	return all[r.Intn(len(all))]
}
