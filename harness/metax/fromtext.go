package metax

import (
	"fmt"
	"strconv"
	"strings"

	proto2 "github.com/openGemini/openGemini/lib/util/lifted/influx/meta/proto"
)

// FromText builds the protobuf command from the text form the Lean model parses
// (OG/Meta/Wire.lean `parseCmd`). In the modelled mode every command is built this way, so
// the implementation and the model are driven by the same text.
func FromText(text string) Cmd {
	c, err := fromText(text)
	if err != nil {
		panic(fmt.Sprintf("metax.FromText(%q): %v", text, err))
	}
	return c
}

func untok(s string) string {
	if s == "-" {
		return ""
	}
	return s
}

func pInt(s string) int64 {
	v, err := strconv.ParseInt(s, 10, 64)
	if err != nil {
		panic(err)
	}
	return v
}
func pUint(s string) uint64 {
	v, err := strconv.ParseUint(s, 10, 64)
	if err != nil {
		panic(err)
	}
	return v
}
func pOpt(s string) *int64 {
	if s == "_" {
		return nil
	}
	return p64(pInt(s))
}
func pBool(s string) bool {
	switch s {
	case "1":
		return true
	case "0":
		return false
	}
	panic("bool " + s)
}

func pSki(s string) *proto2.ShardKeyInfo {
	if s == "_" {
		return nil
	}
	i := strings.IndexByte(s, ':')
	if i < 0 {
		panic("ski " + s)
	}
	var keys []string
	if s[i+1:] != "" {
		keys = strings.Split(s[i+1:], ",")
	}
	return &proto2.ShardKeyInfo{ShardKey: keys, Type: ps(untok(s[:i]))}
}

func pFields(s string) []*proto2.FieldSchema {
	if s == "_" {
		return nil
	}
	var out []*proto2.FieldSchema
	for _, f := range strings.Split(s, ",") {
		p := strings.Split(f, ":")
		if len(p) != 3 {
			panic("field " + f)
		}
		var end *int32
		if p[2] != "_" {
			e := int32(pInt(p[2]))
			end = &e
		}
		out = append(out, &proto2.FieldSchema{FieldName: ps(p[0]), FieldType: p32(int32(pInt(p[1]))), EndTime: end})
	}
	return out
}

// name rep d sg hot warm ig cold merge
func pSpec(w []string) *proto2.RetentionPolicyInfo {
	return &proto2.RetentionPolicyInfo{Name: ps(untok(w[0])), ReplicaN: pu32(uint32(pUint(w[1]))), Duration: p64(pInt(w[2])), ShardGroupDuration: p64(pInt(w[3])),
		HotDuration: p64(pInt(w[4])), WarmDuration: p64(pInt(w[5])), IndexGroupDuration: p64(pInt(w[6])), IndexColdDuration: p64(pInt(w[7])), ShardMergeDuration: p64(pInt(w[8]))}
}

func fromText(text string) (c Cmd, err error) {
	defer func() {
		if r := recover(); r != nil {
			err = fmt.Errorf("%v", r)
		}
	}()
	w := strings.Fields(text)
	if len(w) == 0 {
		return c, fmt.Errorf("empty")
	}
	kind := w[0]
	a := w[1:]
	need := func(n int) {
		if len(a) != n {
			panic(fmt.Sprintf("%s: want %d args, have %d", kind, n, len(a)))
		}
	}
	T := func(s string) proto2.Command_Type { return proto2.Command_Type(proto2.Command_Type_value[s]) }
	var pbytes []byte
	switch kind {
	case "CreateDatabase":
		v := &proto2.CreateDatabaseCommand{Name: ps(untok(a[0]))}
		switch a[1] {
		case "rp":
			need(12)
			v.RetentionPolicy = pSpec(a[2:11])
			v.ReplicaNum = pu32(uint32(pUint(a[11])))
		case "norp":
			need(3)
			v.ReplicaNum = pu32(uint32(pUint(a[2])))
		default:
			panic("CreateDatabase " + a[1])
		}
		pbytes = mk(T("CreateDatabaseCommand"), proto2.E_CreateDatabaseCommand_Command, v)
	case "DropDatabase":
		need(1)
		pbytes = mk(T("DropDatabaseCommand"), proto2.E_DropDatabaseCommand_Command, &proto2.DropDatabaseCommand{Name: ps(untok(a[0]))})
	case "MarkDatabaseDelete":
		need(1)
		pbytes = mk(T("MarkDatabaseDeleteCommand"), proto2.E_MarkDatabaseDeleteCommand_Command, &proto2.MarkDatabaseDeleteCommand{Name: ps(untok(a[0]))})
	case "CreateRetentionPolicy":
		need(11)
		pbytes = mk(T("CreateRetentionPolicyCommand"), proto2.E_CreateRetentionPolicyCommand_Command,
			&proto2.CreateRetentionPolicyCommand{Database: ps(untok(a[0])), DefaultRP: pb(pBool(a[1])), RetentionPolicy: pSpec(a[2:11])})
	case "DropRetentionPolicy":
		need(2)
		pbytes = mk(T("DropRetentionPolicyCommand"), proto2.E_DropRetentionPolicyCommand_Command, &proto2.DropRetentionPolicyCommand{Database: ps(untok(a[0])), Name: ps(untok(a[1]))})
	case "MarkRetentionPolicyDelete":
		need(2)
		pbytes = mk(T("MarkRetentionPolicyDeleteCommand"), proto2.E_MarkRetentionPolicyDeleteCommand_Command, &proto2.MarkRetentionPolicyDeleteCommand{Database: ps(untok(a[0])), Name: ps(untok(a[1]))})
	case "SetDefaultRetentionPolicy":
		need(2)
		pbytes = mk(T("SetDefaultRetentionPolicyCommand"), proto2.E_SetDefaultRetentionPolicyCommand_Command, &proto2.SetDefaultRetentionPolicyCommand{Database: ps(untok(a[0])), Name: ps(untok(a[1]))})
	case "UpdateRetentionPolicy":
		need(10)
		v := &proto2.UpdateRetentionPolicyCommand{Database: ps(untok(a[0])), Name: ps(untok(a[1])), Duration: pOpt(a[3]), ShardGroupDuration: pOpt(a[4]),
			HotDuration: pOpt(a[5]), WarmDuration: pOpt(a[6]), IndexGroupDuration: pOpt(a[7]), IndexColdDuration: pOpt(a[8]), MakeDefault: pb(pBool(a[9]))}
		if a[2] != "_" {
			v.NewName = ps(untok(a[2]))
		}
		pbytes = mk(T("UpdateRetentionPolicyCommand"), proto2.E_UpdateRetentionPolicyCommand_Command, v)
	case "CreateMeasurement":
		need(6)
		v := &proto2.CreateMeasurementCommand{DBName: ps(untok(a[0])), RpName: ps(untok(a[1])), Name: ps(untok(a[2])), Ski: pSki(a[3]),
			EngineType: pu32(uint32(pUint(a[4]))), SchemaInfo: pFields(a[5])}
		pbytes = mk(T("CreateMeasurementCommand"), proto2.E_CreateMeasurementCommand_Command, v)
	case "AlterShardKey":
		need(4)
		pbytes = mk(T("AlterShardKeyCmd"), proto2.E_AlterShardKeyCmd_Command, &proto2.AlterShardKeyCmd{DBName: ps(untok(a[0])), RpName: ps(untok(a[1])), Name: ps(untok(a[2])), Ski: pSki(a[3])})
	case "UpdateSchema":
		need(4)
		pbytes = mk(T("UpdateSchemaCommand"), proto2.E_UpdateSchemaCommand_Command, &proto2.UpdateSchemaCommand{Database: ps(untok(a[0])), RpName: ps(untok(a[1])), Measurement: ps(untok(a[2])), FieldToCreate: pFields(a[3])})
	case "MarkMeasurementDelete":
		need(3)
		pbytes = mk(T("MarkMeasurementDeleteCommand"), proto2.E_MarkMeasurementDeleteCommand_Command, &proto2.MarkMeasurementDeleteCommand{Database: ps(untok(a[0])), Policy: ps(untok(a[1])), Measurement: ps(untok(a[2]))})
	case "DropMeasurement":
		need(3)
		pbytes = mk(T("DropMeasurementCommand"), proto2.E_DropMeasurementCommand_Command, &proto2.DropMeasurementCommand{Database: ps(untok(a[0])), Policy: ps(untok(a[1])), Measurement: ps(untok(a[2]))})
	case "CreateShardGroup":
		need(6)
		pbytes = mk(T("CreateShardGroupCommand"), proto2.E_CreateShardGroupCommand_Command, &proto2.CreateShardGroupCommand{Database: ps(untok(a[0])), Policy: ps(untok(a[1])),
			Timestamp: p64(pInt(a[2])), ShardTier: pu64(pUint(a[3])), EngineType: pu32(uint32(pUint(a[4]))), Version: pu32(uint32(pUint(a[5])))})
	case "DeleteShardGroup":
		need(4)
		pbytes = mk(T("DeleteShardGroupCommand"), proto2.E_DeleteShardGroupCommand_Command, &proto2.DeleteShardGroupCommand{Database: ps(untok(a[0])), Policy: ps(untok(a[1])),
			ShardGroupID: pu64(pUint(a[2])), DeletedAt: p64(0), DeleteType: p32(int32(pInt(a[3])))})
	case "DeleteIndexGroup":
		need(3)
		pbytes = mk(T("DeleteIndexGroupCommand"), proto2.E_DeleteIndexGroupCommand_Command, &proto2.DeleteIndexGroupCommand{Database: ps(untok(a[0])), Policy: ps(untok(a[1])), IndexGroupID: pu64(pUint(a[2]))})
	case "PruneGroups":
		need(2)
		pbytes = mk(T("PruneGroupsCommand"), proto2.E_PruneGroupsCommand_Command, &proto2.PruneGroupsCommand{ShardGroup: pb(pBool(a[0])), ID: pu64(pUint(a[1]))})
	case "CreateDataNode":
		need(3)
		pbytes = mk(T("CreateDataNodeCommand"), proto2.E_CreateDataNodeCommand_Command, &proto2.CreateDataNodeCommand{HTTPAddr: ps(a[0]), TCPAddr: ps(a[1]), Role: ps(untok(a[2])), Az: ps("")})
	case "CreateDbPtView":
		need(1)
		pbytes = mk(T("CreateDbPtViewCommand"), proto2.E_CreateDbPtViewCommand_Command, &proto2.CreateDbPtViewCommand{DbName: ps(untok(a[0])), ReplicaNum: pu32(1)})
	case "UpdateShardInfoTier":
		need(4)
		pbytes = mk(T("UpdateShardInfoTierCommand"), proto2.E_UpdateShardInfoTierCommand_Command, &proto2.UpdateShardInfoTierCommand{ShardID: pu64(pUint(a[0])), Tier: pu64(pUint(a[1])), DbName: ps(untok(a[2])), RpName: ps(untok(a[3]))})
	case "CreateUser":
		need(4)
		pbytes = mk(T("CreateUserCommand"), proto2.E_CreateUserCommand_Command, &proto2.CreateUserCommand{Name: ps(untok(a[0])), Hash: ps(a[1]), Admin: pb(pBool(a[2])), RwUser: pb(pBool(a[3]))})
	case "DropUser":
		need(1)
		pbytes = mk(T("DropUserCommand"), proto2.E_DropUserCommand_Command, &proto2.DropUserCommand{Name: ps(untok(a[0]))})
	case "UpdateUser":
		need(2)
		pbytes = mk(T("UpdateUserCommand"), proto2.E_UpdateUserCommand_Command, &proto2.UpdateUserCommand{Name: ps(untok(a[0])), Hash: ps(a[1])})
	case "SetPrivilege":
		need(3)
		pbytes = mk(T("SetPrivilegeCommand"), proto2.E_SetPrivilegeCommand_Command, &proto2.SetPrivilegeCommand{Username: ps(untok(a[0])), Database: ps(untok(a[1])), Privilege: p32(int32(pInt(a[2])))})
	case "SetAdminPrivilege":
		need(2)
		pbytes = mk(T("SetAdminPrivilegeCommand"), proto2.E_SetAdminPrivilegeCommand_Command, &proto2.SetAdminPrivilegeCommand{Username: ps(untok(a[0])), Admin: pb(pBool(a[1]))})
	// ---- second layer of the model (OG/Meta/Model2.lean) ----
	case "UpdateIndexInfoTier":
		need(4)
		pbytes = mk(T("UpdateIndexInfoTierCommand"), proto2.E_UpdateIndexInfoTierCommand_Command, &proto2.UpdateIndexInfoTierCommand{IndexID: pu64(pUint(a[0])), Tier: pu64(pUint(a[1])), DbName: ps(untok(a[2])), RpName: ps(untok(a[3]))})
	case "UpdatePtVersion":
		need(2)
		pbytes = mk(T("UpdatePtVersionCommand"), proto2.E_UpdatePtVersionCommand_Command, &proto2.UpdatePtVersionCommand{Db: ps(untok(a[0])), Pt: pu32(uint32(pUint(a[1])))})
	case "ReSharding":
		need(5)
		var bounds []string
		for i := 0; i < int(pUint(a[4])); i++ {
			bounds = append(bounds, fmt.Sprintf("b%d", i))
		}
		pbytes = mk(T("ReShardingCommand"), proto2.E_ReShardingCommand_Command, &proto2.ReShardingCommand{Database: ps(untok(a[0])), RpName: ps(untok(a[1])),
			ShardGroupID: pu64(pUint(a[2])), SplitTime: p64(pInt(a[3])), ShardBounds: bounds})
	case "ExpandGroups":
		need(0)
		pbytes = mk(T("ExpandGroupsCommand"), proto2.E_ExpandGroupsCommand_Command, &proto2.ExpandGroupsCommand{})
	case "MarkTakeover":
		need(1)
		pbytes = mk(T("MarkTakeoverCommand"), proto2.E_MarkTakeoverCommand_Command, &proto2.MarkTakeoverCommand{Enable: pb(pBool(a[0]))})
	case "MarkBalancer":
		need(1)
		pbytes = mk(T("MarkBalancerCommand"), proto2.E_MarkBalancerCommand_Command, &proto2.MarkBalancerCommand{Enable: pb(pBool(a[0]))})
	case "CreateSubscription":
		need(3)
		pbytes = mk(T("CreateSubscriptionCommand"), proto2.E_CreateSubscriptionCommand_Command, &proto2.CreateSubscriptionCommand{Name: ps(untok(a[0])), Database: ps(untok(a[1])),
			RetentionPolicy: ps(untok(a[2])), Mode: ps("ALL"), Destinations: []string{"http://h:1"}})
	case "DropSubscription":
		need(3)
		pbytes = mk(T("DropSubscriptionCommand"), proto2.E_DropSubscriptionCommand_Command, &proto2.DropSubscriptionCommand{Name: ps(untok(a[0])), Database: ps(untok(a[1])), RetentionPolicy: ps(untok(a[2]))})
	case "CreateContinuousQuery":
		need(3)
		pbytes = mk(T("CreateContinuousQueryCommand"), proto2.E_CreateContinuousQueryCommand_Command, &proto2.CreateContinuousQueryCommand{Database: ps(untok(a[0])), Name: ps(untok(a[1])),
			Query: ps(strings.ReplaceAll(a[2], "_", " "))})
	case "DropContinuousQuery":
		need(2)
		pbytes = mk(T("DropContinuousQueryCommand"), proto2.E_DropContinuousQueryCommand_Command, &proto2.DropContinuousQueryCommand{Name: ps(untok(a[0])), Database: ps(untok(a[1]))})
	case "ContinuousQueryReport":
		need(2)
		pbytes = mk(T("ContinuousQueryReportCommand"), proto2.E_ContinuousQueryReportCommand_Command, &proto2.ContinuousQueryReportCommand{CQStates: []*proto2.CQState{{Name: ps(untok(a[0])), LastRunTime: p64(pInt(a[1]))}}})
	case "CreateStream":
		need(8)
		si := &proto2.StreamInfo{Name: ps(untok(a[0])), ID: pu64(0),
			SrcMst:   &proto2.StreamMeasurementInfo{Database: ps(untok(a[1])), RetentionPolicy: ps(untok(a[2])), Name: ps(untok(a[3]))},
			DesMst:   &proto2.StreamMeasurementInfo{Database: ps(untok(a[4])), RetentionPolicy: ps(untok(a[5])), Name: ps(untok(a[6]))},
			Interval: p64(pInt(a[7])), Delay: p64(0), Dims: []string{"t0"}, Calls: []*proto2.StreamCall{{Call: ps("sum"), Field: ps("f0"), Alias: ps("s")}}}
		pbytes = mk(T("CreateStreamCommand"), proto2.E_CreateStreamCommand_Command, &proto2.CreateStreamCommand{StreamInfo: si})
	case "DropStream":
		need(1)
		pbytes = mk(T("DropStreamCommand"), proto2.E_DropStreamCommand_Command, &proto2.DropStreamCommand{Name: ps(untok(a[0]))})
	default:
		return c, fmt.Errorf("unknown kind %s", kind)
	}
	return Cmd{Type: gens[kind].t, Kind: kind, PB: pbytes, Text: text, Desc: text}, nil
}
