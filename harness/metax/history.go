package metax

import (
	"fmt"
	"reflect"
	"sort"
	"strings"

	"github.com/openGemini/openGemini/lib/util/lifted/influx/meta"
)

// History is the part of the well-formedness oracle that needs the whole command sequence, not
// just the current catalogue (OG.C16.Issued: `versioned_name_unique`, `mst_id_unique`,
// `ids_never_reused`):
//
//   - per retention policy *incarnation* (it ends when the policy or its database is dropped;
//     a rename carries it to the new key) every versioned measurement name (`cpu_0000`, the
//     identifier under which the stores keep the data) is handed out at most once - also after
//     the earlier holder went through MarkMeasurementDelete + DropMeasurement;
//   - the per-name version counter (RetentionPolicyInfo.MstVersions) never goes down and never
//     loses an entry while the policy lives, and stays at or above every version handed out;
//   - numeric ids (measurement, shard group, shard, index group, index, node, stream) are never
//     handed out twice and new ones lie above every id of their kind seen before;
//   - no `Max…` counter of the catalogue (ids, subscription / continuous-query change counters,
//     event op ids, down-sample ids) ever goes back.
//
// It observes the real catalogue after every step; nothing is taken from the command but its
// kind (to tell a rename from drop + create, and the commands that replace the whole catalogue).
type History struct {
	step  int
	prev  *histView
	names map[string]map[string]int    // policy key -> versioned name -> step it was handed out
	vers  map[string]map[string]uint32 // policy key -> original name -> highest version handed out
	ids   map[string]map[uint64]int    // kind -> id -> step it was first seen
	maxID map[string]uint64            // kind -> largest id ever seen
}

// HistFinding is one violation of the history clauses.
type HistFinding struct {
	Class string
	Desc  string
}

type histPolicy struct {
	msts map[string]uint64 // versioned name -> measurement id
	vers map[string]uint32 // original name -> version counter
}

type histView struct {
	dbs      map[string]map[string]*histPolicy // db key -> policy key -> contents
	ids      map[string]map[uint64]bool        // kind -> ids in use
	counters map[string]uint64                 // every `Max…` counter of meta.Data
}

var idKinds = []string{"mst", "sg", "shard", "ig", "index", "node", "stream"}

func NewHistory() *History {
	h := &History{}
	h.reset(nil)
	return h
}

func (h *History) reset(v *histView) {
	h.prev = v
	h.names = map[string]map[string]int{}
	h.vers = map[string]map[string]uint32{}
	h.ids = map[string]map[uint64]int{}
	h.maxID = map[string]uint64{}
	for _, k := range idKinds {
		h.ids[k] = map[uint64]int{}
	}
	if v != nil {
		h.adopt(v)
	}
}

// adopt registers everything a view holds as "handed out now" (start of a sequence, or the
// catalogue was replaced wholesale).
func (h *History) adopt(v *histView) {
	for db, rps := range v.dbs {
		for rk, p := range rps {
			h.adoptPolicy(pkey(db, rk), p)
		}
	}
	for kind, set := range v.ids {
		for id := range set {
			h.ids[kind][id] = h.step
			if id > h.maxID[kind] {
				h.maxID[kind] = id
			}
		}
	}
}

func (h *History) adoptPolicy(key string, p *histPolicy) {
	h.names[key] = map[string]int{}
	h.vers[key] = map[string]uint32{}
	for n := range p.msts {
		h.names[key][n] = h.step
	}
	for o, v := range p.vers {
		h.vers[key][o] = v
	}
}

func pkey(db, rp string) string { return db + "\x00" + rp }

func viewOf(d *meta.Data) *histView {
	v := &histView{dbs: map[string]map[string]*histPolicy{}, ids: map[string]map[uint64]bool{}}
	for _, k := range idKinds {
		v.ids[k] = map[uint64]bool{}
	}
	// one id space for data, meta and sql nodes: a node that registers in a second role under the
	// same TCP address keeps its id (CreateDataNode / CreateMetaNode look the other table up)
	for _, n := range d.DataNodes {
		v.ids["node"][n.ID] = true
	}
	for _, n := range d.MetaNodes {
		v.ids["node"][n.ID] = true
	}
	for _, n := range d.SqlNodes {
		v.ids["node"][n.ID] = true
	}
	for _, st := range d.Streams {
		v.ids["stream"][st.ID] = true
	}
	// every id / change counter of the catalogue (MaxNodeID … MaxCQChangeID)
	v.counters = map[string]uint64{}
	rv := reflect.ValueOf(d).Elem()
	for i := 0; i < rv.NumField(); i++ {
		f := rv.Type().Field(i)
		if strings.HasPrefix(f.Name, "Max") && f.Type.Kind() == reflect.Uint64 {
			v.counters[f.Name] = rv.Field(i).Uint()
		}
	}
	for dbk, db := range d.Databases {
		rps := map[string]*histPolicy{}
		v.dbs[dbk] = rps
		for rk, rp := range db.RetentionPolicies {
			p := &histPolicy{msts: map[string]uint64{}, vers: map[string]uint32{}}
			rps[rk] = p
			for mk, m := range rp.Measurements {
				p.msts[mk] = m.ID
				v.ids["mst"][m.ID] = true
			}
			for o, mv := range rp.MstVersions {
				p.vers[o] = mv.Version
			}
			for i := range rp.ShardGroups {
				g := &rp.ShardGroups[i]
				v.ids["sg"][g.ID] = true
				for _, s := range g.Shards {
					v.ids["shard"][s.ID] = true
				}
			}
			for i := range rp.IndexGroups {
				g := &rp.IndexGroups[i]
				v.ids["ig"][g.ID] = true
				for _, x := range g.Indexes {
					v.ids["index"][x.ID] = true
				}
			}
		}
	}
	return v
}

// replacesCatalogue: command kinds that install a catalogue built elsewhere.
func ReplacesCatalogue(kind string) bool { return kind == "SetData" || kind == "RecoverMetaData" }

// Observe is called after every applied command with the catalogue as it is now.
func (h *History) Observe(d *meta.Data, kind string) []HistFinding {
	h.step++
	cur := viewOf(d)
	if h.prev == nil || ReplacesCatalogue(kind) {
		h.reset(cur)
		return nil
	}
	var out []HistFinding
	add := func(class, f string, a ...interface{}) {
		out = append(out, HistFinding{class, fmt.Sprintf(f, a...)})
	}
	prev := h.prev
	// the policy a key continues (a rename moves it); prev itself is shared between the
	// branches of a depth-first enumeration and is never modified
	oldOf := map[string]*histPolicy{}
	for db, prps := range prev.dbs {
		for rk, p := range prps {
			oldOf[pkey(db, rk)] = p
		}
	}
	// ---- policy incarnations ----
	for db, prps := range prev.dbs {
		crps, ok := cur.dbs[db]
		if !ok {
			for rk := range prps {
				delete(h.names, pkey(db, rk))
				delete(h.vers, pkey(db, rk))
			}
			continue
		}
		var removed, added []string
		for rk := range prps {
			if _, ok := crps[rk]; !ok {
				removed = append(removed, rk)
			}
		}
		for rk := range crps {
			if _, ok := prps[rk]; !ok {
				added = append(added, rk)
			}
		}
		sort.Strings(removed)
		sort.Strings(added)
		switch {
		case kind == "UpdateRetentionPolicy" && len(removed) == 1 && len(added) == 1:
			// rename: the incarnation continues under the new key
			from, to := pkey(db, removed[0]), pkey(db, added[0])
			h.names[to], h.vers[to] = h.names[from], h.vers[from]
			delete(h.names, from)
			delete(h.vers, from)
			oldOf[to] = prps[removed[0]]
		case kind == "UpdateRetentionPolicy" && len(removed) == 1 && len(added) == 0:
			// renamed onto a key that was taken: which incarnation survives cannot be told from
			// the catalogue alone - start over for this database
			for rk, p := range crps {
				h.adoptPolicy(pkey(db, rk), p)
				oldOf[pkey(db, rk)] = p
			}
			delete(h.names, pkey(db, removed[0]))
			delete(h.vers, pkey(db, removed[0]))
		default:
			for _, rk := range removed {
				delete(h.names, pkey(db, rk))
				delete(h.vers, pkey(db, rk))
			}
		}
	}
	// ---- names and version counters ----
	for _, db := range sortedKeys(cur.dbs) {
		crps := cur.dbs[db]
		for _, rk := range sortedKeys(crps) {
			p := crps[rk]
			key := pkey(db, rk)
			old := oldOf[key]
			if old == nil || h.names[key] == nil {
				h.adoptPolicy(key, p) // a new incarnation
				continue
			}
			for _, n := range sortedKeys(p.msts) {
				id := p.msts[n]
				oldID, had := old.msts[n]
				if had && oldID == id {
					continue
				}
				if st, ok := h.names[key][n]; ok {
					add("versioned_name_reissued", "measurement identifier %q of %s/%s (id %d) was already handed out at step %d", n, db, rk, id, st)
				}
				h.names[key][n] = h.step
			}
			for _, o := range sortedKeys(old.vers) {
				nv, ok := p.vers[o]
				switch {
				case !ok:
					add("mst_version_counter_lost", "version counter of %q in %s/%s disappeared (was %d)", o, db, rk, old.vers[o])
				case nv < old.vers[o] && !(old.vers[o] == 0xffff && nv == 0):
					add("mst_version_counter_regressed", "version counter of %q in %s/%s went from %d to %d", o, db, rk, old.vers[o], nv)
				}
			}
			for o, v := range p.vers {
				if v > h.vers[key][o] {
					h.vers[key][o] = v
				} else if _, ok := h.vers[key][o]; !ok {
					h.vers[key][o] = v
				}
			}
		}
	}
	// ---- counters never go back ----
	for _, name := range sortedKeys(prev.counters) {
		if cur.counters[name] < prev.counters[name] {
			add("counter_regressed", "%s went from %d to %d", name, prev.counters[name], cur.counters[name])
		}
	}
	// ---- numeric ids ----
	for _, kind := range idKinds {
		var fresh []uint64
		for id := range cur.ids[kind] {
			if !prev.ids[kind][id] {
				fresh = append(fresh, id)
			}
		}
		sort.Slice(fresh, func(i, j int) bool { return fresh[i] < fresh[j] })
		for _, id := range fresh {
			if st, ok := h.ids[kind][id]; ok {
				add(kind+"_id_reissued", "%s id %d was already handed out at step %d", kind, id, st)
			} else if id <= h.maxID[kind] && len(h.ids[kind]) > 0 {
				add(kind+"_id_not_monotone", "new %s id %d is not above the largest %s id ever handed out (%d)", kind, id, kind, h.maxID[kind])
			}
		}
		for _, id := range fresh {
			if _, ok := h.ids[kind][id]; !ok {
				h.ids[kind][id] = h.step
			}
			if id > h.maxID[kind] {
				h.maxID[kind] = id
			}
		}
	}
	h.prev = cur
	return out
}

// Clone copies the history (depth-first enumeration branches).
func (h *History) Clone() *History {
	n := &History{step: h.step, prev: h.prev, names: map[string]map[string]int{}, vers: map[string]map[string]uint32{},
		ids: map[string]map[uint64]int{}, maxID: map[string]uint64{}}
	for k, m := range h.names {
		c := make(map[string]int, len(m))
		for a, b := range m {
			c[a] = b
		}
		n.names[k] = c
	}
	for k, m := range h.vers {
		c := make(map[string]uint32, len(m))
		for a, b := range m {
			c[a] = b
		}
		n.vers[k] = c
	}
	for k, m := range h.ids {
		c := make(map[uint64]int, len(m))
		for a, b := range m {
			c[a] = b
		}
		n.ids[k] = c
	}
	for k, v := range h.maxID {
		n.maxID[k] = v
	}
	return n
}
