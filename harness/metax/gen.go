package metax

import (
	"fmt"
	"math"
	"sort"
	"strings"

	"github.com/openGemini/openGemini/lib/util/lifted/influx/meta"
	proto2 "github.com/openGemini/openGemini/lib/util/lifted/influx/meta/proto"
	"github.com/openGemini/openGemini/lib/util/lifted/protobuf/proto"

	"verif/harness/internal/hx"
)

// Cmd is one generated raft command.
type Cmd struct {
	Type proto2.Command_Type
	Kind string // short name of the command type
	PB   []byte // marshalled proto Command
	Text string // op line for the Lean catalogue model ("" = not in the modelled subset)
	Desc string // human-readable rendering for samples / violation descriptions
}

const (
	Hour = int64(3600) * 1e9
	Day  = 24 * Hour
)

// Universe is the small name/id space commands are drawn from; it is mutated as the log
// grows (ids that exist become likely arguments).
type Universe struct {
	R        *hx.Rng
	DBs      []string
	RPs      []string
	Msts     []string
	Users    []string
	Hosts    []string
	Streams  []string
	CQs      []string
	Fields   []string
	Invalid  int // percent of deliberately odd arguments
	Modelled bool
	// State, when set, is the catalogue the next command will be applied to: ids that exist there
	// become likely arguments (a command on a shard / group / node id succeeds only if it exists)
	State func() *meta.Data
}

func NewUniverse(r *hx.Rng) *Universe {
	return &Universe{
		R:       r,
		DBs:     []string{"db0", "db1"},
		RPs:     []string{"autogen", "rp1", "rp2"},
		Msts:    []string{"m0", "m1", "m2"},
		Users:   []string{"u0", "u1", "adm"},
		Hosts:   []string{"10.0.0.1", "10.0.0.2", "10.0.0.3"},
		Streams: []string{"s0", "s1"},
		CQs:     []string{"cq0", "cq1"},
		Fields:  []string{"f0", "f1", "t0", "t1"},
		Invalid: 12,
	}
}

func (u *Universe) pick(xs []string, odd ...string) string {
	if u.R.Chance(u.Invalid) {
		all := append([]string{"nosuch", ""}, odd...)
		return all[u.R.Intn(len(all))]
	}
	return xs[u.R.Intn(len(xs))]
}
func (u *Universe) db() string   { return u.pick(u.DBs) }
func (u *Universe) rp() string   { return u.pick(u.RPs) }
func (u *Universe) mst() string  { return u.pick(u.Msts) }
func (u *Universe) user() string { return u.pick(u.Users) }
func (u *Universe) id(max int) uint64 {
	if u.R.Chance(u.Invalid) {
		return []uint64{0, 99, math.MaxUint64}[u.R.Intn(3)]
	}
	return uint64(1 + u.R.Intn(max))
}

// idOf draws an id of the given kind ("sg", "shard", "ig", "index", "node", "metanode",
// "sqlnode"): 60 % of the time one that exists in the current catalogue (if the harness gave
// access to it), otherwise as `id` does.
func (u *Universe) idOf(kind string, max int) uint64 {
	if u.State != nil && u.R.Chance(60) {
		if ids := existingIDs(u.State(), kind); len(ids) > 0 {
			return ids[u.R.Intn(len(ids))]
		}
	}
	return u.id(max)
}

// dbRp draws a (database, policy) pair: 55 % of the time one that exists in the current
// catalogue (if the harness gave access to it), otherwise two independent names.
func (u *Universe) dbRp() (string, string) {
	if u.State != nil && u.R.Chance(55) {
		d := u.State()
		if dbs := sortedKeys(d.Databases); len(dbs) > 0 {
			db := dbs[u.R.Intn(len(dbs))]
			if rps := sortedKeys(d.Databases[db].RetentionPolicies); len(rps) > 0 {
				return db, rps[u.R.Intn(len(rps))]
			}
		}
	}
	return u.db(), u.rp()
}

// dbLive draws a database name: 60 % of the time one that exists in the current catalogue.
func (u *Universe) dbLive() string {
	if u.State != nil && u.R.Chance(60) {
		if dbs := sortedKeys(u.State().Databases); len(dbs) > 0 {
			return dbs[u.R.Intn(len(dbs))]
		}
	}
	return u.db()
}

// nearID: an id next to one that exists (what a lower-bound search or a `>=` would also hit)
func (u *Universe) nearID(kind string, max int) uint64 {
	id := u.idOf(kind, max)
	if u.R.Chance(6) {
		return 0 // below every id
	}
	if u.R.Chance(15) && id > 0 {
		if u.R.Bool() {
			return id - 1
		}
		return id + 1
	}
	return id
}

// located draws an object id of the kind ("shard", "index") together with the (database,
// policy) it lives in — half of the time, when the catalogue has one — so that the commands
// that look an object up inside a named policy reach the comparison; 20 % of those ids are
// then moved to a neighbour (below the first / next to an existing one).
func (u *Universe) located(kind string, max int) (string, string, uint64) {
	if u.State != nil && u.R.Chance(50) {
		d := u.State()
		type loc struct {
			db, rp string
			id     uint64
		}
		var all []loc
		for _, dbk := range sortedKeys(d.Databases) {
			for _, rk := range sortedKeys(d.Databases[dbk].RetentionPolicies) {
				rp := d.Databases[dbk].RetentionPolicies[rk]
				if kind == "shard" {
					for i := range rp.ShardGroups {
						for _, sh := range rp.ShardGroups[i].Shards {
							all = append(all, loc{dbk, rk, sh.ID})
						}
					}
				} else {
					for i := range rp.IndexGroups {
						for _, ix := range rp.IndexGroups[i].Indexes {
							all = append(all, loc{dbk, rk, ix.ID})
						}
					}
				}
			}
		}
		if len(all) > 0 {
			l := all[u.R.Intn(len(all))]
			if u.R.Chance(20) && l.id > 0 {
				switch u.R.Intn(3) {
				case 0:
					l.id = 0
				case 1:
					l.id--
				default:
					l.id++
				}
			}
			return l.db, l.rp, l.id
		}
	}
	db, rp := u.dbRp()
	return db, rp, u.nearID(kind, max)
}

// nameOf draws the name of an object of the given kind ("stream", "cq", "sub"): 60 % of the time
// one that exists in the current catalogue, otherwise from the fixed list.
func (u *Universe) nameOf(kind string, fixed []string) string {
	if u.State != nil && u.R.Chance(60) {
		d := u.State()
		var names []string
		switch kind {
		case "stream":
			names = sortedKeys(d.Streams)
		case "cq":
			for _, dbk := range sortedKeys(d.Databases) {
				names = append(names, sortedKeys(d.Databases[dbk].ContinuousQueries)...)
			}
		case "sub":
			for _, dbk := range sortedKeys(d.Databases) {
				db := d.Databases[dbk]
				for _, rk := range sortedKeys(db.RetentionPolicies) {
					for _, sub := range db.RetentionPolicies[rk].Subscriptions {
						names = append(names, sub.Name)
					}
				}
			}
		}
		if len(names) > 0 {
			return names[u.R.Intn(len(names))]
		}
	}
	return u.pick(fixed)
}

// lastGroupOf: the id of the last shard group of a policy (what ReSharding must name), 0 if none.
func (u *Universe) lastGroupOf(db, rp string) uint64 {
	if u.State == nil {
		return 0
	}
	d := u.State()
	dbi := d.Databases[db]
	if dbi == nil {
		return 0
	}
	rpi := dbi.RetentionPolicy(rp)
	if rpi == nil || len(rpi.ShardGroups) == 0 {
		return 0
	}
	return rpi.ShardGroups[len(rpi.ShardGroups)-1].ID
}

func existingIDs(d *meta.Data, kind string) []uint64 {
	var out []uint64
	switch kind {
	case "node":
		for _, n := range d.DataNodes {
			out = append(out, n.ID)
		}
	case "metanode":
		for _, n := range d.MetaNodes {
			out = append(out, n.ID)
		}
	case "sqlnode":
		for _, n := range d.SqlNodes {
			out = append(out, n.ID)
		}
	default:
		for _, dbk := range sortedKeys(d.Databases) {
			db := d.Databases[dbk]
			for _, rk := range sortedKeys(db.RetentionPolicies) {
				rp := db.RetentionPolicies[rk]
				for i := range rp.ShardGroups {
					if kind == "sg" {
						out = append(out, rp.ShardGroups[i].ID)
					}
					if kind == "shard" {
						for _, sh := range rp.ShardGroups[i].Shards {
							out = append(out, sh.ID)
						}
					}
				}
				for i := range rp.IndexGroups {
					if kind == "ig" {
						out = append(out, rp.IndexGroups[i].ID)
					}
					if kind == "index" {
						for _, ix := range rp.IndexGroups[i].Indexes {
							out = append(out, ix.ID)
						}
					}
				}
			}
		}
	}
	return out
}

// instants of interest, in hours since the epoch (negative = before 1970)
var hoursOfInterest = []int64{0, 1, 2, 3, 4, 5, 6, 7, 8, 23, 24, 25, 47, 48, 167, 168, 169, 24 * 365, -1, -24, -168, 24 * 365 * 40}

func (u *Universe) timestamp() int64 {
	switch {
	case u.R.Chance(4):
		return []int64{math.MaxInt64 - 1, math.MaxInt64, math.MinInt64 + 2, math.MinInt64, math.MaxInt64 - Hour, math.MinInt64 + 8*Day}[u.R.Intn(6)]
	case u.R.Chance(60):
		h := hoursOfInterest[u.R.Intn(len(hoursOfInterest))]
		off := []int64{0, 0, 1, -1, Hour / 2, Hour - 1}[u.R.Intn(6)]
		return h*Hour + off
	default:
		return int64(u.R.Intn(400))*Hour/2 + int64(u.R.Intn(3)) - 1
	}
}

var durations = []int64{0, Hour, 2 * Hour, 3 * Hour, 4 * Hour, 6 * Hour, Day, 2 * Day, 7 * Day, 30 * Day, 365 * Day, Hour / 2, 90 * 60 * 1e9, -Hour}

func (u *Universe) dur() int64 { return durations[u.R.Intn(len(durations))] }

func mk(t proto2.Command_Type, ext *proto.ExtensionDesc, v interface{}) []byte {
	cmd := &proto2.Command{Type: &t}
	if err := proto.SetExtension(cmd, ext, v); err != nil {
		panic(err)
	}
	b, err := proto.Marshal(cmd)
	if err != nil {
		panic(err)
	}
	return b
}

func p64(v int64) *int64    { return &v }
func pu64(v uint64) *uint64 { return &v }
func pu32(v uint32) *uint32 { return &v }
func p32(v int32) *int32    { return &v }
func pb(v bool) *bool       { return &v }
func ps(v string) *string   { return &v }

func b01(b bool) string {
	if b {
		return "1"
	}
	return "0"
}

// tok encodes a name as one token ("-" = empty string).
func tok(s string) string {
	if s == "" {
		return "-"
	}
	return s
}
func opt64(p *int64) string {
	if p == nil {
		return "_"
	}
	return fmt.Sprint(*p)
}

func (u *Universe) rpInfo(name string) (*proto2.RetentionPolicyInfo, string) {
	r := u.R
	d := u.dur()
	sg := int64(0)
	if r.Chance(70) {
		sg = u.dur()
	}
	rep := uint32(1)
	if r.Chance(8) {
		rep = uint32(r.Intn(4))
	}
	var hot, warm, ig, cold, merge int64
	if r.Chance(15) {
		hot = u.dur()
	}
	if r.Chance(15) {
		warm = u.dur()
	}
	if r.Chance(25) {
		ig = u.dur()
	}
	if r.Chance(10) {
		cold = u.dur()
	}
	if r.Chance(10) {
		merge = u.dur()
	}
	pbi := &proto2.RetentionPolicyInfo{Name: ps(name), Duration: p64(d), ShardGroupDuration: p64(sg), ReplicaN: pu32(rep),
		HotDuration: p64(hot), WarmDuration: p64(warm), IndexGroupDuration: p64(ig), IndexColdDuration: p64(cold), ShardMergeDuration: p64(merge)}
	txt := fmt.Sprintf("%s %d %d %d %d %d %d %d %d", tok(name), rep, d, sg, hot, warm, ig, cold, merge)
	return pbi, txt
}

func (u *Universe) ski() (*proto2.ShardKeyInfo, string) {
	r := u.R
	if r.Chance(6) {
		return nil, "_"
	}
	typ := "hash"
	if r.Chance(18) {
		typ = "range"
	}
	if r.Chance(3) {
		typ = ""
	}
	var keys []string
	switch r.Intn(4) {
	case 1:
		keys = []string{"t0"}
	case 2:
		keys = []string{"t0", "t1"}
	case 3:
		keys = []string{"t1"}
	}
	txt := typ
	if txt == "" {
		txt = "-"
	}
	txt += ":" + strings.Join(keys, ",")
	return &proto2.ShardKeyInfo{ShardKey: keys, Type: ps(typ)}, txt
}

func (u *Universe) schema() ([]*proto2.FieldSchema, string) {
	r := u.R
	n := r.Intn(4)
	var fs []*proto2.FieldSchema
	var parts []string
	for i := 0; i < n; i++ {
		name := u.Fields[r.Intn(len(u.Fields))]
		typ := int32(1 + r.Intn(4)) // int, float, string(4?) … any small code
		if strings.HasPrefix(name, "t") && r.Chance(80) {
			typ = 6 // tag
		}
		var end *int32
		es := "_"
		if r.Chance(30) {
			e := int32(r.Intn(5))
			end = &e
			es = fmt.Sprint(e)
		}
		fs = append(fs, &proto2.FieldSchema{FieldName: ps(name), FieldType: p32(typ), EndTime: end})
		parts = append(parts, fmt.Sprintf("%s:%d:%s", name, typ, es))
	}
	if len(parts) == 0 {
		return fs, "_"
	}
	return fs, strings.Join(parts, ",")
}

// Kinds returns the short names of every command type this generator can produce.
func Kinds() []string {
	ks := make([]string, 0, len(gens))
	for k := range gens {
		ks = append(ks, k)
	}
	sort.Strings(ks)
	return ks
}

// TypeOf maps a kind name to its command type.
func TypeOf(kind string) proto2.Command_Type { return gens[kind].t }

type genFn func(u *Universe) Cmd

type genEntry struct {
	t      proto2.Command_Type
	weight int
	f      genFn
}

var gens = map[string]genEntry{}

func reg(kind string, t proto2.Command_Type, weight int, f genFn) {
	gens[kind] = genEntry{t, weight, func(u *Universe) Cmd {
		c := f(u)
		c.Kind = kind
		c.Type = t
		if c.Desc == "" {
			c.Desc = c.Text
		}
		if u.Modelled && c.Text != "" {
			return FromText(c.Text) // the text is the single source in the modelled mode
		}
		return c
	}}
}

// Gen draws one command; kinds==nil means every registered kind (weighted).
func (u *Universe) Gen(kinds []string) Cmd {
	if kinds == nil {
		kinds = Kinds()
	}
	total := 0
	for _, k := range kinds {
		total += gens[k].weight
	}
	x := u.R.Intn(total)
	for _, k := range kinds {
		x -= gens[k].weight
		if x < 0 {
			return gens[k].f(u)
		}
	}
	return gens[kinds[0]].f(u)
}

// GenKind draws one command of a given kind.
func (u *Universe) GenKind(kind string) Cmd { return gens[kind].f(u) }

func init() {
	T := func(s string) proto2.Command_Type { return proto2.Command_Type(proto2.Command_Type_value[s]) }

	reg("CreateDatabase", T("CreateDatabaseCommand"), 8, func(u *Universe) Cmd {
		name := u.db()
		v := &proto2.CreateDatabaseCommand{Name: ps(name)}
		txt := "CreateDatabase " + tok(name)
		if u.R.Chance(50) {
			rpi, t := u.rpInfo(u.rp())
			v.RetentionPolicy = rpi
			txt += " rp " + t
		} else {
			txt += " norp"
		}
		rep := uint32(1)
		if u.R.Chance(10) {
			rep = uint32(u.R.Intn(3))
			if u.Modelled && rep > 1 {
				rep = 0 // replica groups are outside the catalogue model
			}
		}
		v.ReplicaNum = pu32(rep)
		txt += fmt.Sprintf(" %d", rep)
		desc := txt
		if !u.Modelled {
			if u.R.Chance(20) {
				v.Ski, _ = u.ski()
				desc += " ski=" + v.Ski.String()
			}
			if u.R.Chance(20) {
				v.EnableTagArray = pb(true)
				desc += " tagarray"
			}
			if u.R.Chance(10) {
				v.Options = &proto2.ObsOptions{Enabled: pb(true), BucketName: ps("b"), Endpoint: ps("e"), BasePath: ps("p")}
				desc += " obs"
			}
		}
		return Cmd{PB: mk(T("CreateDatabaseCommand"), proto2.E_CreateDatabaseCommand_Command, v), Text: txt, Desc: desc}
	})
	reg("DropDatabase", T("DropDatabaseCommand"), 2, func(u *Universe) Cmd {
		name := u.db()
		return Cmd{PB: mk(T("DropDatabaseCommand"), proto2.E_DropDatabaseCommand_Command, &proto2.DropDatabaseCommand{Name: ps(name)}), Text: "DropDatabase " + tok(name)}
	})
	reg("MarkDatabaseDelete", T("MarkDatabaseDeleteCommand"), 2, func(u *Universe) Cmd {
		name := u.db()
		return Cmd{PB: mk(T("MarkDatabaseDeleteCommand"), proto2.E_MarkDatabaseDeleteCommand_Command, &proto2.MarkDatabaseDeleteCommand{Name: ps(name)}), Text: "MarkDatabaseDelete " + tok(name)}
	})
	reg("CreateRetentionPolicy", T("CreateRetentionPolicyCommand"), 6, func(u *Universe) Cmd {
		db := u.db()
		rpi, t := u.rpInfo(u.rp())
		def := u.R.Chance(40)
		v := &proto2.CreateRetentionPolicyCommand{Database: ps(db), RetentionPolicy: rpi, DefaultRP: pb(def)}
		return Cmd{PB: mk(T("CreateRetentionPolicyCommand"), proto2.E_CreateRetentionPolicyCommand_Command, v),
			Text: fmt.Sprintf("CreateRetentionPolicy %s %s %s", tok(db), b01(def), t)}
	})
	reg("DropRetentionPolicy", T("DropRetentionPolicyCommand"), 2, func(u *Universe) Cmd {
		db, rp := u.dbRp()
		v := &proto2.DropRetentionPolicyCommand{Database: ps(db), Name: ps(rp)}
		return Cmd{PB: mk(T("DropRetentionPolicyCommand"), proto2.E_DropRetentionPolicyCommand_Command, v), Text: fmt.Sprintf("DropRetentionPolicy %s %s", tok(db), tok(rp))}
	})
	reg("MarkRetentionPolicyDelete", T("MarkRetentionPolicyDeleteCommand"), 2, func(u *Universe) Cmd {
		db, rp := u.dbRp()
		v := &proto2.MarkRetentionPolicyDeleteCommand{Database: ps(db), Name: ps(rp)}
		return Cmd{PB: mk(T("MarkRetentionPolicyDeleteCommand"), proto2.E_MarkRetentionPolicyDeleteCommand_Command, v), Text: fmt.Sprintf("MarkRetentionPolicyDelete %s %s", tok(db), tok(rp))}
	})
	reg("SetDefaultRetentionPolicy", T("SetDefaultRetentionPolicyCommand"), 3, func(u *Universe) Cmd {
		db, rp := u.dbRp()
		v := &proto2.SetDefaultRetentionPolicyCommand{Database: ps(db), Name: ps(rp)}
		return Cmd{PB: mk(T("SetDefaultRetentionPolicyCommand"), proto2.E_SetDefaultRetentionPolicyCommand_Command, v), Text: fmt.Sprintf("SetDefaultRetentionPolicy %s %s", tok(db), tok(rp))}
	})
	reg("UpdateRetentionPolicy", T("UpdateRetentionPolicyCommand"), 6, func(u *Universe) Cmd {
		db, rp := u.dbRp()
		v := &proto2.UpdateRetentionPolicyCommand{Database: ps(db), Name: ps(rp)}
		newName := "_"
		if u.R.Chance(12) {
			n := u.pick(u.RPs, "rp9")
			v.NewName = ps(n)
			newName = tok(n)
		}
		opt := func(pct int) *int64 {
			if u.R.Chance(pct) {
				return p64(u.dur())
			}
			return nil
		}
		v.Duration = opt(35)
		v.ShardGroupDuration = opt(45)
		v.HotDuration = opt(10)
		v.WarmDuration = opt(10)
		v.IndexGroupDuration = opt(15)
		v.IndexColdDuration = opt(8)
		if u.R.Chance(5) {
			v.ReplicaN = pu32(2)
		}
		def := u.R.Chance(25)
		v.MakeDefault = pb(def)
		return Cmd{PB: mk(T("UpdateRetentionPolicyCommand"), proto2.E_UpdateRetentionPolicyCommand_Command, v),
			Text: fmt.Sprintf("UpdateRetentionPolicy %s %s %s %s %s %s %s %s %s %s", tok(db), tok(rp), newName, opt64(v.Duration), opt64(v.ShardGroupDuration),
				opt64(v.HotDuration), opt64(v.WarmDuration), opt64(v.IndexGroupDuration), opt64(v.IndexColdDuration), b01(def))}
	})
	reg("CreateMeasurement", T("CreateMeasurementCommand"), 10, func(u *Universe) Cmd {
		db, rp := u.dbRp()
		m := u.mst()
		ski, st := u.ski()
		eng := uint32(0)
		if u.R.Chance(12) {
			eng = 1
		}
		fs, ft := u.schema()
		v := &proto2.CreateMeasurementCommand{DBName: ps(db), RpName: ps(rp), Name: ps(m), Ski: ski, EngineType: pu32(eng), SchemaInfo: fs}
		txt := fmt.Sprintf("CreateMeasurement %s %s %s %s %d %s", tok(db), tok(rp), tok(m), st, eng, ft)
		desc := txt
		if !u.Modelled {
			if u.R.Chance(20) {
				n := int32(u.R.Intn(4)) - 1
				v.InitNumOfShards = p32(n)
				desc += fmt.Sprintf(" shards=%d", n)
			}
			if u.R.Chance(12) {
				v.ColStoreInfo = &proto2.ColStoreInfo{PrimaryKey: []string{"t0"}, SortKey: []string{"t0", "time"}, TimeClusterDuration: p64(Hour), CompactionType: p32(1)}
				desc += " colstore"
			}
			if u.R.Chance(12) {
				v.Options = &proto2.Options{Ttl: p64(3), SplitChar: ps(","), WriteThreshold: p32(2)}
				desc += " options"
			}
			if u.R.Chance(10) {
				v.IR = &proto2.IndexRelation{Rid: pu32(1), Oid: []uint32{2}, IndexName: []string{"text"}, IndexLists: []*proto2.IndexList{{IList: []string{"f0"}}}}
				desc += " index"
			}
		}
		return Cmd{PB: mk(T("CreateMeasurementCommand"), proto2.E_CreateMeasurementCommand_Command, v), Text: txt, Desc: desc}
	})
	reg("AlterShardKey", T("AlterShardKeyCmd"), 3, func(u *Universe) Cmd {
		db, rp := u.dbRp()
		m := u.mst()
		ski, st := u.ski()
		v := &proto2.AlterShardKeyCmd{DBName: ps(db), RpName: ps(rp), Name: ps(m), Ski: ski}
		return Cmd{PB: mk(T("AlterShardKeyCmd"), proto2.E_AlterShardKeyCmd_Command, v), Text: fmt.Sprintf("AlterShardKey %s %s %s %s", tok(db), tok(rp), tok(m), st)}
	})
	reg("UpdateSchema", T("UpdateSchemaCommand"), 8, func(u *Universe) Cmd {
		db, rp := u.dbRp()
		m := u.mst()
		fs, ft := u.schema()
		v := &proto2.UpdateSchemaCommand{Database: ps(db), RpName: ps(rp), Measurement: ps(m), FieldToCreate: fs}
		return Cmd{PB: mk(T("UpdateSchemaCommand"), proto2.E_UpdateSchemaCommand_Command, v), Text: fmt.Sprintf("UpdateSchema %s %s %s %s", tok(db), tok(rp), tok(m), ft)}
	})
	reg("MarkMeasurementDelete", T("MarkMeasurementDeleteCommand"), 3, func(u *Universe) Cmd {
		db, rp := u.dbRp()
		m := u.mst()
		v := &proto2.MarkMeasurementDeleteCommand{Database: ps(db), Policy: ps(rp), Measurement: ps(m)}
		return Cmd{PB: mk(T("MarkMeasurementDeleteCommand"), proto2.E_MarkMeasurementDeleteCommand_Command, v), Text: fmt.Sprintf("MarkMeasurementDelete %s %s %s", tok(db), tok(rp), tok(m))}
	})
	reg("DropMeasurement", T("DropMeasurementCommand"), 3, func(u *Universe) Cmd {
		db, rp := u.dbRp()
		m := u.mst()
		ver := u.R.Intn(3)
		name := fmt.Sprintf("%s_%04d", m, ver)
		if m == "" {
			name = ""
		}
		v := &proto2.DropMeasurementCommand{Database: ps(db), Policy: ps(rp), Measurement: ps(name)}
		return Cmd{PB: mk(T("DropMeasurementCommand"), proto2.E_DropMeasurementCommand_Command, v), Text: fmt.Sprintf("DropMeasurement %s %s %s", tok(db), tok(rp), tok(name))}
	})
	reg("CreateShardGroup", T("CreateShardGroupCommand"), 14, func(u *Universe) Cmd {
		db, rp := u.dbRp()
		ts := u.timestamp()
		tier := uint64(1 + u.R.Intn(2))
		eng := uint32(0)
		if u.R.Chance(12) {
			eng = 1
		}
		ver := uint32(0)
		if u.R.Chance(10) {
			ver = 1
		}
		v := &proto2.CreateShardGroupCommand{Database: ps(db), Policy: ps(rp), Timestamp: p64(ts), ShardTier: pu64(tier), EngineType: pu32(eng), Version: pu32(ver)}
		return Cmd{PB: mk(T("CreateShardGroupCommand"), proto2.E_CreateShardGroupCommand_Command, v), Text: fmt.Sprintf("CreateShardGroup %s %s %d %d %d %d", tok(db), tok(rp), ts, tier, eng, ver)}
	})
	reg("DeleteShardGroup", T("DeleteShardGroupCommand"), 5, func(u *Universe) Cmd {
		db, rp := u.dbRp()
		id := u.idOf("sg", 8)
		var at int64
		if u.R.Chance(30) {
			at = 12345
		}
		typ := int32(0)
		if u.R.Chance(15) {
			typ = 1
		}
		v := &proto2.DeleteShardGroupCommand{Database: ps(db), Policy: ps(rp), ShardGroupID: pu64(id), DeletedAt: p64(at), DeleteType: p32(typ)}
		return Cmd{PB: mk(T("DeleteShardGroupCommand"), proto2.E_DeleteShardGroupCommand_Command, v), Text: fmt.Sprintf("DeleteShardGroup %s %s %d %d", tok(db), tok(rp), id, typ)}
	})
	reg("DeleteIndexGroup", T("DeleteIndexGroupCommand"), 3, func(u *Universe) Cmd {
		db, rp := u.dbRp()
		id := u.idOf("ig", 6)
		v := &proto2.DeleteIndexGroupCommand{Database: ps(db), Policy: ps(rp), IndexGroupID: pu64(id)}
		return Cmd{PB: mk(T("DeleteIndexGroupCommand"), proto2.E_DeleteIndexGroupCommand_Command, v), Text: fmt.Sprintf("DeleteIndexGroup %s %s %d", tok(db), tok(rp), id)}
	})
	reg("PruneGroups", T("PruneGroupsCommand"), 6, func(u *Universe) Cmd {
		sg := u.R.Chance(65)
		id := u.nearID(map[bool]string{true: "shard", false: "index"}[sg], 16)
		v := &proto2.PruneGroupsCommand{ShardGroup: pb(sg), ID: pu64(id)}
		return Cmd{PB: mk(T("PruneGroupsCommand"), proto2.E_PruneGroupsCommand_Command, v), Text: fmt.Sprintf("PruneGroups %s %d", b01(sg), id)}
	})
	reg("CreateDataNode", T("CreateDataNodeCommand"), 4, func(u *Universe) Cmd {
		h := u.Hosts[u.R.Intn(len(u.Hosts))]
		role := ""
		if u.R.Chance(15) {
			role = []string{"reader", "writer"}[u.R.Intn(2)]
		}
		httpAddr, tcpAddr := h+":8400", h+":8401"
		if u.R.Chance(8) { // same tcp host announced under another http address
			httpAddr = h + ":9400"
		}
		v := &proto2.CreateDataNodeCommand{HTTPAddr: ps(httpAddr), TCPAddr: ps(tcpAddr), Role: ps(role), Az: ps("")}
		return Cmd{PB: mk(T("CreateDataNodeCommand"), proto2.E_CreateDataNodeCommand_Command, v), Text: fmt.Sprintf("CreateDataNode %s %s %s", httpAddr, tcpAddr, tok(role))}
	})
	reg("CreateDbPtView", T("CreateDbPtViewCommand"), 4, func(u *Universe) Cmd {
		db := u.db()
		v := &proto2.CreateDbPtViewCommand{DbName: ps(db), ReplicaNum: pu32(1)}
		return Cmd{PB: mk(T("CreateDbPtViewCommand"), proto2.E_CreateDbPtViewCommand_Command, v), Text: "CreateDbPtView " + tok(db)}
	})
	reg("UpdateShardInfoTier", T("UpdateShardInfoTierCommand"), 2, func(u *Universe) Cmd {
		db, rp, id := u.located("shard", 16)
		tier := uint64(1 + u.R.Intn(3))
		v := &proto2.UpdateShardInfoTierCommand{ShardID: pu64(id), Tier: pu64(tier), DbName: ps(db), RpName: ps(rp)}
		return Cmd{PB: mk(T("UpdateShardInfoTierCommand"), proto2.E_UpdateShardInfoTierCommand_Command, v), Text: fmt.Sprintf("UpdateShardInfoTier %d %d %s %s", id, tier, tok(db), tok(rp))}
	})
	reg("CreateUser", T("CreateUserCommand"), 3, func(u *Universe) Cmd {
		n := u.user()
		h := []string{"h1", "h2"}[u.R.Intn(2)]
		admin := n == "adm" || u.R.Chance(10)
		rw := u.R.Chance(20)
		v := &proto2.CreateUserCommand{Name: ps(n), Hash: ps(h), Admin: pb(admin), RwUser: pb(rw)}
		return Cmd{PB: mk(T("CreateUserCommand"), proto2.E_CreateUserCommand_Command, v), Text: fmt.Sprintf("CreateUser %s %s %s %s", tok(n), h, b01(admin), b01(rw))}
	})
	reg("DropUser", T("DropUserCommand"), 1, func(u *Universe) Cmd {
		n := u.user()
		return Cmd{PB: mk(T("DropUserCommand"), proto2.E_DropUserCommand_Command, &proto2.DropUserCommand{Name: ps(n)}), Text: "DropUser " + tok(n)}
	})
	reg("UpdateUser", T("UpdateUserCommand"), 1, func(u *Universe) Cmd {
		n := u.user()
		h := []string{"h1", "h2"}[u.R.Intn(2)]
		return Cmd{PB: mk(T("UpdateUserCommand"), proto2.E_UpdateUserCommand_Command, &proto2.UpdateUserCommand{Name: ps(n), Hash: ps(h)}), Text: fmt.Sprintf("UpdateUser %s %s", tok(n), h)}
	})
	reg("SetPrivilege", T("SetPrivilegeCommand"), 2, func(u *Universe) Cmd {
		n, db := u.user(), u.db()
		p := int32(u.R.Intn(4))
		v := &proto2.SetPrivilegeCommand{Username: ps(n), Database: ps(db), Privilege: p32(p)}
		return Cmd{PB: mk(T("SetPrivilegeCommand"), proto2.E_SetPrivilegeCommand_Command, v), Text: fmt.Sprintf("SetPrivilege %s %s %d", tok(n), tok(db), p)}
	})
	reg("SetAdminPrivilege", T("SetAdminPrivilegeCommand"), 1, func(u *Universe) Cmd {
		n := u.user()
		a := u.R.Bool()
		v := &proto2.SetAdminPrivilegeCommand{Username: ps(n), Admin: pb(a)}
		return Cmd{PB: mk(T("SetAdminPrivilegeCommand"), proto2.E_SetAdminPrivilegeCommand_Command, v), Text: fmt.Sprintf("SetAdminPrivilege %s %s", tok(n), b01(a))}
	})

	// ---- the remaining registered command types (not in the Lean catalogue model) ----
	un := func(kind, tname string, weight int, ext *proto.ExtensionDesc, f func(u *Universe) (interface{}, string)) {
		t := T(tname)
		reg(kind, t, weight, func(u *Universe) Cmd {
			v, d := f(u)
			return Cmd{PB: mk(t, ext, v), Desc: kind + " " + d, Text: modelText(v)}
		})
	}
	un("CreateSubscription", "CreateSubscriptionCommand", 2, proto2.E_CreateSubscriptionCommand_Command, func(u *Universe) (interface{}, string) {
		n := []string{"sub0", "sub1"}[u.R.Intn(2)]
		db, rp := u.dbRp()
		return &proto2.CreateSubscriptionCommand{Name: ps(n), Database: ps(db), RetentionPolicy: ps(rp), Mode: ps("ALL"), Destinations: []string{"http://h:1"}}, fmt.Sprint(n, " ", db, " ", rp)
	})
	un("DropSubscription", "DropSubscriptionCommand", 2, proto2.E_DropSubscriptionCommand_Command, func(u *Universe) (interface{}, string) {
		n := u.nameOf("sub", []string{"sub0", "sub1", ""})
		db, rp := u.dbRp()
		return &proto2.DropSubscriptionCommand{Name: ps(n), Database: ps(db), RetentionPolicy: ps(rp)}, fmt.Sprint(n, " ", db, " ", rp)
	})
	un("SetData", "SetDataCommand", 1, proto2.E_SetDataCommand_Command, func(u *Universe) (interface{}, string) {
		d := &meta.Data{ClusterPtNum: 1, PtNumPerNode: 1, MaxShardGroupID: 50, MaxShardID: 50, MaxIndexGroupID: 50, MaxIndexID: 50, MaxNodeID: 50, MaxMstID: 50}
		return &proto2.SetDataCommand{Data: d.Marshal()}, "fresh"
	})
	un("CreateMetaNode", "CreateMetaNodeCommand", 2, proto2.E_CreateMetaNodeCommand_Command, func(u *Universe) (interface{}, string) {
		h := u.Hosts[u.R.Intn(len(u.Hosts))]
		tcp := h + ":8088"
		if u.R.Chance(20) {
			tcp = h + ":8401" // same TCP address as a data node: id re-use path
		}
		return &proto2.CreateMetaNodeCommand{HTTPAddr: ps(h + ":8091"), RPCAddr: ps(h + ":8092"), TCPAddr: ps(tcp), Rand: pu64(uint64(u.R.Intn(5)))}, tcp
	})
	un("DeleteMetaNode", "DeleteMetaNodeCommand", 1, proto2.E_DeleteMetaNodeCommand_Command, func(u *Universe) (interface{}, string) {
		id := u.idOf("metanode", 6)
		return &proto2.DeleteMetaNodeCommand{ID: pu64(id)}, fmt.Sprint(id)
	})
	un("SetMetaNode", "SetMetaNodeCommand", 1, proto2.E_SetMetaNodeCommand_Command, func(u *Universe) (interface{}, string) {
		h := u.Hosts[u.R.Intn(len(u.Hosts))]
		return &proto2.SetMetaNodeCommand{HTTPAddr: ps(h + ":8091"), RPCAddr: ps(h + ":8092"), TCPAddr: ps(h + ":8088"), Rand: pu64(uint64(u.R.Intn(5)))}, h
	})
	un("CreateSqlNode", "CreateSqlNodeCommand", 2, proto2.E_CreateSqlNodeCommand_Command, func(u *Universe) (interface{}, string) {
		h := u.Hosts[u.R.Intn(len(u.Hosts))]
		return &proto2.CreateSqlNodeCommand{HTTPAddr: ps(h + ":8086"), GossipAddr: ps(h + ":8011")}, h
	})
	un("DeleteDataNode", "DeleteDataNodeCommand", 1, proto2.E_DeleteDataNodeCommand_Command, func(u *Universe) (interface{}, string) {
		id := u.idOf("node", 6)
		return &proto2.DeleteDataNodeCommand{ID: pu64(id)}, fmt.Sprint(id)
	})
	un("ReSharding", "ReShardingCommand", 2, proto2.E_ReShardingCommand_Command, func(u *Universe) (interface{}, string) {
		db, rp := u.dbRp()
		id := u.idOf("sg", 8)
		if last := u.lastGroupOf(db, rp); last != 0 && u.R.Chance(60) {
			id = last
		}
		ts := u.timestamp()
		return &proto2.ReShardingCommand{Database: ps(db), RpName: ps(rp), ShardGroupID: pu64(id), SplitTime: p64(ts), ShardBounds: []string{"m"}}, fmt.Sprint(db, " ", rp, " ", id, " ", ts)
	})
	un("UpdateNodeStatus", "UpdateNodeStatusCommand", 3, proto2.E_UpdateNodeStatusCommand_Command, func(u *Universe) (interface{}, string) {
		id := u.idOf("node", 5)
		st := int32(u.R.Intn(4))
		lt := uint64(u.R.Intn(6))
		return &proto2.UpdateNodeStatusCommand{ID: pu64(id), Status: p32(st), Ltime: pu64(lt), GossipAddr: ps("8011")}, fmt.Sprint(id, " ", st, " ", lt)
	})
	un("UpdateSqlNodeStatus", "UpdateSqlNodeStatusCommand", 2, proto2.E_UpdateSqlNodeStatusCommand_Command, func(u *Universe) (interface{}, string) {
		id := u.idOf("sqlnode", 6)
		st := int32(u.R.Intn(4))
		lt := uint64(u.R.Intn(6))
		return &proto2.UpdateSqlNodeStatusCommand{ID: pu64(id), Status: p32(st), Ltime: pu64(lt), GossipAddr: ps("8011")}, fmt.Sprint(id, " ", st, " ", lt)
	})
	un("UpdateMetaNodeStatus", "UpdateMetaNodeStatusCommand", 2, proto2.E_UpdateMetaNodeStatusCommand_Command, func(u *Universe) (interface{}, string) {
		id := u.idOf("metanode", 6)
		st := int32(u.R.Intn(4))
		lt := uint64(u.R.Intn(6))
		return &proto2.UpdateMetaNodeStatusCommand{ID: pu64(id), Status: p32(st), Ltime: pu64(lt), GossipAddr: ps("8011")}, fmt.Sprint(id, " ", st, " ", lt)
	})
	migrate := func(u *Universe) *proto2.MigrateEventInfo {
		db := u.db()
		pt := uint32(u.R.Intn(3))
		return &proto2.MigrateEventInfo{EventId: ps(fmt.Sprintf("%s$%d", db, pt)), EventType: p32(int32(u.R.Intn(3))), OpId: pu64(uint64(u.R.Intn(4))),
			Pti:       &proto2.DbPt{Db: ps(db), Pt: &proto2.PtInfo{Owner: &proto2.PtOwner{NodeID: pu64(u.id(4))}, Status: pu32(uint32(u.R.Intn(4))), PtId: pu32(pt)}, DBBriefInfo: &proto2.DatabaseBriefInfo{Name: ps(db), EnableTagArray: pb(false)}},
			CurrState: p32(int32(u.R.Intn(4))), PreState: p32(int32(u.R.Intn(4))), Src: pu64(u.id(4)), Dest: pu64(u.id(4)), CheckConflict: pb(u.R.Chance(40)), AliveConnId: pu64(uint64(u.R.Intn(3)))}
	}
	un("CreateEvent", "CreateEventCommand", 3, proto2.E_CreateEventCommand_Command, func(u *Universe) (interface{}, string) {
		e := migrate(u)
		return &proto2.CreateEventCommand{EventInfo: e}, e.String()
	})
	un("UpdateEvent", "UpdateEventCommand", 2, proto2.E_UpdateEventCommand_Command, func(u *Universe) (interface{}, string) {
		e := migrate(u)
		return &proto2.UpdateEventCommand{EventInfo: e}, e.String()
	})
	un("RemoveEvent", "RemoveEventCommand", 1, proto2.E_RemoveEventCommand_Command, func(u *Universe) (interface{}, string) {
		id := fmt.Sprintf("%s$%d", u.db(), u.R.Intn(3))
		return &proto2.RemoveEventCommand{EventId: ps(id)}, id
	})
	un("UpdatePtInfo", "UpdatePtInfoCommand", 3, proto2.E_UpdatePtInfoCommand_Command, func(u *Universe) (interface{}, string) {
		db := u.db()
		pt := uint32(u.R.Intn(3))
		owner := u.id(4)
		st := uint32(u.R.Intn(4))
		v := &proto2.UpdatePtInfoCommand{Db: ps(db), Pt: &proto2.PtInfo{Owner: &proto2.PtOwner{NodeID: pu64(owner)}, Status: pu32(uint32([]int{0, 3}[u.R.Intn(2)])), PtId: pu32(pt)}, OwnerNode: pu64(u.id(4)), Status: pu32(st)}
		return v, fmt.Sprint(db, " pt", pt, " owner", owner, " st", st)
	})
	un("CreateDownSamplePolicy", "CreateDownSamplePolicyCommand", 2, proto2.E_CreateDownSamplePolicyCommand_Command, func(u *Universe) (interface{}, string) {
		db, rp := u.dbRp()
		info := &proto2.DownSamplePolicyInfo{Duration: p64(Day), Calls: []*proto2.DownSampleOperators{{AggOps: []string{"max"}, DataType: p64(1)}},
			DownSamplePolicies: []*proto2.DownSamplePolicy{{SampleInterval: p64(Hour), TimeInterval: p64(Hour), WaterMark: p64(Hour)}}}
		return &proto2.CreateDownSamplePolicyCommand{DownSamplePolicyInfo: info, Database: ps(db), Name: ps(rp)}, db + " " + rp
	})
	un("DropDownSamplePolicy", "DropDownSamplePolicyCommand", 1, proto2.E_DropDownSamplePolicyCommand_Command, func(u *Universe) (interface{}, string) {
		db, rp := u.dbRp()
		all := u.R.Chance(30)
		return &proto2.DropDownSamplePolicyCommand{Database: ps(db), RpName: ps(rp), DropAll: pb(all)}, fmt.Sprint(db, " ", rp, " ", all)
	})
	un("UpdateShardDownSampleInfo", "UpdateShardDownSampleInfoCommand", 2, proto2.E_UpdateShardDownSampleInfoCommand_Command, func(u *Universe) (interface{}, string) {
		db, rp := u.dbRp()
		id := u.idOf("shard", 16)
		lvl := int64(u.R.Intn(3))
		return &proto2.UpdateShardDownSampleInfoCommand{Ident: &proto2.ShardIdentifier{ShardID: pu64(id), ShardGroupID: pu64(1), OwnerDb: ps(db), OwnerPt: pu32(0), Policy: ps(rp), ShardType: ps("hash"),
			DownSampleLevel: p64(lvl), DownSampleID: pu64(uint64(u.R.Intn(2))), ReadOnly: pb(u.R.Bool())}}, fmt.Sprint(db, " ", rp, " ", id, " ", lvl)
	})
	un("MarkTakeover", "MarkTakeoverCommand", 1, proto2.E_MarkTakeoverCommand_Command, func(u *Universe) (interface{}, string) {
		e := u.R.Chance(80)
		return &proto2.MarkTakeoverCommand{Enable: pb(e)}, fmt.Sprint(e)
	})
	un("MarkBalancer", "MarkBalancerCommand", 1, proto2.E_MarkBalancerCommand_Command, func(u *Universe) (interface{}, string) {
		e := u.R.Bool()
		return &proto2.MarkBalancerCommand{Enable: pb(e)}, fmt.Sprint(e)
	})
	un("CreateStream", "CreateStreamCommand", 2, proto2.E_CreateStreamCommand_Command, func(u *Universe) (interface{}, string) {
		n := u.Streams[u.R.Intn(len(u.Streams))]
		db, rp := u.dbRp()
		si := &proto2.StreamInfo{Name: ps(n), ID: pu64(0), SrcMst: &proto2.StreamMeasurementInfo{Name: ps(u.mst()), Database: ps(db), RetentionPolicy: ps(rp)},
			DesMst:   &proto2.StreamMeasurementInfo{Name: ps(u.mst()), Database: ps(db), RetentionPolicy: ps(rp)},
			Interval: p64(Hour * int64(1+u.R.Intn(2))), Delay: p64(0), Dims: []string{"t0"}, Calls: []*proto2.StreamCall{{Call: ps("sum"), Field: ps("f0"), Alias: ps("s")}}}
		return &proto2.CreateStreamCommand{StreamInfo: si}, fmt.Sprint(n, " ", db, " ", rp)
	})
	un("DropStream", "DropStreamCommand", 1, proto2.E_DropStreamCommand_Command, func(u *Universe) (interface{}, string) {
		n := u.nameOf("stream", u.Streams)
		return &proto2.DropStreamCommand{Name: ps(n)}, n
	})
	un("VerifyDataNode", "VerifyDataNodeCommand", 1, proto2.E_VerifyDataNodeCommand_Command, func(u *Universe) (interface{}, string) {
		id := u.idOf("node", 4)
		return &proto2.VerifyDataNodeCommand{NodeID: pu64(id)}, fmt.Sprint(id)
	})
	un("ExpandGroups", "ExpandGroupsCommand", 2, proto2.E_ExpandGroupsCommand_Command, func(u *Universe) (interface{}, string) {
		return &proto2.ExpandGroupsCommand{}, ""
	})
	un("UpdatePtVersion", "UpdatePtVersionCommand", 1, proto2.E_UpdatePtVersionCommand_Command, func(u *Universe) (interface{}, string) {
		db := u.db()
		pt := uint32(u.R.Intn(3))
		return &proto2.UpdatePtVersionCommand{Db: ps(db), Pt: pu32(pt)}, fmt.Sprint(db, " ", pt)
	})
	un("RegisterQueryIDOffset", "RegisterQueryIDOffsetCommand", 1, proto2.E_RegisterQueryIDOffsetCommand_Command, func(u *Universe) (interface{}, string) {
		h := u.Hosts[u.R.Intn(len(u.Hosts))] + ":8086"
		return &proto2.RegisterQueryIDOffsetCommand{Host: ps(h)}, h
	})
	un("CreateContinuousQuery", "CreateContinuousQueryCommand", 2, proto2.E_CreateContinuousQueryCommand_Command, func(u *Universe) (interface{}, string) {
		db := u.dbLive()
		n := u.CQs[u.R.Intn(len(u.CQs))]
		q := []string{"SELECT 1", "select 1", "SELECT 2"}[u.R.Intn(3)]
		return &proto2.CreateContinuousQueryCommand{Database: ps(db), Name: ps(n), Query: ps(q)}, fmt.Sprint(db, " ", n, " ", q)
	})
	un("ContinuousQueryReport", "ContinuousQueryReportCommand", 1, proto2.E_ContinuousQueryReportCommand_Command, func(u *Universe) (interface{}, string) {
		n := u.pick(u.CQs)
		ts := int64(u.R.Intn(100)) * Hour
		return &proto2.ContinuousQueryReportCommand{CQStates: []*proto2.CQState{{Name: ps(n), LastRunTime: p64(ts)}}}, fmt.Sprint(n, " ", ts)
	})
	un("DropContinuousQuery", "DropContinuousQueryCommand", 1, proto2.E_DropContinuousQueryCommand_Command, func(u *Universe) (interface{}, string) {
		n, db := u.nameOf("cq", u.CQs), u.dbLive()
		return &proto2.DropContinuousQueryCommand{Name: ps(n), Database: ps(db)}, n + " " + db
	})
	un("NotifyCQLeaseChanged", "NotifyCQLeaseChangedCommand", 1, proto2.E_NotifyCQLeaseChangedCommand_Command, func(u *Universe) (interface{}, string) {
		return &proto2.NotifyCQLeaseChangedCommand{}, ""
	})
	un("SetNodeSegregateStatus", "SetNodeSegregateStatusCommand", 1, proto2.E_SetNodeSegregateStatusCommand_Command, func(u *Universe) (interface{}, string) {
		id := u.idOf("node", 4)
		st := uint64(u.R.Intn(3))
		return &proto2.SetNodeSegregateStatusCommand{Status: []uint64{st}, NodeIds: []uint64{id}}, fmt.Sprint(id, " ", st)
	})
	un("RemoveNode", "RemoveNodeCommand", 1, proto2.E_RemoveNodeCommand_Command, func(u *Universe) (interface{}, string) {
		id := u.idOf("node", 4)
		return &proto2.RemoveNodeCommand{NodeIds: []uint64{id}}, fmt.Sprint(id)
	})
	un("UpdateReplication", "UpdateReplicationCommand", 1, proto2.E_UpdateReplicationCommand_Command, func(u *Universe) (interface{}, string) {
		db := u.db()
		return &proto2.UpdateReplicationCommand{Database: ps(db), RepGroupId: pu32(0), MasterId: pu32(uint32(u.R.Intn(2))), Peers: []*proto2.Peer{{ID: pu32(1), Role: pu32(1)}}}, db
	})
	un("UpdateMeasurement", "UpdateMeasurementCommand", 2, proto2.E_UpdateMeasurementCommand_Command, func(u *Universe) (interface{}, string) {
		db, rp := u.dbRp()
		m := u.mst()
		ttl := []int64{1, 7, Day, 3 * Day}[u.R.Intn(4)]
		return &proto2.UpdateMeasurementCommand{Db: ps(db), Rp: ps(rp), Mst: ps(m), Options: &proto2.Options{Ttl: p64(ttl), SplitChar: ps(";")}}, fmt.Sprint(db, " ", rp, " ", m, " ", ttl)
	})
	un("UpdateNodeTmpIndex", "UpdateNodeTmpIndexCommand", 2, proto2.E_UpdateNodeTmpIndexCommand_Command, func(u *Universe) (interface{}, string) {
		role := int32(u.R.Intn(3))
		idx := uint64(u.R.Intn(50))
		id := u.idOf("node", 5)
		return &proto2.UpdateNodeTmpIndexCommand{Role: p32(role), Index: pu64(idx), NodeId: pu64(id)}, fmt.Sprint(role, " ", idx, " ", id)
	})
	un("InsertFiles", "InsertFilesCommand", 1, proto2.E_InsertFilesCommand_Command, func(u *Universe) (interface{}, string) {
		return &proto2.InsertFilesCommand{FileInfos: []*proto2.FileInfo{{Sequence: pu64(1), MstID: pu64(1), ShardID: pu64(1)}}}, ""
	})
	un("UpdateIndexInfoTier", "UpdateIndexInfoTierCommand", 2, proto2.E_UpdateIndexInfoTierCommand_Command, func(u *Universe) (interface{}, string) {
		db, rp, id := u.located("index", 12)
		tier := uint64(1 + u.R.Intn(3))
		return &proto2.UpdateIndexInfoTierCommand{IndexID: pu64(id), Tier: pu64(tier), DbName: ps(db), RpName: ps(rp)}, fmt.Sprint(id, " ", tier, " ", db, " ", rp)
	})
	un("ReplaceMergeShards", "ReplaceMergeShardsCommand", 2, proto2.E_ReplaceMergeShardsCommand_Command, func(u *Universe) (interface{}, string) {
		db, rp := u.dbRp()
		ids := []uint64{u.idOf("shard", 12), u.idOf("shard", 12)}
		if ids[0] > ids[1] {
			ids[0], ids[1] = ids[1], ids[0]
		}
		return &proto2.ReplaceMergeShardsCommand{Db: ps(db), PtId: pu32(0), Rp: ps(rp), ShardId: ids}, fmt.Sprint(db, " ", rp, " ", ids)
	})
	un("RecoverMetaData", "RecoverMetaData", 1, proto2.E_RecoverMetaDataCommand_Command, func(u *Universe) (interface{}, string) {
		var dbs []string
		if u.R.Chance(60) {
			dbs = []string{u.db()}
		}
		md := `{"PtView":{"db0":[{"Owner":{"NodeID":1},"Status":3,"PtId":0,"Ver":1}]},"Databases":{"db0":{"Name":"db0","DefaultRetentionPolicy":"autogen","ReplicaN":1}}}`
		if u.R.Chance(20) {
			md = "{"
		}
		return &proto2.RecoverMetaDataCommand{Databases: dbs, MetaData: []byte(md), NodeMap: map[uint64]uint64{1: 1, 2: 2}}, fmt.Sprint(dbs, " ", len(md))
	})
}

// modelText renders a command of the second model layer (OG/Meta/Model2.lean) as the text the
// Lean driver parses ("" = not in the model). In the modelled mode the command is rebuilt from
// this text (FromText), so that the implementation and the model are driven by the same thing.
func modelText(v interface{}) string {
	switch c := v.(type) {
	case *proto2.UpdateIndexInfoTierCommand:
		return fmt.Sprintf("UpdateIndexInfoTier %d %d %s %s", c.GetIndexID(), c.GetTier(), tok(c.GetDbName()), tok(c.GetRpName()))
	case *proto2.UpdatePtVersionCommand:
		return fmt.Sprintf("UpdatePtVersion %s %d", tok(c.GetDb()), c.GetPt())
	case *proto2.ReShardingCommand:
		return fmt.Sprintf("ReSharding %s %s %d %d %d", tok(c.GetDatabase()), tok(c.GetRpName()), c.GetShardGroupID(), c.GetSplitTime(), len(c.GetShardBounds()))
	case *proto2.ExpandGroupsCommand:
		return "ExpandGroups"
	case *proto2.MarkTakeoverCommand:
		return "MarkTakeover " + b01(c.GetEnable())
	case *proto2.MarkBalancerCommand:
		return "MarkBalancer " + b01(c.GetEnable())
	case *proto2.CreateSubscriptionCommand:
		return fmt.Sprintf("CreateSubscription %s %s %s", tok(c.GetName()), tok(c.GetDatabase()), tok(c.GetRetentionPolicy()))
	case *proto2.DropSubscriptionCommand:
		return fmt.Sprintf("DropSubscription %s %s %s", tok(c.GetName()), tok(c.GetDatabase()), tok(c.GetRetentionPolicy()))
	case *proto2.CreateContinuousQueryCommand:
		return fmt.Sprintf("CreateContinuousQuery %s %s %s", tok(c.GetDatabase()), tok(c.GetName()), strings.ReplaceAll(c.GetQuery(), " ", "_"))
	case *proto2.DropContinuousQueryCommand:
		return fmt.Sprintf("DropContinuousQuery %s %s", tok(c.GetName()), tok(c.GetDatabase()))
	case *proto2.ContinuousQueryReportCommand:
		if len(c.GetCQStates()) == 1 {
			return fmt.Sprintf("ContinuousQueryReport %s %d", tok(c.CQStates[0].GetName()), c.CQStates[0].GetLastRunTime())
		}
	case *proto2.CreateStreamCommand:
		si := c.GetStreamInfo()
		return fmt.Sprintf("CreateStream %s %s %s %s %s %s %s %d", tok(si.GetName()), tok(si.SrcMst.GetDatabase()), tok(si.SrcMst.GetRetentionPolicy()), tok(si.SrcMst.GetName()),
			tok(si.DesMst.GetDatabase()), tok(si.DesMst.GetRetentionPolicy()), tok(si.DesMst.GetName()), si.GetInterval())
	case *proto2.DropStreamCommand:
		return "DropStream " + tok(c.GetName())
	}
	return ""
}

// Bootstrap returns a short valid prologue: data nodes, a database with a policy, its
// partition view, a measurement or two - so that random logs reach populated states.
func Bootstrap(u *Universe) []Cmd {
	saved := u.Invalid
	u.Invalid = 0
	defer func() { u.Invalid = saved }()
	var out []Cmd
	for i := 0; i <= u.R.Intn(2); i++ {
		out = append(out, u.GenKind("CreateDataNode"))
	}
	for i := 0; i <= u.R.Intn(2); i++ {
		out = append(out, u.GenKind("CreateDatabase"))
		out = append(out, u.GenKind("CreateDbPtView"))
	}
	for i := 0; i < 1+u.R.Intn(3); i++ {
		out = append(out, u.GenKind("CreateRetentionPolicy"))
	}
	for i := 0; i < 1+u.R.Intn(4); i++ {
		out = append(out, u.GenKind("CreateMeasurement"))
	}
	for i := 0; i < u.R.Intn(3); i++ {
		out = append(out, u.GenKind("CreateShardGroup"))
	}
	return out
}

// UngeneratedTypes lists command types registered in the state machine's dispatch table for
// which this generator has no kind.
func UngeneratedTypes() []int32 {
	have := map[int32]bool{}
	for _, g := range gens {
		have[int32(g.t)] = true
	}
	var missing []int32
	for _, t := range registeredTypes() {
		if !have[t] {
			missing = append(missing, t)
		}
	}
	return missing
}
