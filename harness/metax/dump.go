// Package metax is shared by the C15 and C16 harnesses: a reflective canonical dump of
// meta.Data (a generic value tree that the Lean side parses as OG.Meta.Val), the command
// generator over every registered command type, and a wrapper around the verif hook of the
// meta state machine.
package metax

import (
	"fmt"
	"reflect"
	"sort"
	"strconv"
	"strings"
	"time"
)

// Node is the generic value tree: number, string, list, or typed record.
type Node struct {
	Kind   byte // 'N' number, 'S' string, 'L' list, 'R' record
	Num    string
	Str    string
	Elems  []*Node
	Type   string
	Fields []Field
}

type Field struct {
	Name string
	Val  *Node
}

func num(v string) *Node { return &Node{Kind: 'N', Num: v} }

// Transient lists the (struct type, field) pairs that are *not* part of the persistent
// catalogue: they are skipped by the dump, and the Lean side keeps the same list with the
// justification of each entry (OG/C15/Transient.lean; op line `transients` compares them).
var Transient = map[string]bool{
	// incremental-sync command cache: re-attached from the running store by SetOps on Restore
	"Data.opsMapMu":          true,
	"Data.OpsMap":            true,
	"Data.OpsMapMinIndex":    true,
	"Data.OpsMapMaxIndex":    true,
	"Data.OpsToMarshalIndex": true,
	// set from Index on unmarshal / on every successful apply; read only by the leader's
	// UpdateNodeTmpIndex scheduling, never by a command
	"Data.UpdateNodeTmpIndexCommandStart": true,
	// copied from the node's configuration at the start of CreateDataNode / CreateSqlNode
	"Data.ExpandShardsEnable": true,
	// cache of HasAdminUser(), recomputed by Unmarshal
	"Data.AdminUserExists": true,
	// external handle (only its presence is persisted)
	"Data.SQLite": true,
	// caches recomputed by unmarshal from persistent fields
	"MeasurementInfo.originName":     true,
	"MeasurementInfo.tagKeysTotal":   true,
	"MeasurementInfo.SchemaLock":     true,
	"MeasurementVer.NameWithVersion": true,
	// denormalised copy of DbPtInfo.Db (DbPtInfo.Marshal writes Db in its place)
	"DatabaseBriefInfo.Name": true,
}

// TransientList returns the sorted list of transient fields.
func TransientList() []string {
	out := make([]string, 0, len(Transient))
	for k := range Transient {
		out = append(out, k)
	}
	sort.Strings(out)
	return out
}

// setUnset lists time fields that hold a wall-clock stamp taken inside Apply: the property
// compares them as set/unset only.
var setUnset = map[string]bool{
	"ShardGroupInfo.DeletedAt": true,
	"IndexGroupInfo.DeletedAt": true,
}

var timeType = reflect.TypeOf(time.Time{})

// Dump converts any Go value into the canonical tree. Maps become lists of kv records
// sorted by key; nil and empty slices/maps are the same; pointers are 0/1-element lists.
func Dump(v interface{}) *Node { return dump(reflect.ValueOf(v), "", "") }

func dump(v reflect.Value, owner, field string) *Node {
	switch v.Kind() {
	case reflect.Bool:
		if v.Bool() {
			return num("1")
		}
		return num("0")
	case reflect.Int, reflect.Int8, reflect.Int16, reflect.Int32, reflect.Int64:
		return num(strconv.FormatInt(v.Int(), 10))
	case reflect.Uint, reflect.Uint8, reflect.Uint16, reflect.Uint32, reflect.Uint64:
		return num(strconv.FormatUint(v.Uint(), 10))
	case reflect.String:
		return &Node{Kind: 'S', Str: v.String()}
	case reflect.Ptr, reflect.Interface:
		if v.Kind() == reflect.Ptr && (v.Type().Elem().Kind() == reflect.Map || v.Type().Elem().Kind() == reflect.Slice) {
			// *map / *slice: nil and empty are the same thing
			if v.IsNil() {
				return &Node{Kind: 'L'}
			}
			return dump(v.Elem(), owner, field)
		}
		if v.IsNil() {
			return &Node{Kind: 'L'}
		}
		return &Node{Kind: 'L', Elems: []*Node{dump(v.Elem(), owner, field)}}
	case reflect.Slice, reflect.Array:
		n := &Node{Kind: 'L'}
		for i := 0; i < v.Len(); i++ {
			n.Elems = append(n.Elems, dump(v.Index(i), owner, field))
		}
		return n
	case reflect.Map:
		n := &Node{Kind: 'L'}
		keys := v.MapKeys()
		type kv struct {
			k *Node
			s string
			v reflect.Value
		}
		var kvs []kv
		for _, k := range keys {
			kn := dump(k, owner, field)
			kvs = append(kvs, kv{kn, sortKey(kn), v.MapIndex(k)})
		}
		sort.Slice(kvs, func(i, j int) bool { return kvs[i].s < kvs[j].s })
		for _, e := range kvs {
			n.Elems = append(n.Elems, &Node{Kind: 'R', Type: "kv", Fields: []Field{{"k", e.k}, {"v", dump(e.v, owner, field)}}})
		}
		return n
	case reflect.Struct:
		if v.Type() == timeType {
			t := timeOf(v)
			if setUnset[owner+"."+field] {
				if t.IsZero() {
					return num("0")
				}
				return num("1")
			}
			return num(strconv.FormatInt(t.UnixNano(), 10))
		}
		tn := v.Type().Name()
		n := &Node{Kind: 'R', Type: tn}
		for i := 0; i < v.NumField(); i++ {
			f := v.Type().Field(i)
			if Transient[tn+"."+f.Name] {
				continue
			}
			switch f.Type.Kind() {
			case reflect.Func, reflect.Chan, reflect.UnsafePointer:
				continue
			}
			n.Fields = append(n.Fields, Field{f.Name, dump(v.Field(i), tn, f.Name)})
		}
		return n
	}
	return &Node{Kind: 'S', Str: "?" + v.Kind().String()}
}

// timeOf reads a time.Time even from an unexported field.
func timeOf(v reflect.Value) time.Time {
	if v.CanInterface() {
		return v.Interface().(time.Time)
	}
	// unexported: rebuild from wall/ext/loc is not possible portably; copy through a new value
	nv := reflect.New(v.Type()).Elem()
	// reflect allows Set from an unexported source only if obtained via exported path; use
	// field-wise copy of the three words instead.
	for i := 0; i < v.NumField(); i++ {
		f := nv.Field(i)
		src := v.Field(i)
		p := reflect.NewAt(f.Type(), f.Addr().UnsafePointer()).Elem()
		switch src.Kind() {
		case reflect.Uint64:
			p.SetUint(src.Uint())
		case reflect.Int64:
			p.SetInt(src.Int())
		case reflect.Ptr:
			// *Location: only affects printing, not the instant
		}
	}
	return nv.Interface().(time.Time)
}

func sortKey(n *Node) string {
	switch n.Kind {
	case 'N':
		// numeric order for non-negative numbers of different length
		if strings.HasPrefix(n.Num, "-") {
			return "-" + fmt.Sprintf("%030s", n.Num[1:])
		}
		return fmt.Sprintf("%030s", n.Num)
	case 'S':
		return n.Str
	}
	return n.String()
}

// String renders the tree as whitespace-separated tokens (the format OG.Meta.Val parses):
//
//	N<int> | S<hex> | L<n> v1 … vn | R<Type>:<n> F<name> v … (n fields)
func (n *Node) String() string {
	var b strings.Builder
	n.write(&b)
	return b.String()
}

func (n *Node) write(b *strings.Builder) {
	switch n.Kind {
	case 'N':
		b.WriteString("N" + n.Num)
	case 'S':
		b.WriteString("S")
		const hexd = "0123456789abcdef"
		for i := 0; i < len(n.Str); i++ {
			b.WriteByte(hexd[n.Str[i]>>4])
			b.WriteByte(hexd[n.Str[i]&15])
		}
	case 'L':
		fmt.Fprintf(b, "L%d", len(n.Elems))
		for _, e := range n.Elems {
			b.WriteByte(' ')
			e.write(b)
		}
	case 'R':
		fmt.Fprintf(b, "R%s:%d", n.Type, len(n.Fields))
		for _, f := range n.Fields {
			b.WriteString(" F" + f.Name + " ")
			f.Val.write(b)
		}
	}
}

// Diff returns a human-readable description of the first differences between two trees.
func Diff(a, b *Node, max int) []string {
	var out []string
	diff(a, b, "", &out, max)
	return out
}

func diff(a, b *Node, path string, out *[]string, max int) {
	if len(*out) >= max {
		return
	}
	if a.Kind != b.Kind {
		*out = append(*out, fmt.Sprintf("%s: %s vs %s", path, short(a), short(b)))
		return
	}
	switch a.Kind {
	case 'N':
		if a.Num != b.Num {
			*out = append(*out, fmt.Sprintf("%s: %s vs %s", path, a.Num, b.Num))
		}
	case 'S':
		if a.Str != b.Str {
			*out = append(*out, fmt.Sprintf("%s: %q vs %q", path, a.Str, b.Str))
		}
	case 'L':
		if len(a.Elems) != len(b.Elems) {
			*out = append(*out, fmt.Sprintf("%s: len %d vs %d (%s | %s)", path, len(a.Elems), len(b.Elems), short(a), short(b)))
			return
		}
		for i := range a.Elems {
			p := fmt.Sprintf("%s[%d]", path, i)
			if a.Elems[i].Kind == 'R' && a.Elems[i].Type == "kv" && len(a.Elems[i].Fields) == 2 {
				p = fmt.Sprintf("%s[%s]", path, short(a.Elems[i].Fields[0].Val))
			}
			diff(a.Elems[i], b.Elems[i], p, out, max)
		}
	case 'R':
		if a.Type != b.Type || len(a.Fields) != len(b.Fields) {
			*out = append(*out, fmt.Sprintf("%s: record %s/%d vs %s/%d", path, a.Type, len(a.Fields), b.Type, len(b.Fields)))
			return
		}
		for i := range a.Fields {
			diff(a.Fields[i].Val, b.Fields[i].Val, path+"."+a.Fields[i].Name, out, max)
		}
	}
}

func short(n *Node) string {
	switch n.Kind {
	case 'N':
		return n.Num
	case 'S':
		return strconv.Quote(n.Str)
	}
	s := n.String()
	if len(s) > 80 {
		s = s[:80] + "…"
	}
	return s
}

// Get follows field names / list indexes (for the harness's own checks).
func (n *Node) Get(path ...string) *Node {
	cur := n
	for _, p := range path {
		if cur == nil {
			return nil
		}
		switch cur.Kind {
		case 'R':
			var nx *Node
			for _, f := range cur.Fields {
				if f.Name == p {
					nx = f.Val
				}
			}
			cur = nx
		case 'L':
			i, err := strconv.Atoi(p)
			if err != nil || i >= len(cur.Elems) {
				return nil
			}
			cur = cur.Elems[i]
		default:
			return nil
		}
	}
	return cur
}
