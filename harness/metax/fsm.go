package metax

import (
	"fmt"
	"math"
	"reflect"
	"sort"
	"strings"
	"time"

	"github.com/hashicorp/raft"
	metasrv "github.com/openGemini/openGemini/app/ts-meta/meta"
	"github.com/openGemini/openGemini/lib/config"
	"github.com/openGemini/openGemini/lib/util/lifted/influx/meta"

	"verif/harness/internal/hx"
)

// Inst is one replica of the meta state machine.
type Inst struct {
	F     *metasrv.VerifFSM
	Index uint64
}

// NewInst builds a replica with the default meta configuration (one partition per node,
// schema cleaning on, incremental sync on), as ts-meta starts it.
func NewInst() *Inst {
	c := config.NewMeta()
	c.PtNumPerNode = 1
	return &Inst{F: metasrv.NewVerifFSM(c), Index: 1}
}

// Result is the canonical form of what Apply returned.
type Result struct {
	OK    bool
	Err   string // canonical error text ("" when OK)
	Panic bool
}

func (r Result) String() string {
	if r.OK {
		return "ok"
	}
	if r.Panic {
		return "panic " + r.Err
	}
	return "err " + r.Err
}

// Apply applies one command; a panic inside the state machine is a result of its own.
func (in *Inst) Apply(c Cmd) (res Result) {
	in.Index++
	var ret interface{}
	perr := hx.Safe(func() { ret = in.F.Apply(1, in.Index, c.PB) })
	if perr != "" {
		return Result{Panic: true, Err: canonErr(perr)}
	}
	if ret == nil {
		return Result{OK: true}
	}
	if e, ok := ret.(error); ok {
		if e == nil {
			return Result{OK: true}
		}
		return Result{Err: canonErr(e.Error())}
	}
	return Result{Err: canonErr(fmt.Sprint(ret))}
}

func canonErr(s string) string {
	// one token: every white-space character becomes '_' (nothing is trimmed or shortened,
	// the Lean model prints the same text)
	s = strings.Map(func(r rune) rune {
		if r == ' ' || r == '\n' || r == '\t' || r == '\r' {
			return '_'
		}
		return r
	}, s)
	if len(s) > 300 {
		s = s[:300]
	}
	return s
}

// Snapshot runs storeFSM.Snapshot (the deep copy); Persist is separate because raft
// persists the returned object later, concurrently with further Apply calls.
func (in *Inst) Snapshot() (raft.FSMSnapshot, error) { return in.F.Snapshot() }

func Persist(s raft.FSMSnapshot) ([]byte, error) { return metasrv.VerifPersist(s) }

// Restore is storeFSM.Restore; the replica's raft index continues from the snapshot's.
func (in *Inst) Restore(b []byte) error {
	err := in.F.Restore(b)
	if err == nil {
		in.Index = in.F.Data().Index
	}
	return err
}

func (in *Inst) Data() *meta.Data { return in.F.Data() }

// DumpData renders the catalogue canonically (transient fields skipped).
func (in *Inst) DumpData() *Node { return Dump(in.F.Data()).Elems[0] }

// ShuffleMaps re-inserts the entries of every map reachable from the catalogue in a random
// order, so that "the first element of a map" differs between replicas and between steps.
func (in *Inst) ShuffleMaps(r *hx.Rng) {
	d := in.F.Data()
	shuffle(reflect.ValueOf(d).Elem(), r, 0)
}

func shuffle(v reflect.Value, r *hx.Rng, depth int) {
	if depth > 12 {
		return
	}
	switch v.Kind() {
	case reflect.Ptr, reflect.Interface:
		if !v.IsNil() {
			shuffle(v.Elem(), r, depth+1)
		}
	case reflect.Struct:
		tn := v.Type().Name()
		for i := 0; i < v.NumField(); i++ {
			f := v.Type().Field(i)
			if f.PkgPath != "" || Transient[tn+"."+f.Name] { // unexported or transient
				continue
			}
			shuffle(v.Field(i), r, depth+1)
		}
	case reflect.Slice:
		for i := 0; i < v.Len(); i++ {
			shuffle(v.Index(i), r, depth+1)
		}
	case reflect.Map:
		if v.IsNil() || v.Len() == 0 || !v.CanSet() {
			return
		}
		keys := v.MapKeys()
		sort.Slice(keys, func(i, j int) bool { return fmt.Sprint(keys[i]) < fmt.Sprint(keys[j]) })
		for i := len(keys) - 1; i > 0; i-- {
			j := r.Intn(i + 1)
			keys[i], keys[j] = keys[j], keys[i]
		}
		nm := reflect.MakeMapWithSize(v.Type(), v.Len())
		for _, k := range keys {
			e := v.MapIndex(k)
			nm.SetMapIndex(k, e)
		}
		v.Set(nm)
		for _, k := range keys {
			e := nm.MapIndex(k)
			if e.Kind() == reflect.Ptr || e.Kind() == reflect.Interface {
				shuffle(e, r, depth+1)
			} else if e.Kind() == reflect.Slice {
				shuffle(e, r, depth+1)
			}
		}
	}
}

// PickMatters reports whether the command's outcome may depend on which measurement Go's map
// iteration yields first: the target policy holds measurements with and without a shard key,
// or with different sharding types (the model resolves the pick deterministically, the real
// code does not - the C15 harness exercises and classifies that; modelled logs stop here).
func (in *Inst) PickMatters(c Cmd) bool {
	switch c.Kind {
	case "CreateShardGroup", "CreateMeasurement", "AlterShardKey":
	case "ExpandGroups", "CreateDataNode":
		// ExpandGroups (also run by CreateDataNode when shard expansion is on) skips the policies
		// whose `shardingType()` - the first measurement of the map again - is range
		for _, db := range in.Data().Databases {
			for _, rp := range db.RetentionPolicies {
				if mixedTypes(rp) {
					return true
				}
			}
		}
		return false
	default:
		return false
	}
	w := strings.Fields(c.Text)
	if len(w) < 3 {
		return false
	}
	db := in.Data().Databases[untok(w[1])]
	if db == nil {
		return false
	}
	rp := db.RetentionPolicy(untok(w[2]))
	if rp == nil {
		return false
	}
	return mixedTypes(rp)
}

func mixedTypes(rp *meta.RetentionPolicyInfo) bool {
	types := map[string]bool{}
	for _, m := range rp.Measurements {
		if len(m.ShardKeys) == 0 {
			types["<none>"] = true
		} else {
			types["t:"+m.ShardKeys[0].Type] = true
		}
	}
	return len(types) > 1
}

// DumpCatalogue is DumpData without the raft position (Term, Index), which Apply advances
// for every log entry, failed or not.
func (in *Inst) DumpCatalogue() *Node {
	n := in.DumpData()
	out := &Node{Kind: 'R', Type: n.Type}
	for _, f := range n.Fields {
		if f.Name == "Term" || f.Name == "Index" {
			continue
		}
		out.Fields = append(out.Fields, f)
	}
	return out
}

// StartBeforeInt64Range: some shard group or index group starts before the earliest instant an
// int64 nanosecond count can express - its UnixNano, and therefore its snapshot form, wraps.
func (in *Inst) StartBeforeInt64Range() bool {
	min := time.Unix(0, math.MinInt64)
	for _, db := range in.Data().Databases {
		for _, rp := range db.RetentionPolicies {
			for i := range rp.ShardGroups {
				if rp.ShardGroups[i].StartTime.Before(min) {
					return true
				}
			}
			for i := range rp.IndexGroups {
				if rp.IndexGroups[i].StartTime.Before(min) {
					return true
				}
			}
		}
	}
	return false
}
