package metax

import (
	"fmt"
	"math"
	"math/big"
	"sort"
	"strings"
	"time"

	"github.com/openGemini/openGemini/lib/util/lifted/influx/meta"
)

// ModelDump renders the part of meta.Data the Lean catalogue model covers, positionally
// (format parsed by OG/Meta/Wire.lean `pData`). Everything that came out of a Go map is
// sorted by key.
func ModelDump(d *meta.Data) string {
	var b strings.Builder
	w := func(f string, a ...interface{}) { fmt.Fprintf(&b, f, a...) }
	w("D %d %d %d %d %d %d %d %d %d", d.ClusterPtNum, d.PtNumPerNode, d.MaxNodeID, d.MaxShardGroupID, d.MaxShardID, d.MaxMstID,
		d.MaxIndexGroupID, d.MaxIndexID, d.MaxConnID)
	w(" N %d", len(d.DataNodes))
	for _, n := range d.DataNodes {
		w(" %d %s %s %s %d", n.ID, tok(n.Host), tok(n.TCPHost), tok(n.Role), n.ConnID)
	}
	w(" V %d", len(d.PtView))
	for _, db := range sortedKeys(d.PtView) {
		v := d.PtView[db]
		w(" %s %d", tok(db), len(v))
		for _, p := range v {
			w(" %d %d %d %d", p.Owner.NodeID, p.Status, p.PtId, p.Ver)
		}
	}
	w(" B %d", len(d.Databases))
	for _, k := range sortedKeys(d.Databases) {
		db := d.Databases[k]
		w(" %s %s %s %s %d", tok(k), tok(db.Name), tok(db.DefaultRetentionPolicy), b01(db.MarkDeleted), db.ReplicaN)
		w(" P %d", len(db.RetentionPolicies))
		for _, rk := range sortedKeys(db.RetentionPolicies) {
			rp := db.RetentionPolicies[rk]
			w(" %s %s %d %d %d %d %d %d %d %d %s", tok(rk), tok(rp.Name), rp.ReplicaN, int64(rp.Duration), int64(rp.ShardGroupDuration), int64(rp.ShardMergeDuration),
				int64(rp.HotDuration), int64(rp.WarmDuration), int64(rp.IndexColdDuration), int64(rp.IndexGroupDuration), b01(rp.MarkDeleted))
			w(" I %d", len(rp.IndexGroups))
			for i := range rp.IndexGroups {
				ig := &rp.IndexGroups[i]
				w(" %d %d %d %s %d X %d", ig.ID, nano(ig.StartTime), nano(ig.EndTime), b01(!ig.DeletedAt.IsZero()), ig.EngineType, len(ig.Indexes))
				for _, ix := range ig.Indexes {
					w(" %d %s %d O %d", ix.ID, b01(ix.MarkDelete), ix.Tier, len(ix.Owners))
					for _, o := range ix.Owners {
						w(" %d", o)
					}
				}
			}
			w(" M %d", len(rp.Measurements))
			for _, mk := range sortedKeys(rp.Measurements) {
				m := rp.Measurements[mk]
				key := mk
				if m.Name != mk {
					key = mk + "!=" + m.Name // never expected: makes the model comparison fail loudly
				}
				w(" %s %d %s %d K %d", key, m.ID, b01(m.MarkDeleted), m.EngineType, len(m.ShardKeys))
				for _, sk := range m.ShardKeys {
					w(" %s %d %d", tok(sk.Type), sk.ShardGroup, len(sk.ShardKey))
					for _, x := range sk.ShardKey {
						w(" %s", x)
					}
				}
				if m.Schema == nil {
					w(" F 0")
				} else {
					names := make([]string, 0, len(*m.Schema))
					for n := range *m.Schema {
						names = append(names, n)
					}
					sort.Strings(names)
					w(" F %d", len(names))
					for _, n := range names {
						sv := (*m.Schema)[n]
						w(" %s %d %d", n, sv.Typ, sv.EndTime)
					}
				}
			}
			w(" W %d", len(rp.MstVersions))
			for _, vk := range sortedKeys(rp.MstVersions) {
				w(" %s %d", tok(vk), rp.MstVersions[vk].Version)
			}
			w(" G %d", len(rp.ShardGroups))
			for i := range rp.ShardGroups {
				g := &rp.ShardGroups[i]
				w(" %d %d %d %s %d %d S %d", g.ID, nano(g.StartTime), nano(g.EndTime), b01(!g.DeletedAt.IsZero()), g.EngineType, g.Version, len(g.Shards))
				for _, s := range g.Shards {
					w(" %d %d %d %s O %d", s.ID, s.IndexID, s.Tier, b01(s.MarkDelete), len(s.Owners))
					for _, o := range s.Owners {
						w(" %d", o)
					}
				}
			}
		}
	}
	w(" U %d", len(d.Users))
	for _, u := range d.Users {
		w(" %s %s %s %s Q %d", tok(u.Name), tok(u.Hash), b01(u.Admin), b01(u.Rwuser), len(u.Privileges))
		dbs := make([]string, 0, len(u.Privileges))
		for k := range u.Privileges {
			dbs = append(dbs, k)
		}
		sort.Strings(dbs)
		for _, k := range dbs {
			w(" %s %d", tok(k), int(u.Privileges[k]))
		}
	}
	// ---- second layer (OG/Meta/Wire2.lean `pExt`) ----
	w(" E %s %s %d %d %d", b01(d.TakeOverEnabled), b01(d.BalancerEnabled), d.MaxStreamID, d.MaxSubscriptionID, d.MaxCQChangeID)
	w(" T %d", len(d.Streams))
	for _, k := range sortedKeys(d.Streams) {
		st := d.Streams[k]
		name := k
		if st.Name != k {
			name = k + "!=" + st.Name
		}
		src, dst := st.SrcMst, st.DesMst
		if src == nil {
			src = &meta.StreamMeasurementInfo{}
		}
		if dst == nil {
			dst = &meta.StreamMeasurementInfo{}
		}
		w(" %s %d %s %s %s %s %s %s %d %d", tok(name), st.ID, tok(src.Database), tok(src.RetentionPolicy), tok(src.Name),
			tok(dst.Database), tok(dst.RetentionPolicy), tok(dst.Name), int64(st.Interval), int64(st.Delay))
	}
	type subEntry struct {
		db, rp string
		subs   []meta.SubscriptionInfo
	}
	var ses []subEntry
	for _, k := range sortedKeys(d.Databases) {
		db := d.Databases[k]
		for _, rk := range sortedKeys(db.RetentionPolicies) {
			if rp := db.RetentionPolicies[rk]; len(rp.Subscriptions) > 0 {
				ses = append(ses, subEntry{k, rk, rp.Subscriptions})
			}
		}
	}
	w(" S %d", len(ses))
	for _, e := range ses {
		w(" %s %s %d", tok(e.db), tok(e.rp), len(e.subs))
		for _, sub := range e.subs {
			w(" %s %s", tok(sub.Name), tok(sub.Mode))
		}
	}
	nq := 0
	for _, k := range sortedKeys(d.Databases) {
		if len(d.Databases[k].ContinuousQueries) > 0 {
			nq++
		}
	}
	w(" C %d", nq)
	for _, k := range sortedKeys(d.Databases) {
		cqs := d.Databases[k].ContinuousQueries
		if len(cqs) == 0 {
			continue
		}
		w(" %s %d", tok(k), len(cqs))
		for _, qk := range sortedKeys(cqs) {
			q := cqs[qk]
			name := qk
			if q.Name != qk {
				name = qk + "!=" + q.Name
			}
			w(" %s %s %d", tok(name), strings.ReplaceAll(q.Query, " ", "_"), q.LastRunTime.UnixNano())
		}
	}
	return b.String()
}

func nano(t time.Time) int64 { return t.UnixNano() }

func sortedKeys[V any](m map[string]V) []string {
	ks := make([]string, 0, len(m))
	for k := range m {
		ks = append(ks, k)
	}
	sort.Strings(ks)
	return ks
}

// ---- well-formedness evaluated in Go (the spec diff of C16) ------------------------------

var epochOffsetNs = new(big.Int).Mul(big.NewInt(62135596800), big.NewInt(1000000000))

// WFViolations evaluates the clauses of OG.C16.WF on the real catalogue, independently of the
// Lean evaluator (which re-evaluates them on the dump): names of violated clauses in the
// fixed order sorted, disjoint, aligned, ids, counters, refs, default, users, ptview.
func WFViolations(d *meta.Data) []string {
	var out []string
	bad := map[string]bool{}
	ids := map[string]map[uint64]bool{"sg": {}, "shard": {}, "ig": {}, "index": {}, "mst": {}, "node": {}}
	dup := func(kind string, id uint64) {
		if ids[kind][id] {
			bad["ids"] = true
		}
		ids[kind][id] = true
	}
	for _, n := range d.DataNodes {
		dup("node", n.ID)
		if n.ID > d.MaxNodeID {
			bad["counters"] = true
		}
	}
	for _, db := range d.Databases {
		if db.DefaultRetentionPolicy != "" {
			if _, ok := db.RetentionPolicies[db.DefaultRetentionPolicy]; !ok {
				bad["default"] = true
			}
		}
		for _, rp := range db.RetentionPolicies {
			idx := map[uint64]bool{}
			for i := range rp.IndexGroups {
				ig := &rp.IndexGroups[i]
				dup("ig", ig.ID)
				if ig.ID > d.MaxIndexGroupID {
					bad["counters"] = true
				}
				for _, ix := range ig.Indexes {
					dup("index", ix.ID)
					idx[ix.ID] = true
					if ix.ID > d.MaxIndexID {
						bad["counters"] = true
					}
				}
			}
			for _, m := range rp.Measurements {
				dup("mst", m.ID)
				if m.ID >= d.MaxMstID {
					bad["counters"] = true
				}
			}
			sgs := rp.ShardGroups
			// all instants as the dump (and a snapshot) carries them: UnixNano, int64
			less := func(a, b *meta.ShardGroupInfo) bool { // ShardGroupInfos.Less without truncation
				if nano(a.EndTime) == nano(b.EndTime) {
					return nano(a.StartTime) < nano(b.StartTime)
				}
				return nano(a.EndTime) < nano(b.EndTime)
			}
			for i := range sgs {
				g := &sgs[i]
				dup("sg", g.ID)
				if g.ID > d.MaxShardGroupID {
					bad["counters"] = true
				}
				for j := i + 1; j < len(sgs); j++ {
					if less(&sgs[j], g) {
						bad["sorted"] = true
					}
					if g.DeletedAt.IsZero() && sgs[j].DeletedAt.IsZero() && g.EngineType == sgs[j].EngineType {
						if !(nano(g.EndTime) <= nano(sgs[j].StartTime) || nano(sgs[j].EndTime) <= nano(g.StartTime)) {
							bad["disjoint"] = true
						}
					}
				}
				if g.DeletedAt.IsZero() {
					dur := int64(rp.ShardGroupDuration)
					if dur <= 0 {
						bad["aligned"] = true
					} else {
						st := new(big.Int).Add(big.NewInt(nano(g.StartTime)), epochOffsetNs)
						if new(big.Int).Mod(st, big.NewInt(dur)).Sign() != 0 {
							bad["aligned"] = true
						}
						end := new(big.Int).Add(big.NewInt(nano(g.StartTime)), big.NewInt(dur))
						if end.Cmp(big.NewInt(math.MaxInt64-1)) > 0 {
							end = big.NewInt(math.MaxInt64)
						}
						if end.Cmp(big.NewInt(nano(g.EndTime))) != 0 {
							bad["aligned"] = true
						}
					}
				}
				for _, s := range g.Shards {
					dup("shard", s.ID)
					if s.ID > d.MaxShardID {
						bad["counters"] = true
					}
					if !idx[s.IndexID] {
						bad["refs"] = true
					}
					for _, o := range s.Owners {
						if o >= d.ClusterPtNum {
							bad["refs"] = true
						}
					}
				}
			}
		}
	}
	// users: names unique, at most one admin, every privilege names an existing database
	names := map[string]bool{}
	admins := 0
	for _, u := range d.Users {
		if names[u.Name] {
			bad["users"] = true
		}
		names[u.Name] = true
		if u.Admin {
			admins++
		}
		for db := range u.Privileges {
			if _, ok := d.Databases[db]; !ok {
				bad["users"] = true
			}
		}
	}
	if admins > 1 {
		bad["users"] = true
	}
	// ptview: ClusterPtNum partitions per view, numbered in order, owned by existing data nodes;
	// at least PtNumPerNode partitions per writer node
	writers := 0
	nodeIDs := map[uint64]bool{}
	for _, n := range d.DataNodes {
		nodeIDs[n.ID] = true
		if n.Role == "writer" || n.Role == "" {
			writers++
		}
	}
	if uint64(d.PtNumPerNode)*uint64(writers) > uint64(d.ClusterPtNum) {
		bad["ptview"] = true
	}
	for _, v := range d.PtView {
		if uint32(len(v)) != d.ClusterPtNum {
			bad["ptview"] = true
		}
		for i, p := range v {
			if p.PtId != uint32(i) || !nodeIDs[p.Owner.NodeID] {
				bad["ptview"] = true
			}
		}
	}
	for _, k := range []string{"sorted", "disjoint", "aligned", "ids", "counters", "refs", "default", "users", "ptview"} {
		if bad[k] {
			out = append(out, k)
		}
	}
	return out
}
