package metax

import metasrv "github.com/openGemini/openGemini/app/ts-meta/meta"

func registeredTypes() []int32 { return metasrv.VerifCommandTypes() }
