package c13

// Histories with one tag value shared by many series: the tag->tsids rows of the index.
//
// The tsids of one tag value are split over rows (a merge packs them into rows of at most
// mergeindex.MaxTSIDsPerRow = 64 tsids; unmerged rows lie next to them). SHOW TAG VALUES walks
// the rows and jumps to the next tag value after a full row. A wide history writes 90-200 series
// of one measurement (three quarters of them share zone=z0, sixteen at a time share a blk value),
// flushes, merges the index parts so that full rows exist, reads the row structure off the index
// (`rowsync`: the model checks that the rows list exactly its (value, tsid) pairs and scans the
// same rows), and then drops exactly the series of the first full row / of a middle row / of all
// rows but one / of a random set, with reads whose condition excludes a whole row before and
// after, a purge (rows are re-cut), and a restart. After every step: SHOW TAG VALUES by the row
// scan for both keys under several conditions, SHOW SERIES, SERIES CARDINALITY.

import (
	"fmt"
	"os"
	"sort"
	"strings"

	"github.com/openGemini/openGemini/engine/index/tsi"
	"github.com/openGemini/openGemini/lib/util/lifted/influx/meta"
	"github.com/openGemini/openGemini/lib/util/lifted/vm/protoparser/influx"

	"verif/harness/engx"
	"verif/harness/internal/hx"
)

const wideMst = "w"

func wideTags(i int) map[string]string {
	z := "z0"
	if i%4 == 3 {
		z = "z1"
	}
	return map[string]string{"host": fmt.Sprintf("h%03d", i), "zone": z, "blk": "k" + string(rune('a'+i/16))}
}

type wide struct {
	*history
	n    int
	live map[int]bool // series index -> not dropped
}

func (w *wide) register(i int) int {
	k := fmt.Sprintf("%s|%d", wideMst, i)
	if id, ok := w.kids[k]; ok {
		return id
	}
	id := len(w.info)
	w.kids[k] = id
	w.info = append(w.info, keyInfo{wideMst, i})
	t := wideTags(i)
	w.c.Emit(fmt.Sprintf("key %d %s blk=%s,host=%s,zone=%s", id, wideMst, t["blk"], t["host"], t["zone"]), "ok")
	return id
}

func (w *wide) write(from, to int) error {
	var rows []influx.Row
	var ts []string
	for i := from; i < to; i++ {
		kid := w.register(i)
		t := wideTags(i)
		rows = append(rows, influx.Row{Name: wideMst, Timestamp: engx.TimeOf(0),
			Tags:   influx.PointTags{{Key: "blk", Value: t["blk"]}, {Key: "host", Value: t["host"]}, {Key: "zone", Value: t["zone"]}},
			Fields: influx.Fields{{Key: "fi", NumValue: float64(i), Type: influx.Field_Type_Int}}})
		ts = append(ts, fmt.Sprintf("%d:0:fi=%d", kid, i))
		w.live[i] = true
	}
	var err error
	perr := hx.Safe(func() { err = w.sh.Write(rows) })
	ans := "ack"
	if perr != "" || err != nil {
		ans = errText(perr, err)
	}
	w.c.Emit("write "+strings.Join(ts, ";"), ans)
	if ans != "ack" {
		return fmt.Errorf("wide write failed: %s", ans)
	}
	w.sh.FlushIndex()
	w.kinds += "w"
	w.c.Count("op:wide-write")
	return nil
}

// rowsObs reads the rows of both keys off the index and hands them to the model.
func (w *wide) rowsObs() map[string][]tsi.VerifTagRow {
	out := map[string][]tsi.VerifTagRow{}
	for _, key := range []string{"zone", "blk"} {
		var rows []tsi.VerifTagRow
		var err error
		perr := hx.Safe(func() { rows, err = w.sh.TagRows(wideMst, key) })
		if perr != "" || err != nil {
			w.c.Emit(fmt.Sprintf("rowsync %s %s -", wideMst, key), errText(perr, err))
			continue
		}
		out[key] = rows
		var ts []string
		full := 0
		for _, r := range rows {
			var es []string
			for _, t := range r.TSIDs {
				if e, ok := w.entryOf(t); ok {
					es = append(es, e.String())
				} else {
					es = append(es, fmt.Sprintf("?%x", t))
				}
			}
			ts = append(ts, r.Value+"="+strings.Join(es, ","))
			if len(r.TSIDs) >= 64 {
				full++
			}
		}
		arg := strings.Join(ts, "|")
		if arg == "" {
			arg = "-"
		}
		w.c.Emit(fmt.Sprintf("rowsync %s %s %s", wideMst, key, arg), "ok")
		w.c.Count(fmt.Sprintf("wide:full-rows-of-%s=%d", key, min(full, 3)))
	}
	return out
}

func hostsPred(op string, idx []int) *pred {
	var vals []string
	for _, i := range idx {
		vals = append(vals, fmt.Sprintf("h%03d", i))
	}
	return &pred{op: op, k: "host", vals: vals}
}

func (w *wide) specKidsOf(p *pred) []int {
	var out []int
	for i := 0; i < w.n; i++ {
		if w.live[i] && p.eval(wideTags(i)) {
			out = append(out, i)
		}
	}
	return out
}

// reads: SHOW TAG VALUES by the row scan for both keys, SHOW SERIES, SERIES CARDINALITY.
func (w *wide) reads(tag string, preds []*pred) {
	for _, p := range preds {
		sel := w.specKidsOf(p)
		// tag values of zone and blk
		e, err := w.tagExpr(p)
		got := ""
		if err != nil {
			got = "err parse " + err.Error()
		} else {
			var vals [][]string
			perr := hx.Safe(func() { vals, err = w.sh.TagValues(wideMst, []string{"zone", "blk"}, e) })
			if perr != "" || err != nil {
				got = errText(perr, err)
			} else {
				var parts []string
				for i, key := range []string{"zone", "blk"} {
					var vs []string
					if i < len(vals) {
						vs = vals[i]
					}
					parts = append(parts, key+"="+strings.Join(vs, "+"))
				}
				got = "tv " + strings.Join(parts, ";")
			}
		}
		line := w.c.Emit(fmt.Sprintf("tagvalsk %s zone,blk %s", wideMst, p.token()), got)
		var parts []string
		for _, key := range []string{"zone", "blk"} {
			set := map[string]bool{}
			for _, i := range sel {
				set[wideTags(i)[key]] = true
			}
			var vs []string
			for v := range set {
				vs = append(vs, v)
			}
			sort.Strings(vs)
			parts = append(parts, key+"="+strings.Join(vs, "+"))
		}
		w.c.Count("read:wide-tag-values")
		if want := "tv " + strings.Join(parts, ";"); got != want {
			w.c.Violation(line, "", fmt.Sprintf("wide history %d after %s (%s, %d series): SHOW TAG VALUES WITH KEY IN (zone, blk) WHERE %q answered %q, the live series that satisfy the condition carry %q", w.idx, tag, w.kinds, w.n, p.ql(), got, want))
		}
		// series and cardinality
		got = w.implSeries(wideMst, p)
		line = w.c.Emit(fmt.Sprintf("series %s %s", wideMst, p.token()), got)
		var kids []int
		for _, i := range sel {
			kids = append(kids, w.kids[fmt.Sprintf("%s|%d", wideMst, i)])
		}
		sort.Ints(kids)
		w.c.Count("read:wide-series")
		if want := kidsText(kids); got != want {
			w.c.Violation(line, "", fmt.Sprintf("wide history %d after %s (%s): SHOW SERIES WHERE %q answered %d keys, %d series are live and satisfy it", w.idx, tag, w.kinds, p.ql(), len(strings.Split(got, ",")), len(kids)))
		}
		got = w.implCard(wideMst, p)
		line = w.c.Emit(fmt.Sprintf("card %s %s", wideMst, p.token()), got)
		if want := fmt.Sprintf("n %d", len(kids)); got != want {
			w.c.Violation(line, "", fmt.Sprintf("wide history %d after %s (%s): SERIES CARDINALITY WHERE %q answered %q, expected %q", w.idx, tag, w.kinds, p.ql(), got, want))
		}
	}
}

// seriesOfRow maps the tsids of a row to series indexes.
func (w *wide) seriesOfRow(r tsi.VerifTagRow) []int {
	var out []int
	for _, t := range r.TSIDs {
		if k, ok := w.tsidKid[t]; ok && k >= 0 && k < len(w.info) {
			out = append(out, w.info[k].s)
		}
	}
	sort.Ints(out)
	return out
}

func (w *wide) drop(p *pred) {
	var n int
	var err error
	perr := hx.Safe(func() { n, err = w.sh.DropSeries(wideMst, p.ql()) })
	ans := fmt.Sprintf("ok %d", n)
	if perr != "" || err != nil {
		ans = errText(perr, err)
	}
	line := w.c.Emit(fmt.Sprintf("dropseries %s %s", wideMst, p.token()), ans)
	sel := w.specKidsOf(p)
	if ans != fmt.Sprintf("ok %d", len(sel)) {
		w.c.Violation(line, "", fmt.Sprintf("wide history %d (%s): drop series selected %s, the predicate names %d live series", w.idx, w.kinds, ans, len(sel)))
	}
	for _, i := range sel {
		delete(w.live, i)
	}
	w.simple("tick", "t", func() error { w.sh.FlushIndexes(); return nil })
	w.kinds += "d"
	w.c.Count("op:wide-drop-series")
}

func runWide(c *hx.Ctx, r *hx.Rng, idx int) error {
	h := &history{c: c, r: r, idx: idx, dir: engx.FastScratchDir("c13w"), nParts: 1,
		cat: &meta.Data{ClusterPtNum: 1}, phys: map[string]string{}, kids: map[string]int{},
		sp: spec{cells: map[int]map[int]map[string]string{}}, inc: map[int]int{}, walInc: map[int]int{},
		purgeOK: true, stalePhys: map[string]bool{}, droppedPhys: map[string]bool{}, written: map[string]bool{}, overwritten: map[string]bool{},
		tsidKid: map[uint64]int{}, seen: map[int][]uint64{}}
	defer func() { os.RemoveAll(h.dir) }()
	if err := h.open(); err != nil {
		return err
	}
	c.Emit(fmt.Sprintf("open %d", idx), "ok")
	c.Emit("parts 1", "ok")
	c.Count("history:wide")
	w := &wide{history: h, n: 90 + r.Intn(111), live: map[int]bool{}}
	h.kinds = "W"
	// the series in a few batches: every batch makes a part of the index table
	batches := 2 + r.Intn(3)
	for b := 0; b < batches; b++ {
		if err := w.write(b*w.n/batches, (b+1)*w.n/batches); err != nil {
			return err
		}
		h.indexObs(false)
	}
	h.simple("flushq", "f", func() error { h.sh.Flush(); return nil })
	// one merge over all parts: the rows of a tag value are packed into full rows
	h.doIndexMergeAll()
	h.indexObs(false)
	base := []*pred{{op: "all"}, {op: "eq", k: "zone", vals: []string{"z0"}}, {op: "neq", k: "blk", vals: []string{"ka"}}}
	rounds := 2 + r.Intn(2)
	for round := 0; round < rounds; round++ {
		rows := w.rowsObs()
		// the rows of the shared value, fullest first in item order
		var z0 []tsi.VerifTagRow
		for _, row := range rows["zone"] {
			if row.Value == "z0" {
				z0 = append(z0, row)
			}
		}
		var target []int
		mode := round
		if round >= 2 {
			mode = r.Intn(4)
		}
		switch {
		case len(z0) == 0:
		case mode == 0:
			target = w.seriesOfRow(z0[0]) // exactly the first row
		case mode == 1 && len(z0) > 1:
			target = w.seriesOfRow(z0[len(z0)/2]) // a middle (or the last) row
		case mode == 2 && len(z0) > 1:
			for _, row := range z0[:len(z0)-1] { // every row but the last
				target = append(target, w.seriesOfRow(row)...)
			}
			sort.Ints(target)
		default:
			for i := 0; i < w.n; i++ {
				if w.live[i] && r.Chance(30) {
					target = append(target, i)
				}
			}
		}
		preds := append([]*pred(nil), base...)
		if len(target) > 0 {
			// conditions that exclude / select exactly the series of the chosen rows
			preds = append(preds, hostsPred("nre", target), hostsPred("re", target),
				&pred{op: "and", a: &pred{op: "eq", k: "zone", vals: []string{"z0"}}, b: hostsPred("nre", target)})
		}
		w.reads(fmt.Sprintf("round %d before the drop", round), preds)
		if len(target) == 0 {
			continue
		}
		w.drop(hostsPred("re", target))
		h.indexObs(false)
		w.rowsObs()
		w.reads(fmt.Sprintf("round %d drop", round), base)
		if r.Chance(60) {
			h.doPurge()
			h.indexObs(false)
			w.rowsObs()
			w.reads(fmt.Sprintf("round %d purge", round), base)
		}
		if r.Chance(40) {
			if err := h.doReopen(); err != nil {
				return err
			}
			h.indexObs(true)
			w.rowsObs()
			w.reads(fmt.Sprintf("round %d reopen", round), base)
		}
	}
	if err := h.doReopen(); err != nil {
		return err
	}
	h.indexObs(true)
	w.rowsObs()
	w.reads("last reopen", base)
	c.Case(fmt.Sprintf("wide:%d:%s", idx, h.kinds), true)
	h.closeShard()
	return nil
}

// doIndexMergeAll merges all parts of the primary index table into one.
func (h *history) doIndexMergeAll() {
	parts, e := h.indexParts()
	if e != "" || len(parts) == 0 {
		return
	}
	var pos []int
	for i := range parts {
		pos = append(pos, i)
	}
	var n int
	var err error
	perr := hx.Safe(func() { n, err = h.sh.MergeIndexParts(pos) })
	ans := fmt.Sprintf("ok %d", n)
	if perr != "" || err != nil {
		ans = errText(perr, err)
	}
	h.c.Emit("imerge "+h.firstEntries(parts, pos), ans)
	h.kinds += "i"
	h.c.Count("op:index-merge")
}
