package c13

// DROP MEASUREMENT racing with a flush or an out-of-order merge of the same measurement.
//
// The file-system observer of lib/fileops (build tag verif) gives a deterministic pause point:
// the flush / merge is started in a goroutine and stopped at the first file it creates in the
// directory of the measurement; DROP MEASUREMENT is started while it is stopped there; then
// the paused operation is let go and both are awaited. Whichever way the two interleave from
// there, the result must be that of "flush (or merge), then drop": the drop is acknowledged
// only after the measurement's files, including the one the paused operation was writing, are
// gone; the other measurements are untouched. The history then goes on (reads, restart, the
// measurement written again), so a file that escaped the drop shows up in a later read.

import (
	"fmt"
	"strings"
	"sync"
	"time"

	"github.com/openGemini/openGemini/lib/fileops"

	"verif/harness/internal/hx"
)

type pauseObserver struct {
	mu     sync.Mutex
	armed  bool
	dir    string // pause at the first create / rename below a path that contains dir
	hit    chan struct{}
	resume chan struct{}
}

func (p *pauseObserver) Before(op, path, path2 string, n int64) {
	p.mu.Lock()
	if p.armed && (op == "create" || op == "openfile" || op == "rename") && strings.Contains(path, p.dir) {
		p.armed = false
		hit, resume := p.hit, p.resume
		p.mu.Unlock()
		close(hit)
		<-resume
		return
	}
	p.mu.Unlock()
}

func (p *pauseObserver) After(op, path, path2 string, n int64, err error) {}

var raceObs = &pauseObserver{}
var raceObsOnce sync.Once

func (p *pauseObserver) arm(dir string) {
	p.mu.Lock()
	p.armed, p.dir = true, dir
	p.hit, p.resume = make(chan struct{}), make(chan struct{})
	p.mu.Unlock()
}

func (p *pauseObserver) release() {
	p.mu.Lock()
	p.armed = false
	select {
	case <-p.resume:
	default:
		close(p.resume)
	}
	p.mu.Unlock()
}

// shardDropMstRacing runs `kind` (flush | merge) up to its first file in the measurement's
// directory, starts DROP MEASUREMENT, lets the paused operation go and waits for both. It
// emits the two operations in the order "kind, dropmst". If the operation never touches the
// measurement's directory the drop simply follows it.
func (h *history) shardDropMstRacing(phys, kind string) {
	raceObsOnce.Do(func() { fileops.SetVerifObserver(raceObs) })
	raceObs.arm("/" + phys + "/")
	aDone := make(chan string, 1)
	go func() {
		var err error
		perr := hx.Safe(func() {
			if kind == "flush" {
				h.sh.Flush()
			} else {
				err = h.sh.MergeOutOfOrder(true, true)
			}
		})
		if perr != "" || err != nil {
			aDone <- errText(perr, err)
			return
		}
		aDone <- "ok"
	}()
	paused := false
	aAns := ""
	select {
	case <-raceObs.hit:
		paused = true
	case aAns = <-aDone:
	case <-time.After(20 * time.Second):
		aAns = "err the operation neither finished nor reached the measurement's directory"
	}
	bDone := make(chan string, 1)
	go func() {
		var err error
		perr := hx.Safe(func() { err = h.sh.DropMeasurement(phys) })
		if perr != "" || err != nil {
			bDone <- errText(perr, err)
			return
		}
		bDone <- "ok"
	}()
	bAns := ""
	if paused {
		// give the drop the time to get as far as it can while the other operation stands still
		select {
		case bAns = <-bDone:
			h.c.Count("race:" + kind + ":drop-finished-while-paused")
		case <-time.After(30 * time.Millisecond):
			h.c.Count("race:" + kind + ":drop-waited")
		}
		raceObs.release()
	} else {
		raceObs.release()
		h.c.Count("race:" + kind + ":no-pause-point")
	}
	timeout := time.After(60 * time.Second)
	for aAns == "" || bAns == "" {
		select {
		case a := <-aDone:
			aAns = a
		case b := <-bDone:
			bAns = b
		case <-timeout:
			if aAns == "" {
				aAns = "err deadlock"
			}
			if bAns == "" {
				bAns = "err deadlock"
			}
		}
	}
	op := "flushq"
	if kind == "merge" {
		op = "merge"
	}
	line := h.c.Emit(op, aAns)
	if aAns != "ok" {
		h.c.Violation(line, h.taint, fmt.Sprintf("history %d (%s): %s racing with DROP MEASUREMENT %s failed: %s", h.idx, h.kinds, kind, phys, aAns))
	}
	line = h.c.Emit("dropmst "+phys, bAns)
	if bAns != "ok" {
		h.c.Violation(line, h.taint, fmt.Sprintf("history %d (%s): DROP MEASUREMENT %s racing with %s failed: %s", h.idx, h.kinds, phys, kind, bAns))
	}
	// what the drop promises, checked directly: no file of the measurement is left
	if n := len(h.sh.Files(phys)); n != 0 {
		h.c.Violation(line, h.taint, fmt.Sprintf("history %d (%s): DROP MEASUREMENT %s racing with %s was acknowledged but %d files of the measurement are still listed", h.idx, h.kinds, phys, kind, n))
	}
	for k, ki := range h.info {
		if ki.phys == phys {
			delete(h.sp.cells, k)
		}
	}
	h.walInc = map[int]int{}
	h.droppedPhys[phys] = true
	h.kinds += "X"
	h.c.Count("op:drop-measurement-racing-" + kind)
}
