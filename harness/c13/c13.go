// Package c13: correspondence harness for C13 (dropping removes exactly what was named, for every
// kind of read, for good).
//
// Random histories on a real shard (engine verif facade + deleted-tsid index wired as at store
// start-up): writes in memory / flushed / compacted / out-of-order over a few measurements (named
// through a real meta.Data catalogue, so a re-created measurement gets a new version suffix),
// DROP SERIES with a tag predicate that selects none / some / all series, DROP MEASUREMENT (catalogue
// mark + shard drop + catalogue drop, sometimes re-created), the periodic physical purge, more
// writes incl. to dropped series, flushes, compactions, merges, clean reopen and crash images
// (a copy of the directory taken at an operation boundary, reopened). After every operation
// several read shapes are evaluated on the real shard: selection with no / tag / field condition
// of every operator, group by tag, ascending / descending, aggregate pushed down into the
// cursors and computed from raw rows, SHOW SERIES / TAG KEYS / TAG VALUES / SERIES CARDINALITY.
//
//	ops.txt  : the history, for the Lean model (OG.C13)
//	impl.out : what the shard answered
//	viol.out : answers that differ from the Go-side specification: last-write-wins replay of the
//	           acknowledged rows minus what was dropped, per read shape
package c13

import (
	"fmt"
	"math"
	"os"
	"path/filepath"
	"sort"
	"strconv"
	"strings"

	"github.com/openGemini/openGemini/engine"
	"github.com/openGemini/openGemini/lib/util/lifted/influx/influxql"
	"github.com/openGemini/openGemini/lib/util/lifted/influx/meta"
	proto2 "github.com/openGemini/openGemini/lib/util/lifted/influx/meta/proto"
	"github.com/openGemini/openGemini/lib/util/lifted/vm/protoparser/influx"

	"verif/harness/engx"
	"verif/harness/internal/hx"
)

func init() { hx.Register("C13", Run) }

const nSeries, nTimes = 4, 6

// share of the random histories that are built as drop + purge rounds (parts.go)
const roundsPercent = 35

// ---------------------------------------------------------------------------------------------
// predicates

type pred struct {
	op   string // all eq neq re nre rs nrs and or
	k    string
	vals []string
	a, b *pred
}

func tagsOf(s int) map[string]string {
	return map[string]string{"host": fmt.Sprintf("h%d", s), "zone": fmt.Sprintf("z%d", s%2)}
}

func (p *pred) eval(tags map[string]string) bool {
	in := func() bool {
		for _, v := range p.vals {
			if tags[p.k] == v {
				return true
			}
		}
		return false
	}
	switch p.op {
	case "all":
		return true
	case "eq":
		return tags[p.k] == p.vals[0]
	case "neq":
		return tags[p.k] != p.vals[0]
	case "re", "rs":
		return in()
	case "nre", "nrs":
		return !in()
	case "and":
		return p.a.eval(tags) && p.b.eval(tags)
	case "or":
		return p.a.eval(tags) || p.b.eval(tags)
	}
	panic("pred op " + p.op)
}

// token is the op-line form (RPN over ';').
func (p *pred) token() string {
	switch p.op {
	case "all":
		return "-"
	case "eq", "neq":
		return p.op + ":" + p.k + ":" + p.vals[0]
	case "re", "nre", "rs", "nrs":
		return p.op + ":" + p.k + ":" + strings.Join(p.vals, "+")
	}
	return p.a.token() + ";" + p.b.token() + ";" + p.op
}

// regex renders the alternatives: a|b (looked up value by value) or the scanned form x[12].
func (p *pred) regex() string {
	if p.op == "re" || p.op == "nre" {
		return strings.Join(p.vals, "|")
	}
	d := ""
	for _, v := range p.vals {
		d += v[len(v)-1:]
	}
	return p.vals[0][:len(p.vals[0])-1] + "[" + d + "]"
}

// ql is the InfluxQL text ("" = no condition).
func (p *pred) ql() string {
	switch p.op {
	case "all":
		return ""
	case "eq":
		return fmt.Sprintf("%s = '%s'", p.k, p.vals[0])
	case "neq":
		return fmt.Sprintf("%s != '%s'", p.k, p.vals[0])
	case "re", "rs":
		return fmt.Sprintf("%s =~ /%s/", p.k, p.regex())
	case "nre", "nrs":
		return fmt.Sprintf("%s !~ /%s/", p.k, p.regex())
	}
	return "(" + p.a.ql() + ") " + strings.ToUpper(p.op) + " (" + p.b.ql() + ")"
}

func genAtom(r *hx.Rng) *pred {
	hosts := func(n int) []string {
		perm := []int{0, 1, 2, 3}
		for i := 3; i > 0; i-- {
			j := r.Intn(i + 1)
			perm[i], perm[j] = perm[j], perm[i]
		}
		sel := perm[:n]
		sort.Ints(sel)
		var out []string
		for _, s := range sel {
			out = append(out, fmt.Sprintf("h%d", s))
		}
		return out
	}
	switch r.Intn(9) {
	case 0:
		return &pred{op: "eq", k: "host", vals: hosts(1)}
	case 1:
		return &pred{op: "neq", k: "host", vals: hosts(1)}
	case 2:
		return &pred{op: []string{"re", "rs"}[r.Intn(2)], k: "host", vals: hosts(2 + r.Intn(2))}
	case 3:
		return &pred{op: []string{"nre", "nrs"}[r.Intn(2)], k: "host", vals: hosts(2 + r.Intn(2))}
	case 4:
		return &pred{op: "eq", k: "zone", vals: []string{fmt.Sprintf("z%d", r.Intn(2))}}
	case 5:
		return &pred{op: "neq", k: "zone", vals: []string{fmt.Sprintf("z%d", r.Intn(2))}}
	case 6:
		return &pred{op: "eq", k: "host", vals: []string{"hx"}} // selects nothing
	case 7:
		return &pred{op: "re", k: "host", vals: []string{"h0", "h1", "h2", "h3"}} // selects everything
	}
	return &pred{op: "eq", k: "host", vals: hosts(1)}
}

func genPred(r *hx.Rng) *pred {
	switch p := r.Intn(100); {
	case p < 12:
		return &pred{op: "all"}
	case p < 70:
		return genAtom(r)
	case p < 85:
		return &pred{op: "and", a: genAtom(r), b: genAtom(r)}
	}
	return &pred{op: "or", a: genAtom(r), b: genAtom(r)}
}

type cond struct {
	p    *pred
	f    *int // fi > *f
	conj bool
}

func (c cond) token() string {
	f := "-"
	if c.f != nil {
		f = fmt.Sprintf("fgt=%d", *c.f)
	}
	cj := "and"
	if !c.conj {
		cj = "or"
	}
	return c.p.token() + "#" + f + "#" + cj
}

func (c cond) ql() string {
	if c.f == nil {
		return c.p.ql()
	}
	f := fmt.Sprintf("fi > %d", *c.f)
	if c.p.op == "all" {
		return f
	}
	if c.conj {
		return "(" + c.p.ql() + ") AND " + f
	}
	return "(" + c.p.ql() + ") OR " + f
}

func (c cond) series(tags map[string]string) bool {
	if c.f == nil || c.conj {
		return c.p.eval(tags)
	}
	return true
}

func (c cond) row(tags map[string]string, fields map[string]string) bool {
	if c.f == nil {
		return true
	}
	pass := false
	if v, ok := fields["fi"]; ok {
		n, _ := strconv.ParseInt(v, 10, 64)
		pass = n > int64(*c.f)
	}
	if c.conj {
		return pass
	}
	return c.p.eval(tags) || pass
}

func genCond(r *hx.Rng) cond {
	c := cond{p: genPred(r), conj: true}
	if r.Chance(30) {
		x := r.Intn(120) - 60
		c.f = &x
		c.conj = r.Chance(70)
		if c.p.op == "all" {
			c.conj = true
		}
	}
	return c
}

// typedExpr parses a condition for the select path: tags are tags, fields carry their type.
func typedExpr(s string) (influxql.Expr, error) {
	if s == "" {
		return nil, nil
	}
	e, err := influxql.ParseExpr(s)
	if err != nil {
		return nil, err
	}
	influxql.WalkFunc(e, func(n influxql.Node) {
		if r, ok := n.(*influxql.VarRef); ok {
			if t, ok := engx.QLTypes[r.Val]; ok {
				r.Type = t
			} else {
				r.Type = influxql.Tag
			}
		}
	})
	return e, nil
}

// ---------------------------------------------------------------------------------------------
// specification: last-write-wins replay minus what was dropped

type keyInfo struct {
	phys string
	s    int
}

type spec struct {
	cells map[int]map[int]map[string]string // kid -> time -> field -> value
	known []int                             // series that exist, in creation order
}

func (sp *spec) isKnown(kid int) bool {
	for _, k := range sp.known {
		if k == kid {
			return true
		}
	}
	return false
}

type history struct {
	c      *hx.Ctx
	r      *hx.Rng
	sh     *engine.VerifDropShard
	dir    string
	nParts int
	idx    int

	cat    *meta.Data
	phys   map[string]string // logical name -> current name with version ("" = not resolvable)
	msts   []string          // every physical name used on the shard, in order of first use
	kids   map[string]int    // phys|series -> kid
	info   []keyInfo         // kid -> key
	sp     spec
	inc    map[int]int // kid -> number of times the series was dropped
	walInc map[int]int // kid -> incarnation of its oldest row in the WAL (rows since the last flush)
	pend   bool        // a drop was acknowledged since the deleted-tsid table last reached the disk
	taint  string      // finding class whose precondition this history has met
	kinds  string
	hiT    int

	restarted   bool
	dropSome    bool // a drop selected a strict non-empty subset ...
	afterDrop   bool // ... and a flush / compaction / restart followed
	purgeOK     bool
	stalePhys   map[string]bool // physical names dropped on the shard and used again without a new version
	written     map[string]bool // phys|series|time written at least once
	overwritten map[string]bool // physical names in which some (series,time) was written twice
	droppedPhys map[string]bool

	// index parts (parts.go)
	tsidKid       map[uint64]int   // tsid -> series number
	seen          map[int][]uint64 // series number -> its tsids, ascending
	mergeFinish   func() error     // second half of a merge of index parts that has begun
	purges        int
	partialPurges int // purges that rewrote some parts of the index table and left others as they were
}

func (h *history) kid(phys string, s int) int {
	k := fmt.Sprintf("%s|%d", phys, s)
	if id, ok := h.kids[k]; ok {
		return id
	}
	id := len(h.info)
	h.kids[k] = id
	h.info = append(h.info, keyInfo{phys, s})
	h.c.Emit(fmt.Sprintf("key %d %s host=h%d,zone=z%d", id, phys, s, s%2), "ok")
	known := false
	for _, m := range h.msts {
		if m == phys {
			known = true
		}
	}
	if !known {
		h.msts = append(h.msts, phys)
	}
	return id
}

func groupKey(dims []string, tags map[string]string) string {
	var kv []string
	for _, d := range dims {
		kv = append(kv, d+"="+tags[d])
	}
	return strings.Join(kv, ",")
}

type selRow struct {
	kid  int
	t    int
	vals []string
	g    string
	fi   string // "" = null
}

func selText(rows []selRow) string {
	var cells []string
	for _, r := range rows {
		cells = append(cells, fmt.Sprintf("%d:%d:%s@%s", r.kid, r.t, strings.Join(r.vals, ","), r.g))
	}
	return "rows " + strings.Join(cells, "|")
}

func aggText(call string, rows []selRow) string {
	type acc struct{ n, sum int64 }
	m := map[string]*acc{}
	for _, r := range rows {
		if r.fi == "" {
			continue
		}
		a := m[r.g]
		if a == nil {
			a = &acc{}
			m[r.g] = a
		}
		v, _ := strconv.ParseInt(r.fi, 10, 64)
		a.n++
		a.sum += v
	}
	var gs []string
	for g := range m {
		gs = append(gs, g)
	}
	sort.Strings(gs)
	var out []string
	for _, g := range gs {
		v := m[g].n
		if call == "sum" {
			v = m[g].sum
		}
		out = append(out, fmt.Sprintf("%s=%d", g, v))
	}
	return "agg " + strings.Join(out, "|")
}

// specSel is the selection over the specification state.
func (h *history) specSel(phys string, c cond, dims []string, lo, hi int, asc bool, fields []string) []selRow {
	var kids []int
	for _, k := range h.sp.known {
		if h.info[k].phys == phys && c.series(tagsOf(h.info[k].s)) {
			kids = append(kids, k)
		}
	}
	sort.Ints(kids)
	var rows []selRow
	for _, k := range kids {
		tags := tagsOf(h.info[k].s)
		var ts []int
		for t := range h.sp.cells[k] {
			if t >= lo && t <= hi {
				ts = append(ts, t)
			}
		}
		sort.Ints(ts)
		if !asc {
			for i, j := 0, len(ts)-1; i < j; i, j = i+1, j-1 {
				ts[i], ts[j] = ts[j], ts[i]
			}
		}
		for _, t := range ts {
			fm := h.sp.cells[k][t]
			var vals []string
			any := false
			for _, f := range fields {
				if v, ok := fm[f]; ok {
					vals = append(vals, v)
					any = true
				} else {
					vals = append(vals, "_")
				}
			}
			if !any || !c.row(tags, fm) {
				continue
			}
			rows = append(rows, selRow{kid: k, t: t, vals: vals, g: groupKey(dims, tags), fi: fm["fi"]})
		}
	}
	return rows
}

func (h *history) specKids(phys string, p *pred) []int {
	var kids []int
	for _, k := range h.sp.known {
		if h.info[k].phys == phys && p.eval(tagsOf(h.info[k].s)) {
			kids = append(kids, k)
		}
	}
	sort.Ints(kids)
	return kids
}

func kidsText(kids []int) string {
	var s []string
	for _, k := range kids {
		s = append(s, fmt.Sprint(k))
	}
	return "keys " + strings.Join(s, ",")
}

func (h *history) tagValsText(kids []int) string {
	var parts []string
	for _, key := range []string{"host", "zone"} {
		set := map[string]bool{}
		for _, k := range kids {
			set[tagsOf(h.info[k].s)[key]] = true
		}
		var vs []string
		for v := range set {
			vs = append(vs, v)
		}
		sort.Strings(vs)
		parts = append(parts, key+"="+strings.Join(vs, "+"))
	}
	return "tv " + strings.Join(parts, ";")
}

func tagKeysText(kids []int) string {
	if len(kids) == 0 {
		return "tk "
	}
	return "tk host,zone"
}

// ---------------------------------------------------------------------------------------------
// the implementation's answers

func errText(perr string, err error) string {
	if perr != "" {
		return "err " + strings.SplitN(perr, "\n", 2)[0]
	}
	return "err " + strings.SplitN(err.Error(), "\n", 2)[0]
}

func (h *history) seriesKid(phys, key string) int {
	s := engx.SeriesIndex(key)
	if id, ok := h.kids[fmt.Sprintf("%s|%d", phys, s)]; ok {
		return id
	}
	return -1
}

func implGroup(raw string) string {
	if raw == "" {
		return ""
	}
	parts := strings.Split(strings.TrimRight(raw, "\x00"), "\x00")
	var kv []string
	for i := 0; i+1 < len(parts); i += 2 {
		kv = append(kv, parts[i]+"="+parts[i+1])
	}
	if len(parts)%2 == 1 {
		kv = append(kv, "?"+parts[len(parts)-1])
	}
	return strings.Join(kv, ",")
}

func cellText(v interface{}) string {
	switch x := v.(type) {
	case nil:
		return "_"
	case int64:
		return strconv.FormatInt(x, 10)
	case float64:
		return fmt.Sprintf("%016x", math.Float64bits(x))
	case bool:
		if x {
			return "1"
		}
		return "0"
	case string:
		return x
	}
	return "?"
}

func (h *history) implSel(phys string, c cond, dims []string, lo, hi int, asc bool, fields []engine.VerifField) ([]selRow, string) {
	e, err := typedExpr(c.ql())
	if err != nil {
		return nil, "err parse " + err.Error()
	}
	var rows []engine.VerifSelRow
	perr := hx.Safe(func() {
		rows, err = h.sh.Select(phys, fields, e, dims, engx.TimeOf(lo), engx.TimeOf(hi), asc)
	})
	if perr != "" || err != nil {
		return nil, errText(perr, err)
	}
	var out []selRow
	for _, r := range rows {
		sr := selRow{kid: h.seriesKid(phys, r.Series), t: int((r.Time - engx.BaseTime) / 1e9), g: implGroup(r.Group)}
		for i, v := range r.Vals {
			sr.vals = append(sr.vals, cellText(v))
			if fields[i].Name == "fi" && v != nil {
				sr.fi = cellText(v)
			}
		}
		out = append(out, sr)
	}
	sort.SliceStable(out, func(a, b int) bool { return out[a].kid < out[b].kid })
	return out, ""
}

func (h *history) implAgg(phys, call string, c cond, dims []string, lo, hi int) string {
	e, err := typedExpr(c.ql())
	if err != nil {
		return "err parse " + err.Error()
	}
	var rows []engine.VerifAggRow
	perr := hx.Safe(func() {
		rows, err = h.sh.Aggregate(phys, call, engine.VerifField{Name: "fi", Type: influxql.Integer}, e, dims, engx.TimeOf(lo), engx.TimeOf(hi))
	})
	if perr != "" || err != nil {
		return errText(perr, err)
	}
	m := map[string]int64{}
	for _, r := range rows {
		v, ok := r.Val.(int64)
		if !ok {
			if r.Val == nil {
				continue
			}
			return fmt.Sprintf("err aggregate value %T", r.Val)
		}
		m[r.Group] += v
	}
	var gs []string
	for g := range m {
		gs = append(gs, g)
	}
	sort.Strings(gs)
	var out []string
	for _, g := range gs {
		out = append(out, fmt.Sprintf("%s=%d", g, m[g]))
	}
	return "agg " + strings.Join(out, "|")
}

func (h *history) tagExpr(p *pred) (influxql.Expr, error) {
	return engine.VerifParseTagCondition(p.ql())
}

func (h *history) implSeries(phys string, p *pred) string {
	e, err := h.tagExpr(p)
	if err != nil {
		return "err parse " + err.Error()
	}
	var keys []string
	perr := hx.Safe(func() { keys, err = h.sh.SeriesKeys(phys, e) })
	if perr != "" || err != nil {
		return errText(perr, err)
	}
	var kids []int
	for _, k := range keys {
		kids = append(kids, h.seriesKid(phys, k))
	}
	sort.Ints(kids)
	return kidsText(kids)
}

func (h *history) implTagKeys(phys string, p *pred) string {
	e, err := h.tagExpr(p)
	if err != nil {
		return "err parse " + err.Error()
	}
	var keys []string
	perr := hx.Safe(func() { keys, err = h.sh.TagKeys(phys, e) })
	if perr != "" || err != nil {
		return errText(perr, err)
	}
	return "tk " + strings.Join(keys, ",")
}

func (h *history) implTagVals(phys string, p *pred) string {
	e, err := h.tagExpr(p)
	if err != nil {
		return "err parse " + err.Error()
	}
	var vals [][]string
	perr := hx.Safe(func() { vals, err = h.sh.TagValues(phys, []string{"host", "zone"}, e) })
	if perr != "" || err != nil {
		return errText(perr, err)
	}
	var parts []string
	for i, key := range []string{"host", "zone"} {
		var vs []string
		if i < len(vals) {
			vs = vals[i]
		}
		parts = append(parts, key+"="+strings.Join(vs, "+"))
	}
	return "tv " + strings.Join(parts, ";")
}

func (h *history) implCard(phys string, p *pred) string {
	var e influxql.Expr
	var err error
	if p != nil {
		if e, err = h.tagExpr(p); err != nil {
			return "err parse " + err.Error()
		}
	}
	var n uint64
	perr := hx.Safe(func() { n, err = h.sh.SeriesCardinality(phys, e) })
	if perr != "" || err != nil {
		return errText(perr, err)
	}
	return fmt.Sprintf("n %d", n)
}

// ---------------------------------------------------------------------------------------------
// checks after every operation

func (h *history) check(line int, tag, shape, got, want string) {
	h.c.Count("read:" + shape)
	if got == want {
		return
	}
	h.c.Violation(line, h.taint, fmt.Sprintf("history %d after %s (%s): %s answered %q, specification (replay minus dropped) says %q", h.idx, tag, h.kinds, shape, got, want))
}

func allVerifFields() []engine.VerifField { return engx.AllFields() }

func (h *history) readChecks(tag string) {
	r := h.r
	// which measurements to look at: the current physical names, sometimes an old one / a decoy
	var cands []string
	for _, m := range h.msts {
		cands = append(cands, m)
	}
	if len(cands) == 0 {
		return
	}
	n := 2
	if len(cands) < n {
		n = len(cands)
	}
	start := r.Intn(len(cands))
	for i := 0; i < n; i++ {
		phys := cands[(start+i)%len(cands)]
		// listing shapes are exact per physical name unless the name was dropped on the shard and
		// used again without a new version: DROP MEASUREMENT leaves the index entries of the old
		// version to a background task and relies on the version suffix
		listSpec := !h.droppedPhys[phys]
		// selection
		c := genCond(r)
		if h.overwritten[phys] {
			c.f, c.conj = nil, true
		}
		var dims []string
		switch r.Intn(5) {
		case 1:
			dims = []string{"zone"}
		case 2:
			dims = []string{"host"}
		case 3:
			dims = []string{"zone", "host"}
		}
		lo, hi := 0, nTimes-1
		if r.Chance(25) {
			lo = r.Intn(nTimes)
			hi = lo + r.Intn(nTimes-lo)
		}
		asc := r.Chance(70)
		dir := "asc"
		if !asc {
			dir = "desc"
		}
		dtok := "-"
		if len(dims) > 0 {
			dtok = strings.Join(dims, ",")
		}
		rows, e := h.implSel(phys, c, dims, lo, hi, asc, allVerifFields())
		got := e
		if e == "" {
			got = selText(rows)
		}
		line := h.c.Emit(fmt.Sprintf("sel %s %s %s %s %d %d", phys, c.token(), dtok, dir, lo, hi), got)
		h.check(line, tag, "select:"+shapeOf(c, dims), got, selText(h.specSel(phys, c, dims, lo, hi, asc, engx.FieldNames)))
		// aggregate, pushed down and from raw rows
		if r.Chance(60) && !h.overwritten[phys] {
			// the facade pushes the call down without the planner's handling of a field condition:
			// aggregates are evaluated with the tag part of the condition
			c := cond{p: c.p, conj: true}
			call := []string{"count", "sum"}[r.Intn(2)]
			want := aggText(call, h.specSel(phys, c, dims, lo, hi, true, []string{"fi"}))
			got := h.implAgg(phys, call, c, dims, lo, hi)
			line := h.c.Emit(fmt.Sprintf("agg %s %s %s %s %d %d", phys, call, c.token(), dtok, lo, hi), got)
			h.check(line, tag, "aggregate-pushdown:"+call, got, want)
			raw, e := h.implSel(phys, c, dims, lo, hi, true, []engine.VerifField{{Name: "fi", Type: influxql.Integer}})
			got = e
			if e == "" {
				got = aggText(call, raw)
			}
			line = h.c.Emit(fmt.Sprintf("aggraw %s %s %s %s %d %d", phys, call, c.token(), dtok, lo, hi), got)
			h.check(line, tag, "aggregate-raw:"+call, got, want)
		}
		// listings
		p := genPred(r)
		kids := h.specKids(phys, p)
		switch r.Intn(5) {
		case 4:
			// SHOW TAG VALUES CARDINALITY: EngineImpl.TagValuesCardinality counts the distinct values
			// SearchTagValues returns for the keys
			got := h.implTagVals(phys, p)
			if strings.HasPrefix(got, "tv ") {
				set := map[string]bool{}
				for _, kv := range strings.Split(strings.TrimPrefix(got, "tv "), ";") {
					if i := strings.IndexByte(kv, '='); i >= 0 && kv[i+1:] != "" {
						for _, v := range strings.Split(kv[i+1:], "+") {
							set[v] = true
						}
					}
				}
				got = fmt.Sprintf("n %d", len(set))
			}
			line := h.c.Emit(fmt.Sprintf("tvcard %s %s", phys, p.token()), got)
			if listSpec {
				set := map[string]bool{}
				for _, k := range kids {
					for _, v := range tagsOf(h.info[k].s) {
						set[v] = true
					}
				}
				h.check(line, tag, "tag-values-cardinality", got, fmt.Sprintf("n %d", len(set)))
			}
		case 0:
			got := h.implSeries(phys, p)
			line := h.c.Emit(fmt.Sprintf("series %s %s", phys, p.token()), got)
			if listSpec {
				h.check(line, tag, "show-series", got, kidsText(kids))
			}
		case 1:
			got := h.implTagKeys(phys, p)
			line := h.c.Emit(fmt.Sprintf("tagkeys %s %s", phys, p.token()), got)
			if listSpec {
				h.check(line, tag, "show-tag-keys", got, tagKeysText(kids))
			}
		case 2:
			got := h.implTagVals(phys, p)
			line := h.c.Emit(fmt.Sprintf("tagvals %s %s", phys, p.token()), got)
			if listSpec {
				h.check(line, tag, "show-tag-values", got, h.tagValsText(kids))
			}
		case 3:
			if r.Chance(50) {
				got := h.implCard(phys, nil)
				line := h.c.Emit(fmt.Sprintf("card %s *", phys), got)
				if listSpec {
					h.check(line, tag, "series-cardinality", got, fmt.Sprintf("n %d", len(h.specKids(phys, &pred{op: "all"}))))
				}
			} else {
				got := h.implCard(phys, p)
				line := h.c.Emit(fmt.Sprintf("card %s %s", phys, p.token()), got)
				if listSpec {
					h.check(line, tag, "series-cardinality-where", got, fmt.Sprintf("n %d", len(kids)))
				}
			}
		}
	}
}

func shapeOf(c cond, dims []string) string {
	s := "no-filter"
	if c.p.op != "all" {
		s = "tag:" + c.p.op
	}
	if c.f != nil {
		if c.p.op == "all" {
			s = "field"
		} else if c.conj {
			s += "+field(and)"
		} else {
			s += "+field(or)"
		}
	}
	if len(dims) > 0 {
		s += "/group-by-tag"
	}
	return s
}

// ---------------------------------------------------------------------------------------------
// operations

func genVal(r *hx.Rng, f string) string {
	switch f {
	case "fi":
		return fmt.Sprint(int64(r.Intn(200)) - 100)
	case "ff":
		return fmt.Sprintf("%016x", math.Float64bits(float64(r.Intn(40))/4-3))
	case "fb":
		return fmt.Sprint(r.Intn(2))
	}
	return fmt.Sprintf("s%d", r.Intn(30))
}

func (h *history) open() error {
	sh, err := engine.VerifOpenDropShard(h.dir, h.nParts)
	if err != nil {
		return err
	}
	sh.DisableBackground()
	sh.StopIndexFlushers()
	h.sh = sh
	return nil
}

func (h *history) liveLogical() []string {
	var out []string
	for _, l := range []string{"m", "n"} {
		if h.phys[l] != "" {
			out = append(out, l)
		}
	}
	return out
}

func (h *history) doWrite(targets []string) error {
	r := h.r
	n := 1 + r.Intn(5)
	var rows []engx.Row
	for i := 0; i < n; i++ {
		row := engx.Row{Mst: targets[r.Intn(len(targets))], Series: r.Intn(nSeries), Fields: map[string]string{}}
		if r.Chance(40) {
			row.T = r.Intn(nTimes)
		} else {
			row.T = h.hiT + r.Intn(2)
			if row.T >= nTimes {
				row.T = nTimes - 1
			}
		}
		if i > 0 && r.Chance(15) {
			row.Mst, row.Series, row.T = rows[i-1].Mst, rows[i-1].Series, rows[i-1].T
		}
		// measurements n_* never get a second row for one (series,time): filtered selections and
		// pushed-down aggregates are compared there (what they answer for a timestamp that lives in
		// two layers is C02's / C09's subject)
		if strings.HasPrefix(row.Mst, "n") {
			free := false
			for try := 0; try < 24 && !free; try++ {
				if !h.written[fmt.Sprintf("%s|%d|%d", row.Mst, row.Series, row.T)] {
					free = true
					break
				}
				row.Series, row.T = (row.Series+1)%nSeries, (row.T+try)%nTimes
			}
			if !free {
				row.Mst = "zz"
			}
		}
		wk := fmt.Sprintf("%s|%d|%d", row.Mst, row.Series, row.T)
		if h.written[wk] {
			h.overwritten[row.Mst] = true
		}
		h.written[wk] = true
		for _, f := range engx.FieldNames {
			if r.Chance(45) {
				row.Fields[f] = genVal(r, f)
			}
		}
		if len(row.Fields) == 0 || r.Chance(40) {
			row.Fields["fi"] = genVal(r, "fi")
		}
		if row.T > h.hiT {
			h.hiT = row.T
		}
		rows = append(rows, row)
	}
	return h.writeRows(rows)
}

func (h *history) writeRows(rows []engx.Row) error {
	var kids []int
	for _, x := range rows {
		kids = append(kids, h.kid(x.Mst, x.Series))
	}
	var ts []string
	for i, x := range rows {
		t := x.Text()
		ts = append(ts, fmt.Sprintf("%d%s", kids[i], t[strings.IndexByte(t, ':'):]))
	}
	var werr error
	perr := hx.Safe(func() { werr = h.sh.Write(engx.ToInflux(rows)) })
	ans := "ack"
	if perr != "" || werr != nil {
		ans = errText(perr, werr)
	}
	line := h.c.Emit("write "+strings.Join(ts, ";"), ans)
	if ans != "ack" {
		h.c.Violation(line, "", "a valid write batch was rejected: "+ans)
		return fmt.Errorf("write failed: %s", ans)
	}
	// a second passes: the new series become searchable (index visibility lag is not C13's subject)
	h.sh.FlushIndex()
	for i, x := range rows {
		k := kids[i]
		if !h.sp.isKnown(k) {
			h.sp.known = append(h.sp.known, k)
		}
		if h.sp.cells[k] == nil {
			h.sp.cells[k] = map[int]map[string]string{}
		}
		if h.sp.cells[k][x.T] == nil {
			h.sp.cells[k][x.T] = map[string]string{}
		}
		for f, v := range x.Fields {
			h.sp.cells[k][x.T][f] = v
		}
		if _, ok := h.walInc[k]; !ok {
			h.walInc[k] = h.inc[k]
		}
	}
	h.kinds += "w"
	h.c.Count("op:write")
	return nil
}

// writeSimple writes one row per (measurement, series, time) given, with random fields, keeping
// the book-keeping of doWrite (a measurement n_* never gets a second row for one (series,time)).
func (h *history) writeSimple(in []engRow) error {
	r := h.r
	var rows []engx.Row
	for _, x := range in {
		row := engx.Row{Mst: x.mst, Series: x.s, T: x.t, Fields: map[string]string{}}
		if strings.HasPrefix(row.Mst, "n") {
			free := false
			for try := 0; try < nTimes && !free; try++ {
				if !h.written[fmt.Sprintf("%s|%d|%d", row.Mst, row.Series, row.T)] {
					free = true
					break
				}
				row.T = (row.T + 1) % nTimes
			}
			if !free {
				continue
			}
		}
		dup := false
		for _, y := range rows {
			if y.Mst == row.Mst && y.Series == row.Series && y.T == row.T {
				dup = true
			}
		}
		if dup {
			continue
		}
		wk := fmt.Sprintf("%s|%d|%d", row.Mst, row.Series, row.T)
		if h.written[wk] {
			h.overwritten[row.Mst] = true
		}
		h.written[wk] = true
		for _, f := range engx.FieldNames {
			if r.Chance(45) {
				row.Fields[f] = genVal(r, f)
			}
		}
		if len(row.Fields) == 0 || r.Chance(40) {
			row.Fields["fi"] = genVal(r, "fi")
		}
		if row.T > h.hiT {
			h.hiT = row.T
		}
		rows = append(rows, row)
	}
	if len(rows) == 0 {
		return nil
	}
	return h.writeRows(rows)
}

func (h *history) files() map[string]map[string]bool {
	out := map[string]map[string]bool{}
	for _, m := range h.msts {
		out[m] = map[string]bool{}
		for _, f := range h.sh.Files(m) {
			tag := "u"
			if f.Order {
				tag = "o"
			}
			out[m][tag+f.Name] = true
		}
	}
	return out
}

func (h *history) doFlush() {
	before := h.files()
	perr := hx.Safe(func() { h.sh.Flush() })
	ans := "ok"
	if perr != "" {
		ans = "err " + perr
	} else {
		after := h.files()
		ms := append([]string(nil), h.msts...)
		sort.Strings(ms)
		for _, m := range ms {
			o, u := false, false
			for f := range after[m] {
				if !before[m][f] {
					if f[0] == 'o' {
						o = true
					} else {
						u = true
					}
				}
			}
			if o || u {
				ans += " " + m + "="
				if o {
					ans += "o"
				}
				if u {
					ans += "u"
				}
			}
		}
	}
	if h.restarted {
		// after a restart the per-series flush times are reloaded asynchronously and a flush that
		// comes first writes everything out of order: the split is not compared
		h.c.Emit("flushq", strings.Fields(ans)[0])
	} else {
		h.c.Emit("flush", ans)
	}
	h.walInc = map[int]int{}
	h.kinds += "f"
	h.c.Count("op:flush")
	if h.dropSome {
		h.afterDrop = true
	}
}

func (h *history) doDropSeries() {
	r := h.r
	live := h.msts
	if len(live) == 0 {
		return
	}
	h.dropSeriesWith(live[r.Intn(len(live))], genPred(r))
}

func (h *history) dropSeriesWith(phys string, p *pred) {
	var n int
	var err error
	perr := hx.Safe(func() { n, err = h.sh.DropSeries(phys, p.ql()) })
	ans := fmt.Sprintf("ok %d", n)
	if perr != "" || err != nil {
		ans = errText(perr, err)
	}
	line := h.c.Emit(fmt.Sprintf("dropseries %s %s", phys, p.token()), ans)
	sel := h.specKids(phys, p)
	total := len(h.specKids(phys, &pred{op: "all"}))
	if ans != fmt.Sprintf("ok %d", len(sel)) && !h.droppedPhys[phys] {
		h.c.Violation(line, h.taint, fmt.Sprintf("history %d (%s): drop series on %s where %q selected %s, the predicate names %d series", h.idx, h.kinds, phys, p.ql(), ans, len(sel)))
	}
	switch {
	case len(sel) == 0:
		h.c.Count("drop-selects:none")
	case len(sel) == total:
		h.c.Count("drop-selects:all")
	default:
		h.c.Count("drop-selects:some")
		h.dropSome = true
	}
	drop := map[int]bool{}
	for _, k := range sel {
		drop[k] = true
		delete(h.sp.cells, k)
		h.inc[k]++
	}
	var keep []int
	for _, k := range h.sp.known {
		if !drop[k] {
			keep = append(keep, k)
		}
	}
	h.sp.known = keep
	if len(sel) > 0 {
		h.pend = true
	}
	for _, k := range sel {
		if _, ok := h.walInc[k]; ok {
			h.c.Count("drop-with-unflushed-rows")
			break
		}
	}
	h.kinds += "d"
	h.c.Count("op:drop-series")
}

func (h *history) shardDropMst(phys string) {
	var err error
	perr := hx.Safe(func() { err = h.sh.DropMeasurement(phys) })
	ans := "ok"
	if perr != "" || err != nil {
		ans = errText(perr, err)
	}
	h.c.Emit("dropmst "+phys, ans)
	for k, ki := range h.info {
		if ki.phys == phys {
			delete(h.sp.cells, k)
		}
	}
	h.walInc = map[int]int{} // the drop flushes and cuts the WAL
	h.droppedPhys[phys] = true
}

func catErr(err error) string {
	if err == nil {
		return "ok"
	}
	s := err.Error()
	switch {
	case strings.Contains(s, "database not found"):
		return "err db-notfound"
	case strings.Contains(s, "is being delete") && strings.Contains(s, "database"), strings.Contains(s, "DB is being deleted"):
		return "err db-deleting"
	case strings.Contains(s, "retention policy not found"):
		return "err rp-notfound"
	case strings.Contains(s, "retention policy is being delete"):
		return "err rp-deleting"
	case strings.Contains(s, "measurement not found"):
		return "err mst-notfound"
	case strings.Contains(s, "measurement already exists"):
		return "err mst-exists"
	}
	return "err ? " + s
}

func (h *history) catOp(op string, arg string) string {
	a, _ := h.catOpL(op, arg)
	return a
}

func (h *history) catOpL(op string, arg string) (string, int) {
	var ans string
	perr := hx.Safe(func() {
		switch op {
		case "dbcreate":
			ans = catErr(h.cat.CreateDatabase("db0", meta.NewRetentionPolicyInfo("rp0"), nil, false, 1, nil))
		case "dbmark":
			ans = catErr(h.cat.MarkDatabaseDelete("db0"))
		case "dbdrop":
			h.cat.DropDatabase("db0")
			ans = "ok"
		case "rpcreate":
			ans = catErr(h.cat.CreateRetentionPolicy("db0", meta.NewRetentionPolicyInfo("rp0"), false))
		case "rpmark":
			ans = catErr(h.cat.MarkRetentionPolicyDelete("db0", "rp0"))
		case "rpdrop":
			ans = catErr(h.cat.DropRetentionPolicy("db0", "rp0"))
		case "mcreate":
			err := h.cat.CreateMeasurement("db0", "rp0", arg, nil, 0, nil, 0, nil, nil, nil)
			ans = catErr(err)
			if err == nil {
				m, e := h.cat.Measurement("db0", "rp0", arg)
				if e != nil {
					ans = "err created-but-" + catErr(e)
				} else {
					ans = "name " + m.Name
				}
			}
		case "mmark":
			ans = catErr(h.cat.MarkMeasurementDelete("db0", "rp0", arg))
		case "mdrop":
			ans = catErr(h.cat.DropMeasurement("db0", "rp0", arg))
		case "resolve":
			m, e := h.cat.Measurement("db0", "rp0", arg)
			if e != nil {
				ans = catErr(e)
			} else {
				ans = "name " + m.Name
			}
		case "addfield":
			// Data.UpdateSchema, as the store's write path registers a new field
			f := strings.Fields(arg)
			typ := engx.FieldTypes[f[1]]
			ans = catErr(h.cat.UpdateSchema("db0", "rp0", f[0], []*proto2.FieldSchema{{FieldName: &f[1], FieldType: &typ}}))
		case "fieldkeys":
			// SHOW FIELD KEYS: the schema of the measurement the name resolves to
			m, e := h.cat.Measurement("db0", "rp0", arg)
			if e != nil {
				ans = catErr(e)
			} else {
				var ks []string
				if m.Schema != nil {
					for k := range *m.Schema {
						ks = append(ks, k)
					}
				}
				sort.Strings(ks)
				ans = "fk " + strings.Join(ks, ",")
			}
		case "msts":
			// SHOW MEASUREMENTS: Data.Measurements, logical names
			var names []string
			if ms, e := h.cat.Measurements("db0", "rp0"); e == nil {
				for _, m := range ms.MstsInfo {
					names = append(names, influx.GetOriginMstName(m.Name))
				}
			}
			sort.Strings(names)
			ans = "msts " + strings.Join(names, ",")
		}
	})
	if perr != "" {
		ans = "err " + perr
	}
	line := "cat " + op
	if arg != "" {
		line += " " + arg
	}
	ln := h.c.Emit(line, ans)
	h.c.Count("catalogue:" + op)
	return ans, ln
}

func (h *history) refreshPhys() {
	for _, l := range []string{"m", "n"} {
		m, e := h.cat.Measurement("db0", "rp0", l)
		if e != nil {
			h.phys[l] = ""
		} else {
			h.phys[l] = m.Name
		}
	}
}

// doDropMeasurement is DROP MEASUREMENT as the coordinator drives it: mark in the catalogue, drop on
// the store, remove from the catalogue; then (usually) the measurement is created again.
func (h *history) doDropMeasurement() {
	live := h.liveLogical()
	if len(live) == 0 {
		return
	}
	l := live[h.r.Intn(len(live))]
	phys := h.phys[l]
	// the store registers the fields of a measurement in the catalogue when it first sees them
	for _, f := range engx.FieldNames {
		if h.r.Chance(50) {
			h.catOp("addfield", l+" "+f)
		}
	}
	h.catOp("fieldkeys", l)
	_, line := h.catOpL("resolve", l)
	if a := h.catOp("mmark", l); a != "ok" {
		h.c.Violation(line, "", "mark measurement failed: "+a)
	}
	if a := h.catOp("resolve", l); a != "err mst-notfound" {
		h.c.Violation(line, h.taint, "a measurement marked deleted still resolves: "+a)
	}
	if a, ln := h.catOpL("fieldkeys", l); a != "err mst-notfound" {
		h.c.Violation(ln, h.taint, "SHOW FIELD KEYS still answers for a measurement marked deleted: "+a)
	}
	if a, ln := h.catOpL("msts", ""); strings.Contains(","+strings.TrimPrefix(a, "msts ")+",", ","+l+",") {
		h.c.Violation(ln, h.taint, "SHOW MEASUREMENTS still lists a measurement marked deleted: "+a)
	}
	if h.r.Chance(30) && h.mergeFinish == nil {
		// the drop meets a flush / an out-of-order merge that is writing a file of the measurement (race.go)
		kind := "merge"
		for k := range h.walInc {
			if h.info[k].phys == phys {
				kind = "flush"
			}
		}
		h.shardDropMstRacing(phys, kind)
	} else {
		h.shardDropMst(phys)
	}
	h.catOp("mdrop", phys)
	h.phys[l] = ""
	if h.r.Chance(75) {
		a := h.catOp("mcreate", l)
		if !strings.HasPrefix(a, "name ") {
			h.c.Violation(line, "", "re-creating a dropped measurement failed: "+a)
		} else {
			np := strings.TrimPrefix(a, "name ")
			if np == phys {
				h.c.Violation(line, h.taint, "a re-created measurement got the physical name of the dropped one: "+np)
			}
			h.phys[l] = np
			if a, ln := h.catOpL("fieldkeys", l); a != "fk " {
				h.c.Violation(ln, h.taint, "a re-created measurement starts with field keys: "+a)
			}
		}
	}
	h.kinds += "M"
	h.c.Count("op:drop-measurement")
	if h.dropSome {
		h.afterDrop = true
	}
}

func copyTree(src, dst string) error {
	return filepath.Walk(src, func(p string, info os.FileInfo, err error) error {
		if err != nil {
			if os.IsNotExist(err) {
				return nil
			}
			return err
		}
		rel, _ := filepath.Rel(src, p)
		target := filepath.Join(dst, rel)
		if info.IsDir() {
			return os.MkdirAll(target, 0o755)
		}
		b, e := os.ReadFile(p)
		if e != nil {
			if os.IsNotExist(e) {
				return nil
			}
			return e
		}
		// the series index records pending renames / removals with absolute paths: a crash image
		// lives in another directory than the shard it was copied from
		if strings.Contains(p, "/txn/") && strings.Contains(string(b), src) {
			b = []byte(strings.ReplaceAll(string(b), src, dst))
		}
		return os.WriteFile(target, b, 0o644)
	})
}

func (h *history) restartTaint(crash bool) {
	if h.taint != "" {
		return
	}
	for k, w := range h.walInc {
		if w != h.inc[k] {
			h.taint = "unflushed_rows_then_crash"
			h.c.Count("precondition:unflushed_rows_then_crash")
			return
		}
	}
	if crash && h.pend {
		h.taint = "crash_before_index_flush"
		h.c.Count("precondition:crash_before_index_flush")
	}
}

func (h *history) doReopen() error {
	h.doMergeEnd()
	h.restartTaint(false)
	var e error
	perr := hx.Safe(func() {
		e = h.sh.Close()
		if e == nil {
			e = h.open()
		}
	})
	ans := "ok"
	if perr != "" || e != nil {
		ans = errText(perr, e)
	}
	h.c.Emit("reopen", ans)
	h.restarted = true
	h.walInc = map[int]int{}
	h.pend = false
	h.kinds += "r"
	h.c.Count("op:reopen")
	if h.dropSome {
		h.afterDrop = true
	}
	if ans != "ok" {
		return fmt.Errorf("reopen failed: %s", ans)
	}
	return nil
}

func (h *history) doCrash() error {
	h.doMergeEnd()
	h.restartTaint(true)
	img := engx.FastScratchDir("c13img")
	var e error
	perr := hx.Safe(func() {
		if e = copyTree(h.dir, img); e != nil {
			return
		}
		old, oldDir := h.sh, h.dir
		h.dir = img
		if e = h.open(); e != nil {
			return
		}
		_ = old.Close()
		os.RemoveAll(oldDir)
	})
	ans := "ok"
	if perr != "" || e != nil {
		ans = errText(perr, e)
	}
	h.c.Emit("crash", ans)
	h.restarted = true
	h.walInc = map[int]int{}
	h.pend = false
	h.kinds += "k"
	h.c.Count("op:crash")
	if h.dropSome {
		h.afterDrop = true
	}
	if ans != "ok" {
		return fmt.Errorf("crash recovery failed: %s", ans)
	}
	return nil
}

func (h *history) simple(op, kind string, f func() error) {
	var e error
	perr := hx.Safe(func() { e = f() })
	ans := "ok"
	if perr != "" || e != nil {
		ans = errText(perr, e)
	}
	h.c.Emit(op, ans)
	h.kinds += kind
	h.c.Count("op:" + strings.Fields(op)[0])
}

func runHistory(c *hx.Ctx, r *hx.Rng, idx, maxOps int, purge bool) error {
	h := &history{c: c, r: r, idx: idx, dir: engx.FastScratchDir("c13"), nParts: []int{1, 2, 4}[r.Intn(3)],
		cat: &meta.Data{ClusterPtNum: 1}, phys: map[string]string{}, kids: map[string]int{},
		sp: spec{cells: map[int]map[int]map[string]string{}}, inc: map[int]int{}, walInc: map[int]int{},
		purgeOK: purge, stalePhys: map[string]bool{}, droppedPhys: map[string]bool{}, written: map[string]bool{}, overwritten: map[string]bool{},
		tsidKid: map[uint64]int{}, seen: map[int][]uint64{}}
	defer func() { os.RemoveAll(h.dir) }()
	if err := h.open(); err != nil {
		return err
	}
	c.Emit(fmt.Sprintf("open %d", idx), "ok")
	c.Emit(fmt.Sprintf("parts %d", h.nParts), "ok")
	c.Count(fmt.Sprintf("wal-partitions=%d", h.nParts))
	// catalogue: one database, one policy, two measurements
	h.catOp("dbcreate", "")
	for _, l := range []string{"m", "n"} {
		a := h.catOp("mcreate", l)
		if strings.HasPrefix(a, "name ") {
			h.phys[l] = strings.TrimPrefix(a, "name ")
		}
	}
	// neighbours in index order: a measurement before and one after every versioned name
	if err := h.doWrite([]string{"aa", "zz"}); err != nil {
		return err
	}
	h.indexObs(false)
	nOps := 4 + r.Intn(maxOps)
	if purge && h.phys["m"] != "" && h.phys["n"] != "" && r.Chance(roundsPercent) {
		// a history of drop + purge rounds over several index parts (parts.go)
		nOps = 0
		h.kinds += "R"
		c.Count("history:drop-purge-rounds")
		if err := h.runRounds(2 + r.Intn(3)); err != nil {
			return err
		}
		c.Count(fmt.Sprintf("rounds-history:purges-that-left-a-part=%d", min(h.partialPurges, 3)))
	}
	for i := 0; i < nOps; i++ {
		tag := ""
		restarted := false
		p := r.Intn(100)
		switch {
		case p < 33:
			targets := []string{}
			for _, l := range h.liveLogical() {
				targets = append(targets, h.phys[l])
			}
			// a write that still carries the name of a dropped version (it was in flight, or the
			// 16-bit version wrapped): the shard must treat the name as a fresh measurement
			if r.Chance(12) {
				for p := range h.droppedPhys {
					targets = append(targets, p)
				}
				sort.Strings(targets)
			}
			if r.Chance(8) || len(targets) == 0 {
				targets = append(targets, "zz")
			}
			if err := h.doWrite(targets); err != nil {
				return err
			}
			tag = "write"
		case p < 36:
			switch {
			case h.mergeFinish != nil:
				h.doMergeEnd()
				tag = "index merge ends"
			case r.Chance(60):
				h.doIndexMerge()
				tag = "index merge"
			default:
				h.doMergeBegin()
				tag = "index merge begins"
			}
		case p < 50:
			h.doFlush()
			tag = "flush"
		case p < 55:
			lv := uint16(r.Intn(2))
			h.simple(fmt.Sprintf("compact %d", lv), "c", func() error { return h.sh.LevelCompact(lv) })
			tag = "level compaction"
			if h.dropSome {
				h.afterDrop = true
			}
		case p < 58:
			h.simple("fullcompact", "C", func() error { return h.sh.FullCompact() })
			tag = "full compaction"
			if h.dropSome {
				h.afterDrop = true
			}
		case p < 63:
			full := r.Bool()
			h.simple("merge", "m", func() error { return h.sh.MergeOutOfOrder(full, true) })
			tag = "out-of-order merge"
			if h.dropSome {
				h.afterDrop = true
			}
		case p < 70:
			h.simple("tick", "t", func() error { h.sh.FlushIndexes(); return nil })
			h.pend = false
			tag = "index flush interval"
		case p < 82:
			h.doDropSeries()
			tag = "drop series"
		case p < 86:
			h.doDropMeasurement()
			tag = "drop measurement"
		case p < 90:
			if !h.purgeOK {
				continue
			}
			h.doPurge()
			tag = "purge"
		case p < 96:
			if err := h.doReopen(); err != nil {
				return err
			}
			tag = "reopen"
			restarted = true
		default:
			if err := h.doCrash(); err != nil {
				return err
			}
			tag = "crash"
			restarted = true
		}
		h.indexObs(restarted)
		h.readChecks(fmt.Sprintf("op %d %s", i, tag))
	}
	h.doMergeEnd()
	// catalogue epilogue: the mark / drop protocol of policy and database
	for i, n := 0, 3+r.Intn(8); i < n; i++ {
		ops := []string{"rpmark", "rpdrop", "rpcreate", "dbmark", "dbdrop", "dbcreate", "mcreate", "mmark", "resolve", "resolve", "addfield", "fieldkeys", "msts"}
		op := ops[r.Intn(len(ops))]
		arg := ""
		switch op {
		case "mcreate", "mmark", "resolve", "fieldkeys":
			arg = []string{"m", "n"}[r.Intn(2)]
		case "addfield":
			arg = []string{"m", "n"}[r.Intn(2)] + " " + engx.FieldNames[r.Intn(len(engx.FieldNames))]
		}
		a, _ := h.catOpL(op, arg)
		if (op == "rpmark" || op == "dbmark") && a == "ok" {
			for _, l := range []string{"m", "n"} {
				if x, ln := h.catOpL("resolve", l); strings.HasPrefix(x, "name ") {
					h.c.Violation(ln, "", fmt.Sprintf("history %d: %s acknowledged but %s still resolves to %s", idx, op, l, x))
				}
			}
		}
	}
	h.doMergeEnd()
	c.Case(fmt.Sprintf("%d:%s", idx, h.kinds), h.dropSome && h.afterDrop)
	if h.dropSome && h.afterDrop {
		c.Sample(fmt.Sprintf("history %d ops=%s walParts=%d measurements=%v finding-precondition=%q", idx, h.kinds, h.nParts, h.msts, h.taint))
	}
	h.closeShard()
	return nil
}

// closeShard is the clean shutdown at the end of a history: it must succeed whatever was dropped.
func (h *history) closeShard() {
	var err error
	perr := hx.Safe(func() { err = h.sh.Close() })
	ans := "ok"
	if perr != "" || err != nil {
		ans = errText(perr, err)
	}
	line := h.c.Emit("close", ans)
	if ans != "ok" {
		h.c.Violation(line, h.taint, fmt.Sprintf("history %d (%s): the clean shutdown of the shard failed after the drops: %s", h.idx, h.kinds, ans))
	}
}

func Run(c *hx.Ctx) error {
	c.Stats.Rule = "random histories on a real shard with its deleted-tsid index (writes in memory / flushed / compacted / out-of-order over versioned measurements from a real meta.Data catalogue plus two neighbour measurements; DROP SERIES by tag predicate selecting none / some / all; DROP MEASUREMENT with re-creation; physical purge; further writes incl. to dropped series; flush, compaction, merge, index flush interval, clean reopen, crash image); after every op on two measurements: one selection (random tag / field condition, group-by, direction, range), aggregate pushed down and from raw rows, one listing (series / tag keys / tag values / cardinality); a history is non-trivial when a drop selected a strict non-empty subset and a flush, compaction, drop measurement or restart followed; 35% of the shard histories are drop + purge rounds over several index parts (merges of index parts between and around the purges, restart at the end); after every op the parts of both index tables are listed; DROP MEASUREMENT races with a paused flush / out-of-order merge in 30% of the cases; every 8th history runs on a whole engine (two databases x two policies: drop measurement / retention policy / database, re-creation, restart; loaded set, directory tree and dumps after every op); distinct by op-kind string"
	n := c.Budget(60, 1500)
	// consecutive seeds must not give shifted copies of one stream (splitmix64 states of seed and
	// seed+1 differ by the stream increment)
	r := hx.NewRng(hx.NewRng(c.Seed).U64() ^ (c.Seed * 0xD6E8FEB86659FD93))
	purge := c.Arg("purge", "1") == "1"
	for i := 0; i < n; i++ {
		if i < len(directed) {
			if err := runDirected(c, i, directed[i]); err != nil {
				return err
			}
			continue
		}
		if i%8 == 5 {
			// one tag value shared by more than 64 series: the tag->tsids rows SHOW TAG VALUES walks (wide.go)
			if err := runWide(c, hx.NewRng(r.U64()^(uint64(i)*0xA24BAED4963EE407)), i); err != nil {
				return err
			}
			continue
		}
		if i%8 == 3 {
			// a history on a whole engine: the store side of drop measurement / retention policy / database (enginehist.go)
			if err := runEngineHistory(c, hx.NewRng(r.U64()^(uint64(i)*0xA24BAED4963EE407)), i, i%16 == 11); err != nil {
				return err
			}
			continue
		}
		if err := runHistory(c, hx.NewRng(r.U64()^(uint64(i)*0xA24BAED4963EE407)), i, 24, purge); err != nil {
			return err
		}
	}
	return nil
}

// directed histories, run first on every run: the minimal inputs of the two known findings
// (and their safe counterparts), a purge after a drop that leaves a neighbour in the same tag
// rows, a drop in a measurement followed by another one in index order.
var directed = []string{
	"w m 0 0;w m 1 0;d m eq:host:h0;r",                 // unflushed rows of the dropped series, clean restart
	"w m 0 0;w m 1 0;d m eq:host:h0;t;k",               // the same with a crash image
	"w m 0 0;w m 1 0;f;d m eq:host:h0;k",               // flushed, dropped, killed before the deleted-tsid table is flushed
	"w m 0 0;w m 1 0;f;d m eq:host:h0;t;k;w m 0 1;f;r", // flushed + index flush interval: stays dropped; written again
	"w m 0 0;w m 2 0;f;d m eq:host:h0;t;p;r;w m 0 1;r", // purge: the row zone=z0 -> [h0,h2] keeps h2
	"w m 0 0;w m 2 0;f;d m eq:host:h2;t;p;r;w m 2 1;r", // purge: ... and keeps h0
	"w m 0 0;w m 1 0;w zz 0 0;f;d m -;t;k",             // another measurement follows in the index
	// rounds of drop + purge over several index parts (every write batch that creates a series makes a part)
	"w m 0 0;w m 1 0;w m 2 0;f;d m eq:host:h0;t;p;d m eq:host:h1;t;p;r;w m 0 1;r",                        // a purge leaves two parts as they are, the next drop names a series of one of them
	"w m 0 0;w m 1 0;w m 2 0;f;d m eq:host:h2;t;p;im 0,1;d m eq:host:h0;t;p;k;d m -;t;p;r",               // a merge between the rounds, a crash image, a last round that empties the measurement
	"w m 0 0;w m 1 0;f;mb 0,1;d m eq:host:h0;t;p;me;r",                                                   // a purge while a merger holds the parts: nothing may be forgotten
	"w m 0 0;w m 1 0;w m 2 0;f;mb 0;d m re:host:h0+h1;t;p;me;p;r;w m 0 1;w m 1 1;f;d m eq:host:h0;t;p;r", // ... the next purge finishes; the series written again get new tsids and one is dropped again
}

func runDirected(c *hx.Ctx, idx int, script string) error {
	h := &history{c: c, r: hx.NewRng(uint64(idx) + 77), idx: idx, dir: engx.FastScratchDir("c13"), nParts: 2,
		cat: &meta.Data{ClusterPtNum: 1}, phys: map[string]string{}, kids: map[string]int{},
		sp: spec{cells: map[int]map[int]map[string]string{}}, inc: map[int]int{}, walInc: map[int]int{},
		purgeOK: true, stalePhys: map[string]bool{}, droppedPhys: map[string]bool{}, written: map[string]bool{}, overwritten: map[string]bool{},
		tsidKid: map[uint64]int{}, seen: map[int][]uint64{}}
	defer func() { os.RemoveAll(h.dir) }()
	if err := h.open(); err != nil {
		return err
	}
	c.Emit(fmt.Sprintf("open %d", idx), "ok")
	c.Emit(fmt.Sprintf("parts %d", h.nParts), "ok")
	c.Count("directed-history")
	for i, st := range strings.Split(script, ";") {
		f := strings.Fields(st)
		tag := st
		restarted := false
		switch f[0] {
		case "w":
			s, _ := strconv.Atoi(f[2])
			t, _ := strconv.Atoi(f[3])
			if err := h.writeRows([]engx.Row{{Mst: f[1], Series: s, T: t, Fields: map[string]string{"fi": fmt.Sprint(10*s + t), "fs": fmt.Sprintf("s%d", t)}}}); err != nil {
				return err
			}
		case "f":
			h.doFlush()
		case "t":
			h.simple("tick", "t", func() error { h.sh.FlushIndexes(); return nil })
			h.pend = false
		case "p":
			h.doPurge()
		case "r":
			if err := h.doReopen(); err != nil {
				return err
			}
			restarted = true
		case "k":
			if err := h.doCrash(); err != nil {
				return err
			}
			restarted = true
		case "im", "mb":
			// merge of the index parts at the given positions (table order), whole / first half
			var pos []int
			for _, x := range strings.Split(f[1], ",") {
				n, _ := strconv.Atoi(x)
				pos = append(pos, n)
			}
			parts, e := h.indexParts()
			if e != "" {
				return fmt.Errorf("index parts: %s", e)
			}
			var ok []int
			for _, i := range pos {
				if i < len(parts) {
					ok = append(ok, i)
				}
			}
			if f[0] == "mb" {
				h.mergeBeginAt(parts, ok)
			} else {
				var n int
				var err error
				perr := hx.Safe(func() { n, err = h.sh.MergeIndexParts(ok) })
				ans := fmt.Sprintf("ok %d", n)
				if perr != "" || err != nil {
					ans = errText(perr, err)
				}
				h.c.Emit("imerge "+h.firstEntries(parts, ok), ans)
			}
		case "me":
			h.doMergeEnd()
		case "d":
			p := &pred{op: "all"}
			if f[2] != "-" {
				x := strings.Split(f[2], ":")
				p = &pred{op: x[0], k: x[1], vals: strings.Split(x[2], "+")}
			}
			h.dropSeriesWith(f[1], p)
		}
		h.indexObs(restarted)
		h.readChecks(fmt.Sprintf("directed op %d %s", i, tag))
		h.readChecks(fmt.Sprintf("directed op %d %s", i, tag))
	}
	h.doMergeEnd()
	c.Case(fmt.Sprintf("directed:%d", idx), true)
	h.closeShard()
	return nil
}
