package c13

// Histories on a whole engine (engine.VerifDropEngine): the store side of DROP MEASUREMENT,
// DROP RETENTION POLICY and DROP DATABASE — EngineImpl.DropMeasurement / DropRetentionPolicy /
// DeleteDatabase over shards of two databases with two policies each, their indexes, their
// data and WAL directories — with writes (flushed and not), re-creation of a dropped policy
// or database with new shard ids, and restarts of the store with the shard list of the
// catalogue. After every operation: what the engine holds, the directory tree, and a dump of
// both measurements of every shard the history has ever made.

import (
	"fmt"
	"os"
	"path/filepath"
	"sort"
	"strconv"
	"strings"

	"github.com/openGemini/openGemini/engine"
	"github.com/openGemini/openGemini/lib/util/lifted/influx/influxql"

	"verif/harness/engx"
	"verif/harness/internal/hx"
)

type engHist struct {
	c    *hx.Ctx
	r    *hx.Rng
	idx  int
	dir  string
	e    *engine.VerifDropEngine
	live []engine.VerifEngineShard
	all  []engine.VerifEngineShard
	next uint64
	rows map[uint64]map[string]string // shard -> "mst|s|t" -> fi
	kind string

	series  map[uint64]map[string]bool // shard -> "mst|s" -> the series exists (not dropped)
	memDel  map[string]bool            // "db/rp" -> the policy's deleted set in memory is not empty
	diskDel map[string]bool            // "db/rp" -> ... on disk
	fin     map[uint64]func() error    // shard -> second half of a merge of parts of its index
	stopped map[uint64]bool
}

func (h *engHist) liveOf(db, rp string) []engine.VerifEngineShard {
	var out []engine.VerifEngineShard
	for _, s := range h.live {
		if s.DB == db && (rp == "" || s.RP == rp) {
			out = append(out, s)
		}
	}
	return out
}

func (h *engHist) isLive(id uint64) bool {
	for _, s := range h.live {
		if s.ShardID == id {
			return true
		}
	}
	return false
}

func (h *engHist) emit(op string, f func() error) string {
	var err error
	perr := hx.Safe(func() { err = f() })
	ans := "ok"
	if perr != "" || err != nil {
		ans = errText(perr, err)
	}
	h.c.Emit(op, ans)
	return ans
}

// tree lists the directories below data/ and wal/ in the model's terms.
func (h *engHist) tree() string {
	var out []string
	for _, root := range []string{"data", "wal"} {
		dbs, _ := os.ReadDir(filepath.Join(h.dir, root))
		for _, db := range dbs {
			if !db.IsDir() {
				continue
			}
			out = append(out, root+"/"+db.Name())
			pts, _ := os.ReadDir(filepath.Join(h.dir, root, db.Name()))
			for _, pt := range pts {
				if !pt.IsDir() {
					continue
				}
				rps, _ := os.ReadDir(filepath.Join(h.dir, root, db.Name(), pt.Name()))
				for _, rp := range rps {
					if !rp.IsDir() {
						continue
					}
					base := filepath.Join(h.dir, root, db.Name(), pt.Name(), rp.Name())
					ents, _ := os.ReadDir(base)
					n := 0
					for _, en := range ents {
						if !en.IsDir() {
							continue
						}
						if en.Name() == "index" {
							ixs, _ := os.ReadDir(filepath.Join(base, "index"))
							for _, ix := range ixs {
								id := strings.SplitN(ix.Name(), "_", 2)[0]
								if v, err := strconv.ParseUint(id, 10, 64); err == nil && v == ^uint64(0) {
									continue // the deleted-tsid index of the policy
								}
								out = append(out, fmt.Sprintf("%s/%s/%s/index/%s", root, db.Name(), rp.Name(), id))
								n++
							}
							continue
						}
						out = append(out, fmt.Sprintf("%s/%s/%s/shard/%s", root, db.Name(), rp.Name(), strings.SplitN(en.Name(), "_", 2)[0]))
						n++
					}
					if n == 0 {
						out = append(out, fmt.Sprintf("%s/%s/%s/empty", root, db.Name(), rp.Name()))
					}
				}
			}
		}
	}
	sort.Strings(out)
	return "tree " + strings.Join(out, ",")
}

func (h *engHist) specTree() string {
	set := map[string]bool{}
	for _, s := range h.all {
		set["data/"+s.DB] = true
		set["wal/"+s.DB] = true
	}
	for _, s := range h.live {
		set[fmt.Sprintf("data/%s/%s/index/%d", s.DB, s.RP, s.IndexID)] = true
		set[fmt.Sprintf("data/%s/%s/shard/%d", s.DB, s.RP, s.ShardID)] = true
		set[fmt.Sprintf("wal/%s/%s/shard/%d", s.DB, s.RP, s.ShardID)] = true
	}
	var out []string
	for k := range set {
		out = append(out, k)
	}
	sort.Strings(out)
	return "tree " + strings.Join(out, ",")
}

func (h *engHist) observe(tag string) {
	// what the engine holds
	var ls []string
	for _, l := range h.e.Loaded() {
		if strings.HasPrefix(l, "delindex ") {
			continue
		}
		f := strings.Fields(l)
		p := strings.Split(f[1], "/")
		ls = append(ls, fmt.Sprintf("%s/%s/%s/%s", p[0], p[1], f[0], p[2]))
	}
	sort.Strings(ls)
	got := "loaded " + strings.Join(ls, ",")
	line := h.c.Emit("eloaded", got)
	var want []string
	for _, s := range h.live {
		want = append(want, fmt.Sprintf("%s/%s/index/%d", s.DB, s.RP, s.IndexID), fmt.Sprintf("%s/%s/shard/%d", s.DB, s.RP, s.ShardID))
	}
	sort.Strings(want)
	if w := "loaded " + strings.Join(want, ","); got != w {
		h.c.Violation(line, "", fmt.Sprintf("engine history %d after %s (%s): the engine holds %q, the catalogue lists %q", h.idx, tag, h.kind, got, w))
	}
	got = h.tree()
	line = h.c.Emit("etree", got)
	if w := h.specTree(); got != w {
		h.c.Violation(line, "", fmt.Sprintf("engine history %d after %s (%s): directories %q, expected %q", h.idx, tag, h.kind, got, w))
	}
	h.c.Count("read:engine-tree")
	// every shard ever made, both measurements
	for _, s := range h.all {
		for _, mst := range []string{"m", "n"} {
			got := "notloaded"
			if sh := h.e.Shard(s); sh != nil {
				var rows []engine.VerifRow
				var err error
				perr := hx.Safe(func() {
					rows, err = sh.Dump(mst, []engine.VerifField{{Name: "fi", Type: influxql.Integer}}, engx.TimeOf(0), engx.TimeOf(40), true)
				})
				if perr != "" || err != nil {
					got = errText(perr, err)
				} else {
					var cells []string
					for _, r := range rows {
						cells = append(cells, fmt.Sprintf("%d:%d:%s", engx.SeriesIndex(r.Series), (r.Time-engx.BaseTime)/1e9, cellText(r.Vals[0])))
					}
					sort.Slice(cells, func(a, b int) bool {
						x, y := strings.Split(cells[a], ":"), strings.Split(cells[b], ":")
						if x[0] != y[0] {
							return x[0] < y[0]
						}
						xi, _ := strconv.Atoi(x[1])
						yi, _ := strconv.Atoi(y[1])
						return xi < yi
					})
					got = "rows " + strings.Join(cells, "|")
				}
			}
			line := h.c.Emit(fmt.Sprintf("edump %d %s", s.ShardID, mst), got)
			want := "notloaded"
			if h.isLive(s.ShardID) {
				var keys []string
				for k := range h.rows[s.ShardID] {
					if strings.HasPrefix(k, mst+"|") {
						keys = append(keys, k)
					}
				}
				sort.Slice(keys, func(a, b int) bool {
					x, y := strings.Split(keys[a], "|"), strings.Split(keys[b], "|")
					if x[1] != y[1] {
						return x[1] < y[1]
					}
					xi, _ := strconv.Atoi(x[2])
					yi, _ := strconv.Atoi(y[2])
					return xi < yi
				})
				var cells []string
				for _, k := range keys {
					p := strings.Split(k, "|")
					cells = append(cells, fmt.Sprintf("%s:%s:%s", p[1], p[2], h.rows[s.ShardID][k]))
				}
				want = "rows " + strings.Join(cells, "|")
			}
			h.c.Count("read:engine-dump")
			if got != want {
				h.c.Violation(line, "", fmt.Sprintf("engine history %d after %s (%s): shard %d (%s.%s) measurement %s reads %q, the writes minus the drops give %q", h.idx, tag, h.kind, s.ShardID, s.DB, s.RP, mst, got, want))
			}
		}
	}
}

func (h *engHist) endMerges() {
	var ids []uint64
	for id := range h.fin {
		ids = append(ids, id)
	}
	sort.Slice(ids, func(a, b int) bool { return ids[a] < ids[b] })
	for _, id := range ids {
		fin := h.fin[id]
		delete(h.fin, id)
		h.emit(fmt.Sprintf("emend %d", id), fin)
		h.kind += "e"
		h.c.Count("op:engine-index-merge-end")
	}
}

func (h *engHist) open() error {
	e, err := engine.VerifOpenDropEngine(h.dir, h.live)
	if err != nil {
		return err
	}
	h.e = e
	h.stopped = map[uint64]bool{}
	for _, s := range h.live {
		h.e.StopIndexBackground(s)
	}
	return nil
}

// seriesObs: SHOW SERIES on the index of every live shard, both measurements.
func (h *engHist) seriesObs(tag string) {
	for _, s := range h.live {
		for _, mst := range []string{"m", "n"} {
			var keys []string
			var err error
			perr := hx.Safe(func() { keys, err = h.e.SeriesKeys(s, mst) })
			got := ""
			if perr != "" || err != nil {
				got = errText(perr, err)
			} else {
				var ids []int
				for _, k := range keys {
					ids = append(ids, engx.SeriesIndex(k))
				}
				sort.Ints(ids)
				var ts []string
				for _, i := range ids {
					ts = append(ts, fmt.Sprint(i))
				}
				got = "keys " + strings.Join(ts, ",")
			}
			line := h.c.Emit(fmt.Sprintf("eseries %d %s", s.ShardID, mst), got)
			var want []string
			for i := 0; i < 3; i++ {
				if h.series[s.ShardID][fmt.Sprintf("%s|%d", mst, i)] {
					want = append(want, fmt.Sprint(i))
				}
			}
			h.c.Count("read:engine-series")
			if w := "keys " + strings.Join(want, ","); got != w {
				h.c.Violation(line, "", fmt.Sprintf("engine history %d after %s (%s): SHOW SERIES of %s on shard %d (%s.%s, index %d) answers %q, the writes minus the drops give %q", h.idx, tag, h.kind, mst, s.ShardID, s.DB, s.RP, s.IndexID, got, w))
			}
		}
	}
}

func runEngineHistory(c *hx.Ctx, r *hx.Rng, idx int, prelude bool) error {
	h := &engHist{c: c, r: r, idx: idx, dir: engx.FastScratchDir("c13eng"), next: 1, rows: map[uint64]map[string]string{},
		series: map[uint64]map[string]bool{}, memDel: map[string]bool{}, diskDel: map[string]bool{}, fin: map[uint64]func() error{}, stopped: map[uint64]bool{}}
	engine.VerifSlotBase = engx.BaseTime
	defer func() { os.RemoveAll(h.dir) }()
	if err := h.open(); err != nil {
		return err
	}
	c.Emit(fmt.Sprintf("eopen %d", idx), "ok")
	c.Count("history:engine")
	dbs, rps := []string{"db0", "db1"}, []string{"rp0", "rp1"}
	mk := func(db, rp string) {
		// the shards of one policy cover consecutive time windows (slot k: times 3(k-1) .. 3k-1), each with an index of its own
		slot := 1
		for _, x := range h.all {
			if x.DB == db && x.RP == rp && x.Slot >= slot {
				slot = x.Slot + 1
			}
		}
		s := engine.VerifEngineShard{DB: db, RP: rp, ShardID: h.next, IndexID: h.next, Slot: slot}
		h.next++
		if h.emit(fmt.Sprintf("emk %s %s %d %d", db, rp, s.ShardID, s.IndexID), func() error { return h.e.CreateShard(s) }) == "ok" {
			h.live = append(h.live, s)
			h.all = append(h.all, s)
			h.rows[s.ShardID] = map[string]string{}
			h.series[s.ShardID] = map[string]bool{}
			h.e.StopIndexBackground(s)
		}
		h.kind += "s"
		c.Count("op:engine-create-shard")
	}
	dropWhere := func(keep func(s engine.VerifEngineShard) bool) {
		var l []engine.VerifEngineShard
		for _, s := range h.live {
			if keep(s) {
				l = append(l, s)
			} else {
				delete(h.rows, s.ShardID)
				delete(h.series, s.ShardID)
				delete(h.fin, s.ShardID)
			}
		}
		h.live = l
	}
	mk("db0", "rp0")
	mk("db0", "rp1")
	mk("db1", "rp0")
	h.observe("start")
	dropped := false
	nOps := 10 + r.Intn(18)
	// a forced continuation: (op selector, shard to use) pairs that the next steps take instead of random draws
	type forcedOp struct {
		p     int
		shard *engine.VerifEngineShard
		mst   string // for a write / a drop series: the measurement and the series (mst == "": random)
		ser   int
		last  bool // the shard is the youngest live shard of shard's policy
	}
	var forced []forcedOp
	if prelude {
		// every other engine history starts with a policy that has two indexes holding the same series: both are
		// written, one series is dropped from both, a merger takes the parts of the younger index, the drop-series
		// task runs (refused for the policy as a whole), the merge ends, the task runs again, the store restarts
		mk("db0", "rp0")
		a, b := h.live[0], h.live[len(h.live)-1]
		forced = []forcedOp{{p: 10, shard: &a, mst: "m", ser: 0}, {p: 10, shard: &b, mst: "m", ser: 0}, {p: 10, shard: &a, mst: "m", ser: 1},
			{p: 10, shard: &b, mst: "m", ser: 1}, {p: 72, shard: &a, mst: "m", ser: 0},
			{p: 80, shard: &b}, {p: 90}, {p: 85}, {p: 90}, {p: 99},
			// ... and a third shard of the policy is made after the restart (its index is younger than the policy's
			// deleted-tsid index), written, and one of its series dropped
			{p: 60, shard: &a}, {p: 10, shard: &a, mst: "m", ser: 1, last: true}, {p: 10, shard: &a, mst: "m", ser: 2, last: true},
			{p: 72, shard: &a, mst: "m", ser: 1}}
		c.Count("engine-history:two-index-policy-prelude")
	}
	for i := 0; i < nOps || len(forced) > 0; i++ {
		tag := ""
		p := r.Intn(100)
		var pick *engine.VerifEngineShard
		pickMst, pickSer := "", 0
		if len(forced) > 0 {
			p, pick, pickMst, pickSer = forced[0].p, forced[0].shard, forced[0].mst, forced[0].ser
			if forced[0].last && pick != nil {
				if l := h.liveOf(pick.DB, pick.RP); len(l) > 0 {
					y := l[len(l)-1]
					pick = &y
				}
			}
			forced = forced[1:]
		} else if p >= 70 && p < 94 && len(h.fin) == 0 && r.Chance(60) {
			// the purge meets a merge: in a policy whose deleted set is not empty (preferably one with
			// several indexes) a merger takes the parts of one index, the drop-series task runs, the
			// merge ends, the task runs again, the store restarts
			var cands, multi []engine.VerifEngineShard
			for _, s := range h.live {
				if h.memDel[s.DB+"/"+s.RP] {
					cands = append(cands, s)
					if len(h.liveOf(s.DB, s.RP)) > 1 {
						multi = append(multi, s)
					}
				}
			}
			if len(multi) > 0 {
				cands = multi
			}
			if len(cands) > 0 {
				s := cands[r.Intn(len(cands))]
				forced = []forcedOp{{p: 80, shard: &s}, {p: 90}, {p: 85}, {p: 90}, {p: 99}}
				c.Count("engine-history:purge-meets-merge")
				if len(multi) > 0 {
					c.Count("engine-history:purge-meets-merge-in-a-policy-with-several-indexes")
				}
				continue
			}
		}
		switch {
		case p < 30 && len(h.live) > 0:
			s := h.live[r.Intn(len(h.live))]
			mst := []string{"m", "n"}[r.Intn(2)]
			if pick != nil && h.isLive(pick.ShardID) {
				s = *pick
			}
			ser, t, v := r.Intn(3), 3*(s.Slot-1)+r.Intn(3), r.Intn(100)
			if pickMst != "" {
				mst, ser = pickMst, pickSer
			}
			row := engx.Row{Mst: mst, Series: ser, T: t, Fields: map[string]string{"fi": fmt.Sprint(v)}}
			if h.emit(fmt.Sprintf("ewrite %d %s %d %d %d", s.ShardID, mst, ser, t, v), func() error { return h.e.Write(s, engx.ToInflux([]engx.Row{row})) }) == "ok" {
				h.rows[s.ShardID][fmt.Sprintf("%s|%d|%d", mst, ser, t)] = fmt.Sprint(v)
				h.series[s.ShardID][fmt.Sprintf("%s|%d", mst, ser)] = true
			}
			h.kind += "w"
			tag = "write"
			c.Count("op:engine-write")
		case p < 36:
			h.emit("eflush", func() error { h.e.Flush(); return nil })
			h.kind += "f"
			tag = "flush"
			c.Count("op:engine-flush")
		case p < 44:
			h.endMerges()
			db := dbs[r.Intn(2)]
			mst := []string{"m", "n"}[r.Intn(2)]
			var ids []uint64
			var txt []string
			rp := ""
			for _, s := range h.liveOf(db, "") {
				if r.Chance(70) {
					ids = append(ids, s.ShardID)
					txt = append(txt, fmt.Sprint(s.ShardID))
					rp = s.RP
				}
			}
			if len(ids) == 0 {
				continue
			}
			h.emit(fmt.Sprintf("edropmst %s %s %s", db, mst, strings.Join(txt, ",")), func() error { return h.e.DropMeasurement(db, rp, mst, ids) })
			for _, id := range ids {
				for k := range h.rows[id] {
					if strings.HasPrefix(k, mst+"|") {
						delete(h.rows[id], k)
					}
				}
			}
			h.kind += "M"
			tag = "drop measurement"
			dropped = true
			c.Count("op:engine-drop-measurement")
		case p < 51:
			db, rp := dbs[r.Intn(2)], rps[r.Intn(2)]
			if len(h.liveOf(db, "")) == 0 {
				continue // the store has no partition of the database
			}
			h.endMerges()
			h.emit(fmt.Sprintf("edroprp %s %s", db, rp), func() error { return h.e.DropRetentionPolicy(db, rp) })
			dropWhere(func(s engine.VerifEngineShard) bool { return !(s.DB == db && s.RP == rp) })
			delete(h.memDel, db+"/"+rp)
			delete(h.diskDel, db+"/"+rp)
			h.kind += "P"
			tag = "drop retention policy"
			dropped = true
			c.Count("op:engine-drop-retention-policy")
		case p < 55:
			db := dbs[r.Intn(2)]
			h.endMerges()
			h.emit("edropdb "+db, func() error { return h.e.DeleteDatabase(db) })
			dropWhere(func(s engine.VerifEngineShard) bool { return s.DB != db })
			for _, rp := range rps {
				delete(h.memDel, db+"/"+rp)
				delete(h.diskDel, db+"/"+rp)
			}
			h.kind += "D"
			tag = "drop database"
			dropped = true
			c.Count("op:engine-drop-database")
		case p < 65:
			// a policy (or database) that has no shard gets one: created again after a drop, or new
			db, rp := dbs[r.Intn(2)], rps[r.Intn(2)]
			if pick != nil {
				db, rp = pick.DB, pick.RP
			}
			if len(h.liveOf(db, rp)) >= 3 {
				continue
			}
			mk(db, rp)
			tag = "create shard"
		case p < 77 && len(h.live) > 0:
			// DROP SERIES FROM mst WHERE host = ... on a database: every shard's index is searched, the tsids go
			// to the deleted-tsid index of the shard's policy; then the index flush interval passes
			db := dbs[r.Intn(2)]
			mst := []string{"m", "n"}[r.Intn(2)]
			ser := r.Intn(3)
			if pickMst != "" && pick != nil {
				db, mst, ser = pick.DB, pickMst, pickSer
			}
			if len(h.liveOf(db, "")) == 0 {
				continue
			}
			// rows of a dropped series that are still only in the memtable / WAL come back at the next
			// start (known finding unflushed_rows_then_crash): these histories flush first
			h.emit("eflush", func() error { h.e.Flush(); return nil })
			var n map[uint64]int
			var err error
			perr := hx.Safe(func() { n, err = h.e.DropSeries(db, mst, fmt.Sprintf("host = 'h%d'", ser)) })
			ans := "ok"
			if perr != "" || err != nil {
				ans = errText(perr, err)
			} else {
				var ts []string
				for _, s := range h.liveOf(db, "") {
					ts = append(ts, fmt.Sprintf("%d=%d", s.ShardID, n[s.ShardID]))
				}
				sort.Strings(ts)
				ans = "ok " + strings.Join(ts, ",")
			}
			line := h.c.Emit(fmt.Sprintf("edropseries %s %s %d", db, mst, ser), ans)
			var want []string
			for _, s := range h.liveOf(db, "") {
				k := fmt.Sprintf("%s|%d", mst, ser)
				c := 0
				if h.series[s.ShardID][k] {
					c = 1
					delete(h.series[s.ShardID], k)
					for rk := range h.rows[s.ShardID] {
						if strings.HasPrefix(rk, k+"|") {
							delete(h.rows[s.ShardID], rk)
						}
					}
					h.memDel[s.DB+"/"+s.RP], h.diskDel[s.DB+"/"+s.RP] = true, true
				}
				want = append(want, fmt.Sprintf("%d=%d", s.ShardID, c))
			}
			sort.Strings(want)
			if w := "ok " + strings.Join(want, ","); ans != w {
				h.c.Violation(line, "", fmt.Sprintf("engine history %d (%s): drop series selected %q, the predicate names %q", h.idx, h.kind, ans, w))
			}
			for _, s := range h.liveOf(db, "") {
				h.e.StopIndexBackground(s) // the deleted-tsid index of a policy is made by its first drop
				h.e.FlushIndexes(s)
			}
			h.kind += "d"
			tag = "drop series"
			dropped = true
			c.Count("op:engine-drop-series")
		case p < 83 && len(h.live) > 0:
			// a merger takes parts of one shard's index; the merge ends at a later step
			s := h.live[r.Intn(len(h.live))]
			if pick != nil && h.isLive(pick.ShardID) {
				s = *pick
			}
			if h.fin[s.ShardID] != nil {
				continue
			}
			parts, err := h.e.IndexParts(s)
			if err != nil || len(parts) == 0 {
				continue
			}
			var pos []int
			for i := range parts {
				pos = append(pos, i)
			}
			var k int
			var fin func() error
			perr := hx.Safe(func() { k, fin = h.e.BeginIndexMerge(s, pos) })
			ans := fmt.Sprintf("ok %d", k)
			if perr != "" {
				ans = "err " + perr
			}
			h.c.Emit(fmt.Sprintf("embegin %d", s.ShardID), "ok")
			_ = ans
			if k > 0 {
				h.fin[s.ShardID] = fin
			} else {
				h.emit(fmt.Sprintf("emend %d", s.ShardID), func() error { return nil })
			}
			h.kind += "b"
			tag = "index merge begins"
			c.Count("op:engine-index-merge-begin")
		case p < 86:
			h.endMerges()
			tag = "index merges end"
		case p < 94:
			// the periodic drop-series task of the store
			var err error
			perr := hx.Safe(func() { err = h.e.PurgeDeleted() })
			ans := "ok"
			switch {
			case perr != "":
				ans = "err " + strings.SplitN(perr, "\n", 2)[0]
			case err != nil && strings.Contains(err.Error(), "are being merged"):
				ans = "err parts-in-merge"
			case err != nil:
				ans = errText("", err)
			}
			line := h.c.Emit("epurge", ans)
			// a policy whose indexes could all be rewritten forgets its deleted tsids on disk
			refused := false
			pols := map[string][]engine.VerifEngineShard{}
			for _, s := range h.live {
				pols[s.DB+"/"+s.RP] = append(pols[s.DB+"/"+s.RP], s)
			}
			for pol, shards := range pols {
				if !h.memDel[pol] {
					continue
				}
				busy := false
				for _, s := range shards {
					if h.fin[s.ShardID] != nil {
						busy = true
					}
				}
				if busy {
					refused = true
				} else {
					h.diskDel[pol] = false
				}
			}
			want := "ok"
			if refused {
				want = "err parts-in-merge"
				c.Count("engine-purge:left-to-a-running-merge")
			}
			if ans != want {
				h.c.Violation(line, "", fmt.Sprintf("engine history %d (%s): the purge answered %q, expected %q", h.idx, h.kind, ans, want))
			}
			// what the deleted-tsid index of every policy still holds on disk
			for _, s := range h.live {
				dp, _ := h.e.DeletedParts(s)
				n := 0
				for _, p := range dp {
					n += len(p.Series)
				}
				if (n > 0) != h.diskDel[s.DB+"/"+s.RP] {
					h.c.Violation(line, "", fmt.Sprintf("engine history %d (%s): after the purge the deleted-tsid index of %s.%s holds %d tsids on disk; it must hold some iff an index of the policy could not be rewritten", h.idx, h.kind, s.DB, s.RP, n))
				}
			}
			h.kind += "p"
			tag = "purge"
			c.Count("op:engine-purge")
		default:
			h.endMerges()
			for pol := range h.memDel {
				h.memDel[pol] = h.diskDel[pol]
			}
			var ids []string
			for _, s := range h.live {
				ids = append(ids, fmt.Sprint(s.ShardID))
			}
			l := strings.Join(ids, ",")
			if l == "" {
				l = "-"
			}
			a := h.emit("erestart "+l, func() error {
				if err := h.e.Close(); err != nil {
					return err
				}
				return h.open()
			})
			h.kind += "r"
			tag = "restart"
			c.Count("op:engine-restart")
			if a != "ok" {
				return fmt.Errorf("engine restart failed: %s", a)
			}
		}
		h.observe(fmt.Sprintf("op %d %s", i, tag))
		h.seriesObs(fmt.Sprintf("op %d %s", i, tag))
	}
	h.endMerges()
	c.Case(fmt.Sprintf("engine:%d:%s", idx, h.kind), dropped)
	if a := h.emit("eclose", func() error { return h.e.Close() }); a != "ok" {
		c.Violation(0, "", fmt.Sprintf("engine history %d (%s): the clean shutdown of the engine failed after the drops: %s", h.idx, h.kind, a))
	}
	return nil
}
